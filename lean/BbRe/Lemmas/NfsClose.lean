import BbRe.Lemmas.NfsInv
/-!
# CLOSE really closes (C18.closed_means_closed)

`closeStartActs` (4.0 CLOSE / `removeStart`, first half of the 4.1 `remove`) leaves the open-owner
file without a share reservation of its own and without lock-owner files; `finalize` takes it out of
the maps; a record that is out of the maps exists only as long as in-flight I/O refers to it, and its
counters are exactly the clones of that I/O.  Core Lean only.
-/
namespace BbRe.Lemmas.NfsClose
open BbRe.NfsState BbRe.NfsShare BbRe.Lemmas.NfsInv

/-! ## `applyAll`, stickiness of `panic` -/

theorem applyAll_nil (s : State) : applyAll s [] = s := rfl

theorem applyAll_cons (s : State) (a : Act) (acts : List Act) :
    applyAll s (a :: acts) = applyAll (apply s a) acts := rfl

theorem applyAll_append (s : State) (xs ys : List Act) :
    applyAll s (xs ++ ys) = applyAll (applyAll s xs) ys := by
  unfold applyAll; exact List.foldl_append ..

theorem apply_of_panic {s : State} (h : s.panic.isSome = true) (a : Act) : apply s a = s := by
  unfold apply; rw [if_pos h]

theorem applyAll_of_panic {s : State} (h : s.panic.isSome = true) (acts : List Act) :
    applyAll s acts = s := by
  induction acts with
  | nil => rfl
  | cons a rest ih => rw [applyAll_cons, apply_of_panic h, ih]

/-- no panic at the end: no panic before -/
theorem panic_none_of_apply {s : State} {a : Act} (h : (apply s a).panic = none) : s.panic = none := by
  cases hp : s.panic with
  | none => rfl
  | some m =>
    have : s.panic.isSome = true := by rw [hp]; rfl
    rw [apply_of_panic this, hp] at h
    cases h

theorem panic_none_of_applyAll {s : State} {acts : List Act} (h : (applyAll s acts).panic = none) :
    s.panic = none := by
  cases hp : s.panic with
  | none => rfl
  | some m =>
    have : s.panic.isSome = true := by rw [hp]; rfl
    rw [applyAll_of_panic this, hp] at h
    cases h

theorem not_isSome_of_none {s : State} (h : s.panic = none) : ¬ (s.panic.isSome = true) := by
  rw [h]; simp

/-! ## `getFile` through the state updates -/

theorem getFile_congr {s s' : State} (h : s'.files = s.files) (sid : Nat) :
    s'.getFile sid = s.getFile sid := by
  unfold State.getFile; rw [h]

theorem getFile_modFile (s : State) (sid : Nat) (g : OFile → OFile) (hg : ∀ x, (g x).sid = x.sid)
    {f : OFile} (hf : s.getFile sid = some f) : (s.modFile sid g).getFile sid = some (g f) := by
  have hs : f.sid = sid := (NfsInvS.getFile_some hf).2
  unfold State.getFile State.modFile at *
  simp only [List.find?_map]
  have : ((fun f : OFile => f.sid == sid) ∘ fun f => if (f.sid == sid) = true then g f else f)
      = fun f : OFile => f.sid == sid := by
    funext x
    simp only [Function.comp]
    split
    · rw [hg]
    · rfl
  rw [this, hf]
  simp [hs]

theorem getFile_pushPend (s : State) (leaf : Nat) (m : Mask) (sid : Nat) :
    (s.pushPend leaf m).getFile sid = s.getFile sid := by
  unfold State.pushPend; split
  · rfl
  · rfl

/-! ## One round of the loop: unlock, remove, prune -/

/-- what a step keeps of the open-owner file `sid` -/
structure Keeps (g g' : OFile) : Prop where
  live : g'.live = g.live
  file : g'.file = g.file
  share : g'.share = g.share

theorem Keeps.rfl' (g : OFile) : Keeps g g := ⟨rfl, rfl, rfl⟩
theorem Keeps.trans {a b c : OFile} (h1 : Keeps a b) (h2 : Keeps b c) : Keeps a c :=
  ⟨h2.live.trans h1.live, h2.file.trans h1.file, h2.share.trans h1.share⟩

theorem getFile_unlockAllLofs (s : State) (sid lsid : Nat) (g : OFile) (hg : s.getFile sid = some g) :
    ∃ g1, (Do.unlockAllLofs s sid lsid).getFile sid = some g1 ∧ Keeps g g1 ∧
      g1.lofs.map (·.sid) = g.lofs.map (·.sid) := by
  unfold Do.unlockAllLofs
  rw [hg]
  simp only []
  split
  · split
    · exact ⟨g, hg, Keeps.rfl' g, rfl⟩
    · rw [getFile_modFile _ sid _ (by intro; rfl) (show (s.modPool _ _).getFile sid = some g from hg)]
      exact ⟨_, rfl, ⟨rfl, rfl, rfl⟩, NfsInvS.map_sid_lockCount ..⟩
  · exact ⟨g, hg, Keeps.rfl' g, rfl⟩

theorem filter_ne_of_notMem (lsid : Nat) : ∀ (tl : List LOFile), lsid ∉ tl.map (·.sid) →
    tl.filter (fun l => l.sid != lsid) = tl
  | [], _ => rfl
  | x :: tl, h => by
    simp only [List.map_cons, List.mem_cons, not_or] at h
    have hx : (x.sid != lsid) = true := by
      simp only [bne_iff_ne, ne_eq]; exact fun e => h.1 e.symm
    rw [List.filter_cons, if_pos hx, filter_ne_of_notMem lsid tl h.2]

/-- `removeLofs` of the first lock-owner file: unless it panics, exactly that one goes -/
theorem getFile_removeLofs (s : State) (sid lsid : Nat) (g : OFile) (rest : List Nat)
    (hg : s.getFile sid = some g) (hl : g.lofs.map (·.sid) = lsid :: rest)
    (hnd : (g.lofs.map (·.sid)).Nodup) (hp : (Do.removeLofs s sid lsid).panic = none) :
    ∃ g1, (Do.removeLofs s sid lsid).getFile sid = some g1 ∧ Keeps g g1 ∧
      g1.lofs.map (·.sid) = rest := by
  cases hlofs : g.lofs with
  | nil => rw [hlofs] at hl; cases hl
  | cons l tl =>
    rw [hlofs] at hl hnd
    simp only [List.map_cons, List.cons.injEq] at hl
    obtain ⟨hl1, hl2⟩ := hl
    simp only [List.map_cons, List.nodup_cons] at hnd
    have hfind : g.lofs.find? (fun l => l.sid == lsid) = some l := by
      rw [hlofs, List.find?_cons]
      have : (l.sid == lsid) = true := by simp [hl1]
      rw [this]
    have hfilter : g.lofs.filter (fun l => l.sid != lsid) = tl := by
      rw [hlofs, List.filter_cons]
      have : (l.sid != lsid) = false := by simp [hl1]
      rw [this]
      simp only [Bool.false_eq_true, if_false]
      exact filter_ne_of_notMem lsid tl (hl1 ▸ hnd.1)
    unfold Do.removeLofs at hp ⊢
    rw [hg] at hp ⊢
    simp only [] at hp ⊢
    rw [hfind] at hp ⊢
    simp only [] at hp ⊢
    split at hp
    · simp [State.fail] at hp
    · rename_i hlc
      rw [if_neg hlc]
      split at hp
      · simp [State.fail] at hp
      · rw [getFile_pushPend, getFile_modFile _ sid _ (by intro; rfl) hg]
        refine ⟨_, rfl, ⟨rfl, rfl, rfl⟩, ?_⟩
        simp only []
        rw [hfilter, hl2]

theorem getFile_loPrune (s : State) (id sid : Nat) : (Do.loPrune s id).getFile sid = s.getFile sid := by
  unfold Do.loPrune; split
  · rfl
  · rfl

theorem none_subset (m : Mask) : Mask.none.subset m = true := by
  cases m; rfl

/-- the last step: the open gives up its own share reservation -/
theorem getFile_downgradeNone (s : State) (sid : Nat) (g : OFile)
    (hg : s.getFile sid = some g) (hlive : g.live = true)
    (hp : (Do.downgradeOpen s sid Mask.none).panic = none) :
    ∃ g1, (Do.downgradeOpen s sid Mask.none).getFile sid = some g1 ∧ g1.live = true ∧ g1.file = g.file ∧
      g1.share = Mask.none ∧ g1.lofs = g.lofs := by
  unfold Do.downgradeOpen at hp ⊢
  rw [hg] at hp ⊢
  simp only [hlive, none_subset, Bool.not_true, Bool.or_self, Bool.false_eq_true, if_false] at hp ⊢
  split at hp
  · simp [State.fail] at hp
  · rw [getFile_pushPend, getFile_modFile _ sid _ (by intro; rfl) hg]
    exact ⟨_, rfl, hlive, rfl, rfl, rfl⟩

/-! ## The loop -/

/-- the actions of `closeStartActs` for the lock-owner files `L` -/
def loopActs (sid : Nat) (L : List LOFile) : List Act :=
  L.flatMap (fun l => [Act.unlockAllLofs sid l.sid, Act.removeLofs sid l.sid, Act.loPrune l.lo]) ++
    [Act.downgradeOpen sid Mask.none]

theorem closeStartActs_eq {s : State} {sid : Nat} {f : OFile} (hf : s.getFile sid = some f) :
    closeStartActs s sid = loopActs sid f.lofs := by
  unfold closeStartActs loopActs; rw [hf]

theorem apply_eq {s : State} (h : s.panic = none) (a : Act) :
    apply s a = (match a with
      | .tick d => Do.tick s d
      | .setNow => Do.setNow s
      | .newClient long ver => Do.newClient s long ver
      | .touch cl => Do.touch s cl
      | .confirmClient cl => Do.confirmClient s cl
      | .dropClient cl => Do.dropClient s cl
      | .addSession cl k => Do.addSession s cl k
      | .delSession cl k => Do.delSession s cl k
      | .holdBegin tag cl => Do.holdBegin s tag cl
      | .holdEnd tag => Do.holdEnd s tag
      | .ooSet oo => Do.ooSet s oo
      | .ooDel cl key => Do.ooDel s cl key
      | .loRegister cl key => Do.loRegister s cl key
      | .loPrune id => Do.loPrune s id
      | .loSet id lastSeq resp => Do.loSet s id lastSeq resp
      | .vopen tag leaf m create trunc => Do.vopen s tag leaf m create trunc
      | .tempClose tag => Do.tempClose s tag
      | .tempToPend tag => Do.tempToPend s tag
      | .openNew tag cl owner => Do.openNew s tag cl owner
      | .openUpgrade tag sid => Do.openUpgrade s tag sid
      | .downgradeOpen sid new => Do.downgradeOpen s sid new
      | .addLofs sid lo => Do.addLofs s sid lo
      | .removeLofs sid lsid => Do.removeLofs s sid lsid
      | .unlockAllLofs sid lsid => Do.unlockAllLofs s sid lsid
      | .lockSet sid lsid lk => Do.lockSet s sid lsid lk
      | .finalize sid => Do.finalize s sid
      | .ioBegin tag sid m holds => Do.ioBegin s tag sid m holds
      | .ioEnd tag => Do.ioEnd s tag
      | .flush => Do.flush s
      | .setCur tag => Do.setCur s tag
      | .proto p => Do.setProto s p) := by
  unfold apply; rw [if_neg (not_isSome_of_none h)]
  cases a <;> rfl

theorem loop_clears (sid : Nat) : ∀ (L : List LOFile) (t : State) (g : OFile), Inv t →
    t.getFile sid = some g → g.live = true → L.map (·.sid) = g.lofs.map (·.sid) →
    (applyAll t (loopActs sid L)).panic = none →
    ∃ g', (applyAll t (loopActs sid L)).getFile sid = some g' ∧ g'.live = true ∧
      g'.share = Mask.none ∧ g'.lofs = [] ∧ g'.file = g.file
  | [], t, g, _, hg, hlive, hL, hp => by
    have hlofs : g.lofs = [] := by
      cases h : g.lofs with
      | nil => rfl
      | cons a b => rw [h] at hL; cases hL
    have e : applyAll t (loopActs sid []) = apply t (Act.downgradeOpen sid Mask.none) := rfl
    rw [e] at hp ⊢
    have hp0 := panic_none_of_apply hp
    rw [apply_eq hp0] at hp ⊢
    simp only [] at hp ⊢
    obtain ⟨g1, h1, h2, h3, h4, h5⟩ := getFile_downgradeNone t sid g hg hlive hp
    exact ⟨g1, h1, h2, h4, h5.trans hlofs, h3⟩
  | l :: L, t, g, hinv, hg, hlive, hL, hp => by
    have e : applyAll t (loopActs sid (l :: L)) =
        applyAll (apply (apply (apply t (Act.unlockAllLofs sid l.sid)) (Act.removeLofs sid l.sid))
          (Act.loPrune l.lo)) (loopActs sid L) := rfl
    rw [e] at hp ⊢
    have hp3 := panic_none_of_applyAll hp
    have hp2 := panic_none_of_apply hp3
    have hp1 := panic_none_of_apply hp2
    have hp0 := panic_none_of_apply hp1
    have i1 := inv_apply t (Act.unlockAllLofs sid l.sid) hinv
    have i2 := inv_apply _ (Act.removeLofs sid l.sid) i1
    have i3 := inv_apply _ (Act.loPrune l.lo) i2
    -- unlock
    obtain ⟨g1, hg1, k1, hl1⟩ : ∃ g1, (apply t (Act.unlockAllLofs sid l.sid)).getFile sid = some g1 ∧
        Keeps g g1 ∧ g1.lofs.map (·.sid) = g.lofs.map (·.sid) := by
      rw [apply_eq hp0]; exact getFile_unlockAllLofs t sid l.sid g hg
    have hl1' : g1.lofs.map (·.sid) = l.sid :: L.map (·.sid) := by
      rw [hl1, ← hL]; rfl
    have hnd := i1.s.lofsSidNodup g1 (NfsInvS.getFile_some hg1).1
    -- remove
    obtain ⟨g2, hg2, k2, hl2⟩ : ∃ g2, (apply (apply t (Act.unlockAllLofs sid l.sid))
        (Act.removeLofs sid l.sid)).getFile sid = some g2 ∧ Keeps g1 g2 ∧
        g2.lofs.map (·.sid) = L.map (·.sid) := by
      rw [apply_eq hp1] at hp2 ⊢
      exact getFile_removeLofs _ sid l.sid g1 _ hg1 hl1' hnd hp2
    -- prune
    have hg3 : (apply (apply (apply t (Act.unlockAllLofs sid l.sid)) (Act.removeLofs sid l.sid))
        (Act.loPrune l.lo)).getFile sid = some g2 := by
      rw [apply_eq hp2]; simp only []; rw [getFile_loPrune]; exact hg2
    have k := k1.trans k2
    obtain ⟨g', h1, h2, h3, h4, h5⟩ := loop_clears sid L _ g2 i3 hg3 (k.live.trans hlive) hl2.symm hp
    exact ⟨g', h1, h2, h3, h4, h5.trans k.file⟩

/-! ## The theorems -/

/-- CLOSE (first phase): unless the server panics, the open-owner file keeps no share reservation of
its own and no lock-owner file; what is left of its counters are the clones of in-flight I/O -/
theorem closeStart_clears (s : State) (h : Inv s) (sid : Nat) (f : OFile)
    (hf : s.getFile sid = some f) (hl : f.live = true)
    (hp : (applyAll s (closeStartActs s sid)).panic = none) :
    ∃ g, (applyAll s (closeStartActs s sid)).getFile sid = some g ∧ g.live = true ∧
      g.share = Mask.none ∧ g.lofs = [] ∧ g.file = f.file ∧
      ∀ bit, g.count.get bit =
        (applyAll s (closeStartActs s sid)).ios.countP (fun io => io.sid == sid && io.share.get bit) := by
  have hI := inv_applyAll s (closeStartActs s sid) h
  rw [closeStartActs_eq hf] at hp hI ⊢
  obtain ⟨g, h1, h2, h3, h4, h5⟩ := loop_clears sid f.lofs s f h hf hl rfl hp
  refine ⟨g, h1, h2, h3, h4, h5, ?_⟩
  intro bit
  have hm := NfsInvS.getFile_some h1
  rw [NfsInvG.count_eq_ios hI.k hm.1 h3 h4 bit, hm.2]

/-- what `finalize` leaves in `files`, unless it panics -/
theorem finalize_files (s : State) (sid : Nat) (g : OFile) (hg : s.getFile sid = some g)
    (hl : g.live = true) (hs : g.share = Mask.none) (hlo : g.lofs = [])
    (hp : (Do.finalize s sid).panic = none) :
    (Do.finalize s sid).files =
      (s.files.map (fun f => if f.sid == sid then { f with live := false } else f)).filter
        (fun f => f.live || s.ios.any (fun io => io.sid == f.sid)) ∧
    (Do.finalize s sid).ios = s.ios := by
  have hc : (!g.live || !g.share.isNone || !g.lofs.isEmpty) = false := by rw [hl, hs, hlo]; rfl
  unfold Do.finalize at hp ⊢
  rw [hg] at hp ⊢
  simp only [hc, Bool.false_eq_true, if_false] at hp ⊢
  split at hp
  · simp [State.fail] at hp
  · split at hp
    · simp [State.fail] at hp
    · rename_i h0
      rw [if_neg h0]
      exact ⟨rfl, rfl⟩

set_option linter.unusedVariables false in
/-- the finalising step removes the record from the maps; it survives only as long as I/O refers to it
(`Inv s` is not needed: kept for a uniform interface) -/
theorem finalize_removes (s : State) (h : Inv s) (sid : Nat) (g : OFile)
    (hg : s.getFile sid = some g) (hl : g.live = true) (hs : g.share = Mask.none) (hlo : g.lofs = [])
    (hp : (apply s (Act.finalize sid)).panic = none) :
    (∀ x ∈ (apply s (Act.finalize sid)).files, x.sid = sid → x.live = false) ∧
    ((∀ io ∈ s.ios, io.sid ≠ sid) → ∀ x ∈ (apply s (Act.finalize sid)).files, x.sid ≠ sid) := by
  have hp0 := panic_none_of_apply hp
  rw [apply_eq hp0] at hp ⊢
  simp only [] at hp ⊢
  have hF := (finalize_files s sid g hg hl hs hlo hp).1
  have h1 : ∀ x ∈ (Do.finalize s sid).files, x.sid = sid → x.live = false := by
    intro x hx hxs
    rw [hF, List.mem_filter, List.mem_map] at hx
    obtain ⟨⟨f0, _, rfl⟩, _⟩ := hx
    by_cases hs0 : f0.sid = sid
    · simp [hs0]
    · exfalso
      have : (f0.sid == sid) = false := by simp [hs0]
      simp only [this, Bool.false_eq_true, if_false] at hxs
      exact hs0 hxs
  refine ⟨h1, ?_⟩
  intro hio x hx hxs
  have hlive := h1 x hx hxs
  rw [hF, List.mem_filter] at hx
  have hany := hx.2
  rw [hlive, Bool.false_or, List.any_eq_true] at hany
  obtain ⟨io, hio', he⟩ := hany
  have : io.sid = x.sid := by simpa using he
  exact hio io hio' (this.trans hxs)

/-- the actions of `closeStartActs` do not touch the I/O records -/
theorem ios_loopActs (sid : Nat) : ∀ (L : List LOFile) (t : State),
    (applyAll t (loopActs sid L)).ios = t.ios
  | [], t => by
    have e : applyAll t (loopActs sid []) = apply t (Act.downgradeOpen sid Mask.none) := rfl
    rw [e]
    by_cases hp : t.panic.isSome = true
    · rw [apply_of_panic hp]
    · unfold apply; rw [if_neg hp]
      exact (NfsInvC.frame_downgradeOpen t sid Mask.none).2.2.2.1
  | l :: L, t => by
    have e : applyAll t (loopActs sid (l :: L)) =
        applyAll (apply (apply (apply t (Act.unlockAllLofs sid l.sid)) (Act.removeLofs sid l.sid))
          (Act.loPrune l.lo)) (loopActs sid L) := rfl
    have step : ∀ (u : State) (a : Act), (a = Act.unlockAllLofs sid l.sid ∨ a = Act.removeLofs sid l.sid ∨
        a = Act.loPrune l.lo) → (apply u a).ios = u.ios := by
      intro u a ha
      by_cases hp : u.panic.isSome = true
      · rw [apply_of_panic hp]
      · unfold apply; rw [if_neg hp]
        rcases ha with rfl | rfl | rfl
        · exact (NfsInvC.frame_unlockAllLofs u sid l.sid).2.2.2.1
        · exact (NfsInvC.frame_removeLofs u sid l.sid).2.2.2.1
        · exact (NfsInvC.frame_loPrune u l.lo).2.2.2.1
    rw [e, ios_loopActs sid L, step _ _ (Or.inr (Or.inr rfl)), step _ _ (Or.inr (Or.inl rfl)),
      step _ _ (Or.inl rfl)]

theorem ios_closeStartActs (s : State) (sid : Nat) : (applyAll s (closeStartActs s sid)).ios = s.ios := by
  cases hf : s.getFile sid with
  | none => unfold closeStartActs; rw [hf]; rfl
  | some f => rw [closeStartActs_eq hf]; exact ios_loopActs sid f.lofs s

/-- both together -/
theorem close_removes (s : State) (h : Inv s) (sid : Nat) (f : OFile)
    (hf : s.getFile sid = some f) (hl : f.live = true)
    (hp : (applyAll s (closeAndFinalizeActs s sid)).panic = none) :
    let s' := applyAll s (closeAndFinalizeActs s sid)
    (∀ x ∈ s'.files, x.sid = sid → x.live = false ∧ x.share = Mask.none ∧ x.lofs = []) ∧
    ((∀ io ∈ s.ios, io.sid ≠ sid) → ∀ x ∈ s'.files, x.sid ≠ sid) := by
  intro s'
  have hI : Inv s' := inv_applyAll s _ h
  have e : s' = apply (applyAll s (closeStartActs s sid)) (Act.finalize sid) := by
    show applyAll s (closeStartActs s sid ++ [Act.finalize sid]) = _
    rw [applyAll_append]; rfl
  have hp' : (apply (applyAll s (closeStartActs s sid)) (Act.finalize sid)).panic = none := e ▸ hp
  have hIt : Inv (applyAll s (closeStartActs s sid)) := inv_applyAll s _ h
  obtain ⟨g, h1, h2, h3, h4, _, _⟩ := closeStart_clears s h sid f hf hl (panic_none_of_apply hp')
  obtain ⟨r1, r2⟩ := finalize_removes _ hIt sid g h1 h2 h3 h4 hp'
  rw [← e] at r1 r2
  refine ⟨?_, ?_⟩
  · intro x hx hxs
    have hd := r1 x hx hxs
    exact ⟨hd, hI.s.deadClean x hx hd⟩
  · intro hio
    apply r2
    rw [ios_closeStartActs]
    exact hio

/-- a record that left the maps contributes to the ledger only through in-flight I/O: once no I/O
refers to it, it does not exist (any reachable state) -/
theorem dead_only_io (s : State) (h : Inv s) (x : OFile) (hx : x ∈ s.files) (hd : x.live = false) :
    x.share = Mask.none ∧ x.lofs = [] ∧ (∃ io ∈ s.ios, io.sid = x.sid) ∧
    ∀ bit, x.count.get bit = s.ios.countP (fun io => io.sid == x.sid && io.share.get bit) := by
  obtain ⟨h1, h2⟩ := h.s.deadClean x hx hd
  exact ⟨h1, h2, h.s.deadUsed x hx hd, fun bit => NfsInvG.count_eq_ios h.k hx h1 h2 bit⟩

/-! ## Non-vacuity: a reachable state with an open, a lock-owner file and I/O in flight, whose CLOSE
does not panic -/

def exState : State := applyAll (init 41 1)
  [Act.newClient 1 1, Act.confirmClient 1, Act.vopen 7 0 Mask.both false false, Act.openNew 7 1 5,
   Act.loRegister 1 9, Act.addLofs 2 3, Act.ioBegin 8 2 Mask.read false]

example : Inv exState := inv_reachable 41 1 _

example : ∃ f, exState.getFile 2 = some f ∧ f.live = true ∧ f.lofs.length = 1 ∧
    exState.ios.length = 1 ∧
    (applyAll exState (closeStartActs exState 2)).panic = none ∧
    (applyAll exState (closeAndFinalizeActs exState 2)).panic = none :=
  ⟨_, rfl, rfl, rfl, rfl, rfl, rfl⟩

/-- the record survives CLOSE + finalize as a dead record (hypothesis of `dead_only_io`) -/
example : ∃ x ∈ (applyAll exState (closeAndFinalizeActs exState 2)).files, x.live = false :=
  ⟨_, List.mem_cons_self, rfl⟩

end BbRe.Lemmas.NfsClose
