import BbRe.Lemmas.FairDynTree
import BbRe.Lemmas.FairHandoffLive
/-!
The third heap, `idleSynchronizingWorkersChildren`.  Its `Less` is not a strict weak order
(`idleLess_not_strictWeak`), so the heap property is *not* an invariant of the update functions.
What does hold, for any comparison whatsoever: every update permutes the references and the heap
lists exactly the children that have parked workers at or below them, without duplicates
(`ParkedTree`) — which is what the hand-off theorems need (`ParkedListed`, `ParkedSound`).
-/
namespace BbRe.Lemmas.Fair
open BbRe.Fair BbRe.GoHeap BbRe.Lemmas.GoHeap

/-! ### `heap.Remove` permutes, for any `Less` -/

theorem removePrep_perm_last {α : Type} (less : α → α → Bool) (a : Array α) (i : Nat) (hi : i < a.size) :
    (removePrep less a i).size = a.size ∧ (removePrep less a i).Perm a ∧
      (removePrep less a i)[a.size - 1]? = a[i]? := by
  unfold removePrep
  simp only []
  split
  · rename_i hne
    have hin : i < a.size - 1 := by omega
    have hn : a.size - 1 < a.size := by omega
    show (siftBoth less (swp a i (a.size - 1)) i (a.size - 1)).size = a.size ∧ _ ∧
      (siftBoth less (swp a i (a.size - 1)) i (a.size - 1))[a.size - 1]? = a[i]?
    refine ⟨by rw [siftBoth_size, size_swp], (siftBoth_perm _ _ _ _).trans (swp_perm _ _ _), ?_⟩
    rw [siftBoth_frame less _ i (a.size - 1) (a.size - 1) (by simp) hin (Nat.le_refl _),
      getElem?_swp a _ _ _ hi hn]
    unfold tr
    simp [hne]
  · rename_i heq
    simp only [ne_eq, Decidable.not_not] at heq
    exact ⟨rfl, Array.Perm.refl _, by rw [heq]⟩

theorem remove_perm_any {α : Type} (less : α → α → Bool) (a : Array α) (i : Nat) (hi : i < a.size) :
    ((remove less a i).1.push a[i]).Perm a := by
  obtain ⟨hsz, hperm, hlast⟩ := removePrep_perm_last less a i hi
  unfold remove
  simp only []
  have hback : (removePrep less a i).back? = some a[i] := by
    rw [Array.back?_eq_getElem?, hsz, hlast, Array.getElem?_eq_getElem hi]
  rw [push_pop_back _ _ hback]; exact hperm

/-! ### one level -/

structure POk (P : Inv) : Prop where
  keys : (P.kids.map Inv.key).Nodup
  pnodup : P.parkedKids.Nodup
  psub : ∀ k ∈ P.parkedKids, ∃ c ∈ P.kids, c.key = k ∧ c.hasParked = true
  psup : ∀ c ∈ P.kids, c.hasParked = true → c.key ∈ P.parkedKids

inductive ParkedTree : Inv → Prop
  | mk (t : Inv) (ok : POk t) (kids : ∀ c ∈ t.kids, ParkedTree c) : ParkedTree t

theorem parkedTree_iff (t : Inv) : ParkedTree t ↔ POk t ∧ ∀ c ∈ t.kids, ParkedTree c :=
  ⟨fun h => by cases h with | mk _ h1 h2 => exact ⟨h1, h2⟩, fun h => ParkedTree.mk t h.1 h.2⟩

theorem pOk_congr (i j : Inv) (hk : j.kids = i.kids) (hq : j.parkedKids = i.parkedKids) (h : POk i) : POk j :=
  ⟨by rw [hk]; exact h.keys, by rw [hq]; exact h.pnodup, by rw [hq, hk]; exact h.psub, by rw [hq, hk]; exact h.psup⟩

theorem parkedTree_congr (i j : Inv) (hk : j.kids = i.kids) (hq : j.parkedKids = i.parkedKids)
    (h : ParkedTree i) : ParkedTree j := by
  rw [parkedTree_iff] at h ⊢
  exact ⟨pOk_congr i j hk hq h.1, by rw [hk]; exact h.2⟩

theorem pOk_level (P c c'' N : Inv) (hP : POk P) (hc : c ∈ P.kids) (hk : c''.key = c.key)
    (hNk : N.kids = replaceKid P.kids c'') (hnd : N.parkedKids.Nodup)
    (hmem : ∀ x, x ∈ N.parkedKids ↔ (x ∈ P.parkedKids ∧ x ≠ c.key) ∨ (x = c.key ∧ c''.hasParked = true)) :
    POk N := by
  constructor
  · rw [hNk, replaceKid_keys]; exact hP.keys
  · exact hnd
  · intro x hx
    rw [hNk]
    rcases (hmem x).mp hx with ⟨hxq, hne⟩ | ⟨rfl, hq⟩
    · obtain ⟨d, hd, hdk, hdq⟩ := hP.psub x hxq
      exact ⟨d, (mem_replaceKid _ _ _).mpr (Or.inr ⟨hd, by rw [hdk, hk]; exact hne⟩), hdk, hdq⟩
    · exact ⟨c'', (mem_replaceKid _ _ _).mpr (Or.inl ⟨rfl, c, hc, hk.symm⟩), hk, hq⟩
  · intro d hd hdq
    rw [hNk] at hd
    rcases (mem_replaceKid _ _ _).mp hd with ⟨rfl, _⟩ | ⟨hdk, hne⟩
    · exact (hmem _).mpr (Or.inr ⟨hk, hdq⟩)
    · exact (hmem _).mpr (Or.inl ⟨hP.psup d hdk hdq, by rw [← hk]; exact hne⟩)

theorem mem_parkedKids_iff (P c : Inv) (hP : POk P) (hc : c ∈ P.kids) :
    c.key ∈ P.parkedKids ↔ c.hasParked = true := by
  constructor
  · intro h
    obtain ⟨d, hd, hdk, hdq⟩ := hP.psub c.key h
    rw [kid_unique P.kids hP.keys c d hc hd hdk] at hdq
    exact hdq
  · exact hP.psup c hc

/-- The reference list after the heap operation the code performs, given whether the child is
in the heap (`refIndex`) and whether it has parked workers afterwards. -/
theorem pOk_fix (less : Nat → Nat → Bool) (P c c'' N : Inv) (hP : POk P) (hc : c ∈ P.kids) (hk : c''.key = c.key)
    (hNk : N.kids = replaceKid P.kids c'') (idx : Nat) (hidx : refIndex P.parkedKids c.key = some idx)
    (hq : c''.hasParked = true) (hNq : N.parkedKids = (fix less P.parkedKids.toArray idx).toList) : POk N := by
  have hperm := fix_perm less P.parkedKids.toArray idx
  apply pOk_level P c c'' N hP hc hk hNk
  · rw [hNq]; exact nodup_of_perm_toList hperm (by simpa using hP.pnodup)
  · intro x
    rw [hNq, mem_of_perm_toList hperm]
    simp only [hq, and_true]
    constructor
    · intro hx
      by_cases hxk : x = c.key
      · exact Or.inr hxk
      · exact Or.inl ⟨hx, hxk⟩
    · rintro (⟨hx, _⟩ | rfl)
      · exact hx
      · exact mem_of_refIndex _ _ _ hidx

theorem pOk_push (less : Nat → Nat → Bool) (P c c'' N : Inv) (hP : POk P) (hc : c ∈ P.kids) (hk : c''.key = c.key)
    (hNk : N.kids = replaceKid P.kids c'') (hidx : refIndex P.parkedKids c.key = none)
    (hq : c''.hasParked = true) (hNq : N.parkedKids = (push less P.parkedKids.toArray c''.key).toList) : POk N := by
  have hkq : c.key ∉ P.parkedKids := (refIndex_none_iff _ _).mp hidx
  have hperm := push_perm less P.parkedKids.toArray c''.key
  apply pOk_level P c c'' N hP hc hk hNk
  · rw [hNq]
    apply nodup_of_perm_toList hperm
    simp only [Array.toList_push]
    rw [List.nodup_append]
    refine ⟨hP.pnodup, by simp, ?_⟩
    intro a ha b hb
    simp only [List.mem_singleton] at hb
    subst hb
    intro hab; subst hab; rw [hk] at ha; exact hkq ha
  · intro x
    rw [hNq, mem_of_perm_toList hperm]
    simp only [Array.toList_push, List.mem_append, List.mem_singleton, hq, and_true, hk]
    constructor
    · rintro (hx | rfl)
      · exact Or.inl ⟨hx, fun h => hkq (h ▸ hx)⟩
      · exact Or.inr rfl
    · rintro (⟨hx, _⟩ | rfl)
      · exact Or.inl hx
      · exact Or.inr rfl

theorem pOk_remove (less : Nat → Nat → Bool) (P c c'' N : Inv) (hP : POk P) (hc : c ∈ P.kids) (hk : c''.key = c.key)
    (hNk : N.kids = replaceKid P.kids c'') (idx : Nat) (hidx : refIndex P.parkedKids c.key = some idx)
    (hq : c''.hasParked = false) (hNq : N.parkedKids = (remove less P.parkedKids.toArray idx).1.toList) : POk N := by
  obtain ⟨hlt, hget⟩ := refIndex_some _ _ _ hidx
  have hsz : idx < P.parkedKids.toArray.size := by simpa using hlt
  have hperm := remove_perm_any less P.parkedKids.toArray idx hsz
  have hidxv : P.parkedKids.toArray[idx] = c.key := by
    have : P.parkedKids.toArray[idx]? = some c.key := by simpa using hget
    rw [Array.getElem?_eq_getElem hsz] at this
    exact Option.some.inj this
  rw [hidxv] at hperm
  have hnd0 : ((remove less P.parkedKids.toArray idx).1.push c.key).toList.Nodup :=
    nodup_of_perm_toList hperm (by simpa using hP.pnodup)
  simp only [Array.toList_push] at hnd0
  rw [List.nodup_append] at hnd0
  apply pOk_level P c c'' N hP hc hk hNk
  · rw [hNq]; exact hnd0.1
  · intro x
    have hm := mem_of_perm_toList hperm x
    simp only [Array.toList_push, List.mem_append, List.mem_singleton] at hm
    rw [hNq]
    simp only [hq, Bool.false_eq_true, and_false, or_false]
    constructor
    · intro hx
      exact ⟨hm.mp (Or.inl hx), fun hxk => hnd0.2.2 x hx c.key (by simp) hxk⟩
    · rintro ⟨hx, hne⟩
      rcases hm.mpr hx with h | h
      · exact h
      · exact absurd h hne

/-- The child's `hasParked` did not change and the list is unchanged. -/
theorem pOk_same (P c c'' N : Inv) (hP : POk P) (hc : c ∈ P.kids) (hk : c''.key = c.key)
    (hq : c''.hasParked = c.hasParked) (hNk : N.kids = replaceKid P.kids c'') (hNq : N.parkedKids = P.parkedKids) :
    POk N := by
  have hmq := mem_parkedKids_iff P c hP hc
  apply pOk_level P c c'' N hP hc hk hNk
  · rw [hNq]; exact hP.pnodup
  · intro x
    rw [hNq, hq]
    constructor
    · intro hx
      by_cases hxk : x = c.key
      · exact Or.inr ⟨hxk, hmq.mp (hxk ▸ hx)⟩
      · exact Or.inl ⟨hx, hxk⟩
    · rintro (⟨hx, _⟩ | ⟨rfl, h⟩)
      · exact hx
      · exact hmq.mpr h

/-! ### whole trees -/

theorem parkedTree_of_level (P c'' N : Inv) (hP : ParkedTree P) (hc'' : ParkedTree c'') (hN : POk N)
    (hNk : N.kids = replaceKid P.kids c'') : ParkedTree N := by
  rw [parkedTree_iff]
  refine ⟨hN, ?_⟩
  intro d hd
  rw [hNk] at hd
  rcases (mem_replaceKid _ _ _).mp hd with ⟨rfl, _⟩ | ⟨hd', _⟩
  · exact hc''
  · exact ((parkedTree_iff P).mp hP).2 d hd'

theorem hasParked_congr (i j : Inv) (hp : j.parked = i.parked) (hq : j.parkedKids = i.parkedKids) :
    j.hasParked = i.hasParked := by unfold Inv.hasParked; rw [hp, hq]

theorem hasParked_of_mem (N : Inv) (k : Nat) (h : k ∈ N.parkedKids) : N.hasParked = true := by
  unfold Inv.hasParked
  cases hq : N.parkedKids with
  | nil => rw [hq] at h; cases h
  | cons _ _ => simp

theorem hasParked_of_path (p : List Nat) : ∀ (c n : Inv), ParkedTree c → nodeAt c p = some n → n.parked ≠ [] →
    c.hasParked = true := by
  induction p with
  | nil =>
    intro c n _ h hne
    simp only [nodeAt, Option.some.injEq] at h
    subst h
    unfold Inv.hasParked
    cases hp : c.parked with
    | nil => exact absurd hp hne
    | cons _ _ => rfl
  | cons k p ih =>
    intro c n hc h hne
    simp only [nodeAt] at h
    cases hck : c.child k with
    | none => rw [hck] at h; cases h
    | some d =>
      rw [hck] at h
      obtain ⟨hdm, _⟩ := mem_of_child c k d hck
      have hq := (parkedTree_iff c).mp hc
      exact hasParked_of_mem c d.key (hq.1.psup d hdm (ih d n (hq.2 d hdm) h hne))

theorem park_spec (w : Nat) : ∀ (path : List Nat) (t : Inv), ParkedTree t → (nodeAt t path).isSome = true →
    ParkedTree (park w path t) ∧ (park w path t).key = t.key ∧ (park w path t).hasParked = true := by
  intro path
  induction path with
  | nil =>
    intro t ht _
    show ParkedTree (t.setParked _) ∧ (t.setParked _).key = t.key ∧ (t.setParked _).hasParked = true
    refine ⟨parkedTree_congr t _ (by simp) (by simp) ht, by simp, ?_⟩
    unfold Inv.hasParked
    simp
  | cons k p ih =>
    intro t ht hv
    obtain ⟨c, hck, hvc⟩ := child_of_nodeAt_cons t k p hv
    obtain ⟨hcmem, _⟩ := mem_of_child t k c hck
    have hq := (parkedTree_iff t).mp ht
    obtain ⟨hc't, hc'k, hc'q⟩ := ih c (hq.2 c hcmem) hvc
    unfold park at hc't hc'k hc'q ⊢
    rw [updatePath_cons _ _ k p t c hck]
    generalize updatePath _ upPark p c = c' at hc't hc'k hc'q
    have hN : POk (upPark t c') := by
      unfold upPark pushOrFix
      simp only []
      rw [hc'k]
      cases hidx : refIndex t.parkedKids c.key with
      | none =>
        rw [← hc'k]
        exact pOk_push (iLess (storeKid t c').kids) t c c' _ hq.1 hcmem hc'k (by simp [storeKid]) hidx hc'q (by simp)
      | some idx => exact pOk_fix (iLess (storeKid t c').kids) t c c' _ hq.1 hcmem hc'k (by simp [storeKid]) idx hidx hc'q (by simp)
    have hNk : (upPark t c').kids = replaceKid t.kids c' := by simp [upPark, storeKid]
    refine ⟨parkedTree_of_level t c' _ ht hc't hN hNk, by simp [upPark, storeKid], ?_⟩
    apply hasParked_of_mem _ c'.key
    apply hN.psup c' _ hc'q
    rw [hNk]; exact (mem_replaceKid _ _ _).mpr (Or.inl ⟨rfl, c, hcmem, hc'k.symm⟩)

theorem hasParked_iff_count (c : Inv) : c.hasParked = true ↔ 0 < c.parked.length + c.parkedKids.length := by
  unfold Inv.hasParked
  cases c.parked <;> cases c.parkedKids <;> simp <;> omega

theorem unpark_spec (idx : Nat) : ∀ (path : List Nat) (t n : Inv), ParkedTree t → nodeAt t path = some n →
    n.parked ≠ [] → ParkedTree (unpark idx path t) ∧ (unpark idx path t).key = t.key := by
  intro path
  induction path with
  | nil =>
    intro t n ht _ _
    show ParkedTree (t.setParked _) ∧ (t.setParked _).key = t.key
    exact ⟨parkedTree_congr t _ (by simp) (by simp) ht, by simp⟩
  | cons k p ih =>
    intro t n ht hn hne
    have hv : (nodeAt t (k :: p)).isSome = true := by rw [hn]; rfl
    obtain ⟨c, hck, _⟩ := child_of_nodeAt_cons t k p hv
    have hnc : nodeAt c p = some n := by simpa [nodeAt, hck] using hn
    obtain ⟨hcmem, _⟩ := mem_of_child t k c hck
    have hq := (parkedTree_iff t).mp ht
    obtain ⟨hc't, hc'k⟩ := ih c n (hq.2 c hcmem) hnc hne
    have hcp : c.hasParked = true := hasParked_of_path p c n (hq.2 c hcmem) hnc hne
    have hkin : c.key ∈ t.parkedKids := hq.1.psup c hcmem hcp
    unfold unpark at hc't hc'k ⊢
    rw [updatePath_cons _ _ k p t c hck]
    generalize updatePath _ upUnpark p c = c' at hc't hc'k
    have hNk : (upUnpark t c').kids = replaceKid t.kids c' := by
      unfold upUnpark; simp only []; split <;> simp [storeKid]
    have hN : POk (upUnpark t c') := by
      cases hidx : refIndex t.parkedKids c.key with
      | none => exact absurd hkin ((refIndex_none_iff _ _).mp hidx)
      | some j =>
        have hNq : (upUnpark t c').parkedKids =
            (removeOrFix (iLess (replaceKid t.kids c')) t.parkedKids.toArray j
              (c'.parked.length + c'.parkedKids.length)).toList := by
          unfold upUnpark; simp only []; rw [hc'k, hidx]; simp [storeKid]
        unfold removeOrFix at hNq
        by_cases hcount : c'.parked.length + c'.parkedKids.length > 0
        · rw [if_pos hcount] at hNq
          exact pOk_fix _ t c c' _ hq.1 hcmem hc'k hNk j hidx ((hasParked_iff_count c').mpr hcount) hNq
        · rw [if_neg hcount] at hNq
          have : c'.hasParked = false := by
            cases h : c'.hasParked with
            | false => rfl
            | true => exact absurd ((hasParked_iff_count c').mp h) hcount
          exact pOk_remove _ t c c' _ hq.1 hcmem hc'k hNk j hidx this hNq
    refine ⟨parkedTree_of_level t c' _ ht hc't hN hNk, ?_⟩
    unfold upUnpark; simp only []; split <;> simp [storeKid]

theorem rekey_parked (legacy : Bool) (g : Inv → Inv) (hg : KeyOnly g) : ∀ (path : List Nat) (t : Inv), ParkedTree t →
    ParkedTree (rekey legacy g path t) ∧ (rekey legacy g path t).key = t.key ∧
      (rekey legacy g path t).hasParked = t.hasParked := by
  intro path
  induction path with
  | nil =>
    intro t ht
    show ParkedTree (g t) ∧ (g t).key = t.key ∧ (g t).hasParked = t.hasParked
    exact ⟨parkedTree_congr t _ (hg.kids t) (hg.parkedKids t) ht, hg.key t,
      hasParked_congr t _ (hg.parked t) (hg.parkedKids t)⟩
  | cons k p ih =>
    intro t ht
    cases hck : t.child k with
    | none =>
      have : rekey legacy g (k :: p) t = t := by simp only [rekey, updatePath, hck]
      rw [this]; exact ⟨ht, rfl, rfl⟩
    | some c =>
      obtain ⟨hcmem, _⟩ := mem_of_child t k c hck
      have hq := (parkedTree_iff t).mp ht
      obtain ⟨hc't, hc'k, hc'q⟩ := ih c (hq.2 c hcmem)
      unfold rekey at hc't hc'k hc'q ⊢
      rw [updatePath_cons _ _ k p t c hck]
      generalize updatePath g (upRekey legacy g) p c = c' at hc't hc'k hc'q
      have hmq := mem_parkedKids_iff t c hq.1 hcmem
      obtain ⟨hrk, _, _, hrkey, hrp, hrq⟩ := upRekey_fields legacy g hg t c'
      rw [hc'k] at hrq
      generalize upRekey legacy g t c' = res at hrk hrkey hrp hrq
      have hN : POk res := by
        cases hidx : refIndex t.parkedKids c.key with
        | none =>
          rw [hidx] at hrq
          exact pOk_same t c c' res hq.1 hcmem hc'k hc'q hrk (by simpa [maybeFix] using hrq)
        | some idx =>
          rw [hidx] at hrq
          have : c'.hasParked = true := by rw [hc'q]; exact hmq.mp (mem_of_refIndex _ _ _ hidx)
          exact pOk_fix _ t c c' res hq.1 hcmem hc'k hrk idx hidx this (by simpa [maybeFix] using hrq)
      refine ⟨parkedTree_of_level t c' res ht hc't hN hrk, hrkey, ?_⟩
      unfold Inv.hasParked
      rw [hrp]
      congr 2
      rw [hrq]
      unfold maybeFix
      split
      · simp
      · rename_i j _
        have := fix_size (iLess (replaceKid t.kids c')) t.parkedKids.toArray j
        cases h1 : (fix (iLess (replaceKid t.kids c')) t.parkedKids.toArray j).toList with
        | nil =>
          have h2 := congrArg List.length h1
          simp only [Array.length_toList, this, List.size_toArray, List.length_nil] at h2
          cases h3 : t.parkedKids with
          | nil => rfl
          | cons _ _ => rw [h3] at h2; simp at h2
        | cons _ _ =>
          have h2 := congrArg List.length h1
          simp only [Array.length_toList, this, List.size_toArray, List.length_cons] at h2
          cases h3 : t.parkedKids with
          | nil => rw [h3] at h2; simp at h2
          | cons _ _ => rfl

/-- Walks that do not touch the parked workers (`enqueue`, `removeQueuedFromInvocation`). -/
theorem parked_frame (leaf : Inv → Inv) (up : Inv → Inv → Inv) (adj : Inv → Inv)
    (hl : ∀ i, (leaf i).key = i.key ∧ (leaf i).kids = i.kids ∧ (leaf i).parked = i.parked ∧
      (leaf i).parkedKids = i.parkedKids)
    (ha : ∀ i, (adj i).key = i.key ∧ (adj i).kids = i.kids ∧ (adj i).parked = i.parked ∧
      (adj i).parkedKids = i.parkedKids)
    (hu : ∀ P c', (up P c').key = P.key ∧ (up P c').kids = replaceKid P.kids (adj c') ∧
      (up P c').parked = P.parked ∧ (up P c').parkedKids = P.parkedKids) :
    ∀ (path : List Nat) (t : Inv), ParkedTree t →
      ParkedTree (updatePath leaf up path t) ∧ (updatePath leaf up path t).key = t.key ∧
      (updatePath leaf up path t).hasParked = t.hasParked := by
  intro path
  induction path with
  | nil =>
    intro t ht
    obtain ⟨h1, h2, h3, h4⟩ := hl t
    exact ⟨parkedTree_congr t _ h2 h4 ht, h1, hasParked_congr t _ h3 h4⟩
  | cons k p ih =>
    intro t ht
    cases hck : t.child k with
    | none =>
      have : updatePath leaf up (k :: p) t = t := by simp only [updatePath, hck]
      rw [this]; exact ⟨ht, rfl, rfl⟩
    | some c =>
      obtain ⟨hcmem, _⟩ := mem_of_child t k c hck
      have hq := (parkedTree_iff t).mp ht
      obtain ⟨hc't, hc'k, hc'q⟩ := ih c (hq.2 c hcmem)
      rw [updatePath_cons _ _ k p t c hck]
      generalize updatePath leaf up p c = c' at hc't hc'k hc'q
      obtain ⟨a1, a2, a3, a4⟩ := ha c'
      obtain ⟨u1, u2, u3, u4⟩ := hu t c'
      have hN : POk (up t c') :=
        pOk_same t c (adj c') _ hq.1 hcmem (by rw [a1, hc'k]) (by rw [hasParked_congr c' _ a3 a4, hc'q]) u2 u4
      exact ⟨parkedTree_of_level t (adj c') _ ht (parkedTree_congr c' _ a2 a4 hc't) hN u2, u1,
        hasParked_congr t _ u3 u4⟩

theorem parked_enqueue (o : Op) (path : List Nat) (t : Inv) (h : ParkedTree t) : ParkedTree (enqueue path o t) :=
  (parked_frame _ upEnqueue updateFirstOperationPriority (by simp)
    (fun i => by obtain ⟨f1, f2, _, _, _, _, f7, f8⟩ := updateFirst_fields i; exact ⟨f1, f2, f7, f8⟩)
    (by intro P c'; simp [upEnqueue, storeKid]) path t h).1

theorem parked_removeQueued (idx : Nat) (path : List Nat) (t : Inv) (h : ParkedTree t) :
    ParkedTree (removeQueued path idx t) :=
  (parked_frame _ upRemove updateFirstOperationPriority (by simp)
    (fun i => by obtain ⟨f1, f2, _, _, _, _, f7, f8⟩ := updateFirst_fields i; exact ⟨f1, f2, f7, f8⟩)
    (by intro P c'; unfold upRemove; simp only []; split <;> simp [storeKid]) path t h).1

/-! ### the hypotheses of the hand-off theorems -/

theorem parkedTree_nodeAt : ∀ (p : List Nat) (t n : Inv), ParkedTree t → nodeAt t p = some n → ParkedTree n := by
  intro p
  induction p with
  | nil => intro t n ht h; simp only [nodeAt, Option.some.injEq] at h; subst h; exact ht
  | cons k p ih =>
    intro t n ht h
    simp only [nodeAt] at h
    cases hck : t.child k with
    | none => rw [hck] at h; cases h
    | some c =>
      rw [hck] at h
      exact ih c n (((parkedTree_iff t).mp ht).2 c (mem_of_child t k c hck).1) h

theorem parkedListed_of_tree (t : Inv) (h : ParkedTree t) : ParkedListed t := by
  intro p n hn k c hc hp
  have hq := ((parkedTree_iff n).mp (parkedTree_nodeAt p t n h hn)).1
  obtain ⟨hcm, hck⟩ := mem_of_child n k c hc
  rw [← hck]; exact hq.psup c hcm hp

theorem parkedSound_of_tree (t : Inv) (h : ParkedTree t) : ParkedSound t := by
  intro p n hn k hk
  have hq := ((parkedTree_iff n).mp (parkedTree_nodeAt p t n h hn)).1
  obtain ⟨c, hc, hck, hcp⟩ := hq.psub k hk
  exact ⟨c, by rw [← hck]; exact child_of_mem n hq.keys c hc, hcp⟩

end BbRe.Lemmas.Fair
