import BbRe.Lemmas.FairDynLevel
/-!
`heaps_stay_ordered` at the model level: every update function of the dynamic C04 model maps
trees whose `queuedOperations` / `queuedChildren` heaps satisfy the heap property (`HeapTree`) to
such trees — because each key change is followed by `heapMaybeFix` / `heapPushOrFix` /
`heapRemoveOrFix` exactly where the code calls them.  Trees of any shape, paths of any length.
-/
namespace BbRe.Lemmas.Fair
open BbRe.Fair BbRe.GoHeap BbRe.Lemmas.GoHeap

/-! ### what `HeapTree` and `hasQueued` read -/

theorem queuedNodes_congr (i j : Inv) (hk : j.kids = i.kids) (hq : j.queued = i.queued) :
    queuedNodes j = queuedNodes i := by unfold queuedNodes; rw [hk, hq]

theorem qOk_congr (i j : Inv) (hk : j.kids = i.kids) (hq : j.queued = i.queued) (ho : j.ops = i.ops)
    (h : QOk i) : QOk j := by
  constructor
  · rw [hk]; exact h.keys
  · rw [hq]; exact h.qnodup
  · rw [hq, hk]; exact h.qsub
  · rw [hq, hk]; exact h.qsup
  · rw [ho]; exact h.opsHeap
  · rw [queuedNodes_congr i j hk hq]; exact h.kidsHeap

theorem heapTree_congr (i j : Inv) (hk : j.kids = i.kids) (hq : j.queued = i.queued) (ho : j.ops = i.ops)
    (h : HeapTree i) : HeapTree j := by
  rw [heapTree_iff] at h ⊢
  exact ⟨qOk_congr i j hk hq ho h.1, by rw [hk]; exact h.2⟩

theorem hasQueued_congr (i j : Inv) (hk : j.kids = i.kids) (ho : j.ops = i.ops) : j.hasQueued = i.hasQueued := by
  rw [hasQueued_eq, hasQueued_eq, hk, ho]

theorem updateFirst_fields (i : Inv) :
    (updateFirstOperationPriority i).key = i.key ∧ (updateFirstOperationPriority i).kids = i.kids ∧
    (updateFirstOperationPriority i).queued = i.queued ∧ (updateFirstOperationPriority i).ops = i.ops ∧
    (updateFirstOperationPriority i).exec = i.exec ∧ (updateFirstOperationPriority i).started = i.started ∧
    (updateFirstOperationPriority i).parked = i.parked ∧ (updateFirstOperationPriority i).parkedKids = i.parkedKids := by
  unfold updateFirstOperationPriority
  split
  · simp
  · split <;> simp

theorem updateFirst_noop (i : Inv) (ho : i.ops = []) (hq : i.queued = []) : updateFirstOperationPriority i = i := by
  unfold updateFirstOperationPriority; rw [ho, hq]

theorem map_eq_self {α : Type} (f : α → α) : ∀ (l : List α), (∀ d ∈ l, f d = d) → l.map f = l
  | [], _ => rfl
  | a :: l, h => by
    rw [List.map_cons, h a List.mem_cons_self, map_eq_self f l fun d hd => h d (List.mem_cons_of_mem _ hd)]

theorem any_congr_mem {α : Type} (f g : α → Bool) : ∀ (l : List α), (∀ d ∈ l, f d = g d) → l.any f = l.any g
  | [], _ => rfl
  | a :: l, h => by
    rw [List.any_cons, List.any_cons, h a List.mem_cons_self,
      any_congr_mem f g l fun d hd => h d (List.mem_cons_of_mem _ hd)]

theorem any_replaceKid (kids : List Inv) (c c'' : Inv) (hn : (kids.map Inv.key).Nodup) (hc : c ∈ kids)
    (hk : c''.key = c.key) (f : Inv → Bool) :
    (replaceKid kids c'').any f = ((kids.any fun d => d.key != c.key && f d) || f c'') := by
  induction kids with
  | nil => cases hc
  | cons a kids ih =>
    rw [List.map_cons, List.nodup_cons] at hn
    unfold replaceKid at ih ⊢
    rw [List.map_cons, List.any_cons, List.any_cons]
    rcases List.mem_cons.mp hc with rfl | hc'
    · -- the head is the child; no other kid has its key
      rw [if_pos hk.symm]
      have htail : (kids.map fun d => if d.key = c''.key then c'' else d) = kids := by
        apply map_eq_self
        intro d hd
        rw [if_neg]
        intro hdk
        exact hn.1 (List.mem_map.mpr ⟨d, hd, by rw [hdk, hk]⟩)
      have hany : (kids.any fun d => d.key != c.key && f d) = kids.any f := by
        apply any_congr_mem
        intro d hd
        have : d.key ≠ c.key := fun hdk => hn.1 (List.mem_map.mpr ⟨d, hd, hdk⟩)
        simp [this]
      rw [htail, hany]
      simp [Bool.or_comm]
    · have hak : a.key ≠ c.key := fun h => hn.1 (List.mem_map.mpr ⟨c, hc', h.symm⟩)
      rw [if_neg (by rw [hk]; exact hak), ih hn.2 hc']
      have : (a.key != c.key) = true := by simpa using hak
      rw [this, Bool.true_and, Bool.or_assoc]

theorem any_kids_split (kids : List Inv) (c : Inv) (hn : (kids.map Inv.key).Nodup) (hc : c ∈ kids)
    (f : Inv → Bool) : kids.any f = ((kids.any fun d => d.key != c.key && f d) || f c) := by
  have := any_replaceKid kids c c hn hc rfl f
  have hid : replaceKid kids c = kids := by
    unfold replaceKid
    apply map_eq_self
    intro d hd
    split
    · rename_i h
      have e1 := child_of_mem' kids hn d hd
      have e2 := child_of_mem' kids hn c hc
      rw [h] at e1; rw [e1] at e2
      exact (Option.some.inj e2).symm
    · rfl
  rw [hid] at this
  exact this
where
  child_of_mem' (kids : List Inv) (hn : (kids.map Inv.key).Nodup) (d : Inv) (hd : d ∈ kids) :
      kids.find? (fun x => x.key == d.key) = some d := find?_key Inv.key kids hn d hd

/-- Replacing a child by one with the same `hasQueued` does not change the parent's. -/
theorem hasQueued_storeKid (P c c'' : Inv) (hn : (P.kids.map Inv.key).Nodup) (hc : c ∈ P.kids)
    (hk : c''.key = c.key) (hq : c''.hasQueued = c.hasQueued) (j : Inv)
    (hjk : j.kids = replaceKid P.kids c'') (hjo : j.ops = P.ops) : j.hasQueued = P.hasQueued := by
  rw [hasQueued_eq, hasQueued_eq, hjk, hjo, any_replaceKid P.kids c c'' hn hc hk,
    any_kids_split P.kids c hn hc Inv.hasQueued, hq]

theorem hasQueued_of_kid (P c : Inv) (hc : c ∈ P.kids) (hq : c.hasQueued = true) : P.hasQueued = true := by
  rw [hasQueued_eq]
  simp only [Bool.or_eq_true, List.any_eq_true]
  exact Or.inr ⟨c, hc, hq⟩

theorem heapTree_of_level (P c'' N : Inv) (hP : HeapTree P) (hc'' : HeapTree c'') (hN : QOk N)
    (hNk : N.kids = replaceKid P.kids c'') : HeapTree N := by
  rw [heapTree_iff]
  refine ⟨hN, ?_⟩
  intro d hd
  rw [hNk] at hd
  rcases (mem_replaceKid _ _ _).mp hd with ⟨rfl, _⟩ | ⟨hd', _⟩
  · exact hc''
  · exact ((heapTree_iff P).mp hP).2 d hd'

theorem child_of_nodeAt_cons (t : Inv) (k : Nat) (p : List Nat) (h : (nodeAt t (k :: p)).isSome = true) :
    ∃ c, t.child k = some c ∧ (nodeAt c p).isSome = true := by
  simp only [nodeAt] at h
  cases hc : t.child k with
  | none => rw [hc] at h; cases h
  | some c => rw [hc] at h; exact ⟨c, rfl, h⟩

theorem updatePath_cons (leaf : Inv → Inv) (up : Inv → Inv → Inv) (k : Nat) (p : List Nat) (t c : Inv)
    (h : t.child k = some c) : updatePath leaf up (k :: p) t = up t (updatePath leaf up p c) := by
  simp only [updatePath, h]

/-! ### `operation.enqueue` -/

theorem enqueue_nil (o : Op) (t : Inv) : enqueue [] o t = t.setOps (push opLess t.ops.toArray o).toList := rfl

theorem enqueue_spec (o : Op) : ∀ (path : List Nat) (t : Inv), HeapTree t → (nodeAt t path).isSome = true →
    HeapTree (enqueue path o t) ∧ (enqueue path o t).key = t.key ∧ (enqueue path o t).hasQueued = true := by
  intro path
  induction path with
  | nil =>
    intro t ht _
    have hq := (heapTree_iff t).mp ht
    rw [enqueue_nil]
    refine ⟨?_, by simp, ?_⟩
    · rw [heapTree_iff]
      refine ⟨⟨by simpa using hq.1.keys, by simpa using hq.1.qnodup, by simpa using hq.1.qsub,
        by simpa using hq.1.qsup, ?_, ?_⟩, by simpa using hq.2⟩
      · simp only [S.setOps_ops, Array.toArray_toList]
        exact push_heap opLess opLess_strictWeak _ o hq.1.opsHeap
      · rw [queuedNodes_congr t _ (by simp) (by simp)]; exact hq.1.kidsHeap
    · rw [hasQueued_eq]
      simp only [S.setOps_ops, Bool.or_eq_true, Bool.not_eq_true', List.isEmpty_eq_false_iff]
      left
      intro hnil
      have := congrArg List.length hnil
      simp only [Array.length_toList, push_size, List.size_toArray, List.length_nil] at this
      omega
  | cons k p ih =>
    intro t ht hv
    obtain ⟨c, hck, hvc⟩ := child_of_nodeAt_cons t k p hv
    obtain ⟨hcmem, hckey⟩ := mem_of_child t k c hck
    have hq := (heapTree_iff t).mp ht
    obtain ⟨hc't, hc'k, hc'q⟩ := ih c (hq.2 c hcmem) hvc
    unfold enqueue at hc't hc'k hc'q ⊢
    rw [updatePath_cons _ _ k p t c hck]
    generalize updatePath _ upEnqueue p c = c' at hc't hc'k hc'q
    obtain ⟨fk, fkids, fq, fo, _⟩ := updateFirst_fields c'
    have hc''t : HeapTree (updateFirstOperationPriority c') := heapTree_congr c' _ fkids fq fo hc't
    have hc''k : (updateFirstOperationPriority c').key = c.key := by rw [fk, hc'k]
    have hc''q : (updateFirstOperationPriority c').hasQueued = true := by
      rw [hasQueued_congr c' _ fkids fo]; exact hc'q
    unfold upEnqueue
    simp only []
    have hN : QOk ((storeKid t (updateFirstOperationPriority c')).setQueued
        (pushOrFix (qLess (storeKid t (updateFirstOperationPriority c')).kids) t.queued.toArray
          (refIndex t.queued (updateFirstOperationPriority c').key) (updateFirstOperationPriority c').key).toList) := by
      rw [hc''k]
      cases hidx : refIndex t.queued c.key with
      | none =>
        unfold pushOrFix
        simp only [storeKid, S.setKids_kids]
        rw [← hc''k]
        exact qOk_push t c _ hq.1 hcmem hc''k hidx hc''q
      | some idx =>
        unfold pushOrFix
        simp only [storeKid, S.setKids_kids]
        exact qOk_fix t c _ hq.1 hcmem hc''k idx hidx hc''q
    refine ⟨heapTree_of_level t _ _ ht hc''t hN (by simp [storeKid]), by simp [storeKid], ?_⟩
    apply hasQueued_of_kid _ (updateFirstOperationPriority c') _ hc''q
    simp only [storeKid, S.setQueued_kids, S.setKids_kids]
    exact (mem_replaceKid _ _ _).mpr (Or.inl ⟨rfl, c, hcmem, hc''k.symm⟩)

/-! ### `operation.removeQueuedFromInvocation` -/

theorem hasQueued_of_path : ∀ (p : List Nat) (c n : Inv), nodeAt c p = some n → n.ops ≠ [] → c.hasQueued = true := by
  intro p
  induction p with
  | nil =>
    intro c n h hne
    simp only [nodeAt, Option.some.injEq] at h
    subst h
    rw [hasQueued_eq]
    cases hops : c.ops with
    | nil => exact absurd hops hne
    | cons _ _ => rfl
  | cons k p ih =>
    intro c n h hne
    simp only [nodeAt] at h
    cases hc : c.child k with
    | none => rw [hc] at h; cases h
    | some d =>
      rw [hc] at h
      exact hasQueued_of_kid c d (mem_of_child c k d hc).1 (ih d n h hne)

theorem removeQueued_nil (idx : Nat) (t : Inv) :
    removeQueued [] idx t = t.setOps (remove opLess t.ops.toArray idx).1.toList := rfl

theorem isQueued_false_iff (i : Inv) : i.isQueued = false ↔ i.ops = [] ∧ i.queued = [] := by
  unfold Inv.isQueued
  cases i.ops <;> cases i.queued <;> simp

theorem removeQueued_spec (idx : Nat) : ∀ (path : List Nat) (t n : Inv), HeapTree t → nodeAt t path = some n →
    idx < n.ops.length →
    HeapTree (removeQueued path idx t) ∧ (removeQueued path idx t).key = t.key ∧ KeyEq (removeQueued path idx t) t := by
  intro path
  induction path with
  | nil =>
    intro t n ht hn hidx
    simp only [nodeAt, Option.some.injEq] at hn
    subst hn
    have hq := (heapTree_iff t).mp ht
    rw [removeQueued_nil]
    refine ⟨?_, by simp, ⟨by simp, by simp, by simp⟩⟩
    rw [heapTree_iff]
    refine ⟨⟨by simpa using hq.1.keys, by simpa using hq.1.qnodup, by simpa using hq.1.qsub,
      by simpa using hq.1.qsup, ?_, ?_⟩, by simpa using hq.2⟩
    · simp only [S.setOps_ops, Array.toArray_toList]
      exact (remove_spec opLess opLess_strictWeak _ idx (by simpa using hidx) hq.1.opsHeap).2.2
    · rw [queuedNodes_congr t _ (by simp) (by simp)]; exact hq.1.kidsHeap
  | cons k p ih =>
    intro t n ht hn hidx
    have hv : (nodeAt t (k :: p)).isSome = true := by rw [hn]; rfl
    obtain ⟨c, hck, _⟩ := child_of_nodeAt_cons t k p hv
    have hnc : nodeAt c p = some n := by simpa [nodeAt, hck] using hn
    obtain ⟨hcmem, hckey⟩ := mem_of_child t k c hck
    have hq := (heapTree_iff t).mp ht
    obtain ⟨hc't, hc'k, hc'e⟩ := ih c n (hq.2 c hcmem) hnc hidx
    have hcq : c.hasQueued = true := hasQueued_of_path p c n hnc (by
      intro h; rw [h] at hidx; simp at hidx)
    unfold removeQueued at hc't hc'k hc'e ⊢
    rw [updatePath_cons _ _ k p t c hck]
    generalize updatePath _ upRemove p c = c' at hc't hc'k hc'e
    obtain ⟨fk, fkids, fq, fo, fe, fs, _⟩ := updateFirst_fields c'
    have hc''t : HeapTree (updateFirstOperationPriority c') := heapTree_congr c' _ fkids fq fo hc't
    have hc''k : (updateFirstOperationPriority c').key = c.key := by rw [fk, hc'k]
    have hwf : WF (updateFirstOperationPriority c') := (wf_iff _).mp hc''t.wf
    have hiq := isQueued_eq_hasQueued _ hwf
    have hkin : c.key ∈ t.queued := hq.1.qsup c hcmem hcq
    unfold upRemove
    simp only []
    rw [hc''k]
    cases hidx' : refIndex t.queued c.key with
    | none => exact absurd hkin ((refIndex_none_iff _ _).mp hidx')
    | some j =>
      simp only []
      have hN : QOk ((storeKid t (updateFirstOperationPriority c')).setQueued
          (removeOrFix (qLess (storeKid t (updateFirstOperationPriority c')).kids) t.queued.toArray j
            ((updateFirstOperationPriority c').queued.length + (updateFirstOperationPriority c').ops.length)).toList) := by
        unfold removeOrFix
        simp only [storeKid, S.setKids_kids]
        split
        · rename_i hcount
          apply qOk_fix t c _ hq.1 hcmem hc''k j hidx'
          rw [← hiq]
          cases hb : (updateFirstOperationPriority c').isQueued with
          | true => rfl
          | false =>
            obtain ⟨h1, h2⟩ := (isQueued_false_iff _).mp hb
            rw [h1, h2] at hcount
            simp at hcount
        · rename_i hcount
          have h0 : (updateFirstOperationPriority c').ops = [] ∧ (updateFirstOperationPriority c').queued = [] := by
            constructor
            · cases h : (updateFirstOperationPriority c').ops with
              | nil => rfl
              | cons _ _ => rw [h] at hcount; simp at hcount
            · cases h : (updateFirstOperationPriority c').queued with
              | nil => rfl
              | cons _ _ => rw [h] at hcount; simp at hcount
          have hnoop : updateFirstOperationPriority c' = c' :=
            updateFirst_noop c' (by rw [← fo]; exact h0.1) (by rw [← fq]; exact h0.2)
          apply qOk_remove t c _ hq.1 hcmem hc''k j hidx'
          · rw [← hiq]; exact (isQueued_false_iff _).mpr h0
          · rw [hnoop]; exact hc'e
      exact ⟨heapTree_of_level t _ _ ht hc''t hN (by simp [storeKid]), by simp [storeKid],
        ⟨by simp [storeKid], by simp [storeKid], by simp [storeKid]⟩⟩

/-! ### a child replaced by one with the same keys and the same `hasQueued` -/

theorem kid_unique (kids : List Inv) (hn : (kids.map Inv.key).Nodup) (c d : Inv) (hc : c ∈ kids) (hd : d ∈ kids)
    (h : d.key = c.key) : d = c := by
  have e1 := find?_key Inv.key kids hn d hd
  have e2 := find?_key Inv.key kids hn c hc
  rw [h, e2] at e1
  exact (Option.some.inj e1).symm

theorem mem_queued_iff (P c : Inv) (hP : QOk P) (hc : c ∈ P.kids) : c.key ∈ P.queued ↔ c.hasQueued = true := by
  constructor
  · intro h
    obtain ⟨d, hd, hdk, hdq⟩ := hP.qsub c.key h
    rw [kid_unique P.kids hP.keys c d hc hd hdk] at hdq
    exact hdq
  · exact hP.qsup c hc

theorem qOk_same (P c c'' N : Inv) (hP : QOk P) (hc : c ∈ P.kids) (hk : c''.key = c.key) (hke : KeyEq c'' c)
    (hq : c''.hasQueued = c.hasQueued) (hNk : N.kids = replaceKid P.kids c'') (hNq : N.queued = P.queued)
    (hNo : N.ops = P.ops) : QOk N := by
  have hmq := mem_queued_iff P c hP hc
  have : QOk ((storeKid P c'').setQueued P.queued) := by
    apply qOk_level P c c'' hP hc hk
    · exact hP.qnodup
    · intro x
      rw [hq]
      constructor
      · intro hx
        by_cases hxk : x = c.key
        · exact Or.inr ⟨hxk, hmq.mp (hxk ▸ hx)⟩
        · exact Or.inl ⟨hx, hxk⟩
      · rintro (⟨hx, _⟩ | ⟨rfl, h⟩)
        · exact hx
        · exact hmq.mpr h
    · rw [qLess_eq_via, isHeap_via]
      have hA : IsHeap childLess (P.queued.toArray.map (kidOr P.kids)) := by
        rw [← queuedNodes_toArray P hP]; exact hP.kidsHeap
      cases hidx : refIndex P.queued c.key with
      | none =>
        rw [map_kidOr_replace_absent P.kids c'' P.queued (by rw [hk]; exact (refIndex_none_iff _ _).mp hidx)]
        exact hA
      | some idx =>
        rw [map_kidOr_replace_at P.kids c'' c hc hk P.queued hP.qnodup idx hidx]
        apply isHeap_set_keyEq _ idx c'' c _ hke hA
        rw [Array.getElem?_map]
        simp only [List.getElem?_toArray, (refIndex_some _ _ _ hidx).2, Option.map_some]
        exact congrArg some (kidOr_of_child P c.key c (child_of_mem P hP.keys c hc))
  exact qOk_congr _ N (by rw [hNk]; simp [storeKid]) (by rw [hNq]; simp) (by rw [hNo]; simp [storeKid]) this

/-! ### `increment/decrementExecutingWorkersCount` (any change of the executing count and the two
time stamps) -/

/-- `g` changes only `executingWorkers`, `lastOperationStarted`, `lastOperationCompletion`. -/
structure KeyOnly (g : Inv → Inv) : Prop where
  key : ∀ i, (g i).key = i.key
  ops : ∀ i, (g i).ops = i.ops
  queued : ∀ i, (g i).queued = i.queued
  kids : ∀ i, (g i).kids = i.kids
  parked : ∀ i, (g i).parked = i.parked
  parkedKids : ∀ i, (g i).parkedKids = i.parkedKids
  prio : ∀ i, (g i).prio = i.prio

/-- The fields of the parent after one level of `increment/decrementExecutingWorkersCount`. -/
theorem upRekey_fields (legacy : Bool) (g : Inv → Inv) (hg : KeyOnly g) (P c' : Inv) :
    (upRekey legacy g P c').kids = replaceKid P.kids c' ∧ (upRekey legacy g P c').ops = P.ops ∧
    (upRekey legacy g P c').queued =
      (maybeFix (qLess (replaceKid P.kids c')) P.queued.toArray (refIndex P.queued c'.key)).toList ∧
    (upRekey legacy g P c').key = P.key ∧ (upRekey legacy g P c').parked = P.parked ∧
    (upRekey legacy g P c').parkedKids =
      (maybeFix (iLess (replaceKid P.kids c')) P.parkedKids.toArray (refIndex P.parkedKids c'.key)).toList := by
  unfold upRekey
  simp only []
  rw [hg.kids, hg.ops, hg.queued, hg.key, hg.parked, hg.parkedKids]
  cases legacy with
  | true => simp [storeKid]
  | false =>
    simp only [Bool.false_eq_true, if_false, S.setParkedKids_kids, S.setParkedKids_ops, S.setParkedKids_queued,
      S.setParkedKids_key, S.setParkedKids_parked, S.setParkedKids_parkedKids]
    obtain ⟨f1, f2, f3, f4, _, _, f7, _⟩ := updateFirst_fields
      ((storeKid P c').setQueued (maybeFix (qLess (storeKid P c').kids) P.queued.toArray (refIndex P.queued c'.key)).toList)
    rw [f1, f2, f3, f4, f7]
    simp [storeKid]

theorem rekey_spec (legacy : Bool) (g : Inv → Inv) (hg : KeyOnly g) : ∀ (path : List Nat) (t : Inv), HeapTree t →
    HeapTree (rekey legacy g path t) ∧ (rekey legacy g path t).key = t.key ∧
      (rekey legacy g path t).hasQueued = t.hasQueued := by
  intro path
  induction path with
  | nil =>
    intro t ht
    show HeapTree (g t) ∧ (g t).key = t.key ∧ (g t).hasQueued = t.hasQueued
    exact ⟨heapTree_congr t _ (hg.kids t) (hg.queued t) (hg.ops t) ht, hg.key t,
      hasQueued_congr t _ (hg.kids t) (hg.ops t)⟩
  | cons k p ih =>
    intro t ht
    cases hck : t.child k with
    | none =>
      have : rekey legacy g (k :: p) t = t := by simp only [rekey, updatePath, hck]
      rw [this]; exact ⟨ht, rfl, rfl⟩
    | some c =>
      obtain ⟨hcmem, hckey⟩ := mem_of_child t k c hck
      have hq := (heapTree_iff t).mp ht
      obtain ⟨hc't, hc'k, hc'q⟩ := ih c (hq.2 c hcmem)
      unfold rekey at hc't hc'k hc'q ⊢
      rw [updatePath_cons _ _ k p t c hck]
      generalize updatePath g (upRekey legacy g) p c = c' at hc't hc'k hc'q
      have hmq := mem_queued_iff t c hq.1 hcmem
      have hN0 : QOk ((storeKid t c').setQueued
          (maybeFix (qLess (replaceKid t.kids c')) t.queued.toArray (refIndex t.queued c'.key)).toList) := by
        rw [hc'k]
        cases hidx : refIndex t.queued c.key with
        | none =>
          have : c'.hasQueued = false := by
            rw [hc'q]
            cases h : c.hasQueued with
            | false => rfl
            | true => exact absurd (hmq.mpr h) ((refIndex_none_iff _ _).mp hidx)
          simpa [maybeFix, storeKid] using qOk_keep t c c' hq.1 hcmem hc'k hidx this
        | some idx =>
          have : c'.hasQueued = true := by rw [hc'q]; exact hmq.mp (mem_of_refIndex _ _ _ hidx)
          simpa [maybeFix, storeKid] using qOk_fix t c c' hq.1 hcmem hc'k idx hidx this
      obtain ⟨hrk, hro, hrq, hrkey, _, _⟩ := upRekey_fields legacy g hg t c'
      generalize upRekey legacy g t c' = res at hrk hro hrq hrkey
      have hN : QOk res := by
        apply qOk_congr _ res _ _ _ hN0
        · rw [hrk]; simp [storeKid]
        · rw [hrq]; simp
        · rw [hro]; simp [storeKid]
      exact ⟨heapTree_of_level t c' res ht hc't hN hrk, hrkey,
        hasQueued_storeKid t c c' hq.1.keys hcmem hc'k hc'q res hrk hro⟩

theorem keyOnly_incr (now : Nat) (fresh : Inv → Bool) :
    KeyOnly fun i => (i.setExec (i.exec + if fresh i then 1 else 0)).setStarted now :=
  ⟨by simp, by simp, by simp, by simp, by simp, by simp, by simp⟩

theorem keyOnly_decr (now : Nat) (last : Inv → Bool) :
    KeyOnly fun i => (i.setExec (i.exec - if last i then 1 else 0)).setCompleted now :=
  ⟨by simp, by simp, by simp, by simp, by simp, by simp, by simp⟩

/-! ### parking and `worker.dequeue`: the queue heaps are not touched -/

/-- A walk whose steps change nothing that the queue heaps or their keys read. -/
structure QueueFrame (leaf : Inv → Inv) (up : Inv → Inv → Inv) : Prop where
  leafKey : ∀ i, (leaf i).key = i.key
  leafOps : ∀ i, (leaf i).ops = i.ops
  leafQueued : ∀ i, (leaf i).queued = i.queued
  leafKids : ∀ i, (leaf i).kids = i.kids
  leafKeys : ∀ i, KeyEq (leaf i) i
  upKey : ∀ P c', (up P c').key = P.key
  upOps : ∀ P c', (up P c').ops = P.ops
  upQueued : ∀ P c', (up P c').queued = P.queued
  upKids : ∀ P c', (up P c').kids = replaceKid P.kids c'
  upKeys : ∀ P c', KeyEq (up P c') P

theorem frame_spec (leaf : Inv → Inv) (up : Inv → Inv → Inv) (hf : QueueFrame leaf up) :
    ∀ (path : List Nat) (t : Inv), HeapTree t →
      HeapTree (updatePath leaf up path t) ∧ (updatePath leaf up path t).key = t.key ∧
      KeyEq (updatePath leaf up path t) t ∧ (updatePath leaf up path t).hasQueued = t.hasQueued := by
  intro path
  induction path with
  | nil =>
    intro t ht
    show HeapTree (leaf t) ∧ _
    exact ⟨heapTree_congr t _ (hf.leafKids t) (hf.leafQueued t) (hf.leafOps t) ht, hf.leafKey t, hf.leafKeys t,
      hasQueued_congr t _ (hf.leafKids t) (hf.leafOps t)⟩
  | cons k p ih =>
    intro t ht
    cases hck : t.child k with
    | none =>
      have : updatePath leaf up (k :: p) t = t := by simp only [updatePath, hck]
      rw [this]; exact ⟨ht, rfl, KeyEq.refl t, rfl⟩
    | some c =>
      obtain ⟨hcmem, _⟩ := mem_of_child t k c hck
      have hq := (heapTree_iff t).mp ht
      obtain ⟨hc't, hc'k, hc'e, hc'q⟩ := ih c (hq.2 c hcmem)
      rw [updatePath_cons _ _ k p t c hck]
      generalize updatePath leaf up p c = c' at hc't hc'k hc'e hc'q
      have hN : QOk (up t c') :=
        qOk_same t c c' _ hq.1 hcmem hc'k hc'e hc'q (hf.upKids t c') (hf.upQueued t c') (hf.upOps t c')
      exact ⟨heapTree_of_level t c' _ ht hc't hN (hf.upKids t c'), hf.upKey t c', hf.upKeys t c',
        hasQueued_storeKid t c c' hq.1.keys hcmem hc'k hc'q _ (hf.upKids t c') (hf.upOps t c')⟩

theorem frame_park (w : Nat) : QueueFrame (fun i => i.setParked (i.parked ++ [w])) upPark := by
  refine ⟨by simp, by simp, by simp, by simp, fun i => ⟨by simp, by simp, by simp⟩, ?_, ?_, ?_, ?_, ?_⟩ <;>
    intro P c' <;> simp [upPark, storeKid, KeyEq]

theorem frame_unpark (idx : Nat) : QueueFrame (fun i => i.setParked (swapRemove i.parked idx)) upUnpark := by
  refine ⟨by simp, by simp, by simp, by simp, fun i => ⟨by simp, by simp, by simp⟩, ?_, ?_, ?_, ?_, ?_⟩ <;>
    intro P c' <;> unfold upUnpark <;> simp only [] <;> split <;> simp [storeKid, KeyEq]

end BbRe.Lemmas.Fair
