import BbRe.Lemmas.SchedTreePrimQueue
import BbRe.Lemmas.SchedTreePrimExec
/-!
`increment/decrementExecutingWorkersCount` with the refresh of `parent.firstQueuedOperationPriority`
(`refreshUp`, `incExecR`, `decExecR`): the refresh only writes the cached priority, which the structural
invariant `TreeOK` does not mention.
-/
namespace BbRe.Lemmas.SchedTree
open BbRe.Sched BbRe.SchedTree PrimQueue

/-- a map that only rewrites cached priorities keeps the invariant -/
theorem TreeOK.of_prio_map (h : TreeOK X ns E I Q P) (g : Node → Node)
    (hg : ∀ n, g n = { n with prio := (g n).prio }) : TreeOK X (ns.map g) E I Q P := by
  have hk : KeepsKey g := fun n => by rw [hg n]; exact ⟨rfl, rfl⟩
  have he : ∀ n, (g n).exec = n.exec := fun n => by rw [hg n]
  have hi : ∀ n, (g n).idle = n.idle := fun n => by rw [hg n]
  have hq : ∀ n, (g n).qops = n.qops := fun n => by rw [hg n]
  have hqk : ∀ n, (g n).qkids = n.qkids := fun n => by rw [hg n]
  have hp : ∀ n, (g n).parked = n.parked := fun n => by rw [hg n]
  have hik : ∀ n, (g n).ikids = n.ikids := fun n => by rw [hg n]
  have hem : ∀ n, (g n).isEmptyInv = n.isEmptyInv := fun n => by
    unfold Node.isEmptyInv Node.isActive Node.isQueued; rw [he, hi, hq, hqk]
  refine h.of_map g hk X E I Q P ?_ ?_ ?_ ?_ ?_ ?_ ?_ ?_ h.rfE h.rfI h.rfQ h.rfP h.pi
  · intro n hn k; rw [he]; exact h.ex n hn k
  · intro n hn; rw [he]; exact h.exnd n hn
  · intro n hn; rw [hi]; exact h.id n hn
  · intro n hn; rw [hq]; exact h.qo n hn
  · intro n hn; rw [hqk]; exact h.qk n hn
  · intro n hn; rw [hp]; exact h.pk n hn
  · intro n hn; rw [hik]; exact h.ik n hn
  · intro n hn a b; rw [hem]; exact h.ne n hn a b

theorem refreshStep_eq_map (pr : Nat → Int) {ns : List Node} (hnd : (ns.map nkey).Nodup) (q : ScqId) (pi : List Nat) :
    refreshStep pr q ns pi = ns.map (fun n => if n.isAt q pi.dropLast then updPrio pr ns n else n) := by
  unfold refreshStep
  cases hP : node? ns q pi.dropLast with
  | none =>
    simp only []
    symm
    conv => rhs; rw [← List.map_id ns]
    apply List.map_congr_left
    intro n hn
    by_cases h : n.isAt q pi.dropLast = true
    · obtain ⟨h1, h2⟩ := (isAt_iff n q pi.dropLast).mp h
      have := node?_of_mem hnd hn
      rw [h1, h2, hP] at this; cases this
    · simp [h]
  | some P0 =>
    simp only []
    rw [updNode_const hnd hP (updPrio pr ns)]
    rfl

theorem refreshStep_ok (h : TreeOK X ns E I Q P) (pr : Nat → Int) (q : ScqId) (pi : List Nat) :
    TreeOK X (refreshStep pr q ns pi) E I Q P := by
  rw [refreshStep_eq_map pr h.nd]
  apply h.of_prio_map
  intro n
  split
  · exact updPrio_eq pr ns n
  · rfl

theorem refreshUp_ok (h : TreeOK X ns E I Q P) (pr : Nat → Int) (q : ScqId) (p : List Nat) :
    TreeOK X (refreshUp pr ns q p) E I Q P := by
  unfold refreshUp
  generalize ups p = l
  induction l generalizing ns with
  | nil => exact h
  | cons a r ih => exact ih (refreshStep_ok h pr q a)

theorem refreshStep_keys (pr : Nat → Int) (q : ScqId) (ns : List Node) (pi : List Nat) :
    (refreshStep pr q ns pi).map nkey = ns.map nkey := by
  unfold refreshStep
  split
  · rfl
  · rw [updNode_eq_map]
    rename_i P0 hP
    apply map_keys
    intro n
    by_cases h : n.isAt q pi.dropLast = true
    · obtain ⟨h1, h2⟩ := (isAt_iff n q pi.dropLast).mp h
      obtain ⟨_, e1, e2⟩ := node?_some hP
      simp only [h, if_true]
      rw [updPrio_eq pr ns P0]
      exact ⟨e1.trans h1.symm, e2.trans h2.symm⟩
    · simp only [h]; exact ⟨rfl, rfl⟩

theorem refreshUp_keys (pr : Nat → Int) (ns : List Node) (q : ScqId) (p : List Nat) :
    (refreshUp pr ns q p).map nkey = ns.map nkey := by
  unfold refreshUp
  generalize ups p = l
  induction l generalizing ns with
  | nil => rfl
  | cons a r ih => rw [List.foldl_cons, ih, refreshStep_keys]

theorem isSome_of_keys {ns ns' : List Node} (h : ns'.map nkey = ns.map nkey) (q : ScqId) (p : List Nat) :
    (node? ns' q p).isSome = (node? ns q p).isSome := by
  have hiff : ∀ l : List Node, (node? l q p).isSome = true ↔ (q, p) ∈ l.map nkey := by
    intro l
    rw [node?_isSome_iff]
    constructor
    · rintro ⟨n, hn, e1, e2⟩; exact List.mem_map.mpr ⟨n, hn, by unfold nkey; rw [e1, e2]⟩
    · intro hm
      obtain ⟨n, hn, e⟩ := List.mem_map.mp hm
      unfold nkey at e
      exact ⟨n, hn, (Prod.mk.inj e).1, (Prod.mk.inj e).2⟩
  cases h1 : (node? ns' q p).isSome <;> cases h2 : (node? ns q p).isSome <;> try rfl
  · have := (hiff ns).mp h2; rw [← h] at this; rw [(hiff ns').mpr this] at h1; cases h1
  · have := (hiff ns').mp h1; rw [h] at this; rw [(hiff ns).mpr this] at h2; cases h2

theorem refreshUp_isSome (pr : Nat → Int) (ns : List Node) (q : ScqId) (p : List Nat) (q' : ScqId) (p' : List Nat) :
    (node? (refreshUp pr ns q p) q' p').isSome = (node? ns q' p').isSome :=
  isSome_of_keys (refreshUp_keys pr ns q p) q' p'

/-- `incrementExecutingWorkersCount`, before and after the fix -/
theorem incExecR_ok (h : TreeOK X ns E I Q P) (lg : Bool) (pr : Nat → Int) (q : ScqId) (p : List Nat) (k : WKey) (now : Nat)
    (hn : (node? ns q p).isSome = true) :
    TreeOK (offPath X q p) (incExecR lg pr ns q p k now) ((q, p, k) :: E) I Q P := by
  unfold incExecR
  split
  · exact incExec_ok h q p k now hn
  · exact refreshUp_ok (incExec_ok h q p k now hn) pr q p

/-- `decrementExecutingWorkersCount`, before and after the fix -/
theorem decExecR_ok (h : TreeOK X ns E I Q P) (lg : Bool) (pr : Nat → Int) (q : ScqId) (p : List Nat) (k : WKey) (now : Nat)
    (hc : (q, p, k) ∈ E) (hX : ∀ x ∈ X, x.1 = q ∧ x.2 <+: p) :
    TreeOK [] (decExecR lg pr ns q p k now) (E.erase (q, p, k)) I Q P := by
  unfold decExecR
  split
  · exact decExec_ok h q p k now hc hX
  · exact refreshUp_ok (decExec_ok h q p k now hc hX) pr q p

end BbRe.Lemmas.SchedTree
