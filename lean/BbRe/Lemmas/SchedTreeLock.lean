import BbRe.Lemmas.SchedTreeRefine
/-!
The ghost log `TState.decisions` runs in lockstep with `Sched.State.assigned` (the ghost log of every
assignment ever made to a real worker), and every logged decision was admissible for the tree it records.
-/
namespace BbRe.Lemmas.SchedTree
open BbRe.Sched BbRe.SchedTree

/-- the assignment a decision stands for -/
def dkey : Decision → ScqId × WId × Nat
  | .pick q w t _ _ _ _ => (q, w, t)
  | .handoff q w t _ _ => (q, w, t)

/-- the decision was in the admissible set computed from the tree it records -/
def DAdm : Decision → Prop
  | .pick _ _ _ tree view op retained => (op, retained) ∈ Fair.specPick tree view
  | .handoff q w _ nodes invs => w ∈ handoffAdm nodes q invs

/-- `ts'` extends `ts` by admissible decisions, one per new assignment -/
def LockStep (ts ts' : TState) : Prop :=
  ∃ ds : List Decision, ts'.decisions = ds ++ ts.decisions ∧ ts'.s.assigned = ds.map dkey ++ ts.s.assigned ∧
    ∀ d ∈ ds, DAdm d

theorem LockStep.refl (ts : TState) : LockStep ts ts := ⟨[], rfl, rfl, by simp⟩

theorem LockStep.trans {a b c : TState} (h1 : LockStep a b) (h2 : LockStep b c) : LockStep a c := by
  obtain ⟨d1, e1, f1, g1⟩ := h1
  obtain ⟨d2, e2, f2, g2⟩ := h2
  refine ⟨d2 ++ d1, by rw [e2, e1, List.append_assoc], by rw [f2, f1, List.map_append, List.append_assoc], ?_⟩
  intro d hd
  rcases List.mem_append.mp hd with h | h
  · exact g2 d h
  · exact g1 d h

/-- same decisions, same assignments -/
theorem LockStep.of_eq {ts ts' : TState} (hd : ts'.decisions = ts.decisions) (ha : ts'.s.assigned = ts.s.assigned) :
    LockStep ts ts' := ⟨[], by simpa using hd, by simpa using ha, by simp⟩

/-! ### the tree-only updates do not touch the log -/

@[simp] theorem setS_dec (ts : TState) (s : State) : (ts.setS s).decisions = ts.decisions := rfl
@[simp] theorem unparkTree_dec (ts : TState) (q w) : (ts.unparkTree q w).decisions = ts.decisions := rfl
@[simp] theorem parkTree_dec (ts : TState) (q w) : (ts.parkTree q w).decisions = ts.decisions := rfl
@[simp] theorem incOps_dec (ts : TState) (t k) : (ts.incOps t k).decisions = ts.decisions := rfl
@[simp] theorem decOps_dec (ts : TState) (t k) : (ts.decOps t k).decisions = ts.decisions := rfl
@[simp] theorem enqOps_dec (ts : TState) (t) : (ts.enqOps t).decisions = ts.decisions := rfl
@[simp] theorem deqOps_dec (ts : TState) (t) : (ts.deqOps t).decisions = ts.decisions := rfl
@[simp] theorem clearLast_dec (ts : TState) (q w) : (ts.clearLast q w).decisions = ts.decisions := rfl
@[simp] theorem setLast_dec (ts : TState) (tq q w p) : (ts.setLast tq q w p).decisions = ts.decisions := rfl
@[simp] theorem setSticks_dec (ts : TState) (q w r) : (ts.setSticks q w r).decisions = ts.decisions := rfl
@[simp] theorem createOps_dec (ts : TState) (t) : (ts.createOps t).decisions = ts.decisions := rfl
@[simp] theorem create_dec (ts : TState) (q p) : (ts.create q p).decisions = ts.decisions := rfl
@[simp] theorem setOX_dec (ts : TState) (o y) : (ts.setOX o y).decisions = ts.decisions := rfl
@[simp] theorem dropOX_dec (ts : TState) (o) : (ts.dropOX o).decisions = ts.decisions := rfl
@[simp] theorem setTX_dec (ts : TState) (t y) : (ts.setTX t y).decisions = ts.decisions := rfl
@[simp] theorem dropTX_dec (ts : TState) (t) : (ts.dropTX t).decisions = ts.decisions := rfl
@[simp] theorem log_dec (ts : TState) (d) : (ts.log d).decisions = d :: ts.decisions := rfl
@[simp] theorem assignTree_dec (ts : TState) (w t r) : (ts.assignTree w t r).decisions = ts.decisions := rfl
@[simp] theorem dropScqTree_dec (ts : TState) (q) : (ts.dropScqTree q).decisions = ts.decisions := rfl
@[simp] theorem dropLimits_dec (ts : TState) (q) : (ts.dropLimits q).decisions = ts.decisions := rfl
@[simp] theorem dropWorkerTree_dec (ts : TState) (q w) : (ts.dropWorkerTree q w).decisions = ts.decisions := rfl
@[simp] theorem addScqTree_dec (ts : TState) (q) : (ts.addScqTree q).decisions = ts.decisions := rfl
@[simp] theorem addWorkerTree_dec (ts : TState) (q w) : (ts.addWorkerTree q w).decisions = ts.decisions := rfl
@[simp] theorem tWake_dec (ts : TState) (w : Worker) : (tWake ts w).decisions = ts.decisions := rfl
@[simp] theorem detachTree_dec (ts : TState) (t : Task) (bw : Bool) : (ts.detachTree t bw).decisions = ts.decisions := by
  unfold TState.detachTree; split <;> rfl
@[simp] theorem removeOpTree_dec (ts : TState) (t : Task) (o : Nat) : (ts.removeOpTree t o).decisions = ts.decisions := by
  unfold TState.removeOpTree; split <;> rfl
@[simp] theorem maybeDequeue_dec (ts : TState) (wk : Worker) : (ts.maybeDequeue wk).decisions = ts.decisions := by
  unfold TState.maybeDequeue; split <;> rfl

/-! ### `assigned` is only extended by `assignTo` -/

@[simp] theorem emit_asg (s : State) (e : Event) : (emit s e).assigned = s.assigned := rfl
@[simp] theorem setTask_asg (s : State) (t : Task) : (s.setTask t).assigned = s.assigned := rfl
@[simp] theorem setOp_asg (s : State) (o : Op) : (s.setOp o).assigned = s.assigned := rfl
@[simp] theorem setWorker_asg (s : State) (w : Worker) : (s.setWorker w).assigned = s.assigned := rfl
@[simp] theorem setScq_asg (s : State) (q : Scq) : (s.setScq q).assigned = s.assigned := rfl
@[simp] theorem addCleanup_asg (s : State) (d : Nat) (k : CleanupKind) : (s.addCleanup d k).assigned = s.assigned := rfl
@[simp] theorem removeCleanup_asg (s : State) (k : CleanupKind) : (s.removeCleanup k).assigned = s.assigned := rfl
@[simp] theorem wakeWorker_asg (s : State) (w : Worker) : (wakeWorker s w).assigned = s.assigned := rfl

@[simp] theorem maybeStartCleanup_asg (s : State) (o : Nat) : (maybeStartCleanup s o).assigned = s.assigned := by
  unfold maybeStartCleanup; split
  · split <;> rfl
  · rfl

@[simp] theorem detachW_asg (s : State) (t : Task) : (detachW s t).assigned = s.assigned := by
  unfold detachW; split
  · split <;> rfl
  · rfl

@[simp] theorem syncReturn_asg (s : State) (q : ScqId) (w : WId) : (syncReturn s q w).assigned = s.assigned := by
  unfold syncReturn; split <;> rfl

theorem finishOps_asg (ops : List Nat) : ∀ s : State, (complete.finishOps s ops).assigned = s.assigned := by
  induction ops with
  | nil => intro s; rfl
  | cons o l ih =>
    intro s
    show (complete.finishOps _ l).assigned = _
    rw [ih]
    show (match s.op? o with
      | some op => if op.mayExistWithoutWaiters = true then
          maybeStartCleanup (s.setOp { op with mayExistWithoutWaiters := false }) o else s
      | none => s).assigned = s.assigned
    split
    · split
      · simp
      · rfl
    · rfl

theorem finalize_asg {s s' : State} {t : Task} {r : Resp} (h : complete.finalize s t r = .ok s') :
    s'.assigned = s.assigned := by
  unfold complete.finalize at h
  simp only [pure, Except.pure] at h
  cases h
  rw [finishOps_asg]
  simp only [setTask_asg]
  split <;> rfl

theorem assignTo_asg {s s' : State} {w : Worker} {t : Task} (h : assignTo s w t = .ok s') :
    s'.assigned = (w.scq, w.id, t.id) :: s.assigned := by
  unfold assignTo at h
  tpaths h
  cases h; rfl

theorem streamSend_asg {s s' : State} {c o : Nat} (h : streamSend s c o = .ok s') : s'.assigned = s.assigned := by
  unfold streamSend at h
  tpaths h
  all_goals (cases h; simp)

theorem streamAttach_asg {s s' : State} {c o : Nat} (h : streamAttach s c o = .ok s') : s'.assigned = s.assigned := by
  unfold streamAttach at h
  tpaths h
  rw [streamSend_asg h]; simp

theorem streamLeave_asg {s s' : State} {c code : Nat} (h : streamLeave s c code = .ok s') : s'.assigned = s.assigned := by
  unfold streamLeave at h
  tpaths h
  cases h; simp

theorem execResponse_asg {s s' : State} {w : Worker} (h : execResponse s w = .ok s') : s'.assigned = s.assigned := by
  unfold execResponse at h
  tpaths h
  cases h; simp

theorem termWake_asg {s s' : State} {id reason : Nat} (h : termWake s id reason = .ok s') : s'.assigned = s.assigned := by
  unfold termWake at h
  tpaths h
  all_goals (cases h; simp)

theorem syncQueue_asg {s : State} {q : ScqId} {comps : List Nat} {platform : Nat} {w : WId} {r : State ⊕ State}
    (h : syncQueue s q comps platform w = .ok r) :
    (match r with | .inl s' => s'.assigned | .inr s' => s'.assigned) = s.assigned := by
  unfold syncQueue at h
  tpaths h
  all_goals (cases h; simp)

theorem syncWorker_asg (s : State) (q : ScqId) (w : WId) :
    (match syncWorker s q w with | .inl s' => s'.assigned | .inr s' => s'.assigned) = s.assigned := by
  unfold syncWorker
  cases s.worker? q w with
  | none => rfl
  | some wk =>
    simp only []
    by_cases hi : wk.inSync = true
    · simp [hi]
    · simp [hi]

/-! ### every function of the tree layer extends the log in lockstep -/

theorem tAssignTo_lock_cons {ts ts' : TState} {w : Worker} {t : Task} {r : Nat} (h : tAssignTo ts w t r = .ok ts') :
    ts'.decisions = ts.decisions ∧ ts'.s.assigned = (w.scq, w.id, t.id) :: ts.s.assigned := by
  unfold tAssignTo at h
  tpaths h
  cases h
  exact ⟨by simp, by simpa using assignTo_asg (by assumption)⟩

theorem mem_handoffAdm_of_contains {l : List WId} {w : WId} (h : ¬ (!l.contains w) = true) : w ∈ l := by
  simpa using h

theorem worker?_key {s : State} {q : ScqId} {i : WId} {wk : Worker} (h : s.worker? q i = some wk) :
    wk.scq = q ∧ wk.id = i := by
  unfold State.worker? at h
  have := List.find?_some h
  simpa using this

theorem hintedWorker_scq {h : Hints} {s : State} {t : Task} {w : Worker} (hh : hintedWorker h s t = some w) :
    w.scq = t.scq := by
  unfold hintedWorker at hh
  split at hh
  · rename_i a ha
    have h1 := List.find?_some ha
    have h2 := worker?_key hh
    simp at h1
    rw [h2.1, h1.2]
  · cases hh

/-- close a `LockStep` goal between states with the same log and the same assignments -/
macro "lockeq" : tactic => `(tactic| exact LockStep.of_eq (by first | rfl | simp)
  (by first | rfl | (simp [*]; done) | (split <;> simp [*]; done) | (simp only [setS_s]; split <;> rfl)))

theorem tSchedule_lock {h : Hints} {ts ts' : TState} {tid : Nat} (hh : tSchedule h ts tid = .ok ts') :
    LockStep ts ts' := by
  unfold tSchedule at hh
  tpaths hh
  · rename_i t ht hp _ w hw hpk hadm _ w2 hw2
    obtain ⟨hd, ha⟩ := tAssignTo_lock_cons hh
    have hk := worker?_key hw2
    refine ⟨[.handoff w.scq w.id t.id ts.nodes (t.ops.map ts.invOf)], ?_, ?_, ?_⟩
    · rw [hd]; simp
    · rw [ha, hk.1, hk.2]; simp [dkey]
    · intro d hd'
      simp only [List.mem_singleton] at hd'
      subst hd'
      simp only [DAdm]
      rw [hintedWorker_scq hw]
      exact mem_handoffAdm_of_contains hadm
  · cases hh
    lockeq

theorem tCompleteSucc_lock {h : Hints} {x : Extras} {ts ts' : TState} {t : Task} {l : Nat} {r : Resp}
    (hh : tCompleteSucc h x ts t l r = .ok ts') : LockStep ts ts' := by
  unfold tCompleteSucc at hh
  tpaths hh
  all_goals have hf := finalize_asg (by assumption)
  · cases hh; lockeq
  · cases hh; lockeq
  · cases hh; lockeq
  · exact LockStep.trans (by lockeq) (tSchedule_lock hh)

theorem tCompleteRetry_lock {h : Hints} {x : Extras} {ts ts' : TState} {t : Task} {l : Nat} {r : Resp}
    (hh : tCompleteRetry h x ts t l r = .ok ts') : LockStep ts ts' := by
  unfold tCompleteRetry at hh
  tpaths hh
  rename_i v hs _ t1 ht1
  cases hh
  have h1 := tSchedule_lock hs
  refine LockStep.trans (LockStep.trans ?_ h1) (by lockeq)
  lockeq

theorem tComplete_lock {h : Hints} {x : Extras} {ts ts' : TState} {tid : Nat} {r : Resp} {bw : Bool}
    (hh : tComplete h x ts tid r bw = .ok ts') : LockStep ts ts' := by
  unfold tComplete at hh
  tpaths hh
  · cases hh; exact LockStep.refl _
  · exact LockStep.trans (by lockeq) (tCompleteSucc_lock hh)
  · exact LockStep.trans (by lockeq) (tCompleteRetry_lock hh)
  · have hf := finalize_asg (by assumption)
    cases hh; lockeq
  · have hf := finalize_asg (by assumption)
    cases hh; lockeq

theorem tRemoveOp_lock {h : Hints} {x : Extras} {ts ts' : TState} {o : Nat} (hh : tRemoveOp h x ts o = .ok ts') :
    LockStep ts ts' := by
  unfold tRemoveOp at hh
  tpaths hh
  · have h1 := tComplete_lock (by assumption)
    cases hh
    refine LockStep.trans (LockStep.trans ?_ h1) (by lockeq); lockeq
  · have h1 := tComplete_lock (by assumption)
    cases hh
    refine LockStep.trans (LockStep.trans ?_ h1) (by lockeq); lockeq
  · cases hh; lockeq
  · cases hh; lockeq
  · cases hh; exact LockStep.refl _

theorem foldlM_lock {β} (l : List β) (f : TState → β → M TState)
    (hf : ∀ ts a ts', f ts a = .ok ts' → LockStep ts ts') :
    ∀ ts ts', l.foldlM f ts = .ok ts' → LockStep ts ts' := by
  induction l with
  | nil => intro ts ts' hh; cases hh; exact LockStep.refl _
  | cons a l ih =>
    intro ts ts' hh
    simp only [List.foldlM_cons, bind, Except.bind] at hh
    split at hh
    · cases hh
    · rename_i ts1 h1
      exact LockStep.trans (hf ts a ts1 h1) (ih ts1 ts' hh)

theorem tCancelAllQueued_lock {h : Hints} {x : Extras} {ts ts' : TState} {q : ScqId} {r : Resp}
    (hh : tCancelAllQueued h x ts q r = .ok ts') : LockStep ts ts' := by
  unfold tCancelAllQueued at hh
  exact foldlM_lock _ _ (fun ts a ts' h => tComplete_lock h) ts ts' hh

theorem tRemoveScq_lock {h : Hints} {x : Extras} {ts ts' : TState} {q : ScqId} (hh : tRemoveScq h x ts q = .ok ts') :
    LockStep ts ts' := by
  unfold tRemoveScq at hh
  tpaths hh
  all_goals (
    have h1 := tCancelAllQueued_lock (by assumption)
    cases hh
    refine LockStep.trans h1 (by lockeq))

theorem tRemoveStaleWorker_lock {h : Hints} {x : Extras} {ts ts' : TState} {q : ScqId} {w : WId} {rt : Nat}
    (hh : tRemoveStaleWorker h x ts q w rt = .ok ts') : LockStep ts ts' := by
  unfold tRemoveStaleWorker at hh
  tpaths hh
  all_goals first
    | (have h1 := tComplete_lock (by assumption); cases hh; exact LockStep.trans h1 (by lockeq))
    | (cases hh; lockeq)
    | (cases hh; exact LockStep.refl _)

theorem tRunCleanup_lock {h : Hints} {x : Extras} : ∀ (fuel : Nat) (ts ts' : TState),
    tRunCleanup h x fuel ts = .ok ts' → LockStep ts ts' := by
  intro fuel
  induction fuel with
  | zero => intro ts ts' hh; cases hh; exact LockStep.refl _
  | succ n ih =>
    intro ts ts' hh
    unfold tRunCleanup at hh
    tpaths hh
    · cases hh; exact LockStep.refl _
    · have h2 := tRemoveStaleWorker_lock (by assumption)
      exact LockStep.trans (LockStep.trans (by lockeq) h2) (ih _ _ hh)
    · have h2 := tRemoveOp_lock (by assumption)
      exact LockStep.trans (LockStep.trans (by lockeq) h2) (ih _ _ hh)
    · have h2 := tRemoveScq_lock (by assumption)
      exact LockStep.trans (LockStep.trans (by lockeq) h2) (ih _ _ hh)

theorem tEnter_lock {h : Hints} {x : Extras} {ts ts' : TState} {t : Nat} (hh : tEnter h x ts t = .ok ts') :
    LockStep ts ts' := by
  unfold tEnter at hh
  split at hh
  · exact LockStep.trans (by lockeq) (tRunCleanup_lock _ _ _ hh)
  · cases hh; exact LockStep.refl _

theorem tExecArrive_lock {h : Hints} {x : Extras} {ts ts' : TState} {now c digest dkey : Nat} {dnc : Bool}
    {comps : List Nat} {platform : Nat} {inv : List Nat} {prio : Int}
    (hh : tExecArrive h x ts now c digest dkey dnc comps platform inv prio = .ok ts') : LockStep ts ts' := by
  unfold tExecArrive at hh
  unfold tExecDedup at hh
  tpaths hh
  all_goals have h1 := tEnter_lock (by assumption)
  all_goals first
    | (have h2 := streamAttach_asg (by assumption); cases hh; exact LockStep.trans h1 (by lockeq))
    | (cases hh; exact LockStep.trans h1 (by lockeq))
    | (have h2 := streamAttach_asg (by assumption); have h3 := tSchedule_lock (by assumption); cases hh
       refine LockStep.trans (LockStep.trans (LockStep.trans h1 ?_) h3) (by lockeq); lockeq)

theorem tWaitArrive_lock {h : Hints} {x : Extras} {ts ts' : TState} {now c name : Nat}
    (hh : tWaitArrive h x ts now c name = .ok ts') : LockStep ts ts' := by
  unfold tWaitArrive at hh
  tpaths hh
  all_goals have h1 := tEnter_lock (by assumption)
  all_goals first
    | (have h2 := streamAttach_asg (by assumption); cases hh; exact LockStep.trans h1 (by lockeq))
    | (cases hh; exact LockStep.trans h1 (by lockeq))

theorem tStreamWake_lock {h : Hints} {x : Extras} {ts ts' : TState} {now c reason : Nat}
    (hh : tStreamWake h x ts now c reason = .ok ts') : LockStep ts ts' := by
  unfold tStreamWake at hh
  tpaths hh
  all_goals have h1 := tEnter_lock (by assumption)
  all_goals first
    | (have h2 := streamLeave_asg (by assumption); cases hh; exact LockStep.trans h1 (by lockeq))
    | (have h2 := streamSend_asg (by assumption); cases hh; exact LockStep.trans h1 (by lockeq))

theorem choosePick_mem {x : Extras} {adm : List (Fair.Op × Nat)} {t : Task} {c : Fair.Op × Nat}
    (h : choosePick x adm t = some c) : c ∈ adm := by
  unfold choosePick at h
  have hm : ∀ c', c' ∈ adm.filter (fun c => t.ops.contains c.1.id) → c' ∈ adm := fun c' hc => (List.mem_filter.mp hc).1
  simp only [] at h
  cases hr : x.ret with
  | none => rw [hr] at h; exact hm _ (List.mem_of_mem_head? h)
  | some r =>
    rw [hr] at h
    simp only [] at h
    cases hf : List.find? (fun c => decide (c.2 = r)) (adm.filter (fun c => t.ops.contains c.1.id)) with
    | none => rw [hf] at h; exact hm _ (List.mem_of_mem_head? h)
    | some c' => rw [hf] at h; cases h; exact hm _ (List.mem_of_find?_eq_some hf)

theorem tAssignNext_lock {h : Hints} {x : Extras} {ts ts' : TState} {w : Worker} {b : Bool}
    (hh : tAssignNext h x ts w = .ok (ts', b)) : LockStep ts ts' := by
  unfold tAssignNext at hh
  tpaths hh
  · rename_i a ha _ t ht _ c hc _ v hv _ t1 ht1
    obtain ⟨hd, hasg⟩ := tAssignTo_lock_cons hv
    cases hh
    refine ⟨[.pick w.scq w.id t.id (snapshot ts.opOf ts.nodes w.scq) (ts.view w) c.1 c.2], ?_, ?_, ?_⟩
    · simp [hd]
    · simp [hasg, dkey]
    · intro d hd'
      simp only [List.mem_singleton] at hd'
      subst hd'
      exact choosePick_mem hc
  · cases hh; exact LockStep.refl _

theorem tGetNextTask_lock {h : Hints} {x : Extras} {ts ts' : TState} {q : ScqId} {w : WId} {pi bl : Bool}
    (hh : tGetNextTask h x ts q w pi bl = .ok ts') : LockStep ts ts' := by
  unfold tGetNextTask at hh
  tpaths hh
  all_goals first
    | (cases hh; lockeq)
    | (have h2 := tAssignNext_lock (by assumption); have h3 := execResponse_asg (by assumption); cases hh
       exact LockStep.trans h2 (by lockeq))
    | (have h2 := tAssignNext_lock (by assumption); cases hh; exact LockStep.trans h2 (by lockeq))

theorem tGetCurrentOrNext_lock {h : Hints} {x : Extras} {ts ts' : TState} {q : ScqId} {w : WId} {pi bl : Bool}
    (hh : tGetCurrentOrNext h x ts q w pi bl = .ok ts') : LockStep ts ts' := by
  unfold tGetCurrentOrNext at hh
  tpaths hh
  · cases hh; lockeq
  · exact LockStep.trans (tComplete_lock (by assumption)) (tGetNextTask_lock hh)
  · exact tGetNextTask_lock hh

/-- the state in either component -/
def sumT : TState ⊕ TState → TState
  | .inl t => t
  | .inr t => t

theorem tSyncQueue_lock {ts : TState} {q : ScqId} {comps : List Nat} {platform : Nat} {w : WId} {r : TState ⊕ TState}
    (hh : tSyncQueue ts q comps platform w = .ok r) : LockStep ts (sumT r) := by
  unfold tSyncQueue at hh
  tpaths hh
  all_goals (have h1 := syncQueue_asg (by assumption); cases hh; simp only [sumT] at h1 ⊢; lockeq)

theorem tSyncWorker_lock0 (ts : TState) (q : ScqId) (w : WId) : LockStep ts (sumT (tSyncWorker ts q w)) := by
  have h1 := syncWorker_asg ts.s q w
  unfold tSyncWorker
  cases hs : syncWorker ts.s q w with
  | inl s => rw [hs] at h1; simp only [sumT] at h1 ⊢; lockeq
  | inr s =>
    rw [hs] at h1; simp only [] at h1 ⊢
    split <;> (simp only [sumT]; lockeq)

theorem tSyncWorker_lock {ts : TState} {q : ScqId} {w : WId} {r : TState ⊕ TState} (hr : tSyncWorker ts q w = r) :
    LockStep ts (sumT r) := by
  rw [← hr]; exact tSyncWorker_lock0 ts q w

theorem tSyncArrive_lock {h : Hints} {x : Extras} {ts ts' : TState} {now : Nat} {q : ScqId} {comps : List Nat}
    {platform : Nat} {w : WId} {rep : Report} {pi : Bool}
    (hh : tSyncArrive h x ts now q comps platform w rep pi = .ok ts') : LockStep ts ts' := by
  unfold tSyncArrive at hh
  tpaths hh
  all_goals have h1 := tEnter_lock (by assumption)
  all_goals have h2 := tSyncQueue_lock (by assumption)
  all_goals simp only [sumT] at h2
  all_goals try (have h3 := tSyncWorker_lock (by assumption); simp only [sumT] at h3)
  · cases hh; exact LockStep.trans h1 h2
  · cases hh; exact LockStep.trans (LockStep.trans h1 h2) h3
  all_goals first
    | (cases hh; exact LockStep.trans (LockStep.trans (LockStep.trans h1 h2) h3) (by lockeq))
    | (exact LockStep.trans (LockStep.trans (LockStep.trans h1 h2) h3) (tGetCurrentOrNext_lock hh))
    | (exact LockStep.trans (LockStep.trans (LockStep.trans (LockStep.trans h1 h2) h3) (tComplete_lock (by assumption)))
        (tGetNextTask_lock hh))

theorem tSyncWake_lock {h : Hints} {x : Extras} {ts ts' : TState} {now : Nat} {q : ScqId} {w : WId} {reason : Nat}
    (hh : tSyncWake h x ts now q w reason = .ok ts') : LockStep ts ts' := by
  unfold tSyncWake at hh
  tpaths hh
  all_goals have h1 := tEnter_lock (by assumption)
  all_goals first
    | (have h2 := execResponse_asg (by assumption); cases hh; exact LockStep.trans h1 (by lockeq))
    | (cases hh; exact LockStep.trans h1 (by lockeq))
    | (exact LockStep.trans (LockStep.trans h1 (by lockeq)) (tGetNextTask_lock hh))

theorem tKillOp_lock {h : Hints} {x : Extras} {ts ts' : TState} {now name code : Nat}
    (hh : tKillOp h x ts now name code = .ok ts') : LockStep ts ts' := by
  unfold tKillOp at hh
  tpaths hh
  all_goals have h1 := tEnter_lock (by assumption)
  all_goals first
    | (cases hh; exact LockStep.trans h1 (by lockeq))
    | (have h2 := tComplete_lock (by assumption); cases hh; exact LockStep.trans (LockStep.trans h1 h2) (by lockeq))

theorem tKillQueue_lock {h : Hints} {x : Extras} {ts ts' : TState} {now : Nat} {q : ScqId} {code : Nat}
    (hh : tKillQueue h x ts now q code = .ok ts') : LockStep ts ts' := by
  unfold tKillQueue at hh
  tpaths hh
  all_goals have h1 := tEnter_lock (by assumption)
  all_goals first
    | (cases hh; exact LockStep.trans h1 (by lockeq))
    | (have h2 := tCancelAllQueued_lock (by assumption); cases hh; exact LockStep.trans (LockStep.trans h1 h2) (by lockeq))

theorem foldl_lock {β} (l : List β) (f : TState → β → TState) (hf : ∀ ts b, LockStep ts (f ts b)) :
    ∀ ts, LockStep ts (l.foldl f ts) := by
  induction l with
  | nil => intro ts; exact LockStep.refl _
  | cons b l ih => intro ts; exact LockStep.trans (hf ts b) (ih _)

theorem tAddDrain_lock {h : Hints} {x : Extras} {ts ts' : TState} {now : Nat} {q : ScqId} {p : Pattern}
    (hh : tAddDrain h x ts now q p = .ok ts') : LockStep ts ts' := by
  unfold tAddDrain at hh
  tpaths hh
  all_goals have h1 := tEnter_lock (by assumption)
  all_goals first
    | (cases hh; exact LockStep.trans h1 (by lockeq))
    | (cases hh
       refine LockStep.trans (LockStep.trans (LockStep.trans h1 ?_) (foldl_lock _ _ ?_ _)) (by lockeq)
       · lockeq
       · intro ts b; split
         · lockeq
         · exact LockStep.refl _)

theorem tRemoveDrain_lock {h : Hints} {x : Extras} {ts ts' : TState} {now : Nat} {q : ScqId} {p : Pattern}
    (hh : tRemoveDrain h x ts now q p = .ok ts') : LockStep ts ts' := by
  unfold tRemoveDrain at hh
  tpaths hh
  all_goals have h1 := tEnter_lock (by assumption)
  all_goals (cases hh; exact LockStep.trans h1 (by lockeq))

theorem tTerminateOne_lock (ts : TState) (w : Worker) : LockStep ts (tTerminateOne ts w) := by
  unfold tTerminateOne
  split
  · simp only []
    split
    · split
      · lockeq
      · lockeq
    · lockeq
  · exact LockStep.refl _

theorem tTerminate_lock {h : Hints} {x : Extras} {ts ts' : TState} {now id : Nat} {p : Pattern}
    (hh : tTerminate h x ts now id p = .ok ts') : LockStep ts ts' := by
  unfold tTerminate at hh
  tpaths hh
  all_goals have h1 := tEnter_lock (by assumption)
  all_goals (cases hh; exact LockStep.trans (LockStep.trans h1 (foldl_lock _ _ tTerminateOne_lock _)) (by lockeq))

theorem tTermWake_lock {ts ts' : TState} {id reason : Nat} (hh : tTermWake ts id reason = .ok ts') : LockStep ts ts' := by
  unfold tTermWake at hh
  tpaths hh
  have h2 := termWake_asg (by assumption)
  cases hh; lockeq

theorem tstep_lock {ts ts' : TState} {g : TSeg} (hh : tstep ts g = .ok ts') : LockStep ts ts' := by
  unfold tstep at hh
  split at hh
  · split at hh
    · cases hh; exact LockStep.of_eq rfl rfl
    · cases hh
  · exact tExecArrive_lock hh
  · exact tWaitArrive_lock hh
  · exact tStreamWake_lock hh
  · exact tSyncArrive_lock hh
  · exact tSyncWake_lock hh
  · exact tKillOp_lock hh
  · exact tKillQueue_lock hh
  · exact tAddDrain_lock hh
  · exact tRemoveDrain_lock hh
  · exact tTerminate_lock hh
  · exact tTermWake_lock hh
  · exact tEnter_lock hh

/-- the log of decisions is parallel to `assigned`, and every decision was admissible -/
def Lock (ts : TState) : Prop := ts.decisions.map dkey = ts.s.assigned ∧ ∀ d ∈ ts.decisions, DAdm d

theorem Lock.step {ts ts' : TState} (h : Lock ts) (hs : LockStep ts ts') : Lock ts' := by
  obtain ⟨ds, e1, e2, e3⟩ := hs
  refine ⟨by rw [e1, e2, List.map_append, h.1], ?_⟩
  intro d hd
  rw [e1] at hd
  rcases List.mem_append.mp hd with h' | h'
  · exact e3 d h'
  · exact h.2 d h'

theorem lock_reachable {ts : TState} (h : TReachable ts) : Lock ts := by
  induction h with
  | init cfg => exact ⟨rfl, by intro d hd; cases hd⟩
  | step g _ hs ih => exact ih.step (tstep_lock hs)

end BbRe.Lemmas.SchedTree
