import BbRe.Lemmas.SchedTreeFnDefs
import BbRe.Lemmas.SchedLiveRoute
/-!
Function-level lemmas of the tree layer for the RPC segments that are not `Synchronize`:
`Execute`, `WaitExecution`, the continuation of a parked stream, the operator RPCs
(`KillOperations`, drains, `TerminateWorkers`) and `RegisterPredeclaredPlatformQueue`.
Shape (see `Lemmas/SchedTreeFnDefs.lean`): `TInv ts → tF … ts … = .ok ts' → TS [] ts'`.
-/
namespace BbRe.Lemmas.SchedTree
open BbRe.Sched BbRe.SchedTree BbRe.Lemmas.SchedInv

/-! ### helpers -/


/-- every operation is stored under its own name -/
theorem oid_of_inv {ex exo} {s : State} (hI : InvX ex exo s) : ∀ k op, s.op? k = some op → op.name = k :=
  fun k op h => (hI.oinv.oid k op h).1

/-- `bq.enter` keeps the invariant of the tree layer -/
theorem enter_tinv (hE : EnterOK) {h : Hints} {x : Extras} {ts ts0 : TState} {now : Nat} (hI : TInv ts)
    (hh : tEnter h x ts now = .ok ts0) : TInv ts0 :=
  TInv.mk' (inv_of_ref (tEnter_ref h x ts now) (enter_spec hI.inv) hh).1 (hE h x ts ts0 now hI hh)

/-! ### `WaitExecution`, continuation of a parked stream -/

theorem tWaitArrive_ts (hE : EnterOK) {h : Hints} {x : Extras} {ts ts' : TState} {now c name : Nat} (hI : TInv ts)
    (hh : tWaitArrive h x ts now c name = .ok ts') : TS [] ts' := by
  unfold tWaitArrive at hh
  tpaths hh
  all_goals have h0 := enter_tinv hE hI (by assumption)
  · cases hh
    exact h0.ts.sframe (emit_sframe _ _)
  · cases hh
    exact h0.ts.sframe (streamAttach_sframe (oid_of_inv h0.inv) (by assumption))

theorem tStreamWake_ts (hE : EnterOK) {h : Hints} {x : Extras} {ts ts' : TState} {now c reason : Nat} (hI : TInv ts)
    (hh : tStreamWake h x ts now c reason = .ok ts') : TS [] ts' := by
  unfold tStreamWake at hh
  tpaths hh
  all_goals have h0 := enter_tinv hE hI (by assumption)
  all_goals cases hh
  all_goals first
    | exact h0.ts.sframe (streamLeave_sframe (oid_of_inv h0.inv) (by assumption))
    | exact h0.ts.sframe (streamSend_sframe (oid_of_inv h0.inv) (by assumption))

theorem tTermWake_ts {ts ts' : TState} {id reason : Nat} (hI : TInv ts)
    (hh : tTermWake ts id reason = .ok ts') : TS [] ts' := by
  unfold tTermWake at hh
  tpaths hh
  cases hh
  exact hI.ts.sframe (termWake_sframe (by assumption))

/-! ### `RegisterPredeclaredPlatformQueue` -/

theorem tRegister_ts {ts : TState} (hI : TInv ts) (x : Extras) (id : Nat) (comps : List Nat) (platform : Nat)
    (sizes : List Nat) (bgMax : Nat) (bgPrio : Int) (hok : registerOK ts id sizes = true) :
    TS [] (tRegisterPQ x ts id comps platform sizes bgMax bgPrio) :=
  register_ts hI.x x id comps platform sizes bgMax bgPrio hok

/-! ### `KillOperations` -/

theorem tKillOp_ts (hE : EnterOK) (hC : CompleteOK) {h : Hints} {x : Extras} {ts ts' : TState} {now name code : Nat}
    (hI : TInv ts) (hh : tKillOp h x ts now name code = .ok ts') : TS [] ts' := by
  unfold tKillOp at hh
  tpaths hh
  all_goals have h0 := enter_tinv hE hI (by assumption)
  · cases hh
    exact h0.ts.sframe (emit_sframe _ _)
  · cases hh
    rename_i _ ts0 _ _ op hop _ ts1 hc
    obtain ⟨t, ht, _⟩ := h0.inv.oinv.o1 name op hop
    have h1 := hC h x ts0 ts1 op.task ⟨code, 0, 0, .killed⟩ false h0 (by rw [ht]; rfl) hc
    exact h1.sframe (emit_sframe _ _)

theorem tKillQueue_ts (hE : EnterOK) (hK : CancelOK) {h : Hints} {x : Extras} {ts ts' : TState} {now : Nat} {q : ScqId}
    {code : Nat} (hI : TInv ts) (hh : tKillQueue h x ts now q code = .ok ts') : TS [] ts' := by
  unfold tKillQueue at hh
  tpaths hh
  all_goals have h0 := enter_tinv hE hI (by assumption)
  · cases hh
    exact h0.ts.sframe (emit_sframe _ _)
  · cases hh
    exact h0.ts.sframe (emit_sframe _ _)
  · cases hh
    have h1 := hK h x _ _ q ⟨code, 0, 0, .killed⟩ h0 (by assumption)
    exact h1.sframe (emit_sframe _ _)

/-! ### drains -/

/-- `TS` only looks at the identifiers of the size-class queues -/
theorem TS.of_scqids {X : List (ScqId × List Nat)} {ts : TState} {s' : State} (h : TS X ts)
    (ht : s'.tasks = ts.s.tasks) (hw : s'.workers = ts.s.workers) (ho : s'.ops = ts.s.ops)
    (hq : s'.scqs.map (·.id) = ts.s.scqs.map (·.id)) : TS X (ts.setS s') := by
  refine ⟨?_, ?_⟩
  · obtain ⟨h1, h2, h3, h4⟩ := bags_setS_of_tasks ts s' ht
    rw [h1, h2, h3, h4]; exact h.tree
  · refine h.side.of_nodes (ts' := ts.setS s') ?_ ?_ rfl rfl ht hw ho
    · intro sq hsq
      have hm : sq.id ∈ s'.scqs.map (·.id) := List.mem_map.mpr ⟨sq, hsq, rfl⟩
      rw [hq] at hm
      obtain ⟨sq0, h0, e⟩ := List.mem_map.mp hm
      rw [← e]; exact h.side.roots sq0 h0
    · intro n hn
      obtain ⟨sq, h1, h2⟩ := h.side.nscq n hn
      have hm : sq.id ∈ ts.s.scqs.map (·.id) := List.mem_map.mpr ⟨sq, h1, rfl⟩
      rw [← hq] at hm
      obtain ⟨sq', h0, e⟩ := List.mem_map.mp hm
      exact ⟨sq', h0, e.trans h2⟩

theorem setScq_ids (s : State) (sq : Scq) : (s.setScq sq).scqs.map (·.id) = s.scqs.map (·.id) := by
  show (s.scqs.map (fun x => if x.id = sq.id then sq else x)).map (·.id) = _
  rw [List.map_map]
  apply List.map_congr_left
  intro y _
  simp only [Function.comp]
  split
  · rename_i e; exact e.symm
  · rfl

/-- `setScq` (drains, undrain generation) keeps the invariant of the tree layer -/
theorem setScq_tinv {ex exo} {X : List (ScqId × List Nat)} {ts : TState} (hT : TInvX ex exo X ts) (sq : Scq) :
    TInvX ex exo X (ts.setS (ts.s.setScq sq)) :=
  TInvX.mk' (hT.inv.of_eq rfl rfl rfl rfl) (hT.ts.of_scqids rfl rfl rfl (setScq_ids _ _))

/-- waking a list of (distinct, current) parked workers -/
theorem foldl_tWake_tinv (c : Worker → Prop) [DecidablePred c] (hc : ∀ w, c w → w.parked = true) (l : List Worker)
    {ex exo} {X : List (ScqId × List Nat)} {ts : TState} (hT : TInvX ex exo X ts) (hl : WNodup l)
    (hcur : ∀ w, w ∈ l → wfind ts.s.workers w.scq w.id = some w) :
    TInvX ex exo X (l.foldl (fun ts w => if c w then tWake ts w else ts) ts) := by
  induction l generalizing ts with
  | nil => exact hT
  | cons a r ih =>
    rw [List.foldl_cons]
    simp only [WNodup, List.pairwise_cons] at hl
    by_cases hca : c a
    · rw [if_pos hca]
      have ha := hcur a (by simp)
      have hT1 : TInvX ex exo X (tWake ts a) := TInvX.mk' (hT.inv.wake ha) (wake_ts hT ha (hc a hca))
      refine ih hT1 hl.2 ?_
      intro w hw
      have hne := hl.1 w hw
      show wfind (wakeWorker ts.s a).workers w.scq w.id = some w
      simp only [wakeWorker, setWorker_eq]
      rw [wfind_wset, if_neg]
      · exact hcur w (List.mem_cons_of_mem _ hw)
      · exact fun h => hne ⟨h.1, h.2⟩
    · rw [if_neg hca]
      exact ih hT hl.2 (fun w hw => hcur w (List.mem_cons_of_mem _ hw))

theorem tAddDrain_ts (hE : EnterOK) {h : Hints} {x : Extras} {ts ts' : TState} {now : Nat} {q : ScqId} {p : Pattern}
    (hI : TInv ts) (hh : tAddDrain h x ts now q p = .ok ts') : TS [] ts' := by
  unfold tAddDrain at hh
  tpaths hh
  all_goals have h0 := enter_tinv hE hI (by assumption)
  · cases hh
    exact h0.ts.sframe (emit_sframe _ _)
  all_goals
    cases hh
    exact TS.sframe (TInvX.ts (foldl_tWake_tinv (fun w => w.scq = q ∧ w.parked = true ∧ p.matches w.id = true)
      (fun w hw => hw.2.1) _ (setScq_tinv h0.x _) h0.inv.core.wnd
      (fun w hw => wfind_of_mem h0.inv.core.wnd hw))) (emit_sframe _ _)

theorem tRemoveDrain_ts (hE : EnterOK) {h : Hints} {x : Extras} {ts ts' : TState} {now : Nat} {q : ScqId} {p : Pattern}
    (hI : TInv ts) (hh : tRemoveDrain h x ts now q p = .ok ts') : TS [] ts' := by
  unfold tRemoveDrain at hh
  tpaths hh
  all_goals have h0 := enter_tinv hE hI (by assumption)
  · cases hh
    exact h0.ts.sframe (emit_sframe _ _)
  · cases hh
    exact h0.ts.of_scqids rfl rfl rfl (setScq_ids _ _)

/-! ### `TerminateWorkers` -/

/-- a worker record is replaced by one with the same key, task and `parked` -/
theorem MInv.wsetSame {ex} {s : State} (h : MInv ex s) {wk wk' : Worker}
    (hw : wfind s.workers wk.scq wk.id = some wk)
    (hk : wk'.scq = wk.scq ∧ wk'.id = wk.id ∧ wk'.task = wk.task ∧ wk'.parked = wk.parked) :
    MInv ex (s.setWorker wk') := by
  minv_facts h
  obtain ⟨a, b, c, d⟩ := hk
  simp only [setWorker_eq]
  refine ⟨⟨h_tnd, h_tid, ?_, h_p3, h_q1, h_q2, ?_⟩, ⟨h_o3, h_own, h_bound⟩⟩ <;> grind

/-- one iteration of the loop of `TerminateWorkers` -/
theorem tTerminateOne_tinv {ex exo} {X : List (ScqId × List Nat)} {ts : TState} (hT : TInvX ex exo X ts) (w : Worker) :
    TInvX ex exo X (tTerminateOne ts w) := by
  unfold tTerminateOne
  cases hw : ts.s.worker? w.scq w.id with
  | none => exact hT
  | some wk =>
    dsimp only
    simp only [worker?_def] at hw
    have hk := wfind_key hw
    have hw' : wfind ts.s.workers wk.scq wk.id = some wk := by rw [hk.1, hk.2]; exact hw
    have hT1 : TInvX ex exo X (ts.setS (ts.s.setWorker { wk with terminating := true })) :=
      TInvX.mk' (hT.inv.wsetSame hw' ⟨rfl, rfl, rfl, rfl⟩)
        (wset_ts (wk' := { wk with terminating := true }) hT hw' ⟨rfl, rfl, rfl, rfl⟩ rfl rfl rfl (op?_of_ops rfl))
    have hw1 := wfind_setWorker_self (s := ts.s) (wk' := { wk with terminating := true }) hw' rfl rfl
    split
    · rename_i hc
      simp only [setS_s, worker?_def, hw1]
      exact TInvX.mk' (hT1.inv.wake hw1) (wake_ts hT1 hw1 hc.2)
    · exact hT1

theorem foldl_tTerminateOne_tinv {ex exo} {X : List (ScqId × List Nat)} (l : List Worker) {ts : TState}
    (hT : TInvX ex exo X ts) : TInvX ex exo X (l.foldl tTerminateOne ts) := by
  induction l generalizing ts with
  | nil => exact hT
  | cons a r ih => rw [List.foldl_cons]; exact ih (tTerminateOne_tinv hT a)

theorem tTerminate_ts (hE : EnterOK) {h : Hints} {x : Extras} {ts ts' : TState} {now id : Nat} {p : Pattern}
    (hI : TInv ts) (hh : tTerminate h x ts now id p = .ok ts') : TS [] ts' := by
  unfold tTerminate at hh
  tpaths hh
  all_goals have h0 := enter_tinv hE hI (by assumption)
  all_goals cases hh
  · exact (foldl_tTerminateOne_tinv _ h0.x).ts.sframe (emit_sframe _ _)
  · exact (foldl_tTerminateOne_tinv _ h0.x).ts.sframe (addTerm_sframe _ _)

/-! ### `Execute` -/

/-- `streamAttach_sframe` with the arguments in the order that lets the state be inferred -/
theorem streamAttach_sframe' {s s' : State} {c o : Nat} (h : streamAttach s c o = .ok s')
    (hid : ∀ k op, s.op? k = some op → op.name = k) : SFrame s s' := streamAttach_sframe hid h

theorem mem_bagE_of {ts : TState} {k : Nat} {t : Task} {q0 : ScqId} {w : WId} {o : Nat}
    (ht : alookup k ts.s.tasks = some t) (hw : t.worker = some (q0, w)) (ho : o ∈ t.ops) :
    (t.scq, ts.invOf o, some w) ∈ bagE ts := by
  rw [bagE_def]
  refine List.mem_flatMap.mpr ⟨(k, t), mem_of_alookup ht, ?_⟩
  show _ ∈ conE ts.ox t
  unfold conE; rw [hw]
  exact List.mem_map.mpr ⟨o, ho, rfl⟩

theorem mem_bagQ_of {ts : TState} {k : Nat} {t : Task} {o : Nat}
    (ht : alookup k ts.s.tasks = some t) (hq : t.queued = true) (ho : o ∈ t.ops) :
    (t.scq, ts.invOf o, o) ∈ bagQ ts := by
  rw [bagQ_def]
  refine List.mem_flatMap.mpr ⟨(k, t), mem_of_alookup ht, ?_⟩
  show _ ∈ conQ ts.ox t
  unfold conQ; rw [if_pos hq]
  exact List.mem_map.mpr ⟨o, ho, rfl⟩

theorem tExecDedup_ts {ts ts' : TState} {c tid : Nat} {t : Task} {inv : List Nat} {prio : Int} (hI : TInv ts)
    (ht : alookup tid ts.s.tasks = some t) (hr : t.response = none)
    (hh : tExecDedup ts c tid t inv prio = .ok ts') : TS [] ts' := by
  have hid : t.id = tid := (hI.inv.core.tid tid t ht).1
  have ht' : alookup t.id ts.s.tasks = some t := by rw [hid]; exact ht
  have hoid := oid_of_inv hI.inv
  have hlive := hI.inv.core.q2 tid t ht hr
  unfold tExecDedup at hh
  tpaths hh
  · -- the request attaches to an existing operation of the task: its invocation exists
    rename_i _ o hf _ s1 hs
    cases hh
    have hmem : o ∈ t.ops := List.mem_of_find?_eq_some hf
    have hp := List.find?_some hf
    cases hop : alookup o (emit ts.s .selAbandoned).ops with
    | none => simp only [op?_def, hop] at hp; cases hp
    | some op =>
      simp only [op?_def, hop, decide_eq_true_eq] at hp
      have hop' : ts.s.op? o = some op := hop
      have hinv : ts.invOf o = inv := by
        unfold TState.invOf; rw [hI.side.oxok o op hop']; exact hp
      have hnode : (node? ts.nodes t.scq inv).isSome = true := by
        rcases hlive with hq | hw | hf
        · have := hI.tree.rfQ _ (mem_bagQ_of ht hq hmem)
          rw [hinv] at this; exact this
        · cases hwk : t.worker with
          | none => rw [hwk] at hw; cases hw
          | some qw =>
            obtain ⟨q0, w⟩ := qw
            have := hI.tree.rfE _ (mem_bagE_of ht hwk hmem)
            rw [hinv] at this; exact this
        · exact absurd hf id
      have hcreate : (ts.create t.scq inv).nodes = ts.nodes :=
        getOrCreate_id _ _ _ _ (fun pi hpi => hI.tree.prefix_exists inv hnode pi (mem_prefixes.mp hpi).1)
      have h1 : TS [] (ts.create t.scq inv) := hI.ts.of_fields rfl hcreate rfl rfl
      exact h1.sframe ((emit_sframe _ _).trans (streamAttach_sframe hoid hs))
  · -- a new operation for an EXECUTING task
    rename_i _ _ _ _ s1 hs _ q0 w hw
    cases hh
    have hf := streamAttach_sframe' hs
      (setOp_oid { (emit ts.s .selAbandoned) with nextOp := (emit ts.s .selAbandoned).nextOp + 1 } _ hoid)
    have hopf : ∀ k t', alookup k ts.s.tasks = some t' → (emit ts.s .selAbandoned).nextOp ∉ t'.ops := by
      intro k t' hk hm
      exact Nat.lt_irrefl _ (hI.inv.oinv.o2 k t' _ hk hm).1
    refine addOpExec_ts hI.x ht' hw hopf hf.tasks hf.workers hf.scqs ?_
    intro o op' ho
    obtain ⟨op4, e4, hi, hp, _⟩ := hf.ops o op' ho
    change alookup o (aset ts.s.nextOp _ ts.s.ops) = some op4 at e4
    rw [alookup_aset] at e4
    split at e4
    · rename_i e; cases e4
      exact Or.inl ⟨e.symm, hi, hp⟩
    · rename_i e
      exact Or.inr ⟨fun e' => e e'.symm, op4, e4, hi, hp⟩
  · -- a new operation for a QUEUED task
    rename_i _ _ hrs _ s1 hs _ hw
    cases hh
    have hq : t.queued = true := by
      rcases hlive with hq | hw' | hf
      · exact hq
      · rw [hw] at hw'; cases hw'
      · exact absurd hf id
    have hf := streamAttach_sframe' hs
      (setOp_oid { (emit ts.s .selAbandoned) with nextOp := (emit ts.s .selAbandoned).nextOp + 1 } _ hoid)
    have hopf : ∀ k t', alookup k ts.s.tasks = some t' → (emit ts.s .selAbandoned).nextOp ∉ t'.ops := by
      intro k t' hk hm
      exact Nat.lt_irrefl _ (hI.inv.oinv.o2 k t' _ hk hm).1
    refine addOpQueued_ts hI.x ht' hw hq hopf hf.tasks hf.workers hf.scqs ?_
    intro o op' ho
    obtain ⟨op4, e4, hi, hp, _⟩ := hf.ops o op' ho
    change alookup o (aset ts.s.nextOp _ ts.s.ops) = some op4 at e4
    rw [alookup_aset] at e4
    split at e4
    · rename_i e; cases e4
      exact Or.inl ⟨e.symm, hi, hp⟩
    · rename_i e
      exact Or.inr ⟨fun e' => e e'.symm, op4, e4, hi, hp⟩

/-- `Execute` creates a task: `newTask`/`newOperation`, `getOrCreateInvocation`, `task.schedule`, then the
stream attaches.  (`newTaskSt` is the state `Sched.execArrive` hands to `schedule`.) -/
theorem tExecNew_ts {h : Hints} {ts0 ts2 : TState} {s3 : State} {c digest dkey : Nat} {dnc : Bool} {q : ScqId}
    {inv : List Nat} {prio : Int} {y : TX} (h0 : TInv ts0) (hnone : alookup dkey ts0.s.dedup = none)
    (hq : ∃ sq ∈ ts0.s.scqs, sq.id = q)
    (hs : tSchedule h ((((ts0.setOX ts0.s.nextOp ⟨inv, prio⟩).setTX ts0.s.nextTask y).setS
      (newTaskSt ts0.s digest dkey dnc q inv prio)).create q inv) ts0.s.nextTask = .ok ts2)
    (ha : streamAttach ts2.s c ts0.s.nextOp = .ok s3) : TS [] (ts2.setS s3) := by
  have hI3 := newTaskSt_inv (digest := digest) (dnc := dnc) (q := q) (inv := inv) (prio := prio) h0.inv hnone
  have hfresh : alookup (newTask ts0.s digest dkey dnc q).id ts0.s.tasks = none := by
    show alookup ts0.s.nextTask ts0.s.tasks = none
    cases hl : alookup ts0.s.nextTask ts0.s.tasks with
    | none => rfl
    | some t' => exact absurd (h0.inv.core.tid _ _ hl).2 (Nat.lt_irrefl _)
  have hopf : ∀ k t', alookup k ts0.s.tasks = some t' → ts0.s.nextOp ∉ t'.ops :=
    fun k t' hk hm => Nat.lt_irrefl _ (h0.inv.oinv.o2 k t' _ hk hm).1
  have hso : ∀ o op', (newTaskSt ts0.s digest dkey dnc q inv prio).op? o = some op' →
      (o = ts0.s.nextOp ∧ op'.inv = inv ∧ op'.prio = prio) ∨
      (o ≠ ts0.s.nextOp ∧ ∃ op, ts0.s.op? o = some op ∧ op'.inv = op.inv ∧ op'.prio = op.prio) := by
    intro o op' ho
    change alookup o (aset ts0.s.nextOp (newOp ts0.s inv prio) ts0.s.ops) = some op' at ho
    rw [alookup_aset] at ho
    split at ho
    · rename_i e; cases ho; exact Or.inl ⟨e.symm, rfl, rfl⟩
    · rename_i e; exact Or.inr ⟨fun e' => e e'.symm, op', ho, rfl, rfl⟩
  obtain ⟨hts1, hnode, hinvof⟩ := newTask_ts (X := []) (t := newTask ts0.s digest dkey dnc q) (opn := ts0.s.nextOp)
    (inv := inv) (prio := prio) (y := y) (s' := newTaskSt ts0.s digest dkey dnc q inv prio) h0.x hfresh hopf rfl rfl rfl
    hq rfl rfl rfl rfl hso
  have hT1 := TInvX.mk' (exo := fun _ => False) (MInv.of_inv hI3) hts1
  have ht3 : alookup ts0.s.nextTask (newTaskSt ts0.s digest dkey dnc q inv prio).tasks =
      some (newTask ts0.s digest dkey dnc q) := by
    simp only [newTaskSt]; rw [alookup_aset, if_pos rfl]
  have hT2 := tSchedule_tinv (t := newTask ts0.s digest dkey dnc q) hT1 ht3 rfl rfl rfl
    (by
      intro o ho
      have e : o = ts0.s.nextOp := List.mem_singleton.mp ho
      subst e; rw [hinvof]; exact hnode)
    (by
      intro x hx
      rw [List.nil_append] at hx
      obtain ⟨pi, hpi, rfl⟩ := List.mem_map.mp hx
      refine ⟨ts0.s.nextOp, List.mem_singleton.mpr rfl, ?_⟩
      rw [hinvof]
      unfold onPathOf
      simp only [decide_true, Bool.true_and, List.isPrefixOf_iff_prefix]
      exact (mem_prefixes.mp hpi).1)
    hs
  have hI2 := (inv_of_ref (tSchedule_ref h ((((ts0.setOX ts0.s.nextOp ⟨inv, prio⟩).setTX ts0.s.nextTask y).setS
      (newTaskSt ts0.s digest dkey dnc q inv prio)).create q inv) ts0.s.nextTask)
    (schedule_spec (h := h) hI3 ht3 rfl rfl) hs).1
  exact hT2.ts.sframe (streamAttach_sframe (oid_of_inv hI2) ha)

theorem tExecArrive_ts (hE : EnterOK) {h : Hints} {x : Extras} {ts ts' : TState} {now c digest dkey : Nat} {dnc : Bool}
    {comps : List Nat} {platform : Nat} {inv : List Nat} {prio : Int} (hI : TInv ts)
    (hh : tExecArrive h x ts now c digest dkey dnc comps platform inv prio = .ok ts') : TS [] ts' := by
  unfold tExecArrive at hh
  cases dnc
  ·
    simp only [Bool.false_eq_true, if_false] at hh
    tpaths hh
    all_goals first
      | -- no platform queue: two events
        (have h0 := enter_tinv hE hI (by assumption)
         cases hh
         exact h0.ts.sframe ((emit_sframe _ _).trans (emit_sframe _ _)))
      | -- deduplicated against an uncompleted task (`Core.d1`)
        (rename_i _ ts0 h0e _ tid hd _ t ht
         have h0 := enter_tinv hE hI h0e
         obtain ⟨t', ht', _, hr, _⟩ := h0.inv.core.d1 dkey tid hd
         have e : t' = t := by rw [task?_def, ht'] at ht; exact Option.some.inj ht
         subst e
         exact tExecDedup_ts h0 ht' hr hh)
      | -- a new task
        (rename_i _ ts0 h0e _ hnone _ pq _ _ sc hsz _ ts2 hsched _ s3 hattach
         have h0 := enter_tinv hE hI h0e
         cases hh
         exact tExecNew_ts (digest := digest) (dkey := dkey) (dnc := false) (q := ⟨pq.id, sc⟩) h0 hnone
           (BbRe.Lemmas.SchedLive.getElem?_mem_sizes hsz) hsched hattach)
  ·
    simp only [if_true] at hh
    tpaths hh
    all_goals first
      | -- no platform queue: two events
        (have h0 := enter_tinv hE hI (by assumption)
         cases hh
         exact h0.ts.sframe ((emit_sframe _ _).trans (emit_sframe _ _)))
      | -- deduplicated against an uncompleted task (`Core.d1`)
        (rename_i _ ts0 h0e _ tid hd _ t ht
         have h0 := enter_tinv hE hI h0e
         obtain ⟨t', ht', _, hr, _⟩ := h0.inv.core.d1 dkey tid hd
         have e : t' = t := by rw [task?_def, ht'] at ht; exact Option.some.inj ht
         subst e
         exact tExecDedup_ts h0 ht' hr hh)
      | -- a new task
        (rename_i _ ts0 h0e _ hnone _ pq _ _ sc hsz _ ts2 hsched _ s3 hattach
         have h0 := enter_tinv hE hI h0e
         cases hh
         exact tExecNew_ts (digest := digest) (dkey := dkey) (dnc := true) (q := ⟨pq.id, sc⟩) h0 hnone
           (BbRe.Lemmas.SchedLive.getElem?_mem_sizes hsz) hsched hattach)

end BbRe.Lemmas.SchedTree
