import BbRe.Lemmas.SchedInvComplete2
/-! The cleanup callbacks: `operation.remove`, `cancelAllQueuedOperations`, `sizeClassQueue.remove`,
`removeStaleWorker`, `cleanupQueue.run`, `bq.enter`. -/
namespace BbRe.Lemmas.SchedInv
open BbRe.Sched

theorem filter_ne_empty_length {l : List Nat} {o : Nat} (hn : l.Nodup) (hm : o ∈ l)
    (he : (l.filter (· ≠ o)).isEmpty = true) : l.length = 1 := by
  have hall : ∀ x ∈ l, x = o := by
    intro x hx
    rw [List.isEmpty_iff] at he
    have := List.filter_eq_nil_iff.mp he x hx
    simpa using this
  match l, hn, hm, hall with
  | [a], _, _, _ => rfl
  | a :: b :: r, hn, _, hall =>
    have h1 := hall a (by simp)
    have h2 := hall b (by simp)
    simp only [List.nodup_cons, List.mem_cons] at hn
    exact absurd (Or.inl (h1.trans h2.symm)) hn.1

/-- the operation `o` has been erased from the table; now drop it from its task -/
theorem dropOp_inv {s : State} {o tid : Nat} {t : Task}
    (hI : InvX (fun _ => False) (fun k => k = o) s) (hno : alookup o s.ops = none)
    (ht : alookup tid s.tasks = some t) (hmem : o ∈ t.ops)
    (huniq : ∀ k t', alookup k s.tasks = some t' → o ∈ t'.ops → k = tid)
    (hdone : (t.ops.filter (· ≠ o)).isEmpty = true → t.response.isSome = true) :
    InvX (fun _ => False) (fun _ => False)
      (if (t.ops.filter (· ≠ o)).isEmpty then { s with tasks := aerase t.id s.tasks }
       else s.setTask { t with ops := t.ops.filter (· ≠ o) }) := by
  have hid : t.id = tid := (hI.core.tid tid t ht).1
  have hc := hI.core
  have ho := hI.oinv
  split
  · rename_i hemp
    have hd := hdone hemp
    have hlen := filter_ne_empty_length (ho.o3 tid t ht).1 hmem hemp
    have hops : t.ops = [o] := by
      match h : t.ops, hlen with
      | [a], _ => rw [h] at hmem; simp at hmem; rw [hmem]
    refine ⟨?_, ?_, hI.sinv, hI.linv.aerase _ hc.tnd⟩
    · simp only []
      core_facts hc
      constructor <;> grind
    · simp only []
      have := ho.ond; have := ho.oid; have := ho.o1; have := ho.o2; have := ho.o3; have := hc.tnd
      constructor
      · exact ho.ond
      · exact ho.oid
      · intro k op hk
        obtain ⟨t', h1, h2⟩ := ho.o1 k op hk
        by_cases hkt : op.task = tid
        · rw [hkt, ht] at h1; cases h1; rw [hops] at h2; simp at h2; subst h2; rw [hno] at hk; cases hk
        · exact ⟨t', by rw [alookup_aerase _ _ _ hc.tnd, hid, if_neg (fun e => hkt e.symm)]; exact h1, h2⟩
      · intro k t' o' hk ho'
        rw [alookup_aerase _ _ _ hc.tnd, hid] at hk
        split at hk
        · cases hk
        · rename_i hkt
          obtain ⟨a, b⟩ := ho.o2 k t' o' hk ho'
          refine ⟨a, ?_⟩
          rcases b with b | b
          · subst b; exact absurd (huniq k t' hk ho').symm hkt
          · exact Or.inr b
      · intro k t' hk
        rw [alookup_aerase _ _ _ hc.tnd] at hk
        split at hk
        · cases hk
        · exact ho.o3 k t' hk
  · rename_i hemp
    have ht' : alookup ({ t with ops := t.ops.filter (· ≠ o) } : Task).id s.tasks = some t := by
      simp only []; rw [hid]; exact ht
    refine ⟨?_, ?_, hI.sinv, hI.linv.setTask (t := { t with ops := t.ops.filter (· ≠ o) }) ht' (Or.inl rfl)⟩
    · simp only [State.setTask]
      core_facts hc
      constructor <;> grind
    · simp only [State.setTask]
      constructor
      · exact ho.ond
      · exact ho.oid
      · intro k op hk
        obtain ⟨t', h1, h2⟩ := ho.o1 k op hk
        rw [alookup_aset, hid]
        by_cases hkt : tid = op.task
        · rw [if_pos hkt]
          rw [← hkt, ht] at h1; cases h1
          refine ⟨_, rfl, ?_⟩
          simp only [List.mem_filter, h2, true_and]
          have : k ≠ o := by intro e; subst e; rw [hno] at hk; cases hk
          simpa using this
        · rw [if_neg hkt]; exact ⟨t', h1, h2⟩
      · intro k t' o' hk ho'
        rw [alookup_aset, hid] at hk
        split at hk
        · rename_i hkt
          cases hk
          simp only [List.mem_filter] at ho'
          obtain ⟨a, b⟩ := ho.o2 tid t o' ht ho'.1
          refine ⟨a, ?_⟩
          rcases b with b | b
          · subst b; simp at ho'
          · rw [← hkt]; exact Or.inr b
        · rename_i hkt
          obtain ⟨a, b⟩ := ho.o2 k t' o' hk ho'
          refine ⟨a, ?_⟩
          rcases b with b | b
          · subst b; exact absurd (huniq k t' hk ho').symm hkt
          · exact Or.inr b
      · intro k t' hk
        rw [alookup_aset] at hk
        split at hk
        · cases hk
          refine ⟨(ho.o3 tid t ht).1.sublist List.filter_sublist, ?_⟩
          intro e; apply hemp
          have e' : List.filter (fun x => decide (x ≠ o)) t.ops = [] := e
          rw [e']; rfl
        · exact ho.o3 k t' hk


/-- erasing an operation without waiters from the operation table -/
theorem eraseOp_inv {s : State} {o : Nat} (hI : Inv s)
    (hwz : ∀ op, alookup o s.ops = some op → op.waiters = 0) :
    InvX (fun _ => False) (fun k => k = o) { s with ops := aerase o s.ops } := by
  have ho := hI.oinv
  have hs := hI.sinv
  refine ⟨hI.core, ?_, ?_, hI.linv⟩
  · simp only []
    constructor
    · exact nodup_aerase _ _ ho.ond
    · intro k op; rw [alookup_aerase _ _ _ ho.ond]; split
      · intro e; cases e
      · exact ho.oid k op
    · intro k op; rw [alookup_aerase _ _ _ ho.ond]; split
      · intro e; cases e
      · exact ho.o1 k op
    · intro k t o' hk ho'
      obtain ⟨a, b⟩ := ho.o2 k t o' hk ho'
      refine ⟨a, ?_⟩
      rcases b with b | ⟨op, e1, e2⟩
      · exact absurd b id
      · by_cases hoo : o' = o
        · exact Or.inl hoo
        · exact Or.inr ⟨op, by rw [alookup_aerase _ _ _ ho.ond, if_neg (fun e => hoo e.symm)]; exact e1, e2⟩
    · exact ho.o3
  · simp only []
    constructor
    · intro k op; rw [alookup_aerase _ _ _ ho.ond]; split
      · intro e; cases e
      · exact hs.s1 k op
    · intro k op e; rw [alookup_aerase _ _ _ ho.ond]; split
      · intro e; cases e
      · exact hs.s2 k op e
    · intro st hst
      have h3 := hs.s3 st hst
      rw [alookup_aerase _ _ _ ho.ond]
      by_cases hso : o = st.op
      · exfalso
        cases ha : alookup st.op s.ops with
        | none => simp [ha] at h3
        | some op =>
          have h1 := hs.s1 st.op op ha
          rw [← hso] at ha
          rw [hwz op ha] at h1
          have : List.countP (fun st' => decide (st'.op = st.op)) s.streams = 0 := by omega
          rw [List.countP_eq_zero] at this
          have := this st hst
          simp at this
      · rw [if_neg hso]; exact h3

theorem removeOp_tail {s2 : State} {o tid : Nat} {t2 : Task}
    (hI2 : InvX (fun _ => False) (fun k => k = o) s2) (hno : alookup o s2.ops = none)
    (ht2 : alookup tid s2.tasks = some t2) (hmem : o ∈ t2.ops)
    (huniq : ∀ k t', alookup k s2.tasks = some t' → o ∈ t'.ops → k = tid)
    (hdone : (t2.ops.filter (· ≠ o)).isEmpty = true → t2.response.isSome = true) :
    wp (if (t2.ops.filter (· ≠ o)).isEmpty then pure { s2 with tasks := aerase t2.id s2.tasks }
        else pure (s2.setTask { t2 with ops := t2.ops.filter (· ≠ o) }) : M State)
      (fun s' => Inv s' ∧ Fr s2 s') := by
  have hid : t2.id = tid := (hI2.core.tid tid t2 ht2).1
  have hinv := dropOp_inv hI2 hno ht2 hmem huniq hdone
  split
  · rename_i hemp
    rw [if_pos hemp] at hinv
    refine ⟨hinv, Fr.of_fields rfl (Nat.le_refl _) (Nat.le_refl _) (Nat.le_refl _) rfl (Ext.refl _ _) ?_⟩
    intro k hk t'
    simp only []
    rw [alookup_aerase _ _ _ hI2.core.tnd]
    split
    · intro e; cases e
    · exact hk.2 t'
  · rename_i hemp
    rw [if_neg hemp] at hinv
    exact ⟨hinv, Fr.setTask (t := { t2 with ops := t2.ops.filter (· ≠ o) }) (t0 := t2) (by simp only []; rw [hid]; exact ht2) rfl⟩


set_option maxHeartbeats 800000 in
theorem removeOp_spec {h : Hints} {s : State} {o : Nat} (hI : Inv s)
    (hwz : ∀ op, alookup o s.ops = some op → op.waiters = 0) :
    wp (removeOp h s o) (fun s' => Inv s' ∧ Fr s s') := by
  unfold removeOp
  simp only [op?_def]
  cases hop : alookup o s.ops with
  | none => exact ⟨hI, Fr.refl s⟩
  | some op =>
    simp only []
    have hI1 := eraseOp_inv hI hwz
    obtain ⟨t, ht, hmem⟩ := hI.oinv.o1 o op hop
    have hid : t.id = op.task := (hI.core.tid _ t ht).1
    have hfr1 : Fr s { s with ops := aerase o s.ops } :=
      Fr.of_fields rfl (Nat.le_refl _) (Nat.le_refl _) (Nat.le_refl _) rfl (Ext.refl _ _) (fun k hk => hk.2)
    have hno1 : alookup o (aerase o s.ops) = none := alookup_aerase_self _ _ hI.oinv.ond
    have huniq0 : ∀ k t', alookup k s.tasks = some t' → o ∈ t'.ops → k = op.task := by
      intro k t' hk ho'
      rcases (hI.oinv.o2 k t' o hk ho').2 with b | ⟨op', e1, e2⟩
      · exact absurd b id
      · rw [hop] at e1; cases e1; exact e2.symm
    simp only [task?_def, ht]
    by_cases hlen : t.ops.length = 1
    · rw [if_pos hlen]
      apply wp_bind
      refine wp_mono (complete_spec (h := h) (r := ⟨cCanceled, 0, 0, .noWaiters⟩) (bw := false) hI1
        (by simp only [hid, ht]; rfl)) ?_
      intro s2 ⟨hI2, hcp, hd, hnn⟩
      rw [hid] at hcp hd
      obtain ⟨t2, ht2, hops2, _⟩ := hcp.tt t ht
      have hnn' := hnn (by simp [cCanceled, cOK])
      simp only [task?_def, ht2]
      have hno2 : alookup o s2.ops = none := by
        have h1 := hcp.opk o (hI.oinv.oid o op hop).2
        simp only at h1
        rw [hno1] at h1
        cases ha : alookup o s2.ops with
        | none => rfl
        | some op2 => rw [ha] at h1; cases h1
      have huniq2 : ∀ k t', alookup k s2.tasks = some t' → o ∈ t'.ops → k = op.task := by
        intro k t' hk ho'
        by_cases hkt : k = op.task
        · exact hkt
        · have hlt := (hI2.core.tid k t' hk).2
          rw [hnn'.1] at hlt
          rw [hcp.tk k hkt hlt] at hk
          exact huniq0 k t' hk ho'
      refine wp_mono (removeOp_tail hI2 hno2 ht2 (by rw [hops2]; exact hmem) huniq2 (fun _ => hd (Or.inl rfl) t2 ht2)) ?_
      intro s' ⟨hI', hfr⟩
      exact ⟨hI', (hfr1.trans hcp.fr).trans hfr⟩
    · rw [if_neg hlen]
      simp only [pure_bind, task?_def, ht]
      refine wp_mono (removeOp_tail hI1 hno1 ht hmem huniq0 ?_) ?_
      · intro hemp
        exact absurd (filter_ne_empty_length (hI.oinv.o3 _ t ht).1 hmem hemp) hlen
      · intro s' ⟨hI', hfr⟩
        exact ⟨hI', hfr1.trans hfr⟩

/-- tasks that exist keep existing across `complete` -/
theorem CompPost.persist {s s' : State} {tid : Nat} (h : CompPost s tid s')
    (hI : Inv s) (k : Nat) (hk : (alookup k s.tasks).isSome = true) : (alookup k s'.tasks).isSome = true := by
  cases hkk : alookup k s.tasks with
  | none => rw [hkk] at hk; cases hk
  | some t =>
    by_cases hkt : k = tid
    · subst hkt
      obtain ⟨t', a, _⟩ := h.tt t hkk
      rw [a]; rfl
    · rw [h.tk k hkt (hI.core.tid k t hkk).2, hkk]; rfl

theorem foldl_complete_spec {h : Hints} {r : Resp} (ids : List Nat) {s : State} (hI : Inv s)
    (hex : ∀ k ∈ ids, (alookup k s.tasks).isSome = true) :
    wp (ids.foldlM (fun s t => complete h s t r false) s) (fun s' => Inv s' ∧ Fr s s' ∧
      ∀ q w, (wfind s'.workers q w).isSome = (wfind s.workers q w).isSome) := by
  induction ids generalizing s with
  | nil => exact ⟨hI, Fr.refl s, fun _ _ => rfl⟩
  | cons a rest ih =>
    rw [List.foldlM_cons]
    apply wp_bind
    refine wp_mono (complete_spec (h := h) (r := r) (bw := false) hI (hex a (by simp))) ?_
    intro s1 ⟨hI1, hcp, _, _⟩
    refine wp_mono (ih hI1 ?_) ?_
    · intro k hk; exact hcp.persist hI k (hex k (by simp [hk]))
    · intro s' ⟨hI', hfr, hw⟩
      exact ⟨hI', hcp.fr.trans hfr, fun q w => (hw q w).trans (hcp.wex q w)⟩

theorem cancelAllQueued_spec {h : Hints} {s : State} {q : ScqId} {r : Resp} (hI : Inv s) :
    wp (cancelAllQueued h s q r) (fun s' => Inv s' ∧ Fr s s' ∧
      ∀ q w, (wfind s'.workers q w).isSome = (wfind s.workers q w).isSome) := by
  unfold cancelAllQueued
  apply foldl_complete_spec _ hI
  intro k hk
  simp only [List.mem_map, List.mem_filter] at hk
  obtain ⟨⟨k', t⟩, ⟨hm, _⟩, rfl⟩ := hk
  rw [alookup_of_mem hI.core.tnd hm]; rfl

/-- `Inv` does not depend on the queue registry, the clock, or the pending `TerminateWorkers` calls -/
theorem InvX.of_same {ex exo} {s s' : State} (h : InvX ex exo s) (h1 : s'.tasks = s.tasks)
    (h2 : s'.workers = s.workers) (h3 : s'.dedup = s.dedup) (h4 : s'.nextTask = s.nextTask)
    (h5 : s'.nextLearner = s.nextLearner) (h6 : s'.ops = s.ops) (h7 : s'.nextOp = s.nextOp)
    (h8 : s'.streams = s.streams) (h9 : s'.cleanup = s.cleanup) (h10 : s'.events = s.events) :
    InvX ex exo s' := by
  obtain ⟨a, b, c, d⟩ := h
  refine ⟨?_, ?_, ?_, ?_⟩
  · rw [h1, h2, h3, h4, h5]; exact a
  · rw [h1, h6, h7]; exact b
  · rw [h6, h8, h9]; exact c
  · rw [h1, h5, h10]; exact d

theorem Fr.of_same {s s' : State} (h0 : s'.cfg = s.cfg) (h1 : s'.tasks = s.tasks)
    (h4 : s'.nextTask = s.nextTask) (h5 : s'.nextLearner = s.nextLearner) (h7 : s'.nextOp = s.nextOp)
    (h10 : s'.events = s.events) (h11 : s'.assigned = s.assigned) : Fr s s' := by
  refine Fr.of_fields h0 (by rw [h4]; exact Nat.le_refl _) (by rw [h5]; exact Nat.le_refl _)
    (by rw [h7]; exact Nat.le_refl _) h11 (by rw [h10]; exact Ext.refl _ _) ?_
  intro k hk t; rw [h1]; exact hk.2 t

theorem removeScq_spec {h : Hints} {s : State} {q : ScqId} (hI : Inv s) :
    wp (removeScq h s q) (fun s' => Inv s' ∧ Fr s s') := by
  unfold removeScq
  apply wp_bind
  refine wp_mono (cancelAllQueued_spec hI) ?_
  intro s1 ⟨hI1, hfr, _⟩
  simp only []
  split
  · exact ⟨hI1.of_same rfl rfl rfl rfl rfl rfl rfl rfl rfl rfl, hfr.trans (Fr.of_same rfl rfl rfl rfl rfl rfl rfl)⟩
  · exact ⟨hI1.of_same rfl rfl rfl rfl rfl rfl rfl rfl rfl rfl, hfr.trans (Fr.of_same rfl rfl rfl rfl rfl rfl rfl)⟩

/-- removing a worker that holds no task -/
theorem removeWorker_inv {ex exo} {s : State} {q : ScqId} {w : WId} {wk : Worker} (hI : InvX ex exo s)
    (hw : wfind s.workers q w = some wk) (hwt : wk.task = none) :
    InvX ex exo { s with workers := s.workers.filter (fun x => ¬ (x.scq = q ∧ x.id = w)) } := by
  refine ⟨?_, hI.oinv, hI.sinv, hI.linv⟩
  simp only []
  have hc := hI.core
  core_facts hc
  constructor
  case wnd => exact wnodup_filter _ _ hc.wnd
  all_goals ((try simp only [wfind_filter_ne]); grind)

def staleTail (s1 : State) (q : ScqId) (w : WId) (rt : Nat) : M State :=
  let s := { s1 with workers := s1.workers.filter (fun x => ¬ (x.scq = q ∧ x.id = w)) }
  match s.scq? q with
  | some sq =>
    if !s.workers.any (fun x => x.scq = q) ∧ sq.mayBeRemoved
    then return s.addCleanup (rt + s.cfg.pqTimeout) (.scq q) else return s
  | none => return s

theorem removeStaleWorker_eq (h : Hints) (s : State) (q : ScqId) (w : WId) (rt : Nat) :
    removeStaleWorker h s q w rt =
      match s.worker? q w with
      | none => pure s
      | some wk =>
        (match wk.task with
          | some t => complete h s t ⟨cUnavailable, 0, 0, .workerDisappeared⟩ false
          | none => pure s) >>= fun s1 => staleTail s1 q w rt := by
  unfold removeStaleWorker staleTail
  cases s.worker? q w with
  | none => rfl
  | some wk =>
    dsimp only
    cases wk.task with
    | none => rfl
    | some t => rfl

theorem staleTail_spec {s1 : State} {q : ScqId} {w : WId} {rt : Nat} {wk1 : Worker} (hI1 : Inv s1)
    (hw1 : wfind s1.workers q w = some wk1) (hwt1 : wk1.task = none) :
    wp (staleTail s1 q w rt) (fun s' => Inv s' ∧ Fr s1 s') := by
  have hI2 := removeWorker_inv hI1 hw1 hwt1
  have hfr2 : Fr s1 { s1 with workers := s1.workers.filter (fun x => ¬ (x.scq = q ∧ x.id = w)) } :=
    Fr.of_same rfl rfl rfl rfl rfl rfl rfl
  unfold staleTail
  dsimp only
  split
  · split
    · refine ⟨⟨hI2.core, hI2.oinv, ?_, hI2.linv⟩, hfr2.trans (Fr.of_same rfl rfl rfl rfl rfl rfl rfl)⟩
      exact hI2.sinv.cleanup_cons _ (by intro k; simp)
    · exact ⟨hI2, hfr2⟩
  · exact ⟨hI2, hfr2⟩

theorem removeStaleWorker_spec {h : Hints} {s : State} {q : ScqId} {w : WId} {rt : Nat} (hI : Inv s) :
    wp (removeStaleWorker h s q w rt) (fun s' => Inv s' ∧ Fr s s') := by
  rw [removeStaleWorker_eq]
  simp only [worker?_def]
  cases hw : wfind s.workers q w with
  | none => exact ⟨hI, Fr.refl s⟩
  | some wk =>
    dsimp only
    have hmid : wp (match wk.task with
        | some t => complete h s t ⟨cUnavailable, 0, 0, .workerDisappeared⟩ false
        | none => pure s)
        (fun s1 => Inv s1 ∧ Fr s s1 ∧ ∃ wk1, wfind s1.workers q w = some wk1 ∧ wk1.task = none) := by
      cases hwt : wk.task with
      | none => exact ⟨hI, Fr.refl s, wk, hw, hwt⟩
      | some tid =>
        dsimp only
        obtain ⟨t, ht, htw⟩ := hI.core.p1 q w wk tid hw hwt
        have hr : t.response = none := hI.core.p3 tid t ht (by rw [htw]; rfl)
        have hnp : wk.parked = false := by
          cases hp : wk.parked with
          | false => rfl
          | true => have := (hI.core.w1 q w wk hw hp).1; rw [hwt] at this; cases this
        refine wp_mono (complete_spec (h := h) (r := ⟨cUnavailable, 0, 0, .workerDisappeared⟩) (bw := false) hI
          (by rw [ht]; rfl)) ?_
        intro s1 ⟨hI1, hcp, hd, _⟩
        obtain ⟨wk1, hw1, he1, hor⟩ := hcp.rw q w wk hw hnp
        refine ⟨hI1, hcp.fr, wk1, hw1, ?_⟩
        rcases hor with hor | hor
        · exfalso
          rw [hwt] at hor
          obtain ⟨t1, ht1, htw1⟩ := hI1.core.p1 q w wk1 tid hw1 hor
          have hn := hI1.core.p3 tid t1 ht1 (by rw [htw1]; rfl)
          have hs := hd (Or.inl rfl) t1 ht1
          rw [hn] at hs; cases hs
        · exact hor
    apply wp_bind
    refine wp_mono hmid ?_
    intro s1 ⟨hI1, hfr, wk1, hw1, hwt1⟩
    refine wp_mono (staleTail_spec hI1 hw1 hwt1) ?_
    intro s' ⟨hI', hfr'⟩
    exact ⟨hI', hfr.trans hfr'⟩

theorem popDue_fold_mem (now : Nat) (cs : List CleanupEntry) (init : Option CleanupEntry) (e : CleanupEntry)
    (h : cs.foldl (fun (best : Option CleanupEntry) e =>
      if e.deadline ≤ now then
        match best with
        | none => some e
        | some b => if e.deadline < b.deadline then some e else some b
      else best) init = some e) : init = some e ∨ e ∈ cs := by
  induction cs generalizing init with
  | nil => exact Or.inl h
  | cons a rest ih =>
    rw [List.foldl_cons] at h
    rcases ih _ h with h1 | h1
    · split at h1
      · split at h1
        · cases h1; exact Or.inr (by simp)
        · split at h1
          · cases h1; exact Or.inr (by simp)
          · rename_i b _ _; exact Or.inl (by rw [h1])
      · exact Or.inl h1
    · exact Or.inr (List.mem_cons_of_mem _ h1)

theorem popDue_some {now : Nat} {cs : List CleanupEntry} {e : CleanupEntry} {rest : List CleanupEntry}
    (h : popDue now cs = some (e, rest)) : e ∈ cs ∧ ∀ x, x ∈ rest → x ∈ cs := by
  unfold popDue at h
  split at h
  · cases h
  · rename_i e' he
    cases h
    rcases popDue_fold_mem now cs none e he with h1 | h1
    · cases h1
    · exact ⟨h1, fun x hx => (List.mem_filter.mp hx).1⟩

theorem runCleanup_spec {h : Hints} (fuel : Nat) {s : State} (hI : Inv s) :
    wp (runCleanup h fuel s) (fun s' => Inv s' ∧ Fr s s') := by
  induction fuel generalizing s with
  | zero => exact ⟨hI, Fr.refl s⟩
  | succ n ih =>
    unfold runCleanup
    cases hp : popDue s.now s.cleanup with
    | none => exact ⟨hI, Fr.refl s⟩
    | some er =>
      obtain ⟨e, rest⟩ := er
      dsimp only
      obtain ⟨hmem, hsub⟩ := popDue_some hp
      have hI0 : Inv { s with cleanup := rest } :=
        ⟨hI.core, hI.oinv, hI.sinv.cleanup_sub hsub, hI.linv⟩
      have hfr0 : Fr s { s with cleanup := rest } := Fr.of_same rfl rfl rfl rfl rfl rfl rfl
      cases hk : e.kind with
      | worker q w =>
        dsimp only
        apply wp_bind
        refine wp_mono (removeStaleWorker_spec hI0) ?_
        intro s1 ⟨hI1, b⟩
        refine wp_mono (ih hI1) ?_
        intro s' ⟨a, c⟩; exact ⟨a, (hfr0.trans b).trans c⟩
      | op o =>
        dsimp only
        apply wp_bind
        refine wp_mono (removeOp_spec hI0 ?_) ?_
        · intro op hop; exact hI.sinv.s2 o op e hop hmem hk
        · intro s1 ⟨hI1, b⟩
          refine wp_mono (ih hI1) ?_
          intro s' ⟨a, c⟩; exact ⟨a, (hfr0.trans b).trans c⟩
      | scq q =>
        dsimp only
        apply wp_bind
        refine wp_mono (removeScq_spec hI0) ?_
        intro s1 ⟨hI1, b⟩
        refine wp_mono (ih hI1) ?_
        intro s' ⟨a, c⟩; exact ⟨a, (hfr0.trans b).trans c⟩

theorem enter_spec {h : Hints} {s : State} {t : Nat} (hI : Inv s) :
    wp (enter h s t) (fun s' => Inv s' ∧ Fr s s') := by
  unfold enter
  split
  · have hI0 : Inv { s with now := t } := hI.of_same rfl rfl rfl rfl rfl rfl rfl rfl rfl rfl
    refine wp_mono (runCleanup_spec _ hI0) ?_
    intro s' ⟨a, b⟩
    exact ⟨a, (Fr.of_same rfl rfl rfl rfl rfl rfl rfl : Fr s { s with now := t }).trans b⟩
  · exact ⟨hI, Fr.refl s⟩

end BbRe.Lemmas.SchedInv
