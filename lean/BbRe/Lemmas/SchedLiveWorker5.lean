import BbRe.Lemmas.SchedLiveWorker4
/-!
Worker invariant through `assignNext`, `getNextTask`, `getCurrentOrNext`,
`syncArrive`, `syncWake`.
-/
namespace BbRe.Lemmas.SchedLive
open BbRe.Sched

theorem alookup_of_mem {α} {l : List (Nat × α)} (hn : (akeys l).Nodup) {k : Nat} {v : α} (hm : (k, v) ∈ l) :
    alookup k l = some v := by
  induction l with
  | nil => cases hm
  | cons p r ih =>
    obtain ⟨a, b⟩ := p
    simp only [akeys, List.map_cons, List.nodup_cons] at hn
    simp only [List.mem_cons, Prod.mk.injEq] at hm
    rcases hm with ⟨rfl, rfl⟩ | hm
    · simp [alookup]
    · have : a ≠ k := by
        intro e; subst e; exact hn.1 (List.mem_map.2 ⟨(a, v), hm, rfl⟩)
      simp only [alookup, this, if_false]; exact ih hn.2 hm

/-- a queued task of a size-class queue is stored under its id, is in that queue, has no worker and no response -/
theorem queuedTasks_mem {s : State} (hk : KeysOK s) {q : ScqId} {t : Task} (h : t ∈ queuedTasks s q) :
    s.task? t.id = some t ∧ t.scq = q ∧ t.worker = none ∧ t.response = none := by
  unfold queuedTasks at h
  simp only [List.mem_map, List.mem_filter, decide_eq_true_eq] at h
  obtain ⟨⟨k, t0⟩, ⟨hm, hc⟩, rfl⟩ := h
  have hl : s.task? k = some t0 := alookup_of_mem hk.tnodup hm
  have hid := (hk.tid k t0 hl).1
  simp only at hc ⊢
  exact ⟨by rw [hid]; exact hl, hc.1, by simpa using hc.2.2.1, by simpa using hc.2.2.2⟩

/-- the worker `(q, w)` is in the middle of a `Synchronize` segment: inside, and none of the waiting flags set -/
def SyncPre (s : State) (q : ScqId) (w : WId) : Prop :=
  ∀ wk, s.worker? q w = some wk → wk.inSync = true ∧ wk.parked = false ∧ wk.woken = false ∧ wk.drainWait = none

theorem syncReturn_winv {s : State} (q : ScqId) (w : WId) (hw : WInv s) : WInv (syncReturn s q w) := by
  unfold syncReturn
  split
  · rename_i wk hwk
    obtain ⟨hm, _, _⟩ := worker?_mem hwk
    refine hw.setWorker (X := noX) rfl (WFrame.of_eq rfl rfl rfl) (NoPtr.noX s) ?_
    exact ⟨by simp, by simp, by simp, fun tid ht => (hw.ok wk hm).ptr tid ht⟩
  · exact hw

theorem assignNext_winv {h : Hints} {s s1 : State} {wk : Worker} {got : Bool}
    (hh : assignNext h s wk = .ok (s1, got)) (hk : KeysOK s) (hw : WInv s) (hm : wk ∈ s.workers)
    (hp : wk.parked = false) (hd : wk.drainWait = none) : WInv s1 := by
  rcases assignNext_ok hh with ⟨_, rfl, _⟩ | ⟨_, t, t', hq, hwt, htw, h3, rfl⟩
  · exact hw
  · obtain ⟨hl, _, _, hresp⟩ := queuedTasks_mem hk hq
    have hlt := (hk.tid _ _ hl).2
    have ht' : t' = { t with worker := some (wk.scq, wk.id), retry := 0, queued := false } := by
      simp only [State.task?, assignS_tasks, alookup_aset, if_true] at h3
      injection h3 with h3; exact h3.symm
    subst ht'
    have hok := hw.ok wk hm
    refine hw.setWorker (X := (· = t.id)) (w := { wk with task := some t.id }) (by simp)
      (WFrame.of_aset (k0 := t.id) rfl rfl (by other_keys)) (noPtr_of_worker_none hw hl htw) ?_
    refine ⟨by simp [hp], ?_, by simp [hd], ?_⟩
    · intro hwo; exact hok.woken hwo
    · intro tid' e
      simp only [Option.some.injEq] at e; subst e
      refine ⟨hlt, ?_⟩
      intro tk htk
      simp only [State.task?, setTask_tasks, assignS_tasks, alookup_aset, bumpGen, if_true, Option.some.injEq] at htk
      subst htk
      exact ⟨rfl, hresp⟩

theorem getNextTask_kw {h : Hints} {s s' : State} {q : ScqId} {w : WId} {pi block : Bool}
    (hh : getNextTask h s q w pi block = .ok s')
    (hpre : SyncPre s q w) (hnt : ∀ wk, s.worker? q w = some wk → wk.task = none) : KWStep s s' := by
  refine KWStep.of (getNextTask_tstep (allow := True) hh) (fun hk hw => ?_)
  obtain ⟨wk, sq, hwk, hsq, h1 | h1 | h1⟩ := getNextTask_ok hh
  · obtain ⟨_, rfl⟩ := h1
    exact syncReturn_winv q w (winv_same hw rfl rfl rfl rfl)
  · obtain ⟨_, hdr, s1, got, h2, h3⟩ := h1
    obtain ⟨hm, hq', hw'⟩ := worker?_mem hwk
    obtain ⟨pin, ppk, pwo, pdw⟩ := hpre wk hwk
    have hw1 : WInv s1 := assignNext_winv h2 hk hw hm ppk pdw
    rcases h3 with h3 | h3 | h3
    · obtain ⟨_, wk1, s2, _, h4, rfl⟩ := h3
      obtain ⟨tid, t, _, _, rfl⟩ := execResponse_ok h4
      exact syncReturn_winv q w (winv_same hw1 rfl rfl rfl rfl)
    · obtain ⟨_, _, rfl⟩ := h3
      exact syncReturn_winv q w (winv_same hw1 rfl rfl rfl rfl)
    · obtain ⟨hg, _, wk1, hwk1, _, rfl⟩ := h3
      -- nothing was assigned: the state is unchanged and the worker parks
      rcases assignNext_ok h2 with ⟨_, rfl, _⟩ | ⟨hg', _⟩
      · rw [hwk] at hwk1; injection hwk1 with hwk1; subst hwk1
        unfold isDrained at hdr
        simp only [Bool.or_eq_false_iff, List.any_eq_false] at hdr
        refine hw.setWorker (X := noX) rfl (WFrame.of_eq rfl rfl rfl) (NoPtr.noX _) ?_
        refine ⟨?_, by simp, by simp [pdw], fun tid ht => ((hw.ok wk hm).ptr tid ht)⟩
        intro _
        refine ⟨pin, rfl, hnt wk hwk, hdr.1, pdw, ?_⟩
        intro sq' hsq' p hp
        simp only [parkS_scqs, State.scq?] at hsq'
        rw [hq'] at hsq'
        have : sq' = sq := by
          have := hsq; simp only [State.scq?] at this; rw [this] at hsq'; injection hsq' with e; exact e.symm
        subst this
        have := hdr.2 p hp
        simpa using this
      · rw [hg] at hg'; cases hg'
  · obtain ⟨_, hdr, h2 | h2⟩ := h1
    · obtain ⟨_, rfl⟩ := h2
      exact syncReturn_winv q w (winv_same hw rfl rfl rfl rfl)
    · obtain ⟨_, rfl⟩ := h2
      obtain ⟨hm, _, _⟩ := worker?_mem hwk
      obtain ⟨pin, ppk, pwo, pdw⟩ := hpre wk hwk
      refine hw.setWorker (X := noX) rfl (WFrame.of_eq rfl rfl rfl) (NoPtr.noX _) ?_
      exact ⟨by simp [ppk], by simp [pwo], fun _ => ⟨pin, hnt wk hwk⟩, fun tid ht => ((hw.ok wk hm).ptr tid ht)⟩

theorem getCurrentOrNext_kw {h : Hints} {s s' : State} {q : ScqId} {w : WId} {pi block : Bool}
    (hh : getCurrentOrNext h s q w pi block = .ok s') (hpre : SyncPre s q w) : KWStep s s' := by
  obtain ⟨wk, hwk, h1 | h1⟩ := getCurrentOrNext_ok hh
  · refine getNextTask_kw h1.2 hpre ?_
    intro wk' hwk'; rw [hwk] at hwk'; injection hwk' with e; subst e; exact h1.1
  · obtain ⟨tid, t, htk, h0, h2 | h2⟩ := h1
    · obtain ⟨_, rfl⟩ := h2
      refine KWStep.of (getCurrentOrNext_tstep (allow := True) hh) (fun hk hw => ?_)
      have hid := (hk.tid tid t h0).1
      refine syncReturn_winv q w ?_
      exact hw.of_frame rfl (WFrame.of_aset_same (t0 := t) (t2 := { t with retry := t.retry + 1 }) (k0 := t.id)
        (by rw [hid]; exact h0) rfl rfl (by simp) (by simp) (by simp)) (NoPtr.noX _)
    · obtain ⟨_, s1, h3, h4⟩ := h2
      intro hkw
      have hkw1 := complete_kw h3 hkw
      obtain ⟨keep, clr⟩ := complete_keep (q := q) (w := w) h3 hkw.2
      obtain ⟨pin, ppk, pwo, pdw⟩ := hpre wk hwk
      refine getNextTask_kw h4 ?_ ?_ hkw1
      · intro wk1 hwk1
        obtain ⟨wk', e1, p1, a1, a2, a3, _⟩ := keep wk hwk ppk
        rw [e1] at hwk1; injection hwk1 with e; subst e
        exact ⟨a1 ▸ pin, p1, a2 ▸ pwo, a3 ▸ pdw⟩
      · intro wk1 hwk1; exact clr wk hwk ppk htk wk1 hwk1

end BbRe.Lemmas.SchedLive
