import BbRe.Model.PoolStack
import BbRe.Lemmas.FilePoolSeek3
import BbRe.Lemmas.BitmapSpec
import BbRe.Lemmas.BitmapDrain
import BbRe.Lemmas.Quota
/-!
Helper lemmas for `Properties/C15Stack.lean`: the answers loop of `Model/PoolStack.lean` against
`Spec/AllocSpec.lean`, and the coupling invariant between the bitmap and the file layer.
-/
namespace BbRe.Lemmas.PoolStack
open BbRe BbRe.PoolStack BbRe.FilePool

theorem ansSectors_append (a b : List AllocAns) : ansSectors (a ++ b) = ansSectors a ++ ansSectors b := by
  induction a with
  | nil => rfl
  | cons x xs ih =>
    cases x with
    | range f c => simp [ansSectors, ih]
    | fail => simpa [ansSectors] using ih

/-- What the answers loop guarantees about the answers `as` found so far, relative to the bitmap
`bm0` at the start of the call: the bitmap invariant, the bitmap holds exactly what it held plus the
answers, the answers were free at the start, are on the device and pairwise distinct. -/
structure AnsOk (n : Nat) (bm0 bm : Bitmap.State) (as : List AllocAns) : Prop where
  inv : Bitmap.Inv n bm
  abs : ∀ s, Bitmap.abs n bm s = (Bitmap.abs n bm0 s || (ansSectors as).contains s)
  fresh : ∀ s ∈ ansSectors as, Bitmap.abs n bm0 s = false
  nodup : (ansSectors as).Nodup

theorem AnsOk.start {n : Nat} {bm : Bitmap.State} (h : Bitmap.Inv n bm) : AnsOk n bm bm [] :=
  ⟨h, by intro s; simp [ansSectors], by intro s hs; simp [ansSectors] at hs, by simp [ansSectors]⟩

theorem AnsOk.fail {n : Nat} {bm0 bm : Bitmap.State} {as : List AllocAns} (h : AnsOk n bm0 bm as) :
    AnsOk n bm0 bm (as ++ [.fail]) := by
  have e : ansSectors (as ++ [.fail]) = ansSectors as := by simp [ansSectors_append, ansSectors]
  exact ⟨h.inv, by rw [e]; exact h.abs, by rw [e]; exact h.fresh, by rw [e]; exact h.nodup⟩

theorem AnsOk.alloc {n : Nat} {bm0 bm bm' : Bitmap.State} {as : List AllocAns} {m first count : Nat}
    (h : AnsOk n bm0 bm as) (hm : 1 ≤ m) (ha : Bitmap.alloc bm m = (bm', some (first, count))) :
    AnsOk n bm0 bm' (as ++ [.range first count]) ∧
      AllocSpec.AllocOk n (Bitmap.abs n bm) m first count (Bitmap.abs n bm') := by
  have h2 : (Bitmap.alloc bm m).2 = some (first, count) := by rw [ha]
  have h1 : (Bitmap.alloc bm m).1 = bm' := by rw [ha]
  have hok := Lemmas.Bitmap.alloc_ok_spec n bm m first count h.inv hm h2
  have hinv := Lemmas.Bitmap.alloc_inv n bm m h.inv hm
  rw [h1] at hok hinv
  have e : ansSectors (as ++ [.range first count]) = ansSectors as ++ List.range' first count := by
    simp [ansSectors_append, ansSectors]
  have hrun : ∀ s, AllocSpec.inRun first count s = (List.range' first count).contains s := by
    intro s
    rw [Bool.eq_iff_iff]
    simp [AllocSpec.inRun, List.mem_range'_1]
  refine ⟨⟨hinv, ?_, ?_, ?_⟩, hok⟩
  · intro s
    rw [hok.post s, h.abs s, e, hrun s]
    rw [Bool.eq_iff_iff]
    simp [or_assoc]
  · intro s hs
    rw [e, List.mem_append] at hs
    rcases hs with hs | hs
    · exact h.fresh s hs
    · rw [List.mem_range'_1] at hs
      have := hok.were_free s hs.1 hs.2
      rw [h.abs s] at this
      simp at this
      exact this.1
  · rw [e, List.nodup_append]
    refine ⟨h.nodup, List.nodup_range', ?_⟩
    intro a ha b hb hab
    subst hab
    rw [List.mem_range'_1] at hb
    have := hok.were_free a hb.1 hb.2
    rw [h.abs a] at this
    simp at this
    exact this.2 ha

theorem AnsOk.allocNone {n : Nat} {bm0 bm bm' : Bitmap.State} {as : List AllocAns} {m : Nat}
    (h : AnsOk n bm0 bm as) (hm : 1 ≤ m) (ha : Bitmap.alloc bm m = (bm', none)) :
    AnsOk n bm0 bm' (as ++ [.fail]) := by
  have h2 : (Bitmap.alloc bm m).2 = none := by rw [ha]
  have h1 : (Bitmap.alloc bm m).1 = bm' := by rw [ha]
  have hf := Lemmas.Bitmap.alloc_fail_spec n bm m h2
  have hinv := Lemmas.Bitmap.alloc_inv n bm m h.inv hm
  rw [h1] at hf hinv
  exact AnsOk.fail ⟨hinv, by intro s; rw [hf.post s]; exact h.abs s, h.fresh, h.nodup⟩

/-- the answers loop keeps `AnsOk` -/
theorem answers_ok {n : Nat} (c : Cfg) (f : File) (e0 : Env) (p : List Byte) (off : Int) (ax : Option Nat)
    (bm0 : Bitmap.State) : ∀ (fuel : Nat) (bm : Bitmap.State) (as : List AllocAns), AnsOk n bm0 bm as →
      AnsOk n bm0 (answers c f e0 p off ax fuel bm as).1 (answers c f e0 p off ax fuel bm as).2 := by
  intro fuel
  induction fuel with
  | zero => intro bm as h; exact h
  | succ k ih =>
    intro bm as h
    unfold answers
    dsimp only
    split
    · split
      · exact h.fail
      · split
        · exact h
        · rename_i hm
          split
          · rename_i bm' first count ha
            exact ih bm' _ (h.alloc (by omega) ha).1
          · rename_i bm' ha
            exact h.allocNone (by omega) ha
    · exact h

/-! ## coupling of the bitmap with the file layer -/

/-- the bitmap holds exactly the sectors the file layer holds -/
structure Coupled (st : PoolStack.State) : Prop where
  fpInv : Lemmas.FilePool.Inv st.fp
  bmInv : Bitmap.Inv st.fp.cfg.nsec st.bm
  agree : ∀ s, Bitmap.abs st.fp.cfg.nsec st.bm s = st.fp.allocd.contains s

theorem coupled_init (c : Cfg) (hss : 0 < c.ss) (mf mb : Nat) : Coupled (PoolStack.init c mf mb) :=
  ⟨Lemmas.FilePool.inv_init c hss, Lemmas.Bitmap.new_inv c.nsec, by
    intro s
    show Bitmap.abs c.nsec (Bitmap.new c.nsec) s = ([] : List Nat).contains s
    rw [Lemmas.Bitmap.abs_new]; rfl⟩

theorem answersFor_ok (st : PoolStack.State) (op : Op) (inp : Inputs) (h : Bitmap.Inv st.fp.cfg.nsec st.bm) :
    AnsOk st.fp.cfg.nsec st.bm (answersFor st op inp).1 (answersFor st op inp).2 := by
  unfold answersFor
  split
  · split
    · exact answers_ok _ _ _ _ _ _ _ _ _ _ (AnsOk.start h)
    · exact AnsOk.start h
  · exact AnsOk.start h

/-- `syncFree` after a call: if the flag is not raised, the bitmap again holds exactly what the file
layer holds. -/
theorem syncFree_agree {n : Nat} {bm0 bm : Bitmap.State} {as : List AllocAns} {before after : List Nat}
    (h : AnsOk n bm0 bm as) (hb : ∀ s, Bitmap.abs n bm0 s = before.contains s) (hnd : before.Nodup)
    (hflag : (syncFree bm (ansSectors as ++ before) after).2 = false) :
    Bitmap.Inv n (syncFree bm (ansSectors as ++ before) after).1 ∧
      ∀ s, Bitmap.abs n (syncFree bm (ansSectors as ++ before) after).1 s = after.contains s := by
  have habs : ∀ s, Bitmap.abs n bm s = true ↔ s ∈ ansSectors as ++ before := by
    intro s
    rw [h.abs s, hb s]
    simp [or_comm]
  have hheld : (ansSectors as ++ before).Nodup := by
    rw [List.nodup_append]
    refine ⟨h.nodup, hnd, ?_⟩
    intro a ha b hb' hab
    subst hab
    have := h.fresh a ha
    rw [hb a] at this
    simp at this
    exact this hb'
  unfold syncFree at hflag ⊢
  split at hflag
  · rename_i hsub
    rw [if_pos hsub]
    have hpre : AllocSpec.FreeListPre (Bitmap.abs n bm)
        ((ansSectors as ++ before).filter fun s => !after.contains s) := by
      refine ⟨?_, ?_⟩
      · intro s hs _
        exact (habs s).2 (List.mem_filter.1 hs).1
      · exact (hheld.sublist List.filter_sublist).sublist List.filter_sublist
    obtain ⟨st', e, hinv, hpost⟩ := Lemmas.Bitmap.freeList_ok_spec n bm _ h.inv hpre
    rw [e] at hflag ⊢
    refine ⟨hinv, ?_⟩
    intro s
    rw [hpost s]
    by_cases hs : s ∈ after
    · have hh : s ∈ ansSectors as ++ before := by
        have := List.all_eq_true.1 hsub s hs
        simpa using this
      have h1 := (habs s).2 hh
      rw [h1]
      simp [hs]
    · cases ha : Bitmap.abs n bm s
      · simp [hs]
      · have hh := (habs s).1 ha
        have h0 : s ≠ 0 := by
          have := (Lemmas.Bitmap.abs_eq_true.1 ha).1
          omega
        have hh' : s ∈ ansSectors as ∨ s ∈ before := List.mem_append.1 hh
        simp [hs, h0]
        intro hna
        rcases hh' with h' | h'
        · exact absurd h' hna
        · exact h'
  · simp at hflag

/-- one call into the base keeps the coupling unless the flag is raised -/
theorem base_coupled {st : PoolStack.State} (h : Coupled st) (op : Op) (inp : Inputs)
    (hflag : (base st op inp).1.broken = false) : Coupled (base st op inp).1 := by
  have hA := answersFor_ok st op inp h.bmInv
  have hcfg := Lemmas.FilePool.step_cfg st.fp op { answers := (answersFor st op inp).2, faults := inp.faults }
  have hinv := Lemmas.FilePool.inv_step h.fpInv op { answers := (answersFor st op inp).2, faults := inp.faults }
  unfold base at hflag ⊢
  dsimp only at hflag ⊢
  have hf2 : (syncFree (answersFor st op inp).1 (ansSectors (answersFor st op inp).2 ++ st.fp.allocd)
      (FilePool.step st.fp op { answers := (answersFor st op inp).2, faults := inp.faults }).1.allocd).2 = false := by
    cases hx : (syncFree (answersFor st op inp).1 (ansSectors (answersFor st op inp).2 ++ st.fp.allocd)
      (FilePool.step st.fp op { answers := (answersFor st op inp).2, faults := inp.faults }).1.allocd).2
    · rfl
    · rw [hx] at hflag; simp at hflag
  obtain ⟨h1, h2⟩ := syncFree_agree hA h.agree h.fpInv.allocNodup hf2
  exact ⟨hinv, by rw [hcfg]; exact h1, by rw [hcfg]; exact h2⟩

end BbRe.Lemmas.PoolStack
