import BbRe.Lemmas.SchedLiveClean2
/-!
Cleanup accounting through `complete`.
-/
namespace BbRe.Lemmas.SchedLive
open BbRe.Sched

/-- the final completion of task `t` (stored under `tid`): response stored, background flags cleared,
entries armed for background operations without waiters -/
theorem finalize_cinv {x : Ex} {D : State} {tid : Nat} {t : Task} (ev : Event) (r : Resp)
    (hk : KeysOK D) (hc : CInv x D) (h0 : D.task? tid = some t) :
    CInv x (succS D (detachT t) ev r) := by
  have hid := (hk.tid tid t h0).1
  let M : State := (dropDedup (emit D ev) { detachT t with learner := none }).setTask
      (bumpGen { detachT t with learner := none, response := some r })
  have eM : succS D (detachT t) ev r = complete.finishOps M t.ops := by
    show complete.finishOps M (detachT t).ops = _; rw [detachT_ops]
  have hMops : M.ops = D.ops := by simp [M]
  have hMcl : M.cleanup = D.cleanup := by simp [M]
  have hMw : M.workers = D.workers := by simp [M]
  have hMq : M.scqs = D.scqs := by simp [M]
  have hMt : ∀ k, M.task? k = if tid = k then some (bumpGen { detachT t with learner := none, response := some r })
      else D.task? k := by
    intro k; simp [M, State.task?, alookup_aset, bumpGen, hid]
  have hMop : ∀ k, M.op? k = D.op? k := by intro k; simp [State.op?, hMops]
  have hMk : ∀ k, hasK M k ↔ hasK D k := hasK_congr hMcl
  obtain ⟨s1, s2, s3⟩ := finishOps_spec t.ops M (by intro k op e; rw [hMop] at e; exact (hk.oname k op e).1)
  rw [eM]
  -- abbreviations for the final state
  have fw : (complete.finishOps M t.ops).workers = D.workers := by simp [hMw]
  have fq : (complete.finishOps M t.ops).scqs = D.scqs := by simp [hMq]
  have ft : ∀ k, (complete.finishOps M t.ops).task? k = M.task? k := by intro k; simp [State.task?]
  have hmono : ∀ k, hasK D k → hasK (complete.finishOps M t.ops) k := fun k h => (s2 k).2 (.inl ((hMk k).2 h))
  have hnew : ∀ k, hasK (complete.finishOps M t.ops) k → hasK D k ∨
      ∃ o ∈ t.ops, k = .op o ∧ ∃ op, D.op? o = some op ∧ op.mayExistWithoutWaiters = true ∧ op.waiters = 0 := by
    intro k h
    rcases (s2 k).1 h with h | ⟨o, ho, rfl, op, e, a, b⟩
    · exact .inl ((hMk k).1 h)
    · exact .inr ⟨o, ho, rfl, op, (hMop o) ▸ e, a, b⟩
  refine ⟨s3 (hMcl ▸ hc.uniq), ?_, ?_, ?_, ?_, ?_, ?_, ?_, ?_, ?_, ?_, ?_, ?_⟩
  · intro wk hm hi hh
    rw [fw] at hm
    rcases hnew _ hh with h | ⟨o, _, e, _⟩
    · exact hc.wIn wk hm hi h
    · cases e
  · intro wk hm hi hx; rw [fw] at hm; exact hmono _ (hc.wOut wk hm hi hx)
  · intro q w hh
    rw [fw]
    rcases hnew _ hh with h | ⟨o, _, e, _⟩
    · exact hc.eW q w h
    · cases e
  · intro o hh
    rw [s1, hMop]
    rcases hnew _ hh with h | ⟨o', ho', e, op, e1, a, b⟩
    · obtain ⟨op, e1, a, b⟩ := hc.eO o h
      refine ⟨_, by rw [e1]; rfl, ?_, ?_⟩
      · split <;> exact a
      · split
        · rfl
        · exact b
    · injection e with e; subst e
      refine ⟨_, by rw [e1]; rfl, ?_, ?_⟩
      · simp [ho', b]
      · simp [ho']
  · intro q hh
    rw [fw]
    have fsq : (complete.finishOps M t.ops).scq? q = D.scq? q := by simp [State.scq?, hMq]
    rw [fsq]
    rcases hnew _ hh with h | ⟨o, _, e, _⟩
    · exact hc.eS q h
    · cases e
  · intro o op' ho hb
    rw [s1, hMop] at ho
    cases hs : D.op? o with
    | none => rw [hs] at ho; cases ho
    | some op =>
      rw [hs] at ho; simp only [Option.map_some, Option.some.injEq] at ho
      subst ho
      by_cases hmem : o ∈ t.ops
      · simp [hmem] at hb
      · simp only [hmem, if_false] at hb ⊢
        obtain ⟨t1, e1, e2⟩ := hc.opBg o op hs hb
        rw [ft, hMt]
        by_cases hkk : tid = op.task
        · -- an operation of the completed task is listed in its `ops`
          obtain ⟨t2, e3, e4⟩ := hc.opT o op hs
          rw [← hkk, h0] at e3; injection e3 with e3; subst e3
          exact absurd e4 hmem
        · simp only [hkk, if_false]; exact ⟨t1, e1, e2⟩
  · intro o op' ho hb hx
    rw [s1, hMop] at ho
    cases hs : D.op? o with
    | none => rw [hs] at ho; cases ho
    | some op =>
      rw [hs] at ho; simp only [Option.map_some, Option.some.injEq] at ho
      subst ho
      by_cases hbo : op.mayExistWithoutWaiters = false
      · have hw : (if o ∈ t.ops then { op with mayExistWithoutWaiters := false } else op).waiters = op.waiters := by
          split <;> rfl
        rw [hw]
        rcases hc.opFg o op hs hbo hx with h | h
        · exact .inl h
        · exact .inr (hmono _ h)
      · have hbo' : op.mayExistWithoutWaiters = true := by simpa using hbo
        by_cases hmem : o ∈ t.ops
        · simp only [hmem, if_true]
          by_cases hw0 : op.waiters = 0
          · exact .inr ((s2 _).2 (.inr ⟨o, hmem, rfl, op, (hMop o).symm ▸ hs, hbo', hw0⟩))
          · exact .inl (Nat.pos_of_ne_zero hw0)
        · simp only [hmem, if_false] at hb; rw [hbo'] at hb; cases hb
  · intro o op' ho
    rw [s1, hMop] at ho
    cases hs : D.op? o with
    | none => rw [hs] at ho; cases ho
    | some op =>
      rw [hs] at ho; simp only [Option.map_some, Option.some.injEq] at ho
      subst ho
      obtain ⟨t1, e1, e2⟩ := hc.opT o op hs
      have htk : (if o ∈ t.ops then { op with mayExistWithoutWaiters := false } else op).task = op.task := by
        split <;> rfl
      rw [htk, ft, hMt]
      by_cases hkk : tid = op.task
      · rw [← hkk, h0] at e1; injection e1 with e1; subst e1
        simp only [hkk, if_true]
        exact ⟨_, rfl, by simpa [bumpGen] using e2⟩
      · simp only [hkk, if_false]; exact ⟨t1, e1, e2⟩
  · intro q sq e hb hx
    have fsq : (complete.finishOps M t.ops).scq? q = D.scq? q := by simp [State.scq?, hMq]
    rw [fsq] at e; rw [fw]
    rcases hc.scqW q sq e hb hx with h | h
    · exact .inl h
    · exact .inr (hmono _ h)
  · intro wk hm; rw [fw] at hm
    have fsq : (complete.finishOps M t.ops).scq? wk.scq = D.scq? wk.scq := by simp [State.scq?, hMq]
    rw [fsq]; exact hc.wScq wk hm
  · intro q hq
    obtain ⟨a, b⟩ := hc.exScq q hq
    refine ⟨by rw [fw]; exact a, ?_⟩
    intro hh
    rcases hnew _ hh with h | ⟨o, _, e, _⟩
    · exact b h
    · cases e
  · intro q w hq hh
    rcases hnew _ hh with h | ⟨o, _, e, _⟩
    · exact hc.exWk q w hq h
    · cases e

/-- a fresh background task with one operation that may exist without waiters -/
theorem bgState_cinv {x : Ex} {s : State} (t : Task) (bq : ScqId) (bl : Nat) (pq : PQ)
    (hk : KeysOK s) (hc : CInv x s) : CInv x (bgState s t bq bl pq) := by
  have hop : ∀ k, (bgState s t bq bl pq).op? k = if s.nextOp = k then some (bgOp s pq) else s.op? k := by
    intro k; simp [State.op?, alookup_aset]
  have htk : ∀ k, (bgState s t bq bl pq).task? k = if s.nextTask = k then some (bgTask s t bq bl) else s.task? k := by
    intro k; simp [State.task?, alookup_aset]
  have hkk : ∀ k, hasK (bgState s t bq bl pq) k ↔ hasK s k := hasK_congr (by simp)
  have oldtask : ∀ k t', s.task? k = some t' → (bgState s t bq bl pq).task? k = some t' := by
    intro k t' e; rw [htk]
    have := (hk.tid k t' e).2
    have : ¬ s.nextTask = k := by omega
    simp [this, e]
  refine ⟨by simpa using hc.uniq, ?_, ?_, ?_, ?_, ?_, ?_, ?_, ?_, ?_, ?_, ?_, ?_⟩
  · intro wk hm hi; rw [hkk]; exact hc.wIn wk hm hi
  · intro wk hm hi hx; rw [hkk]; exact hc.wOut wk hm hi hx
  · intro q w hh; exact hc.eW q w ((hkk _).1 hh)
  · intro o hh
    obtain ⟨op, e, a, b⟩ := hc.eO o ((hkk _).1 hh)
    have := (hk.oname o op e).2.1
    have hne : ¬ s.nextOp = o := by omega
    exact ⟨op, by rw [hop]; simp [hne, e], a, b⟩
  · intro q hh; exact hc.eS q ((hkk _).1 hh)
  · intro o op ho hb
    rw [hop] at ho
    split at ho
    · injection ho with ho; subst ho
      exact ⟨bgTask s t bq bl, by rw [htk]; simp [bgOp], rfl⟩
    · obtain ⟨t1, e1, e2⟩ := hc.opBg o op ho hb
      exact ⟨t1, oldtask _ _ e1, e2⟩
  · intro o op ho hb hx
    rw [hop] at ho
    split at ho
    · injection ho with ho; subst ho; simp [bgOp] at hb
    · rw [hkk]; exact hc.opFg o op ho hb hx
  · intro o op ho
    rw [hop] at ho
    split at ho
    · rename_i e; injection ho with ho; subst ho
      exact ⟨bgTask s t bq bl, by rw [htk]; simp [bgOp], by simp [bgTask, e]⟩
    · obtain ⟨t1, e1, e2⟩ := hc.opT o op ho
      exact ⟨t1, oldtask _ _ e1, e2⟩
  · intro q sq e hb hx
    rcases hc.scqW q sq e hb hx with h | h
    · exact .inl h
    · exact .inr ((hkk _).2 h)
  · exact hc.wScq
  · intro q hq; obtain ⟨a, b⟩ := hc.exScq q hq; exact ⟨a, fun hh => b ((hkk _).1 hh)⟩
  · intro q w hq hh; exact hc.exWk q w hq ((hkk _).1 hh)

theorem complete_cinv {x : Ex} {h : Hints} {s s' : State} {tid : Nat} {r : Resp} {bw : Bool}
    (hh : complete h s tid r bw = .ok s') (hkw : KW s) (hc : CInv x s) : CInv x s' := by
  obtain ⟨hk, hw⟩ := hkw
  obtain ⟨t, h0, ⟨_, rfl⟩ | ⟨hr, l, _, h1 | h1 | h1⟩⟩ := complete_ok hh
  · exact hc
  all_goals obtain ⟨hid, hlt⟩ := hk.tid tid t h0
  all_goals have hD : CInv x (detachW s t) := hc.frame (detachW_cframe t hw)
  all_goals have hkD : KeysOK (detachW s t) := (TStep.of_same (allow := True) (by simp) (by simp) (by simp) (by simp) hk).1
  all_goals have h0D : (detachW s t).task? tid = some t := by simpa [State.task?] using h0
  all_goals obtain ⟨hwD, _⟩ := detachW_winv hw h0
  · obtain ⟨ev, _, rfl | ⟨ev', _, rfl⟩ | ⟨bq, pq, h2, _⟩⟩ := completeSucc_ok h1.2
    · exact finalize_cinv ev r hkD hD h0D
    · exact (finalize_cinv ev r hkD hD h0D).frame (CFrame.of_same rfl rfl rfl rfl rfl)
    · have hkF : KeysOK (succS (detachW s t) (detachT t) ev r) := (succS_tstep True ev r h0 hr hk).1
      have hF := finalize_cinv ev r hkD hD h0D
      have hkB : KeysOK (bumpLearner (succS (detachW s t) (detachT t) ev r)) :=
        (TStep.of_same (allow := True) (s := succS (detachW s t) (detachT t) ev r)
          (s' := bumpLearner (succS (detachW s t) (detachT t) ev r)) rfl rfl rfl rfl hkF).1
      have hB := bgState_cinv { detachT t with learner := none } bq (succS (detachW s t) (detachT t) ev r).nextLearner pq hkB
        (hF.frame (CFrame.of_same (s' := bumpLearner (succS (detachW s t) (detachT t) ev r)) rfl rfl rfl rfl rfl))
      -- worker invariant of the state handed to `schedule`
      have hwF : WInv (succS (detachW s t) (detachT t) ev r) :=
        hwD.of_frame (by simp) (WFrame.of_aset (k0 := t.id) (by simp) (by simp) (by other_keys))
          (by rw [hid]; exact (detachW_winv hw h0).2)
      have hwB : WInv (bgState (bumpLearner (succS (detachW s t) (detachT t) ev r)) { detachT t with learner := none } bq
          (succS (detachW s t) (detachT t) ev r).nextLearner pq) := by
        refine hwF.of_frame (X := noX) rfl ⟨by simp, ?_, ?_⟩ (NoPtr.noX _)
        · intro q sq' hq p hp; exact ⟨sq', hq, hp⟩
        · intro tid' t' hlt' _ ht'
          simp only [State.task?, bgState_tasks, alookup_aset, bumpLearner_nextTask] at ht' hlt'
          split at ht'
          · omega
          · exact ⟨t', ht', rfl, rfl⟩
      refine hB.frame (schedule_cframe h2 hwB ?_)
      intro tb htb
      simp only [State.task?, bgState_tasks, alookup_aset, bumpLearner_nextTask, if_true, Option.some.injEq] at htb
      subst htb; rfl
  · obtain ⟨_, _, _, h5⟩ := h1
    obtain ⟨s2, t2, h2, h3, rfl⟩ := completeRetry_ok h5
    have hwM : WInv ((retryS (detachW s t) l r).setTask (retryT (detachW s t) (detachT t) l r)) :=
      hwD.of_frame (by simp) (WFrame.of_aset (k0 := t.id) (by simp) (by simp) (by other_keys))
        (by rw [hid]; exact (detachW_winv hw h0).2)
    have f1 : CFrame (detachW s t) ((retryS (detachW s t) l r).setTask (retryT (detachW s t) (detachT t) l r)) := by
      refine CFrame.of_task (k0 := tid) (t2 := retryT (detachW s t) (detachT t) l r) h0D (by simp [retryT]) (by simp [retryT])
        rfl rfl rfl rfl ?_
      intro k; simp [State.task?, alookup_aset, retryT, hid]
    have hidM : ∀ tb, ((retryS (detachW s t) l r).setTask (retryT (detachW s t) (detachT t) l r)).task? (detachT t).id = some tb →
        tb.id = (detachT t).id := by
      intro tb htb
      simp only [State.task?, setTask_tasks, detachT_id, alookup_aset] at htb
      have : (retryT (detachW s t) (detachT t) l r).id = t.id := by simp [retryT]
      simp only [this, if_true, Option.some.injEq] at htb
      subst htb; simp [retryT]
    have f2 := schedule_cframe h2 hwM hidM
    obtain ⟨t1, t1', h4, hle, e1, e2, e3, e4⟩ := schedule_shape h2
    have hk2 : s2.task? (detachT t).id = some t2 := h3
    have f3 : CFrame s2 (s2.setTask (bumpGen t2)) := by
      have ht2id : t2.id = (detachT t).id := by
        simp only [State.task?, e1, alookup_aset] at h3
        have ht1 : t1 = retryT (detachW s t) (detachT t) l r := by simpa [State.task?, retryT] using h4.symm
        have ht1id : t1.id = t.id := by rw [ht1]; simp [retryT]
        simp only [ht1id, detachT_id, if_true, Option.some.injEq] at h3
        subst h3
        cases hle <;> simpa using ht1id
      refine CFrame.of_task (k0 := (detachT t).id) (t2 := bumpGen t2) hk2 rfl rfl rfl rfl rfl rfl ?_
      intro k; simp [State.task?, alookup_aset, bumpGen, ht2id]
    exact hD.frame ((f1.trans f2).trans f3)
  · obtain ⟨_, _, ev, _, rfl⟩ := h1
    exact finalize_cinv ev r hkD hD h0D

end BbRe.Lemmas.SchedLive
