import BbRe.Lemmas.BRLSub
/-!
# Helper lemmas for C20: the first loop of `Set` (`phase1`)

Throughout, `r = phase1 n tr ls = (pre, rest, n', tr')`.
-/
namespace BbRe.Lemmas.BRL
open BbRe.BRL BbRe.Spec.ByteLocks

/-- A split-off trailing part `x` of an entry of `L`, w.r.t. the new lock `n`. -/
def TrOk (L : List Lock) (n x : Lock) : Prop :=
  x.owner = n.owner ∧ x.ty ≠ n.ty ∧ x.start = n.stop ∧ x.start < x.stop ∧
  ∃ e ∈ L, e.owner = n.owner ∧ e.ty = x.ty ∧ e.stop = x.stop ∧ e.start ≤ x.start

/-- If a trailing part exists already, no entry of the owner that is still to be
scanned can be touched (Go: the `panic`s are unreachable). -/
def HTr (n : Lock) (tr : Option Lock) (ls : List Lock) : Prop :=
  tr.isSome → ∀ e ∈ ls, e.owner = n.owner → n.stop < e.start

theorem phase1_n (n : Lock) (tr : Option Lock) (ls : List Lock) :
    (phase1 n tr ls).2.2.1.stop = n.stop ∧ (phase1 n tr ls).2.2.1.ty = n.ty ∧
    (phase1 n tr ls).2.2.1.owner = n.owner ∧ (phase1 n tr ls).2.2.1.start ≤ n.start := by
  fun_induction phase1 n tr ls <;> simp_all <;> omega

/-- Entries of other owners pass through `phase1` unchanged and in order. -/
theorem phase1_others (n : Lock) (tr : Option Lock) (ls : List Lock) :
    ((phase1 n tr ls).1 ++ (phase1 n tr ls).2.1).filter (fun e => e.owner ≠ n.owner) =
      ls.filter (fun e => e.owner ≠ n.owner) := by
  fun_induction phase1 n tr ls <;> simp_all +zetaDelta [List.filter_cons]

theorem phase1_length (n : Lock) (tr : Option Lock) (ls : List Lock) :
    ((phase1 n tr ls).1 ++ (phase1 n tr ls).2.1).length = ls.length := by
  fun_induction phase1 n tr ls <;> simp_all +zetaDelta

/-- The unscanned part is a suffix of the input. -/
theorem phase1_suffix (n : Lock) (tr : Option Lock) (ls : List Lock) :
    (phase1 n tr ls).2.1 <:+ ls := by
  fun_induction phase1 n tr ls <;> simp_all +zetaDelta <;>
    exact List.IsSuffix.trans (by assumption) (List.suffix_cons _ _)

theorem phase1_sub (n : Lock) (tr : Option Lock) (ls : List Lock) :
    ∀ Z, Sub (phase1 n tr ls).2.1 Z → Sub ls ((phase1 n tr ls).1 ++ Z) := by
  fun_induction phase1 n tr ls <;> intro Z hZ <;> simp_all +zetaDelta
  all_goals first
    | exact Sub.keep (Shrink.refl _) (by simp_all)
    | exact Sub.keep (by simp_all [Shrink]; omega) (by simp_all)

theorem phase1_pre_ok (n : Lock) (tr : Option Lock) (ls : List Lock)
    (hok : ∀ e ∈ ls, Ok e) : ∀ x ∈ (phase1 n tr ls).1, Ok x := by
  fun_induction phase1 n tr ls <;> simp_all +zetaDelta [Ok]

/-- The new lock either keeps its start or was grown to the start of a touching
entry of the same owner and type. -/
theorem phase1_grow (n : Lock) (tr : Option Lock) (ls : List Lock) :
    (phase1 n tr ls).2.2.1.start = n.start ∨
    ∃ s ∈ ls, s.owner = n.owner ∧ s.ty = n.ty ∧ s.start = (phase1 n tr ls).2.2.1.start ∧
      s.start < n.start ∧ n.start ≤ s.stop := by
  fun_induction phase1 n tr ls <;> simp_all +zetaDelta
  all_goals grind


/-- Everything not yet scanned starts at or after the (grown) new lock. -/
theorem phase1_rest_lb (n : Lock) (tr : Option Lock) (ls : List Lock)
    (hp : ls.Pairwise Rel) :
    ∀ e ∈ (phase1 n tr ls).2.1, (phase1 n tr ls).2.2.1.start ≤ e.start := by
  fun_induction phase1 n tr ls <;> simp_all +zetaDelta [Rel]
  all_goals grind

theorem phase1_pre_bounds (n : Lock) (tr : Option Lock) (ls : List Lock)
    (hp : ls.Pairwise Rel) :
    ∀ x ∈ (phase1 n tr ls).1, x.start < n.start ∧ x.start ≤ (phase1 n tr ls).2.2.1.start ∧
      (x.owner = n.owner → x.stop ≤ (phase1 n tr ls).2.2.1.start ∧
        (x.ty = n.ty → x.stop < (phase1 n tr ls).2.2.1.start)) := by
  have hg := fun tr' rest' => phase1_grow n tr' rest'
  fun_induction phase1 n tr ls
  all_goals simp_all +zetaDelta [Rel]
  all_goals grind


theorem TrOk.mono {L L' : List Lock} {n x : Lock} (h : TrOk L n x) (hs : ∀ e ∈ L, e ∈ L') :
    TrOk L' n x := by
  obtain ⟨h1, h2, h3, h4, e, he, h5⟩ := h
  exact ⟨h1, h2, h3, h4, e, hs e he, h5⟩

theorem phase1_tr (L : List Lock) (n : Lock) (tr : Option Lock) (ls : List Lock)
    (hn : n.start < n.stop)
    (hin : ∀ x, tr = some x → TrOk L n x) (hsub : ∀ e ∈ ls, e ∈ L) :
    ∀ x, (phase1 n tr ls).2.2.2 = some x → TrOk L n x := by
  fun_induction phase1 n tr ls
  case case5 tr s rest h1 h2 h3 h4 tr' r ih =>
    apply ih
    · intro x hx
      simp only [tr'] at hx
      split at hx
      · simp at hx; subst hx
        exact ⟨h2, by simp; exact fun h => h3 h.symm, rfl, by simpa, s, hsub s (by simp), h2, rfl, rfl, by simp; omega⟩
      · exact hin x hx
    · exact fun e he => hsub e (by simp [he])
  all_goals simp_all +zetaDelta

theorem phase1_htr (n : Lock) (tr : Option Lock) (ls : List Lock)
    (hp : ls.Pairwise Rel) (hin : HTr n tr ls) :
    HTr n (phase1 n tr ls).2.2.2 (phase1 n tr ls).2.1 := by
  fun_induction phase1 n tr ls
  case case5 tr s rest h1 h2 h3 h4 tr' r ih =>
    apply ih hp.of_cons
    rw [List.pairwise_cons] at hp
    simp only [tr', HTr]
    unfold HTr at hin
    unfold Rel at hp
    split
    · grind
    · intro h e he; exact hin h e (by simp [he])
  all_goals simp_all +zetaDelta [HTr, Rel]


theorem phase1_abs (n : Lock) (tr : Option Lock) (ls : List Lock)
    (hn : n.start < n.stop) (hp : ls.Pairwise Rel) (hin : HTr n tr ls) (b : Nat) :
    abs ((phase1 n tr ls).1 ++ (phase1 n tr ls).2.2.1 ::
          ((phase1 n tr ls).2.2.2.toList ++ (phase1 n tr ls).2.1)) n.owner b =
      abs (n :: (tr.toList ++ ls)) n.owner b := by
  fun_induction phase1 n tr ls
  case case1 => rfl
  case case2 => rfl
  case case3 tr s rest h1 h2 h3 h4 =>
    have : tr = none := by
      cases tr with
      | none => rfl
      | some x => have := hin rfl s (by simp) h2; omega
    subst this
    simp [abs_cons, Covers]
    grind
  case case4 tr s rest h1 h2 h3 h4 r ih =>
    have : tr = none := by
      cases tr with
      | none => rfl
      | some x => have := hin rfl s (by simp) h2; omega
    subst this
    have ih := ih hp.of_cons (by simp [HTr])
    simp [abs_cons, Covers] at ih ⊢
    simp only [r]
    rw [ih]
    grind
  case case5 tr s rest h1 h2 h3 h4 tr' r ih =>
    have : tr = none := by
      cases tr with
      | none => rfl
      | some x => have := hin rfl s (by simp) h2; omega
    subst this
    rw [List.pairwise_cons] at hp
    have ih := ih hp.2 (by
      simp only [HTr, tr']
      intro h e he ho
      have := (hp.1 e he).2.1 (by omega)
      split at h
      · omega
      · simp at h)
    simp [abs_cons, Covers] at ih ⊢
    simp only [r]
    rw [ih]
    simp only [tr']
    by_cases hc : n.stop < s.stop
    · simp only [if_pos hc, Option.toList_some, List.cons_append, List.nil_append, abs_cons]
      grind
    · simp only [if_neg hc, Option.toList_none, List.nil_append]
      grind
  case case6 tr s rest h1 h2 h3 h4 r ih =>
    have : tr = none := by
      cases tr with
      | none => rfl
      | some x => have := hin rfl s (by simp) h2; omega
    subst this
    have ih := ih hp.of_cons (by simp [HTr])
    simp [abs_cons, Covers] at ih ⊢
    simp only [r]
    rw [ih]
    grind
  case case7 tr s rest h1 h2 r ih =>
    have ih := ih hp.of_cons (fun h e he => hin h e (by simp [he]))
    simp [abs_cons, abs_append, Covers, h2] at ih ⊢
    simp only [r]
    rw [ih]

end BbRe.Lemmas.BRL
