import BbRe.Lemmas.BRLPhase2
/-!
# Helper lemmas for C20: `setList` = `phase1` ; insert ; `phase2` ; re-insert trailing part
-/
namespace BbRe.Lemmas.BRL
open BbRe.BRL BbRe.Spec.ByteLocks


theorem phase1_tr_owner (n : Lock) (tr : Option Lock) (ls : List Lock)
    (hin : ∀ x, tr = some x → x.owner = n.owner) :
    ∀ x, (phase1 n tr ls).2.2.2 = some x → x.owner = n.owner := by
  fun_induction phase1 n tr ls
  case case5 tr s rest h1 h2 h3 h4 tr' r ih =>
    apply ih
    intro x hx
    simp only [tr'] at hx
    split at hx
    · simp at hx; subst hx; exact h2
    · exact hin x hx
  all_goals simp_all +zetaDelta

theorem phase2_tr_owner (n : Lock) (tr : Option Lock) (ls : List Lock)
    (hin : ∀ x, tr = some x → x.owner = n.owner) :
    ∀ x, (phase2 n tr ls).2.2.2 = some x → x.owner = n.owner := by
  fun_induction phase2 n tr ls <;> simp_all +zetaDelta

/-- Entries of other owners are not touched by `Set`, and keep their order. -/
theorem setList_filter_others (ls : List Lock) (l : Lock) :
    (setList ls l).filter (fun e => e.owner ≠ l.owner) =
      ls.filter (fun e => e.owner ≠ l.owner) := by
  have h1 := phase1_others l none ls
  have hn1 := phase1_n l none ls
  have h2 := phase2_others (phase1 l none ls).2.2.1 (phase1 l none ls).2.2.2 (phase1 l none ls).2.1
  have hn2 := phase2_n (phase1 l none ls).2.2.1 (phase1 l none ls).2.2.2 (phase1 l none ls).2.1
  have ht1 := phase1_tr_owner l none ls (by simp)
  have ht2 := phase2_tr_owner (phase1 l none ls).2.2.1 (phase1 l none ls).2.2.2 (phase1 l none ls).2.1
    (by rw [hn1.2.2.1]; exact ht1)
  rw [hn1.2.2.1] at h2 ht2
  unfold setList
  simp only [List.filter_append] at h1 h2 ⊢
  rw [← h1, ← h2]
  have hmid : List.filter (fun e => decide (e.owner ≠ l.owner))
      (if l.ty = Ty.unlocked then [] else
        [(phase2 (phase1 l none ls).2.2.1 (phase1 l none ls).2.2.2 (phase1 l none ls).2.1).2.2.1]) = [] := by
    split
    · rfl
    · simp [hn2.2.2.1, hn1.2.2.1]
  have htr : List.filter (fun e => decide (e.owner ≠ l.owner))
      (phase2 (phase1 l none ls).2.2.1 (phase1 l none ls).2.2.2 (phase1 l none ls).2.1).2.2.2.toList = [] := by
    cases h : (phase2 (phase1 l none ls).2.2.1 (phase1 l none ls).2.2.2 (phase1 l none ls).2.1).2.2.2 with
    | none => rfl
    | some x => simp [ht2 x h]
  rw [hmid, htr]
  simp


/-- What `Test = none` means, entry by entry (needs the list sorted by start
for the early exit of the scan). -/
theorem test_none_iff {ls : List Lock} (hs : ls.Pairwise (fun a b => a.start ≤ b.start)) (l : Lock) :
    test ls l = none ↔ ∀ y ∈ ls, y.owner ≠ l.owner → y.start < l.stop → l.start < y.stop →
      ¬ (y.ty = .excl ∨ l.ty = .excl) := by
  induction ls with
  | nil => simp [test]
  | cons s rest ih =>
    rw [List.pairwise_cons] at hs
    unfold test
    split
    · rename_i h
      simp only [true_iff]
      intro y hy
      simp only [List.mem_cons] at hy
      rcases hy with rfl | hy
      · omega
      · have := hs.1 y hy; omega
    · split
      · rename_i h1 h2
        simp only [reduceCtorEq, false_iff]
        intro h
        exact h s (by simp) h2.1 (by omega) h2.2.1 h2.2.2
      · rename_i h1 h2
        rw [ih hs.2]
        constructor
        · intro h y hy
          simp only [List.mem_cons] at hy
          rcases hy with rfl | hy
          · intro a b c d; exact h2 ⟨a, c, d⟩
          · exact h y hy
        · exact fun h y hy => h y (by simp [hy])


/-- Everything the invariant proof needs to know about the five pieces
`pre ++ [n2]? ++ kept ++ tr2? ++ rest2` that `setList ls l` is assembled from. -/
structure Pieces (ls : List Lock) (l : Lock) (pre kept rest2 : List Lock) (n2 : Lock)
    (tr2 : Option Lock) : Prop where
  base : (pre ++ (kept ++ rest2)).Pairwise Rel
  pre_src : ∀ x ∈ pre, ∃ e ∈ ls, Shrink e x
  pre_ok : ∀ x ∈ pre, Ok x
  pre_b : ∀ x ∈ pre, x.start < l.start ∧ x.start ≤ n2.start ∧
    (x.owner = l.owner → x.stop ≤ n2.start ∧ (x.ty = l.ty → x.stop < n2.start))
  kept_b : ∀ y ∈ kept, y ∈ ls ∧ y.owner ≠ l.owner ∧ n2.start ≤ y.start ∧ y.start ≤ n2.stop
  rest_b : ∀ y ∈ rest2, y ∈ ls ∧ n2.stop < y.start
  n2_owner : n2.owner = l.owner
  n2_ty : n2.ty = l.ty
  n2_start : n2.start ≤ l.start
  n2_stop : l.stop ≤ n2.stop
  n2_cov : ∀ b, n2.start ≤ b → b < n2.stop → (l.start ≤ b ∧ b < l.stop) ∨
    ∃ e ∈ ls, e.owner = l.owner ∧ e.ty = l.ty ∧ e.start ≤ b ∧ b < e.stop
  tr_ok : ∀ x, tr2 = some x → TrOk ls n2 x
  /-- with the new lock inserted (even for an unlock request), the owner's bytes
  are those of the new lock laid over the old table -/
  abs_eq : ∀ b, abs (pre ++ n2 :: (kept ++ (tr2.toList ++ rest2))) l.owner b =
    abs (l :: ls) l.owner b

theorem HTr.congr {n n' : Lock} {tr : Option Lock} {ls : List Lock} (h : HTr n tr ls)
    (h1 : n'.owner = n.owner) (h2 : n'.stop = n.stop) : HTr n' tr ls := by
  unfold HTr at *; rw [h1, h2]; exact h

theorem pieces (ls : List Lock) (l : Lock) (hok : ∀ e ∈ ls, Ok e) (hp : ls.Pairwise Rel)
    (hl : l.start < l.stop) :
    Pieces ls l (phase1 l none ls).1
      (phase2 (phase1 l none ls).2.2.1 (phase1 l none ls).2.2.2 (phase1 l none ls).2.1).1
      (phase2 (phase1 l none ls).2.2.1 (phase1 l none ls).2.2.2 (phase1 l none ls).2.1).2.1
      (phase2 (phase1 l none ls).2.2.1 (phase1 l none ls).2.2.2 (phase1 l none ls).2.1).2.2.1
      (phase2 (phase1 l none ls).2.2.1 (phase1 l none ls).2.2.2 (phase1 l none ls).2.1).2.2.2 := by
  generalize hr1 : phase1 l none ls = r1
  obtain ⟨pre, rest1, n1, tr1⟩ := r1
  generalize hr2 : phase2 n1 tr1 rest1 = r2
  obtain ⟨kept, rest2, n2, tr2⟩ := r2
  have e_pre : (phase1 l none ls).1 = pre := by rw [hr1]
  have e_rest1 : (phase1 l none ls).2.1 = rest1 := by rw [hr1]
  have e_n1 : (phase1 l none ls).2.2.1 = n1 := by rw [hr1]
  have e_tr1 : (phase1 l none ls).2.2.2 = tr1 := by rw [hr1]
  have e_kept : (phase2 n1 tr1 rest1).1 = kept := by rw [hr2]
  have e_rest2 : (phase2 n1 tr1 rest1).2.1 = rest2 := by rw [hr2]
  have e_n2 : (phase2 n1 tr1 rest1).2.2.1 = n2 := by rw [hr2]
  have e_tr2 : (phase2 n1 tr1 rest1).2.2.2 = tr2 := by rw [hr2]
  have hn1 := phase1_n l none ls
  rw [e_n1] at hn1
  have hsuf1 := phase1_suffix l none ls
  rw [e_rest1] at hsuf1
  have hsub1 : ∀ e ∈ rest1, e ∈ ls := fun e he => hsuf1.subset he
  have hp1 : rest1.Pairwise Rel := hp.sublist hsuf1.sublist
  have hn2 := phase2_n n1 tr1 rest1
  rw [e_n2] at hn2
  have hsuf2 := phase2_suffix n1 tr1 rest1
  rw [e_rest2] at hsuf2
  have hhtr1 : HTr n1 tr1 rest1 := by
    have := phase1_htr l none ls hp (by simp [HTr])
    rw [e_tr1, e_rest1] at this
    exact this.congr hn1.2.2.1 hn1.1
  have htr1 : ∀ x, tr1 = some x → TrOk ls n1 x := by
    have := phase1_tr ls l none ls hl (by simp) (fun _ h => h)
    rw [e_tr1] at this
    exact fun x hx => (this x hx).congr hn1.2.2.1 hn1.2.1 hn1.1
  dsimp only
  refine ⟨?_, ?_, ?_, ?_, ?_, ?_, ?_, ?_, ?_, ?_, ?_, ?_, ?_⟩
  · -- base
    have h2 := phase2_sub n1 tr1 rest1
    rw [e_kept, e_rest2] at h2
    have h1 := phase1_sub l none ls (kept ++ rest2) (by rw [e_rest1]; exact h2)
    rw [e_pre] at h1
    exact h1.pairwise hp
  · -- pre_src
    have h1 := phase1_sub l none ls rest1 (by rw [e_rest1]; exact Sub.refl _)
    rw [e_pre] at h1
    exact fun x hx => h1.mem x (by simp [hx])
  · have := phase1_pre_ok l none ls hok; rwa [e_pre] at this
  · have := phase1_pre_bounds l none ls hp
    rw [e_pre, e_n1] at this
    intro x hx
    have := this x hx
    rw [hn2.1]
    exact this
  · -- kept_b
    have h := phase2_kept n1 tr1 rest1
    rw [e_kept, e_n2] at h
    have hlb := phase1_rest_lb l none ls hp
    rw [e_rest1, e_n1] at hlb
    intro y hy
    obtain ⟨h1, h2, h3⟩ := h y hy
    exact ⟨hsub1 y h1, by rw [← hn1.2.2.1]; exact h2, by rw [hn2.1]; exact hlb y h1, h3⟩
  · -- rest_b
    have h := phase2_rest_lb n1 tr1 rest1 hp1
    rw [e_rest2, e_n2] at h
    exact fun y hy => ⟨hsub1 y (hsuf2.subset hy), h y hy⟩
  · rw [hn2.2.2.1, hn1.2.2.1]
  · rw [hn2.2.1, hn1.2.1]
  · rw [hn2.1]; exact hn1.2.2.2
  · rw [← hn1.1]; exact hn2.2.2.2
  · -- n2_cov
    intro b hb1 hb2
    by_cases h1 : b < l.start
    · right
      have hg := phase1_grow l none ls
      rw [e_n1] at hg
      rcases hg with hg | ⟨s, hs, h⟩
      · omega
      · exact ⟨s, hs, h.1, h.2.1, by omega, by omega⟩
    · by_cases h2 : b < l.stop
      · left; omega
      · right
        have := phase2_cov n1 tr1 rest1 b (by omega) (by rw [e_n2]; exact hb2)
        obtain ⟨e, he, h⟩ := this
        exact ⟨e, hsub1 e he, by rw [← hn1.2.2.1]; exact h.1, by rw [← hn1.2.1]; exact h.2.1, h.2.2⟩
  · -- tr_ok
    have := phase2_tr ls n1 tr1 rest1 hp1 hhtr1 htr1 hsub1
    rw [e_tr2, e_n2] at this
    exact this
  · -- abs_eq
    intro b
    have h1 := phase1_abs l none ls hl hp (by simp [HTr]) b
    rw [e_pre, e_n1, e_tr1, e_rest1] at h1
    have hlb := phase1_rest_lb l none ls hp
    rw [e_rest1, e_n1] at hlb
    have h2 := phase2_abs n1 tr1 rest1 hp1 hlb hhtr1 b
    rw [e_n2, e_kept, e_tr2, e_rest2, hn1.2.2.1] at h2
    rw [abs_append, h2, ← abs_append, h1]
    rfl

end BbRe.Lemmas.BRL
