import BbRe.Lemmas.SchedTreePrimExec
/-!
`worker.setLastInvocation` / `worker.clearLastInvocation` preserve the tree invariant for the addition /
removal of one worker whose last invocation is the given one (`idleWorkersCount`).
-/
namespace BbRe.Lemmas.SchedTree
open BbRe.Sched BbRe.SchedTree

variable {X : List (ScqId × List Nat)} {ns : List Node} {E : List EC} {I : List IC} {Q : List QC} {P : List PC}

/-- `worker.setLastInvocation`: one more worker whose last invocation is `(q, p)` -/
theorem setLastN_ok (h : TreeOK X ns E I Q P) (q : ScqId) (p : List Nat)
    (hn : (node? ns q p).isSome = true) :
    TreeOK (offPath X q p) (setLastN ns q p) E ((q, p) :: I) Q P := by
  let f : Node → Node := fun n => { n with idle := n.idle + 1 }
  let g : Node → Node := fun n => if n.onPath q p then f n else n
  have hg : KeepsKey g := keepsKey_ite (f := f) (fun n => ⟨rfl, rfl⟩)
  have hon : ∀ n, n.onPath q p = true → g n = f n := fun n h => by simp [g, h]
  have hoff : ∀ n, n.onPath q p = false → g n = n := fun n h => by simp [g, h]
  have hfld : ∀ n, (g n).exec = n.exec ∧ (g n).qops = n.qops ∧ (g n).qkids = n.qkids ∧
      (g n).parked = n.parked ∧ (g n).ikids = n.ikids := by
    intro n; cases hc : n.onPath q p
    · rw [hoff n hc]; exact ⟨rfl, rfl, rfl, rfl, rfl⟩
    · rw [hon n hc]; exact ⟨rfl, rfl, rfl, rfl, rfl⟩
  show TreeOK _ (ns.map g) E _ Q P
  apply h.of_map g hg
  · intro n hn' k'; rw [(hfld n).1]; exact h.ex n hn' k'
  · intro n hn'; rw [(hfld n).1]; exact h.exnd n hn'
  · intro n hn'
    rw [cntI_cons]
    cases hc : n.onPath q p
    · have : ¬ (q = n.scq ∧ n.path <+: p) := by
        intro hc'; have := (onPath_iff n q p).mpr ⟨hc'.1.symm, hc'.2⟩; rw [hc] at this; cases this
      rw [hoff n hc, h.id n hn']; simp [this]
    · have ho := (onPath_iff n q p).mp hc
      rw [hon n hc]
      show n.idle + 1 = _
      rw [h.id n hn']; simp [ho.1, ho.2]
  · intro n hn'; rw [(hfld n).2.1]; exact h.qo n hn'
  · intro n hn'; rw [(hfld n).2.2.1]; exact h.qk n hn'
  · intro n hn'; rw [(hfld n).2.2.2.1]; exact h.pk n hn'
  · intro n hn'; rw [(hfld n).2.2.2.2]; exact h.ik n hn'
  · intro n hn' hp hx
    cases hc : n.onPath q p
    · rw [hoff n hc]
      apply h.ne n hn' hp
      intro hX; apply hx
      exact mem_offPath.mpr ⟨hX, fun hc' => by have := (onPath_iff n q p).mpr hc'; rw [hc] at this; cases this⟩
    · rw [hon n hc]
      simp [f, Node.isEmptyInv]
  · exact h.rfE
  · intro c hc
    rcases List.mem_cons.mp hc with e | e
    · subst e; exact hn
    · exact h.rfI c e
  · exact h.rfQ
  · exact h.rfP
  · intro c hc; exact List.mem_cons_of_mem _ (h.pi c hc)

/-- `worker.clearLastInvocation`: one worker less whose last invocation is `(q, p)`; invocations on the
path that became empty are removed.  No parked worker may depend on the removed entry. -/
theorem clearLastN_ok (h : TreeOK X ns E I Q P) (q : ScqId) (p : List Nat)
    (hc : (q, p) ∈ I) (hX : ∀ x ∈ X, x.1 = q ∧ x.2 <+: p)
    (hP : ∀ c ∈ P, (c.1, c.2.1) ∈ I.erase (q, p)) :
    TreeOK [] (clearLastN ns q p) E (I.erase (q, p)) Q P := by
  let f : Node → Node := fun n => { n with idle := n.idle - 1 }
  let g : Node → Node := fun n => if n.onPath q p then f n else n
  have hg : KeepsKey g := keepsKey_ite (f := f) (fun n => ⟨rfl, rfl⟩)
  have hon : ∀ n, n.onPath q p = true → g n = f n := fun n h => by simp [g, h]
  have hoff : ∀ n, n.onPath q p = false → g n = n := fun n h => by simp [g, h]
  have hfld : ∀ n, (g n).exec = n.exec ∧ (g n).qops = n.qops ∧ (g n).qkids = n.qkids ∧
      (g n).parked = n.parked ∧ (g n).ikids = n.ikids := by
    intro n; cases hc : n.onPath q p
    · rw [hoff n hc]; exact ⟨rfl, rfl, rfl, rfl, rfl⟩
    · rw [hon n hc]; exact ⟨rfl, rfl, rfl, rfl, rfl⟩
  -- step 1: the counters; every non-root invocation on the path is exempt
  let X1 : List (ScqId × List Nat) := (prefixes p).map (fun pi => (q, pi))
  have hmemX1 : ∀ x, x ∈ X1 ↔ x.1 = q ∧ x.2 <+: p ∧ x.2 ≠ [] := by
    intro x; simp only [X1, List.mem_map, mem_prefixes]
    constructor
    · rintro ⟨pi, ⟨h1, h2⟩, rfl⟩; exact ⟨rfl, h1, h2⟩
    · rintro ⟨h1, h2, h3⟩; exact ⟨x.2, ⟨h2, h3⟩, by rw [← h1]⟩
  have h1 : TreeOK X1 (ns.map g) E (I.erase (q, p)) Q P := by
    apply h.of_map g hg
    · intro n hn' k'; rw [(hfld n).1]; exact h.ex n hn' k'
    · intro n hn'; rw [(hfld n).1]; exact h.exnd n hn'
    · intro n hn'
      rw [cntI_erase _ _ _ _ hc]
      cases hcn : n.onPath q p
      · have : ¬ (q = n.scq ∧ n.path <+: p) := by
          intro hc'; have := (onPath_iff n q p).mpr ⟨hc'.1.symm, hc'.2⟩; rw [hcn] at this; cases this
        rw [hoff n hcn, h.id n hn']; simp [this]
      · have ho := (onPath_iff n q p).mp hcn
        rw [hon n hcn]
        show n.idle - 1 = _
        rw [h.id n hn']; simp [ho.1, ho.2]
    · intro n hn'; rw [(hfld n).2.1]; exact h.qo n hn'
    · intro n hn'; rw [(hfld n).2.2.1]; exact h.qk n hn'
    · intro n hn'; rw [(hfld n).2.2.2.1]; exact h.pk n hn'
    · intro n hn'; rw [(hfld n).2.2.2.2]; exact h.ik n hn'
    · intro n hn' hp hx
      cases hcn : n.onPath q p
      · rw [hoff n hcn]
        apply h.ne n hn' hp
        intro hXn
        have := hX _ hXn
        have := (onPath_iff n q p).mpr this
        rw [hcn] at this; cases this
      · exfalso; apply hx
        have ho := (onPath_iff n q p).mp hcn
        exact (hmemX1 _).mpr ⟨ho.1, ho.2, hp⟩
    · exact h.rfE
    · intro c hc'; exact h.rfI c (List.mem_of_mem_erase hc')
    · exact h.rfQ
    · exact h.rfP
    · exact hP
  -- step 2: `removeIfEmpty` along the path
  show TreeOK [] ((ns.map g).filter _) E _ Q P
  apply h1.of_filter
  · intro n _ hk
    exact (pruneKeep_false hk).2
  · intro n _ hx hk
    have hx' := (hmemX1 _).mp hx
    exact pruneKeep_true hk ((onPath_iff n q p).mpr ⟨hx'.1, hx'.2.1⟩) hx'.2.2

end BbRe.Lemmas.SchedTree
