import BbRe.Lemmas.FileRefPc
/-!
The C16 invariant of `Model/FileRef.lean` and its preservation by the primitives
(`release`, `frozenClose`, `acquire`, `truncate`, `digestStep`, `openFrozenFor`).
`Inv' s n` is the invariant of a state in which `referenceCount` still counts `n`
references whose holders have already been removed from the ghost bookkeeping
(the state between "drop the holder" and `releaseReferencesLocked(n)`).
-/
namespace BbRe.Lemmas.FileRef
open BbRe.FileRef

/-- References that the link layer holds on the `fileBackedFile`: one while the handle
allocator's link count is positive; without a handle allocator every link is one. -/
def baseLinks (s : State) : Nat :=
  if s.layered then (if s.linkCount > 0 then 1 else 0) else s.linkCount

structure Inv' (s : State) (n : Nat) : Prop where
  noPanic : s.panicked = false
  refsEq : s.refs = baseLinks s + s.rd + s.wr + s.frozen + n
  writersEq : s.writers = s.wr
  closedIff : s.closed = true ↔ s.refs = 0
  closesEq : s.closeCalls = if s.closed = true then 1 else 0
  pcs : PcInv s.pc s.frozen s.writers s.bytes
  cachedOk : ∀ d, s.cached = some d → d.2 = s.bytes
  casOk : ∀ e, e ∈ s.cas → e.1.2 = e.2

abbrev Inv (s : State) : Prop := Inv' s 0

theorem Inv'.notClosed {s : State} {n : Nat} (h : Inv' s n) (hn : 1 ≤ n) : s.closed = false := by
  cases hc : s.closed
  · rfl
  · have := h.closedIff.mp hc
    have := h.refsEq
    omega

theorem Inv.notClosed_of_refs {s : State} (h : Inv s) (hr : 0 < s.refs) : s.closed = false := by
  cases hc : s.closed
  · rfl
  · have := h.closedIff.mp hc
    omega

/-- `releaseReferencesLocked(n)` of references whose holders are gone. -/
theorem Inv'.after_release {s : State} {n : Nat} (h : Inv' s n) (hn : 1 ≤ n) : Inv (release s n) := by
  have hnc := h.notClosed hn
  have hr := h.refsEq
  have hcl := h.closesEq
  unfold release
  have h1 : ¬ s.refs < n := by omega
  simp only [h1, if_false]
  split
  · rename_i h0
    simp only [hnc, Bool.false_eq_true, if_false]
    refine ⟨h.noPanic, ?_, h.writersEq, ?_, ?_, h.pcs, h.cachedOk, h.casOk⟩
    · show 0 = _
      have : baseLinks { s with refs := 0, closed := true, closeCalls := s.closeCalls + 1 } = baseLinks s := rfl
      rw [this]; simp only; omega
    · simp
    · simp only [hnc, Bool.false_eq_true, if_false] at hcl
      simp [hcl]
  · rename_i h0
    refine ⟨h.noPanic, ?_, h.writersEq, ?_, ?_, h.pcs, h.cachedOk, h.casOk⟩
    · have : baseLinks { s with refs := s.refs - n } = baseLinks s := rfl
      rw [this]; simp only; omega
    · simp only [hnc, Bool.false_eq_true, false_iff]; exact h0
    · exact hcl

theorem release_pc (s : State) (n : Nat) : (release s n).pc = s.pc := by
  unfold release State.panic
  split
  · rfl
  · split
    · split <;> rfl
    · rfl

theorem release_bytes (s : State) (n : Nat) : (release s n).bytes = s.bytes := by
  unfold release State.panic
  split
  · rfl
  · split
    · split <;> rfl
    · rfl

theorem release_frozen (s : State) (n : Nat) : (release s n).frozen = s.frozen := by
  unfold release State.panic
  split
  · rfl
  · split
    · split <;> rfl
    · rfl

theorem release_cas (s : State) (n : Nat) : (release s n).cas = s.cas := by
  unfold release State.panic
  split
  · rfl
  · split
    · split <;> rfl
    · rfl

theorem release_cached (s : State) (n : Nat) : (release s n).cached = s.cached := by
  unfold release State.panic
  split
  · rfl
  · split
    · split <;> rfl
    · rfl

/-- `frozenFileBackedFile.Close` by a thread that holds a frozen reader and then returns. -/
theorem Inv.after_frozenClose {s : State} (h : Inv s) (t : Nat) (ht : (s.pc t).isFrozen = true) :
    Inv (frozenClose (s.setPc t .idle)) := by
  have hpos := h.pcs.fcount.pos ht
  unfold frozenClose
  have h1 : ¬ (s.setPc t .idle).frozen = 0 := by show ¬ s.frozen = 0; omega
  simp only [h1, if_false]
  apply Inv'.after_release _ (Nat.le_refl 1)
  refine ⟨h.noPanic, ?_, h.writersEq, h.closedIff, h.closesEq, ?_, h.cachedOk, h.casOk⟩
  · have := h.refsEq
    show s.refs = baseLinks s + s.rd + s.wr + (s.frozen - 1) + 1
    omega
  · exact h.pcs.unfreeze t ht

/-- `acquireShareAccessLocked`. -/
theorem Inv.after_acquire {s : State} (h : Inv s) (m : Mask) (hr : 0 < s.refs) : Inv (acquire s m) := by
  have hnc := h.notClosed_of_refs hr
  refine ⟨h.noPanic, ?_, ?_, ?_, h.closesEq, h.pcs.writers_inc _, h.cachedOk, h.casOk⟩
  · have := h.refsEq
    show s.refs + m.count = baseLinks s + (s.rd + b2n m.r) + (s.wr + b2n m.w) + s.frozen + 0
    unfold Mask.count
    omega
  · have := h.writersEq
    show s.writers + b2n m.w = s.wr + b2n m.w
    omega
  · show s.closed = true ↔ s.refs + m.count = 0
    simp only [hnc, Bool.false_eq_true, false_iff]
    omega

/-- A change of thread `t`'s program counter between places without a frozen reader. -/
theorem Inv.setPc_plain {s : State} (h : Inv s) (t : Nat) (v : PC)
    (hold : (s.pc t).isFrozen = false) (hv : v.isFrozen = false)
    (hm : ∀ op, v = .mutWait op false → 0 < s.frozen)
    (hu : ∀ u k fn, v = .upWait u k fn false → 0 < s.writers) : Inv (s.setPc t v) :=
  ⟨h.noPanic, h.refsEq, h.writersEq, h.closedIff, h.closesEq,
    h.pcs.upd_plain t v hold hv hm hu, h.cachedOk, h.casOk⟩

/-- `openReadFrozen` by thread `t` (not holding a frozen reader), continuing at `v`. -/
theorem Inv.after_openFrozenFor {s : State} (h : Inv s) (t : Nat) (v : PC)
    (hold : (s.pc t).isFrozen = false) (hv : v.isFrozen = true) (hd : ∀ d, v ≠ .upPut d) :
    Inv (openFrozenFor s t v).1 := by
  unfold openFrozenFor
  split
  · exact h.setPc_plain t .idle hold rfl (fun _ e => by cases e) (fun _ _ _ e => by cases e)
  · rename_i hr
    have hnc := h.notClosed_of_refs (Nat.pos_of_ne_zero hr)
    refine ⟨h.noPanic, ?_, h.writersEq, ?_, h.closesEq, ?_, h.cachedOk, h.casOk⟩
    · have := h.refsEq
      show s.refs + 1 = baseLinks s + s.rd + s.wr + (s.frozen + 1) + 0
      omega
    · show s.closed = true ↔ s.refs + 1 = 0
      simp only [hnc, Bool.false_eq_true, false_iff]
      omega
    · exact h.pcs.upd_freeze t v hold hv (fun d e => absurd e (hd d))

/-- `virtualTruncate` with nobody holding the file frozen. -/
theorem Inv.after_truncate {s : State} (h : Inv s) (n : Nat) (hf : s.frozen = 0) (hnc : s.closed = false) :
    Inv (truncate s n).1 := by
  unfold truncate
  rw [if_neg (by simp [hnc])]
  split
  · exact h
  · refine ⟨h.noPanic, h.refsEq, h.writersEq, h.closedIff, h.closesEq, ?_, ?_, h.casOk⟩
    · have := h.pcs
      rw [hf] at this
      show PcInv s.pc s.frozen s.writers _
      rw [hf]
      exact this.bytes_change _
    · intro d hd; cases hd

theorem truncate_frame (s : State) (n : Nat) :
    (truncate s n).1.pc = s.pc ∧ (truncate s n).1.frozen = s.frozen ∧ (truncate s n).1.refs = s.refs ∧
    (truncate s n).1.closed = s.closed := by
  unfold truncate State.panic
  split
  · simp
  · split <;> simp

/-- `updateCachedDigest` (the file is frozen or not: the contents do not change). -/
theorem Inv.after_digestStep {s : State} (h : Inv s) (fn : Nat) : Inv (digestStep s fn).1 := by
  unfold digestStep
  have key : Inv { s with cached := some (digestOf fn s.bytes) } :=
    ⟨h.noPanic, h.refsEq, h.writersEq, h.closedIff, h.closesEq, h.pcs,
      fun d hd => by simp only [Option.some.injEq] at hd; subst hd; rfl, h.casOk⟩
  split
  · split
    · exact h
    · split
      · exact h
      · exact key
  · split
    · exact h
    · exact key

theorem digestStep_frame (s : State) (fn : Nat) :
    (digestStep s fn).1.pc = s.pc ∧ (digestStep s fn).1.bytes = s.bytes ∧
    (digestStep s fn).1.frozen = s.frozen ∧ (digestStep s fn).1.cas = s.cas ∧
    (digestStep s fn).1.rfault = s.rfault := by
  unfold digestStep
  split
  · split
    · simp
    · split <;> simp
  · split <;> simp

/-- The digest `updateCachedDigest` returns is the digest of the current contents. -/
theorem digestStep_valid {s : State} (h : Inv s) (fn : Nat) (d : Digest)
    (hd : (digestStep s fn).2 = some d) : d.2 = s.bytes ∧ d.1 = fn := by
  unfold digestStep at hd
  split at hd
  · rename_i d0 hc
    split at hd
    · rename_i hfn
      simp only [Option.some.injEq] at hd
      subst hd
      exact ⟨h.cachedOk _ hc, hfn⟩
    · split at hd
      · cases hd
      · simp only [Option.some.injEq] at hd
        subst hd
        exact ⟨rfl, rfl⟩
  · split at hd
    · cases hd
    · simp only [Option.some.injEq] at hd
      subst hd
      exact ⟨rfl, rfl⟩

end BbRe.Lemmas.FileRef
