/-
From `pileLock` statements to `pacq` events (C14 part b, assumption "all locks taken through
a `LockPile` have one class").

`pileStatic cls C s`: syntactically, every `pileLock p l` in `s` has `clsOf cls l = C`, every
call renaming is class preserving (`renOk`), and `s` contains no `unsupported` statement
(whose semantics is arbitrary). `pile_events_class`: if every function body of the program
is `pileStatic`, every `pacq p l` event of every returning run of every function (callee
bodies to any depth, any branches, any number of loop iterations, deferred statements) has
`clsOf cls l = C`. Core Lean only.
-/
import BbRe.Model.LockSkel
import BbRe.Lemmas.LockSkel
import BbRe.Lemmas.LockSkelEdges

namespace BbRe.Lemmas.LockSkelConc
open BbRe.LockSkel BbRe.Lemmas.LockSkel BbRe.Lemmas.LockSkelEdges

def pileStatic (cls : List Nat) (C : Nat) : Stmt → Bool
  | .pileLock _ l => clsOf cls l == C
  | .call _ ren => renOk ren
  | .unsupported _ => false
  | .seq a b => pileStatic cls C a && pileStatic cls C b
  | .choice _ a b => pileStatic cls C a && pileStatic cls C b
  | .loop _ b => pileStatic cls C b
  | .fin a b => pileStatic cls C a && pileStatic cls C b
  | .scope a => pileStatic cls C a
  | .block a => pileStatic cls C a
  | .ifFlag _ a b => pileStatic cls C a && pileStatic cls C b
  | _ => true

def pileStaticOk (cls : List Nat) (C : Nat) (prog : Prog) : Bool :=
  prog.all (fun fb => pileStatic cls C fb.2)

/-- Every lock taken through a pile in the trace has class `C`. -/
def PileCls (cls : List Nat) (C : Nat) (tr : List Ev) : Prop :=
  ∀ p l, Ev.pacq p l ∈ tr → clsOf cls l = C

section
variable {cls : List Nat} {C : Nat}

theorem pileCls_nil : PileCls cls C [] := fun _ _ h => by cases h

theorem pileCls_append {t1 t2 : List Ev} (h1 : PileCls cls C t1) (h2 : PileCls cls C t2) :
    PileCls cls C (t1 ++ t2) := by
  intro p l h
  rcases List.mem_append.mp h with h | h
  · exact h1 p l h
  · exact h2 p l h

theorem pileCls_single {e : Ev} (h : ∀ p l, e = .pacq p l → clsOf cls l = C) :
    PileCls cls C [e] := by
  intro p l hm
  rcases List.mem_cons.mp hm with hm | hm
  · exact h p l hm.symm
  · cases hm

theorem pileCls_prels (p : Nat) (xs : List Nat) : PileCls cls C (xs.map (Ev.prel p)) := by
  intro q l h
  rw [List.mem_map] at h
  obtain ⟨_, _, h⟩ := h
  cases h

theorem pileCls_rn {ren : List (Nat × Nat)} (hr : renOk ren = true) {t : List Ev}
    (h : PileCls cls C t) : PileCls cls C (t.map (rnEv ren)) := by
  intro p l hm
  rw [List.mem_map] at hm
  obtain ⟨e, he, heq⟩ := hm
  cases e with
  | pacq q l0 =>
    simp only [rnEv] at heq
    cases heq
    rw [clsOf_gcls (rn_gcls hr l0)]
    exact h _ _ he
  | acq _ => simp only [rnEv] at heq; cases heq
  | rel _ => simp only [rnEv] at heq; cases heq
  | need _ => simp only [rnEv] at heq; cases heq
  | prel _ _ => simp only [rnEv] at heq; cases heq

theorem iter_pileCls {B : CS → List Ev → Out → CS → Prop} {ce : Bool}
    (hB : ∀ c tr o c', B c tr o c' → PileCls cls C tr) :
    ∀ (n : Nat) c tr o c', iter B ce n c tr o c' → PileCls cls C tr
  | 0, _, _, _, _, h => by
    simp only [iter] at h
    rw [h.2.1]; exact pileCls_nil
  | n + 1, c, tr, o, c', h => by
    simp only [iter] at h
    obtain ⟨t1, o1, c1, hb, hrest⟩ := h
    have h1 := hB _ _ _ _ hb
    rcases hrest with ⟨_, t2, hi, rfl⟩ | ⟨_, rfl, _⟩ | ⟨_, rfl, _⟩
    · exact pileCls_append h1 (iter_pileCls hB n _ _ _ _ hi)
    · exact h1
    · exact h1

/-- One statement: all `pacq` events have class `C`, if the callees' runs do. -/
theorem sem_pileCls {Cal : Nat → List Ev → Prop} (hC : ∀ g t, Cal g t → PileCls cls C t) :
    ∀ (s : Stmt), pileStatic cls C s = true → ∀ c tr o c', sem Cal s c tr o c' →
      PileCls cls C tr
  | .skip, _, _, _, _, _, h => by simp only [sem] at h; rw [h.1]; exact pileCls_nil
  | .acq _, _, _, _, _, _, h => by
    simp only [sem] at h; rw [h.1]; exact pileCls_single (fun _ _ e => by cases e)
  | .rel _, _, _, _, _, _, h => by
    simp only [sem] at h; rw [h.1]; exact pileCls_single (fun _ _ e => by cases e)
  | .need _, _, _, _, _, _, h => by
    simp only [sem] at h; rw [h.1]; exact pileCls_single (fun _ _ e => by cases e)
  | .pileLock p l, hs, _, _, _, _, h => by
    simp only [sem] at h; rw [h.1]
    refine pileCls_single (fun _ _ e => ?_)
    cases e
    simpa [pileStatic] using hs
  | .pileUnlock p l, _, c, _, _, _, h => by
    simp only [sem] at h
    split at h
    · rw [h.1]; exact pileCls_single (fun _ _ e => by cases e)
    · rw [h.1]; exact pileCls_nil
  | .pileUnlockAll p, _, c, _, _, _, h => by
    simp only [sem] at h; rw [h.1]; exact pileCls_prels p _
  | .call g ren, hs, _, _, _, _, h => by
    simp only [sem] at h
    obtain ⟨t, hc, rfl, _⟩ := h
    exact pileCls_rn (by simpa [pileStatic] using hs) (hC g t hc)
  | .seq a b, hs, _, _, _, _, h => by
    simp only [pileStatic, Bool.and_eq_true] at hs
    simp only [sem] at h
    rcases h with ⟨c1, t1, t2, ha, hb, rfl⟩ | ⟨_, ha⟩
    · exact pileCls_append (sem_pileCls hC a hs.1 _ _ _ _ ha) (sem_pileCls hC b hs.2 _ _ _ _ hb)
    · exact sem_pileCls hC a hs.1 _ _ _ _ ha
  | .choice _ a b, hs, _, _, _, _, h => by
    simp only [pileStatic, Bool.and_eq_true] at hs
    simp only [sem] at h
    rcases h with ha | hb
    · exact sem_pileCls hC a hs.1 _ _ _ _ ha
    · exact sem_pileCls hC b hs.2 _ _ _ _ hb
  | .loop ce body, hs, _, _, _, _, h => by
    simp only [pileStatic] at hs
    simp only [sem] at h
    obtain ⟨n, hi⟩ := h
    exact iter_pileCls (fun c tr o c' hb => sem_pileCls hC body hs c tr o c' hb) n _ _ _ _ hi
  | .fin body d, hs, _, _, _, _, h => by
    simp only [pileStatic, Bool.and_eq_true] at hs
    simp only [sem] at h
    obtain ⟨c1, t1, o1, hb, hrest⟩ := h
    have h1 := sem_pileCls hC body hs.1 _ _ _ _ hb
    rcases hrest with ⟨_, rfl, _⟩ | ⟨_, t2, o2, hd, rfl, _⟩
    · exact h1
    · exact pileCls_append h1 (sem_pileCls hC d hs.2 _ _ _ _ hd)
  | .scope a, hs, _, _, _, _, h => by
    simp only [pileStatic] at hs
    simp only [sem] at h
    obtain ⟨o1, ha, _⟩ := h
    exact sem_pileCls hC a hs _ _ _ _ ha
  | .block a, hs, _, _, _, _, h => by
    simp only [pileStatic] at hs
    simp only [sem] at h
    obtain ⟨o1, ha, _⟩ := h
    exact sem_pileCls hC a hs _ _ _ _ ha
  | .setFlag _ _, _, _, _, _, _, h => by simp only [sem] at h; rw [h.1]; exact pileCls_nil
  | .ifFlag v a b, hs, c, _, _, _, h => by
    simp only [pileStatic, Bool.and_eq_true] at hs
    simp only [sem] at h
    split at h
    · exact sem_pileCls hC a hs.1 _ _ _ _ h
    · exact sem_pileCls hC b hs.2 _ _ _ _ h
  | .ret _, _, _, _, _, _, h => by simp only [sem] at h; rw [h.1]; exact pileCls_nil
  | .brk, _, _, _, _, _, h => by simp only [sem] at h; rw [h.1]; exact pileCls_nil
  | .cont, _, _, _, _, _, h => by simp only [sem] at h; rw [h.1]; exact pileCls_nil
  | .panic, _, _, _, _, _, h => by simp only [sem] at h; rw [h.1]; exact pileCls_nil
  | .unsupported _, hs, _, _, _, _, _ => by simp [pileStatic] at hs
  | .mark _ _, _, _, _, _, _, h => by simp only [sem] at h; rw [h.1]; exact pileCls_nil

theorem fnSem_pileCls {prog : Prog} (hp : pileStaticOk cls C prog = true) :
    ∀ (n f : Nat) (tr : List Ev), fnSem prog n f tr → PileCls cls C tr
  | 0, _, _, h => by cases h
  | n + 1, f, tr, h => by
    simp only [fnSem] at h
    obtain ⟨body, hb, o, c', hs, _⟩ := h
    have hm := mem_of_lookup f body prog hb
    unfold pileStaticOk at hp
    have hst := List.all_eq_true.mp hp _ hm
    exact sem_pileCls (fun g t hg => fnSem_pileCls hp n g t hg) body hst _ _ _ _ hs

/-- **From statements to events.** In a program all of whose bodies are `pileStatic cls C`,
every `pacq p l` event of every returning run of every function has `clsOf cls l = C`;
in particular all locks a run takes through piles have one class. -/
theorem pile_events_class {prog : Prog} (hp : pileStaticOk cls C prog = true)
    (f : Nat) (tr : List Ev) (he : Exec prog f tr) : PileCls cls C tr := by
  obtain ⟨n, hn⟩ := he
  exact fnSem_pileCls hp n f tr hn

theorem pile_events_one_class {prog : Prog} (hp : pileStaticOk cls C prog = true)
    (f : Nat) (tr : List Ev) (he : Exec prog f tr) :
    ∀ p l l', Ev.pacq p l ∈ tr → Ev.pacq p l' ∈ tr → clsOf cls l = clsOf cls l' := by
  intro p l l' h1 h2
  rw [pile_events_class hp f tr he p l h1, pile_events_class hp f tr he p l' h2]

end
end BbRe.Lemmas.LockSkelConc
