import BbRe.Lemmas.SchedLiveWorker5
/-!
Worker invariant through `syncArrive` and `syncWake`.
-/
namespace BbRe.Lemmas.SchedLive
open BbRe.Sched

theorem find?_append_new {l : List Scq} {n : Scq} {q : ScqId} {x : Scq}
    (h : (l ++ [n]).find? (fun y => y.id = q) = some x) : l.find? (fun y => y.id = q) = some x ∨ x = n := by
  rw [List.find?_append] at h
  cases hl : l.find? (fun y => y.id = q) with
  | some y => rw [hl] at h; simp at h; exact .inl (by rw [h])
  | none =>
    rw [hl] at h; simp only [Option.none_or, List.find?_cons, List.find?_nil] at h
    split at h
    · injection h with h; exact .inr h.symm
    · cases h

/-- appending a size-class queue without drains -/
theorem winv_addScq {s s' : State} {n : Scq} (hw : WInv s) (hn : n.drains = []) (h0 : s'.workers = s.workers)
    (h1 : s'.nextTask = s.nextTask) (h2 : s'.scqs = s.scqs ++ [n]) (h3 : s'.tasks = s.tasks) : WInv s' := by
  refine hw.of_frame (X := noX) h0 ⟨by omega, ?_, ?_⟩ (NoPtr.noX s)
  · intro q sq' h p hp
    simp only [State.scq?, h2] at h
    rcases find?_append_new h with h | rfl
    · exact ⟨sq', h, hp⟩
    · rw [hn] at hp; cases hp
  · intro tid t' _ _ h; simp only [State.task?, h3] at h; exact ⟨t', h, rfl, rfl⟩

theorem syncQueue_kw {s : State} {q : ScqId} {comps : List Nat} {pf : Nat} {w : WId} {x : State ⊕ State}
    (hh : syncQueue s q comps pf w = .ok x) : KWStep s (unsum x) := by
  refine KWStep.of (syncQueue_tstep (allow := True) hh) (fun _ hw => ?_)
  rcases syncQueue_ok hh with ⟨_, rfl⟩ | ⟨_, rfl⟩ | ⟨_, _, rfl⟩ | ⟨_, _, rfl⟩
  · exact winv_same hw rfl rfl rfl rfl
  · exact winv_same hw rfl rfl rfl rfl
  · exact winv_addScq (n := { id := q, mayBeRemoved := true, drains := [], undrainGen := 0 }) hw rfl rfl rfl rfl rfl
  · exact winv_addScq (n := { id := q, mayBeRemoved := true, drains := [], undrainGen := 0 }) hw rfl rfl rfl rfl rfl

/-- workers outside a `Synchronize` call have none of the waiting flags set -/
theorem flags_of_not_inSync {s : State} {wk : Worker} (h : WOk s wk) (hi : wk.inSync = false) :
    wk.parked = false ∧ wk.woken = false ∧ wk.drainWait = none := by
  refine ⟨?_, ?_, ?_⟩
  · cases hp : wk.parked with
    | false => rfl
    | true => have := (h.parked hp).1; rw [hi] at this; cases this
  · cases hp : wk.woken with
    | false => rfl
    | true => have := (h.woken hp).1; rw [hi] at this; cases this
  · cases hp : wk.drainWait with
    | none => rfl
    | some g => have := (h.dwait (by simp [hp])).1; rw [hi] at this; cases this

/-- `syncWorker` keeps the invariant, and when it lets the call proceed the worker satisfies `SyncPre` -/
theorem syncWorker_kw (s : State) (q : ScqId) (w : WId) :
    KWStep s (unsum (syncWorker s q w)) ∧
    (∀ s3, syncWorker s q w = .inr s3 → WInv s → SyncPre s3 q w) := by
  rcases syncWorker_cases s q w with ⟨wk, hwk, hi, e⟩ | ⟨wk, hwk, hi, e⟩ | ⟨hwk, e⟩ <;> rw [e]
  · exact ⟨KWStep.of_same rfl rfl rfl rfl rfl rfl, fun s3 h => by cases h⟩
  · obtain ⟨hm, hq, hw'⟩ := worker?_mem hwk
    constructor
    · refine KWStep.of (TStep.of_same (allow := True) rfl rfl rfl rfl) (fun _ hw => ?_)
      obtain ⟨f1, f2, f3⟩ := flags_of_not_inSync (hw.ok wk hm) hi
      refine hw.setWorker (X := noX) (w := { wk with inSync := true }) rfl (WFrame.of_eq rfl rfl rfl) (NoPtr.noX _) ?_
      exact ⟨by simp [f1], by simp [f2], by simp [f3], fun tid ht => (hw.ok wk hm).ptr tid ht⟩
    · intro s3 h hw
      injection h with h; subst h
      obtain ⟨f1, f2, f3⟩ := flags_of_not_inSync (hw.ok wk hm) hi
      intro wk' hwk'
      rw [worker?_setWorker] at hwk'
      simp only [hq, hw', and_self, if_true] at hwk'
      have : (s.removeCleanup (.worker q w)).worker? q w = some wk := hwk
      rw [this] at hwk'; simp only [Option.map_some, Option.some.injEq] at hwk'
      subst hwk'; exact ⟨rfl, f1, f2, f3⟩
  · constructor
    · refine KWStep.of (TStep.of_same (allow := True) rfl rfl rfl rfl) (fun _ hw => ?_)
      refine ⟨?_, ?_⟩
      · simp only [unsum, addWorker_workers, List.map_append, List.map_cons, List.map_nil]
        rw [List.nodup_append]
        refine ⟨hw.uniq, by simp, ?_⟩
        intro a ha b hb
        simp only [List.mem_singleton] at hb; subst hb
        intro e; subst e
        obtain ⟨x, hx, ex⟩ := List.mem_map.1 ha
        have := worker?_of_mem hw.uniq hx
        simp only [wkey, Prod.mk.injEq] at ex
        rw [ex.1, ex.2, hwk] at this; cases this
      · intro x hx
        simp only [unsum, addWorker_workers, List.mem_append, List.mem_singleton] at hx
        rcases hx with hx | rfl
        · exact (hw.ok x hx).frame (X := noX) (WFrame.of_eq rfl rfl rfl) (fun _ _ h => h)
        · exact ⟨by simp, by simp, by simp, by simp⟩
    · intro s3 h _
      injection h with h; subst h
      intro wk' hwk'
      simp only [State.worker?, addWorker_workers, List.find?_append] at hwk'
      have hn : s.workers.find? (fun x => x.scq = q ∧ x.id = w) = none := hwk
      rw [hn] at hwk'
      simp only [Option.none_or, List.find?_cons, and_self, decide_true, Option.some.injEq] at hwk'
      subst hwk'; exact ⟨rfl, rfl, rfl, rfl⟩

theorem syncPre_emit {s : State} {q : ScqId} {w : WId} (e : Event) (h : SyncPre s q w) : SyncPre (emit s e) q w := h

theorem syncArrive_kw {h : Hints} {s s' : State} {now : Nat} {q : ScqId} {comps : List Nat} {pf : Nat}
    {w : WId} {rep : Report} {pi : Bool} (hh : syncArrive h s now q comps pf w rep pi = .ok s') : KWStep s s' := by
  obtain ⟨s1, x, h1, h2, h3⟩ := syncArrive_ok hh
  refine (enter_kw h1).trans ?_
  rcases h3 with rfl | ⟨s2, rfl, h3⟩
  · exact syncQueue_kw h2
  · refine KWStep.trans (b := s2) (syncQueue_kw h2) ?_
    obtain ⟨kw, pre⟩ := syncWorker_kw s2 q w
    rcases h3 with h3 | ⟨s3, wk, h3, hwk, h4⟩
    · rw [h3] at kw; exact kw
    · rw [h3] at kw
      intro hkw2
      have hkw3 : KW s3 := kw hkw2
      have hpre : SyncPre s3 q w := pre s3 h3 hkw2.2
      obtain ⟨pin, ppk, pwo, pdw⟩ := hpre wk hwk
      rcases h4 with ⟨_, rfl⟩ | ⟨_, h4⟩ | ⟨d, _, _, rfl⟩ | ⟨d, _, _, h4⟩ | ⟨d, r, tid, s4, _, _, htk, h4, h5⟩ | ⟨d, r, _, _, h4⟩
      · exact ⟨(TStep.of_same (allow := True) (by simp) (by simp) (by simp) (by simp) hkw3.1).1,
          syncReturn_winv q w (winv_same hkw3.2 rfl rfl rfl rfl)⟩
      · exact getCurrentOrNext_kw h4 hpre hkw3
      · exact ⟨(TStep.of_same (allow := True) (by simp) (by simp) (by simp) (by simp) hkw3.1).1,
          syncReturn_winv q w (winv_same hkw3.2 rfl rfl rfl rfl)⟩
      · exact getCurrentOrNext_kw h4 hpre hkw3
      · have hkw4 := complete_kw h4 hkw3
        obtain ⟨keep, clr⟩ := complete_keep (q := q) (w := w) h4 hkw3.2
        refine getNextTask_kw h5 ?_ ?_ hkw4
        · intro wk1 hwk1
          obtain ⟨wk', e1, p1, a1, a2, a3, _⟩ := keep wk hwk ppk
          rw [e1] at hwk1; injection hwk1 with e; subst e
          exact ⟨a1 ▸ pin, p1, a2 ▸ pwo, a3 ▸ pdw⟩
        · intro wk1 hwk1; exact clr wk hwk ppk htk wk1 hwk1
      · exact getCurrentOrNext_kw h4 hpre hkw3

theorem syncWake_kw {h : Hints} {s s' : State} {now : Nat} {q : ScqId} {w : WId} {reason : Nat}
    (hh : syncWake h s now q w reason = .ok s') : KWStep s s' := by
  obtain ⟨s1, wk, h1, hwk, hin, h2⟩ := syncWake_ok hh
  refine (enter_kw h1).trans ?_
  intro hkw
  obtain ⟨hk, hw⟩ := hkw
  obtain ⟨hm, hq, hw'⟩ := worker?_mem hwk
  have hok := hw.ok wk hm
  -- the three ways the worker record is reset before the segment continues
  have reset : ∀ (wk2 : Worker), wk2.scq = wk.scq → wk2.id = wk.id → wk2.task = wk.task → wk2.inSync = true →
      wk2.parked = false → wk2.woken = false → wk2.drainWait = none →
      WInv (s1.setWorker wk2) ∧ SyncPre (s1.setWorker wk2) q w ∧
        (∀ wk', (s1.setWorker wk2).worker? q w = some wk' → wk'.task = wk.task) := by
    intro wk2 e1 e2 e3 e4 e5 e6 e7
    refine ⟨?_, ?_, ?_⟩
    · refine hw.setWorker (X := noX) rfl (WFrame.of_eq rfl rfl rfl) (NoPtr.noX _) ?_
      refine ⟨by simp [e5], by simp [e6], by simp [e7], ?_⟩
      intro tid ht; rw [e3] at ht; rw [e1, e2]; exact hok.ptr tid ht
    · intro wk' hwk'
      rw [worker?_setWorker] at hwk'
      simp only [e1, e2, hq, hw', and_self, if_true, hwk, Option.map_some, Option.some.injEq] at hwk'
      subst hwk'; exact ⟨e4, e5, e6, e7⟩
    · intro wk' hwk'
      rw [worker?_setWorker] at hwk'
      simp only [e1, e2, hq, hw', and_self, if_true, hwk, Option.map_some, Option.some.injEq] at hwk'
      subst hwk'; exact e3
  have same : ∀ {a b : State}, KeysOK a → b.tasks = a.tasks → b.ops = a.ops → b.nextTask = a.nextTask →
      b.nextOp = a.nextOp → KeysOK b := fun ha e1 e2 e3 e4 => (TStep.of_same (allow := True) e1 e2 e3 e4 ha).1
  rcases h2 with ⟨_, h2 | h2⟩ | ⟨_, rfl⟩ | ⟨_, hwo, h2 | h2⟩ | ⟨_, sq, g, _, hdw, _, h2⟩
  · obtain ⟨s3, _, h3, rfl⟩ := h2
    obtain ⟨tid, t, _, _, rfl⟩ := execResponse_ok h3
    obtain ⟨r1, _, _⟩ := reset { wk with parked := false, woken := false, drainWait := none } rfl rfl rfl hin rfl rfl rfl
    exact ⟨same hk (by simp) (by simp) (by simp) (by simp), syncReturn_winv q w (winv_same r1 rfl rfl rfl rfl)⟩
  · obtain ⟨_, rfl⟩ := h2
    obtain ⟨r1, _, _⟩ := reset { wk with parked := false, woken := false, drainWait := none } rfl rfl rfl hin rfl rfl rfl
    exact ⟨same hk (by simp) (by simp) (by simp) (by simp), syncReturn_winv q w (winv_same r1 rfl rfl rfl rfl)⟩
  · obtain ⟨r1, _, _⟩ := reset { wk with parked := false, woken := false, drainWait := none } rfl rfl rfl hin rfl rfl rfl
    exact ⟨same hk (by simp) (by simp) (by simp) (by simp), syncReturn_winv q w (winv_same r1 rfl rfl rfl rfl)⟩
  · obtain ⟨s3, _, h3, rfl⟩ := h2
    obtain ⟨tid, t, _, _, rfl⟩ := execResponse_ok h3
    obtain ⟨_, ppk, pdw⟩ := hok.woken hwo
    obtain ⟨r1, _, _⟩ := reset { wk with woken := false } rfl rfl rfl hin ppk rfl pdw
    exact ⟨same hk (by simp) (by simp) (by simp) (by simp), syncReturn_winv q w (winv_same r1 rfl rfl rfl rfl)⟩
  · obtain ⟨htn, h3⟩ := h2
    obtain ⟨_, ppk, pdw⟩ := hok.woken hwo
    obtain ⟨r1, r2, r3⟩ := reset { wk with woken := false } rfl rfl rfl hin ppk rfl pdw
    refine getNextTask_kw h3 r2 ?_ ⟨same hk rfl rfl rfl rfl, r1⟩
    intro wk' hwk'; rw [r3 wk' hwk']
    cases hwt : wk.task with
    | none => rfl
    | some x => rw [hwt] at htn; cases htn
  · have hds : wk.drainWait.isSome = true := by simp [hdw]
    obtain ⟨_, htn⟩ := hok.dwait hds
    have ppk : wk.parked = false := by
      cases hp : wk.parked with
      | false => rfl
      | true => have := (hok.parked hp).2.2.2.2.1; rw [hdw] at this; cases this
    have pwo : wk.woken = false := by
      cases hp : wk.woken with
      | false => rfl
      | true => have := (hok.woken hp).2.2; rw [hdw] at this; cases this
    obtain ⟨r1, r2, r3⟩ := reset { wk with drainWait := none } rfl rfl rfl hin ppk pwo rfl
    refine getNextTask_kw h2 r2 ?_ ⟨same hk rfl rfl rfl rfl, r1⟩
    intro wk' hwk'; rw [r3 wk' hwk']; exact htn

end BbRe.Lemmas.SchedLive
