import BbRe.Lemmas.OutputsListing
/-!
Helper lemmas for C10 (`parents_created`): `createParentDirectories` over the
`outputNode` trie creates a directory at every sub-node path and nothing else.
-/
namespace BbRe.Lemmas.Outputs
open BbRe.Outputs

/-- Induction principle for the nested inductive `ONode`. -/
theorem ONode.induct {P : ONode → Prop}
    (h : ∀ ps subs, (∀ p ∈ subs, P p.2) → P (.mk ps subs)) : ∀ n, P n := by
  intro n
  refine ONode.rec (motive_1 := P) (motive_2 := fun subs => ∀ p ∈ subs, P p.2) (motive_3 := fun p => P p.2)
    ?_ ?_ ?_ ?_ n
  · intro ps subs ih; exact h ps subs ih
  · intro p hp; cases hp
  · intro hd tl ih1 ih2 p hp
    cases hp with
    | head => exact ih1
    | tail _ h' => exact ih2 p h'
  · intro a b ih; exact ih

mutual
/-- Paths (from this node) of all sub-nodes of the trie = the directories to create. -/
def prefixesN : ONode → List (List Name)
  | .mk _ subs => prefixesSubs subs
def prefixesSubs : List (Name × ONode) → List (List Name)
  | [] => []
  | (name, child) :: rest => ([name] :: (prefixesN child).map (name :: ·)) ++ prefixesSubs rest
end

def DirAt (q : List Name) (root : Node) : Prop := ∃ r es, walkN q root = some (.dir r es)

/-- A directory stays a directory, anything else stays exactly what it was. -/
def SameShape (x x' : Node) : Prop := (isDir x = true ∧ isDir x' = true) ∨ (isDir x = false ∧ x' = x)

theorem SameShape.refl (x : Node) : SameShape x x := by
  unfold SameShape
  cases h : isDir x <;> simp

theorem SameShape.trans {a b c : Node} (h1 : SameShape a b) (h2 : SameShape b c) : SameShape a c := by
  unfold SameShape at *
  rcases h1 with ⟨ha, hb⟩ | ⟨ha, rfl⟩
  · rcases h2 with ⟨_, hc⟩ | ⟨hb', _⟩
    · exact Or.inl ⟨ha, hc⟩
    · rw [hb] at hb'; cases hb'
  · exact h2

structure Good (P : List (List Name)) (es es' : Entries) : Prop where
  made : ∀ q ∈ P, ∀ r, DirAt q (.dir r es')
  kept : ∀ q x r, walkN q (.dir r es) = some x → ∃ x', walkN q (.dir r es') = some x' ∧ SameShape x x'
  only : ∀ q r, walkN q (.dir r es') ≠ none → walkN q (.dir r es) ≠ none ∨ q ∈ P

def NoConflict (P : List (List Name)) (es : Entries) : Prop :=
  ∀ q ∈ P, ∀ x r, walkN q (.dir r es) = some x → isDir x = true

theorem Good.refl (es : Entries) : Good [] es es :=
  ⟨by simp, fun q x r h => ⟨x, h, SameShape.refl x⟩, fun q r h => Or.inl h⟩

theorem isDir_of_dirAt {q : List Name} {root x : Node} (h : DirAt q root) (hx : walkN q root = some x) :
    isDir x = true := by
  obtain ⟨r, es, h'⟩ := h
  rw [h'] at hx
  cases hx
  rfl

theorem Good.trans {P1 P2 : List (List Name)} {es es1 es2 : Entries} (h1 : Good P1 es es1)
    (h2 : Good P2 es1 es2) : Good (P1 ++ P2) es es2 where
  made := by
    intro q hq r
    rcases List.mem_append.1 hq with hq | hq
    · obtain ⟨r1, e1, hw⟩ := h1.made q hq r
      obtain ⟨x', hx', hs⟩ := h2.kept q _ r hw
      rcases hs with ⟨_, hd⟩ | ⟨hd, _⟩
      · cases x' with
        | dir r' e' => exact ⟨r', e', hx'⟩
        | file _ _ => simp [isDir] at hd
        | symlink _ => simp [isDir] at hd
        | special => simp [isDir] at hd
      · simp [isDir] at hd
    · exact h2.made q hq r
  kept := by
    intro q x r hw
    obtain ⟨x1, hx1, hs1⟩ := h1.kept q x r hw
    obtain ⟨x2, hx2, hs2⟩ := h2.kept q x1 r hx1
    exact ⟨x2, hx2, hs1.trans hs2⟩
  only := by
    intro q r hw
    rcases h2.only q r hw with h | h
    · rcases h1.only q r h with h' | h'
      · exact Or.inl h'
      · exact Or.inr (List.mem_append_left _ h')
    · exact Or.inr (List.mem_append_right _ h)

theorem NoConflict.transfer {P1 P2 : List (List Name)} {es es1 : Entries} (hn : NoConflict P2 es)
    (hg : Good P1 es es1) : NoConflict P2 es1 := by
  intro q hq x r hw
  rcases hg.only q r (by rw [hw]; simp) with h | h
  · cases h0 : walkN q (.dir r es) with
    | none => exact absurd h0 h
    | some x0 =>
      have hd := hn q hq x0 r h0
      obtain ⟨x', hx', hs⟩ := hg.kept q x0 r h0
      rw [hw] at hx'
      cases hx'
      rcases hs with ⟨_, h2⟩ | ⟨h2, _⟩
      · exact h2
      · rw [hd] at h2; cases h2
  · exact isDir_of_dirAt (hg.made q h r) hw

/-! ### association-list facts -/

theorem lookupE_append_other (k name : Name) (v : Node) (es : Entries) (h : k ≠ name) :
    lookupE k (es ++ [(name, v)]) = lookupE k es := by
  induction es with
  | nil => simp [lookupE, Ne.symm h]
  | cons p rest ih =>
    obtain ⟨a, b⟩ := p
    simp only [List.cons_append, lookupE]
    split
    · rfl
    · exact ih

theorem lookupE_append_new (name : Name) (v : Node) (es : Entries) (h : lookupE name es = none) :
    lookupE name (es ++ [(name, v)]) = some v := by
  induction es with
  | nil => simp [lookupE]
  | cons p rest ih =>
    obtain ⟨a, b⟩ := p
    simp only [List.cons_append, lookupE] at h ⊢
    split
    · rename_i hab; simp [hab] at h
    · rename_i hab; simp only [hab, ↓reduceIte] at h; exact ih h

theorem lookupE_setE_same (name : Name) (v x : Node) (es : Entries) (h : lookupE name es = some x) :
    lookupE name (setE name v es) = some v := by
  induction es with
  | nil => simp [lookupE] at h
  | cons p rest ih =>
    obtain ⟨a, b⟩ := p
    simp only [lookupE] at h
    simp only [setE]
    split
    · simp [lookupE, *]
    · rename_i hab
      simp only [hab, ↓reduceIte] at h
      simp only [lookupE, hab, ↓reduceIte]
      exact ih h

theorem lookupE_setE_other (k name : Name) (v : Node) (es : Entries) (h : k ≠ name) :
    lookupE k (setE name v es) = lookupE k es := by
  induction es with
  | nil => rfl
  | cons p rest ih =>
    obtain ⟨a, b⟩ := p
    simp only [setE]
    split
    · rename_i hab
      subst hab
      simp [lookupE, Ne.symm h]
    · simp only [lookupE]
      split
      · rfl
      · exact ih

theorem setE_self (name : Name) (v : Node) (es : Entries) (h : lookupE name es = some v) :
    setE name v es = es := by
  induction es with
  | nil => rfl
  | cons p rest ih =>
    obtain ⟨a, b⟩ := p
    simp only [lookupE] at h
    simp only [setE]
    split
    · rename_i hab
      simp only [hab, ↓reduceIte, Option.some.injEq] at h
      rw [h]
    · rename_i hab
      simp only [hab, ↓reduceIte] at h
      rw [ih h]

theorem walkN_cons (c : Name) (q : List Name) (r : Bool) (es : Entries) :
    walkN (c :: q) (.dir r es) = match lookupE c es with
      | none => none
      | some n' => walkN q n' := by
  cases h : lookupE c es <;> simp [walkN, h]

theorem walkN_empty_dir (q : List Name) (r : Bool) (h : walkN q (.dir r []) ≠ none) : q = [] := by
  cases q with
  | nil => rfl
  | cons c q' => simp [walkN_cons, lookupE] at h

/-- One iteration of the `createParentDirectories` loop, seen on the directory entries. -/
theorem good_step (name : Name) (es : Entries) (P' : List (List Name)) (r1 : Bool) (ces ces' : Entries)
    (hnc : ∀ x, lookupE name es = some x → isDir x = true)
    (hl : lookupE name (mkdirE name es) = some (.dir r1 ces))
    (hg : Good P' ces ces') :
    Good ([name] :: P'.map (name :: ·)) es (setE name (.dir r1 ces') (mkdirE name es)) := by
  -- what mkdirE did
  have hother : ∀ k, k ≠ name → lookupE k (setE name (.dir r1 ces') (mkdirE name es)) = lookupE k es := by
    intro k hk
    rw [lookupE_setE_other k name _ _ hk]
    unfold mkdirE
    cases lookupE name es with
    | none => exact lookupE_append_other k name _ es hk
    | some _ => rfl
  have hsame : lookupE name (setE name (.dir r1 ces') (mkdirE name es)) = some (.dir r1 ces') :=
    lookupE_setE_same name _ _ _ hl
  have hold : lookupE name es = some (.dir r1 ces) ∨ (lookupE name es = none ∧ ces = []) := by
    unfold mkdirE at hl
    cases h0 : lookupE name es with
    | none =>
      rw [h0] at hl
      simp only at hl
      rw [lookupE_append_new name _ es h0] at hl
      simp only [Option.some.injEq, Node.dir.injEq] at hl
      exact Or.inr ⟨rfl, hl.2.symm⟩
    | some x =>
      rw [h0] at hl
      simp only at hl
      rw [h0] at hl
      exact Or.inl hl
  refine ⟨?_, ?_, ?_⟩
  · intro q hq r
    simp only [List.mem_cons, List.mem_map] at hq
    rcases hq with rfl | ⟨q', hq', rfl⟩
    · exact ⟨r1, ces', by simp [walkN_cons, hsame, walkN]⟩
    · obtain ⟨r2, e2, hw⟩ := hg.made q' hq' r1
      exact ⟨r2, e2, by simp [walkN_cons, hsame, hw]⟩
  · intro q x r hw
    cases q with
    | nil =>
      simp only [walkN, Option.some.injEq] at hw
      subst hw
      exact ⟨_, rfl, Or.inl ⟨rfl, rfl⟩⟩
    | cons c q' =>
      by_cases hc : c = name
      · subst hc
        rw [walkN_cons] at hw
        rcases hold with h0 | ⟨h0, _⟩
        · rw [h0] at hw
          simp only at hw
          obtain ⟨x', hx', hs⟩ := hg.kept q' x r1 hw
          exact ⟨x', by simp [walkN_cons, hsame, hx'], hs⟩
        · rw [h0] at hw; simp at hw
      · rw [walkN_cons] at hw
        exact ⟨x, by rw [walkN_cons, hother c hc]; exact hw, SameShape.refl x⟩
  · intro q r hw
    cases q with
    | nil => left; simp [walkN]
    | cons c q' =>
      by_cases hc : c = name
      · subst hc
        rw [walkN_cons, hsame] at hw
        simp only at hw
        rcases hg.only q' r1 hw with h | h
        · rcases hold with h0 | ⟨h0, hces⟩
          · left; rw [walkN_cons, h0]; exact h
          · subst hces
            have := walkN_empty_dir q' r1 h
            subst this
            right; simp
        · right
          simp only [List.mem_cons, List.cons.injEq, true_and, List.mem_map]
          exact Or.inr ⟨q', h, rfl⟩
      · left
        rw [walkN_cons, hother c hc] at hw
        rw [walkN_cons]
        exact hw

theorem noConflict_empty (P : List (List Name)) : NoConflict P [] := by
  intro q _ x r hw
  have := walkN_empty_dir q r (by rw [hw]; simp)
  subst this
  simp only [walkN, Option.some.injEq] at hw
  subst hw
  rfl

def CN (n : ONode) : Prop :=
  ∀ es, NoConflict (prefixesN n) es → ∃ es', n.mkParents es = .ok es' ∧ Good (prefixesN n) es es'

theorem mkParentsSubs_good (subs : List (Name × ONode)) (h : ∀ p ∈ subs, CN p.2) (es : Entries)
    (hnc : NoConflict (prefixesSubs subs) es) :
    ∃ es', mkParentsSubs subs es = .ok es' ∧ Good (prefixesSubs subs) es es' := by
  induction subs generalizing es with
  | nil => exact ⟨es, by simp [mkParentsSubs], by simpa [prefixesSubs] using Good.refl es⟩
  | cons p rest ih =>
    obtain ⟨name, child⟩ := p
    have ihr := ih (fun q hq => h q (List.mem_cons_of_mem _ hq))
    have hchild := h (name, child) (by simp)
    simp only [prefixesSubs] at hnc ⊢
    -- the entry for `name` after Mkdir
    have hname : ∀ x, lookupE name es = some x → isDir x = true := by
      intro x hx
      exact hnc [name] (by simp) x true (by simp [walkN_cons, hx, walkN])
    obtain ⟨r1, ces, hl⟩ : ∃ r1 ces, lookupE name (mkdirE name es) = some (.dir r1 ces) := by
      unfold mkdirE
      cases h0 : lookupE name es with
      | none => exact ⟨true, [], by simp only; exact lookupE_append_new name _ es h0⟩
      | some x =>
        have := hname x h0
        cases x with
        | dir r e => exact ⟨r, e, by simp only; exact h0⟩
        | file _ _ => simp [isDir] at this
        | symlink _ => simp [isDir] at this
        | special => simp [isDir] at this
    have hold : lookupE name es = some (.dir r1 ces) ∨ (lookupE name es = none ∧ ces = []) := by
      unfold mkdirE at hl
      cases h0 : lookupE name es with
      | none =>
        rw [h0] at hl
        simp only at hl
        rw [lookupE_append_new name _ es h0] at hl
        simp only [Option.some.injEq, Node.dir.injEq] at hl
        exact Or.inr ⟨rfl, hl.2.symm⟩
      | some x =>
        rw [h0] at hl
        simp only at hl
        rw [h0] at hl
        exact Or.inl hl
    -- the child's directories
    have hncChild : NoConflict (prefixesN child) ces := by
      rcases hold with h0 | ⟨_, hces⟩
      · intro q hq x r hw
        cases q with
        | nil => simp only [walkN, Option.some.injEq] at hw; subst hw; rfl
        | cons c q' =>
          have hw' : walkN (c :: q') (.dir r1 ces) = some x := by
            rw [walkN_cons] at hw ⊢; exact hw
          exact hnc (name :: c :: q') (by simp [hq]) x true (by rw [walkN_cons, h0]; exact hw')
      · subst hces; exact noConflict_empty _
    obtain ⟨ces', hmk, hgood⟩ : ∃ ces', (if child.subs.isEmpty then Except.ok ces else child.mkParents ces) = .ok ces' ∧
        Good (prefixesN child) ces ces' := by
      cases child with
      | mk cps csubs =>
        cases csubs with
        | nil => exact ⟨ces, by simp [ONode.subs], by simpa [prefixesN, prefixesSubs] using Good.refl ces⟩
        | cons a b =>
          obtain ⟨ces', h1, h2⟩ := hchild ces hncChild
          exact ⟨ces', by simpa [ONode.subs] using h1, h2⟩
    have hstep := good_step name es (prefixesN child) r1 ces ces' hname hl hgood
    have hncRest : NoConflict (prefixesSubs rest) (setE name (.dir r1 ces') (mkdirE name es)) := by
      refine NoConflict.transfer ?_ hstep
      intro q hq
      exact hnc q (List.mem_append_right _ hq)
    obtain ⟨es', hrest, hgrest⟩ := ihr _ hncRest
    refine ⟨es', ?_, hstep.trans hgrest⟩
    rw [mkParentsSubs]
    by_cases hempty : child.subs.isEmpty = true
    · simp only [hempty, ↓reduceIte] at hmk ⊢
      cases hmk
      rw [setE_self name _ _ hl] at hrest
      exact hrest
    · simp only [hempty, Bool.false_eq_true, ↓reduceIte] at hmk ⊢
      rw [hl]
      simp only [hmk]
      exact hrest

theorem cn_all : ∀ n, CN n := by
  apply ONode.induct
  intro ps subs ih es hnc
  simp only [prefixesN] at hnc ⊢
  rw [ONode.mkParents]
  exact mkParentsSubs_good subs ih es hnc

/-! ### which directories the trie asks for -/

theorem prefixesN_empty : prefixesN .empty = [] := by
  simp [ONode.empty, prefixesN, prefixesSubs]

theorem prefixesSubs_alterSub (c : Name) (F : ONode → ONode) (Q : List Name → Prop)
    (hF : ∀ child q, q ∈ prefixesN (F child) ↔ q ∈ prefixesN child ∨ Q q)
    (subs : List (Name × ONode)) (q : List Name) :
    q ∈ prefixesSubs (alterSub c F subs) ↔
      q ∈ prefixesSubs subs ∨ q = [c] ∨ ∃ q', q = c :: q' ∧ Q q' := by
  induction subs with
  | nil =>
    simp only [alterSub, prefixesSubs, List.append_nil, List.mem_cons, List.mem_map, hF, prefixesN_empty,
      List.not_mem_nil, false_or]
    constructor
    · rintro (h | ⟨a, ha, rfl⟩)
      · exact Or.inl h
      · exact Or.inr ⟨a, rfl, ha⟩
    · rintro (h | ⟨a, rfl, ha⟩)
      · exact Or.inl h
      · exact Or.inr ⟨a, ha, rfl⟩
  | cons p rest ih =>
    obtain ⟨k, v⟩ := p
    unfold alterSub
    split
    · rename_i hk
      subst hk
      simp only [prefixesSubs, List.mem_append, List.mem_cons, List.mem_map, hF]
      constructor
      · rintro ((h | ⟨a, ha | ha, rfl⟩) | h)
        · exact Or.inr (Or.inl h)
        · exact Or.inl (Or.inl (Or.inr ⟨a, ha, rfl⟩))
        · exact Or.inr (Or.inr ⟨a, rfl, ha⟩)
        · exact Or.inl (Or.inr h)
      · rintro (((h | ⟨a, ha, rfl⟩) | h) | h | ⟨a, rfl, ha⟩)
        · exact Or.inl (Or.inl h)
        · exact Or.inl (Or.inr ⟨a, Or.inl ha, rfl⟩)
        · exact Or.inr h
        · exact Or.inl (Or.inl h)
        · exact Or.inl (Or.inr ⟨a, Or.inr ha, rfl⟩)
    · simp only [prefixesSubs, List.mem_append, ih]
      constructor
      · rintro (h | h | h)
        · exact Or.inl (Or.inl h)
        · exact Or.inl (Or.inr h)
        · exact Or.inr h
      · rintro ((h | h) | h)
        · exact Or.inl h
        · exact Or.inr (Or.inl h)
        · exact Or.inr (Or.inr h)

/-- The sub-node paths of the trie after registering location `cs ++ [last]`: the old ones plus
the non-empty prefixes of `cs`. -/
theorem prefixesN_insert (cs : List Name) (last : Name) (s : Str) (n : ONode) (q : List Name) :
    q ∈ prefixesN (n.insert cs last s) ↔ q ∈ prefixesN n ∨ (q ≠ [] ∧ q <+: cs) := by
  induction cs generalizing n q with
  | nil =>
    cases n with
    | mk ps subs =>
      simp only [ONode.insert, prefixesN, List.prefix_nil]
      constructor
      · exact Or.inl
      · rintro (h | ⟨h1, h2⟩)
        · exact h
        · exact absurd h2 h1
  | cons c cs ih =>
    cases n with
    | mk ps subs =>
      simp only [ONode.insert, prefixesN]
      rw [prefixesSubs_alterSub c _ (fun q' => q' ≠ [] ∧ q' <+: cs) (fun child q' => ih child q')]
      refine or_congr_right ?_
      constructor
      · rintro (rfl | ⟨q', rfl, h1, h2⟩)
        · exact ⟨by simp, by simp [List.cons_prefix_cons]⟩
        · exact ⟨by simp, by simpa [List.cons_prefix_cons] using h2⟩
      · rintro ⟨h1, h2⟩
        cases q with
        | nil => exact absurd rfl h1
        | cons a q' =>
          rw [List.cons_prefix_cons] at h2
          obtain ⟨rfl, h3⟩ := h2
          cases q' with
          | nil => exact Or.inl rfl
          | cons b q'' => exact Or.inr ⟨b :: q'', rfl, by simp, h3⟩

theorem prefixes_registerAll (wd : List Name) (h h' : Hierarchy) (ps : List Str)
    (hr : registerAll wd h ps = .ok h') (q : List Name) :
    q ∈ prefixesN h'.root ↔ q ∈ prefixesN h.root ∨
      ∃ s ∈ ps, ∃ loc, resolveRel wd s = .ok loc ∧ q ≠ [] ∧ q <+: loc.dropLast := by
  induction ps generalizing h with
  | nil =>
    simp only [registerAll, Except.ok.injEq] at hr
    subst hr
    simp
  | cons p ps ih =>
    simp only [registerAll, Hierarchy.register] at hr
    cases hres : resolveRel wd p with
    | error e => simp [hres] at hr
    | ok loc =>
      simp only [hres] at hr
      cases hsl : splitLast loc with
      | none =>
        simp only [hsl] at hr
        have hloc := (splitLast_none loc).1 hsl
        rw [ih _ hr]
        simp only [List.mem_cons, exists_eq_or_imp, hres, Except.ok.injEq, exists_eq_left']
        subst hloc
        simp
      | some il =>
        obtain ⟨i, l⟩ := il
        simp only [hsl] at hr
        have hloc := (splitLast_some loc i l).1 hsl
        rw [ih _ hr]
        simp only [prefixesN_insert, List.mem_cons, exists_eq_or_imp, hres, Except.ok.injEq,
          exists_eq_left']
        subst hloc
        simp only [List.dropLast_concat]
        constructor
        · rintro ((h1 | h1) | h1)
          · exact Or.inl h1
          · exact Or.inr (Or.inl h1)
          · exact Or.inr (Or.inr h1)
        · rintro (h1 | h1 | h1)
          · exact Or.inl (Or.inl h1)
          · exact Or.inl (Or.inr h1)
          · exact Or.inr h1

end BbRe.Lemmas.Outputs
