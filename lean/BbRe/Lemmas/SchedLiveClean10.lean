import BbRe.Lemmas.SchedLiveClean9
/-!
Cleanup accounting: `syncWake`, operator calls, every segment, every reachable state.
-/
namespace BbRe.Lemmas.SchedLive
open BbRe.Sched

theorem syncWake_kwc {h : Hints} {s s' : State} {now : Nat} {q : ScqId} {w : WId} {reason : Nat}
    (hh : syncWake h s now q w reason = .ok s') (hi : KWC noEx s) : KWC noEx s' := by
  refine ⟨syncWake_kw hh hi.1, ?_⟩
  obtain ⟨s1, wk, h1, hwk, hin, h2⟩ := syncWake_ok hh
  obtain ⟨⟨hk, hw⟩, hc⟩ := enter_kwc hi h1
  obtain ⟨hm, hq, hw'⟩ := worker?_mem hwk
  have hok := hw.ok wk hm
  have reset : ∀ (wk2 : Worker), wk2.scq = wk.scq → wk2.id = wk.id → wk2.task = wk.task → wk2.inSync = true →
      wk2.parked = false → wk2.woken = false → wk2.drainWait = none →
      KWC noEx (s1.setWorker wk2) ∧ SyncPre (s1.setWorker wk2) q w ∧
        (∀ wk', (s1.setWorker wk2).worker? q w = some wk' → wk'.task = wk.task) := by
    intro wk2 e1 e2 e3 e4 e5 e6 e7
    have hkey : wkey wk = wkey wk2 := by simp [wkey, e1, e2]
    refine ⟨⟨⟨(TStep.of_same (allow := True) (s := s1) (s' := s1.setWorker wk2) rfl rfl rfl rfl hk).1, ?_⟩,
      hc.frame (setWorker_cframe hw hm hkey (hin.trans e4.symm))⟩, ?_, ?_⟩
    · refine hw.setWorker (X := noX) rfl (WFrame.of_eq rfl rfl rfl) (NoPtr.noX _) ?_
      refine ⟨by simp [e5], by simp [e6], by simp [e7], ?_⟩
      intro tid ht; rw [e3] at ht; rw [e1, e2]; exact hok.ptr tid ht
    · intro wk' hwk'
      rw [worker?_setWorker] at hwk'
      simp only [e1, e2, hq, hw', and_self, if_true, hwk, Option.map_some, Option.some.injEq] at hwk'
      subst hwk'; exact ⟨e4, e5, e6, e7⟩
    · intro wk' hwk'
      rw [worker?_setWorker] at hwk'
      simp only [e1, e2, hq, hw', and_self, if_true, hwk, Option.map_some, Option.some.injEq] at hwk'
      subst hwk'; exact e3
  rcases h2 with ⟨_, h2 | h2⟩ | ⟨_, rfl⟩ | ⟨_, hwo, h2 | h2⟩ | ⟨_, sq, g, _, hdw, _, h2⟩
  · obtain ⟨s3, _, h3, rfl⟩ := h2
    obtain ⟨tid, t, _, _, rfl⟩ := execResponse_ok h3
    obtain ⟨r1, r2, _⟩ := reset { wk with parked := false, woken := false, drainWait := none } rfl rfl rfl hin rfl rfl rfl
    exact syncReturn_cinv (r1.2.frame (CFrame.of_same rfl rfl rfl rfl rfl)) (fun wk' e => (r2 wk' e).1)
  · obtain ⟨_, rfl⟩ := h2
    obtain ⟨r1, r2, _⟩ := reset { wk with parked := false, woken := false, drainWait := none } rfl rfl rfl hin rfl rfl rfl
    exact syncReturn_cinv (r1.2.frame (CFrame.of_same rfl rfl rfl rfl rfl)) (fun wk' e => (r2 wk' e).1)
  · obtain ⟨r1, r2, _⟩ := reset { wk with parked := false, woken := false, drainWait := none } rfl rfl rfl hin rfl rfl rfl
    exact syncReturn_cinv (r1.2.frame (CFrame.of_same rfl rfl rfl rfl rfl)) (fun wk' e => (r2 wk' e).1)
  · obtain ⟨s3, _, h3, rfl⟩ := h2
    obtain ⟨tid, t, _, _, rfl⟩ := execResponse_ok h3
    obtain ⟨_, ppk, pdw⟩ := hok.woken hwo
    obtain ⟨r1, r2, _⟩ := reset { wk with woken := false } rfl rfl rfl hin ppk rfl pdw
    exact syncReturn_cinv (r1.2.frame (CFrame.of_same rfl rfl rfl rfl rfl)) (fun wk' e => (r2 wk' e).1)
  · obtain ⟨htn, h3⟩ := h2
    obtain ⟨_, ppk, pdw⟩ := hok.woken hwo
    obtain ⟨r1, r2, r3⟩ := reset { wk with woken := false } rfl rfl rfl hin ppk rfl pdw
    refine (getNextTask_kwc h3 r2 ?_ r1).2
    intro wk' hwk'; rw [r3 wk' hwk']
    cases hwt : wk.task with
    | none => rfl
    | some x => rw [hwt] at htn; cases htn
  · have hds : wk.drainWait.isSome = true := by simp [hdw]
    obtain ⟨_, htn⟩ := hok.dwait hds
    have ppk : wk.parked = false := by
      cases hp : wk.parked with
      | false => rfl
      | true => have := (hok.parked hp).2.2.2.2.1; rw [hdw] at this; cases this
    have pwo : wk.woken = false := by
      cases hp : wk.woken with
      | false => rfl
      | true => have := (hok.woken hp).2.2; rw [hdw] at this; cases this
    obtain ⟨r1, r2, r3⟩ := reset { wk with drainWait := none } rfl rfl rfl hin ppk pwo rfl
    refine (getNextTask_kwc h2 r2 ?_ r1).2
    intro wk' hwk'; rw [r3 wk' hwk']; exact htn

/-- a `map` over the worker list that keeps identity and `inSync` -/
theorem map_proj {l : List Worker} {G : Worker → Worker} (hG : ∀ x, wkey (G x) = wkey x ∧ (G x).inSync = x.inSync) :
    (l.map G).map (fun w => (w.scq, w.id, w.inSync)) = l.map (fun w => (w.scq, w.id, w.inSync)) := by
  rw [List.map_map]
  apply List.map_congr_left
  intro x _
  obtain ⟨a, b⟩ := hG x
  simp only [wkey, Prod.mk.injEq] at a
  simp [Function.comp, a.1, a.2, b]

/-- an update that changes worker records by a key- and `inSync`-preserving map, and queues only in
fields other than identity and removability -/
theorem cframe_of_map {s s' : State} {G : Worker → Worker}
    (hG : ∀ x, wkey (G x) = wkey x ∧ (G x).inSync = x.inSync) (hc : s'.cleanup = s.cleanup)
    (hw : s'.workers = s.workers.map G) (hq : ∀ q, (s'.scq? q).map (·.mayBeRemoved) = (s.scq? q).map (·.mayBeRemoved))
    (ho : s'.ops = s.ops) (ht : s'.tasks = s.tasks) : CFrame s s' :=
  ⟨hc, by rw [hw]; exact map_proj hG, hq, ho, fun k => by simp [State.task?, ht]⟩

theorem killOp_kwc {h : Hints} {s s' : State} {now name code : Nat} (hh : killOp h s now name code = .ok s')
    (hi : KWC noEx s) : KWC noEx s' := by
  obtain ⟨s1, h1, ⟨_, rfl⟩ | ⟨op, s2, _, h2, rfl⟩⟩ := killOp_ok hh
  · have := enter_kwc hi h1
    exact ⟨KWStep.of_same (s := s1) rfl rfl rfl rfl rfl rfl this.1, this.2.frame (CFrame.of_same rfl rfl rfl rfl rfl)⟩
  · have := complete_kwc h2 (enter_kwc hi h1)
    exact ⟨KWStep.of_same (s := s2) rfl rfl rfl rfl rfl rfl this.1, this.2.frame (CFrame.of_same rfl rfl rfl rfl rfl)⟩

theorem killQueue_kwc {h : Hints} {s s' : State} {now : Nat} {q : ScqId} {code : Nat}
    (hh : killQueue h s now q code = .ok s') (hi : KWC noEx s) : KWC noEx s' := by
  obtain ⟨s1, h1, ⟨ev, _, rfl⟩ | ⟨s2, h2, rfl⟩⟩ := killQueue_ok hh
  · have := enter_kwc hi h1
    exact ⟨KWStep.of_same (s := s1) rfl rfl rfl rfl rfl rfl this.1, this.2.frame (CFrame.of_same rfl rfl rfl rfl rfl)⟩
  · have := cancelAllQueued_kwc h2 (enter_kwc hi h1)
    exact ⟨KWStep.of_same (s := s2) rfl rfl rfl rfl rfl rfl this.1, this.2.frame (CFrame.of_same rfl rfl rfl rfl rfl)⟩

theorem foldl_cleanup {α} (f : State → α → State) (hf : ∀ s a, (f s a).cleanup = s.cleanup) (l : List α) (s : State) :
    (l.foldl f s).cleanup = s.cleanup := by
  induction l generalizing s with
  | nil => rfl
  | cons a r ih => simp only [List.foldl_cons]; rw [ih, hf]

theorem scq?_setScq_removable (s : State) (sq sq' : Scq) (q : ScqId) (hsq : s.scq? q = some sq) (hid : sq'.id = sq.id)
    (hm : sq'.mayBeRemoved = sq.mayBeRemoved) (q' : ScqId) :
    ((s.setScq sq').scq? q').map (·.mayBeRemoved) = (s.scq? q').map (·.mayBeRemoved) := by
  have hidq : sq.id = q := by
    have := List.find?_some (show s.scqs.find? (fun x => x.id = q) = some sq from hsq); simpa using this
  rw [scq?_setScq]
  split
  · rename_i e
    have : q' = q := by rw [← e, hid, hidq]
    subst this
    rw [hsq]; simp [hm]
  · rfl

theorem addDrain_kwc {h : Hints} {s s' : State} {now : Nat} {q : ScqId} {p : Pattern}
    (hh : addDrain h s now q p = .ok s') (hi : KWC noEx s) : KWC noEx s' := by
  refine ⟨addDrain_kw hh hi.1, ?_⟩
  obtain ⟨s1, h1, ⟨_, rfl⟩ | ⟨sq, hsq, rfl⟩⟩ := addDrain_ok hh
  · exact (enter_kwc hi h1).2.frame (CFrame.of_same rfl rfl rfl rfl rfl)
  · obtain ⟨⟨hk, hw⟩, hc⟩ := enter_kwc hi h1
    let s0 := s1.setScq { sq with drains := if sq.drains.contains p then sq.drains else sq.drains ++ [p] }
    have hmap := foldl_workers_map (drainWake q p) (drainG q p) (wkey_drainG q p) (drainWake_workers q p)
      s1.workers s0 hw.uniq hw.uniq (fun _ h => h)
    obtain ⟨f1, f2, _, _, f5⟩ := foldl_fields (drainWake q p)
      (by intro a b; unfold drainWake; split <;> exact ⟨rfl, rfl, rfl, rfl, rfl⟩) s1.workers s0
    have fc := foldl_cleanup (drainWake q p) (by intro a b; unfold drainWake; split <;> rfl) s1.workers s0
    refine hc.frame (cframe_of_map (G := fun x => if wkey x ∈ s1.workers.map wkey then drainG q p x else x) ?_ fc hmap ?_ f2 f1)
    · intro x; split
      · exact ⟨wkey_drainG q p x, by unfold drainG; split <;> rfl⟩
      · exact ⟨rfl, rfl⟩
    · intro q'
      have : (emit (s1.workers.foldl (drainWake q p) s0) .opOk).scq? q' = s0.scq? q' := by simp [State.scq?, f5]
      rw [this]
      exact scq?_setScq_removable s1 sq { sq with drains := if sq.drains.contains p then sq.drains else sq.drains ++ [p] }
        q hsq rfl rfl q'

theorem removeDrain_kwc {h : Hints} {s s' : State} {now : Nat} {q : ScqId} {p : Pattern}
    (hh : removeDrain h s now q p = .ok s') (hi : KWC noEx s) : KWC noEx s' := by
  refine ⟨removeDrain_kw hh hi.1, ?_⟩
  obtain ⟨s1, h1, ⟨_, rfl⟩ | ⟨sq, hsq, rfl⟩⟩ := removeDrain_ok hh
  · exact (enter_kwc hi h1).2.frame (CFrame.of_same rfl rfl rfl rfl rfl)
  · refine (enter_kwc hi h1).2.frame ⟨rfl, rfl, ?_, rfl, fun _ => rfl⟩
    intro q'
    exact scq?_setScq_removable s1 sq { sq with drains := sq.drains.filter (· ≠ p), undrainGen := sq.undrainGen + 1 }
      q hsq rfl rfl q'

theorem terminate_kwc {h : Hints} {s s' : State} {now id : Nat} {p : Pattern}
    (hh : terminate h s now id p = .ok s') (hi : KWC noEx s) : KWC noEx s' := by
  refine ⟨terminate_kw hh hi.1, ?_⟩
  obtain ⟨s1, h1, h2⟩ := terminate_ok hh
  simp only at h2
  obtain ⟨⟨hk, hw⟩, hc⟩ := enter_kwc hi h1
  have hsub : ((s1.workers.filter (fun w => p.matches w.id)).map wkey).Nodup :=
    List.Nodup.sublist (List.Sublist.map _ List.filter_sublist) hw.uniq
  have hmap := foldl_workers_map termMark termG wkey_termG termMark_workers
    (s1.workers.filter (fun w => p.matches w.id)) s1 hw.uniq hsub (fun _ h => (List.mem_filter.1 h).1)
  obtain ⟨f1, f2, _, _, f5⟩ := foldl_fields termMark
    (by intro a b; unfold termMark; (repeat' split) <;> exact ⟨rfl, rfl, rfl, rfl, rfl⟩)
    (s1.workers.filter (fun w => p.matches w.id)) s1
  have fc := foldl_cleanup termMark (by intro a b; unfold termMark; (repeat' split) <;> rfl)
    (s1.workers.filter (fun w => p.matches w.id)) s1
  have fr : CFrame s1 ((s1.workers.filter (fun w => p.matches w.id)).foldl termMark s1) := by
    refine cframe_of_map (G := fun x => if wkey x ∈ (s1.workers.filter (fun w => p.matches w.id)).map wkey then termG x else x)
      ?_ fc hmap (fun q' => by simp [State.scq?, f5]) f2 f1
    intro x; split
    · exact ⟨wkey_termG x, by unfold termG; split <;> rfl⟩
    · exact ⟨rfl, rfl⟩
  rcases h2 with ⟨_, rfl⟩ | ⟨_, rfl⟩ <;> exact (hc.frame fr).frame (CFrame.of_same rfl rfl rfl rfl rfl)

theorem termWake_kwc {s s' : State} {id reason : Nat} (hh : termWake s id reason = .ok s') (hi : KWC noEx s) :
    KWC noEx s' := by
  refine ⟨termWake_kw hh hi.1, ?_⟩
  obtain ⟨tc, _, ⟨_, rfl⟩ | ⟨_, _, rfl⟩⟩ := termWake_ok hh <;> exact hi.2.frame (CFrame.of_same rfl rfl rfl rfl rfl)

theorem registerPQ_cinv (s : State) (id : Nat) (comps : List Nat) (pf : Nat) (sizes : List Nat) (bm : Nat) (bp : Int)
    (hc : CInv noEx s) : CInv noEx (registerPQ s id comps pf sizes bm bp) := by
  -- lookups: an existing queue is still found first; a new one is not removable
  have hlk : ∀ q sq', (registerPQ s id comps pf sizes bm bp).scq? q = some sq' →
      s.scq? q = some sq' ∨ (s.scq? q = none ∧ sq'.mayBeRemoved = false) := by
    intro q sq' e
    have e' : (s.scqs ++ sizes.map (fun sc => ({ id := ⟨id, sc⟩, mayBeRemoved := false, drains := [], undrainGen := 0 } : Scq))).find?
        (fun y => y.id = q) = some sq' := e
    rw [List.find?_append] at e'
    cases hs : s.scqs.find? (fun y => y.id = q) with
    | some y => rw [hs] at e'; simp at e'; exact .inl (by rw [← e']; exact hs)
    | none =>
      rw [hs] at e'; simp only [Option.none_or] at e'
      obtain ⟨_, _, rfl⟩ := List.mem_map.1 (List.mem_of_find?_eq_some e')
      exact .inr ⟨hs, rfl⟩
  have hkeep : ∀ q sq, s.scq? q = some sq → (registerPQ s id comps pf sizes bm bp).scq? q = some sq := by
    intro q sq e
    show (s.scqs ++ _).find? (fun y => y.id = q) = some sq
    rw [List.find?_append]
    have : s.scqs.find? (fun y => y.id = q) = some sq := e
    rw [this]; rfl
  refine ⟨hc.uniq, hc.wIn, hc.wOut, hc.eW, hc.eO, ?_, hc.opBg, hc.opFg, hc.opT, ?_, ?_, hc.exScq, hc.exWk⟩
  · intro q hh
    obtain ⟨⟨sq, e1, e2⟩, b⟩ := hc.eS q hh
    exact ⟨⟨sq, hkeep q sq e1, e2⟩, b⟩
  · intro q sq e hb hx
    rcases hlk q sq e with e1 | ⟨_, e2⟩
    · exact hc.scqW q sq e1 hb hx
    · rw [e2] at hb; cases hb
  · intro wk hm
    obtain ⟨sq, e⟩ := hc.wScq wk hm
    exact ⟨sq, hkeep _ sq e⟩

/-- **Every segment** preserves the cleanup accounting invariant (together with key discipline and
worker invariant). -/
theorem step_kwc {s s' : State} {g : Seg} (hstep : step s g = .ok s') (hi : KWC noEx s) : KWC noEx s' := by
  cases g with
  | register id comps pf sizes bm bp =>
    simp only [step, pure_ok] at hstep; subst hstep
    exact ⟨registerPQ_kw s id comps pf sizes bm bp hi.1, registerPQ_cinv s id comps pf sizes bm bp hi.2⟩
  | exec h now c0 d dk dnc comps pf inv prio => exact execArrive_kwc hstep hi
  | wait h now c0 name => exact waitArrive_kwc hstep hi
  | streamWake h now c0 reason => exact streamWake_kwc hstep hi
  | sync h now q comps pf w rep pi => exact syncArrive_kwc hstep hi
  | syncWake h now q w reason => exact syncWake_kwc hstep hi
  | killOp h now name code => exact killOp_kwc hstep hi
  | killQueue h now q code => exact killQueue_kwc hstep hi
  | addDrain h now q p => exact addDrain_kwc hstep hi
  | removeDrain h now q p => exact removeDrain_kwc hstep hi
  | terminate h now id p => exact terminate_kwc hstep hi
  | termWake id reason => exact termWake_kwc hstep hi
  | touch h now => exact enter_kwc hi hstep

theorem cinv_init (cfg : Cfg) : CInv noEx (State.init cfg) := by
  have hno : ∀ k, ¬ hasK (State.init cfg) k := by intro k ⟨e, he, _⟩; simp [State.init] at he
  refine ⟨by simp [State.init], ?_, ?_, ?_, ?_, ?_, ?_, ?_, ?_, ?_, ?_, (fun _ hq => nomatch hq), (fun _ _ hq => nomatch hq)⟩
  · intro wk hm; simp [State.init] at hm
  · intro wk hm; simp [State.init] at hm
  · intro q w hh; exact absurd hh (hno _)
  · intro o hh; exact absurd hh (hno _)
  · intro q hh; exact absurd hh (hno _)
  · intro o op e; simp [State.init, State.op?, alookup] at e
  · intro o op e; simp [State.init, State.op?, alookup] at e
  · intro o op e; simp [State.init, State.op?, alookup] at e
  · intro q sq e; simp [State.init, State.scq?] at e
  · intro wk hm; simp [State.init] at hm

theorem kwc_reachable {s : State} (hs : Reachable s) : KWC noEx s := by
  induction hs with
  | init cfg => exact ⟨⟨keysOK_init cfg, winv_init cfg⟩, cinv_init cfg⟩
  | step g _ hstep ih => exact step_kwc hstep ih

theorem cinv_reachable {s : State} (hs : Reachable s) : CInv noEx s := (kwc_reachable hs).2

end BbRe.Lemmas.SchedLive
