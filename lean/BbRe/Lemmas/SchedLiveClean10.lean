import BbRe.Lemmas.SchedLiveClean9
/-!
Cleanup accounting: `syncWake`, operator calls, every segment, every reachable state.
-/
namespace BbRe.Lemmas.SchedLive
open BbRe.Sched

theorem syncWake_kwc {h : Hints} {s s' : State} {now : Nat} {q : ScqId} {w : WId} {reason : Nat}
    (hh : syncWake h s now q w reason = .ok s') (hi : KWC noEx s) : KWC noEx s' := by
  refine ⟨syncWake_kw hh hi.1, ?_⟩
  obtain ⟨s1, wk, h1, hwk, hin, h2⟩ := syncWake_ok hh
  obtain ⟨⟨hk, hw⟩, hc⟩ := enter_kwc hi h1
  obtain ⟨hm, hq, hw'⟩ := worker?_mem hwk
  have hok := hw.ok wk hm
  have reset : ∀ (wk2 : Worker), wk2.scq = wk.scq → wk2.id = wk.id → wk2.task = wk.task → wk2.inSync = true →
      wk2.parked = false → wk2.woken = false → wk2.drainWait = none →
      KWC noEx (s1.setWorker wk2) ∧ SyncPre (s1.setWorker wk2) q w ∧
        (∀ wk', (s1.setWorker wk2).worker? q w = some wk' → wk'.task = wk.task) := by
    intro wk2 e1 e2 e3 e4 e5 e6 e7
    have hkey : wkey wk = wkey wk2 := by simp [wkey, e1, e2]
    refine ⟨⟨⟨(TStep.of_same (allow := True) (s := s1) (s' := s1.setWorker wk2) rfl rfl rfl rfl hk).1, ?_⟩,
      hc.frame (setWorker_cframe hw hm hkey (hin.trans e4.symm))⟩, ?_, ?_⟩
    · refine hw.setWorker (X := noX) rfl (WFrame.of_eq rfl rfl rfl) (NoPtr.noX _) ?_
      refine ⟨by simp [e5], by simp [e6], by simp [e7], ?_⟩
      intro tid ht; rw [e3] at ht; rw [e1, e2]; exact hok.ptr tid ht
    · intro wk' hwk'
      rw [worker?_setWorker] at hwk'
      simp only [e1, e2, hq, hw', and_self, if_true, hwk, Option.map_some, Option.some.injEq] at hwk'
      subst hwk'; exact ⟨e4, e5, e6, e7⟩
    · intro wk' hwk'
      rw [worker?_setWorker] at hwk'
      simp only [e1, e2, hq, hw', and_self, if_true, hwk, Option.map_some, Option.some.injEq] at hwk'
      subst hwk'; exact e3
  rcases h2 with ⟨_, h2 | h2⟩ | ⟨_, rfl⟩ | ⟨_, hwo, h2 | h2⟩ | ⟨_, sq, g, _, hdw, _, h2⟩
  · obtain ⟨s3, _, h3, rfl⟩ := h2
    obtain ⟨tid, t, _, _, rfl⟩ := execResponse_ok h3
    obtain ⟨r1, r2, _⟩ := reset { wk with parked := false, woken := false, drainWait := none } rfl rfl rfl hin rfl rfl rfl
    exact syncReturn_cinv (r1.2.frame (CFrame.of_same rfl rfl rfl rfl rfl)) (fun wk' e => (r2 wk' e).1)
  · obtain ⟨_, rfl⟩ := h2
    obtain ⟨r1, r2, _⟩ := reset { wk with parked := false, woken := false, drainWait := none } rfl rfl rfl hin rfl rfl rfl
    exact syncReturn_cinv (r1.2.frame (CFrame.of_same rfl rfl rfl rfl rfl)) (fun wk' e => (r2 wk' e).1)
  · obtain ⟨r1, r2, _⟩ := reset { wk with parked := false, woken := false, drainWait := none } rfl rfl rfl hin rfl rfl rfl
    exact syncReturn_cinv (r1.2.frame (CFrame.of_same rfl rfl rfl rfl rfl)) (fun wk' e => (r2 wk' e).1)
  · obtain ⟨s3, _, h3, rfl⟩ := h2
    obtain ⟨tid, t, _, _, rfl⟩ := execResponse_ok h3
    obtain ⟨_, ppk, pdw⟩ := hok.woken hwo
    obtain ⟨r1, r2, _⟩ := reset { wk with woken := false } rfl rfl rfl hin ppk rfl pdw
    exact syncReturn_cinv (r1.2.frame (CFrame.of_same rfl rfl rfl rfl rfl)) (fun wk' e => (r2 wk' e).1)
  · obtain ⟨htn, h3⟩ := h2
    obtain ⟨_, ppk, pdw⟩ := hok.woken hwo
    obtain ⟨r1, r2, r3⟩ := reset { wk with woken := false } rfl rfl rfl hin ppk rfl pdw
    refine (getNextTask_kwc h3 r2 ?_ r1).2
    intro wk' hwk'; rw [r3 wk' hwk']
    cases hwt : wk.task with
    | none => rfl
    | some x => rw [hwt] at htn; cases htn
  · have hds : wk.drainWait.isSome = true := by simp [hdw]
    obtain ⟨_, htn⟩ := hok.dwait hds
    have ppk : wk.parked = false := by
      cases hp : wk.parked with
      | false => rfl
      | true => have := (hok.parked hp).2.2.2.2.1; rw [hdw] at this; cases this
    have pwo : wk.woken = false := by
      cases hp : wk.woken with
      | false => rfl
      | true => have := (hok.woken hp).2.2; rw [hdw] at this; cases this
    obtain ⟨r1, r2, r3⟩ := reset { wk with drainWait := none } rfl rfl rfl hin ppk pwo rfl
    refine (getNextTask_kwc h2 r2 ?_ r1).2
    intro wk' hwk'; rw [r3 wk' hwk']; exact htn

/-- a `map` over the worker list that keeps identity and `inSync` -/
theorem map_proj {l : List Worker} {G : Worker → Worker} (hG : ∀ x, wkey (G x) = wkey x ∧ (G x).inSync = x.inSync) :
    (l.map G).map (fun w => (w.scq, w.id, w.inSync)) = l.map (fun w => (w.scq, w.id, w.inSync)) := by
  rw [List.map_map]
  apply List.map_congr_left
  intro x _
  obtain ⟨a, b⟩ := hG x
  simp only [wkey, Prod.mk.injEq] at a
  simp [Function.comp, a.1, a.2, b]

end BbRe.Lemmas.SchedLive
