import BbRe.Lemmas.SchedLiveWaiters3
import BbRe.Lemmas.SchedInvStep
import BbRe.Lemmas.SchedLiveSleep
/-!
Ingredients of the quiescence theorem (C06): background operations belong to
background tasks; `enter` and the cancelling wake-ups never fail in a reachable
state.
-/
namespace BbRe.Lemmas.SchedLive
open BbRe.Sched

/-! ### background operations belong to background tasks -/

def BgInv (s : State) : Prop :=
  ∀ o op, s.op? o = some op → op.mayExistWithoutWaiters = true → ∀ t, s.task? op.task = some t → t.background = true

theorem bgInv_step {s s' : State} {g : Seg} (hk : KeysOK s) (hb : BgInv s) (hstep : step s g = .ok s') : BgInv s' := by
  obtain ⟨_, rel⟩ := step_tstep hstep hk
  intro o op' e hm t' ht'
  by_cases hlt : o < s.nextOp
  · obtain ⟨op, e0, etask⟩ := rel.ops o op' hlt e
    have hm0 := rel.opm o op op' e0 e hm
    have hlt2 := (hk.oname o op e0).2.2
    rw [etask] at ht'
    obtain ⟨t, ht, le⟩ := rel.tasks _ t' hlt2 ht'
    rw [le.bg]; exact hb o op e0 hm0 t ht
  · exact rel.fresh o op' (by omega) e hm t' ht'

theorem bgInv_reachable {s : State} (hs : Reachable s) : BgInv s := by
  induction hs with
  | init cfg => intro o op e; simp [State.init, State.op?] at e
  | step g hr hstep ih => exact bgInv_step (keysOK_reachable hr) ih hstep

/-! ### `enter` never fails -/

/-- the only errors the cleanup loop could raise: dangling pointers (excluded by the invariants) -/
def CleanErr (e : String) : Prop :=
  e = "complete: no task" ∨ e = "complete: task without learner" ∨ e = "removeOp: no task"

theorem bind_err {α β} (x : M α) (f : α → M β) (e : String) :
    (x >>= f) = .error e ↔ x = .error e ∨ ∃ a, x = .ok a ∧ f a = .error e := by
  cases x <;> simp [bind, Except.bind]

theorem complete_fail_err {h : Hints} {s : State} {tid : Nat} {r : Resp} {e : String} (hns : ¬ isSucc r)
    (hh : complete h s tid r false = .error e) : CleanErr e := by
  rw [complete_eq] at hh
  simp only [pure, Except.pure] at hh
  repeat' split at hh
  all_goals first
    | (cases hh; done)
    | (simp only [throw, throwThe, MonadExceptOf.throw] at hh; injection hh with hh; first | exact .inl hh.symm | exact .inr (.inl hh.symm))
    | exact absurd (by assumption) hns
    | (exfalso; exact Bool.false_ne_true ‹false = true›)
    | (simp at hh; done)

theorem foldlM_err {α} (P : String → Prop) (f : State → α → M State)
    (hf : ∀ s a e, f s a = .error e → P e) : ∀ (l : List α) (s : State) (e : String), l.foldlM f s = .error e → P e := by
  intro l
  induction l with
  | nil => intro s e h; simp [List.foldlM, pure, Except.pure] at h
  | cons a r ih =>
    intro s e h
    simp only [List.foldlM, bind_err] at h
    rcases h with h | ⟨s1, _, h⟩
    · exact hf _ _ _ h
    · exact ih _ _ h

theorem cancelAllQueued_err {h : Hints} {s : State} {q : ScqId} {r : Resp} {e : String} (hns : ¬ isSucc r)
    (hh : cancelAllQueued h s q r = .error e) : CleanErr e := by
  unfold cancelAllQueued at hh
  exact foldlM_err CleanErr _ (fun _ _ _ h' => complete_fail_err hns h') _ _ _ hh

theorem removeScq_err {h : Hints} {s : State} {q : ScqId} {e : String} (hh : removeScq h s q = .error e) : CleanErr e := by
  unfold removeScq at hh
  rw [bind_err] at hh
  rcases hh with hh | ⟨s1, _, hh⟩
  · exact cancelAllQueued_err (by simp [isSucc, cUnavailable, cOK]) hh
  · simp only [pure, Except.pure] at hh; split at hh <;> cases hh

theorem removeStaleWorker_err {h : Hints} {s : State} {q : ScqId} {w : WId} {rt : Nat} {e : String}
    (hh : removeStaleWorker h s q w rt = .error e) : CleanErr e := by
  unfold removeStaleWorker at hh
  split at hh
  · rename_i wk _
    cases ht : wk.task with
    | none =>
      simp only [ht, bind_err, pure, Except.pure] at hh
      rcases hh with hh | ⟨s1, _, hh⟩
      · cases hh
      · (repeat' split at hh) <;> cases hh
    | some t =>
      simp only [ht, bind_err] at hh
      rcases hh with hh | ⟨s1, _, hh⟩
      · exact complete_fail_err (by simp [isSucc, cUnavailable, cOK]) hh
      · simp only [pure, Except.pure] at hh; (repeat' split at hh) <;> cases hh
  · simp [pure, Except.pure] at hh

theorem removeOp_err {h : Hints} {s : State} {o : Nat} {e : String} (hh : removeOp h s o = .error e) : CleanErr e := by
  unfold removeOp at hh
  simp only [bind, Except.bind, pure, Except.pure] at hh
  repeat' split at hh
  all_goals first
    | (cases hh; done)
    | (simp only [throw, throwThe, MonadExceptOf.throw] at hh; injection hh with hh; exact .inr (.inr hh.symm))
    | (cases hh; exact complete_fail_err (h := h) (r := ⟨cCanceled, 0, 0, .noWaiters⟩) (by simp [isSucc, cCanceled, cOK]) (by assumption))

theorem callback_err {h : Hints} {s : State} {c : CleanupEntry} {e : String} (hh : callback h s c = .error e) :
    CleanErr e := by
  unfold callback at hh
  split at hh
  · exact removeStaleWorker_err hh
  · exact removeOp_err hh
  · exact removeScq_err hh

theorem runCleanup_err {h : Hints} (f : Nat) (s : State) {e : String} (hh : runCleanup h f s = .error e) : CleanErr e := by
  induction f generalizing s with
  | zero => rw [runCleanup_zero] at hh; cases hh
  | succ f ih =>
    rw [runCleanup_succ] at hh
    split at hh
    · cases hh
    · rw [bind_err] at hh
      rcases hh with hh | ⟨s1, _, hh⟩
      · exact callback_err hh
      · exact ih s1 hh

theorem cleanErr_not_ok {e : String} (h1 : CleanErr e) (h2 : BbRe.Lemmas.SchedInv.OkErr e) : False := by
  rcases h1 with rfl | rfl | rfl <;> simp [BbRe.Lemmas.SchedInv.OkErr, BbRe.Lemmas.SchedInv.okErrors] at h2

/-- **`enter` never fails** in a reachable state (its only possible errors are dangling pointers, which
the structural invariant excludes). -/
theorem enter_total {s : State} (hs : Reachable s) (h : Hints) (t : Nat) : ∃ s', enter h s t = .ok s' := by
  cases he : enter h s t with
  | ok s' => exact ⟨s', rfl⟩
  | error e =>
    exfalso
    have hok := BbRe.Lemmas.SchedInv.wp_of_error (BbRe.Lemmas.SchedInv.enter_spec (h := h) (t := t)
      (BbRe.Lemmas.SchedInv.inv_reachable hs)) he
    have hce : CleanErr e := by
      unfold enter at he
      split at he
      · exact runCleanup_err _ _ he
      · cases he
    exact cleanErr_not_ok hce hok

/-- every `touch` segment succeeds -/
theorem touch_ok {s : State} (hs : Reachable s) (h : Hints) (t : Nat) :
    ∃ s', step s (.touch h t) = .ok s' ∧ run s [.touch h t] = s' := by
  obtain ⟨s', e⟩ := enter_total hs h t
  exact ⟨s', e, by simp [run, step, touch, e]⟩

/-! ### the cancelling wake-ups succeed -/

theorem streamWake_cancel {s : State} (hs : Reachable s) (h : Hints) {c : Nat} {st : Stream}
    (hst : s.streams.find? (fun x => x.client = c) = some st) :
    ∃ op, s.op? st.op = some op ∧ op.waiters ≠ 0 ∧
      step s (.streamWake h s.now c 2) = .ok (leaveS s c st op cCanceled) := by
  obtain ⟨op, t, hop, hw, _⟩ := stream_op_exists hs (List.mem_of_find?_eq_some hst)
  refine ⟨op, hop, by omega, ?_⟩
  have hw' : ¬ op.waiters = 0 := by omega
  show streamWake h s s.now c 2 = _
  rw [(streamWake_timer h s c st hst).2]
  unfold streamLeave
  simp only [hst, hop, hw', bind, Except.bind, pure, Except.pure, if_false]
  rfl

theorem syncWake_cancel (s : State) (h : Hints) {q : ScqId} {w : WId} {wk : Worker}
    (hwk : s.worker? q w = some wk) (hin : wk.inSync = true) :
    step s (.syncWake h s.now q w 2) =
      .ok (syncReturn (emit (s.setWorker { wk with parked := false, woken := false, drainWait := none })
        (.syncErr q w cCanceled)) q w) := by
  show syncWake h s s.now q w 2 = _
  unfold syncWake
  simp only [enter_now, bind, Except.bind, hwk, hin, pure, Except.pure, Bool.not_true, Bool.false_eq_true, if_false]

theorem termWake_cancel (s : State) {id : Nat} {tc : TermCall} (htc : s.terms.find? (fun t => t.id = id) = some tc) :
    step s (.termWake id 2) = .ok (emit (dropTerm s id) (.termRet id cCanceled)) := by
  show termWake s id 2 = _
  unfold termWake
  simp only [bind, Except.bind, htc, pure, Except.pure, if_true]
  rfl

end BbRe.Lemmas.SchedLive
