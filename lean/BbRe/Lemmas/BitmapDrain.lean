import BbRe.Lemmas.BitmapSpec
/-! Counting free sectors: repeated allocation hands out the whole capacity. -/
namespace BbRe.Lemmas.Bitmap
open BbRe.Bitmap BbRe BbRe.AllocSpec

theorem freeCount_le (a : Abs) (n : Nat) : freeCount a n ≤ n := by
  induction n with
  | zero => simp [freeCount]
  | succ k ih => unfold freeCount; split <;> omega

theorem freeCount_mono {a a' : Abs} (h : ∀ s, a s = true → a' s = true) (n : Nat) :
    freeCount a' n ≤ freeCount a n := by
  induction n with
  | zero => simp [freeCount]
  | succ k ih =>
    unfold freeCount
    by_cases ha : a (k + 1) = true
    · simp [ha, h _ ha]; exact ih
    · simp at ha
      simp only [ha]
      split <;> simp <;> omega

theorem freeCount_lt {a a' : Abs} (h : ∀ s, a s = true → a' s = true) {n s0 : Nat}
    (h1 : 1 ≤ s0) (h2 : s0 ≤ n) (ha : a s0 = false) (ha' : a' s0 = true) :
    freeCount a' n < freeCount a n := by
  induction n with
  | zero => omega
  | succ k ih =>
    unfold freeCount
    by_cases hs : s0 = k + 1
    · subst hs
      have := freeCount_mono h k
      simp [ha, ha']; omega
    · have := ih (by omega)
      by_cases hk : a (k + 1) = true
      · simp [hk, h _ hk]; exact this
      · simp at hk
        simp only [hk]
        split <;> simp <;> omega

theorem freeCount_eq_zero {a : Abs} {n : Nat} (h : ∀ s, 1 ≤ s → s ≤ n → a s = true) : freeCount a n = 0 := by
  induction n with
  | zero => simp [freeCount]
  | succ k ih =>
    unfold freeCount
    rw [ih (fun s s1 s2 => h s s1 (by omega)), h (k + 1) (by omega) (by omega)]; simp

theorem full_of_freeCount_eq_zero {a : Abs} {n : Nat} (h : freeCount a n = 0) :
    ∀ s, 1 ≤ s → s ≤ n → a s = true := by
  induction n with
  | zero => intro s s1 s2; omega
  | succ k ih =>
    unfold freeCount at h
    intro s s1 s2
    by_cases hs : s = k + 1
    · subst hs
      by_cases hk : a (k + 1) = true
      · exact hk
      · simp at hk; simp [hk] at h
    · exact ih (by omega) s s1 (by omega)

/-- `k` successive calls of `AllocateContiguous(max)` (failures change nothing). -/
def allocRepeat (st : State) (max : Nat) : Nat → State
  | 0 => st
  | k + 1 => allocRepeat (alloc st max).1 max k

theorem allocRepeat_full {n : Nat} (max : Nat) (hmax : 1 ≤ max) (k : Nat) :
    ∀ st, Inv n st → freeCount (abs n st) n ≤ k →
      Inv n (allocRepeat st max k) ∧ freeCount (abs n (allocRepeat st max k)) n = 0 := by
  induction k with
  | zero => intro st hinv hk; exact ⟨hinv, by simpa [allocRepeat] using hk⟩
  | succ k ih =>
    intro st hinv hk
    unfold allocRepeat
    have hinv' := alloc_inv n st max hinv hmax
    apply ih _ hinv'
    cases h : (alloc st max).2 with
    | none =>
      have hf := alloc_fail_spec n st max h
      have : freeCount (abs n (alloc st max).1) n = 0 :=
        freeCount_eq_zero (fun s s1 s2 => by rw [hf.post s]; exact hf.full s s1 s2)
      omega
    | some r =>
      obtain ⟨first, count⟩ := r
      have hok := alloc_ok_spec n st max first count hinv hmax h
      have := freeCount_lt (a := abs n st) (a' := abs n (alloc st max).1)
        (fun s hs => by rw [hok.post s, hs]; rfl) (n := n) (s0 := first) hok.first_pos
        (by have := hok.in_range; have := hok.count_pos; omega)
        (hok.were_free first (by omega) (by have := hok.count_pos; omega))
        (by rw [hok.post first]; simp [inRun]; exact Or.inr hok.count_pos)
      omega

end BbRe.Lemmas.Bitmap
