import BbRe.Model.Fair
/-!
`task.schedule` hands a new task to a parked worker that is at least as closely related to the
task's invocations as every other parked worker (`handoffTargets`, bottom-up search).
-/
namespace BbRe.Lemmas.Fair
open BbRe.Fair

/-! ### paths -/

theorem nodeAt_append (t : Inv) (p q : List Nat) :
    nodeAt t (p ++ q) = (nodeAt t p).bind fun n => nodeAt n q := by
  induction p generalizing t with
  | nil => rfl
  | cons k p ih =>
    simp only [List.cons_append, nodeAt]
    cases t.child k with
    | none => rfl
    | some c => exact ih c

theorem nodeAt_take (t : Inv) (p : List Nat) (n : Inv) (h : nodeAt t p = some n) (j : Nat) :
    ∃ m, nodeAt t (p.take j) = some m ∧ nodeAt m (p.drop j) = some n := by
  have := nodeAt_append t (p.take j) (p.drop j)
  rw [List.take_append_drop, h] at this
  cases hm : nodeAt t (p.take j) with
  | none => rw [hm] at this; cases this
  | some m => rw [hm] at this; exact ⟨m, rfl, this.symm⟩

theorem commonPrefixLen_le_left : ∀ (p q : List Nat), commonPrefixLen p q ≤ p.length
  | [], _ => by simp [commonPrefixLen]
  | _ :: _, [] => by simp [commonPrefixLen]
  | a :: p, b :: q => by
    unfold commonPrefixLen
    split
    · have := commonPrefixLen_le_left p q; simp; omega
    · simp

theorem commonPrefixLen_le_right : ∀ (p q : List Nat), commonPrefixLen p q ≤ q.length
  | [], _ => by simp [commonPrefixLen]
  | _ :: _, [] => by simp [commonPrefixLen]
  | a :: p, b :: q => by
    unfold commonPrefixLen
    split
    · have := commonPrefixLen_le_right p q; simp; omega
    · simp

theorem take_commonPrefixLen : ∀ (p q : List Nat),
    p.take (commonPrefixLen p q) = q.take (commonPrefixLen p q)
  | [], _ => by simp [commonPrefixLen]
  | _ :: _, [] => by simp [commonPrefixLen]
  | a :: p, b :: q => by
    unfold commonPrefixLen
    split
    · rename_i h; subst h
      simp only [List.take_succ_cons]
      rw [take_commonPrefixLen p q]
    · simp

theorem le_commonPrefixLen : ∀ (n : Nat) (p q : List Nat), n ≤ p.length → n ≤ q.length →
    p.take n = q.take n → n ≤ commonPrefixLen p q
  | 0, _, _, _, _, _ => Nat.zero_le _
  | n + 1, [], _, h, _, _ => by simp at h
  | n + 1, _ :: _, [], _, h, _ => by simp at h
  | n + 1, a :: p, b :: q, hp, hq, he => by
    simp only [List.take_succ_cons, List.cons.injEq] at he
    unfold commonPrefixLen
    rw [if_pos he.1]
    have := le_commonPrefixLen n p q (by simpa using hp) (by simpa using hq) he.2
    omega

/-! ### parked workers -/

/-- Worker `w` is parked (blocked in `Synchronize`, `idleSynchronizingWorkers`) at the invocation
with path `q`. -/
def Parked (t : Inv) (q : List Nat) (w : Nat) : Prop := ∃ n, nodeAt t q = some n ∧ w ∈ n.parked

/-- Every child that has parked workers at or below it is listed in its parent's
`idleSynchronizingWorkersChildren` (checked on the real structures by the verif hook). -/
def ParkedListed (t : Inv) : Prop :=
  ∀ p n, nodeAt t p = some n → ∀ k c, n.child k = some c → c.hasParked = true → k ∈ n.parkedKids

theorem hasParked_of_below (t : Inv) (hl : ParkedListed t) : ∀ (q p : List Nat) (n n' : Inv),
    nodeAt t p = some n → nodeAt n q = some n' → n'.parked ≠ [] → n.hasParked = true := by
  intro q
  induction q with
  | nil =>
    intro p n n' _ hq hne
    simp only [nodeAt, Option.some.injEq] at hq
    subst hq
    unfold Inv.hasParked
    cases hp : n.parked with
    | nil => exact absurd hp hne
    | cons _ _ => rfl
  | cons k q ih =>
    intro p n n' hp hq hne
    simp only [nodeAt] at hq
    cases hc : n.child k with
    | none => rw [hc] at hq; cases hq
    | some c =>
      rw [hc] at hq
      have hpc : nodeAt t (p ++ [k]) = some c := by
        rw [nodeAt_append, hp]
        simp only [Option.bind_some, nodeAt, hc]
      have := ih (p ++ [k]) c n' hpc hq hne
      have hk := hl p n hp k c hc this
      unfold Inv.hasParked
      cases hpk : n.parkedKids with
      | nil => rw [hpk] at hk; cases hk
      | cons _ _ => simp

theorem descendParked_parked : ∀ (fuel : Nat) (n : Inv) (w : Nat), descendParked fuel n = some w →
    ∃ q n', nodeAt n q = some n' ∧ w ∈ n'.parked := by
  intro fuel
  induction fuel with
  | zero => intro n w h; cases h
  | succ f ih =>
    intro n w h
    unfold descendParked at h
    cases hp : n.parked with
    | cons w' rest =>
      rw [hp] at h
      simp only [Option.some.injEq] at h
      subst h
      exact ⟨[], n, rfl, by rw [hp]; exact List.mem_cons_self⟩
    | nil =>
      rw [hp] at h
      simp only [] at h
      cases hk : n.parkedKids with
      | nil => rw [hk] at h; cases h
      | cons k _ =>
        rw [hk] at h
        simp only [] at h
        cases hc : n.child k with
        | none => rw [hc] at h; cases h
        | some c =>
          rw [hc] at h
          obtain ⟨q, n', hq, hw⟩ := ih c w h
          exact ⟨k :: q, n', by simp only [nodeAt, hc]; exact hq, hw⟩

theorem mem_roundNodes (t : Inv) (invs : List (List Nat)) (r : Nat) (n : Inv) :
    n ∈ roundNodes t invs r ↔ ∃ p ∈ invs, r ≤ p.length ∧ nodeAt t (p.take (p.length - r)) = some n := by
  unfold roundNodes
  rw [List.mem_filterMap]
  constructor
  · rintro ⟨p, hp, h⟩
    split at h
    · rename_i hr; exact ⟨p, hp, hr, h⟩
    · cases h
  · rintro ⟨p, hp, hr, h⟩
    exact ⟨p, hp, by rw [if_pos hr]; exact h⟩

/-- The loop of `schedule`: when no invocation examined in earlier rounds had parked workers at or
below it, a worker chosen from round `r` on is at distance `≤ r`, and every parked worker is at
distance `≥ r`, from the task's invocations. -/
theorem handoffAux_spec (t : Inv) (invs : List (List Nat)) (depth : Nat) (hl : ParkedListed t)
    (hv : ∀ p ∈ invs, ∃ n, nodeAt t p = some n) :
    ∀ (fuel r : Nat) (w : Nat),
      (∀ r', r' < r → ∀ p ∈ invs, r' ≤ p.length → ∀ n, nodeAt t (p.take (p.length - r')) = some n →
        n.hasParked = false) →
      w ∈ handoffAux t invs depth fuel r →
      ∃ p q r₀, p ∈ invs ∧ Parked t q w ∧ dist p q ≤ r₀ ∧
        ∀ p' q' w', p' ∈ invs → Parked t q' w' → r₀ ≤ dist p' q' := by
  intro fuel
  induction fuel with
  | zero => intro r w _ h; cases h
  | succ f ih =>
    intro r w hinv h
    unfold handoffAux at h
    simp only [] at h
    by_cases hhits : ((roundNodes t invs r).filter Inv.hasParked).isEmpty = true
    · rw [if_pos hhits] at h
      split at h
      · cases h
      · apply ih (r + 1) w ?_ h
        intro r' hr' p hp hrp n hn
        by_cases hlt : r' < r
        · exact hinv r' hlt p hp hrp n hn
        · have : r' = r := by omega
          subst this
          cases hpk : n.hasParked with
          | false => rfl
          | true =>
            have : n ∈ (roundNodes t invs r').filter Inv.hasParked :=
              List.mem_filter.mpr ⟨(mem_roundNodes t invs r' n).mpr ⟨p, hp, hrp, hn⟩, hpk⟩
            rw [List.isEmpty_iff] at hhits
            rw [hhits] at this
            cases this
    · rw [if_neg hhits] at h
      obtain ⟨n, hnh, hdesc⟩ := List.mem_filterMap.mp h
      obtain ⟨hnr, _⟩ := List.mem_filter.mp hnh
      obtain ⟨p, hp, hrp, hn⟩ := (mem_roundNodes t invs r n).mp hnr
      obtain ⟨q2, n', hq2, hw⟩ := descendParked_parked depth n w hdesc
      refine ⟨p, p.take (p.length - r) ++ q2, r, hp, ⟨n', ?_, hw⟩, ?_, ?_⟩
      · rw [nodeAt_append, hn]; exact hq2
      · -- the examined invocation is a common ancestor
        have hlen : (p.take (p.length - r)).length = p.length - r := by simp
        have hcp := le_commonPrefixLen (p.length - r) p (p.take (p.length - r) ++ q2) (by omega)
          (by simp)
          (by
            rw [List.take_append_of_le_length (by omega)]
            rw [List.take_take]; simp)
        unfold dist
        omega
      · intro p' q' w' hp' hparked
        obtain ⟨n'', hq', hw'⟩ := hparked
        -- otherwise an earlier round would have found the ancestor of q' on the path p'
        cases Nat.lt_or_ge (dist p' q') r with
        | inr hge => exact hge
        | inl hlt =>
          exfalso
          have hcl := commonPrefixLen_le_left p' q'
          have hcr := commonPrefixLen_le_right p' q'
          obtain ⟨np', hnp'⟩ := hv p' hp'
          obtain ⟨m, hm, _⟩ := nodeAt_take t p' np' hnp' (commonPrefixLen p' q')
          obtain ⟨m', hm', hdrop⟩ := nodeAt_take t q' n'' hq' (commonPrefixLen p' q')
          rw [← take_commonPrefixLen p' q', hm] at hm'
          have hmm : m = m' := Option.some.inj hm'
          subst hmm
          have hpk := hasParked_of_below t hl _ _ m n'' hm hdrop (by
            intro he; rw [he] at hw'; cases hw')
          have hd : p'.length - dist p' q' = commonPrefixLen p' q' := by unfold dist; omega
          have := hinv (dist p' q') hlt p' hp' (by unfold dist; omega) m (by rw [hd]; exact hm)
          rw [hpk] at this
          cases this

end BbRe.Lemmas.Fair
