import BbRe.Lemmas.SchedLiveAssign
/-!
Sleepers wake (C06 `every_sleeper_wakes`, C02 `no_lost_wakeup` for workers):
when the wake-up condition of a blocked call holds, the guards of its wake
segment pass — the segment continues with the body of the loop and cannot be
rejected with one of the "woke up without …" mismatches.
-/
namespace BbRe.Lemmas.SchedLive
open BbRe.Sched

theorem enter_now (h : Hints) (s : State) : enter h s s.now = .ok s := by
  unfold enter; simp [pure, Except.pure]

/-- a worker whose wakeup channel is closed continues: it executes the task it was handed, or loops -/
theorem syncWake_woken (h : Hints) (s : State) (q : ScqId) (w : WId) (wk : Worker)
    (hwk : s.worker? q w = some wk) (hin : wk.inSync = true) (hwo : wk.woken = true) :
    syncWake h s s.now q w 0 =
      if wk.task.isSome then (do let s2 ← execResponse (s.setWorker { wk with woken := false }) wk; pure (syncReturn s2 q w))
      else getNextTask h (s.setWorker { wk with woken := false }) q w false true := by
  unfold syncWake
  simp only [enter_now, bind, Except.bind, hwk, hin, hwo, Bool.not_true, Bool.false_eq_true, if_false, pure, Except.pure]

/-- a worker waiting for an undrain whose snapshot is stale re-evaluates the drains -/
theorem syncWake_undrained (h : Hints) (s : State) (q : ScqId) (w : WId) (wk : Worker) (sq : Scq) (g : Nat)
    (hwk : s.worker? q w = some wk) (hin : wk.inSync = true) (hsq : s.scq? q = some sq)
    (hdw : wk.drainWait = some g) (hg : g ≠ sq.undrainGen) :
    syncWake h s s.now q w 3 = getNextTask h (s.setWorker { wk with drainWait := none }) q w false true := by
  unfold syncWake
  simp only [enter_now, bind, Except.bind, hwk, hin, Bool.not_true, Bool.false_eq_true, if_false, hsq, hdw, hg]

/-- the timeout of a blocked `Synchronize` always returns -/
theorem syncWake_timeout (h : Hints) (s : State) (q : ScqId) (w : WId) (wk : Worker)
    (hwk : s.worker? q w = some wk) (hin : wk.inSync = true) (hnt : wk.task = none) :
    syncWake h s s.now q w 1 =
      .ok (syncReturn (emit (s.setWorker { wk with parked := false, woken := false, drainWait := none }) (.syncIdle q w s.now)) q w) := by
  unfold syncWake
  simp only [enter_now, bind, Except.bind, hwk, hin, Bool.not_true, Bool.false_eq_true, if_false, hnt, Option.isSome_none,
    pure, Except.pure]
  rfl

/-- a parked stream whose task changed generation continues with `streamSend` -/
theorem streamWake_changed (h : Hints) (s : State) (c : Nat) (st : Stream) (op : Op) (t : Task)
    (hst : s.streams.find? (fun x => x.client = c) = some st) (hop : s.op? st.op = some op)
    (ht : s.task? op.task = some t) (hg : t.gen ≠ st.snap) :
    streamWake h s s.now c 0 = streamSend s c st.op := by
  unfold streamWake
  simp only [enter_now, bind, Except.bind, hst, hop, ht, hg, if_true, if_false]
  simp

/-- the update timer and the cancellation of a parked stream need no condition -/
theorem streamWake_timer (h : Hints) (s : State) (c : Nat) (st : Stream)
    (hst : s.streams.find? (fun x => x.client = c) = some st) :
    streamWake h s s.now c 1 = streamSend s c st.op ∧ streamWake h s s.now c 2 = streamLeave s c cCanceled := by
  unfold streamWake
  simp only [enter_now, bind, Except.bind, hst]
  simp

/-- a blocked `TerminateWorkers` call all of whose captured tasks have moved on returns OK -/
theorem termWake_stale (s : State) (id : Nat) (tc : TermCall)
    (htc : s.terms.find? (fun t => t.id = id) = some tc)
    (hst : ∀ tg ∈ tc.waits, ∀ tk, s.task? tg.1 = some tk → tk.gen > tg.2) :
    termWake s id 0 = .ok (emit (dropTerm s id) (.termRet id cOK)) := by
  unfold termWake
  simp only [bind, Except.bind, htc, pure, Except.pure]
  split
  · rename_i h2; cases h2
  · split
    · rename_i hb
      exfalso
      simp only [Bool.not_eq_true', List.all_eq_false] at hb
      obtain ⟨⟨t, g⟩, hm, hf⟩ := hb
      apply hf
      simp only
      have e : ({ s with terms := s.terms.filter (fun t => t.id ≠ id) } : State).task? t = s.task? t := rfl
      rw [e]
      cases hl : s.task? t with
      | none => rfl
      | some tk => simpa using hst (t, g) hm tk hl
    · rfl

/-- **The hand-off is signalled.**  When `task.schedule` hands the task to a parked worker, that worker
afterwards holds the task, is no longer queued as idle and its wakeup channel is closed. -/
theorem schedule_handoff {h : Hints} {s s' : State} {tid : Nat} (hh : schedule h s tid = .ok s') (hw : WInv s)
    (hid : ∀ t, s.task? tid = some t → t.id = tid) :
    s'.assigned = s.assigned ∨
    ∃ q w wk, s'.assigned = (q, w, tid) :: s.assigned ∧ s'.worker? q w = some wk ∧ wk.task = some tid ∧
      wk.parked = false ∧ wk.woken = true ∧ wk.inSync = true := by
  obtain ⟨t, h0, ⟨_, rfl⟩ | ⟨_, w0, w1, hhw, hpk, hw1, hw1t, htw, rfl⟩⟩ := schedule_ok hh
  · exact .inl rfl
  · have hm := hintedWorker_mem hhw
    obtain ⟨p1, _⟩ := (hw.ok w0 hm).parked hpk
    have hlk : s.worker? w0.scq w0.id = some w0 := worker?_of_mem hw.uniq hm
    have e1 : w1 = { w0 with parked := false, woken := true } := by
      simp only [wakeWorker, worker?_setWorker, and_self, if_true, hlk, Option.map_some, Option.some.injEq] at hw1
      exact hw1.symm
    subst e1
    refine .inr ⟨w0.scq, w0.id, { w0 with parked := false, woken := true, task := some t.id }, ?_, ?_, ?_, rfl, rfl, p1⟩
    · simp [hid t h0]
    · have : (assignS (wakeWorker s w0) { w0 with parked := false, woken := true } t).workers =
          (s.setWorker { w0 with parked := false, woken := true, task := some t.id }).workers := by
        simp only [assignS_workers, wakeWorker]; exact setWorker_twice s _ _ rfl
      rw [worker?_congr this, worker?_setWorker]; simp [hlk]
    · simp [hid t h0]

end BbRe.Lemmas.SchedLive
