import BbRe.Lemmas.FilePoolHistory
/-!
`spec_step`: every step of the model is a step of the byte-array specification
(`SpecStepL`) between the abstractions of the states before and after.
-/
namespace BbRe.Lemmas.FilePool
open BbRe.FilePool BbRe.ByteFile

theorem step_none {st : State} {i : Nat} (hf : st.file? i = none) (o : Oracle) :
    (∀ off n, step st (.read i off n) o = (st, .noFile)) ∧ (∀ off p, step st (.write i off p) o = (st, .noFile)) ∧
      (∀ sz, step st (.trunc i sz) o = (st, .noFile)) ∧ (∀ off d, step st (.seek i off d) o = (st, .noFile)) ∧
      step st (.len i) o = (st, .noFile) ∧ step st (.close i) o = (st, .noFile) := by
  refine ⟨fun _ _ => ?_, fun _ _ => ?_, fun _ => ?_, fun _ _ => ?_, ?_, ?_⟩ <;>
    (unfold step; dsimp only; rw [hf])

theorem sameExcept_refl (i : Option Nat) (s : SpecState) : SameExcept i s s :=
  ⟨rfl, fun _ _ => OEqv.refl _⟩

theorem sameExcept_none_of {i : Nat} {s s' : SpecState} (hT : SameExcept (some i) s s')
    (hi : OEqv s[i]? s'[i]?) : SameExcept none s s' := by
  refine ⟨hT.1, fun j _ => ?_⟩
  by_cases hji : j = i
  · subst hji; exact hi
  · exact hT.2 j (fun e => hji (Option.some.inj e).symm)

theorem file?_after_set {st : State} {i : Nat} {f f' : File} (hf : st.file? i = some f) (e : Env)
    (hc : f'.closed = false) :
    ({ st.put e with files := st.files.set i f' } : State).file? i = some f' := by
  have hfi := file?_some hf
  have hlen : i < st.files.length := (List.getElem?_eq_some_iff.mp hfi.1).1
  unfold State.file?
  dsimp only
  simp only [List.getElem?_set, hlen, ↓reduceIte]
  rw [hc]; rfl

theorem spec_step_noFile {st : State} {i : Nat} (hf : st.file? i = none) (op : Op) (o : Oracle)
    (hop : (∃ off n, op = .read i off n) ∨ (∃ off p, op = .write i off p) ∨ (∃ sz, op = .trunc i sz) ∨
      (∃ off d, op = .seek i off d) ∨ op = .len i ∨ op = .close i) :
    SpecStepL (absFiles st) op o (step st op o).2 (absFiles (step st op o).1) := by
  obtain ⟨n1, n2, n3, n4, n5, n6⟩ := step_none hf o
  have hs := absFiles_notopen hf
  left
  rcases hop with ⟨off, n, rfl⟩ | ⟨off, p, rfl⟩ | ⟨sz, rfl⟩ | ⟨off, d, rfl⟩ | rfl | rfl
  · rw [n1]; unfold SpecStep; dsimp only
    refine ⟨sameExcept_refl _ _, ?_⟩
    rcases hs with h | h <;> rw [h]
  · rw [n2]; unfold SpecStep; dsimp only
    rcases hs with h | h <;> rw [h] <;> exact ⟨rfl, sameExcept_refl _ _⟩
  · rw [n3]; unfold SpecStep; dsimp only
    rcases hs with h | h <;> rw [h] <;> exact ⟨rfl, sameExcept_refl _ _⟩
  · rw [n4]; unfold SpecStep; dsimp only
    refine ⟨sameExcept_refl _ _, ?_⟩
    rcases hs with h | h <;> rw [h]
  · rw [n5]; unfold SpecStep; dsimp only
    refine ⟨sameExcept_refl _ _, ?_⟩
    rcases hs with h | h <;> rw [h]
  · rw [n6]; unfold SpecStep; dsimp only
    rcases hs with h | h <;> rw [h] <;> exact ⟨rfl, sameExcept_refl _ _⟩

theorem spec_step_read {st : State} (h2 : Inv2 st) {i : Nat} {f : File} (hf : st.file? i = some f) (off : Int)
    (n : Nat) (o : Oracle) :
    SpecStepL (absFiles st) (.read i off n) o (step st (.read i off n) o).2
      (absFiles (step st (.read i off n) o).1) := by
  have hstep : step st (.read i off n) o = finish (readAt st.cfg f (st.env o) off n).1
      (st.put (readAt st.cfg f (st.env o) off n).1)
      (.read (readAt st.cfg f (st.env o) off n).2.1 (readAt st.cfg f (st.env o) off n).2.2) := by
    unfold step; dsimp only; rw [hf]
  rw [hstep]
  refine specStepL_of ?_ (finish_snd _ _ _)
  rw [finish_fst]
  unfold SpecStep
  dsimp only
  rw [absFiles_open hf]
  dsimp only
  refine ⟨sameExcept_none_of_eq rfl (readAt_dev _ _ _ _ _) rfl, ?_⟩
  by_cases hneg : off < 0
  · rw [if_pos hneg]; unfold readAt; rw [if_pos hneg]
  · rw [if_neg hneg]
    obtain ⟨ofs, rfl⟩ : ∃ ofs : Nat, off = (ofs : Int) := ⟨off.toNat, by omega⟩
    rw [Int.toNat_natCast]
    obtain ⟨p1, p2⟩ := readAt_prefix (c := st.cfg) (f := f) (e := st.env o) ofs n h2.inv.ssPos
    refine ⟨_, _, rfl, p1, p2, fun hdr hhr => ?_⟩
    obtain ⟨r1, r2, _⟩ := readAt_refines (c := st.cfg) (f := f) (e := st.env o) ofs n h2.inv.ssPos hdr hhr
    exact ⟨r1, r2⟩

theorem spec_step_write {st : State} (h2 : Inv2 st) {i : Nat} {f : File} (hf : st.file? i = some f) (off : Int)
    (p : List FilePool.Byte) (o : Oracle) :
    SpecStepL (absFiles st) (.write i off p) o (step st (.write i off p) o).2
      (absFiles (step st (.write i off p) o).1) := by
  have h := h2.inv
  have hfi := file?_some hf
  have hP := inv_part h hfi.1
  have hT := sameExcept_target h (.write i off p) o (by intro _ _ hc; cases hc)
  have hstep : step st (.write i off p) o = finish (writeAt st.cfg f (st.env o) p off).2.1
      { st.put (writeAt st.cfg f (st.env o) p off).2.1 with files := st.files.set i (writeAt st.cfg f (st.env o) p off).1 }
      (.wrote (writeAt st.cfg f (st.env o) p off).2.2.1 (writeAt st.cfg f (st.env o) p off).2.2.2) := by
    unfold step; dsimp only; rw [hf]
  have hcl := (writeAt_part (O := Oth st i) (c := st.cfg) (f := f) (e := st.env o) p off h.ssPos hP
    h.noDoubleFree).2.2.1
  rw [hstep] at hT ⊢
  refine specStepL_of ?_ (finish_snd _ _ _)
  rw [finish_fst] at hT ⊢
  have hopen := file?_after_set hf (writeAt st.cfg f (st.env o) p off).2.1
    (f' := (writeAt st.cfg f (st.env o) p off).1) (by rw [hcl]; exact hfi.2)
  have hnew : (absFiles { st.put (writeAt st.cfg f (st.env o) p off).2.1 with
      files := st.files.set i (writeAt st.cfg f (st.env o) p off).1 })[i]? =
      some (some (absFile st.cfg.ss (writeAt st.cfg f (st.env o) p off).2.1.dev (writeAt st.cfg f (st.env o) p off).1)) :=
    absFiles_open hopen
  unfold SpecStep
  dsimp only
  rw [absFiles_open hf]
  dsimp only
  by_cases hneg : off < 0
  · rw [if_pos hneg]
    rw [writeAt_neg p off hneg] at hT hnew ⊢
    refine ⟨rfl, sameExcept_none_of hT ?_⟩
    rw [absFiles_open hf, hnew]
    exact ⟨rfl, fun _ => rfl⟩
  · rw [if_neg hneg]
    obtain ⟨ofs, rfl⟩ : ∃ ofs : Nat, off = (ofs : Int) := ⟨off.toNat, by omega⟩
    rw [Int.toNat_natCast]
    obtain ⟨_, hl, _, hnone, hpanic, _⟩ := writeAt_content (O := Oth st i) (f := f) (e := st.env o) p ofs h.ssPos hP
      h.noDoubleFree
    have href := writeAt_refines (O := Oth st i) (f := f) (e := st.env o) p ofs h.ssPos hP h.noDoubleFree
    refine ⟨_, _, rfl, hl, hnone, hpanic, hT, ?_⟩
    rw [hnew]
    exact href

theorem spec_step_trunc {st : State} (h2 : Inv2 st) {i : Nat} {f : File} (hf : st.file? i = some f) (size : Int)
    (o : Oracle) :
    SpecStepL (absFiles st) (.trunc i size) o (step st (.trunc i size) o).2
      (absFiles (step st (.trunc i size) o).1) := by
  have h := h2.inv
  have hfi := file?_some hf
  have hP := inv_part h hfi.1
  have hok := h2.files i f hfi.1
  have hT := sameExcept_target h (.trunc i size) o (by intro _ _ hc; cases hc)
  have hstep : step st (.trunc i size) o = finish (truncate st.cfg f (st.env o) size).2.1
      { st.put (truncate st.cfg f (st.env o) size).2.1 with files := st.files.set i (truncate st.cfg f (st.env o) size).1 }
      (.done (truncate st.cfg f (st.env o) size).2.2) := by
    unfold step; dsimp only; rw [hf]
  have hcl := (truncate_part (c := st.cfg) (f := f) (e := st.env o) size hP h.noDoubleFree).2.2
  rw [hstep] at hT ⊢
  refine specStepL_of ?_ (finish_snd _ _ _)
  rw [finish_fst] at hT ⊢
  have hopen := file?_after_set hf (truncate st.cfg f (st.env o) size).2.1
    (f' := (truncate st.cfg f (st.env o) size).1) (by rw [hcl]; exact hfi.2)
  have hnew : (absFiles { st.put (truncate st.cfg f (st.env o) size).2.1 with
      files := st.files.set i (truncate st.cfg f (st.env o) size).1 })[i]? =
      some (some (absFile st.cfg.ss (truncate st.cfg f (st.env o) size).2.1.dev (truncate st.cfg f (st.env o) size).1)) :=
    absFiles_open hopen
  unfold SpecStep
  dsimp only
  rw [absFiles_open hf]
  dsimp only
  by_cases hneg : size < 0
  · rw [if_pos hneg]
    rw [truncate_neg _ _ _ _ hneg] at hT hnew ⊢
    refine ⟨rfl, sameExcept_none_of hT ?_⟩
    rw [absFiles_open hf, hnew]
    exact ⟨rfl, fun _ => rfl⟩
  · rw [if_neg hneg]
    obtain ⟨sz, rfl⟩ : ∃ sz : Nat, size = (sz : Int) := ⟨size.toNat, by omega⟩
    rw [Int.toNat_natCast]
    refine ⟨_, rfl, hT, fun hnone => ?_, fun hsome => ?_⟩
    · rw [hnew]
      exact truncate_refines (O := Oth st i) (f := f) (e := st.env o) sz h.ssPos hP hok hnone
    · obtain ⟨t1, t2⟩ := truncate_fail_effect (O := Oth st i) (c := st.cfg) (f := f) (e := st.env o) sz h.ssPos hP hsome
      have hwf := truncate_fileOK (O := Oth st i) (c := st.cfg) (f := f) (e := st.env o) (sz : Int) h.ssPos hP hok
      exact ⟨_, hnew, t1, t2, absFile_wf hwf⟩

theorem spec_step_seek {st : State} (h2 : Inv2 st) (h3 : Inv3 st) {i : Nat} {f : File} (hf : st.file? i = some f)
    (off : Int) (data : Bool) (o : Oracle) :
    SpecStepL (absFiles st) (.seek i off data) o (step st (.seek i off data) o).2
      (absFiles (step st (.seek i off data) o).1) := by
  have hfi := file?_some hf
  have hstep : step st (.seek i off data) o = finish (seek st.cfg f (st.env o) off data).1
      (st.put (seek st.cfg f (st.env o) off data).1) (.offset (seek st.cfg f (st.env o) off data).2) := by
    unfold step; dsimp only; rw [hf]
  rw [hstep]
  refine specStepL_of ?_ (finish_snd _ _ _)
  rw [finish_fst]
  unfold SpecStep
  dsimp only
  rw [absFiles_open hf]
  dsimp only
  refine ⟨sameExcept_none_of_eq rfl (seek_dev _ _ _ _ _) rfl, ?_⟩
  by_cases hneg : off < 0
  · rw [if_pos hneg]; unfold seek; rw [if_pos hneg]
  · rw [if_neg hneg]
    obtain ⟨ofs, rfl⟩ : ∃ ofs : Nat, off = (ofs : Int) := ⟨off.toNat, by omega⟩
    rw [Int.toNat_natCast]
    have hsz : (absFile st.cfg.ss st.dev f).size = f.size := rfl
    rw [hsz]
    by_cases hge : f.size ≤ ofs
    · rw [if_pos hge]; unfold seek; rw [if_neg hneg, Int.toNat_natCast, if_pos hge]
    · rw [if_neg hge]
      refine ⟨_, rfl, fun hs => ⟨dataAt st.cfg f, ?_⟩⟩
      have hok := h2.files i f hfi.1
      obtain ⟨_, s2, s3⟩ := seek_spec (c := st.cfg) (f := f) (e := st.env o) ofs data h2.inv.ssPos hs
        (h3.2 i f hfi.1) hok.1 (by omega)
      exact ⟨fun k hk => not_dataAt_zero st.cfg st.dev f k hk, s2, s3⟩

theorem spec_step_len {st : State} {i : Nat} {f : File} (hf : st.file? i = some f) (o : Oracle) :
    SpecStepL (absFiles st) (.len i) o (step st (.len i) o).2 (absFiles (step st (.len i) o).1) := by
  have hstep : step st (.len i) o = finish (st.env o) st (.len f.size) := by
    unfold step; dsimp only; rw [hf]
  rw [hstep]
  refine specStepL_of ?_ (finish_snd _ _ _)
  rw [finish_fst]
  unfold SpecStep
  dsimp only
  rw [absFiles_open hf]
  exact ⟨sameExcept_refl _ _, rfl⟩

theorem spec_step_close {st : State} (h2 : Inv2 st) {i : Nat} {f : File} (hf : st.file? i = some f) (o : Oracle) :
    SpecStepL (absFiles st) (.close i) o (step st (.close i) o).2 (absFiles (step st (.close i) o).1) := by
  have h := h2.inv
  have hfi := file?_some hf
  have hP := inv_part h hfi.1
  have hT := sameExcept_target h (.close i) o (by intro _ _ hc; cases hc)
  have hstep : step st (.close i) o = finish (close f (st.env o)).2.1
      { st.put (close f (st.env o)).2.1 with files := st.files.set i (close f (st.env o)).1 }
      (.done (close f (st.env o)).2.2) := by
    unfold step; dsimp only; rw [hf]
  have hcl := close_part (f := f) (e := st.env o) hP h.noDoubleFree
  rw [hstep] at hT ⊢
  refine specStepL_of ?_ (finish_snd _ _ _)
  rw [finish_fst] at hT ⊢
  unfold SpecStep
  dsimp only
  rw [absFiles_open hf]
  dsimp only
  refine ⟨⟨_, rfl⟩, hT, ?_⟩
  rw [absFiles_get]
  dsimp only
  have hlen : i < st.files.length := (List.getElem?_eq_some_iff.mp hfi.1).1
  simp only [List.getElem?_set, hlen, ↓reduceIte, Option.map_some]
  rw [hcl.2.2.2.1]; rfl

theorem spec_step_new {st : State} (h2 : Inv2 st) (hole : Hole) (size : Nat) (hwf : hole.limit ≤ size) (o : Oracle) :
    SpecStepL (absFiles st) (.new hole size) o (step st (.new hole size) o).2
      (absFiles (step st (.new hole size) o).1) := by
  have hoth : ∀ j, j < st.files.length →
      OEqv (absFiles st)[j]? (absFiles (step st (.new hole size) o).1)[j]? :=
    fun j hj => absFiles_others h2.inv (.new hole size) o j (by simp [opTarget]) hj
  have hstep : step st (.new hole size) o = finish (st.env o)
      { st with files := st.files ++ [{ sectors := [], size := size, hole := hole, closed := false }] }
      (.created st.files.length) := by
    unfold step; rfl
  rw [hstep] at hoth ⊢
  refine specStepL_of ?_ (finish_snd _ _ _)
  rw [finish_fst] at hoth ⊢
  unfold SpecStep
  dsimp only
  refine ⟨by rw [absFiles_length], by rw [absFiles_length, absFiles_length]; simp, fun j hj => ?_, ?_⟩
  · exact hoth j (by rw [absFiles_length] at hj; exact hj)
  · rw [absFiles_length, absFiles_get]
    dsimp only
    rw [List.getElem?_append_right (Nat.le_refl _)]
    simp only [Nat.sub_self, List.getElem?_cons_zero, Option.map_some, Bool.false_eq_true, ↓reduceIte]
    refine ⟨rfl, fun k => ?_⟩
    show content st.cfg.ss st.dev ⟨[], size, hole, false⟩ k = _
    rw [content_hole_of_zero _ _ _ _ rfl]
    unfold create
    dsimp only
    split
    · rfl
    · exact hole_read_beyond _ _ (by omega)

/-- **Every model step is a specification step.** -/
theorem spec_step {st : State} (h2 : Inv2 st) (h3 : Inv3 st) (op : Op) (o : Oracle) (hwf : WFOp op) :
    SpecStepL (absFiles st) op o (step st op o).2 (absFiles (step st op o).1) := by
  cases op with
  | new hole size => exact spec_step_new h2 hole size hwf o
  | read i off n =>
    cases hf : st.file? i with
    | none => exact spec_step_noFile hf _ o (Or.inl ⟨off, n, rfl⟩)
    | some f => exact spec_step_read h2 hf off n o
  | write i off p =>
    cases hf : st.file? i with
    | none => exact spec_step_noFile hf _ o (Or.inr (Or.inl ⟨off, p, rfl⟩))
    | some f => exact spec_step_write h2 hf off p o
  | trunc i size =>
    cases hf : st.file? i with
    | none => exact spec_step_noFile hf _ o (Or.inr (Or.inr (Or.inl ⟨size, rfl⟩)))
    | some f => exact spec_step_trunc h2 hf size o
  | seek i off data =>
    cases hf : st.file? i with
    | none => exact spec_step_noFile hf _ o (Or.inr (Or.inr (Or.inr (Or.inl ⟨off, data, rfl⟩))))
    | some f => exact spec_step_seek h2 h3 hf off data o
  | len i =>
    cases hf : st.file? i with
    | none => exact spec_step_noFile hf _ o (Or.inr (Or.inr (Or.inr (Or.inr (Or.inl rfl)))))
    | some f => exact spec_step_len hf o
  | close i =>
    cases hf : st.file? i with
    | none => exact spec_step_noFile hf _ o (Or.inr (Or.inr (Or.inr (Or.inr (Or.inr rfl)))))
    | some f => exact spec_step_close h2 hf o

/-- **History-level refinement.** -/
theorem spec_run {st : State} (h2 : Inv2 st) (h3 : Inv3 st) (ops : List (Op × Oracle)) (hwf : ∀ x ∈ ops, WFOp x.1) :
    SpecRun (absFiles st) ops (outputs st ops) (absFiles (run st ops)) := by
  induction ops generalizing st with
  | nil => exact SpecRun.nil _
  | cons x xs ih =>
    obtain ⟨op, o⟩ := x
    have hw := hwf (op, o) List.mem_cons_self
    exact SpecRun.cons (spec_step h2 h3 op o hw)
      (ih (inv2_step h2 op o hw) (inv3_step h3 op o) (fun y hy => hwf y (List.mem_cons_of_mem _ hy)))

end BbRe.Lemmas.FilePool
