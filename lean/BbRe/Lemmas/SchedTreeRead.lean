import BbRe.Lemmas.SchedTreeFnStep
/-!
Reading the four bags of `Model/SchedTreeCheck.lean` in terms of the state: what it means for an operation to
be queued / executing in an invocation, for a worker to have an invocation as its last one / to be parked
there.
-/
namespace BbRe.Lemmas.SchedTree
open BbRe.Sched BbRe.SchedTree BbRe.Lemmas.SchedInv

/-- operation `o` is queued in the invocation `p` of queue `q` -/
def QueuedAt (ts : TState) (q : ScqId) (p : List Nat) (o : Nat) : Prop :=
  ∃ k t, ts.s.task? k = some t ∧ t.queued = true ∧ t.scq = q ∧ o ∈ t.ops ∧ ts.invOf o = p

/-- operation `o`, in the invocation `p` of queue `q`, is executing on worker `w` -/
def ExecAt (ts : TState) (q : ScqId) (p : List Nat) (w : WId) (o : Nat) : Prop :=
  ∃ k t q0, ts.s.task? k = some t ∧ t.worker = some (q0, w) ∧ t.scq = q ∧ o ∈ t.ops ∧ ts.invOf o = p

/-- the last invocation of worker `w` of queue `q` is `p` -/
def LastAt (ts : TState) (q : ScqId) (p : List Nat) (w : WId) : Prop :=
  (∃ wk, ts.s.worker? q w = some wk) ∧ ts.lastOf q w = some p

/-- worker `w` of queue `q` is blocked in `Synchronize`, enqueued in `idleSynchronizingWorkers` of `p` -/
def ParkedAt (ts : TState) (q : ScqId) (p : List Nat) (w : WId) : Prop :=
  (∃ wk, ts.s.worker? q w = some wk ∧ wk.parked = true) ∧ ts.lastOf q w = some p

theorem mem_bagQ_iff {ts : TState} (hn : (keys ts.s.tasks).Nodup) (c : QC) :
    c ∈ bagQ ts ↔ QueuedAt ts c.1 c.2.1 c.2.2 := by
  rw [bagQ_def]
  constructor
  · intro h
    obtain ⟨kt, hkt, hc⟩ := List.mem_flatMap.mp h
    unfold conQ at hc
    split at hc
    · rename_i hq
      obtain ⟨o, ho, e⟩ := List.mem_map.mp hc
      subst e
      exact ⟨kt.1, kt.2, by rw [task?_def]; exact alookup_of_mem hn hkt, hq, rfl, ho, rfl⟩
    · cases hc
  · rintro ⟨k, t, hk, hq, hs, ho, hi⟩
    rw [task?_def] at hk
    refine List.mem_flatMap.mpr ⟨(k, t), mem_of_alookup hk, ?_⟩
    unfold conQ
    rw [if_pos hq]
    refine List.mem_map.mpr ⟨c.2.2, ho, ?_⟩
    obtain ⟨c1, c2, c3⟩ := c
    simp only at hs hi ⊢
    subst hs; subst hi; rfl

theorem mem_bagE_iff {ts : TState} (hn : (keys ts.s.tasks).Nodup) (q : ScqId) (p : List Nat) (w : WId) :
    (q, p, some w) ∈ bagE ts ↔ ∃ o, ExecAt ts q p w o := by
  rw [bagE_def]
  constructor
  · intro h
    obtain ⟨kt, hkt, hc⟩ := List.mem_flatMap.mp h
    unfold conE at hc
    split at hc
    · rename_i q0 w0 hw
      obtain ⟨o, ho, e⟩ := List.mem_map.mp hc
      simp only [Prod.mk.injEq, Option.some.injEq] at e
      obtain ⟨e1, e2, e3⟩ := e
      subst e3
      exact ⟨o, kt.1, kt.2, q0, by rw [task?_def]; exact alookup_of_mem hn hkt, hw, e1, ho, e2⟩
    · cases hc
  · rintro ⟨o, k, t, q0, hk, hw, hs, ho, hi⟩
    rw [task?_def] at hk
    refine List.mem_flatMap.mpr ⟨(k, t), mem_of_alookup hk, ?_⟩
    unfold conE
    simp only [hw]
    refine List.mem_map.mpr ⟨o, ho, ?_⟩
    subst hs; subst hi; rfl

theorem bagE_key_some {ts : TState} {c : EC} (h : c ∈ bagE ts) : ∃ w, c.2.2 = some w := by
  rw [bagE_def] at h
  obtain ⟨kt, _, hc⟩ := List.mem_flatMap.mp h
  unfold conE at hc
  split at hc
  · rename_i q0 w0 _
    obtain ⟨o, _, e⟩ := List.mem_map.mp hc
    exact ⟨w0, by rw [← e]⟩
  · cases hc

/-- the entry of the worker extras found under its own key -/
theorem wx?_of_mem {l : List WX} (hnd : (l.map (fun x => (x.scq, x.id))).Nodup) {x : WX} (hx : x ∈ l) :
    l.find? (fun y => y.scq = x.scq ∧ y.id = x.id) = some x := by
  induction l with
  | nil => cases hx
  | cons a r ih =>
    simp only [List.map_cons, List.nodup_cons] at hnd
    rw [List.find?_cons]
    rcases List.mem_cons.mp hx with e | e
    · subst e; simp
    · have hne : ¬ (a.scq = x.scq ∧ a.id = x.id) := by
        intro ⟨e1, e2⟩
        apply hnd.1
        exact List.mem_map.mpr ⟨x, e, by rw [e1, e2]⟩
      simp only [hne, decide_false]
      exact ih hnd.2 e

theorem mem_bagI_iff {ts : TState} (hS : Side ts) (c : IC) : c ∈ bagI ts ↔ ∃ w, LastAt ts c.1 c.2 w := by
  rw [bagI_def]
  constructor
  · intro h
    obtain ⟨x, hx, hc⟩ := List.mem_flatMap.mp h
    unfold conI at hc
    split at hc
    · rename_i p hp
      simp only [List.mem_singleton] at hc
      subst hc
      have hf := wx?_of_mem hS.wxnd hx
      have hw := hS.wxw x.scq x.id
      unfold TState.wx? at hw
      rw [hf] at hw
      refine ⟨x.id, ?_, ?_⟩
      · cases hk : ts.s.worker? x.scq x.id with
        | none => rw [hk] at hw; cases hw
        | some wk => exact ⟨wk, rfl⟩
      · unfold TState.lastOf TState.wx?
        rw [hf]; exact hp
    · cases hc
  · rintro ⟨w, ⟨wk, hwk⟩, hl⟩
    unfold TState.lastOf at hl
    split at hl
    · rename_i x hx
      have hk := List.find?_some (show ts.wx.find? (fun y => y.scq = c.1 ∧ y.id = w) = some x from hx)
      simp only [decide_eq_true_eq] at hk
      refine List.mem_flatMap.mpr ⟨x, List.mem_of_find?_eq_some hx, ?_⟩
      unfold conI
      rw [hl]
      simp only [List.mem_singleton]
      rw [hk.1]
    · cases hl

theorem mem_bagP_iff {ts : TState} (hS : Side ts) (c : PC) : c ∈ bagP ts ↔ ParkedAt ts c.1 c.2.1 c.2.2 := by
  rw [bagP_def]
  constructor
  · intro h
    obtain ⟨x, hx, hc⟩ := List.mem_flatMap.mp h
    unfold conP at hc
    split at hc
    · rename_i hpk
      split at hc
      · rename_i p hp
        simp only [List.mem_singleton] at hc
        subst hc
        have hf := wx?_of_mem hS.wxnd hx
        have hw := hS.wxw x.scq x.id
        unfold TState.wx? at hw
        rw [hf] at hw
        cases hk : ts.s.worker? x.scq x.id with
        | none => rw [hk] at hw; cases hw
        | some wk =>
          have := (hS.wpl x.scq x.id wk x hk hf).1
          refine ⟨⟨wk, hk, by rw [← this]; exact hpk⟩, ?_⟩
          unfold TState.lastOf TState.wx?
          rw [hf]; exact hp
      · cases hc
    · cases hc
  · rintro ⟨⟨wk, hwk, hpk⟩, hl⟩
    unfold TState.lastOf at hl
    split at hl
    · rename_i x hx
      have hk := List.find?_some (show ts.wx.find? (fun y => y.scq = c.1 ∧ y.id = c.2.2) = some x from hx)
      simp only [decide_eq_true_eq] at hk
      have hxp : x.parked = true := by rw [(hS.wpl c.1 c.2.2 wk x hwk hx).1]; exact hpk
      refine List.mem_flatMap.mpr ⟨x, List.mem_of_find?_eq_some hx, ?_⟩
      unfold conP
      rw [if_pos hxp, hl]
      simp only [List.mem_singleton]
      rw [hk.1, hk.2]
    · cases hl

/-! ### the invariant of the tree, read in terms of the state -/

/-- The invocation trees are exactly what the rest of the scheduler state says they should be. -/
structure TreeInv (ts : TState) : Prop where
  /-- one invocation per (size-class queue, path of invocation keys); parents exist; every size-class queue
  has its root invocation and every invocation belongs to a size-class queue -/
  unique : (ts.nodes.map (fun n => (n.scq, n.path))).Nodup
  parent : ∀ n ∈ ts.nodes, n.path ≠ [] → (node? ts.nodes n.scq n.path.dropLast).isSome = true
  roots : ∀ sq ∈ ts.s.scqs, (node? ts.nodes sq.id []).isSome = true
  owned : ∀ n ∈ ts.nodes, ∃ sq ∈ ts.s.scqs, sq.id = n.scq
  /-- `queuedOperations` holds exactly the operations of queued tasks in this invocation -/
  queuedOperations : ∀ n ∈ ts.nodes, n.qops.Nodup ∧ ∀ o, o ∈ n.qops ↔ QueuedAt ts n.scq n.path o
  /-- a child is in `queuedChildren` iff an operation is queued in its subtree -/
  queuedChildren : ∀ n ∈ ts.nodes, n.qkids.Nodup ∧
    ∀ k, k ∈ n.qkids ↔ ∃ p o, QueuedAt ts n.scq p o ∧ (n.path ++ [k]) <+: p
  /-- `idleSynchronizingWorkers` holds exactly the workers blocked in `Synchronize` whose last invocation this is -/
  idleSynchronizingWorkers : ∀ n ∈ ts.nodes, n.parked.Nodup ∧ ∀ w, w ∈ n.parked ↔ ParkedAt ts n.scq n.path w
  /-- a child is in `idleSynchronizingWorkersChildren` iff a worker is parked in its subtree -/
  idleSynchronizingWorkersChildren : ∀ n ∈ ts.nodes, n.ikids.Nodup ∧
    ∀ k, k ∈ n.ikids ↔ ∃ p w, ParkedAt ts n.scq p w ∧ (n.path ++ [k]) <+: p
  /-- `executingWorkers[w]` is the number of operations in the subtree whose task executes on `w`
  (`bagE ts` lists them: one entry per operation of a task that has a worker); no zero entries, and between
  segments no entry for the temporary worker of `task.complete` -/
  executingWorkers : ∀ n ∈ ts.nodes, (n.exec.map (·.1)).Nodup ∧ (∀ e ∈ n.exec, 0 < e.2) ∧ mget none n.exec = 0 ∧
    ∀ w, mget (some w) n.exec = cntE n.scq n.path (some w) (bagE ts)
  /-- `idleWorkersCount` is the number of workers whose last invocation is in the subtree -/
  idleWorkersCount : ∀ n ∈ ts.nodes, n.idle = cntI n.scq n.path (bagI ts)
  /-- a non-root invocation exists iff an operation is executing or queued, or a worker has its last
  invocation, at or below it (`getOrCreateInvocation` / `removeIfEmpty`) -/
  exists_iff : ∀ q p, p ≠ [] → ((node? ts.nodes q p).isSome = true ↔
    (∃ p' w o, ExecAt ts q p' w o ∧ p <+: p') ∨ (∃ p' w, LastAt ts q p' w ∧ p <+: p') ∨
    (∃ p' o, QueuedAt ts q p' o ∧ p <+: p'))

theorem TInv.treeInv {ts : TState} (h : TInv ts) : TreeInv ts := by
  have hT := h.tree
  have hS := h.side
  have hn := h.inv.core.tnd
  refine ⟨hT.nd, hT.pc, hS.roots, hS.nscq, ?_, ?_, ?_, ?_, ?_, hT.id, ?_⟩
  · intro n hm
    refine ⟨(hT.qo n hm).1, fun o => ?_⟩
    rw [(hT.qo n hm).2 o, mem_bagQ_iff hn]
  · intro n hm
    refine ⟨(hT.qk n hm).1, fun k => ?_⟩
    rw [(hT.qk n hm).2 k]
    constructor
    · rintro ⟨c, hc, e, hp⟩
      exact ⟨c.2.1, c.2.2, by rw [← e]; exact (mem_bagQ_iff hn c).mp hc, hp⟩
    · rintro ⟨p, o, hq, hp⟩
      exact ⟨(n.scq, p, o), (mem_bagQ_iff hn _).mpr hq, rfl, hp⟩
  · intro n hm
    refine ⟨(hT.pk n hm).1, fun w => ?_⟩
    rw [(hT.pk n hm).2 w, mem_bagP_iff hS]
  · intro n hm
    refine ⟨(hT.ik n hm).1, fun k => ?_⟩
    rw [(hT.ik n hm).2 k]
    constructor
    · rintro ⟨c, hc, e, hp⟩
      exact ⟨c.2.1, c.2.2, by rw [← e]; exact (mem_bagP_iff hS c).mp hc, hp⟩
    · rintro ⟨p, w, hq, hp⟩
      exact ⟨(n.scq, p, w), (mem_bagP_iff hS _).mpr hq, rfl, hp⟩
  · intro n hm
    refine ⟨(hT.exnd n hm).1, (hT.exnd n hm).2, ?_, fun w => hT.ex n hm (some w)⟩
    rw [hT.ex n hm none]
    cases hc : cntE n.scq n.path none (bagE ts) with
    | zero => rfl
    | succ m =>
      obtain ⟨c, hcm, _, _, e⟩ := (cntE_pos_iff _ _ _ _).mp (by rw [hc]; omega : 0 < cntE n.scq n.path none (bagE ts))
      obtain ⟨w, hw⟩ := bagE_key_some hcm
      rw [hw] at e; cases e
  · intro q p hp
    constructor
    · intro hex
      obtain ⟨n, hm, e1, e2⟩ := node?_isSome_iff.mp hex
      have hne := hT.ne n hm (by rw [e2]; exact hp) (by simp)
      rcases (hT.not_empty_iff hm).mp hne with ⟨c, hc, a, b⟩ | ⟨c, hc, a, b⟩ | ⟨c, hc, a, b⟩
      · left
        obtain ⟨w, hw⟩ := bagE_key_some hc
        obtain ⟨o, ho⟩ := (mem_bagE_iff hn c.1 c.2.1 w).mp (by rw [← hw]; exact hc)
        exact ⟨c.2.1, w, o, by rw [← e1, ← a]; exact ho, by rw [← e2]; exact b⟩
      · right; left
        obtain ⟨w, hw⟩ := (mem_bagI_iff hS c).mp hc
        exact ⟨c.2, w, by rw [← e1, ← a]; exact hw, by rw [← e2]; exact b⟩
      · right; right
        exact ⟨c.2.1, c.2.2, by rw [← e1, ← a]; exact (mem_bagQ_iff hn c).mp hc, by rw [← e2]; exact b⟩
    · rintro (⟨p', w, o, he, hpp⟩ | ⟨p', w, hl, hpp⟩ | ⟨p', o, hq, hpp⟩)
      · exact hT.prefix_exists p' (hT.rfE _ ((mem_bagE_iff hn q p' w).mpr ⟨o, he⟩)) p hpp
      · exact hT.prefix_exists p' (hT.rfI (q, p') ((mem_bagI_iff hS _).mpr ⟨w, hl⟩)) p hpp
      · exact hT.prefix_exists p' (hT.rfQ (q, p', o) ((mem_bagQ_iff hn _).mpr hq)) p hpp

end BbRe.Lemmas.SchedTree
