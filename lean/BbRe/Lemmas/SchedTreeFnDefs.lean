import BbRe.Lemmas.SchedTreeLinkSched
import BbRe.Lemmas.SchedInvStep
/-!
Shapes of the function-level lemmas of the tree layer.

Between the functions of a segment the *full* invariant of `Sched` holds on the `Sched` component: every
`t…` function refines the `Sched` function of the same name (`Lemmas/SchedTreeRefine.lean`), and
`Lemmas/SchedInv*.lean` has a `…_spec` for each of them.  So a function-level lemma of the tree layer has the
shape `TInv ts → tF … ts = .ok ts' → TS [] ts'`: the `Inv ts'.s` half of `TInv ts'` comes from `inv_of_ref`.
-/
namespace BbRe.Lemmas.SchedTree
open BbRe.Sched BbRe.SchedTree BbRe.Lemmas.SchedInv

/-- what a `…_spec` of `Sched` says about the result of the `Sched` function holds for the `Sched`
component of the result of the tree-layer function -/
theorem inv_of_ref {x : M TState} {y : M State} {Q : State → Prop} {ts' : TState}
    (hr : R x y) (hs : wp y Q) (hx : x = .ok ts') : Q ts'.s :=
  wp_of_ok hs (hr ts' hx)

theorem TInv.mk' {ts : TState} (hi : Inv ts.s) (h : TS [] ts) : TInv ts := ⟨hi, h.tree, h.side⟩

/-- a step of `Sched` that the tree layer does not see keeps the tree part of the invariant -/
theorem TS.sframe {X : List (ScqId × List Nat)} {ts : TState} {s' : State} (h : TS X ts) (hf : SFrame ts.s s') :
    TS X (ts.setS s') :=
  ⟨TreeOK.of_sframe h.tree hf, h.side.of_sframe hf⟩

/-- `task.complete` keeps the tree part of the invariant -/
def CompleteOK : Prop :=
  ∀ (h : Hints) (x : Extras) (ts ts' : TState) (tid : Nat) (r : Resp) (bw : Bool),
    TInv ts → (alookup tid ts.s.tasks).isSome = true → tComplete h x ts tid r bw = .ok ts' → TS [] ts'

/-- `cancelAllQueuedOperations` keeps the tree part of the invariant -/
def CancelOK : Prop :=
  ∀ (h : Hints) (x : Extras) (ts ts' : TState) (q : ScqId) (r : Resp),
    TInv ts → tCancelAllQueued h x ts q r = .ok ts' → TS [] ts'

/-- `bq.enter` (the cleanup queue) keeps the tree part of the invariant -/
def EnterOK : Prop :=
  ∀ (h : Hints) (x : Extras) (ts ts' : TState) (now : Nat),
    TInv ts → tEnter h x ts now = .ok ts' → TS [] ts'

/-- `getNextTask` for a worker that is inside `Synchronize`, not parked and without a task -/
def NextOK : Prop :=
  ∀ (h : Hints) (x : Extras) (ts ts' : TState) (q : ScqId) (w : WId) (wk : Worker) (pi bl : Bool),
    TInv ts → wfind ts.s.workers q w = some wk → Ready wk → tGetNextTask h x ts q w pi bl = .ok ts' → TS [] ts'

/-- `getCurrentOrNextTask` -/
def CurOK : Prop :=
  ∀ (h : Hints) (x : Extras) (ts ts' : TState) (q : ScqId) (w : WId) (wk : Worker) (pi bl : Bool),
    TInv ts → wfind ts.s.workers q w = some wk → Ready' wk → tGetCurrentOrNext h x ts q w pi bl = .ok ts' → TS [] ts'

end BbRe.Lemmas.SchedTree
