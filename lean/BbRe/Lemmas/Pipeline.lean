import BbRe.Model.Pipeline
/-!
Helper lemmas about `Model/Pipeline.lean` (batched store part): `takeOp`,
`issuePuts`, `flushLocked`, `put`, `flusher`, `runPuts`.
-/
namespace BbRe.Lemmas.Pipeline
open BbRe.Pipeline

@[simp] theorem Status.err_error (c : Code) : (Status.error c).err = some c := rfl
@[simp] theorem Status.err_unset : Status.unset.err = none := rfl
@[simp] theorem Status.err_ok (m : Bool) : (Status.ok m).err = none := rfl

theorem firstErr_none {a b : Option Code} (h : firstErr a b = none) : a = none ∧ b = none := by
  cases a <;> simp_all [firstErr]

theorem firstErr_some_left {a b : Option Code} (h : a ≠ none) : firstErr a b ≠ none := by
  cases a <;> simp_all [firstErr]

theorem chooseErr_none {errs : List Code} {w : Option Code} (h : chooseErr errs w = none) : errs = [] := by
  unfold chooseErr at h
  split at h
  · rfl
  · split at h
    · split at h <;> simp at h
    · simp at h

theorem chooseErr_mem {errs : List Code} {w : Option Code} {c : Code} (h : chooseErr errs w = some c) : c ∈ errs := by
  unfold chooseErr at h
  split at h
  · simp at h
  · split at h
    · split at h
      · rename_i hc; simp at h; subst h; exact hc
      · simp at h; subst h; simp
    · simp at h; subst h; simp

theorem chooseErr_ne_none {errs : List Code} (w : Option Code) (h : errs ≠ []) : chooseErr errs w ≠ none := by
  unfold chooseErr
  split
  · exact absurd rfl h
  · split
    · split <;> simp
    · simp

/-! ### takeOp -/

theorem takeOp_perm {d : Digest} {l : List (Digest × Buf)} {b : Buf} {rest : List (Digest × Buf)}
    (h : takeOp d l = some (b, rest)) : l.Perm ((d, b) :: rest) := by
  induction l generalizing b rest with
  | nil => simp [takeOp] at h
  | cons p ps ih =>
    unfold takeOp at h
    split at h
    · rename_i hp
      simp at h
      obtain ⟨h1, h2⟩ := h
      subst h1; subst h2
      have : p = (d, p.2) := by cases p; simp_all
      rw [this]
    · split at h
      · simp at h
      · rename_i b' rest' heq
        simp at h
        obtain ⟨h1, h2⟩ := h
        subst h1; subst h2
        have := ih heq
        exact (List.Perm.cons p this).trans (List.Perm.swap _ _ _)

/-! ### issueOne / issuePuts -/

/-- The three behaviours of one iteration of the upload loop. -/
theorem issueOne_cases (cas0 : List Digest) (g : Group) (e : Digest × Option Code) :
    issueOne cas0 g e = g ∨
    (∃ b pend', takeOp e.1 g.pend = some (b, pend') ∧
      issueOne cas0 g e = { pend := pend', cas := e.1 :: g.cas, consumed := b :: g.consumed, errs := g.errs }) ∨
    (∃ b pend' c, takeOp e.1 g.pend = some (b, pend') ∧
      issueOne cas0 g e = { pend := pend', cas := g.cas, consumed := b :: g.consumed, errs := g.errs ++ [c] }) := by
  unfold issueOne
  by_cases h : e.1 ∈ cas0
  · simp [h]
  · simp only [h, if_false]
    cases ht : takeOp e.1 g.pend with
    | none => simp
    | some bp =>
      obtain ⟨b, pend'⟩ := bp
      cases he : e.2 with
      | none => right; left; exact ⟨b, pend', rfl, rfl⟩
      | some c => right; right; exact ⟨b, pend', c, rfl, rfl⟩

theorem issueOne_cas_mono (cas0 : List Digest) (g : Group) (e : Digest × Option Code) (x : Digest)
    (h : x ∈ g.cas) : x ∈ (issueOne cas0 g e).cas := by
  rcases issueOne_cases cas0 g e with h1 | ⟨b, pend', _, h1⟩ | ⟨b, pend', c, _, h1⟩ <;> rw [h1] <;> simp [h]

theorem issueOne_err_none (cas0 : List Digest) (g : Group) (e : Digest × Option Code)
    (h : (issueOne cas0 g e).errs = []) : g.errs = [] := by
  rcases issueOne_cases cas0 g e with h1 | ⟨b, pend', _, h1⟩ | ⟨b, pend', c, _, h1⟩ <;> rw [h1] at h
  · exact h
  · exact h
  · simp at h

theorem issueOne_sound (cas0 : List Digest) (g : Group) (e : Digest × Option Code)
    (h : (issueOne cas0 g e).errs = []) :
    ∀ p ∈ g.pend, p ∈ (issueOne cas0 g e).pend ∨ p.1 ∈ (issueOne cas0 g e).cas := by
  rcases issueOne_cases cas0 g e with h1 | ⟨b, pend', ht, h1⟩ | ⟨b, pend', c, _, h1⟩ <;> rw [h1] at h ⊢
  · intro p hp; left; exact hp
  · intro p hp
    have := ((takeOp_perm ht).mem_iff).1 hp
    rcases List.mem_cons.1 this with h2 | h2
    · right; subst h2; simp
    · left; exact h2
  · simp at h

theorem issueOne_perm (cas0 : List Digest) (g : Group) (e : Digest × Option Code) :
    ((issueOne cas0 g e).pend.map (·.2) ++ (issueOne cas0 g e).consumed).Perm
      (g.pend.map (·.2) ++ g.consumed) := by
  have step : ∀ (b : Buf) (pend' : List (Digest × Buf)), takeOp e.1 g.pend = some (b, pend') →
      (pend'.map (·.2) ++ b :: g.consumed).Perm (g.pend.map (·.2) ++ g.consumed) := by
    intro b pend' ht
    have hperm := (takeOp_perm ht).map (·.2)
    exact List.perm_middle.trans (List.Perm.append_right _ hperm.symm)
  rcases issueOne_cases cas0 g e with h1 | ⟨b, pend', ht, h1⟩ | ⟨b, pend', c, ht, h1⟩ <;> rw [h1]
  · exact step b pend' ht
  · exact step b pend' ht

theorem issuePuts_cas_mono (cas0 : List Digest) (g : Group) (t : List IssueEv) (x : Digest)
    (h : x ∈ g.cas) : x ∈ (issuePuts cas0 g t).cas := by
  induction t generalizing g with
  | nil => exact h
  | cons e rest ih =>
    cases e with
    | put d r => exact ih _ (issueOne_cas_mono cas0 g (d, r) x h)
    | acquireFailed c => exact h

theorem issuePuts_err_none (cas0 : List Digest) (g : Group) (t : List IssueEv)
    (h : (issuePuts cas0 g t).errs = []) : g.errs = [] := by
  induction t generalizing g with
  | nil => exact h
  | cons e rest ih =>
    cases e with
    | put d r => exact issueOne_err_none cas0 g (d, r) (ih _ h)
    | acquireFailed c => simp [issuePuts] at h

/-- A failed semaphore acquisition is an error of the group. -/
theorem issuePuts_acquireFailed (cas0 : List Digest) (g : Group) (c : Code) (rest : List IssueEv) :
    (issuePuts cas0 g (.acquireFailed c :: rest)).errs ≠ [] := by
  simp [issuePuts]

theorem issuePuts_acquireFailed_after (cas0 : List Digest) (g : Group) (pre : List (Digest × Option Code))
    (c : Code) (post : List IssueEv) :
    (issuePuts cas0 g (pre.map (fun e => IssueEv.put e.1 e.2) ++ .acquireFailed c :: post)).errs ≠ [] := by
  induction pre generalizing g with
  | nil => exact issuePuts_acquireFailed cas0 g c post
  | cons e rest ih => exact ih _

/-- If the group ends without error, every operation that was pending is
either still pending or its blob has been stored. -/
theorem issuePuts_sound (cas0 : List Digest) (g : Group) (t : List IssueEv)
    (h : (issuePuts cas0 g t).errs = []) :
    ∀ p ∈ g.pend, p ∈ (issuePuts cas0 g t).pend ∨ p.1 ∈ (issuePuts cas0 g t).cas := by
  induction t generalizing g with
  | nil => intro p hp; left; exact hp
  | cons e rest ih =>
    cases e with
    | put d r =>
      intro p hp
      have h1 : (issueOne cas0 g (d, r)).errs = [] := issuePuts_err_none cas0 _ rest h
      rcases issueOne_sound cas0 g (d, r) h1 p hp with h2 | h2
      · exact ih _ h p h2
      · right; exact issuePuts_cas_mono cas0 _ rest _ h2
    | acquireFailed c => simp [issuePuts] at h

theorem issuePuts_perm (cas0 : List Digest) (g : Group) (t : List IssueEv) :
    ((issuePuts cas0 g t).pend.map (·.2) ++ (issuePuts cas0 g t).consumed).Perm
      (g.pend.map (·.2) ++ g.consumed) := by
  induction t generalizing g with
  | nil => exact List.Perm.refl _
  | cons e rest ih =>
    cases e with
    | put d r => exact (ih _).trans (issueOne_perm cas0 g (d, r))
    | acquireFailed c => exact List.Perm.refl _

/-! ### flushLocked -/

theorem flushLocked_pending (s : Store) (o : FlushOracle) : (flushLocked s o).pending = [] := by
  unfold flushLocked
  split
  · rfl
  · simp only; split <;> rfl

theorem flushLocked_batchSize (s : Store) (o : FlushOracle) : (flushLocked s o).batchSize = s.batchSize := by
  unfold flushLocked
  split
  · rfl
  · simp only; split <;> rfl

theorem flushLocked_cas_mono (s : Store) (o : FlushOracle) (x : Digest) (h : x ∈ s.cas) :
    x ∈ (flushLocked s o).cas := by
  unfold flushLocked
  split
  · exact h
  · simp only; split <;> exact issuePuts_cas_mono _ _ _ _ h

/-- `flushError` is never cleared by `flushLocked`. -/
theorem flushLocked_err_sticky (s : Store) (o : FlushOracle) (h : s.flushError ≠ none) :
    (flushLocked s o).flushError ≠ none := by
  unfold flushLocked
  split
  · simp
  · simp only; split
    · simp
    · exact h

/-- A flush after which no error is recorded has stored every pending blob. -/
theorem flushLocked_sound (s : Store) (o : FlushOracle) (h : (flushLocked s o).flushError = none) :
    s.flushError = none ∧ ∀ p ∈ s.pending, p.1 ∈ (flushLocked s o).cas := by
  refine ⟨Classical.byContradiction fun hn => flushLocked_err_sticky s o hn h, ?_⟩
  unfold flushLocked at h ⊢
  split
  · rename_i c hfm; simp [hfm] at h
  · rename_i hfm
    simp only [hfm] at h
    simp only
    split
    · rename_i c herr; simp only [herr] at h; simp at h
    · rename_i herr
      simp only
      intro p hp
      have herrs := chooseErr_none herr
      split at herrs
      · simp at herrs
      · rename_i hany
        have hs := issuePuts_sound s.cas ⟨s.pending, s.cas, s.consumed, []⟩ o.puts herrs p hp
        rcases hs with h1 | h1
        · have : p.1 ∈ s.cas := by
            apply Classical.byContradiction
            intro hne
            apply hany
            simp only [List.any_eq_true, decide_eq_true_eq]
            exact ⟨p, h1, hne⟩
          exact issuePuts_cas_mono _ _ _ _ this
        · exact h1

/-- Every pending buffer is consumed exactly once by a flush (Put or Discard). -/
theorem flushLocked_consumed (s : Store) (o : FlushOracle) :
    (flushLocked s o).consumed.Perm (s.pending.map (·.2) ++ s.consumed) := by
  unfold flushLocked
  split
  · exact List.Perm.refl _
  · simp only
    have := issuePuts_perm s.cas ⟨s.pending, s.cas, s.consumed, []⟩ o.puts
    split <;> exact this

theorem flushLocked_errorsRecorded_le (s : Store) (o : FlushOracle) :
    s.errorsRecorded ≤ (flushLocked s o).errorsRecorded := by
  unfold flushLocked
  split
  · simp
  · simp only; split <;> simp

theorem flushLocked_errorsRecorded (s : Store) (o : FlushOracle)
    (h : s.errorsRecorded < (flushLocked s o).errorsRecorded) : (flushLocked s o).flushError ≠ none := by
  unfold flushLocked at h ⊢
  split
  · simp
  · rename_i hfm
    simp only [hfm] at h
    simp only
    split
    · simp
    · rename_i herr; simp only [herr] at h; simp at h

/-! ### put / flusher -/

theorem maybeFlush_cases (s : Store) (o : FlushOracle) :
    maybeFlush s o = s ∨ maybeFlush s o = flushLocked s o := by
  unfold maybeFlush; split <;> simp

theorem maybeFlush_err_sticky (s : Store) (o : FlushOracle) (h : s.flushError ≠ none) :
    (maybeFlush s o).flushError ≠ none := by
  rcases maybeFlush_cases s o with h1 | h1 <;> rw [h1]
  · exact h
  · exact flushLocked_err_sticky s o h

theorem maybeFlush_cas_mono (s : Store) (o : FlushOracle) (x : Digest) (h : x ∈ s.cas) :
    x ∈ (maybeFlush s o).cas := by
  rcases maybeFlush_cases s o with h1 | h1 <;> rw [h1]
  · exact h
  · exact flushLocked_cas_mono s o x h

theorem maybeFlush_errorsRecorded_le (s : Store) (o : FlushOracle) :
    s.errorsRecorded ≤ (maybeFlush s o).errorsRecorded := by
  rcases maybeFlush_cases s o with h1 | h1 <;> rw [h1]
  · exact Nat.le_refl _
  · exact flushLocked_errorsRecorded_le s o

theorem maybeFlush_errorsRecorded (s : Store) (o : FlushOracle)
    (h : s.errorsRecorded < (maybeFlush s o).errorsRecorded) : (maybeFlush s o).flushError ≠ none := by
  rcases maybeFlush_cases s o with h1 | h1 <;> rw [h1] at h ⊢
  · exact absurd h (Nat.lt_irrefl _)
  · exact flushLocked_errorsRecorded s o h

theorem maybeFlush_consumed (s : Store) (o : FlushOracle) :
    ((maybeFlush s o).pending.map (·.2) ++ (maybeFlush s o).consumed).Perm
      (s.pending.map (·.2) ++ s.consumed) := by
  rcases maybeFlush_cases s o with h1 | h1 <;> rw [h1]
  · rw [flushLocked_pending]; simpa using flushLocked_consumed s o

/-- The three behaviours of `Put`: duplicate, error, enqueued. -/
theorem put_cases (s : Store) (d : Digest) (b : Buf) (o : FlushOracle) :
    (s.pending.any (fun p => p.1 == d) = true ∧
      put s d b o = ({ s with consumed := b :: s.consumed }, none)) ∨
    (∃ c, (maybeFlush s o).flushError = some c ∧
      put s d b o = ({ maybeFlush s o with consumed := b :: (maybeFlush s o).consumed }, some c)) ∨
    ((maybeFlush s o).flushError = none ∧
      put s d b o = ({ maybeFlush s o with pending := (maybeFlush s o).pending ++ [(d, b)] }, none)) := by
  unfold put
  by_cases hd : s.pending.any (fun p => p.1 == d) = true
  · left; simp [hd]
  · right
    simp only [hd]
    cases he : (maybeFlush s o).flushError with
    | none => right; simp
    | some c => left; exact ⟨c, rfl, by simp⟩

theorem put_err_sticky (s : Store) (d : Digest) (b : Buf) (o : FlushOracle) (h : s.flushError ≠ none) :
    (put s d b o).1.flushError ≠ none := by
  rcases put_cases s d b o with ⟨_, h1⟩ | ⟨c, hc, h1⟩ | ⟨hn, h1⟩ <;> rw [h1]
  · exact h
  · simp [hc]
  · exact absurd hn (maybeFlush_err_sticky s o h)

/-- A Put that returns an error leaves that error in `flushError`. -/
theorem put_error_recorded (s : Store) (d : Digest) (b : Buf) (o : FlushOracle) (c : Code)
    (h : (put s d b o).2 = some c) : (put s d b o).1.flushError = some c := by
  rcases put_cases s d b o with ⟨_, h1⟩ | ⟨c', hc, h1⟩ | ⟨hn, h1⟩ <;> rw [h1] at h ⊢
  · simp at h
  · simp at h; simp [hc, h]
  · simp at h

theorem put_cas_mono (s : Store) (d : Digest) (b : Buf) (o : FlushOracle) (x : Digest) (h : x ∈ s.cas) :
    x ∈ (put s d b o).1.cas := by
  rcases put_cases s d b o with ⟨_, h1⟩ | ⟨c', hc, h1⟩ | ⟨hn, h1⟩ <;> rw [h1]
  · exact h
  · exact maybeFlush_cas_mono s o x h
  · exact maybeFlush_cas_mono s o x h

theorem put_errorsRecorded_le (s : Store) (d : Digest) (b : Buf) (o : FlushOracle) :
    s.errorsRecorded ≤ (put s d b o).1.errorsRecorded := by
  rcases put_cases s d b o with ⟨_, h1⟩ | ⟨c', hc, h1⟩ | ⟨hn, h1⟩ <;> rw [h1]
  · exact Nat.le_refl _
  · exact maybeFlush_errorsRecorded_le s o
  · exact maybeFlush_errorsRecorded_le s o

theorem put_errorsRecorded (s : Store) (d : Digest) (b : Buf) (o : FlushOracle)
    (h : s.errorsRecorded < (put s d b o).1.errorsRecorded) : (put s d b o).1.flushError ≠ none := by
  rcases put_cases s d b o with ⟨_, h1⟩ | ⟨c', hc, h1⟩ | ⟨hn, h1⟩ <;> rw [h1] at h ⊢
  · exact absurd h (Nat.lt_irrefl _)
  · simp [hc]
  · exact absurd hn (maybeFlush_errorsRecorded s o h)

/-- The invariant behind `batched_ack_sound`: as long as no error is recorded,
every acknowledged digest is stored or still pending. -/
def Acked (s : Store) (A : List Digest) : Prop :=
  s.flushError = none → ∀ d ∈ A, d ∈ s.cas ∨ d ∈ s.pending.map (·.1)

theorem flushLocked_acked (s : Store) (o : FlushOracle) (A : List Digest) (h : Acked s A) :
    Acked (flushLocked s o) A := by
  intro hnone d hd
  obtain ⟨h0, hp⟩ := flushLocked_sound s o hnone
  left
  rcases h h0 d hd with h1 | h1
  · exact flushLocked_cas_mono s o d h1
  · obtain ⟨p, hp1, hp2⟩ := List.mem_map.1 h1
    subst hp2
    exact hp p hp1

theorem maybeFlush_acked (s : Store) (o : FlushOracle) (A : List Digest) (h : Acked s A) :
    Acked (maybeFlush s o) A := by
  rcases maybeFlush_cases s o with h1 | h1 <;> rw [h1]
  · exact h
  · exact flushLocked_acked s o A h

theorem put_acked (s : Store) (d : Digest) (b : Buf) (o : FlushOracle) (A : List Digest) (h : Acked s A) :
    Acked (put s d b o).1 (if (put s d b o).2 = none then d :: A else A) := by
  rcases put_cases s d b o with ⟨hd, h1⟩ | ⟨c', hc, h1⟩ | ⟨hn, h1⟩ <;> rw [h1]
  · simp only [if_true]
    intro hnone x hx
    rcases List.mem_cons.1 hx with h2 | h2
    · right
      subst h2
      simp only [List.any_eq_true, beq_iff_eq] at hd
      obtain ⟨p, hp1, hp2⟩ := hd
      exact List.mem_map.2 ⟨p, hp1, hp2⟩
    · exact h hnone x h2
  · intro hnone
    simp [hc] at hnone
  · simp only [if_true]
    intro _ x hx
    rcases List.mem_cons.1 hx with h2 | h2
    · right; subst h2; simp
    · rcases maybeFlush_acked s o A h hn x h2 with h3 | h3
      · left; exact h3
      · right
        simp only [List.map_append, List.mem_append]
        left; exact h3

theorem put_consumed (s : Store) (d : Digest) (b : Buf) (o : FlushOracle) :
    ((put s d b o).1.pending.map (·.2) ++ (put s d b o).1.consumed).Perm
      (b :: (s.pending.map (·.2) ++ s.consumed)) := by
  rcases put_cases s d b o with ⟨hd, h1⟩ | ⟨c', hc, h1⟩ | ⟨hn, h1⟩ <;> rw [h1]
  · exact List.perm_middle
  · exact List.perm_middle.trans (List.Perm.cons b (maybeFlush_consumed s o))
  · simp only [List.map_append, List.map_cons, List.map_nil, List.append_assoc, List.singleton_append]
    exact List.perm_middle.trans (List.Perm.cons b (maybeFlush_consumed s o))

theorem flusher_clears (s : Store) (o : FlushOracle) : (flusher s o).1.flushError = none := rfl

theorem flusher_pending (s : Store) (o : FlushOracle) : (flusher s o).1.pending = [] := by
  simp [flusher, flushLocked_pending]

theorem flusher_err_sticky (s : Store) (o : FlushOracle) (h : s.flushError ≠ none) :
    (flusher s o).2 ≠ none := flushLocked_err_sticky s o h

theorem flusher_cas_mono (s : Store) (o : FlushOracle) (x : Digest) (h : x ∈ s.cas) :
    x ∈ (flusher s o).1.cas := flushLocked_cas_mono s o x h

theorem flusher_acked (s : Store) (o : FlushOracle) (A : List Digest) (h : Acked s A)
    (hr : (flusher s o).2 = none) : ∀ d ∈ A, d ∈ (flusher s o).1.cas := by
  intro d hd
  have := flushLocked_acked s o A h hr d hd
  rw [flushLocked_pending] at this
  rcases this with h1 | h1
  · exact h1
  · simp at h1

theorem flusher_consumed (s : Store) (o : FlushOracle) :
    (flusher s o).1.consumed.Perm (s.pending.map (·.2) ++ s.consumed) := flushLocked_consumed s o

theorem flusher_errorsRecorded (s : Store) (o : FlushOracle)
    (h : s.errorsRecorded < (flusher s o).1.errorsRecorded) : (flusher s o).2 ≠ none :=
  flushLocked_errorsRecorded s o h

/-! ### runPuts -/

/-- Digests acknowledged (nil result) in a Put log. -/
def ackedOf (log : List (Digest × Option Code)) : List Digest :=
  (log.filter (fun e => e.2.isNone)).map (·.1)

theorem mem_ackedOf {log : List (Digest × Option Code)} {e : Digest × Option Code}
    (he : e ∈ log) (h : e.2 = none) : e.1 ∈ ackedOf log := by
  unfold ackedOf
  exact List.mem_map.2 ⟨e, List.mem_filter.2 ⟨he, by simp [h]⟩, rfl⟩

theorem runPuts_acked (s : Store) (calls : List PutCall) (A : List Digest) (h : Acked s A) :
    Acked (runPuts s calls).1 (ackedOf (runPuts s calls).2 ++ A) := by
  induction calls generalizing s A with
  | nil => simpa [runPuts, ackedOf] using h
  | cons c cs ih =>
    simp only [runPuts]
    have h1 := put_acked s c.digest c.buf c.oracle A h
    have h2 := ih _ _ h1
    intro hnone x hx
    apply h2 hnone
    simp only [List.mem_append] at hx ⊢
    rcases hx with hx | hx
    · unfold ackedOf at hx
      simp only [List.filter_cons] at hx
      split at hx
      · rename_i hnone'
        simp only [List.map_cons, List.mem_cons] at hx
        rcases hx with hx | hx
        · right
          have : (put s c.digest c.buf c.oracle).2 = none := by
            simpa using hnone'
          simp [this, hx]
        · left; exact hx
      · left; exact hx
    · right
      split
      · exact List.mem_cons_of_mem _ hx
      · exact hx

theorem runPuts_err_sticky (s : Store) (calls : List PutCall) (h : s.flushError ≠ none) :
    (runPuts s calls).1.flushError ≠ none := by
  induction calls generalizing s with
  | nil => simpa [runPuts] using h
  | cons c cs ih =>
    simp only [runPuts]
    exact ih _ (put_err_sticky s c.digest c.buf c.oracle h)

/-- If some Put of the log returned an error, the error is still recorded after all Puts. -/
theorem runPuts_failed (s : Store) (calls : List PutCall)
    (h : ∃ e ∈ (runPuts s calls).2, e.2 ≠ none) : (runPuts s calls).1.flushError ≠ none := by
  induction calls generalizing s with
  | nil => simp [runPuts] at h
  | cons c cs ih =>
    simp only [runPuts] at h ⊢
    obtain ⟨e, he, hne⟩ := h
    rcases List.mem_cons.1 he with h1 | h1
    · subst h1
      simp only at hne
      apply runPuts_err_sticky
      cases hr : (put s c.digest c.buf c.oracle).2 with
      | none => exact absurd hr hne
      | some code =>
        rw [put_error_recorded s c.digest c.buf c.oracle code hr]; simp
    · exact ih _ ⟨e, h1, hne⟩

theorem runPuts_errorsRecorded_le (s : Store) (calls : List PutCall) :
    s.errorsRecorded ≤ (runPuts s calls).1.errorsRecorded := by
  induction calls generalizing s with
  | nil => simp [runPuts]
  | cons c cs ih =>
    simp only [runPuts]
    exact Nat.le_trans (put_errorsRecorded_le s c.digest c.buf c.oracle) (ih _)

theorem runPuts_errorsRecorded (s : Store) (calls : List PutCall)
    (h : s.errorsRecorded < (runPuts s calls).1.errorsRecorded) : (runPuts s calls).1.flushError ≠ none := by
  induction calls generalizing s with
  | nil => simp [runPuts] at h
  | cons c cs ih =>
    simp only [runPuts] at h ⊢
    by_cases h1 : s.errorsRecorded < (put s c.digest c.buf c.oracle).1.errorsRecorded
    · exact runPuts_err_sticky _ _ (put_errorsRecorded s c.digest c.buf c.oracle h1)
    · have : (put s c.digest c.buf c.oracle).1.errorsRecorded = s.errorsRecorded :=
        Nat.le_antisymm (Nat.not_lt.1 h1) (put_errorsRecorded_le _ _ _ _)
      exact ih _ (by rw [this]; exact h)

theorem runPuts_cas_mono (s : Store) (calls : List PutCall) (x : Digest) (h : x ∈ s.cas) :
    x ∈ (runPuts s calls).1.cas := by
  induction calls generalizing s with
  | nil => simpa [runPuts] using h
  | cons c cs ih =>
    simp only [runPuts]
    exact ih _ (put_cas_mono s c.digest c.buf c.oracle x h)

theorem runPuts_log_digests (s : Store) (calls : List PutCall) :
    (runPuts s calls).2.map (·.1) = calls.map (·.digest) := by
  induction calls generalizing s with
  | nil => simp [runPuts]
  | cons c cs ih => simp [runPuts, ih]

theorem runPuts_consumed (s : Store) (calls : List PutCall) :
    ((runPuts s calls).1.pending.map (·.2) ++ (runPuts s calls).1.consumed).Perm
      (calls.map (·.buf) ++ (s.pending.map (·.2) ++ s.consumed)) := by
  induction calls generalizing s with
  | nil => simp [runPuts]
  | cons c cs ih =>
    simp only [runPuts, List.map_cons, List.cons_append]
    refine (ih _).trans ?_
    have := put_consumed s c.digest c.buf c.oracle
    exact (List.Perm.append_left _ this).trans List.perm_middle

/-! ### flushing layer -/

theorem flushingPost_none (s : Store) (resp : Response) (o : FlushOracle) (h : (flusher s o).2 = none) :
    flushingPost s resp o = ((flusher s o).1, resp, none) := by
  unfold flushingPost; simp [h]

theorem flushingPost_some (s : Store) (resp : Response) (o : FlushOracle) (c : Code)
    (h : (flusher s o).2 = some c) :
    flushingPost s resp o = ((flusher s o).1,
      { attachError resp c with files := [], dirs := [], stdout := none, stderr := none, logs := [] }, some c) := by
  unfold flushingPost; simp [h]

theorem flushingPost_store (s : Store) (resp : Response) (o : FlushOracle) :
    (flushingPost s resp o).1 = (flusher s o).1 := by
  cases h : (flusher s o).2 with
  | none => rw [flushingPost_none s resp o h]
  | some c => rw [flushingPost_some s resp o c h]

theorem flushingPost_err (s : Store) (resp : Response) (o : FlushOracle) :
    (flushingPost s resp o).2.2 = (flusher s o).2 := by
  cases h : (flusher s o).2 with
  | none => rw [flushingPost_none s resp o h]
  | some c => rw [flushingPost_some s resp o c h]

theorem cachingPost_store (w : World) (req : Request) (r : Response) (a h : Option Code) :
    (cachingPost w req r a h).1.store = w.store := by
  unfold cachingPost
  split
  · rfl
  · split
    · rfl
    · split
      · split <;> rfl
      · split <;> rfl

/-! ### caching layer -/

/-- The caching layer never touches the advertised outputs. -/
theorem cachingPost_outputs (w : World) (req : Request) (r : Response) (a h : Option Code) :
    (cachingPost w req r a h).2.files = r.files ∧ (cachingPost w req r a h).2.dirs = r.dirs ∧
    (cachingPost w req r a h).2.stdout = r.stdout ∧ (cachingPost w req r a h).2.stderr = r.stderr ∧
    (cachingPost w req r a h).2.logs = r.logs ∧ (cachingPost w req r a h).2.exitCode = r.exitCode := by
  unfold cachingPost attachError
  cases req.digestValid <;> cases req.actionPresent <;> cases req.doNotCache <;>
    cases hs : r.status.err <;> cases a <;> cases h <;> cases isSuccessful r <;> simp



/-- The error, if any, that the caching layer itself adds. -/
def cachingError (req : Request) (flushed : Response) (o : ExecOracle) : Option Code :=
  if !req.digestValid then some invalidArgument
  else if !req.actionPresent then some invalidArgument
  else if !req.doNotCache && isSuccessful flushed then o.ac
  else o.hist

/-- The caching condition evaluated on what the caching layer sees. -/
def cacheable (req : Request) (flushed : Response) : Prop :=
  req.digestValid = true ∧ req.actionPresent = true ∧ req.doNotCache = false ∧
    flushed.status.err = none ∧ flushed.exitCode = 0

theorem cachingPost_acCalls (w : World) (req : Request) (r : Response) (a h : Option Code) :
    ((cachingPost w req r a h).1.acCalls = w.acCalls + 1 ↔ cacheable req r) ∧
    ((cachingPost w req r a h).1.acCalls = w.acCalls ∨ (cachingPost w req r a h).1.acCalls = w.acCalls + 1) := by
  unfold cachingPost cacheable isSuccessful
  cases hdv : req.digestValid <;> cases hap : req.actionPresent <;> cases hdc : req.doNotCache <;>
    cases hs : r.status.err <;> cases a <;> cases h <;>
    by_cases he : r.exitCode = 0 <;> simp [he]

end BbRe.Lemmas.Pipeline
