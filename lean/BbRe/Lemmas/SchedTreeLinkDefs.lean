import BbRe.Model.SchedTreeCheck
import BbRe.Lemmas.SchedTreePrimQueue
import BbRe.Lemmas.SchedTreePrimRefresh
import BbRe.Lemmas.SchedTreePrimPark
import BbRe.Lemmas.SchedTreePrimCreate
import BbRe.Lemmas.SchedTreePrimIdle
import BbRe.Lemmas.SchedInvStep
/-!
The invariant of the tree layer: `Sched`'s invariant for the projection, `TreeOK` for the bags computed
from the state (`Model/SchedTreeCheck.lean`: `bagE`, `bagI`, `bagQ`, `bagP`), and the coupling between
the tree layer's own tables and `Sched.State`.  Plus the list algebra that tells how the bags change when
one task / one worker entry is replaced.
-/
namespace BbRe.Lemmas.SchedTree
open BbRe.Sched BbRe.SchedTree BbRe.Lemmas.SchedInv

/-- coupling of the tree layer's tables with the scheduler state -/
structure Side (ts : TState) : Prop where
  /-- every size-class queue has its root invocation; every invocation belongs to a queue -/
  roots : ∀ sq ∈ ts.s.scqs, (node? ts.nodes sq.id []).isSome = true
  nscq : ∀ n ∈ ts.nodes, ∃ sq ∈ ts.s.scqs, sq.id = n.scq
  /-- one entry of worker extras per worker -/
  wxnd : (ts.wx.map (fun x => (x.scq, x.id))).Nodup
  wxw : ∀ q w, (ts.wx? q w).isSome = (ts.s.worker? q w).isSome
  /-- `listIndex != -1` iff `wakeup != nil`; `lastInvocation == nil` iff the worker has a task -/
  wpl : ∀ q w wk x, ts.s.worker? q w = some wk → ts.wx? q w = some x →
    x.parked = wk.parked ∧ (x.last = none ↔ wk.task.isSome = true)
  /-- `task.operations` agrees with `operationsNameMap` -/
  oxok : ∀ o op, ts.s.op? o = some op → alookup o ts.ox = some ⟨op.inv, op.prio⟩
  /-- a task runs on a worker of its own size-class queue -/
  wq : ∀ k t q w, alookup k ts.s.tasks = some t → t.worker = some (q, w) → q = t.scq

/-- The facts about tasks and workers that the tree layer relies on: a fragment of `SchedInv.Core` and
`SchedInv.OInv` that does not mention the operation table, the event log or the exemption sets (so that it
also holds at the intermediate states of `task.complete` / `operation.remove`). -/
structure MCore (ex : Nat → Prop) (s : State) : Prop where
  tnd : (keys s.tasks).Nodup
  tid : ∀ k t, alookup k s.tasks = some t → t.id = k ∧ k < s.nextTask
  p2 : ∀ k t q w, alookup k s.tasks = some t → t.worker = some (q, w) →
        ∃ wk, wfind s.workers q w = some wk ∧ wk.task = some k
  p3 : ∀ k t, alookup k s.tasks = some t → t.worker.isSome = true → t.response = none
  q1 : ∀ k t, alookup k s.tasks = some t → t.queued = true → t.worker = none ∧ t.response = none
  /-- an uncompleted task is queued or assigned, unless it is the one being processed -/
  q2 : ∀ k t, alookup k s.tasks = some t → t.response = none → t.queued = true ∨ t.worker.isSome = true ∨ ex k
  w1 : ∀ q w wk, wfind s.workers q w = some wk → wk.parked = true → wk.task = none

structure MOInv (s : State) : Prop where
  o3 : ∀ k t, alookup k s.tasks = some t → t.ops.Nodup ∧ t.ops ≠ []
  /-- an operation belongs to one task -/
  own : ∀ k t k' t' o, alookup k s.tasks = some t → alookup k' s.tasks = some t' → o ∈ t.ops → o ∈ t'.ops → k = k'
  /-- operation names are issued from `nextOp` -/
  bound : ∀ k t o, alookup k s.tasks = some t → o ∈ t.ops → o < s.nextOp

structure MInv (ex : Nat → Prop) (s : State) : Prop where
  core : MCore ex s
  oinv : MOInv s

theorem MInv.of_inv {ex} {s : State} (h : InvX ex (fun _ => False) s) : MInv ex s := by
  refine ⟨⟨h.core.tnd, h.core.tid, h.core.p2, h.core.p3, h.core.q1, h.core.q2,
    fun q w wk a b => (h.core.w1 q w wk a b).1⟩, ⟨h.oinv.o3, ?_, fun k t o a b => (h.oinv.o2 k t o a b).1⟩⟩
  intro k t k' t' o h1 h2 ho ho'
  rcases (h.oinv.o2 k t o h1 ho).2 with b | ⟨op, e1, e2⟩
  · exact absurd b id
  · rcases (h.oinv.o2 k' t' o h2 ho').2 with b | ⟨op', e1', e2'⟩
    · exact absurd b id
    · rw [e1] at e1'; cases e1'; rw [← e2, ← e2']

/-- `MInv` only looks at tasks, workers and the two counters -/
theorem MInv.of_eq {ex} {s s' : State} (h : MInv ex s) (ht : s'.tasks = s.tasks) (hw : s'.workers = s.workers)
    (hnt : s'.nextTask = s.nextTask) (hno : s'.nextOp = s.nextOp) : MInv ex s' := by
  obtain ⟨⟨a, a', b, c, d, d', e⟩, ⟨f, g, i⟩⟩ := h
  exact ⟨⟨by rw [ht]; exact a, by rw [ht, hnt]; exact a', by rw [ht, hw]; exact b, by rw [ht]; exact c, by rw [ht]; exact d,
    by rw [ht]; exact d', by rw [hw]; exact e⟩, ⟨by rw [ht]; exact f, by rw [ht]; exact g, by rw [ht, hno]; exact i⟩⟩

theorem MInv.mono {ex ex'} {s : State} (h : MInv ex s) (hx : ∀ k, ex k → ex' k) : MInv ex' s := by
  obtain ⟨⟨a, a', b, c, d, d', e⟩, o⟩ := h
  refine ⟨⟨a, a', b, c, d, ?_, e⟩, o⟩
  intro k t h1 h2
  rcases d' k t h1 h2 with x | x | x
  · exact Or.inl x
  · exact Or.inr (Or.inl x)
  · exact Or.inr (Or.inr (hx k x))

/-- the invariant of the tree layer at a (possibly intermediate) state; `X` = invocations that may still be
empty, `ex` = the task that is being processed (neither queued nor assigned for the moment); `exo` is not
used any more (kept so that statements need not change). -/
structure TInvX (ex exo : Nat → Prop) (X : List (ScqId × List Nat)) (ts : TState) : Prop where
  inv : MInv ex ts.s
  tree : TreeOK X ts.nodes (bagE ts) (bagI ts) (bagQ ts) (bagP ts)
  side : Side ts

/-- the invariant of the tree layer between segments -/
structure TInv (ts : TState) : Prop where
  inv : Inv ts.s
  tree : TreeOK [] ts.nodes (bagE ts) (bagI ts) (bagQ ts) (bagP ts)
  side : Side ts

/-- the part of the invariant that is about the tree layer's own tables -/
structure TS (X : List (ScqId × List Nat)) (ts : TState) : Prop where
  tree : TreeOK X ts.nodes (bagE ts) (bagI ts) (bagQ ts) (bagP ts)
  side : Side ts

theorem TInvX.ts {ex exo X ts} (h : TInvX ex exo X ts) : TS X ts := ⟨h.tree, h.side⟩
theorem TInvX.mk' {ex exo X ts} (hi : MInv ex ts.s) (h : TS X ts) : TInvX ex exo X ts := ⟨hi, h.tree, h.side⟩
theorem TInv.ts {ts} (h : TInv ts) : TS [] ts := ⟨h.tree, h.side⟩
theorem TInv.x {ts} (h : TInv ts) : TInvX (fun _ => False) (fun _ => False) [] ts := ⟨MInv.of_inv h.inv, h.tree, h.side⟩

/-! ### replacing one entry of an association list -/

theorem flatMap_aset_some {α β} (f : Nat × α → List β) (k : Nat) (v1 : α) :
    ∀ (l : List (Nat × α)) (v0 : α), alookup k l = some v0 →
      (l.flatMap f ++ f (k, v1)).Perm ((aset k v1 l).flatMap f ++ f (k, v0)) := by
  intro l
  induction l with
  | nil => intro v0 h; cases h
  | cons a t ih =>
    intro v0 h
    obtain ⟨ka, va⟩ := a
    simp only [alookup] at h
    simp only [aset]
    by_cases hk : ka = k
    · simp only [hk, if_true] at h ⊢
      cases h
      simp only [List.flatMap_cons]
      refine List.Perm.trans (List.perm_append_comm) ?_
      refine List.Perm.trans ?_ (List.perm_append_comm)
      rw [← List.append_assoc, ← List.append_assoc]
      exact List.Perm.append_right _ List.perm_append_comm
    · simp only [hk, if_false] at h ⊢
      simp only [List.flatMap_cons, List.append_assoc]
      exact List.Perm.append_left _ (ih v0 h)

theorem flatMap_aset_none {α β} (f : Nat × α → List β) (k : Nat) (v1 : α) :
    ∀ (l : List (Nat × α)), alookup k l = none → (aset k v1 l).flatMap f = l.flatMap f ++ f (k, v1) := by
  intro l
  induction l with
  | nil => intro _; simp [aset]
  | cons a t ih =>
    intro h
    obtain ⟨ka, va⟩ := a
    simp only [alookup] at h
    by_cases hk : ka = k
    · simp [hk] at h
    · simp only [hk, if_false] at h
      simp only [aset, hk, if_false, List.flatMap_cons, ih h, List.append_assoc]

theorem flatMap_aerase_some {α β} (f : Nat × α → List β) (k : Nat) :
    ∀ (l : List (Nat × α)) (v0 : α), alookup k l = some v0 →
      (l.flatMap f).Perm (f (k, v0) ++ (aerase k l).flatMap f) := by
  intro l
  induction l with
  | nil => intro v0 h; cases h
  | cons a t ih =>
    intro v0 h
    obtain ⟨ka, va⟩ := a
    simp only [alookup] at h
    simp only [aerase]
    by_cases hk : ka = k
    · simp only [hk, if_true] at h ⊢
      cases h
      simp only [List.flatMap_cons]
      exact List.Perm.refl _
    · simp only [hk, if_false] at h ⊢
      simp only [List.flatMap_cons]
      refine List.Perm.trans (List.Perm.append_left _ (ih v0 h)) ?_
      rw [← List.append_assoc, ← List.append_assoc]
      exact List.Perm.append_right _ List.perm_append_comm

/-! ### replacing the entry of one worker in the list of extras -/

def wxkey (x : WX) : ScqId × WId := (x.scq, x.id)

theorem wx?_eq (ts : TState) (q : ScqId) (w : WId) : ts.wx? q w = ts.wx.find? (fun x => x.scq = q ∧ x.id = w) := rfl

/-- with distinct keys, `setWX` changes exactly the entry found by `find?` -/
theorem flatMap_setWX {β} (f : WX → List β) (q : ScqId) (w : WId) (g : WX → WX) (hg : ∀ x, wxkey (g x) = wxkey x) :
    ∀ (l : List WX), (l.map wxkey).Nodup → ∀ x0, l.find? (fun x => x.scq = q ∧ x.id = w) = some x0 →
      (l.flatMap f ++ f (g x0)).Perm ((setWX l q w g).flatMap f ++ f x0) := by
  intro l
  induction l with
  | nil => intro _ x0 h; cases h
  | cons a t ih =>
    intro hnd x0 h
    simp only [List.map_cons, List.nodup_cons] at hnd
    rw [List.find?_cons] at h
    by_cases ha : (a.scq = q ∧ a.id = w)
    · simp only [ha, and_self, decide_true] at h
      cases h
      -- the rest of the list has no entry with this key
      have hrest : setWX t q w g = t := by
        unfold setWX
        have : ∀ x ∈ t, (if x.scq = q ∧ x.id = w then g x else x) = x := by
          intro x hx
          split
          · rename_i hk
            exfalso; apply hnd.1
            rw [List.mem_map]; exact ⟨x, hx, by simp [wxkey, hk.1, hk.2, ha.1, ha.2]⟩
          · rfl
        rw [List.map_congr_left this, List.map_id']
      have hhead : setWX (a :: t) q w g = g a :: t := by
        show (if a.scq = q ∧ a.id = w then g a else a) :: setWX t q w g = _
        rw [hrest]; simp [ha]
      rw [hhead]
      simp only [List.flatMap_cons]
      refine List.Perm.trans (List.perm_append_comm) ?_
      refine List.Perm.trans ?_ (List.perm_append_comm)
      rw [← List.append_assoc, ← List.append_assoc]
      exact List.Perm.append_right _ List.perm_append_comm
    · have ha' : decide (a.scq = q ∧ a.id = w) = false := by simpa using ha
      rw [ha'] at h
      have hhead : setWX (a :: t) q w g = a :: setWX t q w g := by
        show (if a.scq = q ∧ a.id = w then g a else a) :: setWX t q w g = _
        simp [ha]
      rw [hhead]
      simp only [List.flatMap_cons, List.append_assoc]
      exact List.Perm.append_left _ (ih hnd.2 x0 h)

theorem setWX_keys (l : List WX) (q : ScqId) (w : WId) (g : WX → WX) (hg : ∀ x, wxkey (g x) = wxkey x) :
    (setWX l q w g).map wxkey = l.map wxkey := by
  unfold setWX
  rw [List.map_map]
  apply List.map_congr_left
  intro x _
  simp only [Function.comp]
  split
  · exact hg x
  · rfl

theorem find?_setWX (l : List WX) (q : ScqId) (w : WId) (g : WX → WX) (hg : ∀ x, wxkey (g x) = wxkey x)
    (q' : ScqId) (w' : WId) :
    (setWX l q w g).find? (fun x => x.scq = q' ∧ x.id = w') =
      (l.find? (fun x => x.scq = q' ∧ x.id = w')).map (fun x => if x.scq = q ∧ x.id = w then g x else x) := by
  induction l with
  | nil => rfl
  | cons a t ih =>
    have hk : ∀ y : WX, ((if a.scq = q ∧ a.id = w then g a else a).scq = q' ∧ (if a.scq = q ∧ a.id = w then g a else a).id = w') ↔
        (a.scq = q' ∧ a.id = w') := by
      intro _
      split
      · have := hg a; simp only [wxkey, Prod.mk.injEq] at this; rw [this.1, this.2]
      · rfl
    show List.find? _ ((if a.scq = q ∧ a.id = w then g a else a) :: setWX t q w g) = _
    rw [List.find?_cons, List.find?_cons]
    by_cases hc : a.scq = q' ∧ a.id = w'
    · have h1 : decide ((if a.scq = q ∧ a.id = w then g a else a).scq = q' ∧ (if a.scq = q ∧ a.id = w then g a else a).id = w') = true := by
        simpa using (hk a).mpr hc
      have h2 : decide (a.scq = q' ∧ a.id = w') = true := by simpa using hc
      rw [h1, h2]; rfl
    · have h1 : decide ((if a.scq = q ∧ a.id = w then g a else a).scq = q' ∧ (if a.scq = q ∧ a.id = w then g a else a).id = w') = false := by
        simpa using fun h => hc ((hk a).mp h)
      have h2 : decide (a.scq = q' ∧ a.id = w') = false := by simpa using hc
      rw [h1, h2]; exact ih

end BbRe.Lemmas.SchedTree
