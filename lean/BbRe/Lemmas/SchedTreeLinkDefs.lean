import BbRe.Lemmas.SchedTreePrimStruct
/-!
The four bags of `Lemmas/SchedTreeInvDefs.lean` computed from the state of the tree layer, and how they
change when a task, a worker or a worker's extras are replaced.
-/
namespace BbRe.Lemmas.SchedTree
open BbRe.Sched BbRe.SchedTree

/-! ### contributions of one task / worker -/

/-- executing operations of task `t` (one per operation, if the task is assigned to a worker) -/
def conE (ox : List (Nat × OX)) (t : Task) : List EC :=
  match t.worker with
  | some (_, w) => t.ops.map (fun o => (t.scq, (match alookup o ox with | some y => y.inv | none => []), some w))
  | none => []

/-- queued operations of task `t` -/
def conQ (ox : List (Nat × OX)) (t : Task) : List QC :=
  if t.queued then t.ops.map (fun o => (t.scq, (match alookup o ox with | some y => y.inv | none => []), o)) else []

def conI (x : WX) : List IC := match x.last with | some p => [(x.scq, p)] | none => []

def lastIn (wx : List WX) (q : ScqId) (w : WId) : Option (List Nat) :=
  match wx.find? (fun x => x.scq = q ∧ x.id = w) with | some x => x.last | none => none

def conP (wx : List WX) (w : Worker) : List PC :=
  if w.parked then (match lastIn wx w.scq w.id with | some p => [(w.scq, p, w.id)] | none => []) else []

def bagE (ts : TState) : List EC := ts.s.tasks.flatMap (fun kt => conE ts.ox kt.2)
def bagQ (ts : TState) : List QC := ts.s.tasks.flatMap (fun kt => conQ ts.ox kt.2)
def bagI (ts : TState) : List IC := ts.wx.flatMap conI
def bagP (ts : TState) : List PC := ts.s.workers.flatMap (conP ts.wx)

theorem lastIn_eq (ts : TState) (q : ScqId) (w : WId) : lastIn ts.wx q w = ts.lastOf q w := by
  unfold lastIn TState.lastOf TState.wx?; rfl

theorem invOf_eq (ts : TState) (o : Nat) :
    (match alookup o ts.ox with | some y => y.inv | none => []) = ts.invOf o := rfl

/-! ### replacing one entry of an association list -/

theorem flatMap_aset_some {α β} (f : Nat × α → List β) (hf : ∀ k k' v, f (k, v) = f (k', v)) (k : Nat) (v1 : α) :
    ∀ (l : List (Nat × α)) (v0 : α), alookup k l = some v0 →
      (l.flatMap f ++ f (k, v1)).Perm ((aset k v1 l).flatMap f ++ f (k, v0)) := by
  intro l
  induction l with
  | nil => intro v0 h; cases h
  | cons a t ih =>
    intro v0 h
    obtain ⟨ka, va⟩ := a
    simp only [alookup] at h
    simp only [aset]
    by_cases hk : ka = k
    · simp only [hk, if_true] at h ⊢
      cases h
      simp only [List.flatMap_cons]
      -- (f (k,v0) ++ rest) ++ f (k,v1)  ~  (f (k,v1) ++ rest) ++ f (k,v0)
      refine List.Perm.trans (List.perm_append_comm) ?_
      refine List.Perm.trans ?_ (List.perm_append_comm)
      rw [← List.append_assoc, ← List.append_assoc]
      exact List.Perm.append_right _ List.perm_append_comm
    · simp only [hk, if_false] at h ⊢
      simp only [List.flatMap_cons, List.append_assoc]
      exact List.Perm.append_left _ (ih v0 h)

theorem flatMap_aset_none {α β} (f : Nat × α → List β) (k : Nat) (v1 : α) :
    ∀ (l : List (Nat × α)), alookup k l = none → (aset k v1 l).flatMap f = l.flatMap f ++ f (k, v1) := by
  intro l
  induction l with
  | nil => intro _; simp [aset]
  | cons a t ih =>
    intro h
    obtain ⟨ka, va⟩ := a
    simp only [alookup] at h
    by_cases hk : ka = k
    · simp [hk] at h
    · simp only [hk, if_false] at h
      simp only [aset, hk, if_false, List.flatMap_cons, ih h, List.append_assoc]

theorem flatMap_aerase_some {α β} (f : Nat × α → List β) (k : Nat) :
    ∀ (l : List (Nat × α)) (v0 : α), alookup k l = some v0 →
      (l.flatMap f).Perm (f (k, v0) ++ (aerase k l).flatMap f) := by
  intro l
  induction l with
  | nil => intro v0 h; cases h
  | cons a t ih =>
    intro v0 h
    obtain ⟨ka, va⟩ := a
    simp only [alookup] at h
    simp only [aerase]
    by_cases hk : ka = k
    · simp only [hk, if_true] at h ⊢
      cases h
      simp only [List.flatMap_cons]
      exact List.Perm.refl _
    · simp only [hk, if_false] at h ⊢
      simp only [List.flatMap_cons]
      refine List.Perm.trans (List.Perm.append_left _ (ih v0 h)) ?_
      rw [← List.append_assoc, ← List.append_assoc]
      exact List.Perm.append_right _ List.perm_append_comm

end BbRe.Lemmas.SchedTree
