import BbRe.Lemmas.NfsInvDefs
import BbRe.Lemmas.NfsInvS
import BbRe.Lemmas.NfsInvK
import BbRe.Lemmas.NfsInvG
import BbRe.Lemmas.NfsInvC
import BbRe.Lemmas.NfsInvPLR
/-!
# The invariant of `Model/NfsState.lean` holds in every reachable state

Assembles the five groups (`NfsInvS/K/G/C/PLR.lean`).  Reachable = any sequence
of core actions from `init`; every protocol step (`step`) is such a sequence by
definition, so the invariant holds after every protocol history as well.
-/
namespace BbRe.Lemmas.NfsInv
open BbRe.NfsState BbRe.NfsShare

theorem inv_init (ver n : Nat) : Inv (init ver n) :=
  ⟨NfsInvS.invS_init ver n, NfsInvK.invK_init ver n, NfsInvG.invG_init ver n, NfsInvC.invC_init ver n,
   NfsInvPLR.invP_init ver n, NfsInvPLR.invL_init ver n, NfsInvPLR.invR_init ver n⟩

theorem inv_apply (s : State) (a : Act) (h : Inv s) : Inv (apply s a) :=
  ⟨NfsInvS.invS_apply s a h.s, NfsInvK.invK_apply s a h.s h.k, NfsInvG.invG_apply s a h.s h.k h.g,
   NfsInvC.invC_apply s a h.c, NfsInvPLR.invP_apply s a h.s h.p, NfsInvPLR.invL_apply s a h.s h.l,
   NfsInvPLR.invR_apply s a h.r⟩

theorem inv_applyAll (s : State) (acts : List Act) (h : Inv s) : Inv (applyAll s acts) := by
  induction acts generalizing s with
  | nil => exact h
  | cons a rest ih => exact ih (apply s a) (inv_apply s a h)

/-- One protocol step is a sequence of core actions. -/
theorem inv_step (s : State) (op : Op) (h : Inv s) : Inv (step s op).1 :=
  inv_applyAll s (plan s op).1 h

/-- Run a protocol history. -/
def runOps (s : State) : List Op → State
  | [] => s
  | op :: rest => runOps (step s op).1 rest

theorem inv_runOps (s : State) (ops : List Op) (h : Inv s) : Inv (runOps s ops) := by
  induction ops generalizing s with
  | nil => exact h
  | cons op rest ih => exact ih (step s op).1 (inv_step s op h)

theorem inv_reachable (ver n : Nat) (acts : List Act) : Inv (applyAll (init ver n) acts) :=
  inv_applyAll _ acts (inv_init ver n)

theorem inv_reachable_ops (ver n : Nat) (ops : List Op) : Inv (runOps (init ver n) ops) :=
  inv_runOps _ ops (inv_init ver n)

end BbRe.Lemmas.NfsInv
