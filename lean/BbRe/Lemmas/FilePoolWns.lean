import BbRe.Lemmas.FilePoolDev
/-!
`writeToNewSectors`, device contents: after a successful call every allocated
sector is completely written — the data where it belongs, hole-source contents
everywhere else — and nothing outside the allocated run changes (on any path).
-/
namespace BbRe.Lemmas.FilePool
open BbRe.FilePool

theorem getD_append_lt (a b : List Byte) (j : Nat) (h : j < a.length) : (a ++ b).getD j 0 = a.getD j 0 := by
  simp only [List.getD_eq_getElem?_getD, List.getElem?_append_left h]

theorem getD_append_ge (a b : List Byte) (j : Nat) (h : a.length ≤ j) :
    (a ++ b).getD j 0 = b.getD (j - a.length) 0 := by
  simp only [List.getD_eq_getElem?_getD, List.getElem?_append_right h]

theorem getD_take (l : List Byte) (n j : Nat) (h : j < n) : (l.take n).getD j 0 = l.getD j 0 := by
  simp only [List.getD_eq_getElem?_getD, List.getElem?_take, h, ↓reduceIte]

theorem getD_dropB (l : List Byte) (n j : Nat) : (l.drop n).getD j 0 = l.getD (n + j) 0 := by
  simp only [List.getD_eq_getElem?_getD, List.getElem?_drop]

theorem getD_ge (l : List Byte) (j : Nat) (h : l.length ≤ j) : l.getD j 0 = 0 := by
  simp only [List.getD_eq_getElem?_getD, List.getElem?_eq_none h, Option.getD_none]

/-- what byte `j` of the run of new sectors has to hold. -/
def tgt (ss : Nat) (h : Hole) (p : List Byte) (idx ow j : Nat) : Byte :=
  if ow ≤ j ∧ j < ow + p.length then p.getD (j - ow) 0 else h.read (idx * ss + j)

theorem ceil_bounds (a ss : Nat) (hss : 0 < ss) :
    a ≤ (a + ss - 1) / ss * ss ∧ (a + ss - 1) / ss * ss < a + ss := by
  have h1 := Nat.div_mul_le_self (a + ss - 1) ss
  have h2 := Nat.lt_mul_div_succ (a + ss - 1) hss
  rw [Nat.mul_add, Nat.mul_one, Nat.mul_comm] at h2
  omega

theorem lt_of_mul_lt {a b ss : Nat} (h : a * ss < b * ss) : a < b :=
  Nat.lt_of_mul_lt_mul_right h

theorem le_of_mul_le {a b ss : Nat} (hss : 0 < ss) (h : a * ss ≤ b * ss) : a ≤ b :=
  Nat.le_of_mul_le_mul_right h hss

/-- contents of the first-sector buffer. -/
theorem buf1_getD (ss : Nat) (h : Hole) (p : List Byte) (idx ow j : Nat) (how : ow < ss) (hj : j < ss) :
    (h.bytes (idx * ss) ow ++ p.take (min (ss - ow) p.length) ++
      (if ow + p.length < ss then h.bytes (idx * ss + (ow + p.length)) (ss - (ow + p.length)) else [])).getD j 0 =
    tgt ss h p idx ow j := by
  unfold tgt
  have hl1 : (h.bytes (idx * ss) ow).length = ow := holeBytes_length _ _ _
  have hl2 : (p.take (min (ss - ow) p.length)).length = min (ss - ow) p.length := by
    rw [List.length_take]; omega
  by_cases h1 : j < ow
  · rw [List.append_assoc, getD_append_lt _ _ _ (by omega), holeBytes_getD _ _ _ _ h1, if_neg (by omega)]
  · by_cases h2 : j < ow + min (ss - ow) p.length
    · rw [getD_append_lt _ _ _ (by rw [List.length_append]; omega), getD_append_ge _ _ _ (by omega), hl1,
        getD_take _ _ _ (by omega), if_pos (by omega)]
    · have hlt : ow + p.length < ss := by omega
      have hmin : min (ss - ow) p.length = p.length := by omega
      rw [getD_append_ge _ _ _ (by rw [List.length_append]; omega), List.length_append, hl1, hl2, hmin,
        if_pos hlt, holeBytes_getD _ _ _ _ (by omega), if_neg (by omega)]
      congr 1; omega

theorem buf1_length (ss : Nat) (h : Hole) (p : List Byte) (idx ow : Nat) (how : ow < ss) :
    (h.bytes (idx * ss) ow ++ p.take (min (ss - ow) p.length) ++
      (if ow + p.length < ss then h.bytes (idx * ss + (ow + p.length)) (ss - (ow + p.length)) else [])).length = ss := by
  simp only [List.length_append, holeBytes_length, List.length_take]
  split
  · simp only [holeBytes_length]; omega
  · simp only [List.length_nil]; omega

/-- Phases 2 and 3 as pure device updates, starting after `w ∈ {0,1}` complete
sectors: pointwise contents of the whole run and the frame. -/
theorem phase23_point (ss : Nat) (h : Hole) (p : List Byte) (t0 idx ow w : Nat) (dev1 : Array Byte)
    (hss : 0 < ss) (how : ow < ss) (hw : (w = 0 ∧ ow = 0) ∨ (w = 1 ∧ 0 < ow))
    (hdone : ∀ j, j < w * ss → rd dev1 (t0 * ss + j) = tgt ss h p idx ow j)
    (rest : List Byte) (hrest : rest = p.drop (w * ss - ow))
    (full : Nat) (hfull : full = rest.length / ss)
    (dev2 : Array Byte) (hdev2 : dev2 = writeBytes dev1 ((t0 + w) * ss) (rest.take (full * ss)))
    (rest2 : List Byte) (hrest2 : rest2 = rest.drop (full * ss))
    (dev3 : Array Byte)
    (hdev3 : dev3 = if rest2.length > 0 then
        writeBytes dev2 ((t0 + w + full) * ss)
          (rest2 ++ h.bytes ((idx + w + full) * ss + rest2.length) (ss - rest2.length))
      else dev2) :
    (∀ j, j < (ow + p.length + ss - 1) / ss * ss → rd dev3 (t0 * ss + j) = tgt ss h p idx ow j) ∧
      (∀ q, (q < (t0 + w) * ss ∨ (t0 + (ow + p.length + ss - 1) / ss) * ss ≤ q) → rd dev3 q = rd dev1 q) := by
  obtain ⟨hW1, hW2⟩ := ceil_bounds (ow + p.length) ss hss
  generalize hWd : (ow + p.length + ss - 1) / ss = W at hW1 hW2 ⊢
  have hR : rest.length = p.length - (w * ss - ow) := by rw [hrest, List.length_drop]
  have hdm := Nat.div_add_mod rest.length ss
  have hmod := Nat.mod_lt rest.length hss
  rw [← hfull, Nat.mul_comm] at hdm
  have hR2 : rest2.length = rest.length % ss := by
    rw [hrest2, List.length_drop]; omega
  have hwss : (w * ss = 0 ∧ ow = 0) ∨ (w * ss = ss ∧ 0 < ow) := by
    rcases hw with ⟨h0, h1⟩ | ⟨h0, h1⟩
    · left; rw [h0, Nat.zero_mul]; exact ⟨rfl, h1⟩
    · right; rw [h0, Nat.one_mul]; exact ⟨rfl, h1⟩
  have hwow : ow ≤ w * ss := by rcases hwss with ⟨_, h1⟩ | ⟨h0, _⟩ <;> omega
  -- a ≤ w*ss + R
  have haR : ow + p.length ≤ w * ss + rest.length := by omega
  have hW1' : 1 ≤ W ∨ ow + p.length = 0 := by
    by_cases hz : ow + p.length = 0
    · exact Or.inr hz
    · left
      cases W with
      | zero => rw [Nat.zero_mul] at hW1; omega
      | succ k => omega
  have hA : w * ss + full * ss ≤ W * ss := by
    by_cases hr0 : rest.length = 0
    · have hf0 : full * ss = 0 := by omega
      rcases hwss with ⟨h0, _⟩ | ⟨h0, h1⟩
      · omega
      · rcases hW1' with h2 | h2
        · have := Nat.le_mul_of_pos_left ss h2; omega
        · omega
    · omega
  have hC : rest2.length = 0 → W * ss ≤ w * ss + full * ss := by
    intro hz
    have h1 : W * ss < (w + full + 1) * ss := by
      rw [Nat.add_mul, Nat.add_mul, Nat.one_mul]; omega
    have h2 : W ≤ w + full := by have := lt_of_mul_lt h1; omega
    have := Nat.mul_le_mul_right ss h2
    rw [Nat.add_mul] at this; exact this
  have hD : W * ss ≤ w * ss + full * ss + ss := by
    have h1 : W * ss < (w + full + 2) * ss := by
      rw [Nat.add_mul, Nat.add_mul]; omega
    have h2 : W ≤ w + full + 1 := by have := lt_of_mul_lt h1; omega
    have := Nat.mul_le_mul_right ss h2
    rw [Nat.add_mul, Nat.add_mul, Nat.one_mul] at this; exact this
  have hB : rest2.length > 0 → w * ss + full * ss + ss ≤ W * ss := by
    intro hpos
    have h1 : (w + full) * ss < W * ss := by rw [Nat.add_mul]; omega
    have h2 : w + full + 1 ≤ W := lt_of_mul_lt h1
    have := Nat.mul_le_mul_right ss h2
    rw [Nat.add_mul, Nat.add_mul, Nat.one_mul] at this; exact this
  have e1 : (t0 + w) * ss = t0 * ss + w * ss := Nat.add_mul _ _ _
  have e2 : (t0 + w + full) * ss = t0 * ss + w * ss + full * ss := by rw [Nat.add_mul, Nat.add_mul]
  have e3 : (idx + w + full) * ss = idx * ss + w * ss + full * ss := by rw [Nat.add_mul, Nat.add_mul]
  have e4 : (t0 + W) * ss = t0 * ss + W * ss := Nat.add_mul _ _ _
  have hl2 : (rest.take (full * ss)).length = full * ss := by rw [List.length_take]; omega
  have hl3 : (rest2 ++ h.bytes ((idx + w + full) * ss + rest2.length) (ss - rest2.length)).length = ss := by
    rw [List.length_append, holeBytes_length]; omega
  constructor
  · intro j hj
    by_cases hj1 : j < w * ss
    · -- already complete before phase 2
      have h3 : rd dev3 (t0 * ss + j) = rd dev2 (t0 * ss + j) := by
        rw [hdev3]; split
        · rw [rd_writeBytes_outside _ _ _ _ (by left; rw [e2]; omega)]
        · rfl
      rw [h3, hdev2, rd_writeBytes_outside _ _ _ _ (by left; rw [e1]; omega)]
      exact hdone j hj1
    · by_cases hj2 : j < w * ss + full * ss
      · have h3 : rd dev3 (t0 * ss + j) = rd dev2 (t0 * ss + j) := by
          rw [hdev3]; split
          · rw [rd_writeBytes_outside _ _ _ _ (by left; rw [e2]; omega)]
          · rfl
        rw [h3, hdev2, rd_writeBytes, if_pos (by rw [e1, hl2]; omega), getD_take _ _ _ (by rw [e1]; omega),
          hrest, getD_dropB]
        unfold tgt
        rw [if_pos (by omega)]
        congr 1; rw [e1]; omega
      · have hpos : rest2.length > 0 := by
          rcases Nat.eq_zero_or_pos rest2.length with hz | hz
          · have := hC hz; omega
          · exact hz
        rw [hdev3, if_pos hpos, rd_writeBytes, if_pos (by rw [e2, hl3]; omega)]
        by_cases hj3 : t0 * ss + j - (t0 + w + full) * ss < rest2.length
        · rw [getD_append_lt _ _ _ hj3, hrest2, getD_dropB, hrest, getD_dropB]
          unfold tgt
          rw [if_pos (by rw [e2] at hj3; omega)]
          congr 1; rw [e2]; omega
        · rw [getD_append_ge _ _ _ (by omega), holeBytes_getD _ _ _ _ (by rw [e2] at hj3 ⊢; omega)]
          unfold tgt
          rw [if_neg (by rw [e2] at hj3; omega)]
          congr 1; rw [e2, e3]; rw [e2] at hj3; omega
  · intro q hq
    have h3 : rd dev3 q = rd dev2 q := by
      rw [hdev3]; split
      · rename_i hpos
        have := hB hpos
        rw [rd_writeBytes_outside _ _ _ _ (by rw [hl3, e2]; rw [e1, e4] at hq; omega)]
      · rfl
    rw [h3, hdev2, rd_writeBytes_outside _ _ _ _ (by rw [hl2, e1]; rw [e1, e4] at hq; omega)]

/-- the arithmetic behind "the three phases stay inside the `W` sectors asked for". -/
theorem run_bounds (ss ow P w full R : Nat) (hss : 0 < ss) (how : ow < ss)
    (hw : (w = 0 ∧ ow = 0) ∨ (w = 1 ∧ 0 < ow)) (hR : R = P - (w * ss - ow)) (hfull : full = R / ss) :
    w * ss + full * ss ≤ (ow + P + ss - 1) / ss * ss ∧
      (R % ss > 0 → w * ss + full * ss + ss ≤ (ow + P + ss - 1) / ss * ss) ∧
      (0 < ow + P → ss ≤ (ow + P + ss - 1) / ss * ss) := by
  obtain ⟨hW1, hW2⟩ := ceil_bounds (ow + P) ss hss
  generalize (ow + P + ss - 1) / ss = W at hW1 hW2 ⊢
  have hdm := Nat.div_add_mod R ss
  have hmod := Nat.mod_lt R hss
  rw [← hfull, Nat.mul_comm] at hdm
  have hwss : (w * ss = 0 ∧ ow = 0) ∨ (w * ss = ss ∧ 0 < ow) := by
    rcases hw with ⟨h0, h1⟩ | ⟨h0, h1⟩
    · left; rw [h0, Nat.zero_mul]; exact ⟨rfl, h1⟩
    · right; rw [h0, Nat.one_mul]; exact ⟨rfl, h1⟩
  have hW1' : 0 < ow + P → ss ≤ W * ss := by
    intro hpos
    cases W with
    | zero => rw [Nat.zero_mul] at hW1; omega
    | succ k => rw [Nat.add_mul, Nat.one_mul]; omega
  refine ⟨?_, ?_, hW1'⟩
  · by_cases hr0 : R = 0
    · have hf0 : full * ss = 0 := by omega
      rcases hwss with ⟨h0, _⟩ | ⟨h0, h1⟩
      · omega
      · have := hW1' (by omega); omega
    · omega
  · intro hpos
    have h1 : (w + full) * ss < W * ss := by rw [Nat.add_mul]; omega
    have h2 : w + full + 1 ≤ W := lt_of_mul_lt h1
    have := Nat.mul_le_mul_right ss h2
    rw [Nat.add_mul, Nat.add_mul, Nat.one_mul] at this; exact this

theorem drop_min_length (l : List Byte) (a : Nat) : l.drop (min a l.length) = l.drop a := by
  by_cases h : a ≤ l.length
  · rw [Nat.min_eq_left h]
  · rw [Nat.min_eq_right (by omega), List.drop_length, List.drop_eq_nil_of_le (by omega)]

end BbRe.Lemmas.FilePool
