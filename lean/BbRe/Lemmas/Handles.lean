import BbRe.Model.Handles
/-!
Invariant of `Model/Handles.lean` over all histories that respect the caller contract and the
random number generator assumption (`legalOp`).
-/
namespace BbRe.Lemmas.Handles
open BbRe.Handles

/-- Caller contract and environment assumption, per operation:
* `newLeaf` / `newDir`: the object id is new (naming only), the wrapped leaf is not wrapped twice and
  the random number has not been handed out before (assumption on `random.*Generator.Uint64()`;
  the code does not check it);
* `unlink`: only for a directory entry the callers hold (`entries` is the ghost count: 1 at creation,
  +1 per accepted `Link`, -1 per `Unlink`);
* `link`: fewer than 2^32 - 1 entries exist (the counter is a `uint32`). -/
def legalOp (s : State) : Op → Prop
  | .newLeaf i _ u n => s.leaves i = none ∧ (∀ j l, s.leaves j = some l → l.ino ≠ n ∧ l.under ≠ u) ∧
      (∀ d x, s.dirs d = some x → x.ino ≠ n)
  | .newDir d _ _ n => s.dirs d = none ∧ (∀ j l, s.leaves j = some l → l.ino ≠ n) ∧
      (∀ e x, s.dirs e = some x → x.ino ≠ n)
  | .unlink i => 0 < s.entries i
  | .link i => s.entries i + 1 < u32
  | _ => True

/-- States reachable by ANY sequence of operations within the contract. -/
inductive Reach : State → Prop
  | init : Reach init
  | step {s : State} (op : Op) : Reach s → legalOp s op → Reach (step s op).1

structure Inv (s : State) : Prop where
  count : ∀ i l, s.leaves i = some l → l.linkCount = s.entries i ∧ s.entries i < u32
  mapTo : ∀ n i, s.statefulLeaves n = some i →
    ∃ l, s.leaves i = some l ∧ l.ino = n ∧ l.kind = .nfs ∧ 0 < l.linkCount
  mapFrom : ∀ i l, s.leaves i = some l → l.kind = .nfs → 0 < l.linkCount →
    s.statefulLeaves l.ino = some i
  inj : ∀ i j li lj, s.leaves i = some li → s.leaves j = some lj →
    (li.ino = lj.ino ∨ li.under = lj.under) → i = j
  dirTo : ∀ n d, s.directories n = some d → ∃ x, s.dirs d = some x ∧ x.ino = n
  dirLeaf : ∀ i l d x, s.leaves i = some l → s.dirs d = some x → l.ino ≠ x.ino
  dirInj : ∀ d e x y, s.dirs d = some x → s.dirs e = some y → x.ino = y.ino → d = e

theorem inv_init : Inv init := by
  constructor <;> simp [init]

theorem upd_same {α : Type} (f : Nat → Option α) (k : Nat) (v : Option α) : upd f k v k = v := by
  simp [upd]

theorem upd_other {α : Type} (f : Nat → Option α) (k x : Nat) (v : Option α) (h : x ≠ k) :
    upd f k v x = f x := by
  simp [upd, h]

theorem updN_same (f : Nat → Nat) (k v : Nat) : updN f k v k = v := by simp [updN]

theorem updN_other (f : Nat → Nat) (k x v : Nat) (h : x ≠ k) : updN f k v x = f x := by
  simp [updN, h]

theorem inv_newLeaf {s : State} (h : Inv s) {i : Nat} {k : Kind} {u n : Nat}
    (hl : legalOp s (.newLeaf i k u n)) : Inv (newLeaf s i k u n).1 := by
  obtain ⟨hnone, hfresh, hdfresh⟩ := hl
  unfold newLeaf
  rw [hnone]
  cases k
  · -- nfs
    refine ⟨?_, ?_, ?_, ?_, ?_, ?_, ?_⟩ <;> simp only
    · intro j l hj
      by_cases e : j = i
      · subst e; simp [upd_same] at hj; subst hj; simp [updN_same, u32]
      · rw [upd_other _ _ _ _ e] at hj; rw [updN_other _ _ _ _ e]; exact h.count j l hj
    · intro m j hm
      by_cases e : m = n
      · subst e; simp [upd_same] at hm; subst hm
        exact ⟨_, upd_same _ _ _, rfl, rfl, by simp⟩
      · rw [upd_other _ _ _ _ e] at hm
        obtain ⟨l, h1, h2, h3, h4⟩ := h.mapTo m j hm
        have : j ≠ i := by intro e'; subst e'; rw [hnone] at h1; cases h1
        exact ⟨l, by rw [upd_other _ _ _ _ this]; exact h1, h2, h3, h4⟩
    · intro j l hj hk hp
      by_cases e : j = i
      · subst e; simp [upd_same] at hj; subst hj; simp [upd_same]
      · rw [upd_other _ _ _ _ e] at hj
        have := (hfresh j l hj).1
        rw [upd_other _ _ _ _ this]; exact h.mapFrom j l hj hk hp
    · intro a b la lb ha hb hor
      by_cases ea : a = i <;> by_cases eb : b = i
      · rw [ea, eb]
      · subst ea; simp [upd_same] at ha; subst ha; rw [upd_other _ _ _ _ eb] at hb
        have := hfresh b lb hb; simp at hor; rcases hor with e | e
        · exact absurd e.symm this.1
        · exact absurd e.symm this.2
      · subst eb; simp [upd_same] at hb; subst hb; rw [upd_other _ _ _ _ ea] at ha
        have := hfresh a la ha; simp at hor; rcases hor with e | e
        · exact absurd e this.1
        · exact absurd e this.2
      · rw [upd_other _ _ _ _ ea] at ha; rw [upd_other _ _ _ _ eb] at hb
        exact h.inj a b la lb ha hb hor
    · exact h.dirTo
    · intro j l d x hj hd
      by_cases e : j = i
      · subst e; simp [upd_same] at hj; subst hj; simp; exact fun e' => hdfresh d x hd e'.symm
      · rw [upd_other _ _ _ _ e] at hj; exact h.dirLeaf j l d x hj hd
    · exact h.dirInj
  · -- fuse
    refine ⟨?_, ?_, ?_, ?_, ?_, ?_, ?_⟩ <;> simp only
    · intro j l hj
      by_cases e : j = i
      · subst e; simp [upd_same] at hj; subst hj; simp [updN_same, u32]
      · rw [upd_other _ _ _ _ e] at hj; rw [updN_other _ _ _ _ e]; exact h.count j l hj
    · intro m j hm
      obtain ⟨l, h1, h2, h3, h4⟩ := h.mapTo m j hm
      have : j ≠ i := by intro e'; subst e'; rw [hnone] at h1; cases h1
      exact ⟨l, by rw [upd_other _ _ _ _ this]; exact h1, h2, h3, h4⟩
    · intro j l hj hk hp
      by_cases e : j = i
      · subst e; simp [upd_same] at hj; subst hj; cases hk
      · rw [upd_other _ _ _ _ e] at hj; exact h.mapFrom j l hj hk hp
    · intro a b la lb ha hb hor
      by_cases ea : a = i <;> by_cases eb : b = i
      · rw [ea, eb]
      · subst ea; simp [upd_same] at ha; subst ha; rw [upd_other _ _ _ _ eb] at hb
        have := hfresh b lb hb; simp at hor; rcases hor with e | e
        · exact absurd e.symm this.1
        · exact absurd e.symm this.2
      · subst eb; simp [upd_same] at hb; subst hb; rw [upd_other _ _ _ _ ea] at ha
        have := hfresh a la ha; simp at hor; rcases hor with e | e
        · exact absurd e this.1
        · exact absurd e this.2
      · rw [upd_other _ _ _ _ ea] at ha; rw [upd_other _ _ _ _ eb] at hb
        exact h.inj a b la lb ha hb hor
    · exact h.dirTo
    · intro j l d x hj hd
      by_cases e : j = i
      · subst e; simp [upd_same] at hj; subst hj; simp; exact fun e' => hdfresh d x hd e'.symm
      · rw [upd_other _ _ _ _ e] at hj; exact h.dirLeaf j l d x hj hd
    · exact h.dirInj

theorem inv_link {s : State} (h : Inv s) {i : Nat} (hl : legalOp s (.link i)) : Inv (link s i).1 := by
  have hl' : s.entries i + 1 < u32 := hl
  unfold link
  cases hi : s.leaves i with
  | none => exact h
  | some l =>
    simp only
    by_cases hz : l.linkCount = 0
    · simp [hz]; exact h
    · have hc := h.count i l hi
      have hmod : (l.linkCount + 1) % u32 = s.entries i + 1 := by
        rw [hc.1]; exact Nat.mod_eq_of_lt hl'
      simp only [hz, if_false]
      cases hk : l.kind <;> simp only <;>
      · refine ⟨?_, ?_, ?_, ?_, ?_, ?_, ?_⟩ <;> simp only
        · intro j l2 hj
          by_cases e : j = i
          · subst e; simp [upd_same] at hj; subst hj; simp [updN_same, hmod]; omega
          · rw [upd_other _ _ _ _ e] at hj; rw [updN_other _ _ _ _ e]; exact h.count j l2 hj
        · intro m j hm
          obtain ⟨l2, h1, h2, h3, h4⟩ := h.mapTo m j hm
          by_cases e : j = i
          · subst e; rw [hi] at h1; cases h1
            exact ⟨_, upd_same _ _ _, h2, (by first | rfl | exact absurd (hk ▸ h3) (by decide)), by simp [hmod]⟩
          · exact ⟨l2, by rw [upd_other _ _ _ _ e]; exact h1, h2, h3, h4⟩
        · intro j l2 hj hk2 hp
          by_cases e : j = i
          · subst e; simp [upd_same] at hj; subst hj
            have hk2' : l.kind = .nfs := by first | exact hk | exact absurd (show Kind.fuse = Kind.nfs from hk2) (by decide)
            exact h.mapFrom j l hi hk2' (by omega)
          · rw [upd_other _ _ _ _ e] at hj; exact h.mapFrom j l2 hj hk2 hp
        · intro a b la lb ha hb hor
          by_cases ea : a = i <;> by_cases eb : b = i
          · rw [ea, eb]
          · subst ea; simp [upd_same] at ha; subst ha; rw [upd_other _ _ _ _ eb] at hb
            exact h.inj a b l lb hi hb (by simpa using hor)
          · subst eb; simp [upd_same] at hb; subst hb; rw [upd_other _ _ _ _ ea] at ha
            exact h.inj a b la l ha hi (by simpa using hor)
          · rw [upd_other _ _ _ _ ea] at ha; rw [upd_other _ _ _ _ eb] at hb
            exact h.inj a b la lb ha hb hor
        · exact h.dirTo
        · intro j l2 d x hj hd
          by_cases e : j = i
          · subst e; simp [upd_same] at hj; subst hj; exact h.dirLeaf j l d x hi hd
          · rw [upd_other _ _ _ _ e] at hj; exact h.dirLeaf j l2 d x hj hd
        · exact h.dirInj

/-- Common part of both `Unlink` implementations: the counter of a live leaf drops by one; an NFS
leaf that reaches zero leaves the handle map. -/
theorem inv_dec {s : State} (h : Inv s) {i : Nat} {l : Leaf} (hi : s.leaves i = some l)
    (hp : 0 < l.linkCount) (l' : Leaf) (hk : l'.kind = l.kind) (hino : l'.ino = l.ino)
    (hu : l'.under = l.under) (hc : l'.linkCount = l.linkCount - 1)
    (sl : Nat → Option Nat)
    (hsl : sl = if l.kind = .nfs ∧ l'.linkCount = 0 then upd s.statefulLeaves l.ino none
                else s.statefulLeaves)
    (lg : List Event) :
    Inv { s with leaves := upd s.leaves i (some l'), statefulLeaves := sl,
                 entries := updN s.entries i (s.entries i - 1), log := lg } := by
  have hcnt := h.count i l hi
  refine ⟨?_, ?_, ?_, ?_, ?_, ?_, ?_⟩ <;> simp only
  · intro j l2 hj
    by_cases e : j = i
    · subst e; simp [upd_same] at hj; subst hj; simp [updN_same]; omega
    · rw [upd_other _ _ _ _ e] at hj; rw [updN_other _ _ _ _ e]; exact h.count j l2 hj
  · intro m j hm
    subst hsl
    by_cases hz : l.kind = .nfs ∧ l'.linkCount = 0
    · rw [if_pos hz] at hm
      by_cases em : m = l.ino
      · subst em; simp [upd_same] at hm
      · rw [upd_other _ _ _ _ em] at hm
        obtain ⟨l2, h1, h2, h3, h4⟩ := h.mapTo m j hm
        have : j ≠ i := by
          intro e'; subst e'; rw [hi] at h1; cases h1; exact em h2.symm
        exact ⟨l2, by rw [upd_other _ _ _ _ this]; exact h1, h2, h3, h4⟩
    · rw [if_neg hz] at hm
      obtain ⟨l2, h1, h2, h3, h4⟩ := h.mapTo m j hm
      by_cases e : j = i
      · subst e; rw [hi] at h1; cases h1
        refine ⟨l', upd_same _ _ _, by rw [hino]; exact h2, by rw [hk]; exact h3, ?_⟩
        have : ¬ l'.linkCount = 0 := fun e0 => hz ⟨h3, e0⟩
        omega
      · exact ⟨l2, by rw [upd_other _ _ _ _ e]; exact h1, h2, h3, h4⟩
  · intro j l2 hj hk2 hp2
    subst hsl
    by_cases e : j = i
    · subst e; simp [upd_same] at hj; subst hj
      have hz : ¬ (l.kind = .nfs ∧ l'.linkCount = 0) := fun ⟨_, e0⟩ => by omega
      rw [if_neg hz, hino]; exact h.mapFrom j l hi (hk ▸ hk2) hp
    · rw [upd_other _ _ _ _ e] at hj
      have hne : l2.ino ≠ l.ino := fun e' => e (h.inj j i l2 l hj hi (Or.inl e'))
      have := h.mapFrom j l2 hj hk2 hp2
      by_cases hz : l.kind = .nfs ∧ l'.linkCount = 0
      · rw [if_pos hz, upd_other _ _ _ _ hne]; exact this
      · rw [if_neg hz]; exact this
  · intro a b la lb ha hb hor
    by_cases ea : a = i <;> by_cases eb : b = i
    · rw [ea, eb]
    · subst ea; simp [upd_same] at ha; subst ha; rw [upd_other _ _ _ _ eb] at hb
      exact h.inj a b l lb hi hb (by rw [← hino, ← hu]; exact hor)
    · subst eb; simp [upd_same] at hb; subst hb; rw [upd_other _ _ _ _ ea] at ha
      exact h.inj a b la l ha hi (by rw [← hino, ← hu]; exact hor)
    · rw [upd_other _ _ _ _ ea] at ha; rw [upd_other _ _ _ _ eb] at hb
      exact h.inj a b la lb ha hb hor
  · exact h.dirTo
  · intro j l2 d x hj hd
    by_cases e : j = i
    · subst e; simp [upd_same] at hj; subst hj; rw [hino]; exact h.dirLeaf j l d x hi hd
    · rw [upd_other _ _ _ _ e] at hj; exact h.dirLeaf j l2 d x hj hd
  · exact h.dirInj

theorem inv_unlink {s : State} (h : Inv s) {i : Nat} (hl : legalOp s (.unlink i)) :
    Inv (unlink s i).1 := by
  have hl' : 0 < s.entries i := hl
  unfold unlink
  cases hi : s.leaves i with
  | none => exact h
  | some l =>
    have hc := h.count i l hi
    have hp : 0 < l.linkCount := by omega
    have hfuse : (l.linkCount + (u32 - 1)) % u32 = l.linkCount - 1 := by
      have : l.linkCount < u32 := by omega
      unfold u32 at *; omega
    simp only
    cases hk : l.kind <;> simp only
    · have hnz : ¬ l.linkCount = 0 := by omega
      rw [if_neg hnz]
      by_cases hz : l.linkCount - 1 = 0
      · rw [if_pos hz]
        exact inv_dec h hi hp ⟨.nfs, l.under, l.ino, l.linkCount - 1, l.changeID + 1⟩ hk.symm rfl rfl rfl
          (upd s.statefulLeaves l.ino none) (by simp [hk, hz])
          (s.log ++ [.mapDelete l.ino, .fwdUnlink l.under])
      · rw [if_neg hz]
        exact inv_dec h hi hp ⟨.nfs, l.under, l.ino, l.linkCount - 1, l.changeID + 1⟩ hk.symm rfl rfl rfl
          s.statefulLeaves (by simp [hz]) s.log
    · rw [hfuse]
      by_cases hz : l.linkCount - 1 = 0
      · rw [if_pos hz]
        exact inv_dec h hi hp ⟨.fuse, l.under, l.ino, l.linkCount - 1, l.changeID⟩ hk.symm rfl rfl rfl
          s.statefulLeaves (by simp [hk]) (s.log ++ [.fwdUnlink l.under])
      · rw [if_neg hz]
        exact inv_dec h hi hp ⟨.fuse, l.under, l.ino, l.linkCount - 1, l.changeID⟩ hk.symm rfl rfl rfl
          s.statefulLeaves (by simp [hk]) s.log

/-- Operations that only touch the ghost log / the notifier count keep the invariant. -/
theorem inv_frame {s : State} (h : Inv s) (lg : List Event) (k : Nat) :
    Inv { s with log := lg, notifiers := k } :=
  ⟨h.count, h.mapTo, h.mapFrom, h.inj, h.dirTo, h.dirLeaf, h.dirInj⟩

theorem inv_newDir {s : State} (h : Inv s) {d : Nat} {k : Kind} {u n : Nat}
    (hl : legalOp s (.newDir d k u n)) : Inv (newDir s d k u n).1 := by
  obtain ⟨hnone, hfresh, hdfresh⟩ := hl
  unfold newDir
  rw [hnone]
  have hdirs : ∀ e x, upd s.dirs d (some ⟨k, u, n⟩) e = some x →
      (e = d ∧ x = ⟨k, u, n⟩) ∨ (e ≠ d ∧ s.dirs e = some x) := by
    intro e x he
    by_cases ee : e = d
    · subst ee; simp [upd_same] at he; exact Or.inl ⟨rfl, he.symm⟩
    · rw [upd_other _ _ _ _ ee] at he; exact Or.inr ⟨ee, he⟩
  have hleaf : ∀ i l e x, s.leaves i = some l → upd s.dirs d (some ⟨k, u, n⟩) e = some x →
      l.ino ≠ x.ino := by
    intro i l e x hi he
    rcases hdirs e x he with ⟨_, rfl⟩ | ⟨_, h2⟩
    · exact hfresh i l hi
    · exact h.dirLeaf i l e x hi h2
  have hinj : ∀ a b x y, upd s.dirs d (some ⟨k, u, n⟩) a = some x →
      upd s.dirs d (some ⟨k, u, n⟩) b = some y → x.ino = y.ino → a = b := by
    intro a b x y ha hb hxy
    rcases hdirs a x ha with ⟨ea, rfl⟩ | ⟨ea, h1⟩ <;> rcases hdirs b y hb with ⟨eb, rfl⟩ | ⟨eb, h2⟩
    · rw [ea, eb]
    · exact absurd hxy.symm (hdfresh b y h2)
    · exact absurd hxy (hdfresh a x h1)
    · exact h.dirInj a b x y h1 h2 hxy
  cases k
  · refine ⟨h.count, h.mapTo, h.mapFrom, h.inj, ?_, hleaf, hinj⟩
    simp only
    intro m e hm
    by_cases em : m = n
    · subst em; simp [upd_same] at hm; subst hm; exact ⟨_, upd_same _ _ _, rfl⟩
    · rw [upd_other _ _ _ _ em] at hm
      obtain ⟨x, h1, h2⟩ := h.dirTo m e hm
      have : e ≠ d := by intro e'; subst e'; rw [hnone] at h1; cases h1
      exact ⟨x, by rw [upd_other _ _ _ _ this]; exact h1, h2⟩
  · refine ⟨h.count, h.mapTo, h.mapFrom, h.inj, ?_, hleaf, hinj⟩
    simp only
    intro m e hm
    obtain ⟨x, h1, h2⟩ := h.dirTo m e hm
    have : e ≠ d := by intro e'; subst e'; rw [hnone] at h1; cases h1
    exact ⟨x, by rw [upd_other _ _ _ _ this]; exact h1, h2⟩

theorem inv_release {s : State} (h : Inv s) (d : Nat) : Inv (release s d).1 := by
  unfold release
  cases hd : s.dirs d with
  | none => exact h
  | some dir =>
    simp only
    cases dir.kind <;> simp only
    · refine ⟨h.count, h.mapTo, h.mapFrom, h.inj, ?_, h.dirLeaf, h.dirInj⟩
      simp only
      intro m e hm
      by_cases em : m = dir.ino
      · subst em; simp [upd_same] at hm
      · rw [upd_other _ _ _ _ em] at hm; exact h.dirTo m e hm
    · exact h

theorem inv_step {s : State} (h : Inv s) (op : Op) (hl : legalOp s op) : Inv (step s op).1 := by
  cases op with
  | newLeaf i k u n => exact inv_newLeaf h hl
  | link i => exact inv_link h hl
  | unlink i => exact inv_unlink h hl
  | getattr i m c =>
    simp only [step, getattr]
    cases s.leaves i with
    | none => exact h
    | some l => simp only; split <;> first | exact h | exact inv_frame h _ _
  | setattr i m st c =>
    simp only [step, setattr]
    cases s.leaves i with
    | none => exact h
    | some l => simp only; split <;> exact inv_frame h _ _
  | openSelf i m st c =>
    simp only [step, openSelf]
    cases s.leaves i with
    | none => exact h
    | some l => simp only; split <;> exact inv_frame h _ _
  | resolve n =>
    simp only [step, resolve]
    cases s.directories n with
    | some d => exact h
    | none => simp only; cases s.statefulLeaves n <;> exact h
  | resolveShort => exact h
  | newDir d k u n => exact inv_newDir h hl
  | dirAttr d =>
    simp only [step, dirAttr]
    cases s.dirs d with
    | none => exact h
    | some dir => simp only; cases dir.kind <;> exact h
  | notify d name =>
    simp only [step, notify]
    cases s.dirs d with
    | none => exact h
    | some dir => simp only; cases dir.kind <;> first | exact h | exact inv_frame h _ _
  | release d => exact inv_release h d
  | register => exact inv_frame h _ _

theorem reach_inv {s : State} (r : Reach s) : Inv s := by
  induction r with
  | init => exact inv_init
  | step op _ hl ih => exact inv_step ih op hl

end BbRe.Lemmas.Handles
