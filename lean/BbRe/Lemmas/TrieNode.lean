/-
bb-storage `InstanceNameTrie` (Model/Trie.lean, `Node`): abstraction `val` (value stored at a
path, −1 when there is no node), well-formedness, `Set`, `GetExact`, `GetLongestPrefix`.
-/
import BbRe.Lemmas.TrieAssoc
namespace BbRe.Lemmas.TrieNode
open BbRe.Model.Trie BbRe.Model.Trie.Node BbRe.Lemmas.TrieAssoc
open BbRe.Spec.PrefixMap (Comp)

@[simp] theorem value_mk (v : Int) (ks : List (Comp × Node)) : (Node.mk v ks).value = v := rfl
@[simp] theorem kids_mk (v : Int) (ks : List (Comp × Node)) : (Node.mk v ks).kids = ks := rfl
@[simp] theorem child?_mk (v : Int) (ks : List (Comp × Node)) (c : Comp) :
    (Node.mk v ks).child? c = aget c ks := rfl
@[simp] theorem empty_value : Node.empty.value = -1 := rfl
@[simp] theorem empty_kids : Node.empty.kids = [] := rfl
@[simp] theorem empty_child? (c : Comp) : Node.empty.child? c = none := rfl

/-- the node reached from `n` along `p`. -/
def at? : Node → List Comp → Option Node
  | n, [] => some n
  | n, c :: cs => match n.child? c with
    | none => none
    | some ch => at? ch cs

/-- the value stored at path `p` below `n`; −1 when the path leaves the trie. -/
def val (n : Node) (p : List Comp) : Int :=
  match at? n p with
  | some m => m.value
  | none => -1

@[simp] theorem at?_nil (n : Node) : at? n [] = some n := rfl
theorem at?_cons (n : Node) (c : Comp) (cs : List Comp) :
    at? n (c :: cs) = match n.child? c with | none => none | some ch => at? ch cs := rfl
@[simp] theorem val_nil (n : Node) : val n [] = n.value := rfl
theorem val_cons (n : Node) (c : Comp) (cs : List Comp) :
    val n (c :: cs) = match n.child? c with | none => -1 | some ch => val ch cs := by
  unfold val; rw [at?_cons]; cases n.child? c <;> rfl

theorem val_cons_none {n : Node} {c : Comp} (h : n.child? c = none) (cs : List Comp) :
    val n (c :: cs) = -1 := by rw [val_cons, h]
theorem val_cons_some {n ch : Node} {c : Comp} (h : n.child? c = some ch) (cs : List Comp) :
    val n (c :: cs) = val ch cs := by rw [val_cons, h]

theorem at?_append (n : Node) (p q : List Comp) :
    at? n (p ++ q) = match at? n p with | none => none | some m => at? m q := by
  induction p generalizing n with
  | nil => rfl
  | cons c cs ih =>
    simp only [List.cons_append, at?_cons]
    cases n.child? c with
    | none => rfl
    | some ch => exact ih ch

theorem val_append_some {n m : Node} {p : List Comp} (h : at? n p = some m) (q : List Comp) :
    val n (p ++ q) = val m q := by
  unfold val; rw [at?_append, h]

theorem val_append_none {n : Node} {p : List Comp} (h : at? n p = none) (q : List Comp) :
    val n (p ++ q) = -1 := by
  unfold val; rw [at?_append, h]

theorem val_empty (q : List Comp) : val Node.empty q = -1 := by
  cases q with
  | nil => rfl
  | cons c cs => exact val_cons_none rfl cs

theorem val_of_kids_nil {n : Node} (h : n.kids = []) (c : Comp) (cs : List Comp) :
    val n (c :: cs) = -1 := by
  apply val_cons_none; unfold child?; rw [h]; rfl

/-! ## well-formedness -/

/-- local sanity of a node: the value is −1 or an index, the Go map has distinct keys. -/
def NodeOK (m : Node) : Prop := -1 ≤ m.value ∧ (keys m.kids).Nodup

/-- a subtree hanging below the root: every node is sane and every leaf carries a value
(`Remove` prunes value-less chains). -/
def WFSub (n : Node) : Prop :=
  ∀ p m, at? n p = some m → NodeOK m ∧ (m.kids = [] → 0 ≤ m.value)

/-- the root node of an `InstanceNameTrie` (it may be a value-less leaf: the empty trie). -/
def WFRoot (n : Node) : Prop := NodeOK n ∧ ∀ c ch, n.child? c = some ch → WFSub ch

theorem wfSub_iff (n : Node) :
    WFSub n ↔ NodeOK n ∧ (n.kids = [] → 0 ≤ n.value) ∧ ∀ c ch, n.child? c = some ch → WFSub ch := by
  constructor
  · intro h
    refine ⟨(h [] n rfl).1, (h [] n rfl).2, ?_⟩
    intro c ch hc p m hm
    apply h (c :: p) m
    rw [at?_cons, hc]; exact hm
  · rintro ⟨h1, h2, h3⟩ p m hm
    cases p with
    | nil =>
      simp only [at?_nil, Option.some.injEq] at hm; subst hm; exact ⟨h1, h2⟩
    | cons c cs =>
      rw [at?_cons] at hm
      cases hc : n.child? c with
      | none => rw [hc] at hm; cases hm
      | some ch => rw [hc] at hm; exact h3 c ch hc cs m hm

theorem WFSub.toRoot {n : Node} (h : WFSub n) : WFRoot n :=
  ⟨((wfSub_iff n).1 h).1, ((wfSub_iff n).1 h).2.2⟩

theorem WFSub.at {n m : Node} {p : List Comp} (h : WFSub n) (hm : at? n p = some m) : WFSub m := by
  intro q x hx
  apply h (p ++ q) x
  rw [at?_append, hm]; exact hx

theorem wfRoot_empty : WFRoot Node.empty := by
  refine ⟨⟨by simp, by simp [keys]⟩, ?_⟩
  intro c ch h; simp at h

theorem WFRoot.val_ge {n : Node} (h : WFRoot n) (q : List Comp) : -1 ≤ val n q := by
  cases q with
  | nil => exact h.1.1
  | cons c cs =>
    rw [val_cons]
    cases hc : n.child? c with
    | none => simp
    | some ch =>
      show -1 ≤ val ch cs
      unfold val
      cases hm : at? ch cs with
      | none => simp
      | some m => exact ((h.2 c ch hc) cs m hm).1.1

theorem WFSub.val_ge {n : Node} (h : WFSub n) (q : List Comp) : -1 ≤ val n q := h.toRoot.val_ge q

/-! ## `GetExact` -/

theorem getExactLoop_eq {n : Node} (h : ∀ c ch, n.child? c = some ch → WFSub ch) (c : Comp)
    (cs : List Comp) : getExactLoop n c cs = val n (c :: cs) := by
  induction cs generalizing n c with
  | nil =>
    unfold getExactLoop
    rw [val_cons]
    cases hc : n.child? c with
    | none => rfl
    | some f =>
      have hf := ((h c f hc) [] f rfl).1.1
      show (if f.value ≥ 0 then f.value else -1) = f.value
      split
      · rfl
      · omega
  | cons d ds ih =>
    unfold getExactLoop
    rw [val_cons]
    cases hc : n.child? c with
    | none => rfl
    | some nx =>
      show getExactLoop nx d ds = val nx (d :: ds)
      exact ih ((h c nx hc).toRoot.2) d

theorem getExact_eq {root : Node} (h : WFRoot root) (p : List Comp) : root.getExact p = val root p := by
  cases p with
  | nil => rfl
  | cons c cs => exact getExactLoop_eq h.2 c cs

/-! ## `Set` -/

theorem val_setPath (n : Node) (p : List Comp) (v : Int) (q : List Comp) :
    val (setPath n p v) q = if q = p then v else val n q := by
  induction p generalizing n q with
  | nil =>
    cases q with
    | nil => simp [setPath]
    | cons c cs => simp only [setPath, val_cons, child?_mk]; simp [child?]
  | cons c cs ih =>
    cases q with
    | nil => simp [setPath]
    | cons d ds =>
      simp only [setPath, val_cons, child?_mk, aget_aput]
      by_cases hd : d = c
      · subst hd
        simp only [if_true, ih, List.cons.injEq, true_and]
        cases hc : n.child? d with
        | none => simp [val_empty]
        | some ch => simp
      · simp only [hd, if_false, List.cons.injEq, false_and]
        rfl

theorem wfSub_setPath {n : Node} (h : WFRoot n) (p : List Comp) {v : Int} (hv : 0 ≤ v) :
    WFSub (setPath n p v) := by
  induction p generalizing n with
  | nil =>
    rw [wfSub_iff]
    refine ⟨⟨by simp [setPath]; omega, by simpa [setPath] using h.1.2⟩, by simp [setPath]; intro _; exact hv, ?_⟩
    intro c ch hc
    exact h.2 c ch hc
  | cons c cs ih =>
    rw [wfSub_iff]
    refine ⟨⟨by simpa [setPath] using h.1.1, ?_⟩, ?_, ?_⟩
    · simp only [setPath, kids_mk]; exact nodup_keys_aput h.1.2
    · simp only [setPath, kids_mk]; intro hnil; exact absurd hnil (aput_ne_nil _ _ _)
    · intro d ch hd
      simp only [setPath, child?_mk, aget_aput] at hd
      by_cases hdc : d = c
      · subst hdc
        simp only [if_true, Option.some.injEq] at hd
        subst hd
        apply ih
        cases hc : n.child? d with
        | none => simpa using wfRoot_empty
        | some x => simpa using (h.2 d x hc).toRoot
      · simp only [hdc, if_false] at hd
        exact h.2 d ch hd

theorem setPath_nonempty (n : Node) (p : List Comp) {v : Int} (hv : 0 ≤ v) :
    ¬ ((setPath n p v).value < 0 ∧ (setPath n p v).kids = []) := by
  cases p with
  | nil => simp [setPath]; omega
  | cons c cs => simp only [setPath, kids_mk]; intro h; exact aput_ne_nil _ _ _ h.2

/-! ## `GetLongestPrefix` -/

/-- longest prefix relative to a node, walking down (an intermediate characterisation). -/
def lpRel : Node → List Comp → Int
  | n, [] => n.value
  | n, c :: cs =>
    match n.child? c with
    | none => n.value
    | some ch => let r := lpRel ch cs; if r ≥ 0 then r else n.value

/-- longest prefix in terms of the abstraction only: `f` gives the value at a path (−1 = none). -/
def lpV (f : List Comp → Int) (pre : List Comp) : List Comp → Int
  | [] => f pre
  | c :: cs => let r := lpV f (pre ++ [c]) cs; if r ≥ 0 then r else f pre

theorem lpRel_nil (n : Node) : lpRel n [] = n.value := rfl
theorem lpRel_cons (n : Node) (c : Comp) (cs : List Comp) :
    lpRel n (c :: cs) = match n.child? c with
      | none => n.value
      | some ch => if lpRel ch cs ≥ 0 then lpRel ch cs else n.value := rfl
theorem lpV_nil (f : List Comp → Int) (pre : List Comp) : lpV f pre [] = f pre := rfl
theorem lpV_cons (f : List Comp → Int) (pre : List Comp) (c : Comp) (cs : List Comp) :
    lpV f pre (c :: cs) = if lpV f (pre ++ [c]) cs ≥ 0 then lpV f (pre ++ [c]) cs else f pre := rfl

theorem glpLoop_eq (n : Node) (c : Comp) (cs : List Comp) (last : Int) :
    glpLoop n c cs last =
      (match n.child? c with
       | none => last
       | some ch => if lpRel ch cs ≥ 0 then lpRel ch cs else last) := by
  induction cs generalizing n c last with
  | nil =>
    unfold glpLoop
    cases n.child? c with
    | none => rfl
    | some f => rfl
  | cons d ds ih =>
    unfold glpLoop
    cases hc : n.child? c with
    | none => rfl
    | some nx =>
      show glpLoop nx d ds (if nx.value ≥ 0 then nx.value else last) = _
      rw [ih]
      show _ = if lpRel nx (d :: ds) ≥ 0 then lpRel nx (d :: ds) else last
      rw [lpRel_cons]
      cases nx.child? d with
      | none => rfl
      | some ch =>
        show (if lpRel ch ds ≥ 0 then lpRel ch ds else if nx.value ≥ 0 then nx.value else last) =
          if (if lpRel ch ds ≥ 0 then lpRel ch ds else nx.value) ≥ 0 then
            (if lpRel ch ds ≥ 0 then lpRel ch ds else nx.value) else last
        by_cases h1 : lpRel ch ds ≥ 0
        · simp [h1]
        · simp [h1]

theorem getLongestPrefix_eq_lpRel (root : Node) (p : List Comp) :
    root.getLongestPrefix p = lpRel root p := by
  cases p with
  | nil => rfl
  | cons c cs =>
    show glpLoop root c cs root.value = _
    rw [glpLoop_eq, lpRel_cons]

theorem lpV_congr {f g : List Comp → Int} {pre pre' : List Comp} (rest : List Comp)
    (h : ∀ q, f (pre ++ q) = g (pre' ++ q)) : lpV f pre rest = lpV g pre' rest := by
  induction rest generalizing pre pre' with
  | nil => simpa [lpV] using h []
  | cons c cs ih =>
    rw [lpV_cons, lpV_cons]
    have h1 : lpV f (pre ++ [c]) cs = lpV g (pre' ++ [c]) cs := by
      apply ih; intro q
      simpa [List.append_assoc] using h (c :: q)
    have h2 : f pre = g pre' := by simpa using h []
    rw [h1, h2]

theorem lpV_neg {f : List Comp → Int} {pre : List Comp} (rest : List Comp)
    (h : ∀ q, f (pre ++ q) = -1) : lpV f pre rest = -1 := by
  induction rest generalizing pre with
  | nil => simpa [lpV] using h []
  | cons c cs ih =>
    rw [lpV_cons]
    have h1 : lpV f (pre ++ [c]) cs = -1 := by
      apply ih; intro q; simpa [List.append_assoc] using h (c :: q)
    have h2 : f pre = -1 := by simpa using h []
    rw [h1, h2]; rfl

theorem lpRel_eq_lpV (n : Node) (p : List Comp) : lpRel n p = lpV (val n) [] p := by
  induction p generalizing n with
  | nil => rfl
  | cons c cs ih =>
    rw [lpRel_cons, lpV_cons]
    cases hc : n.child? c with
    | none =>
      have : lpV (val n) ([] ++ [c]) cs = -1 := by
        apply lpV_neg; intro q; exact val_cons_none hc q
      rw [this]; rfl
    | some ch =>
      have : lpV (val n) ([] ++ [c]) cs = lpV (val ch) [] cs := by
        apply lpV_congr; intro q; exact val_cons_some hc q
      rw [this, ← ih ch]; rfl

theorem getLongestPrefix_eq (root : Node) (p : List Comp) :
    root.getLongestPrefix p = lpV (val root) [] p := by
  rw [getLongestPrefix_eq_lpRel, lpRel_eq_lpV]

end BbRe.Lemmas.TrieNode
