import BbRe.Lemmas.SchedTreePrioFn
/-!
`PrioOK` for the RPC segments of the tree layer and in every reachable state.
-/
namespace BbRe.Lemmas.SchedTree
open BbRe.Sched BbRe.SchedTree BbRe.Lemmas.SchedInv

/-! ### `Execute`, `WaitExecution` -/

theorem PrioOK.withIncExec {ts : TState} (h : PrioOK ts) (q : ScqId) (p : List Nat) (w : WKey) (now : Nat) :
    PrioOK { ts with nodes := incExecR ts.legacyPrio ts.prioOf ts.nodes q p w now } :=
  NAll.incExecR (P := NodeOK ts.prioOf) h (nodeOK_qp _) (nodeOK_rp _) _ q p w now

theorem PrioOK.withEnqueue {ts : TState} (h : PrioOK ts) (q : ScqId) (p : List Nat) (o : Nat) :
    PrioOK { ts with nodes := enqueueOp ts.prioOf ts.nodes q p o } :=
  enqueueOp_prio (pr := ts.prioOf) h q p o

theorem tExecDedup_prio {ts ts' : TState} {c tid : Nat} {t : Task} {inv : List Nat} {prio : Int}
    (hp : PrioOK ts) (hq : QB ts.s.nextOp ts) (hh : tExecDedup ts c tid t inv prio = .ok ts') : PrioOK ts' := by
  unfold tExecDedup at hh
  tpaths hh
  · cases hh; prio
  · cases hh
    have hA : PrioOK ((ts.create t.scq inv).setOX ts.s.nextOp { inv := inv, prio := prio }) :=
      PrioOK.setOX _ (by prio) (hq.create _ _).notin
    exact PrioOK.setS _ (hA.withIncExec _ _ _ _)
  · cases hh
    have hA : PrioOK ((ts.create t.scq inv).setOX ts.s.nextOp { inv := inv, prio := prio }) :=
      PrioOK.setOX _ (by prio) (hq.create _ _).notin
    exact PrioOK.setS _ (hA.withEnqueue _ _ _)

theorem tExecArrive_prio {h : Hints} {x : Extras} {ts ts' : TState} {now c digest dkey : Nat} {dnc : Bool}
    {comps : List Nat} {platform : Nat} {inv : List Nat} {prio : Int} (hI : TInv ts) (hp : PrioOK ts)
    (hh : tExecArrive h x ts now c digest dkey dnc comps platform inv prio = .ok ts') : PrioOK ts' := by
  unfold tExecArrive at hh
  tpaths hh
  all_goals have hI0 := tEnter_tinv hI (by assumption)
  all_goals have hp0 := tEnter_prio hI hp (by assumption)
  · exact tExecDedup_prio hp0 (qb_of_tinv hI0) hh
  · cases hh; prio
  · cases hh; prio
  · cases hh
    refine PrioOK.setS _ (tSchedule_prio ?_ (by assumption))
    refine PrioOK.create _ _ (PrioOK.setS _ (PrioOK.setTX _ _ (PrioOK.setOX _ hp0 ?_)))
    exact (qb_of_tinv hI0).notin

theorem tWaitArrive_prio {h : Hints} {x : Extras} {ts ts' : TState} {now c name : Nat} (hI : TInv ts) (hp : PrioOK ts)
    (hh : tWaitArrive h x ts now c name = .ok ts') : PrioOK ts' := by
  unfold tWaitArrive at hh
  tpaths hh
  all_goals have hp0 := tEnter_prio hI hp (by assumption)
  all_goals (cases hh; prio)

theorem tStreamWake_prio {h : Hints} {x : Extras} {ts ts' : TState} {now c reason : Nat} (hI : TInv ts) (hp : PrioOK ts)
    (hh : tStreamWake h x ts now c reason = .ok ts') : PrioOK ts' := by
  unfold tStreamWake at hh
  tpaths hh
  all_goals have hp0 := tEnter_prio hI hp (by assumption)
  all_goals (cases hh; prio)

/-! ### `getNextTask`, `getCurrentOrNextTask` -/

theorem tAssignNext_prio {h : Hints} {x : Extras} {ts ts' : TState} {w : Worker} {b : Bool} (hp : PrioOK ts)
    (hh : tAssignNext h x ts w = .ok (ts', b)) : PrioOK ts' := by
  unfold tAssignNext at hh
  tpaths hh
  · have h1 := tAssignTo_prio (PrioOK.log _ hp) (by assumption)
    cases hh
    prio
  · cases hh; exact hp

theorem tGetNextTask_prio {h : Hints} {x : Extras} {ts ts' : TState} {q : ScqId} {w : WId} {pi bl : Bool}
    (hp : PrioOK ts) (hh : tGetNextTask h x ts q w pi bl = .ok ts') : PrioOK ts' := by
  unfold tGetNextTask at hh
  tpaths hh
  all_goals first
    | (cases hh; prio)
    | (have h2 := tAssignNext_prio hp (by assumption); cases hh; prio)

theorem tGetCurrentOrNext_prio {h : Hints} {x : Extras} {ts ts' : TState} {q : ScqId} {w : WId} {pi bl : Bool}
    (hp : PrioOK ts) (hq : QB ts.s.nextOp ts) (hh : tGetCurrentOrNext h x ts q w pi bl = .ok ts') : PrioOK ts' := by
  unfold tGetCurrentOrNext at hh
  tpaths hh
  · cases hh; prio
  · exact tGetNextTask_prio (tComplete_prio hp hq (by assumption)) hh
  · exact tGetNextTask_prio hp hh

/-! ### `Synchronize` -/

theorem tSyncQueue_prio {ts : TState} {q : ScqId} {comps : List Nat} {platform : Nat} {w : WId} {r : TState ⊕ TState}
    (hp : PrioOK ts) (hh : tSyncQueue ts q comps platform w = .ok r) : PrioOK (sumT r) := by
  unfold tSyncQueue at hh
  tpaths hh
  all_goals (cases hh; simp only [sumT]; prio)

theorem tSyncWorker_prio {ts : TState} (hp : PrioOK ts) (q : ScqId) (w : WId) : PrioOK (sumT (tSyncWorker ts q w)) := by
  unfold tSyncWorker
  cases syncWorker ts.s q w with
  | inl s => simp only [sumT]; prio
  | inr s =>
    simp only []
    split <;> (simp only [sumT]; prio)

theorem tSyncBody_prio {h : Hints} {x : Extras} {ts ts' : TState} {q : ScqId} {w : WId} {rep : Report} {pi : Bool}
    (hp : PrioOK ts) (hq : QB ts.s.nextOp ts) (hh : tSyncBody h x ts q w rep pi = .ok ts') : PrioOK ts' := by
  unfold tSyncBody at hh
  tpaths hh
  all_goals first
    | (cases hh; prio)
    | exact tGetCurrentOrNext_prio hp hq hh
    | exact tGetNextTask_prio (tComplete_prio hp hq (by assumption)) hh

theorem tSyncArrive_prio {h : Hints} {x : Extras} {ts ts' : TState} {now : Nat} {q : ScqId} {comps : List Nat}
    {platform : Nat} {w : WId} {rep : Report} {pi : Bool} (hI : TInv ts) (hp : PrioOK ts)
    (hh : tSyncArrive h x ts now q comps platform w rep pi = .ok ts') : PrioOK ts' := by
  rw [tSyncArrive_eq] at hh
  simp only [bind, Except.bind] at hh
  split at hh
  · cases hh
  · rename_i ts0 he
    have hTI0 : TInv ts0 := tEnter_tinv hI he
    have hp0 := tEnter_prio hI hp he
    have hI0 := hTI0.inv
    split at hh
    · cases hh
    · rename_i r hq
      have htq := tSyncQueue_ts hTI0 hq
      have hpq := tSyncQueue_prio hp0 hq
      have hrq := tSyncQueue_ref ts0 q comps platform w r hq
      have hsq := wp_of_ok (syncQueue_spec (q := q) (comps := comps) (platform := platform) (w := w) hI0) hrq
      cases r with
      | inl ts1 =>
        cases hh
        exact hpq
      | inr ts1 =>
        dsimp only at hh htq
        simp only [sproj] at hrq hsq
        simp only [sumT] at hpq
        have hTI1 : TInv ts1 := TInv.mk' hsq.1 htq
        have hex := syncQueue_has hrq
        have htw := tSyncWorker_ts (w := w) hTI1 hex
        have hpw := tSyncWorker_prio hpq q w
        have hsw := syncWorker_spec (q := q) (w := w) hsq.1
        rw [tSyncWorker_ref] at hsw
        cases hw : tSyncWorker ts1 q w with
        | inl ts2 =>
          rw [hw] at hh htw hpw
          cases hh
          exact hpw
        | inr ts2 =>
          rw [hw] at hh htw hsw hpw
          simp only [sproj] at hsw
          simp only [sumT] at hpw
          obtain ⟨hI2, _, wk2, hw2, hr2⟩ := hsw
          exact tSyncBody_prio hpw (qb_of_tinv (TInv.mk' hI2 htw)) hh

theorem tSyncWake_prio {h : Hints} {x : Extras} {ts ts' : TState} {now : Nat} {q : ScqId} {w : WId} {reason : Nat}
    (hI : TInv ts) (hp : PrioOK ts) (hh : tSyncWake h x ts now q w reason = .ok ts') : PrioOK ts' := by
  unfold tSyncWake at hh
  tpaths hh
  all_goals have hp0 := tEnter_prio hI hp (by assumption)
  all_goals first
    | (cases hh; prio)
    | exact tGetNextTask_prio (by prio) hh

/-! ### operator calls -/

theorem tKillOp_prio {h : Hints} {x : Extras} {ts ts' : TState} {now name code : Nat} (hI : TInv ts) (hp : PrioOK ts)
    (hh : tKillOp h x ts now name code = .ok ts') : PrioOK ts' := by
  unfold tKillOp at hh
  tpaths hh
  all_goals have hI0 := tEnter_tinv hI (by assumption)
  all_goals have hp0 := tEnter_prio hI hp (by assumption)
  all_goals first
    | (cases hh; prio)
    | (have h2 := tComplete_prio hp0 (qb_of_tinv hI0) (by assumption); cases hh; prio)

theorem tKillQueue_prio {h : Hints} {x : Extras} {ts ts' : TState} {now : Nat} {q : ScqId} {code : Nat} (hI : TInv ts)
    (hp : PrioOK ts) (hh : tKillQueue h x ts now q code = .ok ts') : PrioOK ts' := by
  unfold tKillQueue at hh
  tpaths hh
  all_goals have hI0 := tEnter_tinv hI (by assumption)
  all_goals have hp0 := tEnter_prio hI hp (by assumption)
  all_goals first
    | (cases hh; prio)
    | (have h2 := tCancelAllQueued_prio hI0 hp0 (by assumption); cases hh; prio)

theorem foldl_prio {β} (l : List β) (f : TState → β → TState) (hf : ∀ ts b, PrioOK ts → PrioOK (f ts b)) :
    ∀ ts, PrioOK ts → PrioOK (l.foldl f ts) := by
  induction l with
  | nil => intro ts h; exact h
  | cons b l ih => intro ts h; exact ih _ (hf ts b h)

theorem tAddDrain_prio {h : Hints} {x : Extras} {ts ts' : TState} {now : Nat} {q : ScqId} {p : Pattern} (hI : TInv ts)
    (hp : PrioOK ts) (hh : tAddDrain h x ts now q p = .ok ts') : PrioOK ts' := by
  unfold tAddDrain at hh
  tpaths hh
  all_goals have hp0 := tEnter_prio hI hp (by assumption)
  all_goals first
    | (cases hh; prio)
    | (cases hh
       refine PrioOK.setS _ (foldl_prio _ _ ?_ _ (by prio))
       intro ts b hb
       split
       · prio
       · exact hb)

theorem tRemoveDrain_prio {h : Hints} {x : Extras} {ts ts' : TState} {now : Nat} {q : ScqId} {p : Pattern} (hI : TInv ts)
    (hp : PrioOK ts) (hh : tRemoveDrain h x ts now q p = .ok ts') : PrioOK ts' := by
  unfold tRemoveDrain at hh
  tpaths hh
  all_goals have hp0 := tEnter_prio hI hp (by assumption)
  all_goals (cases hh; prio)

theorem tTerminate_prio {h : Hints} {x : Extras} {ts ts' : TState} {now id : Nat} {p : Pattern} (hI : TInv ts)
    (hp : PrioOK ts) (hh : tTerminate h x ts now id p = .ok ts') : PrioOK ts' := by
  unfold tTerminate at hh
  tpaths hh
  all_goals have hp0 := tEnter_prio hI hp (by assumption)
  all_goals (cases hh; exact PrioOK.setS _ (foldl_prio _ _ (fun _ b hb => PrioOK.tTerminateOne b hb) _ hp0))

theorem tTermWake_prio {ts ts' : TState} {id reason : Nat} (hp : PrioOK ts) (hh : tTermWake ts id reason = .ok ts') :
    PrioOK ts' := by
  unfold tTermWake at hh
  tpaths hh
  cases hh; prio

/-! ### steps and reachable states -/

theorem tstep_prio {ts ts' : TState} {g : TSeg} (hI : TInv ts) (hp : PrioOK ts) (hh : tstep ts g = .ok ts') :
    PrioOK ts' := by
  unfold tstep at hh
  split at hh
  · split at hh
    · cases hh; exact PrioOK.tRegisterPQ _ _ _ _ _ _ _ hp
    · cases hh
  · exact tExecArrive_prio hI hp hh
  · exact tWaitArrive_prio hI hp hh
  · exact tStreamWake_prio hI hp hh
  · exact tSyncArrive_prio hI hp hh
  · exact tSyncWake_prio hI hp hh
  · exact tKillOp_prio hI hp hh
  · exact tKillQueue_prio hI hp hh
  · exact tAddDrain_prio hI hp hh
  · exact tRemoveDrain_prio hI hp hh
  · exact tTerminate_prio hI hp hh
  · exact tTermWake_prio hp hh
  · exact tEnter_prio hI hp hh

/-- in every reachable state of the tree layer the cached priority of an invocation with directly queued
operations is the least priority among them -/
theorem prio_reachable {ts : TState} (h : TReachable ts) : PrioOK ts := by
  induction h with
  | init cfg => intro n hn; cases hn
  | step g hr hs ih => exact tstep_prio (tinv_reachable hr) ih hs

end BbRe.Lemmas.SchedTree
