import BbRe.Lemmas.SchedInvPrim
/-! The ghost event log: how the learner events of `complete` / `Execute` preserve `LogInv`. -/
namespace BbRe.Lemmas.SchedInv
open BbRe.Sched

@[simp] theorem isTerm_succeeded (q l : Nat) (b) : isTerm q (.learnerSucceeded l b) = (q == l) := by
  simp only [isTerm]; exact BEq.comm
@[simp] theorem isTerm_failed (q l : Nat) (b n) : isTerm q (.learnerFailed l b n) = (q == l) := by
  simp only [isTerm]; exact BEq.comm
@[simp] theorem isTerm_abandoned (q l : Nat) : isTerm q (.learnerAbandoned l) = (q == l) := by
  simp only [isTerm]; exact BEq.comm
@[simp] theorem isIssue_succeeded_some (q l n : Nat) : isIssue q (.learnerSucceeded l (some n)) = (q == n) := by
  simp only [isIssue]; exact BEq.comm
@[simp] theorem isIssue_failed_some (q l n : Nat) (b) : isIssue q (.learnerFailed l b (some n)) = (q == n) := by
  simp only [isIssue]; exact BEq.comm
@[simp] theorem isIssue_select (q n : Nat) : isIssue q (.selSelect n) = (q == n) := by
  simp only [isIssue]; exact BEq.comm
@[simp] theorem isIssue_succeeded_none (q l : Nat) : isIssue q (.learnerSucceeded l none) = false := rfl
@[simp] theorem isIssue_failed_none (q l : Nat) (b) : isIssue q (.learnerFailed l b none) = false := rfl
@[simp] theorem isIssue_abandoned (q l : Nat) : isIssue q (.learnerAbandoned l) = false := rfl
@[simp] theorem isTerm_select (q n : Nat) : isTerm q (.selSelect n) = false := rfl

theorem LogInv.terminal {ts ts' nl evs} (h : LogInv ts nl evs) {l : Nat} {e : Event} (hl : Held ts l)
    (ht : ∀ l', isTerm l' e = (l' == l)) (hi : ∀ l', isIssue l' e = false)
    (hh : ∀ l', Held ts' l' → Held ts l' ∧ l' ≠ l) : LogInv ts' nl (e :: evs) := by
  have h3 := h.g3 l hl
  have h5 := h.g5 l hl
  constructor
  · intro l'
    have := h.g1 l'
    rw [termCount_cons, issueCount_cons, ht, hi]
    by_cases hll : l' = l
    · subst hll; simp; omega
    · simp [hll]; omega
  · intro l'; rw [issueCount_cons, hi]; simpa using h.g2 l'
  · intro l' hl'
    obtain ⟨a, b⟩ := hh l' hl'
    rw [termCount_cons, ht]; simp [b]; exact h.g3 l' a
  · intro l' hl'; rw [issueCount_cons, hi]; simpa using h.g4 l' hl'
  · intro l' hl'
    obtain ⟨a, b⟩ := hh l' hl'
    rw [issueCount_cons, hi]; simpa using h.g5 l' a

theorem LogInv.term_issue {ts ts' nl evs} (h : LogInv ts nl evs) {l : Nat} {e : Event} (hl : Held ts l)
    (hlt : l < nl) (ht : ∀ l', isTerm l' e = (l' == l)) (hi : ∀ l', isIssue l' e = (l' == nl))
    (hh : ∀ l', Held ts' l' → (Held ts l' ∧ l' ≠ l) ∨ l' = nl) : LogInv ts' (nl + 1) (e :: evs) := by
  have h3 := h.g3 l hl
  have h5 := h.g5 l hl
  have h4 := h.g4 nl (Nat.le_refl _)
  have h1n := h.g1 nl
  constructor
  · intro l'
    have := h.g1 l'
    rw [termCount_cons, issueCount_cons, ht, hi]
    by_cases hll : l' = l
    · subst hll; simp; omega
    · simp [hll]; split <;> omega
  · intro l'
    have := h.g2 l'
    rw [issueCount_cons, hi]
    by_cases hll : l' = nl
    · subst hll; simp; omega
    · simp [hll]; omega
  · intro l' hl'
    rw [termCount_cons, ht]
    rcases hh l' hl' with ⟨a, b⟩ | a
    · simp [b]; exact h.g3 l' a
    · subst a
      have : ¬ l' = l := by omega
      simp [this]; omega
  · intro l' hl'
    have := h.g4 l' (by omega)
    rw [issueCount_cons, hi]
    have : ¬ l' = nl := by omega
    simp [this]; assumption
  · intro l' hl'
    rw [issueCount_cons, hi]
    rcases hh l' hl' with ⟨a, b⟩ | a
    · have h5' := h.g5 l' a
      have : ¬ l' = nl := by intro e; subst e; omega
      simp [this]; exact h5'
    · subst a; simp; omega

theorem LogInv.abandon_unheld {ts nl evs} (h : LogInv ts nl evs) {l : Nat} (hi : issueCount l evs = 1)
    (ht : termCount l evs = 0) (hn : ¬ Held ts l) : LogInv ts nl (.learnerAbandoned l :: evs) := by
  constructor
  · intro l'
    have := h.g1 l'
    rw [termCount_cons, issueCount_cons]
    by_cases hll : l' = l
    · subst hll; simp [isTerm, isIssue]; omega
    · have : ¬ l = l' := fun e => hll e.symm
      simp [isTerm, isIssue, this]; omega
  · intro l'; rw [issueCount_cons]; simpa [isIssue] using h.g2 l'
  · intro l' hl'
    have : ¬ l = l' := by intro e; subst e; exact hn hl'
    rw [termCount_cons]; simp [isTerm, this]; exact h.g3 l' hl'
  · intro l' hl'; rw [issueCount_cons]; simpa [isIssue] using h.g4 l' hl'
  · intro l' hl'; rw [issueCount_cons]; simpa [isIssue] using h.g5 l' hl'

theorem LogInv.issue {ts ts' nl evs} (h : LogInv ts nl evs) {e : Event}
    (ht : ∀ l', isTerm l' e = false) (hi : ∀ l', isIssue l' e = (l' == nl))
    (hh : ∀ l', Held ts' l' → Held ts l' ∨ l' = nl) : LogInv ts' (nl + 1) (e :: evs) := by
  have h4 := h.g4 nl (Nat.le_refl _)
  have h1n := h.g1 nl
  constructor
  · intro l'
    have := h.g1 l'
    rw [termCount_cons, issueCount_cons, ht, hi]
    simp; omega
  · intro l'
    have := h.g2 l'
    rw [issueCount_cons, hi]
    by_cases hll : l' = nl
    · subst hll; simp; omega
    · simp [hll]; omega
  · intro l' hl'
    rw [termCount_cons, ht]
    rcases hh l' hl' with a | a
    · simp; exact h.g3 l' a
    · subst a; simp; omega
  · intro l' hl'
    have := h.g4 l' (by omega)
    rw [issueCount_cons, hi]
    have : ¬ l' = nl := by omega
    simp [this]; assumption
  · intro l' hl'
    rw [issueCount_cons, hi]
    rcases hh l' hl' with a | a
    · have h5' := h.g5 l' a
      have : ¬ l' = nl := by intro e; subst e; omega
      simp [this]; exact h5'
    · subst a; simp; omega

end BbRe.Lemmas.SchedInv
