import BbRe.Lemmas.BRLPhase1
/-!
# Helper lemmas for C20: the second loop of `Set` (`phase2`)

Throughout, `r = phase2 n tr ls = (kept, rest, n', tr')`.
-/
namespace BbRe.Lemmas.BRL
open BbRe.BRL BbRe.Spec.ByteLocks

theorem phase2_n (n : Lock) (tr : Option Lock) (ls : List Lock) :
    (phase2 n tr ls).2.2.1.start = n.start ∧ (phase2 n tr ls).2.2.1.ty = n.ty ∧
    (phase2 n tr ls).2.2.1.owner = n.owner ∧ n.stop ≤ (phase2 n tr ls).2.2.1.stop := by
  fun_induction phase2 n tr ls <;> simp_all +zetaDelta <;> omega

/-- Entries of other owners pass through `phase2` unchanged and in order. -/
theorem phase2_others (n : Lock) (tr : Option Lock) (ls : List Lock) :
    ((phase2 n tr ls).1 ++ (phase2 n tr ls).2.1).filter (fun e => e.owner ≠ n.owner) =
      ls.filter (fun e => e.owner ≠ n.owner) := by
  fun_induction phase2 n tr ls <;> simp_all +zetaDelta [List.filter_cons]

/-- The scanned entries that are kept are entries of other owners. -/
theorem phase2_kept (n : Lock) (tr : Option Lock) (ls : List Lock) :
    ∀ y ∈ (phase2 n tr ls).1, y ∈ ls ∧ y.owner ≠ n.owner ∧ y.start ≤ (phase2 n tr ls).2.2.1.stop := by
  have hn := fun n' tr' ls' => phase2_n n' tr' ls'
  fun_induction phase2 n tr ls <;> simp_all +zetaDelta
  all_goals grind

theorem phase2_suffix (n : Lock) (tr : Option Lock) (ls : List Lock) :
    (phase2 n tr ls).2.1 <:+ ls := by
  fun_induction phase2 n tr ls <;> simp_all +zetaDelta <;>
    exact List.IsSuffix.trans (by assumption) (List.suffix_cons _ _)

/-- Everything after the scanned part starts strictly after the (grown) new lock. -/
theorem phase2_rest_lb (n : Lock) (tr : Option Lock) (ls : List Lock)
    (hp : ls.Pairwise Rel) :
    ∀ y ∈ (phase2 n tr ls).2.1, (phase2 n tr ls).2.2.1.stop < y.start := by
  fun_induction phase2 n tr ls <;> simp_all +zetaDelta [Rel]
  all_goals grind

theorem phase2_sub (n : Lock) (tr : Option Lock) (ls : List Lock) :
    Sub ls ((phase2 n tr ls).1 ++ (phase2 n tr ls).2.1) := by
  fun_induction phase2 n tr ls <;> simp_all +zetaDelta
  all_goals first
    | exact Sub.refl _
    | exact Sub.drop (by assumption)
    | exact Sub.keep (Shrink.refl _) (by assumption)

/-- The part by which the new lock grew at its end was held with the same type. -/
theorem phase2_cov (n : Lock) (tr : Option Lock) (ls : List Lock) (b : Nat)
    (h1 : n.stop ≤ b) (h2 : b < (phase2 n tr ls).2.2.1.stop) :
    ∃ e ∈ ls, e.owner = n.owner ∧ e.ty = n.ty ∧ e.start ≤ b ∧ b < e.stop := by
  fun_induction phase2 n tr ls
  case case4 tr s rest h3 h4 h5 h6 ih =>
    by_cases hb : b < s.stop
    · exact ⟨s, by simp, h4, h6.symm, by omega, hb⟩
    · obtain ⟨e, he, h⟩ := ih (by simp; omega) h2
      exact ⟨e, by simp [he], h⟩
  all_goals simp_all +zetaDelta
  all_goals grind


theorem TrOk.congr {L : List Lock} {n n' x : Lock} (h : TrOk L n x)
    (h1 : n'.owner = n.owner) (h2 : n'.ty = n.ty) (h3 : n'.stop = n.stop) : TrOk L n' x := by
  unfold TrOk at *; rw [h1, h2, h3]; exact h

theorem phase2_tr (L : List Lock) (n : Lock) (tr : Option Lock) (ls : List Lock)
    (hp : ls.Pairwise Rel) (htr : HTr n tr ls)
    (hin : ∀ x, tr = some x → TrOk L n x) (hsub : ∀ e ∈ ls, e ∈ L) :
    ∀ x, (phase2 n tr ls).2.2.2 = some x → TrOk L (phase2 n tr ls).2.2.1 x := by
  fun_induction phase2 n tr ls
  case case1 => simpa using hin
  case case2 => simpa using hin
  case case3 n tr s rest h1 h2 h3 ih =>
    have : tr = none := by
      cases tr with
      | none => rfl
      | some x => have := htr rfl s (by simp) h2; omega
    subst this
    exact ih hp.of_cons (by simp [HTr]) (by simp) (fun e he => hsub e (by simp [he]))
  case case4 n tr s rest h1 h2 h3 h4 ih =>
    have : tr = none := by
      cases tr with
      | none => rfl
      | some x => have := htr rfl s (by simp) h2; omega
    subst this
    exact ih hp.of_cons (by simp [HTr]) (by simp) (fun e he => hsub e (by simp [he]))
  case case5 n tr s rest h1 h2 h3 h4 ih =>
    rw [List.pairwise_cons] at hp
    refine ih hp.2 ?_ ?_ (fun e he => hsub e (by simp [he]))
    · intro _ e he ho
      have := (hp.1 e he).2.1 (by omega)
      omega
    · intro x hx
      simp at hx; subst hx
      exact ⟨h2, by simp; exact fun h => h4 h.symm, rfl, by simp; omega, s, hsub s (by simp), h2, rfl, rfl, by simp; omega⟩
  case case6 n tr s rest h1 h2 r ih =>
    exact ih hp.of_cons (fun h e he => htr h e (by simp [he])) hin (fun e he => hsub e (by simp [he]))

theorem phase2_abs (n : Lock) (tr : Option Lock) (ls : List Lock)
    (hp : ls.Pairwise Rel) (hlb : ∀ e ∈ ls, n.start ≤ e.start) (htr : HTr n tr ls) (b : Nat) :
    abs ((phase2 n tr ls).2.2.1 :: ((phase2 n tr ls).1 ++
          ((phase2 n tr ls).2.2.2.toList ++ (phase2 n tr ls).2.1))) n.owner b =
      abs (n :: (tr.toList ++ ls)) n.owner b := by
  fun_induction phase2 n tr ls
  case case1 => rfl
  case case2 => rfl
  case case3 n tr s rest h1 h2 h3 ih =>
    have : tr = none := by
      cases tr with
      | none => rfl
      | some x => have := htr rfl s (by simp) h2; omega
    subst this
    have ih := ih hp.of_cons (fun e he => hlb e (by simp [he])) (by simp [HTr])
    have := hlb s (by simp)
    rw [ih]
    simp [abs_cons]
    grind
  case case4 n tr s rest h1 h2 h3 h4 ih =>
    have : tr = none := by
      cases tr with
      | none => rfl
      | some x => have := htr rfl s (by simp) h2; omega
    subst this
    rw [List.pairwise_cons] at hp
    have ih := ih hp.2 (fun e he => hlb e (by simp [he])) (by simp [HTr])
    have := hlb s (by simp)
    simp only [] at ih
    rw [ih]
    simp [abs_cons]
    grind
  case case5 n tr s rest h1 h2 h3 h4 ih =>
    have : tr = none := by
      cases tr with
      | none => rfl
      | some x => have := htr rfl s (by simp) h2; omega
    subst this
    rw [List.pairwise_cons] at hp
    have ih := ih hp.2 (fun e he => hlb e (by simp [he])) (by
      intro _ e he ho
      have := (hp.1 e he).2.1 (by omega)
      omega)
    have := hlb s (by simp)
    rw [ih]
    simp [abs_cons]
    grind
  case case6 n tr s rest h1 h2 r ih =>
    have ih := ih hp.of_cons (fun e he => hlb e (by simp [he])) (fun h e he => htr h e (by simp [he]))
    have hc : ¬ Covers s n.owner b := fun h => h2 h.1
    simp [abs_cons, abs_append, hc] at ih ⊢
    simp only [r]
    rw [ih]

end BbRe.Lemmas.BRL
