import BbRe.Lemmas.BRLPhase1
/-!
# Helper lemmas for C20: the second loop of `Set` (`phase2`)

Throughout, `r = phase2 n tr ls = (kept, rest, n', tr')`.
-/
namespace BbRe.Lemmas.BRL
open BbRe.BRL BbRe.Spec.ByteLocks

theorem phase2_n (n : Lock) (tr : Option Lock) (ls : List Lock) :
    (phase2 n tr ls).2.2.1.start = n.start ∧ (phase2 n tr ls).2.2.1.ty = n.ty ∧
    (phase2 n tr ls).2.2.1.owner = n.owner ∧ n.stop ≤ (phase2 n tr ls).2.2.1.stop := by
  fun_induction phase2 n tr ls <;> simp_all +zetaDelta <;> omega

/-- Entries of other owners pass through `phase2` unchanged and in order. -/
theorem phase2_others (n : Lock) (tr : Option Lock) (ls : List Lock) :
    ((phase2 n tr ls).1 ++ (phase2 n tr ls).2.1).filter (fun e => e.owner ≠ n.owner) =
      ls.filter (fun e => e.owner ≠ n.owner) := by
  fun_induction phase2 n tr ls <;> simp_all +zetaDelta [List.filter_cons]

/-- The scanned entries that are kept are entries of other owners. -/
theorem phase2_kept (n : Lock) (tr : Option Lock) (ls : List Lock) :
    ∀ y ∈ (phase2 n tr ls).1, y ∈ ls ∧ y.owner ≠ n.owner ∧ y.start ≤ (phase2 n tr ls).2.2.1.stop := by
  have hn := fun n' tr' ls' => phase2_n n' tr' ls'
  fun_induction phase2 n tr ls <;> simp_all +zetaDelta
  all_goals grind

theorem phase2_suffix (n : Lock) (tr : Option Lock) (ls : List Lock) :
    (phase2 n tr ls).2.1 <:+ ls := by
  fun_induction phase2 n tr ls <;> simp_all +zetaDelta <;>
    exact List.IsSuffix.trans (by assumption) (List.suffix_cons _ _)

/-- Everything after the scanned part starts strictly after the (grown) new lock. -/
theorem phase2_rest_lb (n : Lock) (tr : Option Lock) (ls : List Lock)
    (hp : ls.Pairwise Rel) :
    ∀ y ∈ (phase2 n tr ls).2.1, (phase2 n tr ls).2.2.1.stop < y.start := by
  fun_induction phase2 n tr ls <;> simp_all +zetaDelta [Rel]
  all_goals grind

theorem phase2_sub (n : Lock) (tr : Option Lock) (ls : List Lock) :
    Sub ls ((phase2 n tr ls).1 ++ (phase2 n tr ls).2.1) := by
  fun_induction phase2 n tr ls <;> simp_all +zetaDelta
  all_goals first
    | exact Sub.refl _
    | exact Sub.drop (by assumption)
    | exact Sub.keep (Shrink.refl _) (by assumption)

/-- The part by which the new lock grew at its end was held with the same type. -/
theorem phase2_cov (n : Lock) (tr : Option Lock) (ls : List Lock) (b : Nat)
    (h1 : n.stop ≤ b) (h2 : b < (phase2 n tr ls).2.2.1.stop) :
    ∃ e ∈ ls, e.owner = n.owner ∧ e.ty = n.ty ∧ e.start ≤ b ∧ b < e.stop := by
  fun_induction phase2 n tr ls
  case case4 tr s rest h3 h4 h5 h6 ih =>
    by_cases hb : b < s.stop
    · exact ⟨s, by simp, h4, h6.symm, by omega, hb⟩
    · obtain ⟨e, he, h⟩ := ih (by simp; omega) h2
      exact ⟨e, by simp [he], h⟩
  all_goals simp_all +zetaDelta
  all_goals grind

end BbRe.Lemmas.BRL
