import BbRe.Lemmas.SchedLiveSpec2
/-!
Monotonicity of tasks along every segment: identifiers are never reused, the
generation counter (`stageChangeWakeup` closures) only grows and grows strictly
whenever the worker or the response of a task changes, a stored response never
changes, a task never leaves its platform queue, and the stage / size class only
"drops" when `allow` (the retry branch of `complete`) holds.
-/
namespace BbRe.Lemmas.SchedLive
open BbRe.Sched

/-- One task before / after. -/
structure TaskLe (allow : Prop) (t t' : Task) : Prop where
  id : t'.id = t.id
  gen : t.gen ≤ t'.gen
  pq : t'.scq.pq = t.scq.pq
  digest : t'.digest = t.digest
  dkey : t'.dkey = t.dkey
  resp : ∀ r, t.response = some r → t'.response = some r
  bump : (t'.worker ≠ t.worker ∨ t'.response ≠ t.response) → t.gen < t'.gen
  drop : (t'.stage < t.stage ∨ t'.scq ≠ t.scq) → allow
  bg : t'.background = t.background

theorem TaskLe.refl (allow : Prop) (t : Task) : TaskLe allow t t :=
  ⟨rfl, Nat.le_refl _, rfl, rfl, rfl, fun _ h => h, by simp, by simp, rfl⟩

theorem TaskLe.trans {allow : Prop} {a b c : Task} (h1 : TaskLe allow a b) (h2 : TaskLe allow b c) :
    TaskLe allow a c := by
  refine ⟨h2.id.trans h1.id, Nat.le_trans h1.gen h2.gen, h2.pq.trans h1.pq, h2.digest.trans h1.digest,
    h2.dkey.trans h1.dkey, fun r h => h2.resp r (h1.resp r h), ?_, ?_, h2.bg.trans h1.bg⟩
  · intro h
    have g1 := h1.gen; have g2 := h2.gen
    by_cases hb : b.worker ≠ a.worker ∨ b.response ≠ a.response
    · have := h1.bump hb; omega
    · have hc : c.worker ≠ b.worker ∨ c.response ≠ b.response := by
        simp only [not_or, Classical.not_not, ne_eq] at hb
        rcases h with h | h
        · exact .inl (by rw [hb.1]; exact h)
        · exact .inr (by rw [hb.2]; exact h)
      have := h2.bump hc; omega
  · intro h
    by_cases hb : b.stage < a.stage ∨ b.scq ≠ a.scq
    · exact h1.drop hb
    · simp only [not_or, Classical.not_not, ne_eq, Nat.not_lt] at hb
      refine h2.drop ?_
      rcases h with h | h
      · exact .inl (by omega)
      · exact .inr (by rw [hb.2]; exact h)

theorem TaskLe.mono {a b : Prop} (hab : a → b) {t t' : Task} (h : TaskLe a t t') : TaskLe b t t' :=
  ⟨h.id, h.gen, h.pq, h.digest, h.dkey, h.resp, h.bump, fun x => hab (h.drop x), h.bg⟩

/-- Key discipline of the task and operation maps. -/
structure KeysOK (s : State) : Prop where
  tnodup : (akeys s.tasks).Nodup
  onodup : (akeys s.ops).Nodup
  tid : ∀ k t, s.task? k = some t → t.id = k ∧ k < s.nextTask
  oname : ∀ k o, s.op? k = some o → o.name = k ∧ k < s.nextOp ∧ o.task < s.nextTask

/-- Tasks / operations that existed before (key below the old watermark) relate to their old selves. -/
structure TRel (allow : Prop) (s s' : State) : Prop where
  nt : s.nextTask ≤ s'.nextTask
  no : s.nextOp ≤ s'.nextOp
  tasks : ∀ k t', k < s.nextTask → s'.task? k = some t' → ∃ t, s.task? k = some t ∧ TaskLe allow t t'
  ops : ∀ k o', k < s.nextOp → s'.op? k = some o' → ∃ o, s.op? k = some o ∧ o'.task = o.task
  opm : ∀ k o o', s.op? k = some o → s'.op? k = some o' → o'.mayExistWithoutWaiters = true →
    o.mayExistWithoutWaiters = true
  fresh : ∀ k o', s.nextOp ≤ k → s'.op? k = some o' → o'.mayExistWithoutWaiters = true →
    ∀ t', s'.task? o'.task = some t' → t'.background = true

/-- The relation every helper satisfies: key discipline is preserved and old objects evolve monotonically. -/
def TStep (allow : Prop) (s s' : State) : Prop := KeysOK s → KeysOK s' ∧ TRel allow s s'

theorem TStep.refl (allow : Prop) (s : State) : TStep allow s s :=
  fun hk => ⟨hk, Nat.le_refl _, Nat.le_refl _, fun _ t' _ h => ⟨t', h, TaskLe.refl _ _⟩, fun _ o' _ h => ⟨o', h, rfl⟩,
    fun _ o o' e e' hm => by rw [e] at e'; injection e' with e'; subst e'; exact hm,
    fun k o' hk' e => by have := (hk.oname k o' e).2.1; omega⟩

theorem TStep.trans {allow : Prop} {a b c : State} (h1 : TStep allow a b) (h2 : TStep allow b c) : TStep allow a c := by
  intro hk
  obtain ⟨kb, r1⟩ := h1 hk
  obtain ⟨kc, r2⟩ := h2 kb
  refine ⟨kc, Nat.le_trans r1.nt r2.nt, Nat.le_trans r1.no r2.no, ?_, ?_, ?_, ?_⟩
  · intro k t' hk' ht'
    obtain ⟨tb, hb, l2⟩ := r2.tasks k t' (Nat.lt_of_lt_of_le hk' r1.nt) ht'
    obtain ⟨ta, ha, l1⟩ := r1.tasks k tb hk' hb
    exact ⟨ta, ha, l1.trans l2⟩
  · intro k o' hk' ho'
    obtain ⟨ob, hb, l2⟩ := r2.ops k o' (Nat.lt_of_lt_of_le hk' r1.no) ho'
    obtain ⟨oa, ha, l1⟩ := r1.ops k ob hk' hb
    exact ⟨oa, ha, l2.trans l1⟩
  · intro k o o' e e' hm
    have hlt := (hk.oname k o e).2.1
    obtain ⟨ob, hb, _⟩ := r2.ops k o' (Nat.lt_of_lt_of_le hlt r1.no) e'
    exact r1.opm k o ob e hb (r2.opm k ob o' hb e' hm)
  · intro k o' hk' e' hm t' ht'
    by_cases hkb : k < b.nextOp
    · obtain ⟨ob, hb, etask⟩ := r2.ops k o' hkb e'
      have hmb := r2.opm k ob o' hb e' hm
      have hlt := (kb.oname k ob hb).2.2
      rw [etask] at ht'
      obtain ⟨tb, htb, le⟩ := r2.tasks _ t' hlt ht'
      have := r1.fresh k ob hk' hb hmb tb htb
      rw [le.bg]; exact this
    · exact r2.fresh k o' (by omega) e' hm t' ht'

theorem TStep.mono {a b : Prop} (hab : a → b) {s s' : State} (h : TStep a s s') : TStep b s s' := by
  intro hk
  obtain ⟨k', r⟩ := h hk
  exact ⟨k', r.nt, r.no, fun k t' h1 h2 => by
    obtain ⟨t, e, l⟩ := r.tasks k t' h1 h2; exact ⟨t, e, l.mono hab⟩, r.ops, r.opm, r.fresh⟩

/-- General constructor: every task / operation of `s'` is an old one (related) or lies in the fresh key range. -/
theorem TStep.intro {allow : Prop} {s s' : State}
    (h : KeysOK s →
      (akeys s'.tasks).Nodup ∧ (akeys s'.ops).Nodup ∧ s.nextTask ≤ s'.nextTask ∧ s.nextOp ≤ s'.nextOp ∧
      (∀ k t', s'.task? k = some t' →
          (∃ t, s.task? k = some t ∧ TaskLe allow t t') ∨ (s.nextTask ≤ k ∧ k < s'.nextTask ∧ t'.id = k)) ∧
      (∀ k o', s'.op? k = some o' →
          (∃ o, s.op? k = some o ∧ o'.task = o.task ∧ o'.name = o.name ∧
            (o'.mayExistWithoutWaiters = true → o.mayExistWithoutWaiters = true)) ∨
          (s.nextOp ≤ k ∧ k < s'.nextOp ∧ o'.name = k ∧ o'.task < s'.nextTask ∧
            (o'.mayExistWithoutWaiters = true → ∀ t', s'.task? o'.task = some t' → t'.background = true)))) :
    TStep allow s s' := by
  intro hk
  obtain ⟨n1, n2, l1, l2, ht, ho⟩ := h hk
  refine ⟨⟨n1, n2, ?_, ?_⟩, l1, l2, ?_, ?_, ?_, ?_⟩
  · intro k t' e
    rcases ht k t' e with ⟨t, e0, l⟩ | ⟨_, h2, h3⟩
    · have := hk.tid k t e0; exact ⟨l.id.trans this.1, by omega⟩
    · exact ⟨h3, h2⟩
  · intro k o' e
    rcases ho k o' e with ⟨o, e0, h1, h2, _⟩ | ⟨_, h2, h3, h4, _⟩
    · have := hk.oname k o e0; exact ⟨h2.trans this.1, by omega, by rw [h1]; omega⟩
    · exact ⟨h3, h2, h4⟩
  · intro k t' hk' e
    rcases ht k t' e with h | ⟨h, _⟩
    · exact h
    · omega
  · intro k o' hk' e
    rcases ho k o' e with ⟨o, e0, h1, _⟩ | ⟨h, _⟩
    · exact ⟨o, e0, h1⟩
    · omega
  · intro k o o' e e' hm
    rcases ho k o' e' with ⟨o0, e0, _, _, hmm⟩ | ⟨h, _⟩
    · rw [e] at e0; injection e0 with e0; subst e0; exact hmm hm
    · have := (hk.oname k o e).2.1; omega
  · intro k o' hk' e' hm
    rcases ho k o' e' with ⟨o0, e0, _⟩ | ⟨_, _, _, _, hf⟩
    · have := (hk.oname k o0 e0).2.1; omega
    · exact hf hm

/-- an update that leaves tasks, operations and both watermarks alone -/
theorem TStep.of_same {allow : Prop} {s s' : State} (h1 : s'.tasks = s.tasks) (h2 : s'.ops = s.ops)
    (h3 : s'.nextTask = s.nextTask) (h4 : s'.nextOp = s.nextOp) : TStep allow s s' := by
  apply TStep.intro; intro hk
  refine ⟨h1 ▸ hk.tnodup, h2 ▸ hk.onodup, by omega, by omega, ?_, ?_⟩
  · intro k t' e; simp only [State.task?, h1] at e; exact .inl ⟨t', e, TaskLe.refl _ _⟩
  · intro k o' e; simp only [State.op?, h2] at e; exact .inl ⟨o', e, rfl, rfl, id⟩

/-- an update that replaces one existing task by a later version of itself -/
theorem TStep.of_task {allow : Prop} {s s' : State} {t0 t2 : Task} (h0 : s.task? t0.id = some t0)
    (hle : TaskLe allow t0 t2) (h1 : s'.tasks = aset t0.id t2 s.tasks) (h2 : s'.ops = s.ops)
    (h3 : s'.nextTask = s.nextTask) (h4 : s'.nextOp = s.nextOp) : TStep allow s s' := by
  apply TStep.intro; intro hk
  refine ⟨h1 ▸ nodup_akeys_aset _ _ _ hk.tnodup, h2 ▸ hk.onodup, by omega, by omega, ?_, ?_⟩
  · intro k t' e
    simp only [State.task?, h1, alookup_aset] at e
    split at e
    · rename_i hk0; subst hk0; injection e with e; subst e; exact .inl ⟨t0, h0, hle⟩
    · exact .inl ⟨t', e, TaskLe.refl _ _⟩
  · intro k o' e; simp only [State.op?, h2] at e; exact .inl ⟨o', e, rfl, rfl, id⟩

/-- an update of operations that keeps keys, names and task pointers -/
theorem TStep.of_ops {allow : Prop} {s s' : State} (h1 : s'.tasks = s.tasks)
    (h2 : (akeys s.ops).Nodup → (akeys s'.ops).Nodup)
    (h2' : ∀ k o', s'.op? k = some o' → ∃ o, s.op? k = some o ∧ o'.task = o.task ∧ o'.name = o.name ∧
      (o'.mayExistWithoutWaiters = true → o.mayExistWithoutWaiters = true))
    (h3 : s'.nextTask = s.nextTask) (h4 : s'.nextOp = s.nextOp) : TStep allow s s' := by
  apply TStep.intro; intro hk
  refine ⟨h1 ▸ hk.tnodup, h2 hk.onodup, by omega, by omega, ?_, ?_⟩
  · intro k t' e; simp only [State.task?, h1] at e; exact .inl ⟨t', e, TaskLe.refl _ _⟩
  · intro k o' e; exact .inl (h2' k o' e)

/-- lookup-function form of `of_task` (several writes to the same key) -/
theorem TStep.of_task' {allow : Prop} {s s' : State} {k0 : Nat} {t0 t2 : Task} (h0 : s.task? k0 = some t0)
    (hle : TaskLe allow t0 t2) (h1 : ∀ k, s'.task? k = if k0 = k then some t2 else s.task? k)
    (hn : (akeys s.tasks).Nodup → (akeys s'.tasks).Nodup) (h2 : s'.ops = s.ops)
    (h3 : s'.nextTask = s.nextTask) (h4 : s'.nextOp = s.nextOp) : TStep allow s s' := by
  apply TStep.intro; intro hk
  refine ⟨hn hk.tnodup, h2 ▸ hk.onodup, by omega, by omega, ?_, ?_⟩
  · intro k t' e
    rw [h1] at e
    split at e
    · rename_i hk0; subst hk0; injection e with e; subst e; exact .inl ⟨t0, h0, hle⟩
    · exact .inl ⟨t', e, TaskLe.refl _ _⟩
  · intro k o' e; simp only [State.op?, h2] at e; exact .inl ⟨o', e, rfl, rfl, id⟩

/-! ### facts about the pieces -/

theorem stage_le_four (t : Task) : t.stage ≤ 4 := by unfold Task.stage; (repeat' split) <;> omega
theorem stage_ge_two (t : Task) : 2 ≤ t.stage := by unfold Task.stage; (repeat' split) <;> omega
theorem stage_of_resp {t : Task} {r : Resp} (h : t.response = some r) : t.stage = 4 := by simp [Task.stage, h]

@[simp] theorem detachT_id (t : Task) : (detachT t).id = t.id := by unfold detachT; split <;> rfl
@[simp] theorem detachT_scq (t : Task) : (detachT t).scq = t.scq := by unfold detachT; split <;> rfl
@[simp] theorem detachT_digest (t : Task) : (detachT t).digest = t.digest := by unfold detachT; split <;> rfl
@[simp] theorem detachT_dkey (t : Task) : (detachT t).dkey = t.dkey := by unfold detachT; split <;> rfl
@[simp] theorem detachT_response (t : Task) : (detachT t).response = t.response := by unfold detachT; split <;> rfl
@[simp] theorem detachT_ops (t : Task) : (detachT t).ops = t.ops := by unfold detachT; split <;> rfl
@[simp] theorem detachT_learner (t : Task) : (detachT t).learner = t.learner := by unfold detachT; split <;> rfl
@[simp] theorem detachT_worker (t : Task) : (detachT t).worker = none := by unfold detachT; split <;> rfl
@[simp] theorem detachT_background (t : Task) : (detachT t).background = t.background := by unfold detachT; split <;> rfl
theorem detachT_gen_ge (t : Task) : t.gen ≤ (detachT t).gen := by
  unfold detachT; split <;> simp [bumpGen]
theorem detachT_gen_of_worker {t : Task} (h : t.worker.isSome = true) : (detachT t).gen = t.gen := by
  unfold detachT; cases hw : t.worker <;> simp_all
theorem detachT_gen_of_none {t : Task} (h : t.worker = none) : (detachT t).gen = t.gen + 1 := by
  unfold detachT; simp [h, bumpGen]

/-- the final completion of a task is a legal successor of it -/
theorem taskLe_final (allow : Prop) {t : Task} (r : Resp) (hr : t.response = none) (l : Option Nat) :
    TaskLe allow t (bumpGen { detachT t with learner := l, response := some r }) := by
  have := detachT_gen_ge t
  refine ⟨by simp [bumpGen], by simp [bumpGen]; omega, by simp [bumpGen], by simp [bumpGen], by simp [bumpGen],
    by simp [hr], by intro _; simp [bumpGen]; omega, ?_, by simp [bumpGen]⟩
  rintro (h | h)
  · have h4 : (bumpGen { detachT t with learner := l, response := some r }).stage = 4 := stage_of_resp rfl
    have := stage_le_four t; omega
  · simp [bumpGen] at h

/-! ### `finishOps` only clears `mayExistWithoutWaiters` flags -/

/-- same operation up to the `mayExistWithoutWaiters` flag (which may only be cleared) -/
structure OpSame (o o' : Op) : Prop where
  name : o'.name = o.name
  task : o'.task = o.task
  inv : o'.inv = o.inv
  prio : o'.prio = o.prio
  waiters : o'.waiters = o.waiters
  mew : o'.mayExistWithoutWaiters = true → o.mayExistWithoutWaiters = true

theorem OpSame.refl (o : Op) : OpSame o o := ⟨rfl, rfl, rfl, rfl, rfl, id⟩
theorem OpSame.trans {a b c : Op} (h1 : OpSame a b) (h2 : OpSame b c) : OpSame a c :=
  ⟨h2.name.trans h1.name, h2.task.trans h1.task, h2.inv.trans h1.inv, h2.prio.trans h1.prio,
   h2.waiters.trans h1.waiters, fun h => h1.mew (h2.mew h)⟩

/-- operations are the same up to cleared flags, with the same key list -/
structure OpsSame (s s' : State) : Prop where
  keys : akeys s'.ops = akeys s.ops
  ops : ∀ k, (s.op? k = none ∧ s'.op? k = none) ∨ ∃ o o', s.op? k = some o ∧ s'.op? k = some o' ∧ OpSame o o'

theorem OpsSame.refl (s : State) : OpsSame s s :=
  ⟨rfl, fun k => by cases h : s.op? k with
    | none => exact .inl ⟨rfl, rfl⟩
    | some o => exact .inr ⟨o, o, rfl, rfl, OpSame.refl o⟩⟩

theorem OpsSame.of_eq {s s' : State} (h : s'.ops = s.ops) : OpsSame s s' := by
  have := OpsSame.refl s
  refine ⟨by rw [h], fun k => ?_⟩
  have e : s'.op? k = s.op? k := by simp [State.op?, h]
  rw [e]; exact this.ops k

theorem OpsSame.trans {a b c : State} (h1 : OpsSame a b) (h2 : OpsSame b c) : OpsSame a c := by
  refine ⟨h2.keys.trans h1.keys, fun k => ?_⟩
  rcases h1.ops k with ⟨e1, e2⟩ | ⟨o, o', e1, e2, l1⟩
  · rcases h2.ops k with ⟨_, e4⟩ | ⟨o2, _, e3, _⟩
    · exact .inl ⟨e1, e4⟩
    · rw [e2] at e3; cases e3
  · rcases h2.ops k with ⟨e3, _⟩ | ⟨o2, o3, e3, e4, l2⟩
    · rw [e2] at e3; cases e3
    · rw [e2] at e3; injection e3 with e3; subst e3
      exact .inr ⟨o, o3, e1, e4, l1.trans l2⟩

theorem akeys_aset_of_mem {α} (k : Nat) (v v' : α) (l : List (Nat × α)) (h : alookup k l = some v') :
    akeys (aset k v l) = akeys l := by
  rw [akeys_aset, if_pos]
  apply Classical.byContradiction; intro hc
  rw [← alookup_none_iff] at hc; rw [hc] at h; cases h

theorem finishOp_opsSame (s : State) (o : Nat) (hn : ∀ k op, s.op? k = some op → op.name = k) :
    OpsSame s (finishOp s o) := by
  unfold finishOp
  split
  · rename_i op hop
    split
    · have hname := hn o op hop
      refine ⟨?_, fun k => ?_⟩
      · simp only [maybeStartCleanup_ops, setOp_ops, hname]
        exact akeys_aset_of_mem _ _ _ _ hop
      · simp only [State.op?, maybeStartCleanup_ops, setOp_ops, alookup_aset, hname]
        split
        · rename_i e; subst e
          exact .inr ⟨op, _, hop, rfl, ⟨hname.symm, rfl, rfl, rfl, rfl, by simp⟩⟩
        · exact (OpsSame.refl s).ops k
    · exact OpsSame.refl s
  · exact OpsSame.refl s

theorem opsSame_names {s s' : State} (h : OpsSame s s') (hn : ∀ k op, s.op? k = some op → op.name = k) :
    ∀ k op, s'.op? k = some op → op.name = k := by
  intro k op e
  rcases h.ops k with ⟨_, e2⟩ | ⟨o, o', e1, e2, l⟩
  · rw [e2] at e; cases e
  · rw [e2] at e; injection e with e; subst e; rw [l.name]; exact hn k o e1

theorem finishOps_opsSame (l : List Nat) (s : State) (hn : ∀ k op, s.op? k = some op → op.name = k) :
    OpsSame s (complete.finishOps s l) := by
  induction l generalizing s with
  | nil => exact OpsSame.refl s
  | cons o r ih =>
    rw [finishOps_cons]
    have h1 := finishOp_opsSame s o hn
    exact h1.trans (ih _ (opsSame_names h1 hn))

theorem TStep.of_opsSame {allow : Prop} {s s' : State} (h1 : s'.tasks = s.tasks) (h2 : OpsSame s s')
    (h3 : s'.nextTask = s.nextTask) (h4 : s'.nextOp = s.nextOp) : TStep allow s s' := by
  refine TStep.of_ops h1 (fun h => by rw [h2.keys]; exact h) ?_ h3 h4
  intro k o' e
  rcases h2.ops k with ⟨_, e2⟩ | ⟨o, o2, e1, e2, l⟩
  · rw [e2] at e; cases e
  · rw [e2] at e; injection e with e; subst e; exact ⟨o, e1, l.task, l.name, l.mew⟩

end BbRe.Lemmas.SchedLive
