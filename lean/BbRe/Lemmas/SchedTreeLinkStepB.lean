import BbRe.Lemmas.SchedTreeLinkCore
/-!
Step lemmas of the tree layer: `assignNextQueuedTask` (a queued task is picked by a worker), parking in
`getNextTask`, and `worker.maybeDequeue` when a blocked `Synchronize` call returns.
-/
namespace BbRe.Lemmas.SchedTree
open BbRe.Sched BbRe.SchedTree BbRe.Lemmas.SchedInv
variable {X : List (ScqId × List Nat)}

/-! ### helpers -/

private theorem setWX_same (l : List WX) (q : ScqId) (w : WId) : setWX l q w (fun y => y) = l := by
  unfold setWX
  have : ∀ x ∈ l, (if x.scq = q ∧ x.id = w then x else x) = x := by
    intro x _; split <;> rfl
  rw [List.map_congr_left this, List.map_id']

/-- with distinct keys, every entry is the one `find?` returns for its key -/
private theorem find?_of_mem_wxkey {l : List WX} (hnd : (l.map wxkey).Nodup) {x : WX} (hx : x ∈ l) :
    l.find? (fun y => y.scq = x.scq ∧ y.id = x.id) = some x := by
  induction l with
  | nil => cases hx
  | cons a t ih =>
    simp only [List.map_cons, List.nodup_cons] at hnd
    rw [List.find?_cons]
    rcases List.mem_cons.mp hx with e | e
    · subst e; simp
    · have hne : ¬ (a.scq = x.scq ∧ a.id = x.id) := by
        intro hk; apply hnd.1
        exact List.mem_map.mpr ⟨x, e, by simp [wxkey, hk.1, hk.2]⟩
      simp only [hne, decide_false]
      exact ih hnd.2 e

/-- what an entry of `conP` says about the worker extras it comes from -/
private theorem conP_mem {x : WX} {c : PC} (h : c ∈ conP x) : x.parked = true ∧ x.scq = c.1 ∧ x.id = c.2.2 := by
  unfold conP at h
  split at h
  · rename_i hpk
    cases hl : x.last with
    | none => rw [hl] at h; cases h
    | some p' =>
      rw [hl] at h
      simp only [List.mem_singleton] at h
      subst h
      exact ⟨hpk, rfl, rfl⟩
  · cases h

/-- list without duplicates, same members -/
private def dd {α} [DecidableEq α] : List α → List α
  | [] => []
  | a :: l => if a ∈ dd l then dd l else a :: dd l

private theorem mem_dd {α} [DecidableEq α] (c : α) : ∀ l : List α, c ∈ dd l ↔ c ∈ l
  | [] => Iff.rfl
  | a :: l => by
    have ih := mem_dd c l
    show c ∈ (if a ∈ dd l then dd l else a :: dd l) ↔ _
    split
    · rename_i h
      rw [ih, List.mem_cons]
      constructor
      · exact Or.inr
      · rintro (e | e)
        · subst e; exact (mem_dd c l).mp h
        · exact e
    · rw [List.mem_cons, List.mem_cons, ih]

private theorem nodup_dd {α} [DecidableEq α] : ∀ l : List α, (dd l).Nodup
  | [] => List.nodup_nil
  | a :: l => by
    have ih := nodup_dd l
    show (if a ∈ dd l then dd l else a :: dd l).Nodup
    split
    · exact ih
    · rename_i h; exact List.nodup_cons.mpr ⟨h, ih⟩

/-- the coupling after a step that replaces the record of one worker (and the worker's extras accordingly),
keeps the queues and the operation table of the tree layer, and does not create invocations -/
private theorem side_worker_update {ts ts' : TState} (hS : Side ts) {q : ScqId} {w : WId} {wk wk' : Worker}
    {g : WX → WX} (hw : wfind ts.s.workers q w = some wk) (hkq : wk'.scq = q) (hki : wk'.id = w)
    (hg : ∀ y, wxkey (g y) = wxkey y)
    (hwx : ts'.wx = setWX ts.wx q w g) (hsw : ts'.s.workers = wset ts.s.workers wk')
    (hpl : ∀ x : WX, x.parked = wk.parked → (x.last = none ↔ wk.task.isSome = true) →
      (g x).parked = wk'.parked ∧ ((g x).last = none ↔ wk'.task.isSome = true))
    (hnf : NFrame [] ts.nodes ts'.nodes) (hsq : ts'.s.scqs = ts.s.scqs) (hox : ts'.ox = ts.ox)
    (hso : ∀ o op', ts'.s.op? o = some op' → ∃ op, ts.s.op? o = some op ∧ op'.inv = op.inv ∧ op'.prio = op.prio)
    (hwq : ∀ k t q' w', alookup k ts'.s.tasks = some t → t.worker = some (q', w') → q' = t.scq) :
    Side ts' := by
  subst hkq; subst hki
  obtain ⟨x0, hx0, hxq, hxi, hxp, hxl⟩ := hS.wx_of_worker hw
  have hnodes := side_nodes hS hnf (scqs' := ts'.s.scqs) (by intro q hq; cases hq)
    (fun sq h => by rw [hsq]; exact h) (fun sq h => Or.inl (by rw [← hsq]; exact h))
  refine ⟨hnodes.1, hnodes.2, ?_, ?_, ?_, ?_, hwq⟩
  · rw [hwx]
    show ((setWX ts.wx wk'.scq wk'.id g).map wxkey).Nodup
    rw [setWX_keys ts.wx _ _ g hg]; exact hS.wxnd
  · intro q' w'
    rw [wx?_eq, worker?_def, hwx, hsw, find?_setWX _ _ _ _ hg, wfind_wset]
    have := hS.wxw q' w'
    rw [worker?_def, wx?_eq] at this
    by_cases hk : wk'.scq = q' ∧ wk'.id = w'
    · simp only [hk, and_self, if_true, Option.isSome_map]
      rw [this]; cases (wfind ts.s.workers q' w') <;> rfl
    · simp only [hk, if_false, Option.isSome_map]; exact this
  · intro q' w' wk1 x hwk hx
    rw [worker?_def, hsw, wfind_wset] at hwk
    rw [wx?_eq, hwx, find?_setWX _ _ _ _ hg] at hx
    by_cases hk : wk'.scq = q' ∧ wk'.id = w'
    · obtain ⟨rfl, rfl⟩ := hk
      rw [hw] at hwk
      simp only [and_self, if_true, Option.isSome_some, Option.some.injEq] at hwk
      rw [hx0] at hx
      simp only [Option.map_some, hxq, hxi, and_self, if_true, Option.some.injEq] at hx
      subst hwk; subst hx
      exact hpl x0 hxp hxl
    · simp only [hk, if_false] at hwk
      cases hf : ts.wx.find? (fun x => x.scq = q' ∧ x.id = w') with
      | none => rw [hf] at hx; cases hx
      | some y =>
        rw [hf] at hx
        have hyk := List.find?_some hf
        simp only [decide_eq_true_eq] at hyk
        have : ¬ (y.scq = wk'.scq ∧ y.id = wk'.id) := by
          rw [hyk.1, hyk.2]; exact fun h => hk ⟨h.1.symm, h.2.symm⟩
        simp only [Option.map_some, this, if_false, Option.some.injEq] at hx
        subst hx
        exact hS.wpl q' w' wk1 y (by rw [worker?_def]; exact hwk) hf
  · intro o op' h
    obtain ⟨op, e, hi, hp⟩ := hso o op' h
    rw [hox, hS.oxok o op e, hi, hp]

private theorem ops_frame {s s' : State} (h : s'.ops = s.ops) :
    ∀ o op', s'.op? o = some op' → ∃ op, s.op? o = some op ∧ op'.inv = op.inv ∧ op'.prio = op.prio := by
  intro o op' ho
  refine ⟨op', ?_, rfl, rfl⟩
  unfold State.op? at ho ⊢
  rw [← h]; exact ho

/-! ### `assignNextQueuedTask` -/

/-- `assignNextQueuedTask`: a queued task is assigned to worker `w` (`assignUnqueuedTask`) and all its
operations are removed from the queues (`removeQueuedFromInvocation`) -/
theorem pick_ts {ex exo} {ts : TState} {w : Worker} {t t2 : Task} {r : Nat} {s' : State}
    (hT : TInvX ex exo [] ts)
    (hw : wfind ts.s.workers w.scq w.id = some w) (hwt : w.task = none) (hwp : w.parked = false)
    (ht : alookup t.id ts.s.tasks = some t) (htw : t.worker = none) (hq : t.queued = true) (hsq : w.scq = t.scq)
    (hnd : t.ops.Nodup)
    (hown : ∀ k t', alookup k ts.s.tasks = some t' → ∀ o ∈ t'.ops, o ∈ t.ops → k = t.id)
    (h2 : t2.id = t.id ∧ t2.worker = some (w.scq, w.id) ∧ t2.queued = false ∧ t2.ops = t.ops ∧ t2.scq = t.scq)
    (hst : s'.tasks = aset t.id t2 ts.s.tasks) (hsw : s'.workers = wset ts.s.workers { w with task := some t.id })
    (hsq' : s'.scqs = ts.s.scqs) (hso : s'.ops = ts.s.ops) :
    TS [] (((ts.assignTree w t r).deqOps t).setS s') := by
  have hS := hT.side
  let ts' : TState := ((ts.assignTree w t r).deqOps t).setS s'
  show TS [] ts'
  obtain ⟨x0, hx0, hxq, hxi, hxp, hxl⟩ := hS.wx_of_worker hw
  have hlast : ∃ p, x0.last = some p := by
    cases hl : x0.last with
    | none => have := hxl.mp hl; rw [hwt] at this; cases this
    | some p => exact ⟨p, rfl⟩
  obtain ⟨p, hp⟩ := hlast
  have hlo : ts.lastOf w.scq w.id = some p := by rw [lastOf_of_find hx0, hp]
  -- the extras of the new state
  let g : WX → WX := fun y => { ({ y with last := none } : WX) with sticks := restick r ts.s.now y.sticks }
  have hg : ∀ y, wxkey (g y) = wxkey y := fun y => rfl
  have hwx' : ts'.wx = setWX ts.wx w.scq w.id g := by
    exact setWX_setWX ts.wx w.scq w.id _ _ (fun y => rfl)
  -- the queued entries of `t`
  have hconQ : conQ ts.ox t = t.ops.map (fun o => (t.scq, ts.invOf o, o)) := by
    unfold conQ; rw [if_pos hq]; rfl
  have hQEsub : ∀ c ∈ t.ops.map (fun o => (t.scq, ts.invOf o, o)), c ∈ bagQ ts := by
    intro c hc
    rw [bagQ_def]
    refine List.mem_flatMap.mpr ⟨(t.id, t), mem_of_alookup ht, ?_⟩
    show c ∈ conQ ts.ox t
    rw [hconQ]; exact hc
  have hn : ∀ o ∈ t.ops, (node? ts.nodes t.scq (ts.invOf o)).isSome = true := fun o ho =>
    hT.tree.rfQ _ (hQEsub _ (List.mem_map.mpr ⟨o, ho, rfl⟩))
  -- the bags of the new state
  have hI' : ((bagI ts).erase (w.scq, p)).Perm (bagI ts') := by
    have := bagI_setWX ts.wx w.scq w.id g hg hS.wxnd x0 hx0
    have e1 : conI (g x0) = [] := rfl
    have e2 : conI x0 = [(w.scq, p)] := by unfold conI; rw [hp, hxq]
    rw [e1, e2, List.append_nil] at this
    rw [bagI_def, bagI_def, hwx']
    exact perm_erase_of_append this
  have hP' : (bagP ts).Perm (bagP ts') := by
    have := bagP_setWX ts.wx w.scq w.id g hg hS.wxnd x0 hx0
    have e1 : conP (g x0) = [] := by unfold conP; simp [g, hxp, hwp]
    have e2 : conP x0 = [] := by unfold conP; simp [hxp, hwp]
    rw [e1, e2, List.append_nil, List.append_nil] at this
    rw [bagP_def, bagP_def, hwx']; exact this
  have ht2 : alookup t2.id ts.s.tasks = some t := by rw [h2.1]; exact ht
  have hst2 : s'.tasks = aset t2.id t2 ts.s.tasks := by rw [h2.1]; exact hst
  have hconE2 : conE ts.ox t2 = t.ops.map (fun o => (t.scq, ts.invOf o, some w.id)) := by
    unfold conE; rw [h2.2.1, h2.2.2.2.1, h2.2.2.2.2]; rfl
  have hE' : (t.ops.map (fun o => (t.scq, ts.invOf o, some w.id)) ++ bagE ts).Perm (bagE ts') := by
    have := bagE_setTask ts s' t t2 ts.ox ht2 hst2 (fun _ _ => rfl) ts' rfl rfl
    rw [conE_unassigned _ t htw, List.append_nil, hconE2] at this
    exact List.perm_append_comm.trans this
  have hQ' : ∀ c, c ∈ (dd (bagQ ts)).filter
      (fun c => !(t.ops.map (fun o => (t.scq, ts.invOf o, o))).contains c) ↔ c ∈ bagQ ts' := by
    intro c
    have hcont : (!(t.ops.map (fun o => (t.scq, ts.invOf o, o))).contains c) = true ↔
        c ∉ t.ops.map (fun o => (t.scq, ts.invOf o, o)) := by simp
    rw [List.mem_filter, mem_dd, hcont]
    constructor
    · rintro ⟨hc, hnc⟩
      rw [bagQ_def] at hc
      obtain ⟨⟨k, t'⟩, hkt, hcc⟩ := List.mem_flatMap.mp hc
      have hl : alookup k ts.s.tasks = some t' := alookup_of_mem hT.inv.core.tnd hkt
      change c ∈ conQ ts.ox t' at hcc
      have hne : ¬ t.id = k := by
        intro e; subst e; rw [ht] at hl
        have := Option.some.inj hl; subst this
        exact hnc (by rw [← hconQ]; exact hcc)
      rw [bagQ_def]
      refine List.mem_flatMap.mpr ⟨(k, t'), ?_, hcc⟩
      show (k, t') ∈ s'.tasks
      rw [hst]; apply mem_of_alookup; rw [alookup_aset, if_neg hne]; exact hl
    · intro hc
      rw [bagQ_def] at hc
      obtain ⟨⟨k, t'⟩, hkt, hcc⟩ := List.mem_flatMap.mp hc
      change c ∈ conQ ts.ox t' at hcc
      have hkt' : (k, t') ∈ aset t.id t2 ts.s.tasks := by rw [← hst]; exact hkt
      have hl := alookup_of_mem (nodup_aset t.id t2 _ hT.inv.core.tnd) hkt'
      rw [alookup_aset] at hl
      by_cases hkk : t.id = k
      · rw [if_pos hkk] at hl
        have := Option.some.inj hl; subst this
        rw [conQ_unqueued _ _ h2.2.2.1] at hcc; cases hcc
      · rw [if_neg hkk] at hl
        refine ⟨?_, ?_⟩
        · rw [bagQ_def]; exact List.mem_flatMap.mpr ⟨(k, t'), mem_of_alookup hl, hcc⟩
        · intro hm
          obtain ⟨o', ho', he'⟩ := List.mem_map.mp hm
          unfold conQ at hcc
          split at hcc
          · obtain ⟨o, ho, he⟩ := List.mem_map.mp hcc
            have : o = o' := by
              rw [← he'] at he; simp only [Prod.mk.injEq] at he; exact he.2.2
            subst this
            exact hkk (hown k t' hl o ho ho').symm
          · cases hcc
  -- the node list
  have hPI : ∀ c ∈ bagP ts, (c.1, c.2.1) ∈ (bagI ts).erase (w.scq, p) := by
    intro c hc
    have h1 : c ∈ bagP ts' := hP'.mem_iff.mp hc
    rw [bagP_def] at h1
    have h2 := bagP_sub_bagI ts'.wx c h1
    rw [← bagI_def] at h2
    exact hI'.mem_iff.mpr h2
  have hI0 : (w.scq, p) ∈ bagI ts := by
    rw [bagI_def]
    exact List.mem_flatMap.mpr ⟨x0, List.mem_of_find?_eq_some hx0, by unfold conI; rw [hp, hxq]; simp⟩
  have h1 := assignTree_nodes_ok (X := []) ts w t r hT.tree hn (by intro x hx; cases hx) p hlo hI0 hPI
  have h1' := h1.congr (List.Perm.refl _) (List.Perm.refl _) (fun c => (mem_dd c (bagQ ts)).symm) (fun _ => Iff.rfl)
  have h3 := deqOps_ok h1' ts.prioOf t.scq ts.invOf t.ops (nodup_dd _) hnd
    (fun o ho => (mem_dd _ _).mpr (hQEsub _ (List.mem_map.mpr ⟨o, ho, rfl⟩)))
  -- the invocations of the task are not empty: its operations are executing now
  have h4 := h3.reexempt [] (by
    intro n hn' _ hx _
    rw [List.nil_append] at hx
    obtain ⟨o, ho, hm⟩ := List.mem_flatMap.mp hx
    obtain ⟨pi, hpi, he⟩ := List.mem_map.mp hm
    simp only [Prod.mk.injEq] at he
    refine (h3.not_empty_iff hn').mpr (Or.inl ⟨(t.scq, ts.invOf o, some w.id), ?_, he.1, ?_⟩)
    · exact List.mem_append_left _ (List.mem_map.mpr ⟨o, ho, rfl⟩)
    · rw [← he.2]; exact (mem_prefixes.mp hpi).1)
  refine ⟨?_, ?_⟩
  · show TreeOK [] (t.ops.foldl (fun ns o => removeQueuedOp ts.prioOf ns t.scq (ts.invOf o) o)
      (ts.assignTree w t r).nodes) (bagE ts') (bagI ts') (bagQ ts') (bagP ts')
    exact h4.congr hE' hI' hQ' (fun c => hP'.mem_iff)
  · refine side_worker_update hS (ts' := ts') (wk' := { w with task := some t.id }) (g := g) hw rfl rfl hg hwx'
      hsw ?_ ((assignTree_nframe ts w t r).trans0 (deqOps_nframe (ts.assignTree w t r) t)) hsq' rfl
      (ops_frame hso) ?_
    · intro x h1 _
      exact ⟨h1, by simp [g]⟩
    · intro k t' q' w' hk hw'
      change alookup k s'.tasks = some t' at hk
      rw [hst, alookup_aset] at hk
      by_cases hkk : t.id = k
      · rw [if_pos hkk] at hk
        have := Option.some.inj hk; subst this
        rw [h2.2.1] at hw'
        simp only [Option.some.injEq, Prod.mk.injEq] at hw'
        rw [← hw'.1, h2.2.2.2.2]; exact hsq
      · rw [if_neg hkk] at hk
        exact hS.wq k t' q' w' hk hw'

/-! ### parking -/

/-- parking in `getNextTask` -/
theorem park_ts {ex exo} {ts : TState} {q : ScqId} {w : WId} {wk wk' : Worker} {s' : State}
    (hT : TInvX ex exo X ts) (hw : wfind ts.s.workers q w = some wk) (hwt : wk.task = none) (hwp : wk.parked = false)
    (hk : wk'.scq = wk.scq ∧ wk'.id = wk.id ∧ wk'.task = none ∧ wk'.parked = true)
    (hsw : s'.workers = wset ts.s.workers wk') (hst : s'.tasks = ts.s.tasks) (hsq : s'.scqs = ts.s.scqs)
    (hso : s'.ops = ts.s.ops) :
    TS X ((ts.parkTree q w).setS s') := by
  have hS := hT.side
  obtain ⟨hkq, hki⟩ := wfind_key hw
  let ts' : TState := (ts.parkTree q w).setS s'
  show TS X ts'
  obtain ⟨x0, hx0, hxq, hxi, hxp, hxl⟩ := hS.wx_of_worker hw
  have hlast : ∃ p, x0.last = some p := by
    cases hl : x0.last with
    | none => have := hxl.mp hl; rw [hwt] at this; cases this
    | some p => exact ⟨p, rfl⟩
  obtain ⟨p, hp⟩ := hlast
  have hlo : ts.lastOf q w = some p := by rw [lastOf_of_find hx0, hp]
  have hx0p : x0.parked = false := by rw [hxp, hwp]
  let g : WX → WX := fun y => { y with parked := true }
  have hg : ∀ y, wxkey (g y) = wxkey y := fun y => rfl
  have hwx' : ts'.wx = setWX ts.wx q w g := rfl
  have hnodes : ts'.nodes = parkW ts.nodes q p w := by
    show (ts.parkTree q w).nodes = _
    unfold TState.parkTree; simp only [hlo]
  have hE' : bagE ts' = bagE ts := (bags_setS_of_tasks (ts.parkTree q w) s' hst).1
  have hQ' : bagQ ts' = bagQ ts := (bags_setS_of_tasks (ts.parkTree q w) s' hst).2.1
  have hP' : ((q, p, w) :: bagP ts).Perm (bagP ts') := by
    have := bagP_setWX ts.wx q w g hg hS.wxnd x0 hx0
    have e1 : conP (g x0) = [(q, p, w)] := by unfold conP; simp [g, hp, hxq, hxi]
    have e2 : conP x0 = [] := by unfold conP; simp [hx0p]
    rw [e1, e2, List.append_nil] at this
    rw [bagP_def, bagP_def, hwx']
    exact (List.perm_append_singleton _ _).symm.trans this
  have hI' : (bagI ts).Perm (bagI ts') := by
    have := bagI_setWX ts.wx q w g hg hS.wxnd x0 hx0
    have e1 : conI (g x0) = conI x0 := rfl
    rw [e1] at this
    rw [bagI_def, bagI_def, hwx']
    exact (List.perm_append_right_iff _).mp this
  have hI0 : (q, p) ∈ bagI ts := by
    rw [bagI_def]
    exact List.mem_flatMap.mpr ⟨x0, List.mem_of_find?_eq_some hx0, by unfold conI; rw [hp, hxq]; simp⟩
  have hnP : (q, p, w) ∉ bagP ts := by
    intro hm
    rw [bagP_def] at hm
    obtain ⟨x, hx, hcx⟩ := List.mem_flatMap.mp hm
    obtain ⟨hxpk, hxs, hxid⟩ := conP_mem hcx
    have hf := find?_of_mem_wxkey hS.wxnd hx
    rw [hxs, hxid] at hf
    change ts.wx.find? (fun y => y.scq = q ∧ y.id = w) = some x at hf
    rw [hx0] at hf
    have := Option.some.inj hf; subst this
    rw [hx0p] at hxpk; cases hxpk
  have h := parkW_ok hT.tree q p w (hT.tree.rfI _ hI0) hI0 hnP
  refine ⟨?_, ?_⟩
  · show TreeOK X ts'.nodes (bagE ts') (bagI ts') (bagQ ts') (bagP ts')
    rw [hnodes, hE', hQ']
    exact h.congr (List.Perm.refl _) hI' (fun _ => Iff.rfl) (fun c => hP'.mem_iff)
  · refine side_worker_update hS (ts' := ts') (wk' := wk') (g := g) hw (hk.1.trans hkq) (hk.2.1.trans hki) hg hwx'
      hsw ?_ (parkTree_nframe ts q w) hsq rfl (ops_frame hso) ?_
    · intro x _ h2
      have e : wk'.task = wk.task := hk.2.2.1.trans hwt.symm
      refine ⟨hk.2.2.2.symm, ?_⟩
      rw [e]; exact h2
    · intro k t q' w' h1 h2
      exact hS.wq k t q' w' (by rw [← hst]; exact h1) h2

/-! ### `worker.maybeDequeue` -/

/-- `worker.maybeDequeue` followed by a return of the Synchronize call (timeout / cancellation) -/
theorem unpark_ts {ex exo} {ts : TState} {q : ScqId} {w : WId} {wk wk' : Worker} {s' : State}
    (hT : TInvX ex exo X ts) (hw : wfind ts.s.workers q w = some wk)
    (hk : wk'.scq = wk.scq ∧ wk'.id = wk.id ∧ wk'.task = wk.task ∧ wk'.parked = false)
    (hsw : s'.workers = wset ts.s.workers wk') (hst : s'.tasks = ts.s.tasks) (hsq : s'.scqs = ts.s.scqs)
    (hso : ∀ o op', s'.op? o = some op' → ∃ op, ts.s.op? o = some op ∧ op'.inv = op.inv ∧ op'.prio = op.prio) :
    TS X ((ts.maybeDequeue wk).setS s') := by
  have hS := hT.side
  obtain ⟨hkq, hki⟩ := wfind_key hw
  subst hkq; subst hki
  have hwq : ∀ (ts0 : TState), ts0.s = ts.s → ∀ k t q' w', alookup k (ts0.setS s').s.tasks = some t →
      t.worker = some (q', w') → q' = t.scq := by
    intro ts0 _ k t q' w' h1 h2
    exact hS.wq k t q' w' (by rw [← hst]; exact h1) h2
  cases hpk : wk.parked with
  | false =>
    have hmd : ts.maybeDequeue wk = ts := by unfold TState.maybeDequeue; simp [hpk]
    rw [hmd]
    refine ⟨?_, ?_⟩
    · obtain ⟨h1, h2, h3, h4⟩ := bags_setS_of_tasks ts s' hst
      rw [h1, h2, h3, h4]
      exact hT.tree
    · refine side_worker_update hS (ts' := ts.setS s') (wk' := wk') (g := fun y => y) hw hk.1 hk.2.1 (fun y => rfl)
        (setWX_same ts.wx wk.scq wk.id).symm hsw ?_ (NFrame.refl _) hsq rfl hso (hwq ts rfl)
      intro x h1 h2
      refine ⟨?_, ?_⟩
      · rw [hk.2.2.2, h1, hpk]
      · rw [hk.2.2.1]; exact h2
  | true =>
    have hmd : ts.maybeDequeue wk = ts.unparkTree wk.scq wk.id := by
      unfold TState.maybeDequeue; rw [if_pos hpk]
    rw [hmd]
    let ts' : TState := (ts.unparkTree wk.scq wk.id).setS s'
    show TS X ts'
    have hwt : wk.task = none := hT.inv.core.w1 wk.scq wk.id wk hw hpk
    obtain ⟨x0, hx0, hxq, hxi, hxp, hxl⟩ := hS.wx_of_worker hw
    have hlast : ∃ p, x0.last = some p := by
      cases hl : x0.last with
      | none => have := hxl.mp hl; rw [hwt] at this; cases this
      | some p => exact ⟨p, rfl⟩
    obtain ⟨p, hp⟩ := hlast
    have hlo : ts.lastOf wk.scq wk.id = some p := by rw [lastOf_of_find hx0, hp]
    have hx0p : x0.parked = true := by rw [hxp, hpk]
    let g : WX → WX := fun y => { y with parked := false }
    have hg : ∀ y, wxkey (g y) = wxkey y := fun y => rfl
    have hwx' : ts'.wx = setWX ts.wx wk.scq wk.id g := rfl
    have hnodes : ts'.nodes = dequeueW ts.nodes wk.scq p wk.id := by
      show (ts.unparkTree wk.scq wk.id).nodes = _
      unfold TState.unparkTree; simp only [hlo]
    have hE' : bagE ts' = bagE ts := (bags_setS_of_tasks (ts.unparkTree wk.scq wk.id) s' hst).1
    have hQ' : bagQ ts' = bagQ ts := (bags_setS_of_tasks (ts.unparkTree wk.scq wk.id) s' hst).2.1
    have e2 : conP x0 = [(wk.scq, p, wk.id)] := by unfold conP; simp [hp, hxq, hxi, hx0p]
    have hP' : ((bagP ts).erase (wk.scq, p, wk.id)).Perm (bagP ts') := by
      have := bagP_setWX ts.wx wk.scq wk.id g hg hS.wxnd x0 hx0
      have e1 : conP (g x0) = [] := rfl
      rw [e1, e2, List.append_nil] at this
      rw [bagP_def, bagP_def, hwx']
      exact perm_erase_of_append this
    have hI' : (bagI ts).Perm (bagI ts') := by
      have := bagI_setWX ts.wx wk.scq wk.id g hg hS.wxnd x0 hx0
      have e1 : conI (g x0) = conI x0 := rfl
      rw [e1] at this
      rw [bagI_def, bagI_def, hwx']
      exact (List.perm_append_right_iff _).mp this
    have hc : (wk.scq, p, wk.id) ∈ bagP ts := by
      rw [bagP_def]
      refine List.mem_flatMap.mpr ⟨x0, List.mem_of_find?_eq_some hx0, ?_⟩
      rw [e2]; exact List.mem_singleton.mpr rfl
    have h1 : (wk.scq, p, wk.id) ∉ (bagP ts).erase (wk.scq, p, wk.id) := by
      intro hm
      have hm' := hP'.mem_iff.mp hm
      rw [bagP_def, hwx'] at hm'
      obtain ⟨x, hx, hcx⟩ := List.mem_flatMap.mp hm'
      obtain ⟨hxpk, hxs, hxid⟩ := conP_mem hcx
      unfold setWX at hx
      obtain ⟨y, _, hy⟩ := List.mem_map.mp hx
      by_cases hcy : y.scq = wk.scq ∧ y.id = wk.id
      · rw [if_pos hcy] at hy
        subst hy
        exact absurd hxpk (by simp [g])
      · rw [if_neg hcy] at hy
        subst hy
        exact hcy ⟨hxs, hxid⟩
    have h := dequeueW_ok hT.tree wk.scq p wk.id hc h1
    refine ⟨?_, ?_⟩
    · show TreeOK X ts'.nodes (bagE ts') (bagI ts') (bagQ ts') (bagP ts')
      rw [hnodes, hE', hQ']
      exact h.congr (List.Perm.refl _) hI' (fun _ => Iff.rfl) (fun c => hP'.mem_iff)
    · refine side_worker_update hS (ts' := ts') (wk' := wk') (g := g) hw hk.1 hk.2.1 hg hwx'
        hsw ?_ (unparkTree_nframe ts wk.scq wk.id) hsq rfl hso (hwq (ts.unparkTree wk.scq wk.id) rfl)
      intro x _ h2
      refine ⟨hk.2.2.2.symm, ?_⟩
      rw [hk.2.2.1]; exact h2

end BbRe.Lemmas.SchedTree
