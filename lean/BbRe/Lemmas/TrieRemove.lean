/-
bb-storage `InstanceNameTrie.Remove` (Model/Trie.lean `Node.remove`): the cut point computed by
the loop removes exactly the value-less chain that ends in the removed key.
-/
import BbRe.Lemmas.TrieNode
namespace BbRe.Lemmas.TrieRemove
open BbRe.Model.Trie BbRe.Model.Trie.Node BbRe.Lemmas.TrieAssoc BbRe.Lemmas.TrieNode
open BbRe.Spec.PrefixMap (Comp)

/-! ## `modifyAt` -/

theorem modifyAt_nil (n : Node) (f : Node → Node) : modifyAt n [] f = f n := rfl
theorem modifyAt_cons (n : Node) (c : Comp) (cs : List Comp) (f : Node → Node) :
    modifyAt n (c :: cs) f = match n.child? c with
      | none => n
      | some ch => .mk n.value (aput c (modifyAt ch cs f) n.kids) := rfl

theorem val_modifyAt_off (n : Node) (p : List Comp) (f : Node → Node) (q : List Comp)
    (h : ¬ p <+: q) : val (modifyAt n p f) q = val n q := by
  induction p generalizing n q with
  | nil => exact absurd (List.nil_prefix) h
  | cons c cs ih =>
    rw [modifyAt_cons]
    cases hc : n.child? c with
    | none => rfl
    | some ch =>
      show val (Node.mk n.value (aput c (modifyAt ch cs f) n.kids)) q = val n q
      cases q with
      | nil => rfl
      | cons d ds =>
        rw [val_cons, val_cons, child?_mk, aget_aput]
        by_cases hd : d = c
        · subst hd
          rw [hc]
          simp only [if_true]
          apply ih
          intro hp
          exact h ((List.cons_prefix_cons).2 ⟨rfl, hp⟩)
        · simp only [hd, if_false]; rfl

theorem val_modifyAt_on (n : Node) (p : List Comp) (f : Node → Node) {m : Node}
    (hm : at? n p = some m) (r : List Comp) : val (modifyAt n p f) (p ++ r) = val (f m) r := by
  induction p generalizing n with
  | nil => simp only [at?_nil, Option.some.injEq] at hm; subst hm; rfl
  | cons c cs ih =>
    rw [at?_cons] at hm
    rw [modifyAt_cons]
    cases hc : n.child? c with
    | none => rw [hc] at hm; cases hm
    | some ch =>
      rw [hc] at hm
      show val (Node.mk n.value (aput c (modifyAt ch cs f) n.kids)) (c :: (cs ++ r)) = _
      rw [val_cons, child?_mk, aget_aput]
      simp only [if_true]
      exact ih ch hm

theorem wfSub_modifyAt {n : Node} (p : List Comp) (f : Node → Node) (h : WFSub n)
    (hf : ∀ m, at? n p = some m → WFSub (f m)) : WFSub (modifyAt n p f) := by
  induction p generalizing n with
  | nil => exact hf n rfl
  | cons c cs ih =>
    rw [modifyAt_cons]
    cases hc : n.child? c with
    | none => exact h
    | some ch =>
      show WFSub (Node.mk n.value (aput c (modifyAt ch cs f) n.kids))
      have hn := (wfSub_iff n).1 h
      rw [wfSub_iff]
      refine ⟨⟨hn.1.1, nodup_keys_aput hn.1.2⟩, fun hnil => absurd hnil (aput_ne_nil _ _ _), ?_⟩
      intro d x hd
      rw [child?_mk, aget_aput] at hd
      by_cases hdc : d = c
      · subst hdc
        simp only [if_true, Option.some.injEq] at hd
        subst hd
        apply ih (hn.2.2 d ch hc)
        intro m hm
        apply hf m
        rw [at?_cons, hc]; exact hm
      · simp only [hdc, if_false] at hd
        exact hn.2.2 d x hd

theorem wfRoot_modifyAt_cons {n : Node} (c : Comp) (cs : List Comp) (f : Node → Node) (h : WFRoot n)
    (hf : ∀ m, at? n (c :: cs) = some m → WFSub (f m)) : WFRoot (modifyAt n (c :: cs) f) := by
  rw [modifyAt_cons]
  cases hc : n.child? c with
  | none => exact h
  | some ch =>
    show WFRoot (Node.mk n.value (aput c (modifyAt ch cs f) n.kids))
    refine ⟨⟨h.1.1, nodup_keys_aput h.1.2⟩, ?_⟩
    intro d x hd
    rw [child?_mk, aget_aput] at hd
    by_cases hdc : d = c
    · subst hdc
      simp only [if_true, Option.some.injEq] at hd
      subst hd
      apply wfSub_modifyAt cs f (h.2 d ch hc)
      intro m hm
      apply hf m
      rw [at?_cons, hc]; exact hm
    · simp only [hdc, if_false] at hd
      exact h.2 d x hd

/-! ## the loop of `Remove` -/

/-- all nodes on the way down `p` from `n` (the last one excluded) are value-less and have at
most one child, i.e. they do not move the cut point. -/
def NQ : Node → List Comp → Prop
  | _, [] => True
  | n, c :: cs => qual n = false ∧ ∃ ch, n.child? c = some ch ∧ NQ ch cs

theorem removeWalk_eq (n : Node) (c : Comp) (cs : List Comp) (depth : Nat) (cut : Option Nat) :
    removeWalk n c cs depth cut =
      match n.child? c with
      | none => none
      | some ch =>
        match cs with
        | [] => some ((match cut with | none => depth | some x => if qual n then depth else x), ch.kids.isEmpty)
        | d :: ds => removeWalk ch d ds (depth + 1)
            (some (match cut with | none => depth | some x => if qual n then depth else x)) := by
  conv => lhs; unfold removeWalk
  cases n.child? c with
  | none => rfl
  | some ch => cases cs <;> rfl

theorem removeWalk_none_iff (n : Node) (c : Comp) (cs : List Comp) (depth : Nat) (cut : Option Nat) :
    removeWalk n c cs depth cut = none ↔ at? n (c :: cs) = none := by
  induction cs generalizing n c depth cut with
  | nil =>
    rw [removeWalk_eq, at?_cons]
    cases n.child? c <;> simp
  | cons d ds ih =>
    rw [removeWalk_eq, at?_cons]
    cases n.child? c with
    | none => simp
    | some ch => exact ih ch d _ _

theorem removeWalk_spec (n : Node) (c : Comp) (cs : List Comp) (depth : Nat) (cut : Option Nat)
    (r : Nat) (leaf : Bool) (h : removeWalk n c cs depth cut = some (r, leaf)) :
    ∃ m, at? n (c :: cs) = some m ∧ leaf = m.kids.isEmpty ∧
      ((∃ x, cut = some x ∧ r = x ∧ NQ n (c :: cs)) ∨
       (∃ pre cj post nj x, c :: cs = pre ++ cj :: post ∧ r = depth + pre.length ∧
          at? n pre = some nj ∧ (qual nj = true ∨ (pre = [] ∧ cut = none)) ∧
          nj.child? cj = some x ∧ NQ x post)) := by
  induction cs generalizing n c depth cut r leaf with
  | nil =>
    rw [removeWalk_eq] at h
    cases hc : n.child? c with
    | none => rw [hc] at h; cases h
    | some ch =>
      rw [hc] at h
      simp only [Option.some.injEq, Prod.mk.injEq] at h
      obtain ⟨hr, hl⟩ := h
      refine ⟨ch, by rw [at?_cons, hc]; rfl, hl.symm, ?_⟩
      cases cut with
      | none =>
        right
        exact ⟨[], c, [], n, ch, rfl, by simpa using hr.symm, rfl, Or.inr ⟨rfl, rfl⟩, hc, trivial⟩
      | some x =>
        by_cases hq : qual n = true
        · right
          simp only [hq, if_true] at hr
          exact ⟨[], c, [], n, ch, rfl, by simpa using hr.symm, rfl, Or.inl hq, hc, trivial⟩
        · left
          simp only [hq] at hr
          refine ⟨x, rfl, by simpa using hr.symm, ?_, ch, hc, trivial⟩
          simpa using hq
  | cons d ds ih =>
    rw [removeWalk_eq] at h
    cases hc : n.child? c with
    | none => rw [hc] at h; cases h
    | some ch =>
      rw [hc] at h
      obtain ⟨m, hm, hl, hcase⟩ := ih ch d (depth + 1) _ r leaf h
      refine ⟨m, by rw [at?_cons, hc]; exact hm, hl, ?_⟩
      rcases hcase with ⟨x, hx, hr, hnq⟩ | ⟨pre, cj, post, nj, x, hdec, hr, hnj, hqual, hx, hnq⟩
      · cases cut with
        | none =>
          right
          simp only [Option.some.injEq] at hx
          refine ⟨[], c, d :: ds, n, ch, rfl, ?_, rfl, Or.inr ⟨rfl, rfl⟩, hc, hnq⟩
          simp only [List.length_nil, Nat.add_zero]; omega
        | some y =>
          by_cases hq : qual n = true
          · right
            simp only [hq, if_true, Option.some.injEq] at hx
            refine ⟨[], c, d :: ds, n, ch, rfl, ?_, rfl, Or.inl hq, hc, hnq⟩
            simp only [List.length_nil, Nat.add_zero]; omega
          · left
            simp only [hq, Option.some.injEq] at hx
            refine ⟨y, rfl, ?_, ?_, ch, hc, hnq⟩
            · simp at hx; omega
            · simpa using hq
      · right
        refine ⟨c :: pre, cj, post, nj, x, by rw [hdec]; rfl, ?_, by rw [at?_cons, hc]; exact hnj, ?_, hx, hnq⟩
        · simp only [List.length_cons]; omega
        · rcases hqual with hq | ⟨_, hcut⟩
          · exact Or.inl hq
          · cases hcut

/-- below a node `x` whose way down `post` only passes value-less single-child nodes and ends in
a leaf, nothing but `post` itself can carry a value. -/
theorem chain_val {x m : Node} {post : List Comp} (hwf : WFSub x) (hnq : NQ x post)
    (hm : at? x post = some m) (hleaf : m.kids = []) (q : List Comp) (hq : q ≠ post) :
    val x q = -1 := by
  induction post generalizing x q with
  | nil =>
    simp only [at?_nil, Option.some.injEq] at hm; subst hm
    cases q with
    | nil => exact absurd rfl hq
    | cons e es => exact val_of_kids_nil hleaf e es
  | cons d ds ih =>
    obtain ⟨hqual, ch, hch, hnq'⟩ := hnq
    rw [at?_cons, hch] at hm
    have hx := (wfSub_iff x).1 hwf
    simp only [qual, Bool.or_eq_false_iff, decide_eq_false_iff_not] at hqual
    cases q with
    | nil =>
      have := hx.1.1
      show x.value = -1
      omega
    | cons e es =>
      by_cases he : e = d
      · subst he
        rw [val_cons_some hch]
        apply ih (hx.2.2 e ch hch) hnq' hm
        intro h; exact hq (by rw [h])
      · apply val_cons_none
        exact aget_eq_none_of_length_le_one (by omega) hch he

theorem take_prefix_length {α : Type} (pre : List α) (c : α) (post : List α) :
    (pre ++ c :: post).take (0 + pre.length) = pre := by
  simp

theorem getD_prefix_length (pre : List Comp) (c : Comp) (post : List Comp) :
    (pre ++ c :: post).getD (0 + pre.length) 0 = c := by
  induction pre with
  | nil => rfl
  | cons a r ih =>
    simp only [List.cons_append, List.length_cons, Nat.zero_add] at ih ⊢
    simp

/-! ## `Remove` -/

theorem remove_nil (root : Node) :
    remove root [] = some (Node.mk (-1) root.kids, root.kids.isEmpty) := rfl

theorem remove_cons (root : Node) (c : Comp) (cs : List Comp) :
    remove root (c :: cs) =
      match removeWalk root c cs 0 none with
      | none => none
      | some (cut, true) =>
        some (delEdge root ((c :: cs).take cut) ((c :: cs).getD cut 0),
              isEmptyTrie (delEdge root ((c :: cs).take cut) ((c :: cs).getD cut 0)))
      | some (_, false) =>
        some (setValueAt root (c :: cs) (-1), isEmptyTrie (setValueAt root (c :: cs) (-1))) := by
  rw [remove]
  cases removeWalk root c cs 0 none with
  | none => rfl
  | some x =>
    obtain ⟨cut, b⟩ := x
    cases b <;> rfl

/-- `Remove` dereferences nil exactly when the path leaves the trie. -/
theorem remove_none_iff (root : Node) (p : List Comp) : remove root p = none ↔ at? root p = none := by
  cases p with
  | nil => simp [remove_nil]
  | cons c cs =>
    rw [remove_cons, ← removeWalk_none_iff root c cs 0 none]
    cases removeWalk root c cs 0 none with
    | none => simp
    | some x =>
      obtain ⟨cut, b⟩ := x
      cases b <;> simp

theorem isEmptyTrie_iff (r : Node) : isEmptyTrie r = true ↔ (r.value < 0 ∧ r.kids = []) := by
  simp [isEmptyTrie, List.isEmpty_iff]

/-- what `Remove` does to a well-formed trie when it does not panic: the value at `p` is gone,
every other path keeps its value, the result is well-formed (pruned), and the returned flag says
whether the trie is now empty. -/
theorem remove_spec {root r : Node} {emp : Bool} (p : List Comp) (hwf : WFRoot root)
    (h : remove root p = some (r, emp)) :
    WFRoot r ∧ (∀ q, val r q = if q = p then -1 else val root q) ∧
      (emp = true ↔ (r.value < 0 ∧ r.kids = [])) := by
  cases p with
  | nil =>
    rw [remove_nil] at h
    simp only [Option.some.injEq, Prod.mk.injEq] at h
    obtain ⟨hr, he⟩ := h
    subst hr
    refine ⟨⟨⟨by simp, hwf.1.2⟩, hwf.2⟩, ?_, ?_⟩
    · intro q
      cases q with
      | nil => simp
      | cons d ds => simp only [val_cons, child?_mk]; simp [child?]
    · rw [← he]; simp [List.isEmpty_iff]
  | cons c cs =>
    rw [remove_cons] at h
    cases hw : removeWalk root c cs 0 none with
    | none => rw [hw] at h; cases h
    | some x =>
      obtain ⟨cut, leaf⟩ := x
      rw [hw] at h
      obtain ⟨m, hm, hleaf, hcase⟩ := removeWalk_spec root c cs 0 none cut leaf hw
      cases leaf with
      | false =>
        simp only [Option.some.injEq, Prod.mk.injEq] at h
        obtain ⟨hr, he⟩ := h
        have hkids : m.kids ≠ [] := by
          intro hk; rw [hk] at hleaf; simp at hleaf
        have hmw : WFSub m := by
          rw [at?_cons] at hm
          cases hc : root.child? c with
          | none => rw [hc] at hm; cases hm
          | some ch => rw [hc] at hm; exact (hwf.2 c ch hc).at hm
        have hmw' := (wfSub_iff m).1 hmw
        refine ⟨?_, ?_, ?_⟩
        · rw [← hr]
          apply wfRoot_modifyAt_cons c cs _ hwf
          intro m' hm'
          rw [hm] at hm'; simp only [Option.some.injEq] at hm'; subst hm'
          rw [wfSub_iff]
          exact ⟨⟨by simp, hmw'.1.2⟩, fun hk => absurd hk hkids, hmw'.2.2⟩
        · intro q
          rw [← hr]
          by_cases hpq : (c :: cs) <+: q
          · obtain ⟨t, ht⟩ := hpq
            subst ht
            show val (modifyAt root (c :: cs) _) ((c :: cs) ++ t) = _
            rw [val_modifyAt_on root (c :: cs) _ hm t]
            cases t with
            | nil => simp
            | cons d ds =>
              have hne : ¬ (c :: cs ++ d :: ds = c :: cs) := by
                intro e
                have := congrArg List.length e
                simp at this
              rw [if_neg hne, val_append_some hm]
              simp only [val_cons, child?_mk]; rfl
          · have hne : ¬ q = c :: cs := by
              intro e; subst e; exact hpq (List.prefix_refl _)
            rw [if_neg hne]
            exact val_modifyAt_off root (c :: cs) _ q hpq
        · rw [← he, hr]; exact isEmptyTrie_iff _
      | true =>
        simp only [Option.some.injEq, Prod.mk.injEq] at h
        obtain ⟨hr, he⟩ := h
        have hkids : m.kids = [] := by
          have := hleaf.symm; simpa [List.isEmpty_iff] using this
        rcases hcase with ⟨x, hx, _⟩ | ⟨pre, cj, post, nj, x, hdec, hcut, hnj, hqual, hx, hnq⟩
        · cases hx
        · subst hcut
          rw [hdec, take_prefix_length, getD_prefix_length] at hr he
          rw [hdec] at hm
          -- the removed node hangs below `x` at `post`
          have hmx : at? x post = some m := by
            have h1 : at? root (pre ++ cj :: post) = at? x post := by
              rw [at?_append, hnj]
              show at? nj (cj :: post) = _
              rw [at?_cons, hx]
            rw [← h1]; exact hm
          have hnjw : pre ≠ [] → WFSub nj := by
            intro hpre
            cases pre with
            | nil => exact absurd rfl hpre
            | cons a pre' =>
              rw [at?_cons] at hnj
              cases hc : root.child? a with
              | none => rw [hc] at hnj; cases hnj
              | some ch => rw [hc] at hnj; exact (hwf.2 a ch hc).at hnj
          have hxw : WFSub x := by
            cases pre with
            | nil =>
              simp only [at?_nil, Option.some.injEq] at hnj; subst hnj
              exact hwf.2 cj x hx
            | cons a pre' => exact ((wfSub_iff nj).1 (hnjw (by simp))).2.2 cj x hx
          refine ⟨?_, ?_, ?_⟩
          · rw [← hr]
            cases pre with
            | nil =>
              simp only [at?_nil, Option.some.injEq] at hnj; subst hnj
              show WFRoot (Node.mk root.value (adel cj root.kids))
              refine ⟨⟨hwf.1.1, nodup_keys_adel hwf.1.2⟩, ?_⟩
              intro d y hd
              rw [child?_mk, aget_adel] at hd
              by_cases hdc : d = cj
              · simp [hdc] at hd
              · simp only [hdc, if_false] at hd; exact hwf.2 d y hd
            | cons a pre' =>
              apply wfRoot_modifyAt_cons a pre' _ hwf
              intro m' hm'
              rw [hnj] at hm'; simp only [Option.some.injEq] at hm'; subst hm'
              have hw := (wfSub_iff nj).1 (hnjw (by simp))
              have hq : qual nj = true := by
                rcases hqual with hq | ⟨hp, _⟩
                · exact hq
                · cases hp
              rw [wfSub_iff]
              refine ⟨⟨hw.1.1, nodup_keys_adel hw.1.2⟩, ?_, ?_⟩
              · intro hk
                simp only [kids_mk] at hk
                simp only [qual, Bool.or_eq_true, decide_eq_true_eq] at hq
                rcases hq with hv | hl
                · exact hv
                · exact absurd hk (adel_ne_nil_of_length_gt_one hw.1.2 hl)
              · intro d y hd
                rw [child?_mk, aget_adel] at hd
                by_cases hdc : d = cj
                · simp [hdc] at hd
                · simp only [hdc, if_false] at hd; exact hw.2.2 d y hd
          · intro q
            rw [← hr, hdec]
            by_cases hpq : pre <+: q
            · obtain ⟨t, ht⟩ := hpq
              subst ht
              show val (modifyAt root pre _) (pre ++ t) = _
              rw [val_modifyAt_on root pre _ hnj t, val_append_some hnj]
              cases t with
              | nil =>
                have hne : ¬ (pre ++ [] = pre ++ cj :: post) := by
                  intro e; have := congrArg List.length e; simp at this
                rw [if_neg hne]; rfl
              | cons d ds =>
                rw [val_cons, child?_mk, aget_adel]
                by_cases hdc : d = cj
                · subst hdc
                  simp only [if_true]
                  by_cases hds : ds = post
                  · subst hds; simp
                  · have hne : ¬ (pre ++ d :: ds = pre ++ d :: post) := by
                      intro e
                      have := List.append_cancel_left e
                      simp only [List.cons.injEq, true_and] at this
                      exact hds this
                    rw [if_neg hne, val_cons_some hx]
                    exact (chain_val hxw hnq hmx hkids ds hds).symm
                · have hne : ¬ (pre ++ d :: ds = pre ++ cj :: post) := by
                    intro e
                    have := List.append_cancel_left e
                    simp only [List.cons.injEq] at this
                    exact hdc this.1
                  simp only [hdc, if_false, hne]
                  rw [val_cons]; rfl
            · have hne : ¬ q = pre ++ cj :: post := by
                intro e; subst e; exact hpq (List.prefix_append _ _)
              rw [if_neg hne]
              exact val_modifyAt_off root pre _ q hpq
          · rw [← he, hr]; exact isEmptyTrie_iff _

end BbRe.Lemmas.TrieRemove
