import BbRe.Lemmas.NfsInvDefs
import BbRe.Lemmas.NfsShare
/-!
# Group K of the NFS open/lock state invariant: `shareCount` = number of holders

`InvK` is preserved by every core action of `Model/NfsState.lean`, assuming the
structural invariant `InvS` of the state before the action.  Core Lean only.
-/
namespace BbRe.Lemmas.NfsInvK
open BbRe.NfsState BbRe.NfsShare BbRe.Lemmas.NfsInv BbRe.Lemmas.NfsShare

/-! ## `InvK` only looks at `files` and `ios` -/

theorem holders_congr {s s' : State} (hi : s'.ios = s.ios) (f : OFile) (bit : Bool) :
    holders s' f bit = holders s f bit := by
  unfold holders; rw [hi]

theorem invK_sub {s s' : State} (hf : ∀ f ∈ s'.files, f ∈ s.files) (hi : s'.ios = s.ios)
    (h : InvK s) : InvK s' :=
  ⟨fun f hm bit => by rw [holders_congr hi]; exact h.counts f (hf f hm) bit⟩

theorem invK_congr {s s' : State} (hf : s'.files = s.files) (hi : s'.ios = s.ios)
    (h : InvK s) : InvK s' :=
  invK_sub (fun _ hm => hf ▸ hm) hi h

theorem invK_fail (s : State) (m : String) : InvK (s.fail m) ↔ InvK s :=
  ⟨invK_congr (s := s.fail m) (s' := s) rfl rfl, invK_congr (s := s) (s' := s.fail m) rfl rfl⟩

/-! ## helpers of the model: effect on `files` and `ios` -/

@[simp] theorem fail_files (s : State) (m : String) : (s.fail m).files = s.files := rfl
@[simp] theorem fail_ios (s : State) (m : String) : (s.fail m).ios = s.ios := rfl
@[simp] theorem modClient_files (s : State) (cl : Nat) (g : Client → Client) :
    (s.modClient cl g).files = s.files := rfl
@[simp] theorem modClient_ios (s : State) (cl : Nat) (g : Client → Client) :
    (s.modClient cl g).ios = s.ios := rfl
@[simp] theorem modPool_files (s : State) (file : Nat) (g : PoolEnt → PoolEnt) :
    (s.modPool file g).files = s.files := rfl
@[simp] theorem modPool_ios (s : State) (file : Nat) (g : PoolEnt → PoolEnt) :
    (s.modPool file g).ios = s.ios := rfl
@[simp] theorem modFile_ios (s : State) (sid : Nat) (g : OFile → OFile) :
    (s.modFile sid g).ios = s.ios := rfl
@[simp] theorem modFile_files (s : State) (sid : Nat) (g : OFile → OFile) :
    (s.modFile sid g).files = s.files.map (fun f => if f.sid == sid then g f else f) := rfl
@[simp] theorem gc_ios (s : State) : s.gc.ios = s.ios := rfl

@[simp] theorem pushPend_files (s : State) (leaf : Nat) (m : Mask) :
    (s.pushPend leaf m).files = s.files := by
  unfold State.pushPend; split <;> rfl
@[simp] theorem pushPend_ios (s : State) (leaf : Nat) (m : Mask) :
    (s.pushPend leaf m).ios = s.ios := by
  unfold State.pushPend; split <;> rfl

@[simp] theorem holdClient_files (s : State) (cl : Nat) : (s.holdClient cl).files = s.files := by
  unfold State.holdClient; split
  · rfl
  · simp only [modClient_files]; split <;> rfl
@[simp] theorem holdClient_ios (s : State) (cl : Nat) : (s.holdClient cl).ios = s.ios := by
  unfold State.holdClient; split
  · rfl
  · simp only [modClient_ios]; split <;> rfl

@[simp] theorem releaseClient_files (s : State) (cl : Nat) :
    (s.releaseClient cl).files = s.files := by
  unfold State.releaseClient; split
  · rfl
  · split
    · rfl
    · split <;> rfl
@[simp] theorem releaseClient_ios (s : State) (cl : Nat) :
    (s.releaseClient cl).ios = s.ios := by
  unfold State.releaseClient; split
  · rfl
  · split
    · rfl
    · split <;> rfl

theorem invK_pushPend {s : State} (leaf : Nat) (m : Mask) (h : InvK s) :
    InvK (s.pushPend leaf m) := invK_congr (by simp) (by simp) h
theorem invK_holdClient {s : State} (cl : Nat) (h : InvK s) : InvK (s.holdClient cl) :=
  invK_congr (by simp) (by simp) h
theorem invK_releaseClient {s : State} (cl : Nat) (h : InvK s) : InvK (s.releaseClient cl) :=
  invK_congr (by simp) (by simp) h
theorem invK_gc {s : State} (h : InvK s) : InvK s.gc :=
  invK_sub (s := s) (s' := s.gc) (fun f hm => by
    unfold State.gc at hm
    exact (List.mem_filter.1 hm).1) rfl h

/-! ## list helpers -/

theorem getFile_some {s : State} {sid : Nat} {f : OFile} (h : s.getFile sid = some f) :
    f ∈ s.files ∧ f.sid = sid := by
  unfold State.getFile at h
  exact ⟨List.mem_of_find?_eq_some h, by simpa using List.find?_some h⟩

theorem inj_of_nodup_map {α β : Type} (g : α → β) :
    ∀ (l : List α), (l.map g).Nodup → ∀ a ∈ l, ∀ b ∈ l, g a = g b → a = b
  | [], _, a, ha, _, _, _ => by cases ha
  | x :: l, hn, a, ha, b, hb, hab => by
    rw [List.map_cons, List.nodup_cons] at hn
    rcases List.mem_cons.1 ha with rfl | ha' <;> rcases List.mem_cons.1 hb with rfl | hb'
    · rfl
    · exact absurd (hab ▸ List.mem_map.2 ⟨b, hb', rfl⟩) hn.1
    · exact absurd (hab ▸ List.mem_map.2 ⟨a, ha', rfl⟩) hn.1
    · exact inj_of_nodup_map g l hn.2 a ha' b hb' hab

/-- removing the unique element with key `t` lowers a `countP` by that element's contribution -/
theorem countP_filter_key {α : Type} (key : α → Nat) (p : α → Bool) (t : Nat) :
    ∀ (l : List α), (l.map key).Nodup → ∀ x ∈ l, key x = t →
      (l.filter (fun y => key y != t)).countP p + (if p x then 1 else 0) = l.countP p
  | [], _, x, hx, _ => by cases hx
  | y :: l, hn, x, hx, hk => by
    rw [List.map_cons, List.nodup_cons] at hn
    rcases List.mem_cons.1 hx with rfl | hx'
    · have hf : l.filter (fun y => key y != t) = l := by
        apply List.filter_eq_self.2
        intro z hz
        have : key z ≠ t := fun e => hn.1 (hk ▸ e ▸ List.mem_map.2 ⟨z, hz, rfl⟩)
        simpa using this
      have : (key x != t) = false := by simp [hk]
      rw [List.filter_cons, this]
      simp only [Bool.false_eq_true, if_false, hf, List.countP_cons]
    · have hy : key y ≠ t := fun e => hn.1 (e ▸ hk ▸ List.mem_map.2 ⟨x, hx', rfl⟩)
      have : (key y != t) = true := by simpa using hy
      rw [List.filter_cons, this]
      simp only [if_true, List.countP_cons]
      have ih := countP_filter_key key p t l hn.2 x hx' hk
      omega

/-! ## per-bit facts -/

theorem downBit_sum {cnt : Nat} {cur new : Bool} {c' : Nat} {z : Bool}
    (h : downBit cnt cur new = some (c', z)) (hsub : new = true → cur = true) :
    c' + (if cur then 1 else 0) = cnt + (if new then 1 else 0) := by
  unfold downBit at h
  cases cur <;> cases new <;> simp_all <;> omega

theorem upBit_sum (cnt : Nat) (cur new : Bool) :
    (upBit cnt cur new).1 + (if cur then 1 else 0) = cnt + (if (cur || new) then 1 else 0) := by
  unfold upBit
  cases cur <;> cases new <;> simp

theorem zero_get (bit : Bool) : ShareCount.zero.get bit = 0 := by cases bit <;> rfl

/-! ## modifying one file record -/

theorem invK_mod (s s' : State) (sid : Nat) (g : OFile → OFile) (f0 : OFile)
    (hfiles : s'.files = s.files.map (fun f => if f.sid == sid then g f else f))
    (hs : InvS s) (h0 : s.getFile sid = some f0) (hk : InvK s)
    (hother : ∀ f ∈ s.files, f.sid ≠ sid → ∀ bit, holders s' f bit = holders s f bit)
    (hthis : ∀ bit, (g f0).count.get bit = holders s' (g f0) bit) : InvK s' := by
  constructor
  intro f' hm bit
  rw [hfiles, List.mem_map] at hm
  obtain ⟨f, hf, rfl⟩ := hm
  by_cases h : f.sid = sid
  · have hb : (f.sid == sid) = true := by simpa using h
    have h0' := getFile_some h0
    have : f = f0 := inj_of_nodup_map (·.sid) s.files hs.sidNodup f hf f0 h0'.1 (h.trans h0'.2.symm)
    subst this
    simp only [hb, if_true]
    exact hthis bit
  · have hb : (f.sid == sid) = false := by simpa using h
    simp only [hb, Bool.false_eq_true, if_false]
    rw [hother f hf h bit]
    exact hk.counts f hf bit

/-! ## actions that touch neither `files` nor `ios` -/

theorem invK_tick (s : State) (d : Nat) (hk : InvK s) : InvK (Do.tick s d) :=
  invK_congr (s := s) rfl rfl hk

theorem invK_setNow (s : State) (hk : InvK s) : InvK (Do.setNow s) :=
  invK_congr (s := s) rfl rfl hk

theorem invK_newClient (s : State) (long ver : Nat) (hk : InvK s) :
    InvK (Do.newClient s long ver) := by
  unfold Do.newClient; split
  · exact hk
  · exact invK_congr (s := s) rfl rfl hk

theorem invK_touch (s : State) (cl : Nat) (hk : InvK s) : InvK (Do.touch s cl) :=
  invK_releaseClient cl (invK_holdClient cl hk)

theorem invK_confirmClient (s : State) (cl : Nat) (hk : InvK s) : InvK (Do.confirmClient s cl) := by
  unfold Do.confirmClient; split
  · exact hk
  · split
    · exact (invK_fail ..).2 hk
    · exact invK_congr (s := s) rfl rfl hk

theorem invK_dropClient (s : State) (cl : Nat) (hk : InvK s) : InvK (Do.dropClient s cl) := by
  unfold Do.dropClient; split
  · exact hk
  · repeat' split
    all_goals first | exact (invK_fail ..).2 hk | exact invK_congr (s := s) rfl rfl hk

theorem invK_addSession (s : State) (cl k : Nat) (hk : InvK s) : InvK (Do.addSession s cl k) :=
  invK_congr (s := s) rfl rfl hk

theorem invK_delSession (s : State) (cl k : Nat) (hk : InvK s) : InvK (Do.delSession s cl k) :=
  invK_congr (s := s) rfl rfl hk

theorem invK_holdBegin (s : State) (tag cl : Nat) (hk : InvK s) : InvK (Do.holdBegin s tag cl) := by
  unfold Do.holdBegin; split
  · exact hk
  · exact invK_holdClient cl (invK_congr (s := s) rfl rfl hk)

theorem invK_holdEnd (s : State) (tag : Nat) (hk : InvK s) : InvK (Do.holdEnd s tag) := by
  unfold Do.holdEnd; split
  · exact hk
  · exact invK_releaseClient _ (invK_congr (s := s) rfl rfl hk)

theorem invK_ooSet (s : State) (oo : OOwner) (hk : InvK s) : InvK (Do.ooSet s oo) := by
  unfold Do.ooSet; split
  · exact hk
  · repeat' split
    all_goals first | exact hk | exact invK_congr (s := s) rfl rfl hk

theorem invK_ooDel (s : State) (cl key : Nat) (hk : InvK s) : InvK (Do.ooDel s cl key) := by
  unfold Do.ooDel; split
  · exact (invK_fail ..).2 hk
  · exact invK_congr (s := s) rfl rfl hk

theorem invK_loRegister (s : State) (cl key : Nat) (hk : InvK s) :
    InvK (Do.loRegister s cl key) := by
  unfold Do.loRegister; split
  · exact hk
  · exact invK_congr (s := s) rfl rfl hk

theorem invK_loPrune (s : State) (id : Nat) (hk : InvK s) : InvK (Do.loPrune s id) := by
  unfold Do.loPrune; split
  · exact hk
  · exact invK_congr (s := s) rfl rfl hk

theorem invK_loSet (s : State) (id lastSeq : Nat) (resp : Option (Nat × String × Nat × Nat))
    (hk : InvK s) : InvK (Do.loSet s id lastSeq resp) :=
  invK_congr (s := s) rfl rfl hk

theorem invK_vopen (s : State) (tag leaf : Nat) (m : Mask) (create trunc : Bool) (hk : InvK s) :
    InvK (Do.vopen s tag leaf m create trunc) := by
  unfold Do.vopen; split
  · exact hk
  · exact invK_congr (s := s) rfl rfl hk

theorem invK_tempClose (s : State) (tag : Nat) (hk : InvK s) : InvK (Do.tempClose s tag) := by
  unfold Do.tempClose; split
  · exact hk
  · exact invK_congr (s := s) rfl rfl hk

theorem invK_tempToPend (s : State) (tag : Nat) (hk : InvK s) : InvK (Do.tempToPend s tag) := by
  unfold Do.tempToPend; split
  · exact hk
  · exact invK_pushPend _ _ (invK_congr (s := s) rfl rfl hk)

theorem invK_flush (s : State) (hk : InvK s) : InvK (Do.flush s) := by
  unfold Do.flush; split
  · exact hk
  · exact invK_congr (s := s) rfl rfl hk

theorem invK_setCur (s : State) (tag : Nat) (hk : InvK s) : InvK (Do.setCur s tag) :=
  invK_congr (s := s) rfl rfl hk

theorem invK_setProto (s : State) (p : Proto) (hk : InvK s) : InvK (Do.setProto s p) :=
  invK_congr (s := s) rfl rfl hk

/-! ## OPEN -/

theorem invK_openNew (s : State) (tag cl owner : Nat) (hs : InvS s) (hk : InvK s) :
    InvK (Do.openNew s tag cl owner) := by
  unfold Do.openNew; split
  · exact hk
  · rename_i t ht
    split
    · exact hk
    · constructor
      intro f hm bit
      simp only [List.mem_append, List.mem_singleton] at hm
      rcases hm with hm | rfl
      · exact hk.counts f hm bit
      · have hio : s.ios.countP (fun io => io.sid == s.nextId && io.share.get bit) = 0 := by
          rw [List.countP_eq_zero]
          intro io hio
          have := hs.ioLt io hio
          have : (io.sid == s.nextId) = false := by simp; omega
          simp [this]
        unfold holders
        simp only [List.countP_nil, hio]
        have hu : (upgrade ShareCount.zero Mask.none t.share).2.1 = Mask.none.union t.share := rfl
        rw [hu, union_get, none_get, upgrade_fst_get, zero_get, none_get]
        unfold upBit
        cases t.share.get bit <;> simp

theorem invK_openUpgrade (s : State) (tag sid : Nat) (hs : InvS s) (hk : InvK s) :
    InvK (Do.openUpgrade s tag sid) := by
  unfold Do.openUpgrade; split
  · rename_i t f ht h0
    split
    · exact hk
    · refine invK_pushPend _ _ ?_
      refine invK_mod s _ sid _ f rfl hs h0 hk ?_ ?_
      · intro f2 _ _ bit; rfl
      · intro bit
        have h1 := hk.counts f (getFile_some h0).1 bit
        have h2 := upBit_sum (f.count.get bit) (f.share.get bit) (t.share.get bit)
        unfold holders at h1 ⊢
        show (upgrade f.count f.share t.share).1.get bit
          = (if (f.share.union t.share).get bit then 1 else 0) + f.lofs.countP (fun l => l.share.get bit)
            + s.ios.countP (fun io => io.sid == f.sid && io.share.get bit)
        rw [upgrade_fst_get, union_get]
        omega
  · exact hk

/-! ## OPEN_DOWNGRADE / CLOSE -/

theorem invK_downgradeOpen (s : State) (sid : Nat) (new : Mask) (hs : InvS s) (hk : InvK s) :
    InvK (Do.downgradeOpen s sid new) := by
  unfold Do.downgradeOpen; split
  · exact hk
  · rename_i f h0
    split
    · exact hk
    · rename_i hc
      split
      · exact (invK_fail ..).2 hk
      · rename_i c z hd
        refine invK_pushPend _ _ ?_
        refine invK_mod s _ sid _ f rfl hs h0 hk ?_ ?_
        · intro f2 _ _ bit; rfl
        · intro bit
          have hsub : new.subset f.share = true := by
            cases h : new.subset f.share <;> simp_all
          have h1 := hk.counts f (getFile_some h0).1 bit
          have h2 := downBit_sum (downgrade_some_get hd bit) (subset_get hsub bit)
          unfold holders at h1 ⊢
          show c.get bit = (if new.get bit then 1 else 0) + f.lofs.countP (fun l => l.share.get bit)
            + s.ios.countP (fun io => io.sid == f.sid && io.share.get bit)
          omega

/-! ## lock-owner files -/

theorem invK_addLofs (s : State) (sid lo : Nat) (hs : InvS s) (hk : InvK s) :
    InvK (Do.addLofs s sid lo) := by
  unfold Do.addLofs; split
  · exact hk
  · rename_i f h0
    split
    · exact hk
    · split
      · exact (invK_fail ..).2 hk
      · rename_i c hc
        refine invK_mod s _ sid _ f rfl hs h0 hk ?_ ?_
        · intro f2 _ _ bit; rfl
        · intro bit
          have h1 := hk.counts f (getFile_some h0).1 bit
          have h2 := cloneBit_some _ _ _ (clone_some_get hc bit)
          unfold holders at h1 ⊢
          show c.get bit = (if f.share.get bit then 1 else 0)
            + (f.lofs ++ [(⟨s.nextId, lo, f.share, 0⟩ : LOFile)]).countP (fun l => l.share.get bit)
            + s.ios.countP (fun io => io.sid == f.sid && io.share.get bit)
          rw [List.countP_append, List.countP_cons, List.countP_nil]
          simp only []
          omega

theorem invK_removeLofs (s : State) (sid lsid : Nat) (hs : InvS s) (hk : InvK s) :
    InvK (Do.removeLofs s sid lsid) := by
  unfold Do.removeLofs; split
  · exact hk
  · rename_i f h0
    split
    · exact hk
    · rename_i l hl
      split
      · exact (invK_fail ..).2 hk
      · split
        · exact (invK_fail ..).2 hk
        · rename_i c z hd
          refine invK_pushPend _ _ ?_
          refine invK_mod s _ sid _ f rfl hs h0 hk ?_ ?_
          · intro f2 _ _ bit; rfl
          · intro bit
            have hf := getFile_some h0
            have h1 := hk.counts f hf.1 bit
            have h2 := downBit_sum (downgrade_some_get hd bit)
              (by rw [none_get]; intro h; cases h)
            have hlm : l ∈ f.lofs := List.mem_of_find?_eq_some hl
            have hls : l.sid = lsid := by simpa using List.find?_some hl
            have h3 := countP_filter_key (·.sid) (fun l => l.share.get bit) lsid f.lofs
              (hs.lofsSidNodup f hf.1) l hlm hls
            rw [none_get] at h2
            simp only [Bool.false_eq_true, if_false] at h2
            unfold holders at h1 ⊢
            show c.get bit = (if f.share.get bit then 1 else 0)
              + (f.lofs.filter (fun l => l.sid != lsid)).countP (fun l => l.share.get bit)
              + s.ios.countP (fun io => io.sid == f.sid && io.share.get bit)
            omega

theorem lofs_map_countP (lofs : List LOFile) (lsid : Nat) (d : Int) (bit : Bool) :
    (lofs.map (fun l => if l.sid == lsid then { l with lockCount := l.lockCount + d } else l)).countP
      (fun l => l.share.get bit) = lofs.countP (fun l => l.share.get bit) := by
  rw [List.countP_map]
  congr 1
  funext l
  simp only [Function.comp]
  split <;> rfl

theorem invK_lockMod (s s' : State) (sid lsid : Nat) (d : Int) (f : OFile)
    (hfiles : s'.files = s.files.map (fun f => if f.sid == sid then
      { f with lofs := f.lofs.map (fun l =>
          if l.sid == lsid then { l with lockCount := l.lockCount + d } else l) } else f))
    (hios : s'.ios = s.ios)
    (hs : InvS s) (h0 : s.getFile sid = some f) (hk : InvK s) : InvK s' := by
  refine invK_mod s s' sid _ f hfiles hs h0 hk ?_ ?_
  · intro f2 _ _ bit; exact holders_congr hios f2 bit
  · intro bit
    have h1 := hk.counts f (getFile_some h0).1 bit
    unfold holders at h1 ⊢
    rw [hios]
    show f.count.get bit = (if f.share.get bit then 1 else 0)
      + (f.lofs.map (fun l =>
          if l.sid == lsid then { l with lockCount := l.lockCount + d } else l)).countP
          (fun l => l.share.get bit)
      + s.ios.countP (fun io => io.sid == f.sid && io.share.get bit)
    rw [lofs_map_countP]
    exact h1

theorem invK_unlockAllLofs (s : State) (sid lsid : Nat) (hs : InvS s) (hk : InvK s) :
    InvK (Do.unlockAllLofs s sid lsid) := by
  unfold Do.unlockAllLofs; split
  · exact hk
  · rename_i f h0
    split
    · split
      · exact hk
      · exact invK_lockMod s _ sid lsid _ f rfl rfl hs h0 hk
    · exact hk

theorem invK_lockSet (s : State) (sid lsid : Nat) (lk : BRL.Lock) (hs : InvS s) (hk : InvK s) :
    InvK (Do.lockSet s sid lsid lk) := by
  unfold Do.lockSet; split
  · exact hk
  · rename_i f h0
    split
    · show InvK (if _ then _ else _)
      split
      · exact (invK_fail ..).2 hk
      · exact invK_lockMod s _ sid lsid _ f rfl rfl hs h0 hk
    · exact hk

/-! ## removal from the maps -/

theorem invK_finalize (s : State) (sid : Nat) (hs : InvS s) (hk : InvK s) :
    InvK (Do.finalize s sid) := by
  unfold Do.finalize; split
  · exact hk
  · rename_i f h0
    split
    · exact hk
    · split
      · exact (invK_fail ..).2 hk
      · split
        · exact (invK_fail ..).2 hk
        · refine invK_gc ?_
          refine invK_mod s _ sid _ f rfl hs h0 hk ?_ ?_
          · intro f2 _ _ bit; rfl
          · intro bit; exact hk.counts f (getFile_some h0).1 bit

/-! ## READ / WRITE / SETATTR with a regular state ID -/

theorem invK_ioBegin (s : State) (tag sid : Nat) (m : Mask) (holds : Bool) (hs : InvS s)
    (hk : InvK s) : InvK (Do.ioBegin s tag sid m holds) := by
  unfold Do.ioBegin; split
  · exact hk
  · rename_i f h0
    split
    · exact hk
    · split
      · exact (invK_fail ..).2 hk
      · rename_i c hc
        have key : InvK { s.modFile sid (fun f => { f with count := c }) with
            ios := s.ios ++ [(⟨tag, sid, f.cl, m, holds⟩ : IOrec)] } := by
          refine invK_mod s _ sid _ f rfl hs h0 hk ?_ ?_
          · intro f2 _ hne bit
            unfold holders
            show _ + _ + (s.ios ++ [(⟨tag, sid, f.cl, m, holds⟩ : IOrec)]).countP
              (fun io => io.sid == f2.sid && io.share.get bit) = _
            rw [List.countP_append, List.countP_cons, List.countP_nil]
            have : (sid == f2.sid) = false := by simpa using (Ne.symm hne)
            simp [this]
          · intro bit
            have hf := getFile_some h0
            have h1 := hk.counts f hf.1 bit
            have h2 := cloneBit_some _ _ _ (clone_some_get hc bit)
            unfold holders at h1 ⊢
            show c.get bit = (if f.share.get bit then 1 else 0)
              + f.lofs.countP (fun l => l.share.get bit)
              + (s.ios ++ [(⟨tag, sid, f.cl, m, holds⟩ : IOrec)]).countP
                  (fun io => io.sid == f.sid && io.share.get bit)
            rw [List.countP_append, List.countP_cons, List.countP_nil]
            have hb : (sid == f.sid) = true := by simp [hf.2]
            simp only [hb, Bool.true_and]
            omega
        show InvK (if _ then _ else _)
        split
        · exact invK_holdClient _ key
        · exact key

theorem invK_ioEnd (s : State) (tag : Nat) (hs : InvS s) (hk : InvK s) :
    InvK (Do.ioEnd s tag) := by
  unfold Do.ioEnd; split
  · exact hk
  · rename_i io hio
    split
    · exact hk
    · rename_i f h0
      split
      · exact (invK_fail ..).2 hk
      · rename_i c z hd
        refine invK_gc ?_
        have hiom : io ∈ s.ios := List.mem_of_find?_eq_some hio
        have hiot : io.tag = tag := by simpa using List.find?_some hio
        have key : InvK ({ s with ios := s.ios.filter (fun io => io.tag != tag) }.modFile io.sid
            (fun f => { f with count := c })) := by
          refine invK_mod s _ io.sid _ f rfl hs h0 hk ?_ ?_
          · intro f2 _ hne bit
            have h3 := countP_filter_key (·.tag) (fun i => i.sid == f2.sid && i.share.get bit) tag
              s.ios hs.ioTagNodup io hiom hiot
            have : (io.sid == f2.sid) = false := by simpa using (Ne.symm hne)
            simp only [this, Bool.false_and, Bool.false_eq_true, if_false, Nat.add_zero] at h3
            unfold holders
            show _ + _ + (s.ios.filter (fun io => io.tag != tag)).countP
              (fun io => io.sid == f2.sid && io.share.get bit) = _
            rw [h3]
          · intro bit
            have hf := getFile_some h0
            have h1 := hk.counts f hf.1 bit
            have h2 := downBit_sum (downgrade_some_get hd bit)
              (by rw [none_get]; intro h; cases h)
            have h3 := countP_filter_key (·.tag) (fun i => i.sid == f.sid && i.share.get bit) tag
              s.ios hs.ioTagNodup io hiom hiot
            rw [none_get] at h2
            simp only [Bool.false_eq_true, if_false] at h2
            have hb : (io.sid == f.sid) = true := by simp [hf.2]
            simp only [hb, Bool.true_and] at h3
            unfold holders at h1 ⊢
            show c.get bit = (if f.share.get bit then 1 else 0)
              + f.lofs.countP (fun l => l.share.get bit)
              + (s.ios.filter (fun io => io.tag != tag)).countP
                  (fun io => io.sid == f.sid && io.share.get bit)
            omega
        split
        · exact invK_releaseClient _ (invK_pushPend _ _ key)
        · exact invK_pushPend _ _ key

/-! ## the two main theorems -/

theorem invK_init (ver n : Nat) : InvK (BbRe.NfsState.init ver n) :=
  ⟨fun f hm _ => by cases hm⟩

theorem invK_apply (s : State) (a : Act) (hs : InvS s) (hk : InvK s) : InvK (apply s a) := by
  unfold apply
  split
  · exact hk
  · cases a with
    | tick d => exact invK_tick s d hk
    | setNow => exact invK_setNow s hk
    | newClient long ver => exact invK_newClient s long ver hk
    | touch cl => exact invK_touch s cl hk
    | confirmClient cl => exact invK_confirmClient s cl hk
    | dropClient cl => exact invK_dropClient s cl hk
    | addSession cl k => exact invK_addSession s cl k hk
    | delSession cl k => exact invK_delSession s cl k hk
    | holdBegin tag cl => exact invK_holdBegin s tag cl hk
    | holdEnd tag => exact invK_holdEnd s tag hk
    | ooSet oo => exact invK_ooSet s oo hk
    | ooDel cl key => exact invK_ooDel s cl key hk
    | loRegister cl key => exact invK_loRegister s cl key hk
    | loPrune id => exact invK_loPrune s id hk
    | loSet id lastSeq resp => exact invK_loSet s id lastSeq resp hk
    | vopen tag leaf m create trunc => exact invK_vopen s tag leaf m create trunc hk
    | tempClose tag => exact invK_tempClose s tag hk
    | tempToPend tag => exact invK_tempToPend s tag hk
    | openNew tag cl owner => exact invK_openNew s tag cl owner hs hk
    | openUpgrade tag sid => exact invK_openUpgrade s tag sid hs hk
    | downgradeOpen sid new => exact invK_downgradeOpen s sid new hs hk
    | addLofs sid lo => exact invK_addLofs s sid lo hs hk
    | removeLofs sid lsid => exact invK_removeLofs s sid lsid hs hk
    | unlockAllLofs sid lsid => exact invK_unlockAllLofs s sid lsid hs hk
    | lockSet sid lsid lk => exact invK_lockSet s sid lsid lk hs hk
    | finalize sid => exact invK_finalize s sid hs hk
    | ioBegin tag sid m holds => exact invK_ioBegin s tag sid m holds hs hk
    | ioEnd tag => exact invK_ioEnd s tag hs hk
    | flush => exact invK_flush s hk
    | setCur tag => exact invK_setCur s tag hk
    | proto p => exact invK_setProto s p hk

end BbRe.Lemmas.NfsInvK
