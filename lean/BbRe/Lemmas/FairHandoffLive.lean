import BbRe.Lemmas.FairHandoff
import BbRe.Lemmas.FairWalk
/-!
When some worker is parked, `task.schedule` finds one (it never queues the task).
-/
namespace BbRe.Lemmas.Fair
open BbRe.Fair

/-- `idleSynchronizingWorkersChildren` lists only children that have parked workers at or below
them (the converse of `ParkedListed`; both are checked on the real structures by the hook). -/
def ParkedSound (t : Inv) : Prop :=
  ∀ p n, nodeAt t p = some n → ∀ k ∈ n.parkedKids, ∃ c, n.child k = some c ∧ c.hasParked = true

theorem nodeAt_depth_le : ∀ (p : List Nat) (t n : Inv), nodeAt t p = some n → n.depth ≤ t.depth := by
  intro p
  induction p with
  | nil => intro t n h; simp only [nodeAt, Option.some.injEq] at h; subst h; exact Nat.le_refl _
  | cons k p ih =>
    intro t n h
    simp only [nodeAt] at h
    cases hc : t.child k with
    | none => rw [hc] at h; cases h
    | some c =>
      rw [hc] at h
      have := ih c n h
      have := child_depth_lt t k c hc
      omega

theorem descendParked_some (t : Inv) (hs : ParkedSound t) : ∀ (f : Nat) (p : List Nat) (n : Inv),
    nodeAt t p = some n → n.depth ≤ f → n.hasParked = true → ∃ w, descendParked f n = some w := by
  intro f
  induction f with
  | zero =>
    intro p n _ hd _
    have : 0 < n.depth := by rw [depth_eq]; omega
    omega
  | succ f ih =>
    intro p n hn hd hp
    unfold descendParked
    cases hpk : n.parked with
    | cons w _ => exact ⟨w, rfl⟩
    | nil =>
      simp only []
      unfold Inv.hasParked at hp
      rw [hpk] at hp
      cases hk : n.parkedKids with
      | nil => rw [hk] at hp; simp at hp
      | cons k ks =>
        simp only []
        obtain ⟨c, hc, hcp⟩ := hs p n hn k (by rw [hk]; exact List.mem_cons_self)
        rw [hc]
        simp only []
        have hlt := child_depth_lt n k c hc
        have hpc : nodeAt t (p ++ [k]) = some c := by
          rw [nodeAt_append, hn]
          simp only [Option.bind_some, nodeAt, hc]
        exact ih (p ++ [k]) c hpc (by omega) hcp

theorem length_le_maxLen : ∀ (invs : List (List Nat)) (p : List Nat), p ∈ invs → p.length ≤ maxLen invs
  | [], _, h => by cases h
  | q :: qs, p, h => by
    rw [maxLen]
    rcases List.mem_cons.mp h with rfl | h'
    · omega
    · have := length_le_maxLen qs p h'; omega

theorem handoffAux_ne_nil (t : Inv) (invs : List (List Nat)) (hl : ParkedListed t) (hs : ParkedSound t)
    (q : List Nat) (w : Nat) (hp : Parked t q w) :
    ∀ (fuel r : Nat), (∀ p ∈ invs, r ≤ p.length) → (∃ p ∈ invs, p.length + 1 ≤ fuel + r) →
      handoffAux t invs t.depth fuel r ≠ [] := by
  obtain ⟨nq, hnq, hwq⟩ := hp
  have hroot : t.hasParked = true :=
    hasParked_of_below t hl q [] t nq rfl hnq (by intro he; rw [he] at hwq; cases hwq)
  intro fuel
  induction fuel with
  | zero =>
    intro r hall ⟨p, hp, hb⟩
    have := hall p hp
    omega
  | succ f ih =>
    intro r hall ⟨p0, hp0, hb⟩
    unfold handoffAux
    simp only []
    by_cases hhits : ((roundNodes t invs r).filter Inv.hasParked).isEmpty = true
    · rw [if_pos hhits]
      rw [List.isEmpty_iff] at hhits
      split
      · rename_i hany
        exfalso
        rw [List.any_eq_true] at hany
        obtain ⟨p, hp, hle⟩ := hany
        simp only [decide_eq_true_eq] at hle
        have hr : p.length = r := by have := hall p hp; omega
        have : t ∈ (roundNodes t invs r).filter Inv.hasParked := by
          apply List.mem_filter.mpr
          refine ⟨(mem_roundNodes t invs r t).mpr ⟨p, hp, by omega, ?_⟩, hroot⟩
          rw [hr, Nat.sub_self, List.take_zero]; rfl
        rw [hhits] at this
        cases this
      · rename_i hany
        apply ih (r + 1)
        · intro p hp
          have h1 := hall p hp
          have h2 : ¬ p.length ≤ r := by
            intro hle
            apply hany
            rw [List.any_eq_true]
            exact ⟨p, hp, by simpa using hle⟩
          omega
        · exact ⟨p0, hp0, by omega⟩
    · rw [if_neg hhits]
      -- some examined invocation has parked workers below it; the descent finds one
      cases hh : (roundNodes t invs r).filter Inv.hasParked with
      | nil => rw [hh] at hhits; simp at hhits
      | cons n rest =>
        have hn : n ∈ (roundNodes t invs r).filter Inv.hasParked := by rw [hh]; exact List.mem_cons_self
        obtain ⟨hnr, hnp⟩ := List.mem_filter.mp hn
        obtain ⟨p, hp, hrp, hnode⟩ := (mem_roundNodes t invs r n).mp hnr
        obtain ⟨w', hw'⟩ := descendParked_some t hs t.depth _ n hnode (nodeAt_depth_le _ t n hnode) hnp
        simp only [List.filterMap_cons, hw']
        exact List.cons_ne_nil _ _

end BbRe.Lemmas.Fair
