/-
`platform.Trie` (Model/Trie.lean `Trie`): abstraction `tval`, well-formedness, `Set`, `Remove`,
lookups, and the refinement of Set/Remove histories to the finite map of Spec/PrefixMap.lean.
-/
import BbRe.Lemmas.TrieRemove
import BbRe.Lemmas.TriePrefixMap
namespace BbRe.Lemmas.TrieTop
open BbRe.Model.Trie BbRe.Lemmas.TrieAssoc BbRe.Lemmas.TrieNode BbRe.Lemmas.TrieRemove
open BbRe.Lemmas.TriePrefixMap
open BbRe.Spec.PrefixMap (Comp Plat Key PrefixMap toInt)

/-- value stored for a key (−1 = none). -/
def tval (t : Trie) (k : Key) : Int :=
  match aget k.plat t.platforms with
  | some pt => val pt k.inst
  | none => -1

/-- well-formed: the platform map has distinct keys, every per-platform trie is well-formed
(pruned) and non-empty. -/
structure WF (t : Trie) : Prop where
  nodup : (keys t.platforms).Nodup
  roots : ∀ p pt, aget p t.platforms = some pt → WFRoot pt ∧ ¬ (pt.value < 0 ∧ pt.kids = [])

theorem wf_empty : WF Trie.empty := ⟨by simp [Trie.empty, keys], by intro p pt h; simp [Trie.empty] at h⟩

theorem tval_empty (k : Key) : tval Trie.empty k = -1 := rfl

theorem tval_ge {t : Trie} (h : WF t) (k : Key) : -1 ≤ tval t k := by
  unfold tval
  cases hp : aget k.plat t.platforms with
  | none => simp
  | some pt => exact (h.roots _ pt hp).1.val_ge _

theorem getExact_eq {t : Trie} (h : WF t) (k : Key) : t.getExact k = tval t k := by
  unfold Trie.getExact tval
  cases hp : aget k.plat t.platforms with
  | none => rfl
  | some pt => exact TrieNode.getExact_eq (h.roots _ pt hp).1 _

theorem containsExact_iff {t : Trie} (h : WF t) (k : Key) : t.containsExact k = true ↔ 0 ≤ tval t k := by
  unfold Trie.containsExact tval
  cases hp : aget k.plat t.platforms with
  | none => simp
  | some pt =>
    simp only [Node.containsExact, decide_eq_true_eq, TrieNode.getExact_eq (h.roots _ pt hp).1]

theorem getLongestPrefix_eq (t : Trie) (k : Key) :
    t.getLongestPrefix k = lpV (fun q => tval t ⟨q, k.plat⟩) [] k.inst := by
  unfold Trie.getLongestPrefix
  cases hp : aget k.plat t.platforms with
  | none =>
    have : (fun q => tval t ⟨q, k.plat⟩) = fun _ => (-1 : Int) := by
      funext q; simp [tval, hp]
    rw [this]
    exact (lpV_neg (f := fun _ => (-1 : Int)) k.inst (fun _ => rfl)).symm
  | some pt =>
    have : (fun q => tval t ⟨q, k.plat⟩) = val pt := by
      funext q; simp [tval, hp]
    rw [this]
    exact TrieNode.getLongestPrefix_eq pt k.inst

theorem key_eq_iff (a b : Key) : a = b ↔ a.plat = b.plat ∧ a.inst = b.inst := by
  cases a; cases b; simp [and_comm]

/-! ## `Set` -/

theorem tval_set (t : Trie) (k : Key) (v : Int) (k' : Key) :
    tval (t.set k v) k' = if k' = k then v else tval t k' := by
  unfold tval Trie.set
  simp only [aget_aput]
  by_cases hp : k'.plat = k.plat
  · simp only [hp, if_true, val_setPath, key_eq_iff, true_and]
    cases aget k.plat t.platforms with
    | none => simp [val_empty]
    | some pt => simp
  · have : ¬ k' = k := fun e => hp (by rw [e])
    simp [hp, this]

theorem wf_set {t : Trie} (h : WF t) (k : Key) {v : Int} (hv : 0 ≤ v) : WF (t.set k v) := by
  refine ⟨nodup_keys_aput h.nodup, ?_⟩
  intro p pt hp
  simp only [Trie.set, aget_aput] at hp
  by_cases hpk : p = k.plat
  · simp only [hpk, if_true, Option.some.injEq] at hp
    subst hp
    refine ⟨(wfSub_setPath ?_ _ hv).toRoot, setPath_nonempty _ _ hv⟩
    cases hq : aget k.plat t.platforms with
    | none => simpa using wfRoot_empty
    | some x => simpa using (h.roots _ x hq).1
  · simp only [hpk, if_false] at hp
    exact h.roots p pt hp

/-! ## `Remove` -/

theorem remove_none_iff (t : Trie) (k : Key) :
    t.remove k = none ↔
      (aget k.plat t.platforms = none ∨ ∃ pt, aget k.plat t.platforms = some pt ∧ at? pt k.inst = none) := by
  unfold Trie.remove
  cases hp : aget k.plat t.platforms with
  | none => simp
  | some pt =>
    simp only [Option.some.injEq, exists_eq_left', false_or, reduceCtorEq]
    rw [← TrieRemove.remove_none_iff]
    cases hr : pt.remove k.inst with
    | none => simp
    | some x =>
      obtain ⟨r, b⟩ := x
      cases b <;> simp

theorem remove_spec {t t' : Trie} (hwf : WF t) (k : Key) (h : t.remove k = some t') :
    WF t' ∧ ∀ k', tval t' k' = if k' = k then -1 else tval t k' := by
  unfold Trie.remove at h
  cases hp : aget k.plat t.platforms with
  | none => rw [hp] at h; cases h
  | some pt =>
    simp only [hp] at h
    cases hr : pt.remove k.inst with
    | none => simp only [hr] at h; cases h
    | some x =>
      obtain ⟨r, emp⟩ := x
      simp only [hr] at h
      obtain ⟨hrw, hval, hemp⟩ := TrieRemove.remove_spec k.inst (hwf.roots _ pt hp).1 hr
      cases emp with
      | true =>
        simp only [Option.some.injEq] at h
        subst h
        have hre := hemp.1 rfl
        have hrv : ∀ q, val r q = -1 := by
          intro q
          cases q with
          | nil => have := hrw.1.1; show r.value = -1; omega
          | cons c cs => exact val_of_kids_nil hre.2 c cs
        refine ⟨⟨nodup_keys_adel hwf.nodup, ?_⟩, ?_⟩
        · intro p x hx
          simp only [aget_adel] at hx
          by_cases hpk : p = k.plat
          · simp [hpk] at hx
          · simp only [hpk, if_false] at hx; exact hwf.roots p x hx
        · intro k'
          unfold tval
          simp only [aget_adel]
          by_cases hpk : k'.plat = k.plat
          · simp only [hpk, if_true, hp]
            have h1 := hval k'.inst
            rw [hrv] at h1
            by_cases hk : k' = k
            · simp [hk]
            · have : ¬ k'.inst = k.inst := fun e => hk ((key_eq_iff _ _).2 ⟨hpk, e⟩)
              simp only [this, if_false] at h1
              simp [hk, h1]
          · have : ¬ k' = k := fun e => hpk (by rw [e])
            simp [hpk, this]
      | false =>
        simp only [Option.some.injEq] at h
        subst h
        have hne : ¬ (r.value < 0 ∧ r.kids = []) := by
          intro hc; have := hemp.2 hc; cases this
        refine ⟨⟨nodup_keys_aput hwf.nodup, ?_⟩, ?_⟩
        · intro p x hx
          simp only [aget_aput] at hx
          by_cases hpk : p = k.plat
          · simp only [hpk, if_true, Option.some.injEq] at hx
            subst hx; exact ⟨hrw, hne⟩
          · simp only [hpk, if_false] at hx; exact hwf.roots p x hx
        · intro k'
          unfold tval
          simp only [aget_aput]
          by_cases hpk : k'.plat = k.plat
          · simp only [hpk, if_true, hp, hval, key_eq_iff, true_and]
          · have : ¬ k' = k := fun e => hpk (by rw [e])
            simp [hpk, this]

/-- a registered key can always be removed. -/
theorem remove_present {t : Trie} (k : Key) (h : 0 ≤ tval t k) : ∃ t', t.remove k = some t' := by
  cases hr : t.remove k with
  | some t' => exact ⟨t', rfl⟩
  | none =>
    exfalso
    rcases (remove_none_iff t k).1 hr with hp | ⟨pt, hp, hat⟩
    · simp [tval, hp] at h
    · simp [tval, hp, val, hat] at h

/-! ## histories -/

/-- the trie holds exactly the bindings of the finite map. -/
def Refines (t : Trie) (m : PrefixMap) : Prop :=
  WF t ∧ ∀ k, tval t k = toInt (BbRe.Spec.PrefixMap.get m k)

theorem refines_empty : Refines Trie.empty [] := ⟨wf_empty, fun _ => rfl⟩

theorem refines_step {t t' : Trie} {m : PrefixMap} (h : Refines t m) (op : BbRe.Spec.PrefixMap.Op)
    (hs : Trie.applyOp t op = some t') : Refines t' (BbRe.Spec.PrefixMap.apply m op) := by
  cases op with
  | set k v =>
    simp only [Trie.applyOp, Option.some.injEq] at hs
    subst hs
    refine ⟨wf_set h.1 k (by omega), ?_⟩
    intro k'
    rw [tval_set]
    show _ = toInt (BbRe.Spec.PrefixMap.get (BbRe.Spec.PrefixMap.set m k v) k')
    rw [get_set]
    by_cases hk : k' = k
    · simp [hk, toInt]
    · simp [hk, h.2 k']
  | remove k =>
    simp only [Trie.applyOp] at hs
    obtain ⟨hw, hv⟩ := remove_spec h.1 k hs
    refine ⟨hw, ?_⟩
    intro k'
    rw [hv]
    show _ = toInt (BbRe.Spec.PrefixMap.get (BbRe.Spec.PrefixMap.erase m k) k')
    rw [get_erase]
    by_cases hk : k' = k
    · simp [hk, toInt]
    · simp [hk, h.2 k']

theorem run_cons (t : Trie) (op : BbRe.Spec.PrefixMap.Op) (ops : List BbRe.Spec.PrefixMap.Op) :
    Trie.run t (op :: ops) = match Trie.applyOp t op with
      | none => none
      | some t' => Trie.run t' ops := rfl

theorem refines_run {t t' : Trie} {m : PrefixMap} (h : Refines t m) (ops : List BbRe.Spec.PrefixMap.Op)
    (hr : Trie.run t ops = some t') : Refines t' (BbRe.Spec.PrefixMap.run m ops) := by
  induction ops generalizing t m with
  | nil =>
    simp only [Trie.run, Option.some.injEq] at hr
    subst hr; exact h
  | cons op ops ih =>
    rw [run_cons] at hr
    cases hs : Trie.applyOp t op with
    | none => rw [hs] at hr; cases hr
    | some t1 =>
      rw [hs] at hr
      exact ih (refines_step h op hs) hr

/-- lookups of a trie that refines a map. -/
theorem refines_longest {t : Trie} {m : PrefixMap} (h : Refines t m) (k : Key) :
    t.getLongestPrefix k = toInt (BbRe.Spec.PrefixMap.longestPrefix m k) := by
  rw [getLongestPrefix_eq]
  unfold BbRe.Spec.PrefixMap.longestPrefix
  generalize ([] : List Comp) = pre
  generalize k.inst = rest
  induction rest generalizing pre with
  | nil => simp only [lpV_nil, BbRe.Spec.PrefixMap.longestPrefixFrom]; exact h.2 _
  | cons c cs ih =>
    rw [lpV_cons, ih (pre ++ [c])]
    simp only [BbRe.Spec.PrefixMap.longestPrefixFrom]
    cases BbRe.Spec.PrefixMap.longestPrefixFrom m k.plat (pre ++ [c]) cs with
    | none => simp [toInt]; exact h.2 _
    | some w => simp [toInt]

end BbRe.Lemmas.TrieTop
