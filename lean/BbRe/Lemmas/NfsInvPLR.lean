import BbRe.Lemmas.NfsInvDefs
/-!
# Invariant groups P (opened-files pool), L (lock-owner objects), R (references to client records)

Preservation of `InvP`, `InvL`, `InvR` (`Lemmas/NfsInvDefs.lean`) by every core
action of `Model/NfsState.lean`.

Method: most (action, group) pairs only change state components the group does
not look at, or change them in a way the group cannot see.  This is captured by
three *frame* relations `FrameP`, `FrameL`, `FrameR` (reflexive, transitive,
each implies preservation of its group); `Frame` is their conjunction.  The
building blocks (`State.fail`, `pushPend`, `holdClient`, `releaseClient`,
`modClient`, `modFile`/`modPool` with harmless updates, `gc`) are frames, hence
so are the 24 actions composed of them.  The remaining (action, group) pairs
are proved one by one.  Core Lean only.
-/
namespace BbRe.Lemmas.NfsInvPLR
open BbRe.NfsState BbRe.NfsShare BbRe.Lemmas.NfsInv

/-! ## Lookup helpers -/

theorem getFile_some {s : State} {sid : Nat} {f : OFile} (h : s.getFile sid = some f) :
    f ∈ s.files ∧ f.sid = sid := by
  unfold State.getFile at h
  exact ⟨List.mem_of_find?_eq_some h, by simpa using List.find?_some h⟩

theorem getClient_some {s : State} {cl : Nat} {c : Client} (h : s.getClient cl = some c) :
    c ∈ s.clients ∧ c.id = cl := by
  unfold State.getClient at h
  exact ⟨List.mem_of_find?_eq_some h, by simpa using List.find?_some h⟩

theorem getPool_some {s : State} {file : Nat} {e : PoolEnt} (h : s.getPool file = some e) :
    e ∈ s.pool ∧ e.file = file := by
  unfold State.getPool at h
  exact ⟨List.mem_of_find?_eq_some h, by simpa using List.find?_some h⟩

theorem getPool_none {s : State} {file : Nat} (h : s.getPool file = none) :
    ∀ e ∈ s.pool, e.file ≠ file := by
  unfold State.getPool at h
  intro e he
  simpa using List.find?_eq_none.1 h e he

theorem getLO_none {s : State} {cl key : Nat} (h : s.getLO cl key = none) :
    ∀ l ∈ s.lowners, ¬ (l.cl = cl ∧ l.key = key) := by
  unfold State.getLO at h
  intro l hl
  simpa using List.find?_eq_none.1 h l hl

/-- state IDs identify file records -/
theorem sid_inj {l : List OFile} (hnd : (l.map (·.sid)).Nodup) {f g : OFile}
    (hf : f ∈ l) (hg : g ∈ l) (h : f.sid = g.sid) : f = g := by
  induction l with
  | nil => cases hf
  | cons x xs ih =>
    simp only [List.map_cons, List.nodup_cons, List.mem_map, not_exists, not_and] at hnd
    rcases List.mem_cons.1 hf with rfl | hf'
    · rcases List.mem_cons.1 hg with rfl | hg'
      · rfl
      · exact absurd h.symm (hnd.1 g hg')
    · rcases List.mem_cons.1 hg with rfl | hg'
      · exact absurd h (hnd.1 f hf')
      · exact ih hnd.2 hf' hg'

/-- membership in the result of `modFile` -/
theorem mem_modFile {s : State} {sid : Nat} {g : OFile → OFile} {f' : OFile}
    (h : f' ∈ (s.modFile sid g).files) :
    ∃ f ∈ s.files, (f.sid ≠ sid ∧ f' = f) ∨ (f.sid = sid ∧ f' = g f) := by
  unfold State.modFile at h
  simp only [List.mem_map] at h
  obtain ⟨f, hf, rfl⟩ := h
  refine ⟨f, hf, ?_⟩
  by_cases hs : f.sid = sid
  · right; simp [hs]
  · left; simp [hs]

/-- Replacing the record with state ID `sid` changes a count by that record's contribution. -/
theorem countP_modify (p : OFile → Bool) (g : OFile → OFile) (sid : Nat) :
    ∀ (l : List OFile), (l.map (·.sid)).Nodup → ∀ f ∈ l, f.sid = sid →
      (l.map (fun x => if x.sid == sid then g x else x)).countP p + (if p f then 1 else 0)
        = l.countP p + (if p (g f) then 1 else 0) := by
  intro l
  induction l with
  | nil => intro _ f hf; cases hf
  | cons x xs ih =>
    intro hnd f hf hsid
    simp only [List.map_cons, List.nodup_cons, List.mem_map, not_exists, not_and] at hnd
    rcases List.mem_cons.1 hf with rfl | hf'
    · have hid : xs.map (fun x => if x.sid == sid then g x else x) = xs := by
        have : ∀ y ∈ xs, (fun x => if x.sid == sid then g x else x) y = id y := by
          intro y hy
          have : y.sid ≠ sid := fun e => hnd.1 y hy (by rw [e, hsid])
          simp [this]
        rw [List.map_congr_left this, List.map_id]
      simp only [List.map_cons, hid, List.countP_cons, hsid, beq_self_eq_true, if_true]
      omega
    · have hx : x.sid ≠ sid := fun e => hnd.1 f hf' (by rw [e, hsid])
      have hx' : (x.sid == sid) = false := by simp [hx]
      have := ih hnd.2 f hf' hsid
      simp only [List.map_cons, List.countP_cons, hx', Bool.false_eq_true, if_false]
      omega

/-! ## Frames -/

/-- `s'` looks like `s` to group P. -/
structure FrameP (s s' : State) : Prop where
  live : ∀ file, liveOn s' file = liveOn s file
  has : ∀ f' ∈ s'.files, f'.live = true → ∃ f ∈ s.files, f.live = true ∧ f.file = f'.file
  pool : s'.pool.map (fun e => (e.file, e.useCount)) = s.pool.map (fun e => (e.file, e.useCount))

/-- `s'` looks like `s` to group L (files may disappear, lock-owner files may disappear,
records without lock-owner files may appear, `nextId` may grow). -/
structure FrameL (s s' : State) : Prop where
  files : ∀ f' ∈ s'.files, f'.lofs = [] ∨
    ∃ f ∈ s.files, f.cl = f'.cl ∧ (f'.lofs.map (·.lo)).Sublist (f.lofs.map (·.lo))
  lo : s'.lowners.map (fun l => (l.id, l.cl, l.key)) = s.lowners.map (fun l => (l.id, l.cl, l.key))
  next : s.nextId ≤ s'.nextId

/-- `s'` looks like `s` to group R (referring records may disappear, client records may appear). -/
structure FrameR (s s' : State) : Prop where
  files : ∀ f' ∈ s'.files, f'.live = true → ∃ f ∈ s.files, f.live = true ∧ f.cl = f'.cl
  oo : ∀ o' ∈ s'.oowners, ∃ o ∈ s.oowners, o.cl = o'.cl
  lo : ∀ l' ∈ s'.lowners, ∃ l ∈ s.lowners, l.cl = l'.cl
  cl : ∀ c ∈ s.clients, ∃ c' ∈ s'.clients, c'.id = c.id

structure Frame (s s' : State) : Prop where
  p : FrameP s s'
  l : FrameL s s'
  r : FrameR s s'

theorem FrameP.refl (s : State) : FrameP s s :=
  ⟨fun _ => rfl, fun f hf hl => ⟨f, hf, hl, rfl⟩, rfl⟩

theorem FrameP.trans {a b c : State} (h1 : FrameP a b) (h2 : FrameP b c) : FrameP a c := by
  refine ⟨fun file => (h2.live file).trans (h1.live file), ?_, h2.pool.trans h1.pool⟩
  intro f'' hf'' hl''
  obtain ⟨f', hf', hl', e'⟩ := h2.has f'' hf'' hl''
  obtain ⟨f, hf, hl, e⟩ := h1.has f' hf' hl'
  exact ⟨f, hf, hl, e.trans e'⟩

theorem FrameL.refl (s : State) : FrameL s s :=
  ⟨fun f hf => Or.inr ⟨f, hf, rfl, List.Sublist.refl _⟩, rfl, Nat.le_refl _⟩

theorem FrameL.trans {a b c : State} (h1 : FrameL a b) (h2 : FrameL b c) : FrameL a c := by
  refine ⟨?_, h2.lo.trans h1.lo, Nat.le_trans h1.next h2.next⟩
  intro f'' hf''
  rcases h2.files f'' hf'' with h | ⟨f', hf', e', sub'⟩
  · exact Or.inl h
  · rcases h1.files f' hf' with h | ⟨f, hf, e, sub⟩
    · left
      rw [h] at sub'
      simpa using sub'
    · exact Or.inr ⟨f, hf, e.trans e', sub'.trans sub⟩

theorem FrameR.refl (s : State) : FrameR s s :=
  ⟨fun f hf hl => ⟨f, hf, hl, rfl⟩, fun o ho => ⟨o, ho, rfl⟩, fun l hl => ⟨l, hl, rfl⟩,
   fun c hc => ⟨c, hc, rfl⟩⟩

theorem FrameR.trans {a b c : State} (h1 : FrameR a b) (h2 : FrameR b c) : FrameR a c := by
  refine ⟨?_, ?_, ?_, ?_⟩
  · intro f'' hf'' hl''
    obtain ⟨f', hf', hl', e'⟩ := h2.files f'' hf'' hl''
    obtain ⟨f, hf, hl, e⟩ := h1.files f' hf' hl'
    exact ⟨f, hf, hl, e.trans e'⟩
  · intro o'' ho''
    obtain ⟨o', ho', e'⟩ := h2.oo o'' ho''
    obtain ⟨o, ho, e⟩ := h1.oo o' ho'
    exact ⟨o, ho, e.trans e'⟩
  · intro l'' hl''
    obtain ⟨l', hl', e'⟩ := h2.lo l'' hl''
    obtain ⟨l, hl, e⟩ := h1.lo l' hl'
    exact ⟨l, hl, e.trans e'⟩
  · intro c hc
    obtain ⟨c', hc', e'⟩ := h1.cl c hc
    obtain ⟨c'', hc'', e''⟩ := h2.cl c' hc'
    exact ⟨c'', hc'', e''.trans e'⟩

theorem Frame.refl (s : State) : Frame s s := ⟨FrameP.refl s, FrameL.refl s, FrameR.refl s⟩

theorem Frame.trans {a b c : State} (h1 : Frame a b) (h2 : Frame b c) : Frame a c :=
  ⟨h1.p.trans h2.p, h1.l.trans h2.l, h1.r.trans h2.r⟩

/-! ### Frames preserve the invariants -/

theorem FrameP.inv {s s' : State} (fr : FrameP s s') (h : InvP s) : InvP s' := by
  have hfile : s'.pool.map (·.file) = s.pool.map (·.file) := by
    have := congrArg (List.map Prod.fst) fr.pool
    simpa [List.map_map, Function.comp_def] using this
  have hent : ∀ e' ∈ s'.pool, ∃ e ∈ s.pool, e.file = e'.file ∧ e.useCount = e'.useCount := by
    intro e' he'
    have : (e'.file, e'.useCount) ∈ s'.pool.map (fun e => (e.file, e.useCount)) :=
      List.mem_map.2 ⟨e', he', rfl⟩
    rw [fr.pool] at this
    obtain ⟨e, he, heq⟩ := List.mem_map.1 this
    simp only [Prod.mk.injEq] at heq
    exact ⟨e, he, heq.1, heq.2⟩
  refine ⟨by rw [hfile]; exact h.poolNodup, ?_, ?_⟩
  · intro e' he'
    obtain ⟨e, he, e1, e2⟩ := hent e' he'
    have := h.poolCount e he
    rw [fr.live, ← e1, ← e2]
    exact this
  · intro f' hf' hl'
    obtain ⟨f, hf, hl, e⟩ := fr.has f' hf' hl'
    obtain ⟨p, hp, ep⟩ := h.poolHas f hf hl
    have : p.file ∈ s.pool.map (·.file) := List.mem_map.2 ⟨p, hp, rfl⟩
    rw [← hfile] at this
    obtain ⟨p', hp', ep'⟩ := List.mem_map.1 this
    exact ⟨p', hp', by rw [ep', ep, e]⟩

theorem FrameL.inv {s s' : State} (fr : FrameL s s') (h : InvL s) : InvL s' := by
  have hkey : s'.lowners.map (fun l => (l.cl, l.key)) = s.lowners.map (fun l => (l.cl, l.key)) := by
    have := congrArg (List.map Prod.snd) fr.lo
    simpa [List.map_map, Function.comp_def] using this
  have hid : s'.lowners.map (·.id) = s.lowners.map (·.id) := by
    have := congrArg (List.map Prod.fst) fr.lo
    simpa [List.map_map, Function.comp_def] using this
  have hent : ∀ l ∈ s.lowners, ∃ l' ∈ s'.lowners, l'.id = l.id ∧ l'.cl = l.cl := by
    intro l hl
    have : (l.id, l.cl, l.key) ∈ s.lowners.map (fun l => (l.id, l.cl, l.key)) :=
      List.mem_map.2 ⟨l, hl, rfl⟩
    rw [← fr.lo] at this
    obtain ⟨l', hl', heq⟩ := List.mem_map.1 this
    simp only [Prod.mk.injEq] at heq
    exact ⟨l', hl', heq.1, heq.2.1⟩
  refine ⟨by rw [hkey]; exact h.loKeyNodup, by rw [hid]; exact h.loIdNodup, ?_, ?_, ?_⟩
  · intro l' hl'
    have : l'.id ∈ s'.lowners.map (·.id) := List.mem_map.2 ⟨l', hl', rfl⟩
    rw [hid] at this
    obtain ⟨l, hl, e⟩ := List.mem_map.1 this
    have := h.loIdLt l hl
    have := fr.next
    omega
  · intro f' hf' l' hl'
    rcases fr.files f' hf' with hnil | ⟨f, hf, ecl, sub⟩
    · rw [hnil] at hl'; cases hl'
    · have : l'.lo ∈ f.lofs.map (·.lo) := sub.subset (List.mem_map.2 ⟨l', hl', rfl⟩)
      obtain ⟨l0, hl0, e0⟩ := List.mem_map.1 this
      obtain ⟨lo, hlo, e1, e2⟩ := h.lofsRef f hf l0 hl0
      obtain ⟨lo', hlo', e1', e2'⟩ := hent lo hlo
      exact ⟨lo', hlo', by rw [e1', e1, e0], by rw [e2', e2, ecl]⟩
  · intro f' hf'
    rcases fr.files f' hf' with hnil | ⟨f, hf, _, sub⟩
    · rw [hnil]; exact List.nodup_nil
    · exact (h.lofsLoNodup f hf).sublist sub

theorem FrameR.inv {s s' : State} (fr : FrameR s s') (h : InvR s) : InvR s' := by
  refine ⟨?_, ?_, ?_⟩
  · intro f' hf' hl'
    obtain ⟨f, hf, hl, e⟩ := fr.files f' hf' hl'
    obtain ⟨c, hc, ec⟩ := h.fileCl f hf hl
    obtain ⟨c', hc', ec'⟩ := fr.cl c hc
    exact ⟨c', hc', by rw [ec', ec, e]⟩
  · intro o' ho'
    obtain ⟨o, ho, e⟩ := fr.oo o' ho'
    obtain ⟨c, hc, ec⟩ := h.ooCl o ho
    obtain ⟨c', hc', ec'⟩ := fr.cl c hc
    exact ⟨c', hc', by rw [ec', ec, e]⟩
  · intro l' hl'
    obtain ⟨l, hl, e⟩ := fr.lo l' hl'
    obtain ⟨c, hc, ec⟩ := h.loCl l hl
    obtain ⟨c', hc', ec'⟩ := fr.cl c hc
    exact ⟨c', hc', by rw [ec', ec, e]⟩

/-! ### Building blocks -/

theorem FrameP.same {s s' : State} (hf : s'.files = s.files) (hp : s'.pool = s.pool) : FrameP s s' := by
  refine ⟨fun file => by unfold liveOn; rw [hf], ?_, by rw [hp]⟩
  intro f hf' hl
  exact ⟨f, hf ▸ hf', hl, rfl⟩

theorem FrameL.same {s s' : State} (hf : s'.files = s.files) (hl : s'.lowners = s.lowners)
    (hn : s.nextId ≤ s'.nextId) : FrameL s s' :=
  ⟨fun f hf' => Or.inr ⟨f, hf ▸ hf', rfl, List.Sublist.refl _⟩, by rw [hl], hn⟩

theorem FrameR.same {s s' : State} (hf : s'.files = s.files) (ho : s'.oowners = s.oowners)
    (hl : s'.lowners = s.lowners) (hc : ∀ c ∈ s.clients, ∃ c' ∈ s'.clients, c'.id = c.id) :
    FrameR s s' :=
  ⟨fun f hf' hlv => ⟨f, hf ▸ hf', hlv, rfl⟩, fun o ho' => ⟨o, ho ▸ ho', rfl⟩,
   fun l hl' => ⟨l, hl ▸ hl', rfl⟩, hc⟩

theorem cl_of_map_eq {s s' : State} (hc : s'.clients.map (·.id) = s.clients.map (·.id)) :
    ∀ c ∈ s.clients, ∃ c' ∈ s'.clients, c'.id = c.id := by
  intro c hc'
  have : c.id ∈ s.clients.map (·.id) := List.mem_map.2 ⟨c, hc', rfl⟩
  rw [← hc] at this
  exact List.mem_map.1 this

/-- nothing the three groups look at changes, except that client records may change in place -/
theorem Frame.same {s s' : State} (hf : s'.files = s.files) (hp : s'.pool = s.pool)
    (hl : s'.lowners = s.lowners) (ho : s'.oowners = s.oowners)
    (hc : s'.clients.map (·.id) = s.clients.map (·.id)) (hn : s.nextId ≤ s'.nextId) : Frame s s' :=
  ⟨FrameP.same hf hp, FrameL.same hf hl hn, FrameR.same hf ho hl (cl_of_map_eq hc)⟩

theorem frame_fail (s : State) (m : String) : Frame s (s.fail m) :=
  Frame.same rfl rfl rfl rfl rfl (Nat.le_refl _)

theorem frame_pushPend (s : State) (leaf : Nat) (m : Mask) : Frame s (s.pushPend leaf m) := by
  unfold State.pushPend
  split
  · exact Frame.refl s
  · exact Frame.same rfl rfl rfl rfl rfl (Nat.le_refl _)

theorem modClient_ids (s : State) (cl : Nat) (g : Client → Client) (hg : ∀ c, (g c).id = c.id) :
    (s.modClient cl g).clients.map (·.id) = s.clients.map (·.id) := by
  unfold State.modClient
  simp only [List.map_map]
  apply List.map_congr_left
  intro c _
  simp only [Function.comp]
  split <;> simp [hg]

theorem frame_modClient (s : State) (cl : Nat) (g : Client → Client) (hg : ∀ c, (g c).id = c.id) :
    Frame s (s.modClient cl g) :=
  Frame.same rfl rfl rfl rfl (modClient_ids s cl g hg) (Nat.le_refl _)

theorem frame_holdClient (s : State) (cl : Nat) : Frame s (s.holdClient cl) := by
  unfold State.holdClient
  split
  · exact Frame.refl s
  · split
    · exact Frame.same rfl rfl rfl rfl (modClient_ids _ cl _ (by intro _; rfl)) (Nat.le_refl _)
    · exact frame_modClient _ cl _ (by intro _; rfl)

theorem frame_releaseClient (s : State) (cl : Nat) : Frame s (s.releaseClient cl) := by
  unfold State.releaseClient
  split
  · exact Frame.refl s
  · split
    · exact frame_fail s _
    · split
      · exact Frame.same rfl rfl rfl rfl (modClient_ids s cl _ (by intro _; rfl)) (Nat.le_refl _)
      · exact frame_modClient _ cl _ (by intro _; rfl)

theorem frameP_modFile (s : State) (sid : Nat) (g : OFile → OFile)
    (hlive : ∀ f, (g f).live = f.live) (hfile : ∀ f, (g f).file = f.file) :
    FrameP s (s.modFile sid g) := by
  refine ⟨?_, ?_, rfl⟩
  · intro file
    unfold liveOn State.modFile
    simp only [List.countP_map]
    apply List.countP_congr
    intro f _
    simp only [Function.comp]
    split <;> simp [hlive, hfile]
  · intro f' hf' hl'
    obtain ⟨f, hf, ⟨_, e⟩ | ⟨_, e⟩⟩ := mem_modFile hf'
    · exact ⟨f, hf, e ▸ hl', by rw [e]⟩
    · exact ⟨f, hf, by rw [e, hlive] at hl'; exact hl', by rw [e, hfile]⟩

theorem frameL_modFile (s : State) (sid : Nat) (g : OFile → OFile)
    (hcl : ∀ f, (g f).cl = f.cl)
    (hlofs : ∀ f, ((g f).lofs.map (·.lo)).Sublist (f.lofs.map (·.lo))) :
    FrameL s (s.modFile sid g) := by
  refine ⟨?_, rfl, Nat.le_refl _⟩
  intro f' hf'
  obtain ⟨f, hf, ⟨_, e⟩ | ⟨_, e⟩⟩ := mem_modFile hf'
  · exact Or.inr ⟨f, hf, by rw [e], by rw [e]; exact List.Sublist.refl _⟩
  · exact Or.inr ⟨f, hf, by rw [e, hcl], by rw [e]; exact hlofs f⟩

theorem frameR_modFile (s : State) (sid : Nat) (g : OFile → OFile)
    (hlive : ∀ f, (g f).live = true → f.live = true) (hcl : ∀ f, (g f).cl = f.cl) :
    FrameR s (s.modFile sid g) := by
  refine ⟨?_, fun o ho => ⟨o, ho, rfl⟩, fun l hl => ⟨l, hl, rfl⟩, fun c hc => ⟨c, hc, rfl⟩⟩
  intro f' hf' hl'
  obtain ⟨f, hf, ⟨_, e⟩ | ⟨_, e⟩⟩ := mem_modFile hf'
  · exact ⟨f, hf, e ▸ hl', by rw [e]⟩
  · exact ⟨f, hf, hlive f (e ▸ hl'), by rw [e, hcl]⟩

/-- `modFile` with an update that keeps `live`, `file`, `cl` and only removes lock-owner files -/
theorem frame_modFile (s : State) (sid : Nat) (g : OFile → OFile)
    (hlive : ∀ f, (g f).live = f.live) (hfile : ∀ f, (g f).file = f.file)
    (hcl : ∀ f, (g f).cl = f.cl)
    (hlofs : ∀ f, ((g f).lofs.map (·.lo)).Sublist (f.lofs.map (·.lo))) :
    Frame s (s.modFile sid g) :=
  ⟨frameP_modFile s sid g hlive hfile, frameL_modFile s sid g hcl hlofs,
   frameR_modFile s sid g (fun f h => hlive f ▸ h) hcl⟩

theorem frame_modPool (s : State) (file : Nat) (g : PoolEnt → PoolEnt)
    (hfile : ∀ e, (g e).file = e.file) (hcnt : ∀ e, (g e).useCount = e.useCount) :
    Frame s (s.modPool file g) := by
  refine ⟨⟨fun _ => rfl, fun f hf hl => ⟨f, hf, hl, rfl⟩, ?_⟩,
    FrameL.same rfl rfl (Nat.le_refl _), FrameR.same rfl rfl rfl (fun c hc => ⟨c, hc, rfl⟩)⟩
  unfold State.modPool
  simp only [List.map_map]
  apply List.map_congr_left
  intro e _
  simp only [Function.comp]
  split <;> simp [hfile, hcnt]

/-- garbage collection removes only records that are not live -/
theorem frame_filterFiles (s : State) (p : OFile → Bool) (hp : ∀ f, f.live = true → p f = true) :
    Frame s { s with files := s.files.filter p } := by
  refine ⟨⟨?_, ?_, rfl⟩, ⟨?_, rfl, Nat.le_refl _⟩, ⟨?_, fun o ho => ⟨o, ho, rfl⟩,
    fun l hl => ⟨l, hl, rfl⟩, fun c hc => ⟨c, hc, rfl⟩⟩⟩
  · intro file
    unfold liveOn
    simp only [List.countP_filter]
    apply List.countP_congr
    intro f _
    cases hl : f.live
    · simp
    · simp [hp f hl]
  · intro f' hf' hl'
    exact ⟨f', (List.mem_filter.1 hf').1, hl', rfl⟩
  · intro f' hf'
    exact Or.inr ⟨f', (List.mem_filter.1 hf').1, rfl, List.Sublist.refl _⟩
  · intro f' hf' hl'
    exact ⟨f', (List.mem_filter.1 hf').1, hl', rfl⟩

theorem frame_gc (s : State) : Frame s s.gc := by
  unfold State.gc
  exact frame_filterFiles s _ (fun f hl => by simp [hl])

/-- composition, last step first (so that elaboration determines the intermediate state) -/
theorem Frame.after {a b c : State} (h2 : Frame b c) (h1 : Frame a b) : Frame a c := h1.trans h2

/-- a frame followed by changes no group looks at -/
theorem Frame.andSame {a b c : State} (h1 : Frame a b) (hf : c.files = b.files) (hp : c.pool = b.pool)
    (hl : c.lowners = b.lowners) (ho : c.oowners = b.oowners)
    (hc : c.clients.map (·.id) = b.clients.map (·.id)) (hn : b.nextId ≤ c.nextId) : Frame a c :=
  h1.trans (Frame.same hf hp hl ho hc hn)

theorem lofs_lockCount_lo (lofs : List LOFile) (lsid : Nat) (d : Int) :
    ((lofs.map (fun l => if l.sid == lsid then { l with lockCount := l.lockCount + d } else l)).map
      (·.lo)).Sublist (lofs.map (·.lo)) := by
  have : (lofs.map (fun l => if l.sid == lsid then { l with lockCount := l.lockCount + d } else l)).map
      (·.lo) = lofs.map (·.lo) := by
    simp only [List.map_map]
    apply List.map_congr_left
    intro l _
    simp only [Function.comp]
    split <;> rfl
  rw [this]
  exact List.Sublist.refl _

/-! ## Actions that are frames for all three groups -/

theorem frame_tick (s : State) (d : Nat) : Frame s (Do.tick s d) :=
  Frame.same rfl rfl rfl rfl rfl (Nat.le_refl _)

theorem frame_setNow (s : State) : Frame s (Do.setNow s) :=
  Frame.same rfl rfl rfl rfl rfl (Nat.le_refl _)

theorem frame_newClient (s : State) (long ver : Nat) : Frame s (Do.newClient s long ver) := by
  unfold Do.newClient
  split
  · exact Frame.refl s
  · exact ⟨FrameP.same rfl rfl, FrameL.same rfl rfl (Nat.le_succ _),
      FrameR.same rfl rfl rfl (fun c hc => ⟨c, List.mem_append_left _ hc, rfl⟩)⟩

theorem frame_touch (s : State) (cl : Nat) : Frame s (Do.touch s cl) :=
  (frame_holdClient s cl).trans (frame_releaseClient _ cl)

theorem frame_confirmClient (s : State) (cl : Nat) : Frame s (Do.confirmClient s cl) := by
  unfold Do.confirmClient
  split
  · exact Frame.refl s
  · split
    · exact frame_fail s _
    · exact frame_modClient s cl _ (by intro _; rfl)

theorem frame_addSession (s : State) (cl k : Nat) : Frame s (Do.addSession s cl k) :=
  frame_modClient s cl _ (by intro _; rfl)

theorem frame_delSession (s : State) (cl k : Nat) : Frame s (Do.delSession s cl k) :=
  frame_modClient s cl _ (by intro _; rfl)

theorem frame_holdBegin (s : State) (tag cl : Nat) : Frame s (Do.holdBegin s tag cl) := by
  unfold Do.holdBegin
  split
  · exact Frame.refl s
  · exact Frame.after (frame_holdClient _ cl) (Frame.same rfl rfl rfl rfl rfl (Nat.le_refl _))

theorem frame_holdEnd (s : State) (tag : Nat) : Frame s (Do.holdEnd s tag) := by
  unfold Do.holdEnd
  split
  · exact Frame.refl s
  · exact Frame.after (frame_releaseClient _ _) (Frame.same rfl rfl rfl rfl rfl (Nat.le_refl _))

theorem frame_ooDel (s : State) (cl key : Nat) : Frame s (Do.ooDel s cl key) := by
  unfold Do.ooDel
  split
  · exact frame_fail s _
  · exact ⟨FrameP.same rfl rfl, FrameL.same rfl rfl (Nat.le_refl _),
      ⟨fun f hf hl => ⟨f, hf, hl, rfl⟩, fun o ho => ⟨o, (List.mem_filter.1 ho).1, rfl⟩,
       fun l hl => ⟨l, hl, rfl⟩, fun c hc => ⟨c, hc, rfl⟩⟩⟩

theorem frame_loSet (s : State) (id lastSeq : Nat) (resp : Option (Nat × String × Nat × Nat)) :
    Frame s (Do.loSet s id lastSeq resp) := by
  unfold Do.loSet
  refine ⟨FrameP.same rfl rfl, ⟨fun f hf => Or.inr ⟨f, hf, rfl, List.Sublist.refl _⟩, ?_, Nat.le_refl _⟩,
    ⟨fun f hf hl => ⟨f, hf, hl, rfl⟩, fun o ho => ⟨o, ho, rfl⟩, ?_, fun c hc => ⟨c, hc, rfl⟩⟩⟩
  · simp only [List.map_map]
    apply List.map_congr_left
    intro l _
    simp only [Function.comp]
    split <;> rfl
  · intro l' hl'
    simp only [List.mem_map] at hl'
    obtain ⟨l, hl, rfl⟩ := hl'
    refine ⟨l, hl, ?_⟩
    split <;> rfl

theorem frame_vopen (s : State) (tag leaf : Nat) (m : Mask) (create trunc : Bool) :
    Frame s (Do.vopen s tag leaf m create trunc) := by
  unfold Do.vopen
  split
  · exact Frame.refl s
  · exact Frame.same rfl rfl rfl rfl rfl (Nat.le_refl _)

theorem frame_tempClose (s : State) (tag : Nat) : Frame s (Do.tempClose s tag) := by
  unfold Do.tempClose
  split
  · exact Frame.refl s
  · exact Frame.same rfl rfl rfl rfl rfl (Nat.le_refl _)

theorem frame_tempToPend (s : State) (tag : Nat) : Frame s (Do.tempToPend s tag) := by
  unfold Do.tempToPend
  split
  · exact Frame.refl s
  · exact Frame.after (frame_pushPend _ _ _) (Frame.same rfl rfl rfl rfl rfl (Nat.le_refl _))

theorem frame_openUpgrade (s : State) (tag sid : Nat) : Frame s (Do.openUpgrade s tag sid) := by
  unfold Do.openUpgrade
  split
  · split
    · exact Frame.refl s
    · refine Frame.after (frame_pushPend _ _ _) (Frame.after (frame_modFile _ sid _ ?_ ?_ ?_ ?_)
        (Frame.same rfl rfl rfl rfl rfl (Nat.le_refl _)))
      · intro _; rfl
      · intro _; rfl
      · intro _; rfl
      · intro _; exact List.Sublist.refl _
  · exact Frame.refl s

theorem frame_downgradeOpen (s : State) (sid : Nat) (new : Mask) : Frame s (Do.downgradeOpen s sid new) := by
  unfold Do.downgradeOpen
  split
  · exact Frame.refl s
  · split
    · exact Frame.refl s
    · split
      · exact frame_fail s _
      · refine Frame.after (frame_pushPend _ _ _) (frame_modFile _ sid _ ?_ ?_ ?_ ?_)
        · intro _; rfl
        · intro _; rfl
        · intro _; rfl
        · intro _; exact List.Sublist.refl _

theorem frame_removeLofs (s : State) (sid lsid : Nat) : Frame s (Do.removeLofs s sid lsid) := by
  unfold Do.removeLofs
  split
  · exact Frame.refl s
  · split
    · exact Frame.refl s
    · split
      · exact frame_fail s _
      · split
        · exact frame_fail s _
        · refine Frame.after (frame_pushPend _ _ _) (frame_modFile _ sid _ ?_ ?_ ?_ ?_)
          · intro _; rfl
          · intro _; rfl
          · intro _; rfl
          · intro f; exact List.filter_sublist.map _

theorem frame_unlockAllLofs (s : State) (sid lsid : Nat) : Frame s (Do.unlockAllLofs s sid lsid) := by
  unfold Do.unlockAllLofs
  split
  · exact Frame.refl s
  · split
    · split
      · exact Frame.refl s
      · refine Frame.after (frame_modFile _ sid _ ?_ ?_ ?_ ?_) (frame_modPool s _ _ ?_ ?_)
        · intro _; rfl
        · intro _; rfl
        · intro _; rfl
        · intro f; exact lofs_lockCount_lo _ _ _
        · intro _; rfl
        · intro _; rfl
    · exact Frame.refl s

theorem frame_lockSet (s : State) (sid lsid : Nat) (lk : BRL.Lock) : Frame s (Do.lockSet s sid lsid lk) := by
  unfold Do.lockSet
  split
  · exact Frame.refl s
  · split
    · dsimp only
      split
      · exact frame_fail s _
      · refine Frame.after (frame_modFile _ sid _ ?_ ?_ ?_ ?_) (frame_modPool s _ _ ?_ ?_)
        · intro _; rfl
        · intro _; rfl
        · intro _; rfl
        · intro f; exact lofs_lockCount_lo _ _ _
        · intro _; rfl
        · intro _; rfl
    · exact Frame.refl s

theorem frame_ioBegin (s : State) (tag sid : Nat) (m : Mask) (holds : Bool) :
    Frame s (Do.ioBegin s tag sid m holds) := by
  unfold Do.ioBegin
  split
  · exact Frame.refl s
  · split
    · exact Frame.refl s
    · split
      · exact frame_fail s _
      · have hX : ∀ (c : ShareCount) (io : IOrec),
            Frame s { s.modFile sid (fun f => { f with count := c }) with ios := s.ios ++ [io] } := by
          intro c io
          refine Frame.andSame (frame_modFile s sid _ ?_ ?_ ?_ ?_) rfl rfl rfl rfl rfl (Nat.le_refl _)
          · intro _; rfl
          · intro _; rfl
          · intro _; rfl
          · intro _; exact List.Sublist.refl _
        dsimp only
        split
        · exact Frame.after (frame_holdClient _ _) (hX _ _)
        · exact hX _ _

theorem frame_ioEnd (s : State) (tag : Nat) : Frame s (Do.ioEnd s tag) := by
  unfold Do.ioEnd
  split
  · exact Frame.refl s
  · split
    · exact Frame.refl s
    · split
      · exact frame_fail s _
      · have hX : ∀ (io : IOrec) (f : OFile) (c : ShareCount) (z : Mask), Frame s (State.pushPend ({ s with ios := s.ios.filter (fun io => io.tag != tag) }.modFile
            io.sid (fun f => { f with count := c })) f.file z) := by
          intro io f c z
          refine Frame.after (frame_pushPend _ _ _) (Frame.after (frame_modFile _ _ _ ?_ ?_ ?_ ?_)
            (Frame.same rfl rfl rfl rfl rfl (Nat.le_refl _)))
          · intro _; rfl
          · intro _; rfl
          · intro _; rfl
          · intro _; exact List.Sublist.refl _
        refine Frame.after (frame_gc _) ?_
        split
        · exact Frame.after (frame_releaseClient _ _) (hX _ _ _ _)
        · exact hX _ _ _ _

theorem frame_flush (s : State) : Frame s (Do.flush s) := by
  unfold Do.flush
  split
  · exact Frame.refl s
  · exact Frame.same rfl rfl rfl rfl rfl (Nat.le_refl _)

theorem frame_setCur (s : State) (tag : Nat) : Frame s (Do.setCur s tag) :=
  Frame.same rfl rfl rfl rfl rfl (Nat.le_refl _)

theorem frame_setProto (s : State) (p : Proto) : Frame s (Do.setProto s p) :=
  Frame.same rfl rfl rfl rfl rfl (Nat.le_refl _)

/-! ## `dropClient` -/

theorem frameP_dropClient (s : State) (cl : Nat) : FrameP s (Do.dropClient s cl) := by
  unfold Do.dropClient
  repeat' split
  all_goals exact FrameP.same rfl rfl

theorem frameL_dropClient (s : State) (cl : Nat) : FrameL s (Do.dropClient s cl) := by
  unfold Do.dropClient
  repeat' split
  all_goals exact FrameL.same rfl rfl (Nat.le_refl _)

theorem invR_dropClient_aux (s : State) (cl : Nat) (idle : List Nat) (h : InvR s)
    (hf : ¬ (s.files.any (fun f => f.live && f.cl == cl) = true))
    (ho : ¬ (s.oowners.any (fun o => o.cl == cl) = true))
    (hl : ¬ (s.lowners.any (fun l => l.cl == cl) = true)) :
    InvR { s with clients := s.clients.filter (fun c => c.id != cl), idle := idle } := by
  refine ⟨?_, ?_, ?_⟩
  · intro f hf' hlv
    obtain ⟨c, hc, e⟩ := h.fileCl f hf' hlv
    refine ⟨c, List.mem_filter.2 ⟨hc, ?_⟩, e⟩
    have : f.cl ≠ cl := fun e' => hf (List.any_eq_true.2 ⟨f, hf', by simp [hlv, e']⟩)
    simp [e, this]
  · intro o ho'
    obtain ⟨c, hc, e⟩ := h.ooCl o ho'
    refine ⟨c, List.mem_filter.2 ⟨hc, ?_⟩, e⟩
    have : o.cl ≠ cl := fun e' => ho (List.any_eq_true.2 ⟨o, ho', by simp [e']⟩)
    simp [e, this]
  · intro l hl'
    obtain ⟨c, hc, e⟩ := h.loCl l hl'
    refine ⟨c, List.mem_filter.2 ⟨hc, ?_⟩, e⟩
    have : l.cl ≠ cl := fun e' => hl (List.any_eq_true.2 ⟨l, hl', by simp [e']⟩)
    simp [e, this]

theorem invR_dropClient (s : State) (cl : Nat) (h : InvR s) : InvR (Do.dropClient s cl) := by
  unfold Do.dropClient
  split
  · exact h
  · split
    · exact (frame_fail s _).r.inv h
    · split
      · exact (frame_fail s _).r.inv h
      · split
        · exact (frame_fail s _).r.inv h
        · split
          · exact (frame_fail s _).r.inv h
          · split
            · exact (frame_fail s _).r.inv h
            · exact invR_dropClient_aux s cl _ h (by assumption) (by assumption) (by assumption)

/-! ## `ooSet` -/

theorem frameP_ooSet (s : State) (oo : OOwner) : FrameP s (Do.ooSet s oo) := by
  unfold Do.ooSet
  repeat' split
  all_goals exact FrameP.same rfl rfl

theorem frameL_ooSet (s : State) (oo : OOwner) : FrameL s (Do.ooSet s oo) := by
  unfold Do.ooSet
  repeat' split
  all_goals exact FrameL.same rfl rfl (Nat.le_refl _)

theorem invR_ooSet (s : State) (oo : OOwner) (h : InvR s) : InvR (Do.ooSet s oo) := by
  unfold Do.ooSet
  split
  · exact h
  · rename_i c hc
    obtain ⟨hc1, hc2⟩ := getClient_some hc
    split
    · exact h
    · split
      · refine ⟨h.fileCl, ?_, h.loCl⟩
        intro o' ho'
        simp only [List.mem_map] at ho'
        obtain ⟨o, ho, rfl⟩ := ho'
        split
        · exact ⟨c, hc1, hc2⟩
        · exact h.ooCl o ho
      · refine ⟨h.fileCl, ?_, h.loCl⟩
        intro o' ho'
        rcases List.mem_append.1 ho' with ho | ho
        · exact h.ooCl o' ho
        · simp only [List.mem_singleton] at ho
          exact ⟨c, hc1, ho ▸ hc2⟩

/-! ## `loRegister` -/

theorem frameP_loRegister (s : State) (cl key : Nat) : FrameP s (Do.loRegister s cl key) := by
  unfold Do.loRegister
  split
  all_goals exact FrameP.same rfl rfl

theorem invL_loRegister (s : State) (cl key : Nat) (h : InvL s) : InvL (Do.loRegister s cl key) := by
  unfold Do.loRegister
  split
  · exact h
  · rename_i hg
    have hlo : s.getLO cl key = none := by
      cases hl : s.getLO cl key
      · rfl
      · simp [hl] at hg
    have hno := getLO_none hlo
    refine ⟨?_, ?_, ?_, ?_, h.lofsLoNodup⟩
    · show ((s.lowners ++ [_]).map _).Nodup
      rw [List.map_append, List.nodup_append]
      refine ⟨h.loKeyNodup, by simp, ?_⟩
      intro a ha b hb
      simp only [List.map_cons, List.map_nil, List.mem_singleton] at hb
      obtain ⟨l, hl, rfl⟩ := List.mem_map.1 ha
      intro e
      rw [hb] at e
      simp only [Prod.mk.injEq] at e
      exact hno l hl e
    · show ((s.lowners ++ [_]).map _).Nodup
      rw [List.map_append, List.nodup_append]
      refine ⟨h.loIdNodup, by simp, ?_⟩
      intro a ha b hb
      simp only [List.map_cons, List.map_nil, List.mem_singleton] at hb
      obtain ⟨l, hl, rfl⟩ := List.mem_map.1 ha
      have := h.loIdLt l hl
      omega
    · intro l hl
      show l.id < s.nextId + 1
      rcases List.mem_append.1 hl with hl | hl
      · exact Nat.lt_succ_of_lt (h.loIdLt l hl)
      · simp only [List.mem_singleton] at hl
        rw [hl]
        exact Nat.lt_succ_self _
    · intro f hf l hl
      obtain ⟨lo, hlo', e⟩ := h.lofsRef f hf l hl
      exact ⟨lo, List.mem_append_left _ hlo', e⟩

theorem invR_loRegister (s : State) (cl key : Nat) (h : InvR s) : InvR (Do.loRegister s cl key) := by
  unfold Do.loRegister
  split
  · exact h
  · rename_i hg
    cases hc : s.getClient cl with
    | none => simp [hc] at hg
    | some c =>
      obtain ⟨hc1, hc2⟩ := getClient_some hc
      refine ⟨h.fileCl, h.ooCl, ?_⟩
      intro l hl
      rcases List.mem_append.1 hl with hl | hl
      · exact h.loCl l hl
      · simp only [List.mem_singleton] at hl
        exact ⟨c, hc1, by rw [hl]; exact hc2⟩

/-! ## `loPrune` -/

theorem frameP_loPrune (s : State) (id : Nat) : FrameP s (Do.loPrune s id) := by
  unfold Do.loPrune
  split
  all_goals exact FrameP.same rfl rfl

theorem frameR_loPrune (s : State) (id : Nat) : FrameR s (Do.loPrune s id) := by
  unfold Do.loPrune
  split
  · exact FrameR.refl s
  · exact ⟨fun f hf hl => ⟨f, hf, hl, rfl⟩, fun o ho => ⟨o, ho, rfl⟩,
      fun l hl => ⟨l, (List.mem_filter.1 hl).1, rfl⟩, fun c hc => ⟨c, hc, rfl⟩⟩

theorem invL_loPrune (s : State) (id : Nat) (h : InvL s) : InvL (Do.loPrune s id) := by
  unfold Do.loPrune
  split
  · exact h
  · rename_i hg
    refine ⟨h.loKeyNodup.sublist (List.filter_sublist.map _), h.loIdNodup.sublist (List.filter_sublist.map _),
      fun l hl => h.loIdLt l (List.mem_filter.1 hl).1, ?_, h.lofsLoNodup⟩
    intro f hf l hl
    obtain ⟨lo, hlo, e1, e2⟩ := h.lofsRef f hf l hl
    refine ⟨lo, List.mem_filter.2 ⟨hlo, ?_⟩, e1, e2⟩
    have : l.lo ≠ id := fun e' => hg (List.any_eq_true.2 ⟨f, hf, List.any_eq_true.2 ⟨l, hl, by simp [e']⟩⟩)
    simp [e1, this]

/-! ## `openNew` -/

theorem frameL_openNew (s : State) (tag cl owner : Nat) : FrameL s (Do.openNew s tag cl owner) := by
  unfold Do.openNew
  split
  · exact FrameL.refl s
  · split
    · exact FrameL.refl s
    · refine ⟨?_, rfl, Nat.le_succ _⟩
      intro f' hf'
      rcases List.mem_append.1 hf' with hf | hf
      · exact Or.inr ⟨f', hf, rfl, List.Sublist.refl _⟩
      · simp only [List.mem_singleton] at hf
        left; rw [hf]

theorem invR_openNew (s : State) (tag cl owner : Nat) (h : InvR s) : InvR (Do.openNew s tag cl owner) := by
  unfold Do.openNew
  split
  · exact h
  · split
    · exact h
    · rename_i hg
      cases hc : s.getClient cl with
      | none => simp [hc] at hg
      | some c =>
        obtain ⟨hc1, hc2⟩ := getClient_some hc
        refine ⟨?_, h.ooCl, h.loCl⟩
        intro f' hf' hlv
        rcases List.mem_append.1 hf' with hf | hf
        · exact h.fileCl f' hf hlv
        · simp only [List.mem_singleton] at hf
          exact ⟨c, hc1, by rw [hf]; exact hc2⟩

theorem invP_openNew_aux {s s' : State} (leaf : Nat) (f : OFile) (hl : f.live = true)
    (hfile : f.file = leaf) (hf : s'.files = s.files ++ [f])
    (hp : s'.pool = if (s.getPool leaf).isSome
      then s.pool.map (fun e => if e.file == leaf then { e with useCount := e.useCount + 1 } else e)
      else s.pool ++ [{ file := leaf, useCount := 1, locks := [] }])
    (h : InvP s) : InvP s' := by
  have hlive : ∀ file, liveOn s' file = liveOn s file + (if leaf = file then 1 else 0) := by
    intro file
    unfold liveOn
    rw [hf, List.countP_append]
    by_cases e : leaf = file <;> simp [hl, hfile, e]
  cases hg : s.getPool leaf with
  | none =>
    have hno := getPool_none hg
    simp only [hg, Option.isSome_none, Bool.false_eq_true, if_false] at hp
    refine ⟨?_, ?_, ?_⟩
    · rw [hp, List.map_append, List.nodup_append]
      refine ⟨h.poolNodup, by simp, ?_⟩
      intro a ha b hb
      simp only [List.map_cons, List.map_nil, List.mem_singleton] at hb
      obtain ⟨e, he, rfl⟩ := List.mem_map.1 ha
      rw [hb]
      exact hno e he
    · intro e he
      rw [hp] at he
      rw [hlive]
      rcases List.mem_append.1 he with he | he
      · have := hno e he
        have := h.poolCount e he
        rw [if_neg (fun e' => hno e he e'.symm)]
        omega
      · simp only [List.mem_singleton] at he
        have h0 : liveOn s leaf = 0 := by
          unfold liveOn
          rw [List.countP_eq_zero]
          intro a ha hpa
          simp only [Bool.and_eq_true, beq_iff_eq] at hpa
          obtain ⟨e0, he0, e1⟩ := h.poolHas a ha hpa.1
          exact hno e0 he0 (e1.trans hpa.2)
        rw [he]
        simp [h0]
    · intro f' hf' hlv
      rw [hf] at hf'
      rw [hp]
      rcases List.mem_append.1 hf' with hf'' | hf''
      · obtain ⟨e, he, e1⟩ := h.poolHas f' hf'' hlv
        exact ⟨e, List.mem_append_left _ he, e1⟩
      · simp only [List.mem_singleton] at hf''
        exact ⟨_, List.mem_append_right _ (List.mem_singleton.2 rfl), by rw [hf'', hfile]⟩
  | some e0 =>
    obtain ⟨he0, he0f⟩ := getPool_some hg
    simp only [hg, Option.isSome_some, if_true] at hp
    have hfl : s'.pool.map (·.file) = s.pool.map (·.file) := by
      rw [hp, List.map_map]
      apply List.map_congr_left
      intro e _
      simp only [Function.comp]
      split <;> rfl
    refine ⟨by rw [hfl]; exact h.poolNodup, ?_, ?_⟩
    · intro e' he'
      rw [hp] at he'
      obtain ⟨e, he, rfl⟩ := List.mem_map.1 he'
      have := h.poolCount e he
      by_cases hef : e.file = leaf
      · simp only [hef, beq_self_eq_true, if_true, hlive]
        rw [hef] at this
        omega
      · have hef' : (e.file == leaf) = false := by simp [hef]
        simp only [hef', Bool.false_eq_true, if_false, hlive]
        rw [if_neg (fun e' => hef e'.symm)]
        omega
    · intro f' hf' hlv
      rw [hf] at hf'
      have hkey : ∀ file, (∃ e ∈ s.pool, e.file = file) → ∃ e ∈ s'.pool, e.file = file := by
        intro file ⟨e, he, e1⟩
        have : file ∈ s.pool.map (·.file) := List.mem_map.2 ⟨e, he, e1⟩
        rw [← hfl] at this
        exact List.mem_map.1 this
      rcases List.mem_append.1 hf' with hf'' | hf''
      · exact hkey _ (h.poolHas f' hf'' hlv)
      · simp only [List.mem_singleton] at hf''
        exact hkey _ ⟨e0, he0, by rw [hf'', hfile, he0f]⟩

theorem invP_openNew (s : State) (tag cl owner : Nat) (h : InvP s) : InvP (Do.openNew s tag cl owner) := by
  unfold Do.openNew
  split
  · exact h
  · split
    · exact h
    · exact invP_openNew_aux _ _ rfl rfl rfl rfl h

/-! ## `addLofs` -/

theorem frameP_addLofs (s : State) (sid lo : Nat) : FrameP s (Do.addLofs s sid lo) := by
  unfold Do.addLofs
  split
  · exact FrameP.refl s
  · split
    · exact FrameP.refl s
    · split
      · exact (frame_fail s _).p
      · exact (frameP_modFile s sid _ (by intro _; rfl) (by intro _; rfl)).trans (FrameP.same rfl rfl)

theorem frameR_addLofs (s : State) (sid lo : Nat) : FrameR s (Do.addLofs s sid lo) := by
  unfold Do.addLofs
  split
  · exact FrameR.refl s
  · split
    · exact FrameR.refl s
    · split
      · exact (frame_fail s _).r
      · exact (frameR_modFile s sid _ (by intro _ h; exact h) (by intro _; rfl)).trans
          (FrameR.same rfl rfl rfl (fun c hc => ⟨c, hc, rfl⟩))

theorem invL_addLofs (s : State) (sid lo : Nat) (hs : InvS s) (h : InvL s) : InvL (Do.addLofs s sid lo) := by
  unfold Do.addLofs
  split
  · exact h
  · rename_i f hgf
    obtain ⟨hfm, hfs⟩ := getFile_some hgf
    split
    · exact h
    · rename_i hg
      simp only [Bool.or_eq_true, Bool.not_eq_true', not_or, Bool.not_eq_false, Bool.not_eq_true] at hg
      obtain ⟨⟨_, hnolo⟩, hreg⟩ := hg
      split
      · exact (frame_fail s _).l.inv h
      · rename_i c _
        refine ⟨h.loKeyNodup, h.loIdNodup, fun l hl => Nat.lt_succ_of_lt (h.loIdLt l hl), ?_, ?_⟩
        · intro f' hf' l hl
          obtain ⟨f0, hf0, ⟨_, e⟩ | ⟨e0, e⟩⟩ := mem_modFile hf'
          · rw [e] at hl ⊢
            exact h.lofsRef f0 hf0 l hl
          · have hff : f0 = f := sid_inj hs.sidNodup hf0 hfm (e0.trans hfs.symm)
            rw [e] at hl ⊢
            rw [hff] at hl ⊢
            rcases List.mem_append.1 hl with hl | hl
            · exact h.lofsRef f hfm l hl
            · simp only [List.mem_singleton] at hl
              obtain ⟨lo', hlo', hp'⟩ := List.any_eq_true.1 hreg
              simp only [Bool.and_eq_true, beq_iff_eq] at hp'
              exact ⟨lo', hlo', by rw [hl]; exact hp'.1, hp'.2⟩
        · intro f' hf'
          obtain ⟨f0, hf0, ⟨_, e⟩ | ⟨e0, e⟩⟩ := mem_modFile hf'
          · rw [e]
            exact h.lofsLoNodup f0 hf0
          · have hff : f0 = f := sid_inj hs.sidNodup hf0 hfm (e0.trans hfs.symm)
            rw [e, hff]
            show ((f.lofs ++ [_]).map _).Nodup
            rw [List.map_append, List.nodup_append]
            refine ⟨h.lofsLoNodup f hfm, by simp, ?_⟩
            intro a ha b hb
            simp only [List.map_cons, List.map_nil, List.mem_singleton] at hb
            obtain ⟨l, hl, rfl⟩ := List.mem_map.1 ha
            rw [hb]
            intro e'
            have := List.any_eq_false.1 hnolo l hl
            simp [e'] at this

/-! ## `finalize` -/

theorem frameL_finalize_aux (s : State) (sid : Nat) (pool : List PoolEnt) :
    FrameL s (State.gc ({ s with pool := pool }.modFile sid (fun f => { f with live := false }))) := by
  have h1 : FrameL s { s with pool := pool } := FrameL.same rfl rfl (Nat.le_refl _)
  have h2 := frameL_modFile { s with pool := pool } sid (fun f => { f with live := false })
    (by intro _; rfl) (by intro _; exact List.Sublist.refl _)
  exact (h1.trans h2).trans (frame_gc _).l

theorem frameR_finalize_aux (s : State) (sid : Nat) (pool : List PoolEnt) :
    FrameR s (State.gc ({ s with pool := pool }.modFile sid (fun f => { f with live := false }))) := by
  have h1 : FrameR s { s with pool := pool } := FrameR.same rfl rfl rfl (fun c hc => ⟨c, hc, rfl⟩)
  have h2 := frameR_modFile { s with pool := pool } sid (fun f => { f with live := false })
    (by intro _ h; exact absurd h (by simp)) (by intro _; rfl)
  exact (h1.trans h2).trans (frame_gc _).r

theorem frameL_finalize (s : State) (sid : Nat) : FrameL s (Do.finalize s sid) := by
  unfold Do.finalize
  split
  · exact FrameL.refl s
  · split
    · exact FrameL.refl s
    · split
      · exact (frame_fail s _).l
      · split
        · exact (frame_fail s _).l
        · exact frameL_finalize_aux s sid _

theorem frameR_finalize (s : State) (sid : Nat) : FrameR s (Do.finalize s sid) := by
  unfold Do.finalize
  split
  · exact FrameR.refl s
  · split
    · exact FrameR.refl s
    · split
      · exact (frame_fail s _).r
      · split
        · exact (frame_fail s _).r
        · exact frameR_finalize_aux s sid _

/-- the state of `finalize` before garbage collection -/
theorem invP_finalize_aux (s : State) (sid : Nat) (f : OFile) (e : PoolEnt) (hs : InvS s) (h : InvP s)
    (hgf : s.getFile sid = some f) (hlv : f.live = true) (hgp : s.getPool f.file = some e) :
    InvP (State.modFile
      { s with
        pool :=
          if e.useCount = 1 then s.pool.filter (fun e : PoolEnt => e.file != f.file)
          else s.pool.map (fun e : PoolEnt =>
            if e.file == f.file then { e with useCount := e.useCount - 1 } else e) }
      sid (fun f => { f with live := false })) := by
  obtain ⟨hfm, hfs⟩ := getFile_some hgf
  obtain ⟨hem, hef⟩ := getPool_some hgp
  have hecnt := h.poolCount e hem
  rw [hef] at hecnt
  -- the number of live records on `f.file` drops by one, the others are unchanged
  have hlive : ∀ (pool : List PoolEnt) (file : Nat),
      liveOn ({ s with pool := pool }.modFile sid (fun f => { f with live := false })) file
        + (if f.file = file then 1 else 0) = liveOn s file := by
    intro pool file
    have := countP_modify (fun x => x.live && x.file == file) (fun f => { f with live := false }) sid
      s.files hs.sidNodup f hfm hfs
    unfold liveOn State.modFile
    by_cases e : f.file = file
    · simp only [hlv, e, beq_self_eq_true, Bool.and_self, if_true, Bool.false_and, Bool.false_eq_true,
        if_false, Nat.add_zero] at this
      simpa [e] using this
    · simp only [hlv, e, Bool.true_and, beq_iff_eq, if_false, Bool.false_and, Bool.false_eq_true,
        Nat.add_zero] at this
      simpa [e] using this
  -- live records of the new state are live records of the old one with another state ID
  have hold : ∀ (pool : List PoolEnt),
      ∀ f' ∈ ({ s with pool := pool }.modFile sid (fun f => { f with live := false })).files,
      f'.live = true → f' ∈ s.files := by
    intro pool f' hf' hl'
    obtain ⟨f0, hf0, ⟨_, e⟩ | ⟨_, e⟩⟩ := mem_modFile hf'
    · exact e ▸ hf0
    · rw [e] at hl'; cases hl'
  by_cases h1 : e.useCount = 1
  · simp only [h1, if_true]
    have h0 : liveOn ({ s with pool := s.pool.filter (fun e => e.file != f.file) }.modFile sid
        (fun f => { f with live := false })) f.file = 0 := by
      have := hlive (s.pool.filter (fun e => e.file != f.file)) f.file
      simp only [if_true] at this
      omega
    refine ⟨h.poolNodup.sublist (List.filter_sublist.map _), ?_, ?_⟩
    · intro e' he'
      obtain ⟨he'm, hne'⟩ := List.mem_filter.1 he'
      have hne'' : f.file ≠ e'.file := by
        intro e; simp [e] at hne'
      have := hlive (s.pool.filter (fun e => e.file != f.file)) e'.file
      rw [if_neg hne''] at this
      have := h.poolCount e' he'm
      omega
    · intro f' hf' hl'
      obtain ⟨e', he', e1⟩ := h.poolHas f' (hold _ f' hf' hl') hl'
      refine ⟨e', List.mem_filter.2 ⟨he', ?_⟩, e1⟩
      have : f'.file ≠ f.file := by
        intro e2
        have hpos : 0 < liveOn ({ s with pool := s.pool.filter (fun e => e.file != f.file) }.modFile sid
            (fun f => { f with live := false })) f.file := by
          unfold liveOn
          rw [List.countP_pos_iff]
          exact ⟨f', hf', by simp [hl', e2]⟩
        omega
      simp [e1, this]
  · simp only [h1, if_false]
    have hfl : (s.pool.map (fun e => if e.file == f.file then { e with useCount := e.useCount - 1 } else e)).map
        (·.file) = s.pool.map (·.file) := by
      rw [List.map_map]
      apply List.map_congr_left
      intro e _
      simp only [Function.comp]
      split <;> rfl
    refine ⟨by show (List.map _ (List.map _ s.pool)).Nodup; rw [hfl]; exact h.poolNodup, ?_, ?_⟩
    · intro e' he'
      obtain ⟨e0, he0, rfl⟩ := List.mem_map.1 he'
      have hc0 := h.poolCount e0 he0
      by_cases hef0 : e0.file = f.file
      · have := hlive (s.pool.map (fun e => if e.file == f.file then { e with useCount := e.useCount - 1 } else e))
          f.file
        simp only [if_true] at this
        simp only [hef0, beq_self_eq_true, if_true]
        rw [hef0] at hc0
        omega
      · have hef0' : (e0.file == f.file) = false := by simp [hef0]
        have := hlive (s.pool.map (fun e => if e.file == f.file then { e with useCount := e.useCount - 1 } else e))
          e0.file
        rw [if_neg (fun e => hef0 e.symm)] at this
        simp only [hef0', Bool.false_eq_true, if_false]
        omega
    · intro f' hf' hl'
      obtain ⟨e', he', e1⟩ := h.poolHas f' (hold _ f' hf' hl') hl'
      have : f'.file ∈ s.pool.map (·.file) := List.mem_map.2 ⟨e', he', e1⟩
      rw [← hfl] at this
      exact List.mem_map.1 this

theorem invP_finalize (s : State) (sid : Nat) (hs : InvS s) (h : InvP s) : InvP (Do.finalize s sid) := by
  unfold Do.finalize
  split
  · exact h
  · rename_i f hgf
    split
    · exact h
    · rename_i hg
      have hlv : f.live = true := by
        cases hl : f.live
        · simp [hl] at hg
        · rfl
      split
      · exact (frame_fail s _).p.inv h
      · rename_i e hgp
        split
        · exact (frame_fail s _).p.inv h
        · exact (frame_gc _).p.inv (invP_finalize_aux s sid f e hs h hgf hlv hgp)

/-! ## Initial state -/

theorem invP_init (ver n : Nat) : InvP (BbRe.NfsState.init ver n) := by
  refine ⟨List.nodup_nil, ?_, ?_⟩ <;> intro _ hx <;> cases hx

theorem invL_init (ver n : Nat) : InvL (BbRe.NfsState.init ver n) := by
  refine ⟨List.nodup_nil, List.nodup_nil, ?_, ?_, ?_⟩ <;> intro _ hx <;> cases hx

theorem invR_init (ver n : Nat) : InvR (BbRe.NfsState.init ver n) := by
  refine ⟨?_, ?_, ?_⟩ <;> intro _ hx <;> cases hx

/-! ## Every core action -/

/-- the 24 actions that are frames for all three groups -/
theorem frame_apply_common (s : State) (a : Act)
    (ha : match a with
      | .dropClient _ | .ooSet _ | .loRegister _ _ | .loPrune _ | .openNew _ _ _ | .addLofs _ _
      | .finalize _ => False
      | _ => True) :
    Frame s (apply s a) := by
  unfold apply
  split
  · exact Frame.refl s
  · cases a with
    | tick d => exact frame_tick s d
    | setNow => exact frame_setNow s
    | newClient long ver => exact frame_newClient s long ver
    | touch cl => exact frame_touch s cl
    | confirmClient cl => exact frame_confirmClient s cl
    | dropClient cl => exact ha.elim
    | addSession cl k => exact frame_addSession s cl k
    | delSession cl k => exact frame_delSession s cl k
    | holdBegin tag cl => exact frame_holdBegin s tag cl
    | holdEnd tag => exact frame_holdEnd s tag
    | ooSet oo => exact ha.elim
    | ooDel cl key => exact frame_ooDel s cl key
    | loRegister cl key => exact ha.elim
    | loPrune id => exact ha.elim
    | loSet id lastSeq resp => exact frame_loSet s id lastSeq resp
    | vopen tag leaf m create trunc => exact frame_vopen s tag leaf m create trunc
    | tempClose tag => exact frame_tempClose s tag
    | tempToPend tag => exact frame_tempToPend s tag
    | openNew tag cl owner => exact ha.elim
    | openUpgrade tag sid => exact frame_openUpgrade s tag sid
    | downgradeOpen sid new => exact frame_downgradeOpen s sid new
    | addLofs sid lo => exact ha.elim
    | removeLofs sid lsid => exact frame_removeLofs s sid lsid
    | unlockAllLofs sid lsid => exact frame_unlockAllLofs s sid lsid
    | lockSet sid lsid lk => exact frame_lockSet s sid lsid lk
    | finalize sid => exact ha.elim
    | ioBegin tag sid m holds => exact frame_ioBegin s tag sid m holds
    | ioEnd tag => exact frame_ioEnd s tag
    | flush => exact frame_flush s
    | setCur tag => exact frame_setCur s tag
    | proto p => exact frame_setProto s p

theorem invP_apply (s : State) (a : Act) (hs : InvS s) (h : InvP s) : InvP (apply s a) := by
  cases a with
  | dropClient cl => unfold apply; split; exact h; exact (frameP_dropClient s cl).inv h
  | ooSet oo => unfold apply; split; exact h; exact (frameP_ooSet s oo).inv h
  | loRegister cl key => unfold apply; split; exact h; exact (frameP_loRegister s cl key).inv h
  | loPrune id => unfold apply; split; exact h; exact (frameP_loPrune s id).inv h
  | openNew tag cl owner => unfold apply; split; exact h; exact invP_openNew s tag cl owner h
  | addLofs sid lo => unfold apply; split; exact h; exact (frameP_addLofs s sid lo).inv h
  | finalize sid => unfold apply; split; exact h; exact invP_finalize s sid hs h
  | _ => exact (frame_apply_common s _ trivial).p.inv h

/-- `InvS` is needed for `addLofs` only: the lock-owner file is added to the record found by
state ID, the guards are evaluated on that record. -/
theorem invL_apply (s : State) (a : Act) (hs : InvS s) (h : InvL s) : InvL (apply s a) := by
  cases a with
  | dropClient cl => unfold apply; split; exact h; exact (frameL_dropClient s cl).inv h
  | ooSet oo => unfold apply; split; exact h; exact (frameL_ooSet s oo).inv h
  | loRegister cl key => unfold apply; split; exact h; exact invL_loRegister s cl key h
  | loPrune id => unfold apply; split; exact h; exact invL_loPrune s id h
  | openNew tag cl owner => unfold apply; split; exact h; exact (frameL_openNew s tag cl owner).inv h
  | addLofs sid lo => unfold apply; split; exact h; exact invL_addLofs s sid lo hs h
  | finalize sid => unfold apply; split; exact h; exact (frameL_finalize s sid).inv h
  | _ => exact (frame_apply_common s _ trivial).l.inv h

theorem invR_apply (s : State) (a : Act) (h : InvR s) : InvR (apply s a) := by
  cases a with
  | dropClient cl => unfold apply; split; exact h; exact invR_dropClient s cl h
  | ooSet oo => unfold apply; split; exact h; exact invR_ooSet s oo h
  | loRegister cl key => unfold apply; split; exact h; exact invR_loRegister s cl key h
  | loPrune id => unfold apply; split; exact h; exact (frameR_loPrune s id).inv h
  | openNew tag cl owner => unfold apply; split; exact h; exact invR_openNew s tag cl owner h
  | addLofs sid lo => unfold apply; split; exact h; exact (frameR_addLofs s sid lo).inv h
  | finalize sid => unfold apply; split; exact h; exact (frameR_finalize s sid).inv h
  | _ => exact (frame_apply_common s _ trivial).r.inv h

end BbRe.Lemmas.NfsInvPLR
