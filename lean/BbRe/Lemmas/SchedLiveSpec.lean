import BbRe.Lemmas.SchedLiveProj
/-!
Inversion lemmas: if a monadic helper of `Model/Sched.lean` succeeds then its
guards held and its result is a named composition of primitive updates.
-/
namespace BbRe.Lemmas.SchedLive
open BbRe.Sched

theorem assignTo_ok {s s' : State} {w : Worker} {t : Task} :
    assignTo s w t = .ok s' ↔ w.task = none ∧ t.worker = none ∧ s' = assignS s w t := by
  unfold assignTo
  simp only [bind, Except.bind, pure, Except.pure]
  cases hw : w.task <;> cases ht : t.worker <;> simp
  exact ⟨fun h => h ▸ rfl, fun h => h ▸ rfl⟩

theorem schedule_ok {h : Hints} {s s' : State} {tid : Nat} (hh : schedule h s tid = .ok s') :
    ∃ t, s.task? tid = some t ∧
      ((anyParked s t.scq = false ∧ s' = s.setTask { t with queued := true }) ∨
       (anyParked s t.scq = true ∧ ∃ w w1, hintedWorker h s t = some w ∧ w.parked = true ∧
          (wakeWorker s w).worker? w.scq w.id = some w1 ∧ w1.task = none ∧ t.worker = none ∧
          s' = assignS (wakeWorker s w) w1 t)) := by
  unfold schedule at hh
  paths hh
  all_goals simp_all [assignTo_ok]

/-! ### `complete` -/

/-- the response is a success (status OK and exit code 0) -/
abbrev isSucc (r : Resp) : Prop := r.code = cOK ∧ r.exit = 0

theorem completeSucc_ok {h : Hints} {s s' : State} {t : Task} {l : Nat} {r : Resp}
    (hh : completeSucc h s t l r = .ok s') :
    ∃ ev, isClientEv ev = false ∧
    (s' = succS s t ev r ∨
     (∃ ev', isClientEv ev' = false ∧ s' = emit (bumpLearner (succS s t ev r)) ev') ∨
     (∃ bq pq, schedule h (bgState (bumpLearner (succS s t ev r)) { t with learner := none } bq (succS s t ev r).nextLearner pq)
        (succS s t ev r).nextTask = .ok s' ∧ bq.pq = t.scq.pq)) := by
  unfold completeSucc at hh
  simp only [pure, Except.pure] at hh
  repeat' split at hh
  all_goals first
    | (simp at hh; done)
    | (injection hh with hh; exact ⟨_, rfl, .inl hh.symm⟩)
    | (injection hh with hh; exact ⟨_, rfl, .inr (.inl ⟨_, rfl, hh.symm⟩)⟩)
    | exact ⟨_, rfl, .inr (.inr ⟨_, _, hh, rfl⟩)⟩

theorem completeRetry_ok {h : Hints} {s s' : State} {t : Task} {l : Nat} {r : Resp}
    (hh : completeRetry h s t l r = .ok s') :
    ∃ s2 t2, schedule h ((retryS s l r).setTask (retryT s t l r)) t.id = .ok s2 ∧
      s2.task? t.id = some t2 ∧ s' = s2.setTask (bumpGen t2) := by
  unfold completeRetry at hh
  simp only [bind_ok] at hh
  obtain ⟨s2, h1, h2⟩ := hh
  paths h2
  exact ⟨s2, _, h1, by assumption, by simp_all⟩

/-- The five ways `complete` can succeed. -/
theorem complete_ok {h : Hints} {s s' : State} {tid : Nat} {r : Resp} {bw : Bool}
    (hh : complete h s tid r bw = .ok s') :
    ∃ t, s.task? tid = some t ∧
      ((t.response.isSome = true ∧ s' = s) ∨
       (t.response = none ∧ ∃ l, t.learner = some l ∧
         ((isSucc r ∧ completeSucc h (detachW s t) (detachT t) l r = .ok s') ∨
          (¬ isSucc r ∧ bw = true ∧ h.retry = true ∧ completeRetry h (detachW s t) (detachT t) l r = .ok s') ∨
          (¬ isSucc r ∧ (bw = false ∨ h.retry = false) ∧
            ∃ ev, isClientEv ev = false ∧ s' = succS (detachW s t) (detachT t) ev r)))) := by
  rw [complete_eq] at hh
  paths hh
  · exact ⟨_, by assumption, .inl ⟨by assumption, by simp_all⟩⟩
  · refine ⟨_, by assumption, .inr ⟨by simp_all, _, by assumption, .inl ⟨by assumption, hh⟩⟩⟩
  · refine ⟨_, by assumption, .inr ⟨by simp_all, _, by assumption, .inr (.inl ⟨by assumption, by assumption, by assumption, hh⟩)⟩⟩
  · injection hh with hh
    refine ⟨_, by assumption, .inr ⟨by simp_all, _, by assumption, .inr (.inr ⟨by assumption, .inr (by simp_all), _, rfl, hh.symm⟩)⟩⟩
  · injection hh with hh
    refine ⟨_, by assumption, .inr ⟨by simp_all, _, by assumption, .inr (.inr ⟨by assumption, .inl (by simp_all), _, rfl, hh.symm⟩)⟩⟩

/-! ### cleanup callbacks -/

theorem removeOp_ok {h : Hints} {s s' : State} {o : Nat} (hh : removeOp h s o = .ok s') :
    (s.op? o = none ∧ s' = s) ∨
    ∃ op t s1 t1, s.op? o = some op ∧ s.task? op.task = some t ∧
      ((t.ops.length = 1 ∧ complete h (eraseOp s o) t.id ⟨cCanceled, 0, 0, .noWaiters⟩ false = .ok s1) ∨
       (t.ops.length ≠ 1 ∧ s1 = eraseOp s o)) ∧
      s1.task? op.task = some t1 ∧ s' = dropOpT s1 t1 o := by
  cases hq : s.op? o with
  | none =>
    unfold removeOp at hh
    simp only [hq, pure, Except.pure] at hh
    injection hh with hh; exact .inl ⟨rfl, hh.symm⟩
  | some op =>
  unfold removeOp at hh
  simp only [hq] at hh
  paths hh
  all_goals (try (injection ‹some _ = some _› with e; subst e))
  all_goals injection hh with hh
  all_goals first
    | exact .inr ⟨_, _, _, _, rfl, by assumption, .inl ⟨by assumption, by assumption⟩, by assumption,
        by unfold dropOpT; rw [if_pos (by assumption)]; exact hh.symm⟩
    | exact .inr ⟨_, _, _, _, rfl, by assumption, .inl ⟨by assumption, by assumption⟩, by assumption,
        by unfold dropOpT; rw [if_neg (by assumption)]; exact hh.symm⟩
    | exact .inr ⟨_, _, _, _, rfl, by assumption, .inr ⟨by assumption, rfl⟩, by assumption,
        by unfold dropOpT; rw [if_pos (by assumption)]; exact hh.symm⟩
    | exact .inr ⟨_, _, _, _, rfl, by assumption, .inr ⟨by assumption, rfl⟩, by assumption,
        by unfold dropOpT; rw [if_neg (by assumption)]; exact hh.symm⟩

/-- Induction principle for `List.foldlM` in `M`: a relation that is reflexive, transitive and holds
for every successful iteration holds for the fold. -/
theorem foldlM_rel {α} (R : State → State → Prop) (hrefl : ∀ s, R s s)
    (htrans : ∀ a b c, R a b → R b c → R a c) (f : State → α → M State)
    (hstep : ∀ s a s', f s a = .ok s' → R s s') :
    ∀ (l : List α) (s s' : State), l.foldlM f s = .ok s' → R s s' := by
  intro l
  induction l with
  | nil => intro s s' h; simp [List.foldlM, pure, Except.pure] at h; exact h ▸ hrefl s
  | cons a r ih =>
    intro s s' h
    simp only [List.foldlM, bind_ok] at h
    obtain ⟨s1, h1, h2⟩ := h
    exact htrans _ _ _ (hstep _ _ _ h1) (ih _ _ h2)

/-- Invariant version. -/
theorem foldlM_inv {α} (I : State → Prop) (f : State → α → M State)
    (hstep : ∀ s a s', I s → f s a = .ok s' → I s') :
    ∀ (l : List α) (s s' : State), I s → l.foldlM f s = .ok s' → I s' := by
  intro l
  induction l with
  | nil => intro s s' hi h; simp [List.foldlM, pure, Except.pure] at h; exact h ▸ hi
  | cons a r ih =>
    intro s s' hi h
    simp only [List.foldlM, bind_ok] at h
    obtain ⟨s1, h1, h2⟩ := h
    exact ih _ _ (hstep _ _ _ hi h1) h2

theorem cancelAllQueued_rel (R : State → State → Prop) (hrefl : ∀ s, R s s)
    (htrans : ∀ a b c, R a b → R b c → R a c) {h : Hints} {r : Resp}
    (hstep : ∀ s t s', complete h s t r false = .ok s' → R s s')
    {s s' : State} {q : ScqId} (hh : cancelAllQueued h s q r = .ok s') : R s s' := by
  unfold cancelAllQueued at hh
  exact foldlM_rel R hrefl htrans _ hstep _ _ _ hh

theorem cancelAllQueued_inv (I : State → Prop) {h : Hints} {r : Resp}
    (hstep : ∀ s t s', I s → complete h s t r false = .ok s' → I s')
    {s s' : State} {q : ScqId} (hi : I s) (hh : cancelAllQueued h s q r = .ok s') : I s' := by
  unfold cancelAllQueued at hh
  exact foldlM_inv I _ hstep _ _ _ hi hh

theorem removeScq_ok {h : Hints} {s s' : State} {q : ScqId} (hh : removeScq h s q = .ok s') :
    ∃ s1, cancelAllQueued h s q ⟨cUnavailable, 0, 0, .queueRemoved⟩ = .ok s1 ∧ s' = dropScq s1 q := by
  unfold removeScq at hh
  simp only [bind_ok] at hh
  obtain ⟨s1, h1, h2⟩ := hh
  refine ⟨s1, h1, ?_⟩
  unfold dropScq
  paths h2
  · injection h2 with h2; rw [if_pos (by assumption)]; exact h2.symm
  · injection h2 with h2; rw [if_neg (by assumption)]; exact h2.symm

theorem removeStaleWorker_ok {h : Hints} {s s' : State} {q : ScqId} {w : WId} {rt : Nat}
    (hh : removeStaleWorker h s q w rt = .ok s') :
    (s.worker? q w = none ∧ s' = s) ∨
    ∃ wk s1, s.worker? q w = some wk ∧
      ((∃ t, wk.task = some t ∧ complete h s t ⟨cUnavailable, 0, 0, .workerDisappeared⟩ false = .ok s1) ∨
       (wk.task = none ∧ s1 = s)) ∧
      s' = dropWorker s1 q w rt := by
  cases hq : s.worker? q w with
  | none =>
    unfold removeStaleWorker at hh
    simp only [hq, pure, Except.pure] at hh
    injection hh with hh; exact .inl ⟨rfl, hh.symm⟩
  | some wk =>
    unfold removeStaleWorker at hh
    simp only [hq] at hh
    cases ht : wk.task with
    | none =>
      simp only [ht, bind_ok, pure_ok] at hh
      obtain ⟨s1, h1, h2⟩ := hh
      subst h1
      refine .inr ⟨wk, s, rfl, .inr ⟨ht, rfl⟩, ?_⟩
      unfold dropWorker filterWorkers
      split
      · rename_i sq hsq
        simp only [hsq] at h2
        split
        · rw [if_pos (by assumption), pure_ok] at h2; exact h2.symm
        · rw [if_neg (by assumption), pure_ok] at h2; exact h2.symm
      · rename_i hsq
        simp only [hsq, pure_ok] at h2; exact h2.symm
    | some t =>
      simp only [ht, bind_ok] at hh
      obtain ⟨s1, h1, h2⟩ := hh
      refine .inr ⟨wk, s1, rfl, .inl ⟨t, ht, h1⟩, ?_⟩
      unfold dropWorker filterWorkers
      split
      · rename_i sq hsq
        simp only [hsq] at h2
        split
        · rw [if_pos (by assumption), pure_ok] at h2; exact h2.symm
        · rw [if_neg (by assumption), pure_ok] at h2; exact h2.symm
      · rename_i hsq
        simp only [hsq, pure_ok] at h2; exact h2.symm

/-- Relational induction over `runCleanup`. -/
theorem runCleanup_rel (R : State → State → Prop) (hrefl : ∀ s, R s s)
    (htrans : ∀ a b c, R a b → R b c → R a c) {h : Hints}
    (hpop : ∀ s e rest, popDue s.now s.cleanup = some (e, rest) → R s (setCleanup s rest))
    (hcb : ∀ s e s', callback h s e = .ok s' → R s s') :
    ∀ (f : Nat) (s s' : State), runCleanup h f s = .ok s' → R s s' := by
  intro f
  induction f with
  | zero => intro s s' hh; rw [runCleanup_zero, pure_ok] at hh; exact hh ▸ hrefl s
  | succ f ih =>
    intro s s' hh
    rw [runCleanup_succ] at hh
    split at hh
    · rw [pure_ok] at hh; exact hh ▸ hrefl s
    · rename_i e rest hp
      rw [bind_ok] at hh
      obtain ⟨s1, h1, h2⟩ := hh
      exact htrans _ _ _ (hpop _ _ _ hp) (htrans _ _ _ (hcb _ _ _ h1) (ih _ _ h2))

/-- Invariant induction over `runCleanup`; the callback step may use the popped entry. -/
theorem runCleanup_inv (I : State → Prop) {h : Hints}
    (hcb : ∀ s e rest s', I s → popDue s.now s.cleanup = some (e, rest) →
      callback h (setCleanup s rest) e = .ok s' → I s') :
    ∀ (f : Nat) (s s' : State), I s → runCleanup h f s = .ok s' → I s' := by
  intro f
  induction f with
  | zero => intro s s' hi hh; rw [runCleanup_zero, pure_ok] at hh; exact hh ▸ hi
  | succ f ih =>
    intro s s' hi hh
    rw [runCleanup_succ] at hh
    split at hh
    · rw [pure_ok] at hh; exact hh ▸ hi
    · rename_i e rest hp
      rw [bind_ok] at hh
      obtain ⟨s1, h1, h2⟩ := hh
      exact ih _ _ (hcb _ _ _ _ hi hp h1) h2

theorem enter_ok {h : Hints} {s s' : State} {t : Nat} (hh : enter h s t = .ok s') :
    (t ≤ s.now ∧ s' = s) ∨ (s.now < t ∧ runCleanup h (cleanupFuel s) (setNow s t) = .ok s') := by
  unfold enter at hh
  split at hh
  · exact .inr ⟨by omega, hh⟩
  · rw [pure_ok] at hh; exact .inl ⟨by omega, hh.symm⟩

end BbRe.Lemmas.SchedLive
