import BbRe.Lemmas.SchedTreePrioFixUpd
import BbRe.Lemmas.SchedTreePrioFn
/-!
`FixInv` at the level of the tree layer's functions (`tAssignTo` … `tEnter`).  Besides the side conditions of
`PrioOK` (`setOX` / `dropOX` only for operations in no `queuedOperations`), `task.schedule` needs the invocations
of the task's operations to exist: at every call they were created just before.
-/
namespace BbRe.Lemmas.SchedTree
open BbRe.Sched BbRe.SchedTree BbRe.Lemmas.SchedInv

/-! ### `assignUnqueuedTask`, `schedule`, `complete` -/

theorem tAssignTo_fix {ts ts' : TState} {w : Worker} {t : Task} {r : Nat} (hp : FixInv ts)
    (hh : tAssignTo ts w t r = .ok ts') : FixInv ts' := by
  unfold tAssignTo at hh
  tpaths hh
  cases hh
  fixi

theorem tSchedule_fix {h : Hints} {ts ts' : TState} {tid : Nat} (hp : FixInv ts)
    (hex : ∀ t, ts.s.task? tid = some t → ∀ o ∈ t.ops, PathEx ts.nodes t.scq (ts.invOf o))
    (hh : tSchedule h ts tid = .ok ts') : FixInv ts' := by
  unfold tSchedule at hh
  tpaths hh
  · exact tAssignTo_fix (FixInv.tWake _ (hp.log (d := .handoff _ _ _ _ _) trivial)) hh
  · cases hh
    exact FixInv.setS _ (hp.enqOps _ (hex _ (by assumption)))

theorem invOf_setOX (ts : TState) (o : Nat) (y : OX) : (ts.setOX o y).invOf o = y.inv := by
  show (match alookup o (aset o y ts.ox) with | some x => x.inv | none => []) = y.inv
  rw [alookup_aset, if_pos rfl]

theorem createOps_pathEx (ts : TState) (t : Task) : ∀ o ∈ t.ops, PathEx (ts.createOps t).nodes t.scq (ts.invOf o) := by
  show ∀ o ∈ t.ops, PathEx (t.ops.foldl (fun ns o => getOrCreate ns t.scq (ts.invOf o) ts.s.now) ts.nodes) t.scq (ts.invOf o)
  generalize ts.nodes = ns
  induction t.ops generalizing ns with
  | nil => intro o ho; cases ho
  | cons a r ih =>
    intro o ho
    rw [List.foldl_cons]
    rcases List.mem_cons.mp ho with e | e
    · subst e
      have h0 := getOrCreate_pathEx ns t.scq (ts.invOf o) ts.s.now
      generalize getOrCreate ns t.scq (ts.invOf o) ts.s.now = ns1 at h0
      clear ih ho
      induction r generalizing ns1 with
      | nil => exact h0
      | cons b r' ih' => rw [List.foldl_cons]; exact ih' _ (h0.getOrCreate _ _ _)
    · exact ih _ o e

theorem tCompleteSucc_fix {h : Hints} {x : Extras} {ts ts' : TState} {t : Task} {l : Nat} {r : Resp}
    (hp : FixInv ts) (hq : QB ts.s.nextOp ts) (hh : tCompleteSucc h x ts t l r = .ok ts') : FixInv ts' := by
  unfold tCompleteSucc at hh
  tpaths hh
  · cases hh; fixi
  · cases hh; fixi
  · cases hh; fixi
  · have e := finalize_nextOp (by assumption)
    simp only [emit_nextOp] at e
    refine tSchedule_fix ?_ ?_ hh
    · refine FixInv.setS _ (FixInv.setTX _ _ (FixInv.setOX _ (by fixi) ?_))
      show ∀ n ∈ (ts.create _ _).nodes, _ ∉ n.qops
      rw [e]
      exact (hq.create _ _).notin
    · intro t' ht' o ho
      simp only [setS_s, task?_def, State.setOp, State.setTask, alookup_aset, if_true, Option.some.injEq] at ht'
      subst ht'
      simp only [List.mem_singleton] at ho
      subst ho
      show PathEx (ts.create _ _).nodes _ (TState.invOf (TState.setOX _ _ _) _)
      rw [invOf_setOX]
      exact getOrCreate_pathEx _ _ _ _

theorem tCompleteRetry_fix {h : Hints} {x : Extras} {ts ts' : TState} {t : Task} {l : Nat} {r : Resp}
    (hp : FixInv ts) (hh : tCompleteRetry h x ts t l r = .ok ts') : FixInv ts' := by
  unfold tCompleteRetry at hh
  tpaths hh
  rename_i v hs _ t1 ht1
  cases hh
  refine FixInv.setS _ (tSchedule_fix (by fixi) ?_ hs)
  intro t' ht' o ho
  simp only [createOps_s, setS_s, task?_def, State.setTask, alookup_aset, if_true, Option.some.injEq] at ht'
  subst ht'
  exact createOps_pathEx _ _ o ho

theorem tComplete_fix {h : Hints} {x : Extras} {ts ts' : TState} {tid : Nat} {r : Resp} {bw : Bool}
    (hp : FixInv ts) (hq : QB ts.s.nextOp ts) (hh : tComplete h x ts tid r bw = .ok ts') : FixInv ts' := by
  unfold tComplete at hh
  tpaths hh
  · cases hh; exact hp
  · refine tCompleteSucc_fix (by fixi) ?_ hh
    show QB (BbRe.SchedTree.detachW ts.s _).nextOp _
    rw [detachW_nextOp]
    exact (hq.detachTree _ _).setS _
  · exact tCompleteRetry_fix (by fixi) hh
  · cases hh; fixi
  · cases hh; fixi

/-! ### `operation.remove` -/

theorem tRemoveOpRest_fix {exo} {h : Hints} {x : Extras} {ts0 ts' : TState} {op : Op} {o : Nat}
    (hT0 : TInvX (fun _ => False) exo [] ts0) (hoid : OID ts0.s) (hno : ts0.s.op? o = none) (hI' : TInv ts')
    (hp : FixInv ts0) (hh : tRemoveOpRest h x ts0 op o = .ok ts') : FixInv ts' := by
  unfold tRemoveOpRest at hh
  tpaths hh
  · rename_i v hc _ _ _ _
    have hpv := tComplete_fix hp (qb_of_tinvx hT0) hc
    have hnv : v.s.op? o = none :=
      ((tComplete_tinv hT0 hoid hc).2.2 (by simp [cCanceled, cOK]) (Or.inl rfl)).ops o hno
    cases hh
    exact FixInv.setS _ (FixInv.dropTX _ (FixInv.dropOX hpv (notin_of_noop hI' hnv)))
  · rename_i v hc _ _ _ _
    have hpv := tComplete_fix hp (qb_of_tinvx hT0) hc
    have hnv : v.s.op? o = none :=
      ((tComplete_tinv hT0 hoid hc).2.2 (by simp [cCanceled, cOK]) (Or.inl rfl)).ops o hno
    cases hh
    exact FixInv.setS _ (FixInv.dropOX hpv (notin_of_noop hI' hnv))
  · cases hh
    exact FixInv.setS _ (FixInv.dropTX _ (FixInv.dropOX (by fixi) (notin_of_noop hI' (by simpa using hno))))
  · cases hh
    exact FixInv.setS _ (FixInv.dropOX (by fixi) (notin_of_noop hI' (by simpa using hno)))

theorem tRemoveOp_fix {h : Hints} {x : Extras} {ts ts' : TState} {o : Nat} (hI : TInv ts) (hI' : TInv ts')
    (hp : FixInv ts) (hh : tRemoveOp h x ts o = .ok ts') : FixInv ts' := by
  rw [tRemoveOp_eq] at hh
  split at hh
  · rename_i op hop
    rw [op?_def] at hop
    have hnd := hI.inv.oinv.ond
    refine tRemoveOpRest_fix (exo := fun _ => False)
      (hI.x.frame (eraseOp_sframe ts.s o hnd) rfl rfl) ?_ ?_ hI' (by fixi) hh
    · intro k op' hk
      have hk' : alookup k (aerase o ts.s.ops) = some op' := hk
      rw [alookup_aerase _ _ _ hnd] at hk'
      split at hk'
      · cases hk'
      · exact (hI.inv.oinv.oid k op' hk').1
    · show alookup o (aerase o ts.s.ops) = none
      exact alookup_aerase_self o ts.s.ops hnd
  · cases hh; exact hp

/-! ### `cancelAllQueuedOperations`, `sizeClassQueue.remove`, `removeStaleWorker` -/

theorem foldl_complete_fix {exo} {h : Hints} {x : Extras} {r : Resp} (ids : List Nat) :
    ∀ {ts ts' : TState}, TInvX (fun _ => False) exo [] ts → OID ts.s → FixInv ts →
      ids.foldlM (fun ts t => tComplete h x ts t r false) ts = .ok ts' → FixInv ts' := by
  induction ids with
  | nil => intro ts ts' _ _ hp hh; cases hh; exact hp
  | cons a rest ih =>
    intro ts ts' hT ho hp hh
    rw [List.foldlM_cons] at hh
    simp only [bind, Except.bind] at hh
    split at hh
    · cases hh
    rename_i ts1 h1
    obtain ⟨hT1, ho1, _⟩ := tComplete_tinv hT ho h1
    exact ih hT1 ho1 (tComplete_fix hp (qb_of_tinvx hT) h1) hh

theorem tCancelAllQueued_fix {h : Hints} {x : Extras} {ts ts' : TState} {q : ScqId} {r : Resp} (hI : TInv ts)
    (hp : FixInv ts) (hh : tCancelAllQueued h x ts q r = .ok ts') : FixInv ts' := by
  unfold tCancelAllQueued at hh
  exact foldl_complete_fix _ hI.x (OID.of_inv hI.inv) hp hh

theorem tRemoveScq_fix {h : Hints} {x : Extras} {ts ts' : TState} {q : ScqId} (hI : TInv ts) (hp : FixInv ts)
    (hh : tRemoveScq h x ts q = .ok ts') : FixInv ts' := by
  unfold tRemoveScq at hh
  tpaths hh
  all_goals (
    have h1 := tCancelAllQueued_fix hI hp (by assumption)
    cases hh
    fixi)

theorem tRemoveStaleWorker_fix {h : Hints} {x : Extras} {ts ts' : TState} {q : ScqId} {w : WId} {rt : Nat}
    (hI : TInv ts) (hp : FixInv ts) (hh : tRemoveStaleWorker h x ts q w rt = .ok ts') : FixInv ts' := by
  unfold tRemoveStaleWorker at hh
  tpaths hh
  all_goals first
    | (have h1 := tComplete_fix hp (qb_of_tinv hI) (by assumption); cases hh; fixi)
    | (cases hh; fixi)

/-! ### `cleanupQueue.run`, `bq.enter` -/

theorem tRunCleanup_fix {h : Hints} {x : Extras} : ∀ (fuel : Nat) {ts ts' : TState}, TInv ts → FixInv ts →
    tRunCleanup h x fuel ts = .ok ts' → FixInv ts' := by
  intro fuel
  induction fuel with
  | zero => intro ts ts' _ hp hh; cases hh; exact hp
  | succ n ih =>
    intro ts ts' hI hp hh
    unfold tRunCleanup at hh
    split at hh
    · cases hh; exact hp
    rename_i e rest hpd
    obtain ⟨hmem, hsub⟩ := popDue_some hpd
    have hI0 : Inv { ts.s with cleanup := rest } :=
      ⟨hI.inv.core, hI.inv.oinv, hI.inv.sinv.cleanup_sub hsub, hI.inv.linv⟩
    have hT0 : TInv (ts.setS { ts.s with cleanup := rest }) :=
      TInv.mk' hI0 (hI.ts.sframe (setCleanup_sframe _ _))
    have hp0 : FixInv (ts.setS { ts.s with cleanup := rest }) := hp.setS _
    simp only [bind, Except.bind] at hh
    split at hh
    · rename_i q w hk
      split at hh
      · cases hh
      rename_i ts1 hcb
      exact ih (TInv.mk' (inv_of_ref (tRemoveStaleWorker_ref h x _ q w _) (removeStaleWorker_spec hI0) hcb).1
        (tRemoveStaleWorker_ts hT0 hcb)) (tRemoveStaleWorker_fix hT0 hp0 hcb) hh
    · rename_i o hk
      split at hh
      · cases hh
      rename_i ts1 hcb
      have hI1 : TInv ts1 := by
        refine TInv.mk' (inv_of_ref (tRemoveOp_ref h x _ o) (removeOp_spec hI0 ?_) hcb).1 (tRemoveOp_ts hT0 hcb)
        intro op hop; exact hI.inv.sinv.s2 o op e hop hmem hk
      exact ih hI1 (tRemoveOp_fix hT0 hI1 hp0 hcb) hh
    · rename_i q hk
      split at hh
      · cases hh
      rename_i ts1 hcb
      exact ih (TInv.mk' (inv_of_ref (tRemoveScq_ref h x _ q) (removeScq_spec hI0) hcb).1 (tRemoveScq_ts hT0 hcb))
        (tRemoveScq_fix hT0 hp0 hcb) hh

theorem tEnter_fix {h : Hints} {x : Extras} {ts ts' : TState} {now : Nat} (hI : TInv ts) (hp : FixInv ts)
    (hh : tEnter h x ts now = .ok ts') : FixInv ts' := by
  unfold tEnter at hh
  split at hh
  · refine tRunCleanup_fix _ (TInv.mk' ?_ ?_) (FixInv.setS _ hp) hh
    · exact hI.inv.of_same rfl rfl rfl rfl rfl rfl rfl rfl rfl rfl
    · exact TS.of_scqids hI.ts rfl rfl rfl rfl
  · cases hh; exact hp

end BbRe.Lemmas.SchedTree
