import BbRe.Lemmas.FilePoolState2
import BbRe.Spec.ByteFile
/-!
The abstraction `absFile` from the model's files to `Spec/ByteFile.lean`, and
the step-level refinement lemmas used by `Properties/C15.lean`.
-/
namespace BbRe.Lemmas.FilePool
open BbRe.FilePool BbRe.ByteFile

/-- the file as a byte array. -/
def absFile (ss : Nat) (dev : Array FilePool.Byte) (f : File) : ByteFile := ⟨f.size, content ss dev f⟩

theorem absFile_wf {ss : Nat} {dev : Array FilePool.Byte} {f : File} (h : FileOK ss dev f) : WF (absFile ss dev f) :=
  h.2

theorem list_eq_of_getD (a b : List Nat) (hl : a.length = b.length)
    (h : ∀ j, j < a.length → a.getD j 0 = b.getD j 0) : a = b := by
  apply List.ext_getElem hl
  intro j h1 h2
  have := h j h1
  simp only [List.getD_eq_getElem?_getD, List.getElem?_eq_getElem h1, List.getElem?_eq_getElem h2,
    Option.getD_some] at this
  exact this

theorem byteRead_snd (b : ByteFile) (o n : Nat) :
    (ByteFile.read b o n).2 = decide (n ≠ 0 ∧ b.size ≤ o + n) := by
  unfold ByteFile.read
  by_cases hn : n = 0
  · rw [if_pos hn]; simp [hn]
  · rw [if_neg hn]
    by_cases ho : b.size ≤ o
    · rw [if_pos ho]; simp [hn]; omega
    · rw [if_neg ho]; simp [hn]

theorem byteRead_fst (b : ByteFile) (o n : Nat) :
    (ByteFile.read b o n).1 =
      if n = 0 ∨ b.size ≤ o then [] else (List.range (min n (b.size - o))).map (fun j => b.data (o + j)) := by
  unfold ByteFile.read
  by_cases hn : n = 0
  · rw [if_pos hn, if_pos (Or.inl hn)]
  · rw [if_neg hn]
    by_cases ho : b.size ≤ o
    · rw [if_pos ho, if_pos (Or.inr ho)]
    · rw [if_neg ho, if_neg (by omega)]

theorem readAt_trivial {c : Cfg} {f : File} {e : Env} (o n : Nat) (h : n = 0 ∨ f.size ≤ o) :
    readAt c f e o n = (e, [], if n = 0 then none else some .eof) := by
  have hneg : ¬ ((o : Int) < 0) := by omega
  unfold readAt
  rw [if_neg hneg]
  by_cases hn : n = 0
  · rw [if_pos hn, if_pos hn]
  · rw [if_neg hn, if_neg hn]
    dsimp only
    rw [Int.toNat_natCast, if_pos (by omega)]

/-- `ReadAt` on the model = `ByteFile.read` on the abstraction (no read faults). -/
theorem readAt_refines {c : Cfg} {f : File} {e : Env} (o n : Nat) (hss : 0 < c.ss)
    (hdr : e.faults.dr = none) (hhr : e.faults.hr = none) :
    (readAt c f e o n).2.1 = (ByteFile.read (absFile c.ss e.dev f) o n).1 ∧
      (readAt c f e o n).2.2 = (if (ByteFile.read (absFile c.ss e.dev f) o n).2 then some .eof else none) ∧
      SameAlloc e (readAt c f e o n).1 := by
  rw [byteRead_snd, byteRead_fst]
  have hsz : (absFile c.ss e.dev f).size = f.size := rfl
  rw [hsz]
  refine ⟨?_, ?_, readAt_same _ _ _ _ _⟩
  · by_cases htriv : n = 0 ∨ f.size ≤ o
    · rw [if_pos htriv, readAt_trivial o n htriv]
    · rw [if_neg htriv]
      obtain ⟨_, _, h3, h4⟩ := readAt_content (c := c) (f := f) (e := e) o n hss (by omega) (by omega) hdr hhr
      apply list_eq_of_getD
      · rw [h3]; simp
      · intro j hj
        rw [h3] at hj
        rw [h4 j hj, List.getD_eq_getElem?_getD, List.getElem?_map, List.getElem?_range hj]
        rfl
  · by_cases htriv : n = 0 ∨ f.size ≤ o
    · rw [readAt_trivial o n htriv]
      dsimp only
      by_cases hn : n = 0
      · rw [if_pos hn]; simp [hn]
      · rw [if_neg hn]
        have : n ≠ 0 ∧ f.size ≤ o + n := ⟨hn, by omega⟩
        simp [this]
    · obtain ⟨_, h2, _, _⟩ := readAt_content (c := c) (f := f) (e := e) o n hss (by omega) (by omega) hdr hhr
      rw [h2]
      by_cases hge : o + n ≥ f.size
      · rw [if_pos hge]
        have : n ≠ 0 ∧ f.size ≤ o + n := ⟨by omega, hge⟩
        simp [this]
      · rw [if_neg hge]
        have : ¬ (n ≠ 0 ∧ f.size ≤ o + n) := by omega
        simp [this]

/-- `WriteAt` on the model = `ByteFile.write` of the bytes reported written (every oracle). -/
theorem writeAt_refines {O : Nat → Prop} {c : Cfg} {f : File} {e : Env} (p : List FilePool.Byte) (o : Nat)
    (hss : 0 < c.ss) (hP : Part c.nsec O e.allocd (nz f.sectors)) (hd : e.dfree = false) :
    Eqv (absFile c.ss (writeAt c f e p o).2.1.dev (writeAt c f e p o).1)
      (ByteFile.write (absFile c.ss e.dev f) o (p.take (writeAt c f e p o).2.2.1)) := by
  obtain ⟨hc, hl, hs, _, _, _⟩ := writeAt_content (O := O) (f := f) (e := e) p o hss hP hd
  have hlen : (p.take (writeAt c f e p o).2.2.1).length = (writeAt c f e p o).2.2.1 := by
    rw [List.length_take]; omega
  unfold ByteFile.write
  rw [hlen]
  by_cases hn : (writeAt c f e p o).2.2.1 = 0
  · rw [if_pos hn]
    refine ⟨?_, fun i => ?_⟩
    · show (writeAt c f e p o).1.size = f.size
      rw [hs, if_neg (by omega)]
    · show content c.ss _ _ i = content c.ss e.dev f i
      rw [hc i]; unfold overlay; rw [hlen, if_neg (by omega)]
  · rw [if_neg hn]
    refine ⟨?_, fun i => ?_⟩
    · show (writeAt c f e p o).1.size = max f.size (o + (writeAt c f e p o).2.2.1)
      rw [hs, if_pos (by omega)]
    · show content c.ss _ _ i = _
      rw [hc i]; unfold overlay; rw [hlen]; rfl

/-- a successful `Truncate` on the model = `ByteFile.truncate` on the abstraction. -/
theorem truncate_refines {O : Nat → Prop} {c : Cfg} {f : File} {e : Env} (sz : Nat) (hss : 0 < c.ss)
    (hP : Part c.nsec O e.allocd (nz f.sectors)) (hok : FileOK c.ss e.dev f)
    (hres : (truncate c f e (sz : Int)).2.2 = none) :
    Eqv (absFile c.ss (truncate c f e (sz : Int)).2.1.dev (truncate c f e (sz : Int)).1)
      (ByteFile.truncate (absFile c.ss e.dev f) sz) := by
  obtain ⟨h1, h2, _⟩ := truncate_content_ok (O := O) sz hss hP hok hres
  exact ⟨h2, h1⟩

/-- the configuration never changes -/
theorem run_cfg : ∀ (ops : List (Op × Oracle)) (s : State), (run s ops).cfg = s.cfg := by
  intro ops
  induction ops with
  | nil => intro s; rfl
  | cons x xs ih =>
    intro s
    show (run (step s x.1 x.2).1 xs).cfg = s.cfg
    rw [ih]
    unfold step
    cases x.1 <;> dsimp only <;> (try split) <;> (try rw [finish_fst]) <;> rfl

/-- which file an operation works on. -/
def opTarget : Op → Option Nat
  | .new _ _ => none
  | .read i _ _ => some i
  | .write i _ _ => some i
  | .trunc i _ => some i
  | .seek i _ _ => some i
  | .len i => some i
  | .close i => some i

/-- **Isolation, step form**: an operation on file `i` (any oracle) leaves every
other file `j` in place with exactly the same readable contents. -/
theorem step_others {st : State} (h : Inv st) (op : Op) (o : Oracle) (j : Nat) (g : File)
    (hj : opTarget op ≠ some j) (hg : st.files[j]? = some g) :
    (step st op o).1.files[j]? = some g ∧
      ∀ x, content st.cfg.ss (step st op o).1.dev g x = content st.cfg.ss st.dev g x := by
  have hjl : j < st.files.length := (List.getElem?_eq_some_iff.mp hg).1
  have hset : ∀ (i : Nat) (f' : File), i ≠ j → (st.files.set i f')[j]? = some g := by
    intro i f' hij
    rw [List.getElem?_set]; rw [if_neg hij]; exact hg
  have hframe : ∀ (i : Nat) (dev' : Array FilePool.Byte), i ≠ j →
      (∀ t k, k < st.cfg.ss → Oth st i (t + 1) → rd dev' (t * st.cfg.ss + k) = rd st.dev (t * st.cfg.ss + k)) →
      ∀ x, content st.cfg.ss dev' g x = content st.cfg.ss st.dev g x := by
    intro i dev' hij hfr x
    exact content_frame st.cfg.ss (Oth st i) st.dev dev' g h.ssPos
      (fun s hs hs0 => ⟨j, g, fun e => hij e.symm, hg, hs, hs0⟩) hfr x
  unfold step
  dsimp only
  cases op with
  | new hole size =>
    dsimp only; rw [finish_fst]; dsimp only
    exact ⟨by rw [List.getElem?_append_left hjl]; exact hg, fun _ => rfl⟩
  | read i off n =>
    dsimp only
    split
    · exact ⟨hg, fun _ => rfl⟩
    · rename_i f hf
      rw [finish_fst]
      refine ⟨hg, fun x => ?_⟩
      show content st.cfg.ss (readAt st.cfg f (st.env o) off n).1.dev g x = _
      rw [readAt_dev]; rfl
  | write i off p =>
    have hij : i ≠ j := fun e => hj (by rw [e]; rfl)
    dsimp only
    split
    · exact ⟨hg, fun _ => rfl⟩
    · rename_i f hf
      rw [finish_fst]
      have hf' := file?_some hf
      have hP := inv_part h hf'.1
      refine ⟨hset i _ hij, ?_⟩
      apply hframe i _ hij
      by_cases hneg : off < 0
      · rw [writeAt_neg p off hneg]; intro _ _ _ _; rfl
      · obtain ⟨ofs, rfl⟩ : ∃ ofs : Nat, off = (ofs : Int) := ⟨off.toNat, by omega⟩
        exact (writeAt_content (O := Oth st i) (f := f) (e := st.env o) p ofs h.ssPos hP
          h.noDoubleFree).2.2.2.2.2
  | trunc i size =>
    have hij : i ≠ j := fun e => hj (by rw [e]; rfl)
    dsimp only
    split
    · exact ⟨hg, fun _ => rfl⟩
    · rename_i f hf
      rw [finish_fst]
      have hf' := file?_some hf
      have hP := inv_part h hf'.1
      refine ⟨hset i _ hij, ?_⟩
      apply hframe i _ hij
      exact fun t k hk ho => truncate_frame (c := st.cfg) (f := f) (e := st.env o) size h.ssPos hP t k hk ho
  | seek i off data =>
    dsimp only
    split
    · exact ⟨hg, fun _ => rfl⟩
    · rename_i f hf
      rw [finish_fst]
      refine ⟨hg, fun x => ?_⟩
      show content st.cfg.ss (seek st.cfg f (st.env o) off data).1.dev g x = _
      rw [seek_dev]; rfl
  | len i =>
    dsimp only
    split
    · exact ⟨hg, fun _ => rfl⟩
    · rw [finish_fst]; exact ⟨hg, fun _ => rfl⟩
  | close i =>
    have hij : i ≠ j := fun e => hj (by rw [e]; rfl)
    dsimp only
    split
    · exact ⟨hg, fun _ => rfl⟩
    · rename_i f hf
      rw [finish_fst]
      have hf' := file?_some hf
      have hP := inv_part h hf'.1
      have hcl := close_part (f := f) (e := st.env o) hP h.noDoubleFree
      refine ⟨hset i _ hij, fun x => ?_⟩
      show content st.cfg.ss (close f (st.env o)).2.1.dev g x = _
      rw [hcl.2.2.2.2]; rfl

end BbRe.Lemmas.FilePool
