import BbRe.Lemmas.GoHeapOps
/-!
The heap operations commute with mapping the elements: a heap of *references* ordered by a
comparison that reads the keys through the references (`fun x y => less (f x) (f y)`, as the
scheduler's heaps of `*invocation` / `*operation` pointers) behaves exactly like the heap of the
referenced values.
-/
namespace BbRe.Lemmas.GoHeap
open BbRe.GoHeap

variable {α β : Type}

/-- The comparison of references through `f`. -/
def via (f : β → α) (less : α → α → Bool) (x y : β) : Bool := less (f x) (f y)

theorem lessAt_map (f : β → α) (less : α → α → Bool) (a : Array β) (i j : Nat) :
    lessAt (via f less) a i j = lessAt less (a.map f) i j := by
  unfold lessAt via
  simp only [Array.getElem?_map]
  cases a[i]? <;> cases a[j]? <;> rfl

theorem swp_map (f : β → α) (a : Array β) (i j : Nat) : (swp a i j).map f = swp (a.map f) i j := by
  by_cases h : i < a.size ∧ j < a.size
  · apply Array.ext_getElem?
    intro k
    rw [Array.getElem?_map, getElem?_swp a i j k h.1 h.2,
      getElem?_swp (a.map f) i j k (by simpa using h.1) (by simpa using h.2), Array.getElem?_map]
  · rw [swp_oob a i j h, swp_oob (a.map f) i j (by simpa using h)]

theorem upAux_map (f : β → α) (less : α → α → Bool) : ∀ (fuel : Nat) (a : Array β) (j : Nat),
    (upAux (via f less) fuel a j).map f = upAux less fuel (a.map f) j := by
  intro fuel
  induction fuel with
  | zero => intro a j; rfl
  | succ n ih =>
    intro a j
    unfold upAux
    simp only [lessAt_map]
    split
    · rfl
    · rw [ih, swp_map]

theorem downAux_map (f : β → α) (less : α → α → Bool) : ∀ (fuel : Nat) (a : Array β) (i n : Nat),
    (downAux (via f less) fuel a i n).1.map f = (downAux less fuel (a.map f) i n).1 ∧
    (downAux (via f less) fuel a i n).2 = (downAux less fuel (a.map f) i n).2 := by
  intro fuel
  induction fuel with
  | zero => intro a i n; exact ⟨rfl, rfl⟩
  | succ m ih =>
    intro a i n
    rw [downAux_succ, downAux_succ]
    have hs : smaller (via f less) a i n = smaller less (a.map f) i n := by
      unfold smaller; simp only [lessAt_map]
    rw [hs]
    simp only [lessAt_map]
    split
    · exact ⟨rfl, rfl⟩
    · split
      · exact ⟨rfl, rfl⟩
      · rw [← swp_map]; exact ih _ _ _

theorem up_map (f : β → α) (less : α → α → Bool) (a : Array β) (j : Nat) :
    (up (via f less) a j).map f = up less (a.map f) j := upAux_map f less j a j

theorem down_map (f : β → α) (less : α → α → Bool) (a : Array β) (i n : Nat) :
    (down (via f less) a i n).1.map f = (down less (a.map f) i n).1 ∧
    (down (via f less) a i n).2 = (down less (a.map f) i n).2 := by
  unfold down
  have := downAux_map f less (n - i) a i n
  exact ⟨this.1, by simp only [this.2]⟩

theorem fix_map (f : β → α) (less : α → α → Bool) (a : Array β) (i : Nat) :
    (fix (via f less) a i).map f = fix less (a.map f) i := by
  unfold fix
  have := down_map f less a i a.size
  simp only [Array.size_map]
  rw [← this.2]
  split
  · rw [up_map, this.1]
  · exact this.1

theorem push_map (f : β → α) (less : α → α → Bool) (a : Array β) (x : β) :
    (push (via f less) a x).map f = push less (a.map f) (f x) := by
  unfold push
  rw [up_map, Array.map_push, Array.size_map]

theorem removePrep_map (f : β → α) (less : α → α → Bool) (a : Array β) (i : Nat) :
    (removePrep (via f less) a i).map f = removePrep less (a.map f) i := by
  unfold removePrep
  simp only [Array.size_map]
  split
  · have := down_map f less (swp a i (a.size - 1)) i (a.size - 1)
    rw [swp_map] at this
    rw [← this.2]
    split
    · rw [up_map, this.1]
    · exact this.1
  · rfl

theorem remove_map (f : β → α) (less : α → α → Bool) (a : Array β) (i : Nat) :
    (remove (via f less) a i).1.map f = (remove less (a.map f) i).1 := by
  unfold remove
  simp only []
  rw [← removePrep_map, Array.map_pop]

end BbRe.Lemmas.GoHeap
