/-
Soundness of the extraction of the acquired-while-holding relation (C14 part b).

`pairsRun` replays a trace and lists every pair (class of a held lock, class of the lock
being acquired); an acquisition through a `LockPile` does not count the locks currently
held through the same pile. `edges_sound`: for a program accepted by `consistent`,
`acqClosed`, `ownOk` and `edgesProg`, every such pair of every returning run of every
function (started with the locks its summary requires, ghosts included) is one of the
edges computed by `edgesProg`.
Core Lean only.
-/
import BbRe.Model.LockSkel
import BbRe.Lemmas.LockSkel

namespace BbRe.Lemmas.LockSkelEdges
open BbRe.LockSkel BbRe.Lemmas.LockSkel

/-! ## The trace-level relation -/

/-- Multiset difference `h − xs` (elements of `xs` that are not in `h` are ignored). -/
def mdiff : List Nat → List Nat → List Nat
  | h, [] => h
  | h, x :: xs => mdiff (h.erase x) xs

/-- State of the replay: held locks and, per pile, the locks held through it. -/
structure RS where
  held : List Nat
  piles : Nat → List Nat

def upd (P : Nat → List Nat) (p : Nat) (xs : List Nat) : Nat → List Nat :=
  fun q => if q = p then xs else P q

def stepR (s : RS) : Ev → RS
  | .acq l => ⟨l :: s.held, s.piles⟩
  | .rel l => ⟨s.held.erase l, s.piles⟩
  | .pacq p l => ⟨l :: s.held, upd s.piles p (l :: s.piles p)⟩
  | .prel p l => ⟨s.held.erase l, upd s.piles p ((s.piles p).erase l)⟩
  | .need _ => s

/-- Pairs (class of a held lock, class of the acquired lock) contributed by one event.
Taking an ownership token (`isOwn`) never blocks; `LockPile.Lock` does not block while
holding locks of the same pile. -/
def stepPairs (cls : List Nat) (s : RS) : Ev → List (Nat × Nat)
  | .acq l => if isOwn l then [] else s.held.map (fun x => (clsOf cls x, clsOf cls l))
  | .pacq p l => (mdiff s.held (s.piles p)).map (fun x => (clsOf cls x, clsOf cls l))
  | _ => []

def stRun (s : RS) : List Ev → RS
  | [] => s
  | e :: t => stRun (stepR s e) t

def pairsFrom (cls : List Nat) (s : RS) : List Ev → List (Nat × Nat)
  | [] => []
  | e :: t => stepPairs cls s e ++ pairsFrom cls (stepR s e) t

/-- All acquired-while-holding class pairs of the trace `tr` replayed from `held`/`piles`. -/
def pairsRun (cls : List Nat) (held : List Nat) (piles : Nat → List Nat) (tr : List Ev) :
    List (Nat × Nat) := pairsFrom cls ⟨held, piles⟩ tr

/-- Rename the locks of an event by an arbitrary function. -/
def evMap (r : Nat → Nat) : Ev → Ev
  | .acq l => .acq (r l)
  | .rel l => .rel (r l)
  | .need cs => .need cs
  | .pacq p l => .pacq p (r l)
  | .prel p l => .prel p (r l)

theorem evMap_id (tr : List Ev) : tr.map (evMap id) = tr := by
  have : evMap id = id := by funext e; cases e <;> rfl
  rw [this, List.map_id]

theorem evMap_rn (r : Nat → Nat) (ren : List (Nat × Nat)) (t : List Ev) :
    (t.map (rnEv ren)).map (evMap r) = t.map (evMap (r ∘ rn ren)) := by
  rw [List.map_map]
  congr 1
  funext e
  cases e <;> rfl

theorem stRun_append (s : RS) (t1 t2 : List Ev) :
    stRun s (t1 ++ t2) = stRun (stRun s t1) t2 := by
  induction t1 generalizing s with
  | nil => rfl
  | cons e t ih => exact ih _

theorem mem_pairsFrom_append {cls : List Nat} {s : RS} {t1 t2 : List Ev} {e : Nat × Nat} :
    e ∈ pairsFrom cls s (t1 ++ t2) ↔
      e ∈ pairsFrom cls s t1 ∨ e ∈ pairsFrom cls (stRun s t1) t2 := by
  induction t1 generalizing s with
  | nil => simp [pairsFrom, stRun]
  | cons x t ih =>
    simp only [List.cons_append, pairsFrom, stRun, List.mem_append, ih, or_assoc]

/-! ## Multisets -/

theorem count_mdiff : ∀ (xs h : List Nat) (a : Nat),
    (mdiff h xs).count a = h.count a - xs.count a
  | [], h, a => by simp [mdiff]
  | x :: xs, h, a => by
    simp only [mdiff]
    rw [count_mdiff xs, List.count_erase, List.count_cons]
    omega

theorem mem_mdiff {x : Nat} {h xs : List Nat} : x ∈ mdiff h xs ↔ xs.count x < h.count x := by
  rw [← List.count_pos_iff, count_mdiff]; omega

theorem mdiff_subset {x : Nat} {h xs : List Nat} (hx : x ∈ mdiff h xs) : x ∈ h := by
  rw [mem_mdiff] at hx
  exact List.count_pos_iff.mp (by omega)

theorem mdiff_perm {h xs o : List Nat} (p : h.Perm (xs ++ o)) : (mdiff h xs).Perm o := by
  rw [List.perm_iff_count]
  intro a
  rw [count_mdiff, p.count_eq, List.count_append]; omega

/-- `a ⊆ b` as multisets. -/
def Sub (a b : List Nat) : Prop := ∃ e, b.Perm (a ++ e)

theorem sub_count {a b : List Nat} (h : Sub a b) (x : Nat) : a.count x ≤ b.count x := by
  obtain ⟨e, p⟩ := h
  rw [p.count_eq, List.count_append]; omega

theorem mdiff_anti {x : Nat} {h a b : List Nat} (hs : Sub a b) (hx : x ∈ mdiff h b) :
    x ∈ mdiff h a := by
  rw [mem_mdiff] at hx ⊢
  have := sub_count hs x
  omega

theorem sub_left {a z b : List Nat} (h : Sub (a ++ z) b) : Sub a b := by
  obtain ⟨e, p⟩ := h
  exact ⟨z ++ e, by rwa [List.append_assoc] at p⟩

theorem sub_right {a z b : List Nat} (h : Sub (a ++ z) b) : Sub z b := by
  obtain ⟨e, p⟩ := h
  refine ⟨a ++ e, p.trans ?_⟩
  rw [List.append_assoc]
  exact (List.perm_append_comm_assoc a z e)

theorem sub_cons {a z b : List Nat} (x : Nat) (h : Sub (a ++ z) b) :
    Sub ((x :: a) ++ z) (x :: b) := by
  obtain ⟨e, p⟩ := h
  exact ⟨e, List.Perm.cons x p⟩

theorem sub_perm_left {a a' z b : List Nat} (pa : a.Perm a') (h : Sub (a ++ z) b) :
    Sub (a' ++ z) b := by
  obtain ⟨e, p⟩ := h
  exact ⟨e, p.trans (List.Perm.append_right e (List.Perm.append_right z pa))⟩

theorem sub_erase {a z b : List Nat} {x : Nat} (hx : x ∈ a) (h : Sub (a ++ z) b) :
    Sub (a.erase x ++ z) (b.erase x) := by
  obtain ⟨e, p⟩ := h
  refine ⟨e, ?_⟩
  have := List.Perm.erase x p
  rwa [List.erase_append_left e (List.mem_append_left z hx), List.erase_append_left z hx] at this

theorem sub_mdiff {a z b : List Nat} (h : Sub (a ++ z) b) : Sub z (mdiff b a) := by
  obtain ⟨e, p⟩ := h
  exact ⟨e, mdiff_perm (by rwa [List.append_assoc] at p)⟩

/-! ## Sorted pile maps -/

/-- Keys strictly increasing. -/
def PSorted (ps : List (Nat × List Nat)) : Prop := List.Pairwise (fun a b => a.1 < b.1) ps

theorem getP_of_lt : ∀ (ps : List (Nat × List Nat)) (p : Nat),
    (∀ kv ∈ ps, p < kv.1) → getP ps p = []
  | [], _, _ => rfl
  | (k, x) :: r, p, h => by
    have hk : p < k := h (k, x) List.mem_cons_self
    unfold getP
    rw [if_neg (by omega)]
    exact getP_of_lt r p (fun kv hkv => h kv (List.mem_cons_of_mem _ hkv))

theorem getP_setP : ∀ (ps : List (Nat × List Nat)) (p : Nat) (xs : List Nat) (q : Nat),
    PSorted ps → getP (setP ps p xs) q = if q = p then xs else getP ps q
  | [], p, xs, q, _ => by
    unfold setP
    by_cases he : xs.isEmpty = true
    · rw [if_pos he]
      have : xs = [] := List.isEmpty_iff.mp he
      subst this
      simp [getP]
    · rw [if_neg he]
      simp [getP]
  | (k, x) :: r, p, xs, q, hs => by
    have hs' := List.pairwise_cons.mp hs
    have hlt : ∀ kv ∈ r, k < kv.1 := hs'.1
    unfold setP
    by_cases h1 : p < k
    · rw [if_pos h1]
      have hp0 : getP ((k, x) :: r) p = [] :=
        getP_of_lt _ p (fun kv hkv => by
          rcases List.mem_cons.mp hkv with rfl | hkv
          · exact h1
          · exact Nat.lt_trans h1 (hlt kv hkv))
      by_cases he : xs.isEmpty = true
      · rw [if_pos he]
        have : xs = [] := List.isEmpty_iff.mp he
        subst this
        by_cases hq : q = p
        · subst hq; rw [if_pos rfl]; exact hp0
        · rw [if_neg hq]
      · rw [if_neg he]
        by_cases hq : q = p
        · subst hq; simp [getP]
        · rw [if_neg hq]
          conv => lhs; unfold getP
          rw [if_neg hq]
    · rw [if_neg h1]
      by_cases h2 : p = k
      · rw [if_pos h2]
        subst h2
        have hp0 : getP r p = [] := getP_of_lt r p hlt
        by_cases he : xs.isEmpty = true
        · rw [if_pos he]
          have : xs = [] := List.isEmpty_iff.mp he
          subst this
          by_cases hq : q = p
          · subst hq; rw [if_pos rfl]; exact hp0
          · rw [if_neg hq]
            conv => rhs; unfold getP
            rw [if_neg hq]
        · rw [if_neg he]
          by_cases hq : q = p
          · subst hq; simp [getP]
          · rw [if_neg hq]
            conv => lhs; unfold getP
            conv => rhs; unfold getP
            rw [if_neg hq, if_neg hq]
      · rw [if_neg h2]
        conv => lhs; unfold getP
        by_cases hqk : q = k
        · rw [if_pos hqk]
          have hqp : ¬ q = p := by omega
          rw [if_neg hqp]
          conv => rhs; unfold getP
          rw [if_pos hqk]
        · rw [if_neg hqk, getP_setP r p xs q hs'.2]
          conv => rhs; unfold getP
          rw [if_neg hqk]

theorem setP_key : ∀ (ps : List (Nat × List Nat)) (p : Nat) (xs : List Nat) (kv : Nat × List Nat),
    kv ∈ setP ps p xs → kv ∈ ps ∨ kv.1 = p := by
  intro ps p xs kv h
  rcases setP_mem ps p xs kv h with h | h
  · exact Or.inl h
  · exact Or.inr (by rw [h])

theorem setP_sorted : ∀ (ps : List (Nat × List Nat)) (p : Nat) (xs : List Nat),
    PSorted ps → PSorted (setP ps p xs)
  | [], p, xs, _ => by
    unfold setP
    split
    · exact List.Pairwise.nil
    · exact List.pairwise_cons.mpr ⟨fun _ h => (by cases h), List.Pairwise.nil⟩
  | (k, x) :: r, p, xs, hs => by
    have hs' := List.pairwise_cons.mp hs
    unfold setP
    by_cases h1 : p < k
    · rw [if_pos h1]
      split
      · exact hs
      · refine List.pairwise_cons.mpr ⟨?_, hs⟩
        intro kv hkv
        rcases List.mem_cons.mp hkv with rfl | hkv
        · exact h1
        · exact Nat.lt_trans h1 (hs'.1 kv hkv)
    · rw [if_neg h1]
      by_cases h2 : p = k
      · rw [if_pos h2]
        split
        · exact hs'.2
        · subst h2
          exact List.pairwise_cons.mpr ⟨hs'.1, hs'.2⟩
      · rw [if_neg h2]
        refine List.pairwise_cons.mpr ⟨?_, setP_sorted r p xs hs'.2⟩
        intro kv hkv
        rcases setP_key r p xs kv hkv with h | h
        · exact hs'.1 kv h
        · show k < kv.1
          omega

/-! ## Edge sets -/

theorem mem_addEdge {e x : Nat × Nat} {es : Edges} : e ∈ addEdge x es ↔ e = x ∨ e ∈ es := by
  unfold addEdge
  split
  · rename_i hc
    have hm : x ∈ es := List.contains_iff_mem.mp hc
    constructor
    · exact Or.inr
    · rintro (rfl | h)
      · exact hm
      · exact h
  · exact List.mem_cons

theorem mem_addEdges {e : Nat × Nat} {c : Nat} : ∀ {hs : List Nat} {es : Edges},
    e ∈ addEdges hs c es ↔ e ∈ es ∨ ∃ h, h ∈ hs ∧ e = (h, c)
  | [], es => by simp [addEdges]
  | x :: xs, es => by
    show e ∈ addEdges xs c (addEdge (x, c) es) ↔ _
    rw [mem_addEdges, mem_addEdge]
    constructor
    · rintro ((h | h) | ⟨y, hy, h⟩)
      · exact Or.inr ⟨x, List.mem_cons_self, h⟩
      · exact Or.inl h
      · exact Or.inr ⟨y, List.mem_cons_of_mem _ hy, h⟩
    · rintro (h | ⟨y, hy, h⟩)
      · exact Or.inl (Or.inr h)
      · rcases List.mem_cons.mp hy with rfl | hy
        · exact Or.inl (Or.inl h)
        · exact Or.inr ⟨y, hy, h⟩

theorem mem_callEdges {e : Nat × Nat} {fr : List Nat} : ∀ {T : List Nat} {es : Edges},
    e ∈ T.foldl (fun acc c => addEdges fr c acc) es ↔
      e ∈ es ∨ ∃ c, c ∈ T ∧ ∃ h, h ∈ fr ∧ e = (h, c)
  | [], es => by simp
  | t :: T, es => by
    rw [List.foldl_cons, mem_callEdges, mem_addEdges]
    constructor
    · rintro ((h | ⟨y, hy, h⟩) | ⟨c, hc, y, hy, h⟩)
      · exact Or.inl h
      · exact Or.inr ⟨t, List.mem_cons_self, y, hy, h⟩
      · exact Or.inr ⟨c, List.mem_cons_of_mem _ hc, y, hy, h⟩
    · rintro (h | ⟨c, hc, y, hy, h⟩)
      · exact Or.inl (Or.inl h)
      · rcases List.mem_cons.mp hc with rfl | hc
        · exact Or.inl (Or.inr ⟨y, hy, h⟩)
        · exact Or.inr ⟨c, hc, y, hy, h⟩

/-! ## `edgesS` only adds edges, and computes the same outcomes as `execA` -/

def ESub (a b : Edges) : Prop := ∀ e, e ∈ a → e ∈ b

theorem ESub.refl (a : Edges) : ESub a a := fun _ h => h
theorem ESub.trans {a b c : Edges} (h1 : ESub a b) (h2 : ESub b c) : ESub a c :=
  fun e h => h2 e (h1 e h)

theorem esub_addEdges (hs : List Nat) (c : Nat) (es : Edges) : ESub es (addEdges hs c es) :=
  fun _ h => mem_addEdges.mpr (Or.inl h)

theorem esub_callEdges (fr T : List Nat) (es : Edges) :
    ESub es (T.foldl (fun acc c => addEdges fr c acc) es) :=
  fun _ h => mem_callEdges.mpr (Or.inl h)

/-- the continuation only adds edges -/
def KMono (k : Out → AS → Edges → ResE) : Prop :=
  ∀ o s e1 R1 e2, k o s e1 = .ok (R1, e2) → ESub e1 e2

theorem bindE_mono {k : Out → AS → Edges → ResE} (hk : KMono k) :
    ∀ {r : Outs} {es : Edges} {R : Outs} {es' : Edges}, bindE r es k = .ok (R, es') → ESub es es'
  | [], es, R, es', h => by
    simp only [bindE, Except.ok.injEq, Prod.mk.injEq] at h
    rw [h.2]; exact ESub.refl _
  | (o, s) :: rest, es, R, es', h => by
    unfold bindE at h
    split at h
    · cases h
    · rename_i r1 es1 h1
      split at h
      · cases h
      · rename_i r2 es2 h2
        simp only [Except.ok.injEq, Prod.mk.injEq] at h
        rw [← h.2]
        exact (hk _ _ _ _ _ h1).trans (bindE_mono hk h2)

theorem bindE_mem {k : Out → AS → Edges → ResE} (hk : KMono k) :
    ∀ {r : Outs} {es : Edges} {R : Outs} {es' : Edges} {o : Out} {s : AS},
      bindE r es k = .ok (R, es') → (o, s) ∈ r →
      ∃ e1 R1 e2, k o s e1 = .ok (R1, e2) ∧ ESub e2 es' ∧ ∀ x, x ∈ R1 → x ∈ R
  | [], _, _, _, _, _, _, hm => by cases hm
  | (o0, s0) :: rest, es, R, es', o, s, h, hm => by
    unfold bindE at h
    split at h
    · cases h
    · rename_i r1 es1 h1
      split at h
      · cases h
      · rename_i r2 es2 h2
        simp only [Except.ok.injEq, Prod.mk.injEq] at h
        obtain ⟨hR, hes⟩ := h
        subst hR hes
        rcases List.mem_cons.mp hm with heq | hm'
        · cases heq
          exact ⟨es, r1, es1, h1, bindE_mono hk h2, fun x hx => mem_union.mpr (Or.inl hx)⟩
        · obtain ⟨e1, R1, e2, hk1, hsub, hR1⟩ := bindE_mem hk h2 hm'
          exact ⟨e1, R1, e2, hk1, hsub, fun x hx => mem_union.mpr (Or.inr (hR1 x hx))⟩

/-- `bindE` and `bindAll` agree on outcomes if the continuations do. -/
theorem bind_outs_eq {kE : Out → AS → Edges → ResE} {kA : Out → AS → Res}
    (hk : ∀ o s e R1 e' R1', kA o s = .ok R1' → kE o s e = .ok (R1, e') → R1 = R1') :
    ∀ {r : Outs} {es : Edges} {R R' : Outs} {es' : Edges},
      bindAll r kA = .ok R' → bindE r es kE = .ok (R, es') → R = R'
  | [], es, R, R', es', h1, h2 => by
    simp only [bindAll, Except.ok.injEq] at h1
    simp only [bindE, Except.ok.injEq, Prod.mk.injEq] at h2
    rw [← h1, ← h2.1]
  | (o, s) :: rest, es, R, R', es', h1, h2 => by
    unfold bindAll at h1
    unfold bindE at h2
    split at h1
    · cases h1
    · rename_i a1 ha1
      split at h1
      · cases h1
      · rename_i a2 ha2
        split at h2
        · cases h2
        · rename_i b1 eb1 hb1
          split at h2
          · cases h2
          · rename_i b2 eb2 hb2
            simp only [Except.ok.injEq] at h1
            simp only [Except.ok.injEq, Prod.mk.injEq] at h2
            rw [← h1, ← h2.1, hk _ _ _ _ _ _ ha1 hb1, bind_outs_eq hk ha2 hb2]

theorem edgesS_mono (cls : List Nat) (tbl : AcqTbl) (sig : Sig) : ∀ (s : Stmt) (a : AS)
    (es : Edges) (R : Outs) (es' : Edges), edgesS cls tbl sig s a es = .ok (R, es') → ESub es es' := by
  intro s
  induction s with
  | skip | mark _ _ | ret _ | brk | cont | panic | setFlag _ _ =>
    intro a es R es' h
    simp only [edgesS, Except.ok.injEq, Prod.mk.injEq] at h
    rw [← h.2]; exact ESub.refl _
  | unsupported w => intro a es R es' h; simp only [edgesS] at h; cases h
  | acq l =>
    intro a es R es' h
    simp only [edgesS, Except.ok.injEq, Prod.mk.injEq] at h
    rw [← h.2]
    split
    · exact ESub.refl _
    · exact esub_addEdges _ _ _
  | rel l =>
    intro a es R es' h
    simp only [edgesS] at h
    split at h
    · simp only [Except.ok.injEq, Prod.mk.injEq] at h
      rw [← h.2]; exact ESub.refl _
    · cases h
  | need cs =>
    intro a es R es' h
    simp only [edgesS] at h
    split at h
    · simp only [Except.ok.injEq, Prod.mk.injEq] at h
      rw [← h.2]; exact ESub.refl _
    · cases h
  | pileLock p l =>
    intro a es R es' h
    simp only [edgesS] at h
    split at h
    · cases h
    · simp only [Except.ok.injEq, Prod.mk.injEq] at h
      rw [← h.2]; exact esub_addEdges _ _ _
  | pileUnlock p l =>
    intro a es R es' h
    simp only [edgesS] at h
    split at h
    · split at h
      · simp only [Except.ok.injEq, Prod.mk.injEq] at h
        rw [← h.2]; exact ESub.refl _
      · cases h
    · cases h
  | pileUnlockAll p =>
    intro a es R es' h
    simp only [edgesS] at h
    split at h
    · simp only [Except.ok.injEq, Prod.mk.injEq] at h
      rw [← h.2]; exact ESub.refl _
    · cases h
  | call g ren =>
    intro a es R es' h
    simp only [edgesS] at h
    split at h
    · cases h
    · simp only [Except.ok.injEq, Prod.mk.injEq] at h
      rw [← h.2]; exact esub_callEdges _ _ _
  | seq x y ix iy =>
    intro a es R es' h
    simp only [edgesS] at h
    split at h
    · cases h
    · rename_i r es1 h1
      refine (ix _ _ _ _ h1).trans (bindE_mono ?_ h)
      intro o s e1 R1 e2 hk
      dsimp only at hk
      split at hk
      · exact iy _ _ _ _ hk
      · simp only [Except.ok.injEq, Prod.mk.injEq] at hk
        rw [← hk.2]; exact ESub.refl _
  | choice t x y ix iy =>
    intro a es R es' h
    simp only [edgesS] at h
    split at h
    · cases h
    · rename_i r1 es1 h1
      split at h
      · cases h
      · rename_i r2 es2 h2
        simp only [Except.ok.injEq, Prod.mk.injEq] at h
        rw [← h.2]
        exact (ix _ _ _ _ h1).trans (iy _ _ _ _ h2)
  | loop ce x ix =>
    intro a es R es' h
    simp only [edgesS] at h
    split at h
    · cases h
    · rename_i r es1 h1
      split at h
      · cases h
      · simp only [Except.ok.injEq, Prod.mk.injEq] at h
        rw [← h.2]; exact ix _ _ _ _ h1
  | fin x y ix iy =>
    intro a es R es' h
    simp only [edgesS] at h
    split at h
    · cases h
    · rename_i r es1 h1
      refine (ix _ _ _ _ h1).trans (bindE_mono ?_ h)
      intro o s e1 R1 e2 hk
      dsimp only at hk
      split at hk
      · simp only [Except.ok.injEq, Prod.mk.injEq] at hk
        rw [← hk.2]; exact ESub.refl _
      · split at hk
        · cases hk
        · rename_i r2 es3 h3
          simp only [Except.ok.injEq, Prod.mk.injEq] at hk
          rw [← hk.2]; exact iy _ _ _ _ h3
  | scope x ix =>
    intro a es R es' h
    simp only [edgesS] at h
    split at h
    · cases h
    · rename_i r es1 h1
      simp only [Except.ok.injEq, Prod.mk.injEq] at h
      rw [← h.2]; exact ix _ _ _ _ h1
  | block x ix =>
    intro a es R es' h
    simp only [edgesS] at h
    split at h
    · cases h
    · rename_i r es1 h1
      simp only [Except.ok.injEq, Prod.mk.injEq] at h
      rw [← h.2]; exact ix _ _ _ _ h1
  | ifFlag v x y ix iy =>
    intro a es R es' h
    simp only [edgesS] at h
    split at h
    · exact ix _ _ _ _ h
    · exact iy _ _ _ _ h

theorem kmono_seq (cls : List Nat) (tbl : AcqTbl) (sig : Sig) (b : Stmt) :
    KMono (fun o s1 es2 => if o = .norm then edgesS cls tbl sig b s1 es2 else .ok ([(o, s1)], es2)) := by
  intro o s e1 R1 e2 hk
  dsimp only at hk
  split at hk
  · exact edgesS_mono cls tbl sig b _ _ _ _ hk
  · simp only [Except.ok.injEq, Prod.mk.injEq] at hk
    rw [← hk.2]; exact ESub.refl _

theorem kmono_fin (cls : List Nat) (tbl : AcqTbl) (sig : Sig) (d : Stmt) :
    KMono (fun o s1 es2 =>
      if o = .pnc then .ok ([(.pnc, s1)], es2)
      else match edgesS cls tbl sig d s1 es2 with
        | .error e => .error e
        | .ok (r2, es3) => .ok (r2.map (fun x => (if x.1 = .pnc then Out.pnc else o, x.2)), es3)) := by
  intro o s e1 R1 e2 hk
  dsimp only at hk
  split at hk
  · simp only [Except.ok.injEq, Prod.mk.injEq] at hk
    rw [← hk.2]; exact ESub.refl _
  · split at hk
    · cases hk
    · rename_i r2 es3 h3
      simp only [Except.ok.injEq, Prod.mk.injEq] at hk
      rw [← hk.2]; exact edgesS_mono cls tbl sig d _ _ _ _ h3

theorem edgesS_outs_eq_execA (cls : List Nat) (tbl : AcqTbl) (sig : Sig) : ∀ (s : Stmt) (a : AS)
    (es : Edges) (R R' : Outs) (es' : Edges),
    execA sig s a = .ok R' → edgesS cls tbl sig s a es = .ok (R, es') → R = R' := by
  intro s
  induction s with
  | skip | mark _ _ | ret _ | brk | cont | panic | setFlag _ _ | unsupported _
  | acq _ | rel _ | need _ | pileLock _ _ | pileUnlock _ _ | pileUnlockAll _ | call _ _ =>
    intro a es R R' es' h1 h2
    simp only [execA] at h1
    simp only [edgesS] at h2
    (repeat' split at h1) <;> (repeat' split at h2) <;> simp_all
  | seq x y ix iy =>
    intro a es R R' es' h1 h2
    simp only [execA] at h1
    simp only [edgesS] at h2
    split at h1
    · cases h1
    · rename_i ra hra
      split at h2
      · cases h2
      · rename_i rb es1 hrb
        have := ix _ _ _ _ _ hra hrb
        subst this
        refine bind_outs_eq ?_ h1 h2
        intro o s e R1 e' R1' k1 k2
        split at k1
        · rw [if_pos (by assumption)] at k2
          exact iy _ _ _ _ _ k1 k2
        · rw [if_neg (by assumption)] at k2
          simp_all
  | choice t x y ix iy =>
    intro a es R R' es' h1 h2
    simp only [execA] at h1
    simp only [edgesS] at h2
    split at h1
    · cases h1
    · rename_i ra hra
      split at h1
      · cases h1
      · rename_i ra2 hra2
        split at h2
        · cases h2
        · rename_i rb es1 hrb
          split at h2
          · cases h2
          · rename_i rb2 es2 hrb2
            have e1 := ix _ _ _ _ _ hra hrb
            have e2 := iy _ _ _ _ _ hra2 hrb2
            simp_all
  | loop ce x ix =>
    intro a es R R' es' h1 h2
    simp only [execA] at h1
    simp only [edgesS] at h2
    split at h1
    · cases h1
    · rename_i ra hra
      split at h2
      · cases h2
      · rename_i rb es1 hrb
        have e1 := ix _ _ _ _ _ hra hrb
        subst e1
        split at h2
        · cases h2
        · rename_i r' hr'
          simp_all
  | fin x y ix iy =>
    intro a es R R' es' h1 h2
    simp only [execA] at h1
    simp only [edgesS] at h2
    split at h1
    · cases h1
    · rename_i ra hra
      split at h2
      · cases h2
      · rename_i rb es1 hrb
        have := ix _ _ _ _ _ hra hrb
        subst this
        refine bind_outs_eq ?_ h1 h2
        intro o s e R1 e' R1' k1 k2
        split at k1
        · rw [if_pos (by assumption)] at k2
          simp_all
        · rw [if_neg (by assumption)] at k2
          split at k1
          · cases k1
          · rename_i r2 hr2
            split at k2
            · cases k2
            · rename_i r3 es3 hr3
              have := iy _ _ _ _ _ hr2 hr3
              simp_all
  | scope x ix =>
    intro a es R R' es' h1 h2
    simp only [execA] at h1
    simp only [edgesS] at h2
    split at h1
    · cases h1
    · rename_i ra hra
      split at h2
      · cases h2
      · rename_i rb es1 hrb
        have e1 := ix _ _ _ _ _ hra hrb
        simp_all
  | block x ix =>
    intro a es R R' es' h1 h2
    simp only [execA] at h1
    simp only [edgesS] at h2
    split at h1
    · cases h1
    · rename_i ra hra
      split at h2
      · cases h2
      · rename_i rb es1 hrb
        have e1 := ix _ _ _ _ _ hra hrb
        simp_all
  | ifFlag v x y ix iy =>
    intro a es R R' es' h1 h2
    simp only [execA] at h1
    simp only [edgesS] at h2
    split at h1
    · rw [if_pos (by assumption)] at h2
      exact ix _ _ _ _ _ h1 h2
    · rw [if_neg (by assumption)] at h2
      exact iy _ _ _ _ _ h1 h2

/-! ## Static side conditions -/

/-- A renaming never turns an ownership token (which is taken without blocking and
contributes no pair) into a real lock. -/
def renOwnOk (ren : List (Nat × Nat)) : Bool := ren.all (fun ab => !isOwn ab.1 || isOwn ab.2)

/-- Renamings used by the calls of a statement. -/
def stmtRens : Stmt → List (List (Nat × Nat))
  | .call _ ren => [ren]
  | .seq a b => stmtRens a ++ stmtRens b
  | .choice _ a b => stmtRens a ++ stmtRens b
  | .loop _ b => stmtRens b
  | .fin a b => stmtRens a ++ stmtRens b
  | .scope a => stmtRens a
  | .block a => stmtRens a
  | .ifFlag _ a b => stmtRens a ++ stmtRens b
  | _ => []

/-- Checkable: no call of the program renames an ownership token to a real lock. -/
def ownOk (prog : Prog) : Bool := prog.all (fun fb => (stmtRens fb.2).all renOwnOk)

/-- What `acqClosed` and `ownOk` say about (a part of) the body of a function whose
table entry is `T`. -/
structure Static (cls : List Nat) (tbl : AcqTbl) (T : List Nat) (s : Stmt) : Prop where
  acq : ∀ c, c ∈ stmtAcq cls s → c ∈ T
  calls : ∀ g, g ∈ stmtCalls s → ∀ c, c ∈ tbl.get g → c ∈ T
  rens : ∀ ren, ren ∈ stmtRens s → renOwnOk ren = true

section StaticLemmas
variable {cls : List Nat} {tbl : AcqTbl} {T : List Nat}

theorem static_seq {a b : Stmt} (h : Static cls tbl T (.seq a b)) :
    Static cls tbl T a ∧ Static cls tbl T b := by
  obtain ⟨h1, h2, h3⟩ := h
  simp only [stmtAcq, stmtCalls, stmtRens, List.mem_append] at h1 h2 h3
  exact ⟨⟨fun c hc => h1 c (Or.inl hc), fun g hg => h2 g (Or.inl hg), fun r hr => h3 r (Or.inl hr)⟩,
    ⟨fun c hc => h1 c (Or.inr hc), fun g hg => h2 g (Or.inr hg), fun r hr => h3 r (Or.inr hr)⟩⟩

theorem static_choice {t : Nat} {a b : Stmt} (h : Static cls tbl T (.choice t a b)) :
    Static cls tbl T a ∧ Static cls tbl T b := by
  obtain ⟨h1, h2, h3⟩ := h
  simp only [stmtAcq, stmtCalls, stmtRens, List.mem_append] at h1 h2 h3
  exact ⟨⟨fun c hc => h1 c (Or.inl hc), fun g hg => h2 g (Or.inl hg), fun r hr => h3 r (Or.inl hr)⟩,
    ⟨fun c hc => h1 c (Or.inr hc), fun g hg => h2 g (Or.inr hg), fun r hr => h3 r (Or.inr hr)⟩⟩

theorem static_fin {a b : Stmt} (h : Static cls tbl T (.fin a b)) :
    Static cls tbl T a ∧ Static cls tbl T b := by
  obtain ⟨h1, h2, h3⟩ := h
  simp only [stmtAcq, stmtCalls, stmtRens, List.mem_append] at h1 h2 h3
  exact ⟨⟨fun c hc => h1 c (Or.inl hc), fun g hg => h2 g (Or.inl hg), fun r hr => h3 r (Or.inl hr)⟩,
    ⟨fun c hc => h1 c (Or.inr hc), fun g hg => h2 g (Or.inr hg), fun r hr => h3 r (Or.inr hr)⟩⟩

theorem static_ifFlag {v : Nat} {a b : Stmt} (h : Static cls tbl T (.ifFlag v a b)) :
    Static cls tbl T a ∧ Static cls tbl T b := by
  obtain ⟨h1, h2, h3⟩ := h
  simp only [stmtAcq, stmtCalls, stmtRens, List.mem_append] at h1 h2 h3
  exact ⟨⟨fun c hc => h1 c (Or.inl hc), fun g hg => h2 g (Or.inl hg), fun r hr => h3 r (Or.inl hr)⟩,
    ⟨fun c hc => h1 c (Or.inr hc), fun g hg => h2 g (Or.inr hg), fun r hr => h3 r (Or.inr hr)⟩⟩

theorem static_loop {ce : Bool} {a : Stmt} (h : Static cls tbl T (.loop ce a)) :
    Static cls tbl T a := by
  obtain ⟨h1, h2, h3⟩ := h
  simp only [stmtAcq, stmtCalls, stmtRens] at h1 h2 h3
  exact ⟨h1, h2, h3⟩

theorem static_scope {a : Stmt} (h : Static cls tbl T (.scope a)) : Static cls tbl T a := by
  obtain ⟨h1, h2, h3⟩ := h
  simp only [stmtAcq, stmtCalls, stmtRens] at h1 h2 h3
  exact ⟨h1, h2, h3⟩

theorem static_block {a : Stmt} (h : Static cls tbl T (.block a)) : Static cls tbl T a := by
  obtain ⟨h1, h2, h3⟩ := h
  simp only [stmtAcq, stmtCalls, stmtRens] at h1 h2 h3
  exact ⟨h1, h2, h3⟩

end StaticLemmas

theorem rn_own {ren : List (Nat × Nat)} (ho : renOwnOk ren = true) {x : Nat}
    (hx : isOwn x = true) : isOwn (rn ren x) = true := by
  rcases rn_cases ren x with h | h
  · rw [h]; exact hx
  · unfold renOwnOk at ho
    have := List.all_eq_true.mp ho _ h
    simp only [hx, Bool.not_true, Bool.false_or] at this
    exact this

/-! ## Contexts

A function body is replayed inside a *context*: its lock names are renamed by `r`, the
part of its abstract held multiset selected by `keep` is really there (renamed), the rest
(ghosts) is covered by the outer frame `F`; `Z` is what outer invocations hold through
piles; `T` is the table entry of the function. -/

structure Ctx where
  r : Nat → Nat
  keep : Nat → Bool
  F : List Nat
  Z : Nat → List Nat
  T : List Nat

structure Ctx.OK (cls : List Nat) (ES : Edges) (k : Ctx) : Prop where
  cls_r : ∀ x, gcls (k.r x) = gcls x
  own_r : ∀ x, isOwn x = true → isOwn (k.r x) = true
  keep_ng : ∀ x, isGhost x = false → k.keep x = true
  edgesF : ∀ x, x ∈ k.F → ∀ c, c ∈ k.T → (clsOf cls x, c) ∈ ES

/-- Relation between the replay state and the checker's abstract state. -/
structure Rel (k : Ctx) (st : RS) (ha : List Nat) (c : CS) : Prop where
  held : st.held.Perm ((ha.filter k.keep).map k.r ++ k.F)
  cover : ∀ z, z ∈ ha → k.keep z = false → ∃ w, w ∈ k.F ∧ gcls w = gcls z
  piles : ∀ q, Sub ((getP c.piles q).map k.r ++ k.Z q) (st.piles q)
  pok : PilesOK c
  sorted : PSorted c.piles

theorem clsOf_r {cls : List Nat} {ES : Edges} {k : Ctx} (hk : k.OK cls ES) (x : Nat) :
    clsOf cls (k.r x) = clsOf cls x := by
  unfold clsOf; rw [hk.cls_r]

theorem clsOf_gcls {cls : List Nat} {x y : Nat} (h : gcls x = gcls y) :
    clsOf cls x = clsOf cls y := by
  unfold clsOf; rw [h]

theorem held_mem {keep : Nat → Bool} {r : Nat → Nat} {F H ha : List Nat} {x : Nat}
    (h : H.Perm ((ha.filter keep).map r ++ F)) (hx : x ∈ H) :
    (∃ y, y ∈ ha ∧ x = r y) ∨ x ∈ F := by
  rcases List.mem_append.mp (h.mem_iff.mp hx) with h1 | h1
  · obtain ⟨y, hy, rfl⟩ := List.mem_map.mp h1
    exact Or.inl ⟨y, (List.mem_filter.mp hy).1, rfl⟩
  · exact Or.inr h1

theorem held_cons {keep : Nat → Bool} {r : Nat → Nat} {F H ha ha' : List Nat} {l : Nat}
    (hk : keep l = true) (p : ha'.Perm (l :: ha)) (h : H.Perm ((ha.filter keep).map r ++ F)) :
    (r l :: H).Perm ((ha'.filter keep).map r ++ F) := by
  have p1 : (ha'.filter keep).Perm (l :: ha.filter keep) := by
    have := List.Perm.filter keep p
    rwa [List.filter_cons, if_pos hk] at this
  have p2 := List.Perm.append_right F (List.Perm.map r p1)
  exact (List.Perm.cons (r l) h).trans p2.symm

theorem held_erase {keep : Nat → Bool} {r : Nat → Nat} {F H ha ha' : List Nat} {l : Nat}
    (hk : keep l = true) (p : ha.Perm (l :: ha')) (h : H.Perm ((ha.filter keep).map r ++ F)) :
    (H.erase (r l)).Perm ((ha'.filter keep).map r ++ F) := by
  have p1 : (ha.filter keep).Perm (l :: ha'.filter keep) := by
    have := List.Perm.filter keep p
    rwa [List.filter_cons, if_pos hk] at this
  have p2 : H.Perm (r l :: ((ha'.filter keep).map r ++ F)) :=
    h.trans (List.Perm.append_right F (List.Perm.map r p1))
  have := List.Perm.erase (r l) p2
  rwa [List.erase_cons_head] at this

theorem upd_same (P : Nat → List Nat) (p : Nat) (v : List Nat) : upd P p v p = v := by
  unfold upd; rw [if_pos rfl]

theorem upd_other (P : Nat → List Nat) {p q : Nat} (v : List Nat) (h : ¬ q = p) :
    upd P p v q = P q := by
  unfold upd; rw [if_neg h]

theorem upd_self (P : Nat → List Nat) (p : Nat) : upd P p (P p) = P := by
  funext q
  unfold upd
  split
  · rename_i h; rw [h]
  · rfl

theorem upd_upd (P : Nat → List Nat) (p : Nat) (v w : List Nat) :
    upd (upd P p v) p w = upd P p w := by
  funext q
  unfold upd
  split <;> rfl

theorem stRun_prels (r : Nat → Nat) (p : Nat) : ∀ (Y : List Nat) (st : RS),
    stRun st ((Y.map (Ev.prel p)).map (evMap r)) =
      ⟨mdiff st.held (Y.map r), upd st.piles p (mdiff (st.piles p) (Y.map r))⟩
  | [], st => by
    simp only [List.map_nil, stRun, mdiff, upd_self]
  | y :: Y, st => by
    simp only [List.map_cons, stRun, evMap, stepR, mdiff]
    rw [stRun_prels r p Y]
    simp only [upd_same, upd_upd]

theorem pairs_prels (cls : List Nat) (r : Nat → Nat) (p : Nat) : ∀ (Y : List Nat) (st : RS),
    pairsFrom cls st ((Y.map (Ev.prel p)).map (evMap r)) = []
  | [], st => rfl
  | y :: Y, st => by
    simp only [List.map_cons, pairsFrom, evMap, stepPairs, List.nil_append]
    exact pairs_prels cls r p Y _

/-! ## Simulation inside a context -/

section Sim
variable (cls : List Nat) (tbl : AcqTbl) (sig : Sig) (ES : Edges) (C : Nat → List Ev → Prop)

/-- What the induction on the call depth assumes about callees: replayed inside any context
that provides the (non-ghost part of the) entry requirement and covers its ghosts, a callee
run contributes only extracted edges, ends holding the non-ghost part of `post` in place of
`req`, and leaves the outer piles alone. -/
def CalleeE : Prop :=
  ∀ g t, C g t → ∀ req post, sig.get g = some (req, post) →
    ∀ (k : Ctx) (st : RS), k.OK cls ES → k.T = tbl.get g → k.keep = (fun x => !isGhost x) →
      Rel k st (sortS req) CS.init →
      (∀ e, e ∈ pairsFrom cls st (t.map (evMap k.r)) → e ∈ ES) ∧
      (stRun st (t.map (evMap k.r))).held.Perm
        ((post.filter (fun x => !isGhost x)).map k.r ++ k.F) ∧
      ∀ q, Sub (k.Z q) ((stRun st (t.map (evMap k.r))).piles q)

def SimE (s : Stmt) : Prop :=
  ∀ (k : Ctx) (ha : List Nat) (c : CS) (R R' : Outs) (es0 es1 : Edges) (st : RS)
    (tr : List Ev) (o : Out) (c' : CS),
    k.OK cls ES → Static cls tbl k.T s →
    execA sig s ⟨ha, c⟩ = .ok R' → edgesS cls tbl sig s ⟨ha, c⟩ es0 = .ok (R, es1) →
    ESub es1 ES → Rel k st ha c → sem C s c tr o c' →
    o = .pnc ∨ ((∀ e, e ∈ pairsFrom cls st (tr.map (evMap k.r)) → e ∈ ES) ∧
      ∃ ha', (o, (⟨ha', c'⟩ : AS)) ∈ R' ∧ Rel k (stRun st (tr.map (evMap k.r))) ha' c')

variable {cls tbl sig ES C}

theorem simE_skip : SimE cls tbl sig ES C .skip := by
  intro k ha c R R' es0 es1 st tr o c' hk hs h1 h2 hsub hrel hsem
  simp only [execA, Except.ok.injEq] at h1
  simp only [sem] at hsem
  obtain ⟨rfl, rfl, rfl⟩ := hsem
  subst h1
  exact Or.inr ⟨fun e he => by simp [pairsFrom] at he, ha, List.mem_singleton.mpr rfl, hrel⟩

theorem simE_mark (a b : Nat) : SimE cls tbl sig ES C (.mark a b) := by
  intro k ha c R R' es0 es1 st tr o c' hk hs h1 h2 hsub hrel hsem
  simp only [execA, Except.ok.injEq] at h1
  simp only [sem] at hsem
  obtain ⟨rfl, rfl, rfl⟩ := hsem
  subst h1
  exact Or.inr ⟨fun e he => by simp [pairsFrom] at he, ha, List.mem_singleton.mpr rfl, hrel⟩

theorem simE_ret (t : Nat) : SimE cls tbl sig ES C (.ret t) := by
  intro k ha c R R' es0 es1 st tr o c' hk hs h1 h2 hsub hrel hsem
  simp only [execA, Except.ok.injEq] at h1
  simp only [sem] at hsem
  obtain ⟨rfl, rfl, rfl⟩ := hsem
  subst h1
  exact Or.inr ⟨fun e he => by simp [pairsFrom] at he, ha, List.mem_singleton.mpr rfl, hrel⟩

theorem simE_brk : SimE cls tbl sig ES C .brk := by
  intro k ha c R R' es0 es1 st tr o c' hk hs h1 h2 hsub hrel hsem
  simp only [execA, Except.ok.injEq] at h1
  simp only [sem] at hsem
  obtain ⟨rfl, rfl, rfl⟩ := hsem
  subst h1
  exact Or.inr ⟨fun e he => by simp [pairsFrom] at he, ha, List.mem_singleton.mpr rfl, hrel⟩

theorem simE_cont : SimE cls tbl sig ES C .cont := by
  intro k ha c R R' es0 es1 st tr o c' hk hs h1 h2 hsub hrel hsem
  simp only [execA, Except.ok.injEq] at h1
  simp only [sem] at hsem
  obtain ⟨rfl, rfl, rfl⟩ := hsem
  subst h1
  exact Or.inr ⟨fun e he => by simp [pairsFrom] at he, ha, List.mem_singleton.mpr rfl, hrel⟩

theorem simE_panic : SimE cls tbl sig ES C .panic := by
  intro k ha c R R' es0 es1 st tr o c' hk hs h1 h2 hsub hrel hsem
  simp only [sem] at hsem
  exact Or.inl hsem.2.1

theorem simE_unsupported (w : Nat) : SimE cls tbl sig ES C (.unsupported w) := by
  intro k ha c R R' es0 es1 st tr o c' hk hs h1 h2 hsub hrel hsem
  simp only [execA] at h1
  cases h1

theorem simE_setFlag (v : Nat) (b : Bool) : SimE cls tbl sig ES C (.setFlag v b) := by
  intro k ha c R R' es0 es1 st tr o c' hk hs h1 h2 hsub hrel hsem
  simp only [execA, Except.ok.injEq] at h1
  simp only [sem] at hsem
  obtain ⟨rfl, rfl, rfl⟩ := hsem
  subst h1
  exact Or.inr ⟨fun e he => by simp [pairsFrom] at he, ha, List.mem_singleton.mpr rfl,
    ⟨hrel.held, hrel.cover, hrel.piles, hrel.pok, hrel.sorted⟩⟩

theorem simE_need (cs : List Nat) : SimE cls tbl sig ES C (.need cs) := by
  intro k ha c R R' es0 es1 st tr o c' hk hs h1 h2 hsub hrel hsem
  simp only [execA] at h1
  simp only [sem] at hsem
  obtain ⟨rfl, rfl, rfl⟩ := hsem
  split at h1
  · cases h1
    exact Or.inr ⟨fun e he => by simp [pairsFrom, stepPairs, evMap] at he, ha,
      List.mem_singleton.mpr rfl, hrel⟩
  · cases h1

theorem simE_acq (l : Nat) : SimE cls tbl sig ES C (.acq l) := by
  intro k ha c R R' es0 es1 st tr o c' hk hs h1 h2 hsub hrel hsem
  simp only [execA] at h1
  simp only [edgesS, Except.ok.injEq, Prod.mk.injEq] at h2
  simp only [sem] at hsem
  obtain ⟨rfl, rfl, rfl⟩ := hsem
  by_cases hg : isGhost l = true
  · rw [if_pos hg] at h1; cases h1
  · rw [if_neg hg] at h1
    cases h1
    have hkl : k.keep l = true := hk.keep_ng l (eq_false_of_ne_true hg)
    refine Or.inr ⟨?_, insertS l ha, List.mem_singleton.mpr rfl, ?_⟩
    · intro e he
      simp only [List.map_cons, List.map_nil, evMap, pairsFrom, stepPairs, List.append_nil] at he
      by_cases ho : isOwn (k.r l) = true
      · rw [if_pos ho] at he; cases he
      · rw [if_neg ho] at he
        obtain ⟨x, hx, rfl⟩ := List.mem_map.mp he
        have hnown : ¬ isOwn l = true := fun h => ho (hk.own_r l h)
        rw [if_neg hnown] at h2
        rw [clsOf_r hk l]
        rcases held_mem hrel.held hx with ⟨y, hy, rfl⟩ | hxF
        · apply hsub
          rw [← h2.2, clsOf_r hk y]
          exact mem_addEdges.mpr (Or.inr ⟨clsOf cls y, List.mem_map.mpr ⟨y, hy, rfl⟩, rfl⟩)
        · refine hk.edgesF x hxF _ (hs.acq _ ?_)
          simp only [stmtAcq, if_neg hnown, List.mem_singleton]
    · refine ⟨held_cons hkl (insertS_perm l ha) hrel.held, ?_, hrel.piles, hrel.pok, hrel.sorted⟩
      intro z hz hkz
      rcases List.mem_cons.mp ((insertS_perm l ha).mem_iff.mp hz) with rfl | hz
      · rw [hkl] at hkz; cases hkz
      · exact hrel.cover z hz hkz

theorem simE_rel (l : Nat) : SimE cls tbl sig ES C (.rel l) := by
  intro k ha c R R' es0 es1 st tr o c' hk hs h1 h2 hsub hrel hsem
  simp only [execA] at h1
  simp only [sem] at hsem
  obtain ⟨rfl, rfl, rfl⟩ := hsem
  by_cases hg : isGhost l = true
  · rw [if_pos hg] at h1; cases h1
  · rw [if_neg hg] at h1
    by_cases hc : ha.contains l = true
    · rw [if_pos hc] at h1
      cases h1
      have hkl : k.keep l = true := hk.keep_ng l (eq_false_of_ne_true hg)
      have hm : l ∈ ha := List.contains_iff_mem.mp hc
      refine Or.inr ⟨fun e he => by simp [pairsFrom, stepPairs, evMap] at he, ha.erase l,
        List.mem_singleton.mpr rfl, ?_⟩
      exact ⟨held_erase hkl (List.perm_cons_erase hm) hrel.held,
        fun z hz hkz => hrel.cover z (List.mem_of_mem_erase hz) hkz,
        hrel.piles, hrel.pok, hrel.sorted⟩
    · rw [if_neg hc] at h1; cases h1

theorem filter_keep_split {keep : Nat → Bool} {ha X o : List Nat} (p : ha.Perm (X ++ o))
    (hX : ∀ x, x ∈ X → keep x = true) : (ha.filter keep).Perm (X ++ o.filter keep) := by
  have := List.Perm.filter keep p
  rwa [List.filter_append, List.filter_eq_self.mpr hX] at this

theorem simE_pileLock (p l : Nat) : SimE cls tbl sig ES C (.pileLock p l) := by
  intro k ha c R R' es0 es1 st tr o c' hk hs h1 h2 hsub hrel hsem
  simp only [execA] at h1
  simp only [edgesS] at h2
  simp only [sem] at hsem
  obtain ⟨rfl, rfl, rfl⟩ := hsem
  by_cases hg : isGhost l = true
  · rw [if_pos hg] at h1; cases h1
  · rw [if_neg hg] at h1
    cases h1
    have hg' := eq_false_of_ne_true hg
    have hkl : k.keep l = true := hk.keep_ng l hg'
    split at h2
    · cases h2
    · rename_i outside hrem
      simp only [Except.ok.injEq, Prod.mk.injEq] at h2
      refine Or.inr ⟨?_, insertS l ha, List.mem_singleton.mpr rfl, ?_⟩
      · intro e he
        simp only [List.map_cons, List.map_nil, evMap, pairsFrom, stepPairs, List.append_nil] at he
        obtain ⟨x, hx, rfl⟩ := List.mem_map.mp he
        rw [clsOf_r hk l]
        have hx1 : x ∈ mdiff st.held ((getP c.piles p).map k.r) :=
          mdiff_anti (sub_left (hrel.piles p)) hx
        have pa := removeAll_perm _ _ _ hrem
        have pf := filter_keep_split (keep := k.keep) pa
          (fun x hx => hk.keep_ng x (pilesOK_get hrel.pok p x hx))
        have ph : st.held.Perm ((getP c.piles p).map k.r ++
            ((outside.filter k.keep).map k.r ++ k.F)) := by
          refine hrel.held.trans ?_
          rw [← List.append_assoc, ← List.map_append]
          exact List.Perm.append_right _ (List.Perm.map _ pf)
        rcases List.mem_append.mp ((mdiff_perm ph).mem_iff.mp hx1) with hx2 | hxF
        · obtain ⟨y, hy, rfl⟩ := List.mem_map.mp hx2
          apply hsub
          rw [← h2.2, clsOf_r hk y]
          exact mem_addEdges.mpr (Or.inr ⟨clsOf cls y,
            List.mem_map.mpr ⟨y, (List.mem_filter.mp hy).1, rfl⟩, rfl⟩)
        · refine hk.edgesF x hxF _ (hs.acq _ ?_)
          simp only [stmtAcq, List.mem_singleton]
      · refine ⟨held_cons hkl (insertS_perm l ha) hrel.held, ?_, ?_, ?_, setP_sorted _ _ _ hrel.sorted⟩
        · intro z hz hkz
          rcases List.mem_cons.mp ((insertS_perm l ha).mem_iff.mp hz) with rfl | hz
          · rw [hkl] at hkz; cases hkz
          · exact hrel.cover z hz hkz
        · intro q
          show Sub ((getP (setP c.piles p (insertS l (getP c.piles p))) q).map k.r ++ k.Z q)
            (upd st.piles p (k.r l :: st.piles p) q)
          rw [getP_setP _ _ _ _ hrel.sorted]
          by_cases hq : q = p
          · subst hq
            rw [if_pos rfl, upd_same]
            exact sub_perm_left (List.Perm.map k.r (insertS_perm l _)).symm
              (sub_cons (k.r l) (hrel.piles q))
          · rw [if_neg hq, upd_other _ _ hq]
            exact hrel.piles q
        · refine pilesOK_set hrel.pok p ?_
          intro x hx
          rcases List.mem_cons.mp ((insertS_perm l _).mem_iff.mp hx) with rfl | hx
          · exact hg'
          · exact pilesOK_get hrel.pok p x hx

theorem simE_pileUnlock (p l : Nat) : SimE cls tbl sig ES C (.pileUnlock p l) := by
  intro k ha c R R' es0 es1 st tr o c' hk hs h1 h2 hsub hrel hsem
  simp only [execA] at h1
  simp only [sem] at hsem
  by_cases hg : isGhost l = true
  · rw [if_pos hg] at h1; cases h1
  · rw [if_neg hg] at h1
    by_cases hq : (getP c.piles p).contains l = true
    · rw [if_pos hq] at h1 hsem
      obtain ⟨rfl, rfl, rfl⟩ := hsem
      by_cases hc : ha.contains l = true
      · rw [if_pos hc] at h1
        cases h1
        have hkl : k.keep l = true := hk.keep_ng l (eq_false_of_ne_true hg)
        have hm : l ∈ ha := List.contains_iff_mem.mp hc
        have hmp : l ∈ getP c.piles p := List.contains_iff_mem.mp hq
        refine Or.inr ⟨fun e he => by simp [pairsFrom, stepPairs, evMap] at he, ha.erase l,
          List.mem_singleton.mpr rfl, ?_⟩
        refine ⟨held_erase hkl (List.perm_cons_erase hm) hrel.held,
          fun z hz hkz => hrel.cover z (List.mem_of_mem_erase hz) hkz, ?_,
          pilesOK_set hrel.pok p (fun x hx => pilesOK_get hrel.pok p x (List.mem_of_mem_erase hx)),
          setP_sorted _ _ _ hrel.sorted⟩
        intro q
        show Sub ((getP (setP c.piles p ((getP c.piles p).erase l)) q).map k.r ++ k.Z q)
          (upd st.piles p ((st.piles p).erase (k.r l)) q)
        rw [getP_setP _ _ _ _ hrel.sorted]
        by_cases hqp : q = p
        · subst hqp
          rw [if_pos rfl, upd_same]
          exact sub_perm_left (map_erase_perm k.r hmp)
            (sub_erase (List.mem_map.mpr ⟨l, hmp, rfl⟩) (hrel.piles q))
        · rw [if_neg hqp, upd_other _ _ hqp]
          exact hrel.piles q
      · rw [if_neg hc] at h1; cases h1
    · rw [if_neg hq] at h1; cases h1

theorem simE_pileUnlockAll (p : Nat) : SimE cls tbl sig ES C (.pileUnlockAll p) := by
  intro k ha c R R' es0 es1 st tr o c' hk hs h1 h2 hsub hrel hsem
  simp only [execA] at h1
  simp only [sem] at hsem
  obtain ⟨rfl, rfl, rfl⟩ := hsem
  split at h1
  · rename_i hr hrem
    cases h1
    refine Or.inr ⟨fun e he => (by rw [pairs_prels] at he; cases he), hr,
      List.mem_singleton.mpr rfl, ?_⟩
    rw [stRun_prels]
    have pa := removeAll_perm _ _ _ hrem
    have pf := filter_keep_split (keep := k.keep) pa
      (fun x hx => hk.keep_ng x (pilesOK_get hrel.pok p x hx))
    have ph : st.held.Perm ((getP c.piles p).map k.r ++ ((hr.filter k.keep).map k.r ++ k.F)) := by
      refine hrel.held.trans ?_
      rw [← List.append_assoc, ← List.map_append]
      exact List.Perm.append_right _ (List.Perm.map _ pf)
    refine ⟨mdiff_perm ph, ?_, ?_, pilesOK_set hrel.pok p (fun x hx => by cases hx),
      setP_sorted _ _ _ hrel.sorted⟩
    · intro z hz hkz
      exact hrel.cover z (pa.mem_iff.mpr (List.mem_append_right _ hz)) hkz
    · intro q
      show Sub ((getP (setP c.piles p []) q).map k.r ++ k.Z q)
        (upd st.piles p (mdiff (st.piles p) ((getP c.piles p).map k.r)) q)
      rw [getP_setP _ _ _ _ hrel.sorted]
      by_cases hqp : q = p
      · subst hqp
        rw [if_pos rfl, upd_same]
        exact sub_mdiff (hrel.piles q)
      · rw [if_neg hqp, upd_other _ _ hqp]
        exact hrel.piles q
  · cases h1

/-- The context in which a callee runs. -/
def callCtx (k : Ctx) (ren : List (Nat × Nat)) (frame : List Nat) (c : CS) (T : List Nat) : Ctx :=
  ⟨k.r ∘ rn ren, fun x => !isGhost x, (frame.filter k.keep).map k.r ++ k.F,
    fun q => (getP c.piles q).map k.r ++ k.Z q, T⟩

theorem simE_call (hCE : CalleeE cls tbl sig ES C) (g : Nat) (ren : List (Nat × Nat)) :
    SimE cls tbl sig ES C (.call g ren) := by
  intro k ha c R R' es0 es1 st tr o c' hk hs h1 h2 hsub hrel hsem
  simp only [execA] at h1
  simp only [edgesS] at h2
  simp only [sem] at hsem
  obtain ⟨t, hct, rfl, rfl, rfl⟩ := hsem
  split at h1
  · cases h1
  · rename_i frame hnew hcall
    cases h1
    simp only [hcall, Except.ok.injEq, Prod.mk.injEq] at h2
    obtain ⟨req, post, hsig, hr, hrem, hcov, rfl⟩ := callA_ok hcall
    rw [evMap_rn]
    have hown : renOwnOk ren = true := hs.rens ren (by simp [stmtRens])
    have hTg : ∀ c, c ∈ tbl.get g → c ∈ k.T := hs.calls g (by simp [stmtCalls])
    have pa := removeAll_perm _ _ _ hrem
    have hmapk : ∀ (xs : List Nat) x, x ∈ (xs.filter (fun l => !isGhost l)).map (rn ren) →
        k.keep x = true := by
      intro xs x hx
      obtain ⟨y, hy, rfl⟩ := List.mem_map.mp hx
      apply hk.keep_ng
      rw [rn_isGhost hr]
      simpa using (List.mem_filter.mp hy).2
    have pf := filter_keep_split (keep := k.keep) pa (hmapk req)
    have hk' : (callCtx k ren frame c' (tbl.get g)).OK cls ES := by
      refine ⟨?_, ?_, ?_, ?_⟩
      · intro x
        show gcls (k.r (rn ren x)) = gcls x
        rw [hk.cls_r, rn_gcls hr]
      · intro x hx
        exact hk.own_r _ (rn_own hown hx)
      · intro x hx
        show (!isGhost x) = true
        rw [hx]; rfl
      · intro x hx cc hcc
        rcases List.mem_append.mp hx with hx | hx
        · obtain ⟨z, hz, rfl⟩ := List.mem_map.mp hx
          rw [clsOf_r hk z]
          apply hsub
          rw [← h2.2]
          exact mem_callEdges.mpr (Or.inr ⟨cc, hcc, clsOf cls z,
            List.mem_map.mpr ⟨z, (List.mem_filter.mp hz).1, rfl⟩, rfl⟩)
        · exact hk.edgesF x hx cc (hTg cc hcc)
    have hrel' : Rel (callCtx k ren frame c' (tbl.get g)) st (sortS req) CS.init := by
      refine ⟨?_, ?_, ?_, pilesOK_init, List.Pairwise.nil⟩
      · show st.held.Perm ((((sortS req).filter (fun x => !isGhost x)).map (k.r ∘ rn ren)) ++
          ((frame.filter k.keep).map k.r ++ k.F))
        refine hrel.held.trans ?_
        rw [← List.append_assoc]
        refine List.Perm.append_right k.F ?_
        refine (List.Perm.map k.r pf).trans ?_
        rw [List.map_append, List.map_map]
        exact List.Perm.append_right _
          (List.Perm.map _ (List.Perm.filter _ (sortS_perm req))).symm
      · intro z hz hkz
        have hzg : isGhost z = true := by
          have : (!isGhost z) = false := hkz
          simpa using this
        have hzr : z ∈ req.filter isGhost :=
          List.mem_filter.mpr ⟨(sortS_perm req).mem_iff.mp hz, hzg⟩
        obtain ⟨y, hy, hcy⟩ := holdsClass_iff.mp (hcov z hzr)
        have hgy : gcls y = gcls z := by simpa using hcy
        by_cases hky : k.keep y = true
        · exact ⟨k.r y, List.mem_append_left _
            (List.mem_map.mpr ⟨y, List.mem_filter.mpr ⟨hy, hky⟩, rfl⟩), by rw [hk.cls_r, hgy]⟩
        · obtain ⟨w, hw, hgw⟩ := hrel.cover y (pa.mem_iff.mpr (List.mem_append_right _ hy))
            (eq_false_of_ne_true hky)
          exact ⟨w, List.mem_append_right _ hw, by rw [hgw, hgy]⟩
      · intro q
        show Sub ((getP [] q).map (k.r ∘ rn ren) ++ ((getP c'.piles q).map k.r ++ k.Z q)) (st.piles q)
        simpa [getP] using hrel.piles q
    obtain ⟨hpairs, hheld, hpiles⟩ := hCE g t hct req post hsig _ st hk' rfl rfl hrel'
    refine Or.inr ⟨hpairs, _, List.mem_singleton.mpr rfl, ?_⟩
    have pnew := addAll_perm frame ((post.filter (fun l => !isGhost l)).map (rn ren))
    refine ⟨?_, ?_, hpiles, hrel.pok, hrel.sorted⟩
    · have pf2 := filter_keep_split (keep := k.keep) pnew (hmapk post)
      refine List.Perm.trans hheld ?_
      show (((post.filter (fun x => !isGhost x)).map (k.r ∘ rn ren)) ++
          ((frame.filter k.keep).map k.r ++ k.F)).Perm _
      rw [← List.append_assoc]
      refine List.Perm.append_right k.F ?_
      refine List.Perm.trans ?_ (List.Perm.map k.r pf2).symm
      rw [List.map_append, List.map_map]
    · intro z hz hkz
      rcases List.mem_append.mp (pnew.mem_iff.mp hz) with hz | hz
      · rw [hmapk post z hz] at hkz; cases hkz
      · exact hrel.cover z (pa.mem_iff.mpr (List.mem_append_right _ hz)) hkz

theorem simE_seq {a b : Stmt} (ia : SimE cls tbl sig ES C a) (ib : SimE cls tbl sig ES C b) :
    SimE cls tbl sig ES C (.seq a b) := by
  intro k ha c R R' es0 es1 st tr o c' hk hs h1 h2 hsub hrel hsem
  obtain ⟨hsa, hsb⟩ := static_seq hs
  simp only [execA] at h1
  simp only [edgesS] at h2
  split at h1
  · cases h1
  · rename_i ra hra
    split at h2
    · cases h2
    · rename_i rb esa hrb
      have := edgesS_outs_eq_execA cls tbl sig a _ _ _ _ _ hra hrb
      subst this
      have hsub_a : ESub esa ES := (bindE_mono (kmono_seq cls tbl sig b) h2).trans hsub
      simp only [sem] at hsem
      rcases hsem with ⟨c1, t1, t2, s1, s2, rfl⟩ | ⟨hne, s1⟩
      · rcases ia k ha c _ _ es0 esa st t1 .norm c1 hk hsa hra hrb hsub_a hrel s1 with
          hpn | ⟨hp1, ha1, m1, rel1⟩
        · cases hpn
        · obtain ⟨R1', k1, sub⟩ := bindAll_mem h1 m1
          rw [if_pos rfl] at k1
          obtain ⟨e1, R1, e2, kk, hsub2, _⟩ := bindE_mem (kmono_seq cls tbl sig b) h2 m1
          rw [if_pos rfl] at kk
          rcases ib k ha1 c1 _ _ e1 e2 _ t2 o c' hk hsb k1 kk (hsub2.trans hsub) rel1 s2 with
            hpn | ⟨hp2, ha2, m2, rel2⟩
          · exact Or.inl hpn
          · refine Or.inr ⟨?_, ha2, sub _ m2, ?_⟩
            · intro e he
              rw [List.map_append, mem_pairsFrom_append] at he
              rcases he with he | he
              · exact hp1 e he
              · exact hp2 e he
            · rw [List.map_append, stRun_append]; exact rel2
      · rcases ia k ha c _ _ es0 esa st tr o c' hk hsa hra hrb hsub_a hrel s1 with
          hpn | ⟨hp1, ha1, m1, rel1⟩
        · exact Or.inl hpn
        · obtain ⟨R1', k1, sub⟩ := bindAll_mem h1 m1
          rw [if_neg hne] at k1
          cases k1
          exact Or.inr ⟨hp1, ha1, sub _ (List.mem_singleton.mpr rfl), rel1⟩

theorem simE_choice {a b : Stmt} (tag : Nat) (ia : SimE cls tbl sig ES C a)
    (ib : SimE cls tbl sig ES C b) : SimE cls tbl sig ES C (.choice tag a b) := by
  intro k ha c R R' es0 es1 st tr o c' hk hs h1 h2 hsub hrel hsem
  obtain ⟨hsa, hsb⟩ := static_choice hs
  simp only [execA] at h1
  simp only [edgesS] at h2
  split at h1
  · cases h1
  · rename_i ra1 hra1
    split at h1
    · cases h1
    · rename_i ra2 hra2
      cases h1
      split at h2
      · cases h2
      · rename_i rb1 esa hrb1
        split at h2
        · cases h2
        · rename_i rb2 esb hrb2
          simp only [Except.ok.injEq, Prod.mk.injEq] at h2
          have hsb_ : ESub esb ES := by rw [h2.2]; exact hsub
          have hsa_ : ESub esa ES := (edgesS_mono cls tbl sig b _ _ _ _ hrb2).trans hsb_
          simp only [sem] at hsem
          rcases hsem with s1 | s2
          · rcases ia k ha c _ _ es0 esa st tr o c' hk hsa hra1 hrb1 hsa_ hrel s1 with
              hpn | ⟨hp1, ha1, m1, rel1⟩
            · exact Or.inl hpn
            · exact Or.inr ⟨hp1, ha1, mem_union.mpr (Or.inl m1), rel1⟩
          · rcases ib k ha c _ _ esa esb st tr o c' hk hsb hra2 hrb2 hsb_ hrel s2 with
              hpn | ⟨hp1, ha1, m1, rel1⟩
            · exact Or.inl hpn
            · exact Or.inr ⟨hp1, ha1, mem_union.mpr (Or.inr m1), rel1⟩

theorem simE_ifFlag {a b : Stmt} (v : Nat) (ia : SimE cls tbl sig ES C a)
    (ib : SimE cls tbl sig ES C b) : SimE cls tbl sig ES C (.ifFlag v a b) := by
  intro k ha c R R' es0 es1 st tr o c' hk hs h1 h2 hsub hrel hsem
  obtain ⟨hsa, hsb⟩ := static_ifFlag hs
  simp only [execA] at h1
  simp only [edgesS] at h2
  simp only [sem] at hsem
  by_cases hf : getF c.flags v = true
  · rw [if_pos hf] at h1 h2 hsem
    exact ia k ha c R R' es0 es1 st tr o c' hk hsa h1 h2 hsub hrel hsem
  · rw [if_neg hf] at h1 h2 hsem
    exact ib k ha c R R' es0 es1 st tr o c' hk hsb h1 h2 hsub hrel hsem

theorem simE_scope {a : Stmt} (ia : SimE cls tbl sig ES C a) :
    SimE cls tbl sig ES C (.scope a) := by
  intro k ha c R R' es0 es1 st tr o c' hk hs h1 h2 hsub hrel hsem
  have hsa := static_scope hs
  simp only [execA] at h1
  simp only [edgesS] at h2
  split at h1
  · cases h1
  · rename_i ra hra
    cases h1
    split at h2
    · cases h2
    · rename_i rb esa hrb
      simp only [Except.ok.injEq, Prod.mk.injEq] at h2
      simp only [sem] at hsem
      obtain ⟨o1, s1, rfl⟩ := hsem
      rcases ia k ha c _ _ es0 esa st tr o1 c' hk hsa hra hrb (by rw [h2.2]; exact hsub) hrel s1 with
        hpn | ⟨hp1, ha1, m1, rel1⟩
      · subst hpn; exact Or.inl rfl
      · exact Or.inr ⟨hp1, ha1, List.mem_map.mpr ⟨_, m1, rfl⟩, rel1⟩

theorem simE_block {a : Stmt} (ia : SimE cls tbl sig ES C a) :
    SimE cls tbl sig ES C (.block a) := by
  intro k ha c R R' es0 es1 st tr o c' hk hs h1 h2 hsub hrel hsem
  have hsa := static_block hs
  simp only [execA] at h1
  simp only [edgesS] at h2
  split at h1
  · cases h1
  · rename_i ra hra
    cases h1
    split at h2
    · cases h2
    · rename_i rb esa hrb
      simp only [Except.ok.injEq, Prod.mk.injEq] at h2
      simp only [sem] at hsem
      obtain ⟨o1, s1, rfl⟩ := hsem
      rcases ia k ha c _ _ es0 esa st tr o1 c' hk hsa hra hrb (by rw [h2.2]; exact hsub) hrel s1 with
        hpn | ⟨hp1, ha1, m1, rel1⟩
      · subst hpn; exact Or.inl rfl
      · exact Or.inr ⟨hp1, ha1, List.mem_map.mpr ⟨_, m1, rfl⟩, rel1⟩

theorem simE_fin {a d : Stmt} (ia : SimE cls tbl sig ES C a) (id : SimE cls tbl sig ES C d) :
    SimE cls tbl sig ES C (.fin a d) := by
  intro k ha c R R' es0 es1 st tr o c' hk hs h1 h2 hsub hrel hsem
  obtain ⟨hsa, hsd⟩ := static_fin hs
  simp only [execA] at h1
  simp only [edgesS] at h2
  split at h1
  · cases h1
  · rename_i ra hra
    split at h2
    · cases h2
    · rename_i rb esa hrb
      have := edgesS_outs_eq_execA cls tbl sig a _ _ _ _ _ hra hrb
      subst this
      have hsub_a : ESub esa ES := (bindE_mono (kmono_fin cls tbl sig d) h2).trans hsub
      simp only [sem] at hsem
      obtain ⟨c1, t1, o1, s1, hcase⟩ := hsem
      rcases hcase with ⟨_, _, rfl, _⟩ | ⟨hne, t2, o2, s2, rfl, rfl⟩
      · exact Or.inl rfl
      · rcases ia k ha c _ _ es0 esa st t1 o1 c1 hk hsa hra hrb hsub_a hrel s1 with
          hpn | ⟨hp1, ha1, m1, rel1⟩
        · exact absurd hpn hne
        · obtain ⟨R1', k1, sub⟩ := bindAll_mem h1 m1
          rw [if_neg hne] at k1
          obtain ⟨e1, R1, e2, kk, hsub2, _⟩ := bindE_mem (kmono_fin cls tbl sig d) h2 m1
          rw [if_neg hne] at kk
          split at k1
          · cases k1
          · rename_i r2 hr2
            cases k1
            split at kk
            · cases kk
            · rename_i r3 es3 hr3
              simp only [Except.ok.injEq, Prod.mk.injEq] at kk
              rcases id k ha1 c1 _ _ e1 es3 _ t2 o2 c' hk hsd hr2 hr3
                  (by rw [kk.2]; exact hsub2.trans hsub) rel1 s2 with hpn | ⟨hp2, ha2, m2, rel2⟩
              · subst hpn; exact Or.inl rfl
              · refine Or.inr ⟨?_, ha2, sub _ (List.mem_map.mpr ⟨_, m2, rfl⟩), ?_⟩
                · intro e he
                  rw [List.map_append, mem_pairsFrom_append] at he
                  rcases he with he | he
                  · exact hp1 e he
                  · exact hp2 e he
                · rw [List.map_append, stRun_append]; exact rel2

theorem simE_loop {a : Stmt} (ce : Bool) (ia : SimE cls tbl sig ES C a) :
    SimE cls tbl sig ES C (.loop ce a) := by
  intro k ha c R R' es0 es1 st tr o c' hk hs h1 h2 hsub hrel hsem
  have hsa := static_loop hs
  simp only [execA] at h1
  simp only [edgesS] at h2
  split at h1
  · cases h1
  · rename_i ra hra
    split at h2
    · cases h2
    · rename_i rb esa hrb
      split at h2
      · cases h2
      · rename_i r' hr'
        simp only [Except.ok.injEq, Prod.mk.injEq] at h2
        have hsub_a : ESub esa ES := by rw [h2.2]; exact hsub
        obtain ⟨hinv, hnorm, hbrk, hret⟩ := loopOuts_ok h1
        simp only [sem] at hsem
        obtain ⟨n, hn⟩ := hsem
        clear h1 h2 hr'
        induction n generalizing st tr with
        | zero =>
          simp only [iter] at hn
          obtain ⟨hce, rfl, rfl, rfl⟩ := hn
          exact Or.inr ⟨fun e he => by simp [pairsFrom] at he, ha, hnorm hce, hrel⟩
        | succ n ih =>
          simp only [iter] at hn
          obtain ⟨t1, o1, c1, s1, hcase⟩ := hn
          rcases ia k ha c _ _ es0 esa st t1 o1 c1 hk hsa hra hrb hsub_a hrel s1 with
            hpn | ⟨hp1, ha1, m1, rel1⟩
          · subst hpn
            rcases hcase with ⟨hx | hx, _⟩ | ⟨hx, _⟩ | ⟨_, _, rfl, _⟩
            · cases hx
            · cases hx
            · cases hx
            · exact Or.inl rfl
          · rcases hcase with ⟨hnc, t2, it2, rfl⟩ | ⟨rfl, rfl, rfl, rfl⟩ | ⟨hrp, rfl, rfl, rfl⟩
            · have hs' := hinv o1 _ m1 hnc
              injection hs' with hs1 hs2
              subst hs1 hs2
              rcases ih _ t2 rel1 it2 with hpn | ⟨hp2, ha2, m2, rel2⟩
              · exact Or.inl hpn
              · refine Or.inr ⟨?_, ha2, m2, ?_⟩
                · intro e he
                  rw [List.map_append, mem_pairsFrom_append] at he
                  rcases he with he | he
                  · exact hp1 e he
                  · exact hp2 e he
                · rw [List.map_append, stRun_append]; exact rel2
            · exact Or.inr ⟨hp1, ha1, hbrk _ m1, rel1⟩
            · rcases hrp with rfl | rfl
              · exact Or.inr ⟨hp1, ha1, hret _ m1, rel1⟩
              · exact Or.inl rfl

/-- The simulation holds for every statement. -/
theorem simE_all (hCE : CalleeE cls tbl sig ES C) (s : Stmt) : SimE cls tbl sig ES C s := by
  induction s with
  | skip => exact simE_skip
  | acq l => exact simE_acq l
  | rel l => exact simE_rel l
  | pileLock p l => exact simE_pileLock p l
  | pileUnlock p l => exact simE_pileUnlock p l
  | pileUnlockAll p => exact simE_pileUnlockAll p
  | call g ren => exact simE_call hCE g ren
  | seq a b ia ib => exact simE_seq ia ib
  | choice tag a b ia ib => exact simE_choice tag ia ib
  | loop ce body ib => exact simE_loop ce ib
  | fin body d ib id => exact simE_fin ib id
  | scope s is => exact simE_scope is
  | block s is => exact simE_block is
  | setFlag v b => exact simE_setFlag v b
  | ifFlag v a b ia ib => exact simE_ifFlag v ia ib
  | ret t => exact simE_ret t
  | brk => exact simE_brk
  | cont => exact simE_cont
  | panic => exact simE_panic
  | unsupported w => exact simE_unsupported w
  | need cs => exact simE_need cs
  | mark a b => exact simE_mark a b

end Sim

/-! ## Whole programs -/

theorem edgesProg_spec (cls : List Nat) (tbl : AcqTbl) (sig : Sig) :
    ∀ (prog : Prog) (es ES : Edges), edgesProg cls tbl sig prog es = some ES →
      ESub es ES ∧ ∀ f body, (f, body) ∈ prog → ∃ req post es0 R es1,
        sig.get f = some (req, post) ∧
        edgesS cls tbl sig body ⟨sortS req, CS.init⟩ es0 = .ok (R, es1) ∧ ESub es1 ES
  | [], es, ES, h => by
    simp only [edgesProg, Option.some.injEq] at h
    subst h
    exact ⟨ESub.refl _, fun f body hm => by cases hm⟩
  | (f0, b0) :: rest, es, ES, h => by
    unfold edgesProg at h
    split at h
    · cases h
    · rename_i req post hsig
      split at h
      · cases h
      · rename_i R es1 hE
        obtain ⟨hsub, hall⟩ := edgesProg_spec cls tbl sig rest es1 ES h
        refine ⟨(edgesS_mono cls tbl sig _ _ _ _ _ hE).trans hsub, ?_⟩
        intro f body hm
        rcases List.mem_cons.mp hm with heq | hm
        · cases heq
          exact ⟨req, post, es, R, es1, hsig, hE, hsub⟩
        · exact hall f body hm

theorem static_of_prog {cls : List Nat} {tbl : AcqTbl} {prog : Prog}
    (hcl : acqClosed cls tbl prog = true) (hown : ownOk prog = true) {f : Nat} {body : Stmt}
    (hm : (f, body) ∈ prog) : Static cls tbl (tbl.get f) body := by
  unfold acqClosed at hcl
  unfold ownOk at hown
  have h1 := List.all_eq_true.mp hcl _ hm
  have h2 := List.all_eq_true.mp hown _ hm
  simp only [Bool.and_eq_true, List.all_eq_true, List.contains_iff_mem] at h1 h2
  exact ⟨h1.1, fun g hg c hc => h1.2 g hg c hc, h2⟩

/-- Everything the final theorem assumes about the program, with `ES` the extracted edges. -/
structure ProgOK (cls : List Nat) (tbl : AcqTbl) (sig : Sig) (prog : Prog) (ES : Edges) : Prop where
  cons : consistent sig prog = true
  closed : acqClosed cls tbl prog = true
  own : ownOk prog = true
  edges : ∀ f body, (f, body) ∈ prog → ∃ req post es0 R es1,
    sig.get f = some (req, post) ∧
    edgesS cls tbl sig body ⟨sortS req, CS.init⟩ es0 = .ok (R, es1) ∧ ESub es1 ES

section Prog
variable {cls : List Nat} {tbl : AcqTbl} {sig : Sig} {prog : Prog} {ES : Edges}

/-- One function body, replayed in a context that matches its entry requirement. -/
theorem body_sim (hP : ProgOK cls tbl sig prog ES) {C : Nat → List Ev → Prop}
    (hCE : CalleeE cls tbl sig ES C) {g : Nat} {body : Stmt} {req post : List Nat}
    (hm : (g, body) ∈ prog) (hsig : sig.get g = some (req, post))
    (k : Ctx) (st : RS) (hk : k.OK cls ES) (hT : k.T = tbl.get g)
    (hrel : Rel k st (sortS req) CS.init)
    {tr : List Ev} {o : Out} {c' : CS} (hsem : sem C body CS.init tr o c')
    (ho : o = .norm ∨ o = .ret) :
    (∀ e, e ∈ pairsFrom cls st (tr.map (evMap k.r)) → e ∈ ES) ∧
      Rel k (stRun st (tr.map (evMap k.r))) (sortS post) c' := by
  have hchk : checkFn sig g body = true := by
    have := hP.cons
    unfold consistent at this
    exact (List.all_eq_true.mp this) _ hm
  unfold checkFn at hchk
  rw [hsig] at hchk
  simp only at hchk
  split at hchk
  · cases hchk
  · rename_i r hr
    obtain ⟨req', post', es0, R, es1, hsig', hE, hsub⟩ := hP.edges g body hm
    rw [hsig] at hsig'
    cases hsig'
    have hst : Static cls tbl k.T body := by
      rw [hT]; exact static_of_prog hP.closed hP.own hm
    rcases simE_all hCE body k (sortS req) CS.init R r es0 es1 st tr o c' hk hst hr hE hsub
        hrel hsem with hpn | ⟨hp, ha', m, rel⟩
    · subst hpn; rcases ho with ho | ho <;> cases ho
    · have hfin := (List.all_eq_true.mp hchk) _ m
      unfold okFinal at hfin
      have hheld : ha' = sortS post := by
        rcases ho with rfl | rfl <;> simpa using hfin
      subst hheld
      exact ⟨hp, rel⟩

theorem calleeE_all (hP : ProgOK cls tbl sig prog ES) :
    ∀ n, CalleeE cls tbl sig ES (fnSem prog n)
  | 0 => by intro g t h; cases h
  | n + 1 => by
    intro g t hg req post hsig k st hk hT hkeep hrel
    simp only [fnSem] at hg
    obtain ⟨body, hb, o, c', hs, ho⟩ := hg
    obtain ⟨hp, rel⟩ := body_sim hP (calleeE_all hP n) (mem_of_lookup g body prog hb) hsig
      k st hk hT hrel hs ho
    refine ⟨hp, ?_, fun q => sub_right (rel.piles q)⟩
    have h := rel.held
    rw [hkeep] at h
    refine h.trans (List.Perm.append_right _ (List.Perm.map _ ?_))
    exact List.Perm.filter _ (sortS_perm post)

end Prog

/-- **Soundness of the extracted acquired-while-holding relation.** For a program accepted
by the lock-balance checker (`consistent`), whose acquisition table is closed
(`acqClosed`), whose calls never rename an ownership token to a real lock (`ownOk`), and
for which `edgesProg` succeeds with edge set `es`: replay any returning run of any function
`f` from the locks its summary requires (ghosts included, no pile holding anything). Every
pair (class of a lock held at that moment, class of the lock being acquired) — where an
acquisition through a `LockPile` does not count the locks held through the same pile, and
taking an ownership token counts nothing — is in `es`. -/
theorem edges_sound (cls : List Nat) (tbl : AcqTbl) (sig : Sig) (prog : Prog) (es : Edges)
    (hc : consistent sig prog = true) (hcl : acqClosed cls tbl prog = true)
    (hown : ownOk prog = true) (he : edgesProg cls tbl sig prog [] = some es) :
    ∀ f tr, Exec prog f tr → ∀ req post, sig.get f = some (req, post) →
      ∀ e ∈ pairsRun cls req (fun _ => []) tr, e ∈ es := by
  intro f tr hex req post hsig e hmem
  have hP : ProgOK cls tbl sig prog es := ⟨hc, hcl, hown, (edgesProg_spec cls tbl sig prog [] es he).2⟩
  obtain ⟨n, hn⟩ := hex
  cases n with
  | zero => cases hn
  | succ n =>
    simp only [fnSem] at hn
    obtain ⟨body, hb, o, c', hs, ho⟩ := hn
    let k : Ctx := ⟨id, fun _ => true, [], fun _ => [], tbl.get f⟩
    have hk : k.OK cls es :=
      ⟨fun _ => rfl, fun _ h => h, fun _ _ => rfl, fun x hx => by cases hx⟩
    have hrel : Rel k ⟨req, fun _ => []⟩ (sortS req) CS.init := by
      refine ⟨?_, fun z _ hz => (by cases hz), fun q => ⟨[], (by show ([] : List Nat).Perm (((getP [] q).map id ++ []) ++ []); simp [getP])⟩,
        pilesOK_init, List.Pairwise.nil⟩
      show req.Perm (((sortS req).filter (fun _ => true)).map id ++ [])
      rw [List.append_nil, List.map_id, List.filter_eq_self.mpr (fun _ _ => rfl)]
      exact (sortS_perm req).symm
    have := (body_sim hP (calleeE_all hP n) (mem_of_lookup f body prog hb) hsig k
      ⟨req, fun _ => []⟩ hk rfl hrel hs ho).1 e
    rw [evMap_id] at this
    exact this hmem

/-- With a rank table that is strictly increasing along every extracted edge (`ranksOk`),
every acquisition of every run happens in increasing rank order: the class of the acquired
lock has a strictly larger rank than the class of every lock held at that moment (locks of
the same pile excepted for acquisitions through a `LockPile`). -/
theorem pairs_ranked (cls : List Nat) (tbl : AcqTbl) (sig : Sig) (prog : Prog) (es : Edges)
    (rt : List (Nat × Nat))
    (hc : consistent sig prog = true) (hcl : acqClosed cls tbl prog = true)
    (hown : ownOk prog = true) (he : edgesProg cls tbl sig prog [] = some es)
    (hr : ranksOk rt es = true) :
    ∀ f tr, Exec prog f tr → ∀ req post, sig.get f = some (req, post) →
      ∀ e ∈ pairsRun cls req (fun _ => []) tr, rankOf rt e.1 < rankOf rt e.2 := by
  intro f tr hex req post hsig e hmem
  have hm := edges_sound cls tbl sig prog es hc hcl hown he f tr hex req post hsig e hmem
  unfold ranksOk at hr
  have := List.all_eq_true.mp hr e hm
  simpa using this

/-! Non-vacuity: `f` takes `a` (class 1), then through pile 7 `b` and `c` (class 2), calls
`g` (which needs `a`, renamed from its own name `a'`, and takes `d` of class 3), and unlocks. -/
namespace Ex
def cls : List Nat := [0, 1, 2, 3]
def prog : Prog :=
  [(0, .seq (.acq 1000) (.seq (.pileLock 7 2000) (.seq (.pileLock 7 2001)
        (.seq (.call 1 [(1005, 1000)]) (.seq (.pileUnlockAll 7) (.rel 1000)))))),
   (1, .seq (.need [1]) (.seq (.acq 3000) (.rel 3000)))]
def sig : Sig := [(0, ([], [])), (1, ([1005], [1005]))]
def tbl : AcqTbl := [(0, [1, 2, 3]), (1, [3])]
def tr : List Ev :=
  [.acq 1000, .pacq 7 2000, .pacq 7 2001, .need [1], .acq 3000, .rel 3000,
   .prel 7 2000, .prel 7 2001, .rel 1000]

example : consistent sig prog = true := by decide
example : acqClosed cls tbl prog = true := by decide
example : ownOk prog = true := by decide
example : edgesProg cls tbl sig prog [] = some [(1, 3), (2, 3), (1, 2)] := by decide
/-- the second pile acquisition does not pair with the first one (same pile) -/
example : pairsRun cls [] (fun _ => []) tr = [(1, 2), (1, 2), (2, 3), (2, 3), (1, 3)] := by decide
theorem exec1 : fnSem prog 1 1 [.need [1], .acq 3000, .rel 3000] := by
  refine ⟨_, rfl, .norm, CS.init, ?_, Or.inl rfl⟩
  unfold sem
  refine Or.inl ⟨CS.init, [.need [1]], [.acq 3000, .rel 3000], ?_, ?_, rfl⟩
  · unfold sem; exact ⟨rfl, rfl, rfl⟩
  · unfold sem
    refine Or.inl ⟨CS.init, [.acq 3000], [.rel 3000], ?_, ?_, rfl⟩
    · unfold sem; exact ⟨rfl, rfl, rfl⟩
    · unfold sem; exact ⟨rfl, rfl, rfl⟩

/-- `tr` is a run of `f` -/
theorem exec : Exec prog 0 tr := by
  refine ⟨2, _, rfl, .norm, ⟨[], []⟩, ?_, Or.inl rfl⟩
  unfold sem
  refine Or.inl ⟨CS.init, [.acq 1000], _, ?_, ?_, rfl⟩
  · unfold sem; exact ⟨rfl, rfl, rfl⟩
  unfold sem
  refine Or.inl ⟨⟨[], [(7, [2000])]⟩, [.pacq 7 2000], _, ?_, ?_, rfl⟩
  · unfold sem; exact ⟨rfl, rfl, rfl⟩
  unfold sem
  refine Or.inl ⟨⟨[], [(7, [2000, 2001])]⟩, [.pacq 7 2001], _, ?_, ?_, rfl⟩
  · unfold sem; exact ⟨rfl, rfl, rfl⟩
  unfold sem
  refine Or.inl ⟨⟨[], [(7, [2000, 2001])]⟩, [.need [1], .acq 3000, .rel 3000], _, ?_, ?_, rfl⟩
  · unfold sem; exact ⟨_, exec1, rfl, rfl, rfl⟩
  unfold sem
  refine Or.inl ⟨⟨[], []⟩, [.prel 7 2000, .prel 7 2001], [.rel 1000], ?_, ?_, rfl⟩
  · unfold sem; exact ⟨rfl, rfl, rfl⟩
  · unfold sem; exact ⟨rfl, rfl, rfl⟩

/-- the theorem instantiated on that run -/
example : ∀ e ∈ pairsRun cls [] (fun _ => []) tr, e ∈ [(1, 3), (2, 3), (1, 2)] :=
  edges_sound cls tbl sig prog _ (by decide) (by decide) (by decide) (by decide) 0 tr exec [] [] rfl
end Ex

end BbRe.Lemmas.LockSkelEdges
