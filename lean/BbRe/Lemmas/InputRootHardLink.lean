import BbRe.Model.InputRoot
/-!
Invariants of the model of `hardlinkingFileFetcher` (C17, non-virtual workers).
-/
namespace BbRe.Lemmas.InputRoot.HardLink
open BbRe.InputRoot.HardLink

/-- Every regular file in the cache directory has the contents of its key (the
worker only ever links downloaded files of that key there; faults delete entries or
replace them by directories). -/
def CacheClean (d : List (Nat × Entry)) : Prop := ∀ k c, (k, Entry.file c) ∈ d → c = k

/-- The limits of the cache as `GetFile` maintains them. -/
def Lim (maxFiles maxSize : Nat) (es : List (Nat × Nat)) : Prop :=
  es.length ≤ max maxFiles 1 ∧ (total es ≤ maxSize ∨ es.length ≤ 1)

theorem onDisk_mem {d : List (Nat × Entry)} {k : Nat} {e : Entry} (h : onDisk d k = some e) : (k, e) ∈ d := by
  simp only [onDisk, Option.map_eq_some_iff] at h
  obtain ⟨⟨k', e'⟩, hf, rfl⟩ := h
  have hm := List.mem_of_find?_eq_some hf
  have hk := List.find?_some hf
  simp only [beq_iff_eq] at hk
  subst hk
  exact hm

theorem clean_remove {d : List (Nat × Entry)} (h : CacheClean d) (k : Nat) : CacheClean (diskRemove d k) := by
  intro k' c hm
  simp only [diskRemove, List.mem_filter] at hm
  exact h k' c hm.1

theorem clean_add {d : List (Nat × Entry)} (h : CacheClean d) (k : Nat) : CacheClean (d ++ [(k, .file k)]) := by
  intro k' c hm
  simp only [List.mem_append, List.mem_singleton, Prod.mk.injEq, Entry.file.injEq] at hm
  rcases hm with hm | ⟨rfl, rfl⟩
  · exact h k' c hm
  · rfl

theorem clean_add_dir {d : List (Nat × Entry)} (h : CacheClean d) (k : Nat) : CacheClean (d ++ [(k, .dir)]) := by
  intro k' c hm
  simp only [List.mem_append, List.mem_singleton, Prod.mk.injEq, reduceCtorEq, and_false, or_false] at hm
  exact h k' c hm

theorem clean_makeSpace (mf ms sz : Nat) : ∀ (es : List (Nat × Nat)) (d : List (Nat × Entry)),
    CacheClean d → CacheClean (makeSpace mf ms sz es d).2 := by
  intro es
  induction es with
  | nil => intro d h; exact h
  | cons e rest ih =>
    intro d h
    simp only [makeSpace]
    split
    · exact ih _ (clean_remove h e.1)
    · exact h

theorem makeSpace_room (mf ms sz : Nat) : ∀ (es : List (Nat × Nat)) (d : List (Nat × Entry)),
    (makeSpace mf ms sz es d).1 = [] ∨
    ((makeSpace mf ms sz es d).1.length < mf ∧ total (makeSpace mf ms sz es d).1 + sz ≤ ms) := by
  intro es
  induction es with
  | nil => intro d; left; rfl
  | cons e rest ih =>
    intro d
    simp only [makeSpace]
    split
    · exact ih _
    · rename_i h
      right
      simp only [Bool.or_eq_true, decide_eq_true_eq, not_or, Nat.not_le, Nat.not_lt] at h
      exact h

theorem total_append (a b : List (Nat × Nat)) : total (a ++ b) = total a + total b := by
  simp [total, List.map_append, List.sum_append]

theorem total_filter_le (p : Nat × Nat → Bool) : ∀ es : List (Nat × Nat), total (es.filter p) ≤ total es := by
  intro es
  induction es with
  | nil => simp [total]
  | cons e rest ih =>
    simp only [List.filter_cons]
    split
    · simp only [total, List.map_cons, List.sum_cons] at ih ⊢; omega
    · simp only [total, List.map_cons, List.sum_cons] at ih ⊢; omega

/-- Removing all entries of a key and adding one of them back does not grow anything. -/
theorem filter_out_add_back (k : Nat) : ∀ (es : List (Nat × Nat)) (e : Nat × Nat),
    e ∈ es → e.1 = k →
    total (es.filter (·.1 != k)) + e.2 ≤ total es ∧ (es.filter (·.1 != k)).length + 1 ≤ es.length := by
  intro es
  induction es with
  | nil => intro e h; simp at h
  | cons x rest ih =>
    intro e he hk
    simp only [List.filter_cons]
    by_cases hx : x.1 = k
    · have hx' : (x.1 != k) = false := by simp [hx]
      simp only [hx', Bool.false_eq_true, if_false, List.length_cons]
      rcases List.mem_cons.1 he with rfl | hm
      · have := total_filter_le (·.1 != k) rest
        have hl := List.length_filter_le (·.1 != k) rest
        simp only [total, List.map_cons, List.sum_cons] at this ⊢
        exact ⟨by omega, by omega⟩
      · have := ih e hm hk
        simp only [total, List.map_cons, List.sum_cons] at this ⊢
        exact ⟨by omega, by omega⟩
    · have hx' : (x.1 != k) = true := by simp [hx]
      simp only [hx', if_true, List.length_cons]
      rcases List.mem_cons.1 he with rfl | hm
      · exact absurd hk hx
      · have := ih e hm hk
        simp only [total, List.map_cons, List.sum_cons] at this ⊢
        exact ⟨by omega, by omega⟩

theorem touch_le (es : List (Nat × Nat)) (k : Nat) :
    total (touch es k) ≤ total es ∧ (touch es k).length ≤ es.length := by
  simp only [touch]
  cases hf : es.find? (·.1 == k) with
  | none => exact ⟨Nat.le_refl _, Nat.le_refl _⟩
  | some e =>
    have hm := List.mem_of_find?_eq_some hf
    have hk : e.1 = k := by simpa using List.find?_some hf
    have := filter_out_add_back k es e hm hk
    simp only [total_append, List.length_append, List.length_cons, List.length_nil]
    simp only [total, List.map_cons, List.map_nil, List.sum_cons, List.sum_nil] at this ⊢
    exact ⟨by omega, by omega⟩

theorem lim_touch {mf ms : Nat} {es : List (Nat × Nat)} (h : Lim mf ms es) (k : Nat) : Lim mf ms (touch es k) := by
  have := touch_le es k
  obtain ⟨h1, h2⟩ := h
  refine ⟨by omega, ?_⟩
  rcases h2 with h2 | h2
  · left; omega
  · right; omega

theorem tryLink_facts (s : State) (k : Nat) :
    (tryLink s k).1.disk = s.disk ∧ (tryLink s k).1.maxFiles = s.maxFiles ∧ (tryLink s k).1.maxSize = s.maxSize ∧
    (Lim s.maxFiles s.maxSize s.entries → Lim s.maxFiles s.maxSize (tryLink s k).1.entries) ∧
    (∀ c, (tryLink s k).2 = .linked c → onDisk s.disk k = some (.file c)) ∧
    ((tryLink s k).2 = .notExist → onDisk s.disk k = none ∨ known s.entries k = false) := by
  simp only [tryLink]
  by_cases hk : known s.entries k = true
  · simp only [hk, if_true]
    cases hd : onDisk s.disk k with
    | none => exact ⟨rfl, rfl, rfl, fun h => lim_touch h k, by simp, fun _ => Or.inl rfl⟩
    | some e =>
      cases e with
      | file c => exact ⟨rfl, rfl, rfl, fun h => lim_touch h k, by simp, by simp⟩
      | dir => exact ⟨rfl, rfl, rfl, fun h => lim_touch h k, by simp, by simp⟩
  · simp only [hk, Bool.false_eq_true, if_false]
    exact ⟨by first | rfl | trivial, by first | rfl | trivial, by first | rfl | trivial, id, by simp, fun _ => Or.inr (by simpa using hk)⟩

/-- The main invariant step: a clean cache stays clean, the limits are kept, and a
`nil` return means the target has the requested contents. -/
theorem getFile_inv (s : State) (k size : Nat) (casHas : Bool)
    (hc : CacheClean s.disk) (hl : Lim s.maxFiles s.maxSize s.entries) :
    CacheClean (getFile s k size casHas).1.disk ∧
    Lim s.maxFiles s.maxSize (getFile s k size casHas).1.entries ∧
    (getFile s k size casHas).1.maxFiles = s.maxFiles ∧ (getFile s k size casHas).1.maxSize = s.maxSize ∧
    (∀ r, (getFile s k size casHas).2 = r → r = .ok k ∨ r = .error) := by
  have f1 := tryLink_facts s k
  simp only [getFile]
  generalize tryLink s k = t1 at f1 ⊢
  obtain ⟨s1, r1⟩ := t1
  obtain ⟨d1, m1, z1, l1, k1, _⟩ := f1
  simp only at d1 m1 z1 l1 k1
  have hc1 : CacheClean s1.disk := d1 ▸ hc
  have hl1 : Lim s.maxFiles s.maxSize s1.entries := l1 hl
  cases r1 with
  | linked c =>
    have := hc k c (onDisk_mem (k1 c rfl))
    exact ⟨hc1, hl1, m1, z1, fun r hr => Or.inl (by rw [← hr, this])⟩
  | failed => exact ⟨hc1, hl1, m1, z1, fun r hr => Or.inr hr.symm⟩
  | notExist =>
    have f2 := tryLink_facts s1 k
    simp only []
    generalize tryLink s1 k = t2 at f2 ⊢
    obtain ⟨s2, r2⟩ := t2
    obtain ⟨d2, m2, z2, l2, k2, _⟩ := f2
    simp only at d2 m2 z2 l2 k2
    have hc2 : CacheClean s2.disk := d2 ▸ hc1
    have hl2 : Lim s.maxFiles s.maxSize s2.entries := by
      have := l2 (m1 ▸ z1 ▸ hl1); rw [m1, z1] at this; exact this
    cases r2 with
    | linked c =>
      have := hc1 k c (onDisk_mem (k2 c rfl))
      exact ⟨hc2, hl2, m2.trans m1, z2.trans z1, fun r hr => Or.inl (by rw [← hr, this])⟩
    | failed => exact ⟨hc2, hl2, m2.trans m1, z2.trans z1, fun r hr => Or.inr hr.symm⟩
    | notExist =>
      simp only []
      cases casHas with
      | false => exact ⟨hc2, hl2, m2.trans m1, z2.trans z1, fun r hr => Or.inr hr.symm⟩
      | true =>
        simp only [Bool.not_true, Bool.false_eq_true, if_false]
        by_cases hk : known s2.entries k = true
        · simp only [hk, Bool.not_true, Bool.false_eq_true, if_false]
          refine ⟨?_, hl2, m2.trans m1, z2.trans z1, fun r hr => Or.inl hr.symm⟩
          cases onDisk s2.disk k with
          | none => exact clean_add hc2 k
          | some e => exact hc2
        · simp only [hk, Bool.not_false, if_true]
          have hroom := makeSpace_room s2.maxFiles s2.maxSize size s2.entries s2.disk
          have hcm := clean_makeSpace s2.maxFiles s2.maxSize size s2.entries s2.disk hc2
          generalize makeSpace s2.maxFiles s2.maxSize size s2.entries s2.disk = r at hroom hcm ⊢
          refine ⟨?_, ?_, m2.trans m1, z2.trans z1, fun r hr => Or.inl hr.symm⟩
          · cases onDisk r.2 k with
            | none => exact clean_add hcm k
            | some e => exact hcm
          · have e1 : s2.maxFiles = s.maxFiles := m2.trans m1
            have e2 : s2.maxSize = s.maxSize := z2.trans z1
            rw [e1, e2] at hroom
            simp only [Lim, List.length_append, List.length_cons, List.length_nil, total_append]
            rcases hroom with h0 | ⟨h1, h2⟩
            · rw [h0]; simp [total]; omega
            · refine ⟨by omega, Or.inl ?_⟩
              simp only [total, List.map_cons, List.map_nil, List.sum_cons, List.sum_nil] at h2 ⊢
              omega

theorem fault_inv (s : State) (f : Fault) (hc : CacheClean s.disk) :
    CacheClean (fault s f).disk ∧ (fault s f).entries = s.entries ∧
    (fault s f).maxFiles = s.maxFiles ∧ (fault s f).maxSize = s.maxSize := by
  cases f with
  | remove k => exact ⟨clean_remove hc k, rfl, rfl, rfl⟩
  | mkdir k => exact ⟨clean_add_dir (clean_remove hc k) k, rfl, rfl, rfl⟩

/-- The repair path: known to the bookkeeping, vanished from the cache directory,
still downloadable ⇒ downloaded again and put back. -/
theorem getFile_repairs (s : State) (k size : Nat) (hk : known s.entries k = true)
    (hd : onDisk s.disk k = none) :
    (getFile s k size true).2 = .ok k ∧ onDisk (getFile s k size true).1.disk k = some (.file k) := by
  have hk' : ∀ es, known es k = true → known (touch es k) k = true := by
    intro es h
    simp only [touch]
    cases hf : es.find? (·.1 == k) with
    | none => exact h
    | some e =>
      have : e.1 = k := by simpa using List.find?_some hf
      simp [known, this]
  have hdisk : onDisk (s.disk ++ [(k, Entry.file k)]) k = some (.file k) := by
    simp only [onDisk, Option.map_eq_some_iff] at hd ⊢
    simp only [onDisk, Option.map_eq_none_iff] at hd
    refine ⟨(k, .file k), ?_, rfl⟩
    rw [List.find?_append, hd]
    simp
  simp only [getFile, tryLink, hk, hd, if_true, hk' s.entries hk, hk' _ (hk' s.entries hk),
    Bool.not_true, Bool.false_eq_true, if_false]
  exact ⟨by first | rfl | trivial, hdisk⟩

/-- A step of a history: a `GetFile` or something happening to the cache directory. -/
inductive HLOp
  | get (k size : Nat) (casHas : Bool)
  | fault (f : Fault)

def hlStep (s : State) : HLOp → State × Option (Nat × Result)
  | .get k size casHas => let r := getFile s k size casHas; (r.1, some (k, r.2))
  | .fault f => (fault s f, none)

def hlRun (s : State) : List HLOp → State × List (Nat × Result)
  | [] => (s, [])
  | op :: rest =>
    let r := hlStep s op
    let rr := hlRun r.1 rest
    (rr.1, match r.2 with | some x => x :: rr.2 | none => rr.2)

theorem hlRun_inv : ∀ (ops : List HLOp) (s : State), CacheClean s.disk → Lim s.maxFiles s.maxSize s.entries →
    Lim s.maxFiles s.maxSize (hlRun s ops).1.entries ∧
    ∀ x ∈ (hlRun s ops).2, x.2 = .ok x.1 ∨ x.2 = .error := by
  intro ops
  induction ops with
  | nil => intro s _ hl; exact ⟨hl, by simp [hlRun]⟩
  | cons op rest ih =>
    intro s hc hl
    cases op with
    | get k size casHas =>
      obtain ⟨c1, l1, m1, z1, r1⟩ := getFile_inv s k size casHas hc hl
      have := ih (getFile s k size casHas).1 c1 (by rw [m1, z1]; exact l1)
      rw [m1, z1] at this
      refine ⟨this.1, ?_⟩
      intro x hx
      simp only [hlRun, hlStep, List.mem_cons] at hx
      rcases hx with rfl | hx
      · exact r1 _ rfl
      · exact this.2 x hx
    | fault f =>
      obtain ⟨c1, e1, m1, z1⟩ := fault_inv s f hc
      have := ih (fault s f) c1 (by rw [m1, z1, e1]; exact hl)
      rw [m1, z1] at this
      exact ⟨this.1, fun x hx => this.2 x (by simpa [hlRun, hlStep] using hx)⟩

end BbRe.Lemmas.InputRoot.HardLink
