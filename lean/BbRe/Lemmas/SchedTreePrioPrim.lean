import BbRe.Lemmas.SchedTreePrimQueue
/-!
Node level of "the cached priority of an invocation with directly queued operations is right": predicates on
single nodes that only look at `path`, `qops`, `prio` and hold for nodes without queued operations are kept
by every primitive of `Model/SchedTree.lean` that does not touch these fields; `enqueueOp` / `removeQueuedOp`
refresh `prio` of the node whose `qops` they change.
-/
namespace BbRe.Lemmas.SchedTree
open BbRe.Sched BbRe.SchedTree

/-- the clause of `PrioOK` for one node -/
def NodeOK (pr : Nat → Int) (n : Node) : Prop :=
  n.path ≠ [] → n.qops ≠ [] → n.prio = minPrio (n.qops.map pr)

/-- every queued operation of the node satisfies `B` -/
def QIn (B : Nat → Prop) (n : Node) : Prop := ∀ o ∈ n.qops, B o

def NAll (P : Node → Prop) (ns : List Node) : Prop := ∀ n ∈ ns, P n

/-- a predicate on nodes that only looks at `path`, `qops`, `prio` and holds when nothing is queued -/
structure QP (P : Node → Prop) : Prop where
  stable : ∀ n n' : Node, n'.path = n.path → n'.qops = n.qops → n'.prio = n.prio → P n → P n'
  empty : ∀ n : Node, n.qops = [] → P n

/-- `f` keeps `path`, `qops`, `prio` -/
def K3 (f : Node → Node) : Prop := ∀ n, (f n).path = n.path ∧ (f n).qops = n.qops ∧ (f n).prio = n.prio

theorem nodeOK_qp (pr : Nat → Int) : QP (NodeOK pr) := by
  refine ⟨?_, ?_⟩
  · intro n n' h1 h2 h3 h
    unfold NodeOK at h ⊢
    rw [h1, h2, h3]; exact h
  · intro n h _ hq; exact absurd h hq

theorem qin_qp (B : Nat → Prop) : QP (QIn B) := by
  refine ⟨?_, ?_⟩
  · intro n n' _ h2 _ h
    unfold QIn at h ⊢
    rw [h2]; exact h
  · intro n h o ho; rw [h] at ho; cases ho

/-- `K3` for a structure update that leaves the three fields alone (elaborated after the expected type) -/
macro "k3" : term => `(by intro _; exact ⟨rfl, rfl, rfl⟩)

section generic
variable {P : Node → Prop} {ns : List Node}

theorem NAll.nil : NAll P [] := fun _ h => nomatch h

theorem NAll.updNode (h : NAll P ns) (hP : QP P) {f : Node → Node} (hf : K3 f) (q : ScqId) (p : List Nat) :
    NAll P (BbRe.SchedTree.updNode ns q p f) := by
  intro m hm
  obtain ⟨n, hn, e⟩ := mem_updNode.mp hm
  subst e
  split
  · exact hP.stable n _ (hf n).1 (hf n).2.1 (hf n).2.2 (h n hn)
  · exact h n hn

theorem NAll.updPath (h : NAll P ns) (hP : QP P) {f : Node → Node} (hf : K3 f) (q : ScqId) (p : List Nat) :
    NAll P (BbRe.SchedTree.updPath ns q p f) := by
  intro m hm
  obtain ⟨n, hn, e⟩ := mem_updPath.mp hm
  subst e
  split
  · exact hP.stable n _ (hf n).1 (hf n).2.1 (hf n).2.2 (h n hn)
  · exact h n hn

theorem NAll.filter (h : NAll P ns) (c : Node → Bool) : NAll P (ns.filter c) :=
  fun n hn => h n (List.mem_filter.mp hn).1

theorem NAll.append {ms : List Node} (h : NAll P ns) (h2 : NAll P ms) : NAll P (ns ++ ms) := by
  intro n hn
  rcases List.mem_append.mp hn with a | a
  · exact h n a
  · exact h2 n a

theorem NAll.foldl {β} (f : List Node → β → List Node) (hf : ∀ ns b, NAll P ns → NAll P (f ns b)) (l : List β) :
    ∀ ns, NAll P ns → NAll P (l.foldl f ns) := by
  induction l with
  | nil => intro ns h; exact h
  | cons b l ih => intro ns h; exact ih _ (hf ns b h)

theorem NAll.pruneP (h : NAll P ns) (q : ScqId) (p : List Nat) : NAll P (BbRe.SchedTree.pruneP ns q p) := h.filter _

theorem NAll.incExec (h : NAll P ns) (hP : QP P) (q : ScqId) (p : List Nat) (w : WKey) (now : Nat) :
    NAll P (BbRe.SchedTree.incExec ns q p w now) := h.updPath hP k3 q p

theorem NAll.decExec (h : NAll P ns) (hP : QP P) (q : ScqId) (p : List Nat) (w : WKey) (now : Nat) :
    NAll P (BbRe.SchedTree.decExec ns q p w now) := (h.updPath hP k3 q p).pruneP q p

theorem NAll.setLastN (h : NAll P ns) (hP : QP P) (q : ScqId) (p : List Nat) :
    NAll P (BbRe.SchedTree.setLastN ns q p) := h.updPath hP k3 q p

theorem NAll.clearLastN (h : NAll P ns) (hP : QP P) (q : ScqId) (p : List Nat) :
    NAll P (BbRe.SchedTree.clearLastN ns q p) := (h.updPath hP k3 q p).pruneP q p

theorem NAll.mkNode (hP : QP P) (q : ScqId) (p : List Nat) (now : Nat) : NAll P [BbRe.SchedTree.mkNode q p now] := by
  intro n hn
  rw [List.mem_singleton] at hn
  subst hn
  exact hP.empty _ rfl

theorem NAll.getOrCreate (h : NAll P ns) (hP : QP P) (q : ScqId) (p : List Nat) (now : Nat) :
    NAll P (BbRe.SchedTree.getOrCreate ns q p now) := by
  unfold BbRe.SchedTree.getOrCreate
  refine NAll.foldl _ ?_ _ _ h
  intro ns b hb
  split
  · exact hb
  · exact hb.append (NAll.mkNode hP q b now)

theorem NAll.parkW (h : NAll P ns) (hP : QP P) (q : ScqId) (p : List Nat) (w : WId) :
    NAll P (BbRe.SchedTree.parkW ns q p w) := by
  unfold BbRe.SchedTree.parkW
  refine NAll.foldl _ ?_ _ _ (h.updNode hP k3 q p)
  intro ns b hb
  unfold parkStep
  exact hb.updNode hP k3 _ _

theorem NAll.dequeueW (h : NAll P ns) (hP : QP P) (q : ScqId) (p : List Nat) (w : WId) :
    NAll P (BbRe.SchedTree.dequeueW ns q p w) := by
  unfold BbRe.SchedTree.dequeueW
  refine NAll.foldl _ ?_ _ _ (h.updNode hP k3 q p)
  intro ns b hb
  unfold unparkStep
  split
  · exact hb
  · split
    · exact hb.updNode hP k3 _ _
    · exact hb

theorem NAll.pruneChain (q : ScqId) (l : List (List Nat)) : ∀ {ns : List Node}, NAll P ns → NAll P (pruneChain ns q l) := by
  induction l with
  | nil => intro ns h; exact h
  | cons pi rest ih =>
    intro ns h
    unfold BbRe.SchedTree.pruneChain
    split
    · split
      · exact ih (h.filter _)
      · exact h
    · exact h

/-- all nodes at `(q, pi)` are replaced by `j` -/
theorem NAll.setAt {q : ScqId} {pi : List Nat} (h : ∀ n ∈ ns, (n.scq = q ∧ n.path = pi) ∨ P n) {j : Node} (hj : P j) :
    NAll P (BbRe.SchedTree.updNode ns q pi (fun _ => j)) := by
  intro m hm
  obtain ⟨n, hn, e⟩ := mem_updNode.mp hm
  subst e
  split
  · exact hj
  · rename_i hna
    rcases h n hn with a | a
    · exact absurd ((isAt_iff n q pi).mpr a) hna
    · exact a

end generic

/-! ### `updateFirstOperationPriority` -/

theorem updPrio_path (pr : Nat → Int) (ns : List Node) (n : Node) : (updPrio pr ns n).path = n.path := by
  unfold updPrio
  split
  · rfl
  · split <;> rfl

theorem updPrio_qops (pr : Nat → Int) (ns : List Node) (n : Node) : (updPrio pr ns n).qops = n.qops := by
  unfold updPrio
  split
  · rfl
  · split <;> rfl

theorem updPrio_ok (pr : Nat → Int) (ns : List Node) (n : Node) : NodeOK pr (updPrio pr ns n) := by
  intro _ hq
  rw [updPrio_qops] at hq ⊢
  unfold updPrio
  have : (!n.qops.isEmpty) = true := by
    cases hn : n.qops with
    | nil => exact absurd hn hq
    | cons a l => rfl
  rw [if_pos this]

theorem updPrio_qin {B : Nat → Prop} (pr : Nat → Int) (ns : List Node) {n : Node} (h : QIn B n) :
    QIn B (updPrio pr ns n) := by
  unfold QIn; rw [updPrio_qops]; exact h

/-! ### `operation.enqueue`, `removeQueuedFromInvocation` -/

theorem enqStep_fix {pr : Nat → Int} {q : ScqId} {pi : List Nat} {ns : List Node}
    (h : ∀ n ∈ ns, (n.scq = q ∧ n.path = pi) ∨ NodeOK pr n) : NAll (NodeOK pr) (enqStep pr q ns pi) := by
  unfold enqStep
  split
  · rename_i hnone
    intro n hn
    rcases h n hn with a | a
    · exact absurd a (node?_eq_none_iff.mp hnone n hn)
    · exact a
  · dsimp only
    exact (NAll.setAt h (updPrio_ok pr ns _)).updNode (nodeOK_qp pr) k3 _ _

theorem deqStep_fix {pr : Nat → Int} {q : ScqId} {pi : List Nat} {ns : List Node}
    (h : ∀ n ∈ ns, (n.scq = q ∧ n.path = pi) ∨ NodeOK pr n) : NAll (NodeOK pr) (deqStep pr q ns pi) := by
  unfold deqStep
  split
  · rename_i hnone
    intro n hn
    rcases h n hn with a | a
    · exact absurd a (node?_eq_none_iff.mp hnone n hn)
    · exact a
  · dsimp only
    split
    · exact (NAll.setAt h (updPrio_ok pr ns _)).updNode (nodeOK_qp pr) k3 _ _
    · exact NAll.setAt h (updPrio_ok pr ns _)

theorem enqStep_ok {pr : Nat → Int} (q : ScqId) (ns : List Node) (pi : List Nat)
    (h : NAll (NodeOK pr) ns) : NAll (NodeOK pr) (enqStep pr q ns pi) :=
  enqStep_fix (fun n hn => Or.inr (h n hn))

theorem deqStep_ok {pr : Nat → Int} (q : ScqId) (ns : List Node) (pi : List Nat)
    (h : NAll (NodeOK pr) ns) : NAll (NodeOK pr) (deqStep pr q ns pi) :=
  deqStep_fix (fun n hn => Or.inr (h n hn))

/-- predicates that survive `updateFirstOperationPriority` -/
def RP (pr : Nat → Int) (P : Node → Prop) : Prop := ∀ ns n, P n → P (updPrio pr ns n)

theorem nodeOK_rp (pr : Nat → Int) : RP pr (NodeOK pr) := fun ns n _ => updPrio_ok pr ns n

theorem qin_rp (pr : Nat → Int) (B : Nat → Prop) : RP pr (QIn B) := by
  intro ns n h o ho
  rw [updPrio_qops] at ho
  exact h o ho

theorem NAll.refreshStep {P : Node → Prop} {pr : Nat → Int} (h : NAll P ns) (hR : RP pr P) (q : ScqId) (pi : List Nat) :
    NAll P (BbRe.SchedTree.refreshStep pr q ns pi) := by
  unfold BbRe.SchedTree.refreshStep
  split
  · exact h
  · rename_i P0 hP0
    exact NAll.setAt (fun n hn => Or.inr (h n hn)) (hR ns P0 (h P0 (node?_some hP0).1))

theorem NAll.refreshUp {P : Node → Prop} {pr : Nat → Int} (h : NAll P ns) (hR : RP pr P) (q : ScqId) (p : List Nat) :
    NAll P (BbRe.SchedTree.refreshUp pr ns q p) :=
  NAll.foldl _ (fun _ _ hb => hb.refreshStep hR q _) _ _ h

theorem NAll.incExecR {P : Node → Prop} {pr : Nat → Int} (h : NAll P ns) (hP : QP P) (hR : RP pr P) (lg : Bool)
    (q : ScqId) (p : List Nat) (w : WKey) (now : Nat) : NAll P (BbRe.SchedTree.incExecR lg pr ns q p w now) := by
  unfold BbRe.SchedTree.incExecR
  split
  · exact h.incExec hP q p w now
  · exact (h.incExec hP q p w now).refreshUp hR q p

theorem NAll.decExecR {P : Node → Prop} {pr : Nat → Int} (h : NAll P ns) (hP : QP P) (hR : RP pr P) (lg : Bool)
    (q : ScqId) (p : List Nat) (w : WKey) (now : Nat) : NAll P (BbRe.SchedTree.decExecR lg pr ns q p w now) := by
  unfold BbRe.SchedTree.decExecR
  split
  · exact h.decExec hP q p w now
  · exact (h.decExec hP q p w now).refreshUp hR q p

/-- after the `qops` of the invocation at `p` changed, every other node is as before -/
theorem updNode_except {pr : Nat → Int} {ns : List Node} (h : NAll (NodeOK pr) ns) (q : ScqId) (p : List Nat)
    {f : Node → Node} (hf : KeepsKey f) : ∀ n ∈ updNode ns q p f, (n.scq = q ∧ n.path = p) ∨ NodeOK pr n := by
  intro m hm
  obtain ⟨n, hn, e⟩ := mem_updNode.mp hm
  by_cases hat : n.isAt q p = true
  · rw [if_pos hat] at e
    left
    have := (isAt_iff n q p).mp hat
    rw [e, (hf n).1, (hf n).2]; exact this
  · rw [if_neg hat] at e; rw [e]; exact Or.inr (h n hn)

theorem root_except {pr : Nat → Int} {ns : List Node} {q : ScqId}
    (h : ∀ n ∈ ns, (n.scq = q ∧ n.path = []) ∨ NodeOK pr n) : NAll (NodeOK pr) ns := by
  intro n hn
  rcases h n hn with a | a
  · intro hp; exact absurd a.2 hp
  · exact a

theorem enqueueOp_prio {pr : Nat → Int} {ns : List Node} (h : NAll (NodeOK pr) ns) (q : ScqId) (p : List Nat) (o : Nat) :
    NAll (NodeOK pr) (enqueueOp pr ns q p o) := by
  unfold enqueueOp
  have h0 := updNode_except h q p (f := fun n => { n with qops := n.qops ++ [o] }) (fun _ => ⟨rfl, rfl⟩)
  rcases List.eq_nil_or_concat p with e | ⟨p', k, e⟩
  · subst e; exact root_except h0
  · subst e
    rw [List.concat_eq_append] at h0 ⊢
    rw [PrimQueue.ups_concat, List.foldl_cons]
    exact NAll.foldl _ (fun ns b hb => enqStep_ok q ns b hb) _ _ (enqStep_fix h0)

theorem removeQueuedOp_prio {pr : Nat → Int} {ns : List Node} (h : NAll (NodeOK pr) ns) (q : ScqId) (p : List Nat)
    (o : Nat) : NAll (NodeOK pr) (removeQueuedOp pr ns q p o) := by
  unfold removeQueuedOp
  have h0 := updNode_except h q p (f := fun n => { n with qops := n.qops.erase o }) (fun _ => ⟨rfl, rfl⟩)
  rcases List.eq_nil_or_concat p with e | ⟨p', k, e⟩
  · subst e; exact root_except h0
  · subst e
    rw [List.concat_eq_append] at h0 ⊢
    rw [PrimQueue.ups_concat, List.foldl_cons]
    exact NAll.foldl _ (fun ns b hb => deqStep_ok q ns b hb) _ _ (deqStep_fix h0)

/-! ### the queued operations only shrink in `removeQueuedFromInvocation` -/

theorem deqStep_qin {B : Nat → Prop} {pr : Nat → Int} (q : ScqId) (ns : List Node) (pi : List Nat)
    (h : NAll (QIn B) ns) : NAll (QIn B) (deqStep pr q ns pi) := by
  unfold deqStep
  split
  · exact h
  · rename_i i hi
    dsimp only
    have hj : QIn B (updPrio pr ns i) := updPrio_qin pr ns (h i (node?_some hi).1)
    split
    · exact (NAll.setAt (fun n hn => Or.inr (h n hn)) hj).updNode (qin_qp B) k3 _ _
    · exact NAll.setAt (fun n hn => Or.inr (h n hn)) hj

theorem removeQueuedOp_qin {B : Nat → Prop} {pr : Nat → Int} {ns : List Node} (h : NAll (QIn B) ns) (q : ScqId)
    (p : List Nat) (o : Nat) : NAll (QIn B) (removeQueuedOp pr ns q p o) := by
  unfold removeQueuedOp
  refine NAll.foldl _ (fun ns b hb => deqStep_qin q ns b hb) _ _ ?_
  intro m hm
  obtain ⟨n, hn, e⟩ := mem_updNode.mp hm
  subst e
  split
  · intro o' ho'
    exact h n hn o' (List.mem_of_mem_erase ho')
  · exact h n hn

end BbRe.Lemmas.SchedTree
