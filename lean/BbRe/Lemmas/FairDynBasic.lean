import BbRe.Model.FairDyn
import BbRe.Lemmas.FairWalk
import BbRe.Lemmas.GoHeapMap
/-!
Basic facts about the dynamic C04 model: field access after the setters, lookups after a child
was replaced, positions of references.
-/
namespace BbRe.Lemmas.Fair
open BbRe.Fair BbRe.GoHeap BbRe.Lemmas.GoHeap

namespace S
open BbRe.Fair.Inv
@[simp] theorem setOps_key (i : Inv) (v : List Op) : (i.setOps v).key = i.key := by cases i; rfl
@[simp] theorem setOps_ops (i : Inv) (v : List Op) : (i.setOps v).ops = v := by cases i; rfl
@[simp] theorem setOps_queued (i : Inv) (v : List Op) : (i.setOps v).queued = i.queued := by cases i; rfl
@[simp] theorem setOps_prio (i : Inv) (v : List Op) : (i.setOps v).prio = i.prio := by cases i; rfl
@[simp] theorem setOps_exec (i : Inv) (v : List Op) : (i.setOps v).exec = i.exec := by cases i; rfl
@[simp] theorem setOps_started (i : Inv) (v : List Op) : (i.setOps v).started = i.started := by cases i; rfl
@[simp] theorem setOps_parked (i : Inv) (v : List Op) : (i.setOps v).parked = i.parked := by cases i; rfl
@[simp] theorem setOps_parkedKids (i : Inv) (v : List Op) : (i.setOps v).parkedKids = i.parkedKids := by cases i; rfl
@[simp] theorem setOps_completed (i : Inv) (v : List Op) : (i.setOps v).completed = i.completed := by cases i; rfl
@[simp] theorem setOps_kids (i : Inv) (v : List Op) : (i.setOps v).kids = i.kids := by cases i; rfl
@[simp] theorem setQueued_key (i : Inv) (v : List Nat) : (i.setQueued v).key = i.key := by cases i; rfl
@[simp] theorem setQueued_ops (i : Inv) (v : List Nat) : (i.setQueued v).ops = i.ops := by cases i; rfl
@[simp] theorem setQueued_queued (i : Inv) (v : List Nat) : (i.setQueued v).queued = v := by cases i; rfl
@[simp] theorem setQueued_prio (i : Inv) (v : List Nat) : (i.setQueued v).prio = i.prio := by cases i; rfl
@[simp] theorem setQueued_exec (i : Inv) (v : List Nat) : (i.setQueued v).exec = i.exec := by cases i; rfl
@[simp] theorem setQueued_started (i : Inv) (v : List Nat) : (i.setQueued v).started = i.started := by cases i; rfl
@[simp] theorem setQueued_parked (i : Inv) (v : List Nat) : (i.setQueued v).parked = i.parked := by cases i; rfl
@[simp] theorem setQueued_parkedKids (i : Inv) (v : List Nat) : (i.setQueued v).parkedKids = i.parkedKids := by cases i; rfl
@[simp] theorem setQueued_completed (i : Inv) (v : List Nat) : (i.setQueued v).completed = i.completed := by cases i; rfl
@[simp] theorem setQueued_kids (i : Inv) (v : List Nat) : (i.setQueued v).kids = i.kids := by cases i; rfl
@[simp] theorem setPrio_key (i : Inv) (v : Int) : (i.setPrio v).key = i.key := by cases i; rfl
@[simp] theorem setPrio_ops (i : Inv) (v : Int) : (i.setPrio v).ops = i.ops := by cases i; rfl
@[simp] theorem setPrio_queued (i : Inv) (v : Int) : (i.setPrio v).queued = i.queued := by cases i; rfl
@[simp] theorem setPrio_prio (i : Inv) (v : Int) : (i.setPrio v).prio = v := by cases i; rfl
@[simp] theorem setPrio_exec (i : Inv) (v : Int) : (i.setPrio v).exec = i.exec := by cases i; rfl
@[simp] theorem setPrio_started (i : Inv) (v : Int) : (i.setPrio v).started = i.started := by cases i; rfl
@[simp] theorem setPrio_parked (i : Inv) (v : Int) : (i.setPrio v).parked = i.parked := by cases i; rfl
@[simp] theorem setPrio_parkedKids (i : Inv) (v : Int) : (i.setPrio v).parkedKids = i.parkedKids := by cases i; rfl
@[simp] theorem setPrio_completed (i : Inv) (v : Int) : (i.setPrio v).completed = i.completed := by cases i; rfl
@[simp] theorem setPrio_kids (i : Inv) (v : Int) : (i.setPrio v).kids = i.kids := by cases i; rfl
@[simp] theorem setExec_key (i : Inv) (v : Nat) : (i.setExec v).key = i.key := by cases i; rfl
@[simp] theorem setExec_ops (i : Inv) (v : Nat) : (i.setExec v).ops = i.ops := by cases i; rfl
@[simp] theorem setExec_queued (i : Inv) (v : Nat) : (i.setExec v).queued = i.queued := by cases i; rfl
@[simp] theorem setExec_prio (i : Inv) (v : Nat) : (i.setExec v).prio = i.prio := by cases i; rfl
@[simp] theorem setExec_exec (i : Inv) (v : Nat) : (i.setExec v).exec = v := by cases i; rfl
@[simp] theorem setExec_started (i : Inv) (v : Nat) : (i.setExec v).started = i.started := by cases i; rfl
@[simp] theorem setExec_parked (i : Inv) (v : Nat) : (i.setExec v).parked = i.parked := by cases i; rfl
@[simp] theorem setExec_parkedKids (i : Inv) (v : Nat) : (i.setExec v).parkedKids = i.parkedKids := by cases i; rfl
@[simp] theorem setExec_completed (i : Inv) (v : Nat) : (i.setExec v).completed = i.completed := by cases i; rfl
@[simp] theorem setExec_kids (i : Inv) (v : Nat) : (i.setExec v).kids = i.kids := by cases i; rfl
@[simp] theorem setStarted_key (i : Inv) (v : Nat) : (i.setStarted v).key = i.key := by cases i; rfl
@[simp] theorem setStarted_ops (i : Inv) (v : Nat) : (i.setStarted v).ops = i.ops := by cases i; rfl
@[simp] theorem setStarted_queued (i : Inv) (v : Nat) : (i.setStarted v).queued = i.queued := by cases i; rfl
@[simp] theorem setStarted_prio (i : Inv) (v : Nat) : (i.setStarted v).prio = i.prio := by cases i; rfl
@[simp] theorem setStarted_exec (i : Inv) (v : Nat) : (i.setStarted v).exec = i.exec := by cases i; rfl
@[simp] theorem setStarted_started (i : Inv) (v : Nat) : (i.setStarted v).started = v := by cases i; rfl
@[simp] theorem setStarted_parked (i : Inv) (v : Nat) : (i.setStarted v).parked = i.parked := by cases i; rfl
@[simp] theorem setStarted_parkedKids (i : Inv) (v : Nat) : (i.setStarted v).parkedKids = i.parkedKids := by cases i; rfl
@[simp] theorem setStarted_completed (i : Inv) (v : Nat) : (i.setStarted v).completed = i.completed := by cases i; rfl
@[simp] theorem setStarted_kids (i : Inv) (v : Nat) : (i.setStarted v).kids = i.kids := by cases i; rfl
@[simp] theorem setParked_key (i : Inv) (v : List Nat) : (i.setParked v).key = i.key := by cases i; rfl
@[simp] theorem setParked_ops (i : Inv) (v : List Nat) : (i.setParked v).ops = i.ops := by cases i; rfl
@[simp] theorem setParked_queued (i : Inv) (v : List Nat) : (i.setParked v).queued = i.queued := by cases i; rfl
@[simp] theorem setParked_prio (i : Inv) (v : List Nat) : (i.setParked v).prio = i.prio := by cases i; rfl
@[simp] theorem setParked_exec (i : Inv) (v : List Nat) : (i.setParked v).exec = i.exec := by cases i; rfl
@[simp] theorem setParked_started (i : Inv) (v : List Nat) : (i.setParked v).started = i.started := by cases i; rfl
@[simp] theorem setParked_parked (i : Inv) (v : List Nat) : (i.setParked v).parked = v := by cases i; rfl
@[simp] theorem setParked_parkedKids (i : Inv) (v : List Nat) : (i.setParked v).parkedKids = i.parkedKids := by cases i; rfl
@[simp] theorem setParked_completed (i : Inv) (v : List Nat) : (i.setParked v).completed = i.completed := by cases i; rfl
@[simp] theorem setParked_kids (i : Inv) (v : List Nat) : (i.setParked v).kids = i.kids := by cases i; rfl
@[simp] theorem setParkedKids_key (i : Inv) (v : List Nat) : (i.setParkedKids v).key = i.key := by cases i; rfl
@[simp] theorem setParkedKids_ops (i : Inv) (v : List Nat) : (i.setParkedKids v).ops = i.ops := by cases i; rfl
@[simp] theorem setParkedKids_queued (i : Inv) (v : List Nat) : (i.setParkedKids v).queued = i.queued := by cases i; rfl
@[simp] theorem setParkedKids_prio (i : Inv) (v : List Nat) : (i.setParkedKids v).prio = i.prio := by cases i; rfl
@[simp] theorem setParkedKids_exec (i : Inv) (v : List Nat) : (i.setParkedKids v).exec = i.exec := by cases i; rfl
@[simp] theorem setParkedKids_started (i : Inv) (v : List Nat) : (i.setParkedKids v).started = i.started := by cases i; rfl
@[simp] theorem setParkedKids_parked (i : Inv) (v : List Nat) : (i.setParkedKids v).parked = i.parked := by cases i; rfl
@[simp] theorem setParkedKids_parkedKids (i : Inv) (v : List Nat) : (i.setParkedKids v).parkedKids = v := by cases i; rfl
@[simp] theorem setParkedKids_completed (i : Inv) (v : List Nat) : (i.setParkedKids v).completed = i.completed := by cases i; rfl
@[simp] theorem setParkedKids_kids (i : Inv) (v : List Nat) : (i.setParkedKids v).kids = i.kids := by cases i; rfl
@[simp] theorem setCompleted_key (i : Inv) (v : Nat) : (i.setCompleted v).key = i.key := by cases i; rfl
@[simp] theorem setCompleted_ops (i : Inv) (v : Nat) : (i.setCompleted v).ops = i.ops := by cases i; rfl
@[simp] theorem setCompleted_queued (i : Inv) (v : Nat) : (i.setCompleted v).queued = i.queued := by cases i; rfl
@[simp] theorem setCompleted_prio (i : Inv) (v : Nat) : (i.setCompleted v).prio = i.prio := by cases i; rfl
@[simp] theorem setCompleted_exec (i : Inv) (v : Nat) : (i.setCompleted v).exec = i.exec := by cases i; rfl
@[simp] theorem setCompleted_started (i : Inv) (v : Nat) : (i.setCompleted v).started = i.started := by cases i; rfl
@[simp] theorem setCompleted_parked (i : Inv) (v : Nat) : (i.setCompleted v).parked = i.parked := by cases i; rfl
@[simp] theorem setCompleted_parkedKids (i : Inv) (v : Nat) : (i.setCompleted v).parkedKids = i.parkedKids := by cases i; rfl
@[simp] theorem setCompleted_completed (i : Inv) (v : Nat) : (i.setCompleted v).completed = v := by cases i; rfl
@[simp] theorem setCompleted_kids (i : Inv) (v : Nat) : (i.setCompleted v).kids = i.kids := by cases i; rfl
@[simp] theorem setKids_key (i : Inv) (v : List Inv) : (i.setKids v).key = i.key := by cases i; rfl
@[simp] theorem setKids_ops (i : Inv) (v : List Inv) : (i.setKids v).ops = i.ops := by cases i; rfl
@[simp] theorem setKids_queued (i : Inv) (v : List Inv) : (i.setKids v).queued = i.queued := by cases i; rfl
@[simp] theorem setKids_prio (i : Inv) (v : List Inv) : (i.setKids v).prio = i.prio := by cases i; rfl
@[simp] theorem setKids_exec (i : Inv) (v : List Inv) : (i.setKids v).exec = i.exec := by cases i; rfl
@[simp] theorem setKids_started (i : Inv) (v : List Inv) : (i.setKids v).started = i.started := by cases i; rfl
@[simp] theorem setKids_parked (i : Inv) (v : List Inv) : (i.setKids v).parked = i.parked := by cases i; rfl
@[simp] theorem setKids_parkedKids (i : Inv) (v : List Inv) : (i.setKids v).parkedKids = i.parkedKids := by cases i; rfl
@[simp] theorem setKids_completed (i : Inv) (v : List Inv) : (i.setKids v).completed = i.completed := by cases i; rfl
@[simp] theorem setKids_kids (i : Inv) (v : List Inv) : (i.setKids v).kids = v := by cases i; rfl
end S

/-! ### `replaceKid`, `kidOr` -/

theorem replaceKid_keys (kids : List Inv) (c' : Inv) : (replaceKid kids c').map Inv.key = kids.map Inv.key := by
  unfold replaceKid
  rw [List.map_map]
  apply List.map_congr_left
  intro c _
  simp only [Function.comp]
  split
  · rename_i h; exact h.symm
  · rfl

theorem mem_replaceKid (kids : List Inv) (c' x : Inv) :
    x ∈ replaceKid kids c' ↔ (x = c' ∧ ∃ c ∈ kids, c.key = c'.key) ∨ (x ∈ kids ∧ x.key ≠ c'.key) := by
  unfold replaceKid
  rw [List.mem_map]
  constructor
  · rintro ⟨c, hc, rfl⟩
    split
    · rename_i h; exact Or.inl ⟨rfl, c, hc, h⟩
    · rename_i h; exact Or.inr ⟨hc, h⟩
  · rintro (⟨rfl, c, hc, h⟩ | ⟨hx, hne⟩)
    · exact ⟨c, hc, by rw [if_pos h]⟩
    · exact ⟨x, hx, by rw [if_neg hne]⟩

theorem find?_replaceKid (kids : List Inv) (c' : Inv) (x : Nat) :
    (replaceKid kids c').find? (fun c => c.key == x) =
      if x = c'.key then (kids.find? fun c => c.key == x).map (fun _ => c') else kids.find? fun c => c.key == x := by
  induction kids with
  | nil => simp [replaceKid]
  | cons a kids ih =>
    unfold replaceKid at ih ⊢
    rw [List.map_cons, List.find?_cons, List.find?_cons]
    by_cases hak : a.key = c'.key
    · rw [if_pos hak]
      by_cases hx : x = c'.key
      · subst hx
        simp [hak]
      · have h1 : (c'.key == x) = false := by simpa using fun h => hx h.symm
        have h2 : (a.key == x) = false := by rw [hak]; exact h1
        rw [h1, h2, ih, if_neg hx]
    · rw [if_neg hak]
      cases hax : (a.key == x) with
      | true =>
        have : a.key = x := by simpa using hax
        have hx : ¬ x = c'.key := fun h => hak (this.trans h)
        simp [hx]
      | false => simp only []; rw [ih]

theorem kidOr_replaceKid_ne (kids : List Inv) (c' : Inv) (x : Nat) (h : x ≠ c'.key) :
    kidOr (replaceKid kids c') x = kidOr kids x := by
  unfold kidOr; rw [find?_replaceKid, if_neg h]

theorem kidOr_replaceKid_self (kids : List Inv) (c' c : Inv) (hc : c ∈ kids) (hk : c.key = c'.key) :
    kidOr (replaceKid kids c') c'.key = c' := by
  unfold kidOr
  rw [find?_replaceKid, if_pos rfl]
  cases hf : kids.find? (fun c => c.key == c'.key) with
  | none =>
    have := List.find?_eq_none.mp hf c hc
    simp [hk] at this
  | some _ => rfl

theorem kidOr_of_child (i : Inv) (k : Nat) (c : Inv) (h : i.child k = some c) : kidOr i.kids k = c := by
  unfold kidOr; unfold Inv.child at h; rw [h]; rfl

theorem child_storeKid_ne (P c' : Inv) (x : Nat) (h : x ≠ c'.key) : (storeKid P c').child x = P.child x := by
  unfold storeKid Inv.child
  rw [S.setKids_kids, find?_replaceKid, if_neg h]

/-! ### `refIndex` -/

theorem refIndex_none_iff (q : List Nat) (k : Nat) : refIndex q k = none ↔ k ∉ q := by
  induction q with
  | nil => simp [refIndex]
  | cons x xs ih =>
    unfold refIndex
    by_cases hx : x = k
    · simp [hx]
    · rw [if_neg hx]
      simp only [Option.map_eq_none_iff, ih, List.mem_cons, not_or]
      exact ⟨fun h => ⟨fun e => hx e.symm, h⟩, fun h => h.2⟩

theorem refIndex_some (q : List Nat) (k idx : Nat) (h : refIndex q k = some idx) :
    idx < q.length ∧ q[idx]? = some k := by
  induction q generalizing idx with
  | nil => simp [refIndex] at h
  | cons x xs ih =>
    unfold refIndex at h
    by_cases hx : x = k
    · rw [if_pos hx] at h
      simp only [Option.some.injEq] at h
      subst h
      simp [hx]
    · rw [if_neg hx] at h
      cases hr : refIndex xs k with
      | none => rw [hr] at h; cases h
      | some j =>
        rw [hr] at h
        simp only [Option.map_some, Option.some.injEq] at h
        subst h
        obtain ⟨h1, h2⟩ := ih j hr
        exact ⟨by simp; omega, by simpa using h2⟩

end BbRe.Lemmas.Fair
