import BbRe.Model.ExecStamp
import BbRe.Properties.C11
/-!
Helper lemmas for `Properties/C11Stamp.lean`: the invariant of the stamping loop of
`timestampedBuildExecutor.Execute` and the unfolding of `execRunX`.
-/
namespace BbRe.Lemmas.ExecStamp
open BbRe.SusClock BbRe.ExecStamp BbRe.Lemmas.SusClock

/-! ## timestamps -/

theorem ns_ofNs (n : Nat) : (Ts.ofNs n).ns = n := by
  simp only [Ts.ofNs, Ts.ns]
  omega

theorem mergeTs_none_left (s : Option Ts) : mergeTs none s = s := by
  cases s <;> rfl

/-! ## the stamping loop -/

/-- What holds between two receipts when the clock is monotone; `lo` is the reading at entry,
`last` the latest reading. -/
structure Inv (t0 : Ts) (w : W) (last : Nat) : Prop where
  virt : w.md.virt = none
  ws : w.md.workerStart = some t0
  wd : w.md.workerDone = none
  lo : t0.ns ≤ last
  exec : ∀ s, w.md.execStart = some s → t0.ns ≤ s.ns ∧ s.ns ≤ last ∧
    (w.cur = some .exec ∨ ∃ c, w.md.execDone = some c ∧ s.ns ≤ c.ns ∧ c.ns ≤ last)

theorem inv_start (q : Option Ts) (t0 : Ts) : Inv t0 (W.start q t0) t0.ns :=
  ⟨rfl, rfl, rfl, Nat.le_refl _, by intro s h; cases h⟩

theorem inv_update {t0 : Ts} {w : W} {last : Nat} (h : Inv t0 w last) (st : Stage) (now : Ts)
    (hn : last ≤ now.ns) : Inv t0 (w.update st now) now.ns := by
  obtain ⟨md, cur⟩ := w
  obtain ⟨hv, hws, hwd, hlo, hex⟩ := h
  simp only at hv hws hwd hex
  have hlo' : t0.ns ≤ now.ns := Nat.le_trans hlo hn
  have fin : ∀ (cur' : Option Slot) (E D : Option Ts) (s : Ts), E = some s →
      (E = some now ∧ cur' = some .exec ∨ E = md.execStart ∧ (cur' = some .exec → False) ∧
        (D = md.execDone ∧ (cur = some .exec → False) ∨ D = some now)) →
      t0.ns ≤ s.ns ∧ s.ns ≤ now.ns ∧ (cur' = some .exec ∨ ∃ c, D = some c ∧ s.ns ≤ c.ns ∧ c.ns ≤ now.ns) := by
    intro cur' E D s hs hcase
    rcases hcase with ⟨hE, hc⟩ | ⟨hE, _, hD⟩
    · rw [hE] at hs; cases hs
      exact ⟨hlo', Nat.le_refl _, Or.inl hc⟩
    · rw [hE] at hs
      obtain ⟨a, b, c⟩ := hex s hs
      refine ⟨a, by omega, Or.inr ?_⟩
      rcases hD with ⟨hD, hne⟩ | hD
      · rcases c with c | ⟨c, hc, h1, h2⟩
        · exact absurd c hne
        · exact ⟨c, hD ▸ hc, h1, by omega⟩
      · exact ⟨now, hD, by omega, Nat.le_refl _⟩
  rcases cur with _ | sl
  · cases st <;> refine ⟨hv, hws, hwd, hlo', fun s hs => ?_⟩
    · exact fin (some .fetch) md.execStart md.execDone s hs (Or.inr ⟨rfl, by simp, Or.inl ⟨rfl, by simp⟩⟩)
    · exact fin (some .exec) (some now) md.execDone s hs (Or.inl ⟨rfl, rfl⟩)
    · exact fin (some .upload) md.execStart md.execDone s hs (Or.inr ⟨rfl, by simp, Or.inl ⟨rfl, by simp⟩⟩)
    · exact fin none md.execStart md.execDone s hs (Or.inr ⟨rfl, by simp, Or.inl ⟨rfl, by simp⟩⟩)
  · cases sl <;> cases st <;> refine ⟨hv, hws, hwd, hlo', fun s hs => ?_⟩
    · exact fin (some .fetch) md.execStart md.execDone s hs (Or.inr ⟨rfl, by simp, Or.inl ⟨rfl, by simp⟩⟩)
    · exact fin (some .exec) (some now) md.execDone s hs (Or.inl ⟨rfl, rfl⟩)
    · exact fin (some .upload) md.execStart md.execDone s hs (Or.inr ⟨rfl, by simp, Or.inl ⟨rfl, by simp⟩⟩)
    · exact fin none md.execStart md.execDone s hs (Or.inr ⟨rfl, by simp, Or.inl ⟨rfl, by simp⟩⟩)
    · exact fin (some .fetch) md.execStart (some now) s hs (Or.inr ⟨rfl, by simp, Or.inr rfl⟩)
    · exact fin (some .exec) (some now) (some now) s hs (Or.inl ⟨rfl, rfl⟩)
    · exact fin (some .upload) md.execStart (some now) s hs (Or.inr ⟨rfl, by simp, Or.inr rfl⟩)
    · exact fin none md.execStart (some now) s hs (Or.inr ⟨rfl, by simp, Or.inr rfl⟩)
    · exact fin (some .fetch) md.execStart md.execDone s hs (Or.inr ⟨rfl, by simp, Or.inl ⟨rfl, by simp⟩⟩)
    · exact fin (some .exec) (some now) md.execDone s hs (Or.inl ⟨rfl, rfl⟩)
    · exact fin (some .upload) md.execStart md.execDone s hs (Or.inr ⟨rfl, by simp, Or.inl ⟨rfl, by simp⟩⟩)
    · exact fin none md.execStart md.execDone s hs (Or.inr ⟨rfl, by simp, Or.inl ⟨rfl, by simp⟩⟩)

theorem inv_run {t0 : Ts} (ups : List (Stage × Ts)) : ∀ {w : W} {last hi : Nat}, Inv t0 w last →
    readingsFrom last ups hi = true → ∃ last', Inv t0 (w.run ups) last' ∧ last' ≤ hi := by
  induction ups with
  | nil =>
    intro w last hi h hr
    exact ⟨last, h, by simpa [readingsFrom] using hr⟩
  | cons u rest ih =>
    intro w last hi h hr
    simp only [readingsFrom, Bool.and_eq_true, decide_eq_true_eq] at hr
    exact ih (inv_update h u.1 u.2 hr.1) hr.2

/-- The wrapper's own metadata never carries a virtual duration. -/
theorem update_virt (w : W) (st : Stage) (now : Ts) : (w.update st now).md.virt = w.md.virt := by
  obtain ⟨md, cur⟩ := w
  rcases cur with _ | sl
  · cases st <;> rfl
  · cases sl <;> cases st <;> rfl

theorem run_virt (ups : List (Stage × Ts)) : ∀ w : W, (w.run ups).md.virt = w.md.virt := by
  induction ups with
  | nil => intro w; rfl
  | cons u rest ih => intro w; exact (ih (w.update u.1 u.2)).trans (update_virt w u.1 u.2)

theorem complete_virt (w : W) (now : Ts) : (w.complete now).virt = w.md.virt := by
  obtain ⟨md, cur⟩ := w
  rcases cur with _ | sl
  · rfl
  · cases sl <;> rfl

theorem complete_exec (w : W) (now : Ts) : (w.complete now).execStart = w.md.execStart ∧
    (w.complete now).execDone = if w.cur = some .exec then some now else w.md.execDone := by
  obtain ⟨md, cur⟩ := w
  rcases cur with _ | sl
  · exact ⟨rfl, rfl⟩
  · cases sl <;> exact ⟨rfl, rfl⟩

/-- Once a Running update was received the execution start stamp stays set. -/
theorem update_execStart_isSome (w : W) (st : Stage) (now : Ts) (h : w.md.execStart.isSome = true ∨ st = .running) :
    (w.update st now).md.execStart.isSome = true := by
  obtain ⟨md, cur⟩ := w
  rcases h with h | h
  · rcases cur with _ | sl
    · cases st <;> simp [W.update, W.complete, h] at h ⊢ <;> exact h
    · cases sl <;> cases st <;> simp [W.update, W.complete] at h ⊢ <;> exact h
  · subst h
    rcases cur with _ | sl
    · rfl
    · cases sl <;> rfl

theorem run_execStart_isSome (ups : List (Stage × Ts)) : ∀ w : W,
    (w.md.execStart.isSome = true ∨ ∃ u ∈ ups, u.1 = Stage.running) → (w.run ups).md.execStart.isSome = true := by
  induction ups with
  | nil =>
    intro w h
    rcases h with h | ⟨u, hu, _⟩
    · exact h
    · cases hu
  | cons u rest ih =>
    intro w h
    apply ih (w.update u.1 u.2)
    rcases h with h | ⟨v, hv, hr⟩
    · exact Or.inl (update_execStart_isSome w u.1 u.2 (Or.inl h))
    · rcases List.mem_cons.mp hv with rfl | hv
      · exact Or.inl (update_execStart_isSome w v.1 v.2 (Or.inr hr))
      · exact Or.inr ⟨v, hv, hr⟩

/-- The fields of the result of `finish` for an inner executor without stamps. -/
theorem finish_fields (w : W) (now : Ts) (base : Meta) (hb : base.noStamps) (hv : w.md.virt = none) :
    let m := w.finish now base
    m.workerStart = w.md.workerStart ∧ m.workerDone = some now ∧
    m.execStart = (w.complete now).execStart ∧ m.execDone = (w.complete now).execDone ∧
    m.virt = (match base.virt, (w.complete now).execStart, (w.complete now).execDone with
      | none, some s, some c => some ((c.ns : Int) - (s.ns : Int))
      | v, _, _ => v) := by
  obtain ⟨h1, h2, h3, h4, h5, h6, h7, h8⟩ := hb
  have hcv := complete_virt w now
  obtain ⟨md, cur⟩ := w
  simp only at hv
  have key : ∀ m' : Meta, m'.virt = none →
      (fallback (merge base { m' with workerDone := some now })).workerStart = m'.workerStart ∧
      (fallback (merge base { m' with workerDone := some now })).workerDone = some now ∧
      (fallback (merge base { m' with workerDone := some now })).execStart = m'.execStart ∧
      (fallback (merge base { m' with workerDone := some now })).execDone = m'.execDone ∧
      (fallback (merge base { m' with workerDone := some now })).virt = (match base.virt, m'.execStart, m'.execDone with
        | none, some s, some c => some ((c.ns : Int) - (s.ns : Int))
        | v, _, _ => v) := by
    intro m' hm'
    unfold fallback merge
    simp only [h1, h2, h5, h6, hm', mergeTs_none_left]
    cases hbv : base.virt <;> cases hs : m'.execStart <;> cases hc : m'.execDone <;> simp
  have := key (W.complete ⟨md, cur⟩ now) (by rw [hcv]; exact hv)
  rcases cur with _ | sl
  · exact this
  · cases sl <;> exact this

/-! ## the run stage -/

theorem cancel_of_end {t0 : Nat} {en : Option End} (hen : ∀ e, en = some e → t0 ≤ e.t) :
    ∀ c, (en.map fun e => (⟨e.t, e.pre⟩ : Cancel)) = some c → t0 ≤ c.t := by
  intro c hc
  cases en with
  | none => cases hc
  | some e => cases hc; exact hen e rfl

/-- What `execRunX` makes of the clock's result. -/
def xOf (r : Result) (en : Option End) : XResult :=
  match r.reason, en with
  | .cancelled, some e => ⟨enderCode e.what, enderExit e.what, r.dur, r.instant, false⟩
  | _, _ => ⟨4, none, r.dur, r.instant, true⟩

/-- `execRunX` in terms of the clock's result. -/
theorem execRunX_eq {P : Params} {tl : List Ev} {t0 d : Nat} {en : Option End} {r : Result}
    (h : fire P tl (en.map fun e => ⟨e.t, e.pre⟩) t0 d = .done r) :
    execRunX P tl t0 d en = some (xOf r en) := by
  unfold execRunX xOf
  rw [h]
  obtain ⟨i, reason, du, st, ps, pa⟩ := r
  cases reason <;> cases en <;> rfl

theorem execRunX_done {P : Params} {tl : List Ev} {t0 d : Nat} {en : Option End} {o : XResult}
    (h : execRunX P tl t0 d en = some o) :
    ∃ r, fire P tl (en.map fun e => ⟨e.t, e.pre⟩) t0 d = .done r ∧ o = xOf r en := by
  cases hf : fire P tl (en.map fun e => ⟨e.t, e.pre⟩) t0 d with
  | done r =>
    rw [execRunX_eq hf] at h
    cases h
    exact ⟨r, rfl, rfl⟩
  | badOracle => unfold execRunX at h; rw [hf] at h; cases h
  | outOfFuel => unfold execRunX at h; rw [hf] at h; cases h

end BbRe.Lemmas.ExecStamp
