import BbRe.Lemmas.SchedInvStream
/-! `Execute`, `WaitExecution` and the continuation of a parked stream. -/
namespace BbRe.Lemmas.SchedInv
open BbRe.Sched

def isSel : Event → Bool
  | .selSelect _ => true
  | .selAbandoned => true
  | _ => false

def selCount (evs : List Event) : Nat := evs.countP isSel

/-- no `execute` instruction -/
def NoExec : Event → Prop
  | .syncExecute _ _ _ _ => False
  | _ => True

theorem Quiet.noExec {e : Event} (h : Quiet e) : NoExec e := by cases e <;> simp_all [Quiet, NoExec]
theorem Quiet.notSel {e : Event} (h : Quiet e) : isSel e = false := by cases e <;> simp_all [Quiet, isSel]

theorem Ext.selCount_eq {a b : List Event} (h : Ext Quiet a b) : selCount b = selCount a := by
  obtain ⟨new, rfl, hn⟩ := h
  unfold selCount
  rw [List.countP_append]
  have : List.countP isSel new = 0 := by
    rw [List.countP_eq_zero]; intro e he; simp [(hn e he).notSel]
  omega

/-- the events of an `Execute` segment: no `execute` instruction, exactly one selector call -/
def EvSel (s s' : State) : Prop :=
  Ext NoExec s.events s'.events ∧ selCount s'.events = selCount s.events + 1

theorem EvSel.mk' {s s1 s2 s' : State} {e : Event} (h1 : Ext Quiet s.events s1.events)
    (h2 : s2.events = e :: s1.events) (he : isSel e = true) (hne : NoExec e)
    (h3 : Ext Quiet s2.events s'.events) : EvSel s s' := by
  constructor
  · have a := h1.mono (fun _ => Quiet.noExec)
    have b : Ext NoExec s1.events s2.events := by rw [h2]; exact Ext.cons (Ext.refl _ _) _ hne
    exact (a.trans b).trans (h3.mono (fun _ => Quiet.noExec))
  · rw [h3.selCount_eq, h2, ← h1.selCount_eq]
    simp [selCount, List.countP_cons, he]

/-- a new operation `nextOp` for the existing task `tid` -/
def addOpSt (s : State) (tid : Nat) (t : Task) (inv : List Nat) (prio : Int) : State :=
  { s with nextOp := s.nextOp + 1,
           ops := aset s.nextOp { name := s.nextOp, task := tid, inv := inv, prio := prio, waiters := 0,
                                  mayExistWithoutWaiters := false } s.ops,
           tasks := aset t.id { t with ops := t.ops ++ [s.nextOp] } s.tasks }

theorem fresh_stream {exo ts} {s : State} (ho : OInv exo ts s.ops s.nextOp) (hs : SInv s.ops s.streams s.cleanup) :
    s.streams.countP (fun st => st.op = s.nextOp) = 0 := by
  rw [List.countP_eq_zero]
  intro st hst
  have h3 := hs.s3 st hst
  cases ha : alookup st.op s.ops with
  | none => simp [ha] at h3
  | some op => have := (ho.oid _ _ ha).2; simp; omega

theorem addOpSt_inv {ex exo} {s : State} {tid : Nat} {t : Task} {inv : List Nat} {prio : Int}
    (hI : InvX ex exo s) (ht : alookup tid s.tasks = some t) : InvX ex exo (addOpSt s tid t inv prio) := by
  have hid : t.id = tid := (hI.core.tid tid t ht).1
  have ht' : alookup t.id s.tasks = some t := by rw [hid]; exact ht
  have hc := hI.core
  have ho := hI.oinv
  have hs := hI.sinv
  refine ⟨?_, ?_, ?_, hI.linv.setTask (t := { t with ops := t.ops ++ [s.nextOp] }) ht' (Or.inl rfl)⟩
  · simp only [addOpSt]
    core_facts hc
    constructor <;> grind
  · simp only [addOpSt]
    constructor
    · exact nodup_aset _ _ _ ho.ond
    · intro k op; rw [alookup_aset]; split
      · rename_i hk; intro e; cases e; exact ⟨hk, by omega⟩
      · intro hk; have := ho.oid k op hk; exact ⟨this.1, by omega⟩
    · intro k op; rw [alookup_aset]; split
      · rename_i hk; intro e; cases e
        exact ⟨_, by rw [alookup_aset, if_pos hid], by simp [hk]⟩
      · intro hk
        obtain ⟨t', h1, h2⟩ := ho.o1 k op hk
        rw [alookup_aset, hid]
        by_cases hkt : tid = op.task
        · rw [if_pos hkt]; rw [← hkt, ht] at h1; cases h1
          exact ⟨_, rfl, by simp [h2]⟩
        · rw [if_neg hkt]; exact ⟨t', h1, h2⟩
    · intro k t' o; rw [alookup_aset, hid]; split
      · rename_i hk; intro e; cases e; intro hm
        simp only [List.mem_append, List.mem_singleton] at hm
        rcases hm with hm | hm
        · obtain ⟨a, b⟩ := ho.o2 tid t o ht hm
          refine ⟨by omega, ?_⟩
          rcases b with b | ⟨op, e1, e2⟩
          · exact Or.inl b
          · right; exact ⟨op, by rw [alookup_aset, if_neg (by omega)]; exact e1, by rw [← hk]; exact e2⟩
        · subst hm
          exact ⟨by omega, Or.inr ⟨_, by rw [alookup_aset, if_pos rfl], hk⟩⟩
      · intro hk hm
        obtain ⟨a, b⟩ := ho.o2 k t' o hk hm
        refine ⟨by omega, ?_⟩
        rcases b with b | ⟨op, e1, e2⟩
        · exact Or.inl b
        · right; exact ⟨op, by rw [alookup_aset, if_neg (by omega)]; exact e1, e2⟩
    · intro k t'; rw [alookup_aset]; split
      · intro e; cases e
        have h3 := ho.o3 tid t ht
        refine ⟨?_, by simp⟩
        rw [List.nodup_append]
        refine ⟨h3.1, by simp, ?_⟩
        intro a ha b hb
        simp only [List.mem_singleton] at hb; subst hb
        have := (ho.o2 tid t a ht ha).1
        omega
      · exact ho.o3 k t'
  · simp only [addOpSt]
    constructor
    · intro k op; rw [alookup_aset]; split
      · rename_i hk; intro e; cases e; subst hk
        rw [fresh_stream ho hs]; exact Nat.le_refl _
      · exact hs.s1 k op
    · intro k op e; rw [alookup_aset]; split
      · intro e'; cases e'; intros; rfl
      · exact hs.s2 k op e
    · intro st hst; have := hs.s3 st hst; rw [alookup_aset]; split
      · rfl
      · exact this

def newTask (s : State) (digest dkey : Nat) (dnc : Bool) (q : ScqId) : Task :=
  { id := s.nextTask, digest := digest, dkey := dkey, doNotCache := dnc, scq := q, ops := [s.nextOp],
    worker := none, retry := 0, response := none, gen := 0, learner := some s.nextLearner,
    background := false, queued := false }

def newOp (s : State) (inv : List Nat) (prio : Int) : Op :=
  { name := s.nextOp, task := s.nextTask, inv := inv, prio := prio, waiters := 0, mayExistWithoutWaiters := false }

/-- the state `Execute` hands to `schedule` when it creates a task -/
def newTaskSt (s : State) (digest dkey : Nat) (dnc : Bool) (q : ScqId) (inv : List Nat) (prio : Int) : State :=
  { s with nextLearner := s.nextLearner + 1, events := .selSelect s.nextLearner :: s.events,
           nextTask := s.nextTask + 1, nextOp := s.nextOp + 1,
           dedup := if dnc then s.dedup else aset dkey s.nextTask s.dedup,
           tasks := aset s.nextTask (newTask s digest dkey dnc q) s.tasks,
           ops := aset s.nextOp (newOp s inv prio) s.ops }

theorem newTaskSt_core {s : State} {digest dkey : Nat} {dnc : Bool} {q : ScqId}
    (hc : Core (fun _ => False) s.tasks s.workers s.dedup s.nextTask s.nextLearner)
    (hnone : alookup dkey s.dedup = none) :
    Core (fun k => k = s.nextTask) (aset s.nextTask (newTask s digest dkey dnc q) s.tasks) s.workers
      (if dnc then s.dedup else aset dkey s.nextTask s.dedup) (s.nextTask + 1) (s.nextLearner + 1) := by
  core_facts hc
  cases dnc with
  | true =>
    simp only [newTask, if_true]
    constructor
    case l3 => clear h_p1 h_p2 h_p3 h_q1 h_q2 h_d1 h_d2 h_bg h_l1 h_w1 h_w2 h_w3 hc; grind
    all_goals grind
  | false =>
    simp only [newTask, Bool.false_eq_true, if_false]
    constructor
    case l3 => clear h_p1 h_p2 h_p3 h_q1 h_q2 h_d1 h_d2 h_bg h_l1 h_w1 h_w2 h_w3 hc; grind
    case d1 =>
      intro dk k hk
      rw [alookup_aset] at hk
      split at hk
      · cases hk; rename_i hdk; exact ⟨_, by rw [alookup_aset, if_pos rfl], hdk, rfl, rfl, rfl⟩
      · obtain ⟨t, a, b⟩ := h_d1 dk k hk
        exact ⟨t, by rw [alookup_aset, if_neg (by have := (h_tid k t a).2; omega)]; exact a, b⟩
    all_goals grind

theorem newTaskSt_inv {s : State} {digest dkey : Nat} {dnc : Bool} {q : ScqId} {inv : List Nat} {prio : Int}
    (hI : Inv s) (hnone : alookup dkey s.dedup = none) :
    InvX (fun k => k = s.nextTask) (fun _ => False) (newTaskSt s digest dkey dnc q inv prio) := by
  have hc := hI.core
  have ho := hI.oinv
  have hs := hI.sinv
  refine ⟨newTaskSt_core hc hnone, ?_, ?_, ?_⟩
  · simp only [newTaskSt]
    constructor
    · exact nodup_aset _ _ _ ho.ond
    · intro k op; rw [alookup_aset]; split
      · rename_i hk; intro e; cases e; exact ⟨hk, by omega⟩
      · intro hk; have := ho.oid k op hk; exact ⟨this.1, by omega⟩
    · intro k o; rw [alookup_aset]; split
      · rename_i hk; intro e; cases e
        exact ⟨newTask s digest dkey dnc q, by rw [alookup_aset]; simp [newOp], by simp [newTask, hk]⟩
      · intro hk
        obtain ⟨t', h1, h2⟩ := ho.o1 k o hk
        have hne : ¬ s.nextTask = o.task := by have := hc.tid _ _ h1; omega
        exact ⟨t', by rw [alookup_aset, if_neg hne]; exact h1, h2⟩
    · intro k t' o; rw [alookup_aset]; split
      · rename_i hk; intro e; cases e; intro hm
        simp only [newTask, List.mem_singleton] at hm; subst hm
        exact ⟨by omega, Or.inr ⟨newOp s inv prio, by rw [alookup_aset]; simp, hk⟩⟩
      · intro hk hm
        obtain ⟨a, b⟩ := ho.o2 k t' o hk hm
        refine ⟨by omega, ?_⟩
        rcases b with b | ⟨op, e1, e2⟩
        · exact Or.inl b
        · right; exact ⟨op, by rw [alookup_aset, if_neg (by omega)]; exact e1, e2⟩
    · intro k t'; rw [alookup_aset]; split
      · intro e; cases e; simp [newTask]
      · exact ho.o3 k t'
  · simp only [newTaskSt]
    constructor
    · intro k op; rw [alookup_aset]; split
      · rename_i hk; intro e; cases e; subst hk
        rw [fresh_stream ho hs]; exact Nat.zero_le _
      · exact hs.s1 k op
    · intro k op e; rw [alookup_aset]; split
      · intro e'; cases e'; intros; rfl
      · exact hs.s2 k op e
    · intro st hst; have := hs.s3 st hst; rw [alookup_aset]; split
      · rfl
      · exact this
  · simp only [newTaskSt]
    refine hI.linv.issue (by intro l'; simp) (by intro l'; simp) ?_
    intro l' hl'
    rcases hl'.aset with h | ⟨k', t', _, h1, h2⟩
    · right; simpa [newTask] using h.symm
    · left; exact ⟨k', t', h1, h2⟩

theorem newTaskSt_mono (s : State) (digest dkey : Nat) (dnc : Bool) (q : ScqId) (inv : List Nat) (prio : Int) :
    Mono s (newTaskSt s digest dkey dnc q inv prio) := by
  refine ⟨rfl, Nat.le_succ _, Nat.le_succ _, Nat.le_succ _, ?_, Ext.refl _ _⟩
  intro k hk
  refine ⟨Nat.lt_succ_of_lt hk.1, ?_⟩
  intro t'
  simp only [newTaskSt]
  rw [alookup_aset, if_neg (by have := hk.1; omega)]
  exact hk.2 t'

/-- `Execute` after `bq.enter` -/
def execBody (h : Hints) (s : State) (c digest dkey : Nat) (dnc : Bool) (comps : List Nat)
    (platform : Nat) (inv : List Nat) (prio : Int) : M State := do
  match alookup dkey s.dedup with
  | some tid =>
    let some t := s.task? tid | throw "dedup map points to a missing task"
    let s := emit s .selAbandoned
    match t.ops.find? (fun o => match s.op? o with | some op => op.inv = inv | none => false) with
    | some o => streamAttach s c o
    | none =>
      if t.response.isSome then throw "Task in unexpected stage"
      let opn := s.nextOp
      let s := { s with nextOp := opn + 1 }
      let s := s.setOp { name := opn, task := tid, inv := inv, prio := prio, waiters := 0, mayExistWithoutWaiters := false }
      let s := s.setTask { t with ops := t.ops ++ [opn] }
      streamAttach s c opn
  | none =>
    match route s comps platform with
    | none =>
      let s := emit s .selAbandoned
      return emit s (.ret c (if s.now < s.cfg.hardFailTime then cUnavailable else cFailedPrecondition))
    | some pq =>
      let sizes := s.sizes pq.id
      let some sc := sizes[min h.sel (sizes.length - 1)]? | throw "platform queue without size classes"
      let l := s.nextLearner
      let s := emit { s with nextLearner := l + 1 } (.selSelect l)
      let tid := s.nextTask
      let opn := s.nextOp
      let t : Task := { id := tid, digest := digest, dkey := dkey, doNotCache := dnc, scq := ⟨pq.id, sc⟩, ops := [opn], worker := none, retry := 0, response := none, gen := 0, learner := some l, background := false, queued := false }
      let s := { s with nextTask := tid + 1, nextOp := opn + 1 }
      let s := if dnc then s else { s with dedup := aset dkey tid s.dedup }
      let s := (s.setTask t).setOp { name := opn, task := tid, inv := inv, prio := prio, waiters := 0, mayExistWithoutWaiters := false }
      let s ← schedule h s tid
      streamAttach s c opn

theorem execArrive_eq (h : Hints) (s : State) (now c digest dkey : Nat) (dnc : Bool) (comps : List Nat)
    (platform : Nat) (inv : List Nat) (prio : Int) :
    execArrive h s now c digest dkey dnc comps platform inv prio =
      (enter h s now >>= fun s => execBody h s c digest dkey dnc comps platform inv prio) := rfl

/-- postcondition of an `Execute` segment -/
def ExecPost (s s' : State) : Prop := Inv s' ∧ Mono s s' ∧ EvSel s s'

theorem execBody_hit_spec {s : State} {c tid : Nat} {t : Task} {inv : List Nat} {prio : Int} (hI : Inv s)
    (ht : alookup tid s.tasks = some t) (hr : t.response = none) :
    wp (match t.ops.find? (fun o => match (emit s .selAbandoned).op? o with | some op => op.inv = inv | none => false) with
        | some o => streamAttach (emit s .selAbandoned) c o
        | none =>
          streamAttach (addOpSt (emit s .selAbandoned) tid t inv prio) c s.nextOp)
      (fun s' => ExecPost s s' ∧ s'.nextTask = s.nextTask ∧
        ∃ st t', st ∈ s'.streams ∧ st.client = c ∧ alookup tid s'.tasks = some t' ∧ st.op ∈ t'.ops) := by
  have hI1 : Inv (emit s .selAbandoned) :=
    ⟨hI.core, hI.oinv, hI.sinv, hI.linv.emit _ (fun _ => ⟨rfl, rfl⟩)⟩
  have hev1 : (emit s .selAbandoned).events = .selAbandoned :: s.events := rfl
  split
  · rename_i o hf
    have hp := List.find?_some hf
    cases hop : alookup o (emit s .selAbandoned).ops with
    | none => simp only [op?_def, hop] at hp; cases hp
    | some op =>
      have hmem : o ∈ t.ops := List.mem_of_find?_eq_some hf
      have hot : op.task = tid := by
        rcases (hI.oinv.o2 tid t o ht hmem).2 with b | ⟨op', e1, e2⟩
        · exact absurd b id
        · have : alookup o s.ops = some op := hop
          rw [this] at e1; cases e1; exact e2
      refine wp_mono (streamAttach_spec hI1 hop) ?_
      intro s' ⟨hI', hsf, hev, hlive⟩
      have hfr := hsf.fr hev
      obtain ⟨st, hst1, hst2, hst3⟩ := hlive t (by rw [hot]; exact ht) hr
      obtain ⟨os, sts, cl, evs, he⟩ := hsf
      refine ⟨⟨hI', ?_, EvSel.mk' (s1 := s) (Ext.refl _ _) hev1 rfl trivial hev⟩, by rw [he]; rfl,
        st, t, hst1, hst2, by rw [he]; exact ht, by rw [hst3]; exact hmem⟩
      exact Mono.trans (show Mono s (emit s .selAbandoned) from
        ⟨rfl, Nat.le_refl _, Nat.le_refl _, Nat.le_refl _, fun k hk => hk, Ext.refl _ _⟩) hfr.toMono
  · have hI2 := addOpSt_inv (inv := inv) (prio := prio) hI1 ht
    have hop : alookup s.nextOp (addOpSt (emit s .selAbandoned) tid t inv prio).ops =
        some { name := s.nextOp, task := tid, inv := inv, prio := prio, waiters := 0, mayExistWithoutWaiters := false } := by
      simp only [addOpSt, emit]; rw [alookup_aset, if_pos rfl]
    have hid : t.id = tid := (hI.core.tid tid t ht).1
    have ht2 : alookup tid (addOpSt (emit s .selAbandoned) tid t inv prio).tasks =
        some { t with ops := t.ops ++ [s.nextOp] } := by
      simp only [addOpSt, emit]; rw [alookup_aset, if_pos hid]
    refine wp_mono (streamAttach_spec hI2 hop) ?_
    intro s' ⟨hI', hsf, hev, hlive⟩
    have hfr := hsf.fr hev
    obtain ⟨st, hst1, hst2, hst3⟩ := hlive _ ht2 hr
    obtain ⟨os, sts, cl, evs, he⟩ := hsf
    refine ⟨⟨hI', ?_, EvSel.mk' (s1 := s) (s2 := addOpSt (emit s .selAbandoned) tid t inv prio) (Ext.refl _ _) hev1 rfl trivial hev⟩,
      by rw [he]; rfl, st, _, hst1, hst2, by rw [he]; exact ht2, by rw [hst3]; simp⟩
    refine Mono.trans (show Mono s (addOpSt (emit s .selAbandoned) tid t inv prio) from
      ⟨rfl, Nat.le_refl _, Nat.le_refl _, Nat.le_succ _, ?_, Ext.refl _ _⟩) hfr.toMono
    intro k hk
    refine ⟨hk.1, ?_⟩
    intro t'
    simp only [addOpSt, emit]
    rw [alookup_aset]
    split
    · rename_i hkk
      intro e; cases e
      rw [← hkk, hid] at hk
      exact hk.2 t ht
    · exact hk.2 t'


theorem execBody_new_spec {h : Hints} {s : State} {c digest dkey : Nat} {dnc : Bool} {q : ScqId}
    {inv : List Nat} {prio : Int} (hI : Inv s) (hnone : alookup dkey s.dedup = none) :
    wp (schedule h (newTaskSt s digest dkey dnc q inv prio) s.nextTask >>= fun s1 => streamAttach s1 c s.nextOp)
      (fun s' => ExecPost s s' ∧ s'.nextTask = s.nextTask + 1 ∧
        s'.dedup = (if dnc then s.dedup else aset dkey s.nextTask s.dedup) ∧
        ∃ t', alookup s.nextTask s'.tasks = some t' ∧ t'.dkey = dkey ∧ t'.doNotCache = dnc ∧
          t'.background = false ∧ t'.digest = digest) := by
  have hI3 := newTaskSt_inv (digest := digest) (dnc := dnc) (q := q) (inv := inv) (prio := prio) hI hnone
  have ht3 : alookup s.nextTask (newTaskSt s digest dkey dnc q inv prio).tasks =
      some (newTask s digest dkey dnc q) := by
    simp only [newTaskSt]; rw [alookup_aset, if_pos rfl]
  apply wp_bind
  refine wp_mono (schedule_spec (h := h) hI3 ht3 rfl rfl) ?_
  intro s1 ⟨hI1, hp⟩
  have hI1' : Inv s1 := hI1.mono (fun k hk => hk.2 hk.1) (fun _ h => h)
  have hfr1 := hp.fr ht3 rfl
  obtain ⟨ws, ts, asg, he⟩ := hp.same
  have hop : alookup s.nextOp s1.ops = some (newOp s inv prio) := by
    rw [he]; simp only [newTaskSt]; rw [alookup_aset, if_pos rfl]
  refine wp_mono (streamAttach_spec hI1' hop) ?_
  intro s' ⟨hI', hsf, hev, _⟩
  have hfr := hsf.fr hev
  obtain ⟨t1, ht1, he1, _⟩ := hp.tt
  obtain ⟨os, sts, cl, evs, he'⟩ := hsf
  refine ⟨⟨hI', ((newTaskSt_mono s digest dkey dnc q inv prio).trans hfr1.toMono).trans hfr.toMono, ?_⟩,
    by rw [he', he]; rfl, by rw [he', he]; rfl, t1, by rw [he']; exact ht1, by rw [he1]; rfl, by rw [he1]; rfl,
    by rw [he1]; rfl, by rw [he1]; rfl⟩
  exact EvSel.mk' (s1 := s) (s2 := newTaskSt s digest dkey dnc q inv prio) (Ext.refl _ _) rfl rfl trivial
    (hfr1.ev.trans hev)

set_option maxHeartbeats 1000000 in
theorem execBody_spec {h : Hints} {s : State} {c digest dkey : Nat} {dnc : Bool} {comps : List Nat}
    {platform : Nat} {inv : List Nat} {prio : Int} (hI : Inv s) :
    wp (execBody h s c digest dkey dnc comps platform inv prio) (fun s' => ExecPost s s') := by
  unfold execBody
  cases hd : alookup dkey s.dedup with
  | some tid =>
    dsimp only
    obtain ⟨t, ht, _, hr, _, _⟩ := hI.core.d1 dkey tid hd
    simp only [task?_def, ht]
    have hrs : ¬ t.response.isSome = true := by rw [hr]; simp
    have := execBody_hit_spec (c := c) (inv := inv) (prio := prio) hI ht hr
    refine wp_mono (Q := fun s' => ExecPost s s' ∧ s'.nextTask = s.nextTask ∧
        ∃ st t', st ∈ s'.streams ∧ st.client = c ∧ alookup tid s'.tasks = some t' ∧ st.op ∈ t'.ops) ?_ (fun s' h => h.1)
    split
    · rename_i o hf
      rw [hf] at this; exact this
    · rename_i hf
      rw [hf] at this
      rw [if_neg hrs]
      exact this
  | none =>
    dsimp only
    split
    · -- no platform queue
      rw [wp_pure]
      refine ⟨⟨hI.core, hI.oinv, hI.sinv, (hI.linv.emit _ (fun _ => ⟨rfl, rfl⟩)).emit _ (noLearn_ret _ _)⟩,
        ⟨rfl, Nat.le_refl _, Nat.le_refl _, Nat.le_refl _, fun k hk => hk, Ext.refl _ _⟩, ?_⟩
      exact EvSel.mk' (s := s) (s1 := s) (s2 := emit s .selAbandoned) (Ext.refl _ _) rfl rfl trivial
        (Ext.cons (Ext.refl _ _) _ trivial)
    · rename_i pq _
      split
      · rename_i sc _
        have := execBody_new_spec (h := h) (c := c) (digest := digest) (dnc := dnc) (q := ⟨pq.id, sc⟩)
          (inv := inv) (prio := prio) hI hd
        cases dnc with
        | true => exact wp_mono this (fun s' h => h.1)
        | false => exact wp_mono this (fun s' h => h.1)
      · okerr

theorem execArrive_spec {h : Hints} {s : State} {now c digest dkey : Nat} {dnc : Bool} {comps : List Nat}
    {platform : Nat} {inv : List Nat} {prio : Int} (hI : Inv s) :
    wp (execArrive h s now c digest dkey dnc comps platform inv prio) (fun s' => ExecPost s s') := by
  rw [execArrive_eq]
  apply wp_bind
  refine wp_mono (enter_spec hI) ?_
  intro s0 ⟨hI0, hfr0⟩
  refine wp_mono (execBody_spec hI0) ?_
  intro s' ⟨hI', hm, hev⟩
  refine ⟨hI', hfr0.toMono.trans hm, ?_⟩
  constructor
  · exact (hfr0.ev.mono (fun _ => Quiet.noExec)).trans hev.1
  · rw [hev.2, hfr0.ev.selCount_eq]

/-- postcondition of the segments that emit only quiet events -/
def QuietPost (s s' : State) : Prop := Inv s' ∧ Fr s s'

theorem waitArrive_spec {h : Hints} {s : State} {now c name : Nat} (hI : Inv s) :
    wp (waitArrive h s now c name) (fun s' => QuietPost s s') := by
  unfold waitArrive
  apply wp_bind
  refine wp_mono (enter_spec hI) ?_
  intro s0 ⟨hI0, hfr0⟩
  cases hop : alookup name s0.ops with
  | none =>
    simp only [op?_def, hop, wp_pure]
    exact ⟨⟨hI0.core, hI0.oinv, hI0.sinv, hI0.linv.emit _ (noLearn_ret _ _)⟩,
      hfr0.trans (StreamFrame.fr ⟨_, _, _, _, rfl⟩ (Ext.cons (Ext.refl _ _) _ trivial))⟩
  | some op =>
    simp only [op?_def, hop]
    refine wp_mono (streamAttach_spec hI0 hop) ?_
    intro s' ⟨hI', hsf, hev, _⟩
    exact ⟨hI', hfr0.trans (hsf.fr hev)⟩

theorem streamWake_spec {h : Hints} {s : State} {now c reason : Nat} (hI : Inv s) :
    wp (streamWake h s now c reason) (fun s' => QuietPost s s') := by
  unfold streamWake
  apply wp_bind
  refine wp_mono (enter_spec hI) ?_
  intro s0 ⟨hI0, hfr0⟩
  cases hf : s0.streams.find? (fun x => x.client = c) with
  | none => okerr
  | some st =>
    dsimp only
    have hst : st ∈ s0.streams := List.mem_of_find?_eq_some hf
    have hstc : st.client = c := by simpa using List.find?_some hf
    have h3 := hI0.sinv.s3 st hst
    by_cases h2 : reason = 2
    · rw [if_pos h2]
      refine wp_mono (streamLeave_spec hI0) ?_
      intro s' ⟨hI', hsf, hev⟩
      exact ⟨hI', hfr0.trans (hsf.fr hev)⟩
    · rw [if_neg h2]
      cases hop : alookup st.op s0.ops with
      | none => rw [hop] at h3; cases h3
      | some op =>
        obtain ⟨t, ht, _⟩ := hI0.oinv.o1 _ op hop
        have hcnt := countP_filter_add_one (l := s0.streams) (p := fun x => decide (x.op = st.op))
          (q := fun x => decide (x.client ≠ c)) hst (by simp) (by simp [hstc])
        have h1 := hI0.sinv.s1 _ op hop
        have hsend : wp (streamSend s0 c st.op) (fun s' => QuietPost s s') := by
          refine wp_mono (streamSend_spec hI0 hop (by omega)) ?_
          intro s' ⟨hI', hsf, hev, _⟩
          exact ⟨hI', hfr0.trans (hsf.fr hev)⟩
        by_cases h0 : reason = 0
        · simp only [h0, if_true, op?_def, hop, task?_def, ht]
          by_cases hg : t.gen = st.snap
          · simp only [hg, if_true]; okerr
          · simp only [hg, if_false, pure_bind]; exact hsend
        · simp only [h0, if_false, pure_bind]; exact hsend

end BbRe.Lemmas.SchedInv
