import BbRe.Lemmas.SchedLiveClean10
import BbRe.Lemmas.SchedLiveSleep
/-!
The four timed failures (C06): what each cleanup callback does to its object,
that nothing runs before its deadline, and the retry limit.
-/
namespace BbRe.Lemmas.SchedLive
open BbRe.Sched

/-- a scheduler-made (non-success, not by the worker) completion of an uncompleted task stores exactly the
given response; the task keeps its key -/
theorem complete_fail_final {h : Hints} {s s' : State} {tid : Nat} {r : Resp} {t : Task} (hk : KeysOK s)
    (h0 : s.task? tid = some t) (hr : t.response = none) (hns : ¬ isSucc r)
    (hh : complete h s tid r false = .ok s') :
    ∃ t', s'.task? tid = some t' ∧ t'.response = some r ∧ t'.worker = none ∧
      (∀ k, k ≠ tid → s'.task? k = s.task? k) := by
  obtain ⟨t0, h0', ⟨hsome, _⟩ | ⟨_, l, _, h1 | h1 | h1⟩⟩ := complete_ok hh
  all_goals (rw [h0] at h0'; injection h0' with h0'; subst h0')
  · rw [hr] at hsome; cases hsome
  · exact absurd h1.1 hns
  · cases h1.2.1
  · obtain ⟨_, _, ev, _, rfl⟩ := h1
    have hid := (hk.tid tid t h0).1
    refine ⟨bumpGen { detachT t with learner := none, response := some r }, ?_, rfl, by simp [bumpGen], ?_⟩
    · simp [State.task?, alookup_aset, bumpGen, hid]
    · intro k hk'
      simp only [State.task?, succS_tasks, alookup_aset, detachT_id, detachW_tasks, hid]
      simp [Ne.symm hk']

/-- **not earlier**: when no entry is due, `enter` only advances the clock -/
theorem enter_nothing_due {h : Hints} {s : State} {now : Nat} (hn : ∀ e ∈ s.cleanup, now < e.deadline) :
    enter h s now = .ok (if now > s.now then setNow s now else s) := by
  unfold enter
  split
  · unfold cleanupFuel
    rw [runCleanup_succ]
    have : popDue now s.cleanup = none := popDue_none.2 hn
    simp only [setNow, *]
    rfl
  · rfl

/-- a callback only ever runs for an entry whose deadline has passed, and for the earliest such entry -/
theorem callback_only_when_due {s : State} {e : CleanupEntry} {rest : List CleanupEntry}
    (hp : popDue s.now s.cleanup = some (e, rest)) :
    e ∈ s.cleanup ∧ e.deadline ≤ s.now ∧ ∀ x ∈ s.cleanup, x.deadline ≤ s.now → e.deadline ≤ x.deadline := by
  obtain ⟨a, b, c, _⟩ := popDue_some hp; exact ⟨a, b, c⟩

theorem worker?_filterWorkers (s : State) (q : ScqId) (w : WId) : (filterWorkers s q w).worker? q w = none := by
  unfold State.worker?
  rw [List.find?_eq_none]
  intro x hx
  have := (List.mem_filter.1 hx).2
  simp only [decide_eq_true_eq] at this
  simpa using this

theorem dropWorker_worker? (s : State) (q : ScqId) (w : WId) (rt : Nat) : (dropWorker s q w rt).worker? q w = none := by
  have : (dropWorker s q w rt).workers = (filterWorkers s q w).workers := by
    unfold dropWorker; (repeat' split) <;> rfl
  rw [worker?_congr this]; exact worker?_filterWorkers s q w

/-- **worker timeout** (callback): the stale worker is removed and the task it held — if still
uncompleted — is completed with `UNAVAILABLE`, cause `workerDisappeared`. -/
theorem stale_worker_callback {h : Hints} {s s' : State} {q : ScqId} {w : WId} {rt : Nat} (hk : KeysOK s)
    (hh : removeStaleWorker h s q w rt = .ok s') :
    s'.worker? q w = none ∧
    ∀ wk tid t, s.worker? q w = some wk → wk.task = some tid → s.task? tid = some t → t.response = none →
      ∃ t', s'.task? tid = some t' ∧ t'.response = some ⟨cUnavailable, 0, 0, .workerDisappeared⟩ := by
  rcases removeStaleWorker_ok hh with ⟨hn, rfl⟩ | ⟨wk, s1, hwk, h1, rfl⟩
  · exact ⟨hn, fun wk tid t e => by rw [hn] at e; cases e⟩
  · refine ⟨dropWorker_worker? s1 q w rt, ?_⟩
    intro wk' tid t e htk h0 hr
    rw [hwk] at e; injection e with e; subst e
    rcases h1 with ⟨tid', htk', h1⟩ | ⟨hnone, _⟩
    · rw [htk] at htk'; injection htk' with htk'; subst htk'
      obtain ⟨t', e1, e2, _⟩ := complete_fail_final hk h0 hr (by simp [isSucc, cUnavailable, cOK]) h1
      exact ⟨t', by simpa [State.task?] using e1, e2⟩
    · rw [htk] at hnone; cases hnone

/-- **no-waiter timeout** (callback): the operation is removed; if it was the last operation of its task
the task is completed with `CANCELED`, cause `noWaiters`, and dropped. -/
theorem op_callback {h : Hints} {s s' : State} {o : Nat} (hk : KeysOK s) (hh : removeOp h s o = .ok s') :
    s'.op? o = none ∧
    ∀ op t, s.op? o = some op → s.task? op.task = some t →
      (t.ops = [o] → t.response = none →
        (∃ s1 t1, complete h (eraseOp s o) op.task ⟨cCanceled, 0, 0, .noWaiters⟩ false = .ok s1 ∧
          s1.task? op.task = some t1 ∧ t1.response = some ⟨cCanceled, 0, 0, .noWaiters⟩ ∧ t1.worker = none) ∧
        s'.task? op.task = none) := by
  rcases removeOp_ok hh with ⟨hn, rfl⟩ | ⟨op, t, s1, t1, hop, ht, h1, h2, rfl⟩
  · exact ⟨hn, fun op t e => by rw [hn] at e; cases e⟩
  · have hkE : KeysOK (eraseOp s o) := (eraseOp_tstep True s o hk).1
    have hlt : o < s.nextOp := (hk.oname o op hop).2.1
    have hnoE : (eraseOp s o).op? o = none := by simp [State.op?, alookup_aerase _ _ _ hk.onodup]
    have hk1 : KeysOK s1 ∧ s1.op? o = none := by
      rcases h1 with ⟨_, h1⟩ | ⟨_, rfl⟩
      · obtain ⟨k1, rel⟩ := complete_tstep h1 hkE
        refine ⟨k1, ?_⟩
        cases hs : s1.op? o with
        | none => rfl
        | some op1 => obtain ⟨op0, e0, _⟩ := rel.ops o op1 hlt hs; rw [hnoE] at e0; cases e0
      · exact ⟨hkE, hnoE⟩
    refine ⟨by simpa [State.op?] using hk1.2, ?_⟩
    intro op' t' e1 e2 hops hr
    rw [hop] at e1; injection e1 with e1; subst e1
    rw [ht] at e2; injection e2 with e2; subst e2
    have hid := (hk.tid _ _ ht).1
    rcases h1 with ⟨_, h1⟩ | ⟨hne, _⟩
    · rw [hid] at h1
      have htE : (eraseOp s o).task? op.task = some t := ht
      obtain ⟨t1', e3, e4, e5, _⟩ := complete_fail_final hkE htE hr (by simp [isSucc, cCanceled, cOK]) h1
      rw [h2] at e3; injection e3 with e3; subst e3
      refine ⟨⟨s1, t1, h1, h2, e4, e5⟩, ?_⟩
      -- the task's only operation is gone: the task is dropped
      have hops1 : t1.ops = [o] := by
        obtain ⟨_, rel⟩ := complete_tstep h1 hkE
        -- `complete` keeps the operation list; read it off the final task
        obtain ⟨t0, h0', _ | ⟨_, l, _, hc | hc | hc⟩⟩ := complete_ok h1
        · rename_i hx; rw [htE] at h0'; injection h0' with h0'; subst h0'; rw [hr] at hx; cases hx.1
        · exact absurd hc.1 (by simp [isSucc, cCanceled, cOK])
        · cases hc.2.1
        · rw [htE] at h0'; injection h0' with h0'; subst h0'
          obtain ⟨_, _, ev, _, rfl⟩ := hc
          simp only [State.task?, succS_tasks, alookup_aset, detachT_id, hid, if_true, Option.some.injEq] at h2
          subst h2; simp [bumpGen, hops]
      have hid1 := (hk1.1.tid _ _ h2).1
      unfold dropOpT
      simp [hops1, State.task?, hid1, alookup_aerase _ _ _ hk1.1.tnodup]
    · rw [hops] at hne; simp at hne

/-- **retry limit**: a worker that re-requests its task once too often gets the task failed with
`INTERNAL`, cause `retryLimit`; below the limit the task is re-issued and the counter incremented. -/
theorem retry_limit_step {h : Hints} {s s' : State} {q : ScqId} {w : WId} {pi block : Bool} {wk : Worker} {tid : Nat}
    {t : Task} (hwk : s.worker? q w = some wk) (htk : wk.task = some tid) (h0 : s.task? tid = some t)
    (hh : getCurrentOrNext h s q w pi block = .ok s') :
    (t.retry < s.cfg.retryCount →
      s' = syncReturn (emit (s.setTask { t with retry := t.retry + 1 })
            (.syncExecute q w t.digest (s.now + s.cfg.busyInterval))) q w) ∧
    (¬ t.retry < s.cfg.retryCount →
      ∃ s1, complete h s tid ⟨cInternal, 0, 0, .retryLimit⟩ false = .ok s1 ∧ getNextTask h s1 q w pi block = .ok s') := by
  obtain ⟨wk', hwk', h1 | h1⟩ := getCurrentOrNext_ok hh
  · rw [hwk] at hwk'; injection hwk' with e; subst e; rw [htk] at h1; cases h1.1
  · obtain ⟨tid', t', htk', h0', h2⟩ := h1
    rw [hwk] at hwk'; injection hwk' with e; subst e
    rw [htk] at htk'; injection htk' with e; subst e
    rw [h0] at h0'; injection h0' with e; subst e
    rcases h2 with ⟨hlt, rfl⟩ | ⟨hge, s1, h3, h4⟩
    · exact ⟨fun _ => rfl, fun hn => absurd hlt hn⟩
    · exact ⟨fun hl => absurd hl hge, fun _ => ⟨s1, h3, h4⟩⟩

/-- **queue timeout** (callback): the worker-created queue is removed … -/
theorem scq_callback_removed {h : Hints} {s s' : State} {q : ScqId} (hh : removeScq h s q = .ok s') :
    s'.scq? q = none := by
  obtain ⟨s1, _, rfl⟩ := removeScq_ok hh
  have e : (dropScq s1 q).scqs = s1.scqs.filter (fun x => x.id ≠ q) := by unfold dropScq; split <;> rfl
  simp only [State.scq?, e]
  exact find?_filter_self

end BbRe.Lemmas.SchedLive
