import BbRe.Model.ExecFlow
import Std.Data.String.ToNat
/-! Helper lemmas for `Properties/C10Flow.lean`, `C11Flow.lean`, `C12Flow.lean`. -/
namespace BbRe.Lemmas.ExecFlow
open BbRe.ExecFlow

/-! ## run stage -/

/-- A script that fits into what is left of both budgets runs to its end. -/
theorem runFrom_fits (T L : Nat) (sc : List Seg) : ∀ (t u n : Nat),
    u + runTime sc ≤ T → t + runTime sc + stallTime sc ≤ L →
    runFrom T L t u n sc = ⟨false, u + runTime sc, t + runTime sc + stallTime sc, n + sc.length⟩ := by
  induction sc with
  | nil =>
    intro t u n _ h2
    simp only [runFrom, runTime, stallTime, List.length_nil, Nat.add_zero] at *
    have : ¬ L < t := by omega
    simp [this]
  | cons seg rest ih =>
    intro t u n h1 h2
    cases seg with
    | run d =>
      simp only [runTime, stallTime, List.length_cons] at *
      have h0 : ¬ L < t := by omega
      have hk : ¬ min (T - u) (L - t) < d := by omega
      simp only [runFrom, h0, hk, if_false]
      rw [ih (t + d) (u + d) (n + 1) (by omega) (by omega)]
      congr 1 <;> omega
    | stall d =>
      simp only [runTime, stallTime, List.length_cons] at *
      have h0 : ¬ L < t := by omega
      simp only [runFrom, h0, if_false]
      rw [ih (t + d) u (n + 1) (by omega) (by omega)]
      congr 1 <;> omega

/-- What a cancelled command had been given, and what any command is charged at most. -/
theorem runFrom_bounds (T L : Nat) (sc : List Seg) : ∀ (t u n : Nat), u ≤ T → u ≤ t →
    let r := runFrom T L t u n sc
    r.unsusp ≤ T ∧ u ≤ r.unsusp ∧ t ≤ r.wall ∧ r.unsusp - u ≤ r.wall - t ∧
      (r.killed = true → r.unsusp = T ∨ L ≤ r.wall) := by
  induction sc with
  | nil =>
    intro t u n hu _
    simp only [runFrom]
    refine ⟨hu, Nat.le_refl _, Nat.le_refl _, by omega, ?_⟩
    intro hk
    have : L < t := by simpa using hk
    exact Or.inr (by omega)
  | cons seg rest ih =>
    intro t u n hu hut
    cases seg with
    | run d =>
      simp only [runFrom]
      by_cases h0 : L < t
      · simp only [h0, if_true]
        exact ⟨hu, Nat.le_refl _, Nat.le_refl _, by omega, fun _ => Or.inr (by omega)⟩
      · simp only [h0, if_false]
        by_cases hk : min (T - u) (L - t) < d
        · simp only [hk, if_true]
          refine ⟨by omega, by omega, by omega, by omega, fun _ => ?_⟩
          by_cases hc : T - u ≤ L - t
          · left; rw [Nat.min_eq_left hc]; omega
          · right; rw [Nat.min_eq_right (by omega)]; omega
        · simp only [hk, if_false]
          have := ih (t + d) (u + d) (n + 1) (by omega) (by omega)
          simp only at this
          obtain ⟨a, b, c, e, f⟩ := this
          exact ⟨a, by omega, by omega, by omega, f⟩
    | stall d =>
      simp only [runFrom]
      by_cases h0 : L < t
      · simp only [h0, if_true]
        exact ⟨hu, Nat.le_refl _, Nat.le_refl _, by omega, fun _ => Or.inr (by omega)⟩
      · simp only [h0, if_false]
        have := ih (t + d) u (n + 1) hu (by omega)
        simp only at this
        obtain ⟨a, b, c, e, f⟩ := this
        exact ⟨a, b, by omega, by omega, f⟩

/-! ## upload -/

theorem uploadFiles_length (dl : Nat) (cl : List Nat) : ∀ now, (uploadFiles dl now cl).1.length = cl.length := by
  induction cl with
  | nil => intro now; simp [uploadFiles]
  | cons c rest ih =>
    intro now
    simp only [uploadFiles]
    split
    · simp [ih]
    · split <;> simp [ih]

/-- Every descriptor that is closed before the deadline is waited for. -/
theorem uploadFiles_all (dl : Nat) (cl : List Nat) : ∀ now, (∀ c ∈ cl, c < dl) →
    ∀ b ∈ (uploadFiles dl now cl).1, b = true := by
  induction cl with
  | nil => intro now _ b hb; simp [uploadFiles] at hb
  | cons c rest ih =>
    intro now h b hb
    have hc : c < dl := h c (by simp)
    have hr : ∀ c' ∈ rest, c' < dl := fun c' hc' => h c' (by simp [hc'])
    simp only [uploadFiles] at hb
    split at hb
    · simp only [List.mem_cons] at hb
      rcases hb with rfl | hb
      · rfl
      · exact ih now hr b hb
    · simp only [List.mem_cons] at hb
      rcases hb with rfl | hb
      · rfl
      · exact ih c hr b hb

/-- The upload never waits beyond the deadline (or the instant it started, if later). -/
theorem uploadFiles_finish (dl : Nat) (cl : List Nat) : ∀ now,
    now ≤ (uploadFiles dl now cl).2 ∧ (uploadFiles dl now cl).2 ≤ max now dl := by
  induction cl with
  | nil => intro now; simp only [uploadFiles]; omega
  | cons c rest ih =>
    intro now
    simp only [uploadFiles]
    split
    · exact ih now
    · split
      · have := ih c; omega
      · have := ih (max now dl); omega

/-- A file is uploaded completely only if its descriptor was closed by the time the
upload of that file was over. -/
theorem uploadFiles_finish_ge (dl : Nat) (cl : List Nat) : ∀ now, (∀ c ∈ cl, c < dl) →
    ∀ c ∈ cl, c ≤ (uploadFiles dl now cl).2 := by
  induction cl with
  | nil => intro now _ c hc; simp at hc
  | cons c rest ih =>
    intro now h x hx
    have hc : c < dl := h c (by simp)
    have hr : ∀ c' ∈ rest, c' < dl := fun c' hc' => h c' (by simp [hc'])
    simp only [uploadFiles]
    split
    · next hle =>
      simp only [List.mem_cons] at hx
      rcases hx with rfl | hx
      · have := (uploadFiles_finish dl rest now).1; omega
      · exact ih now hr x hx
    · simp only [List.mem_cons] at hx
      rcases hx with rfl | hx
      · exact (uploadFiles_finish dl rest x).1
      · exact ih c hr x hx

/-! ## directory names -/

structure DInv (s : Dirs) : Prop where
  counter : ∀ x ∈ s.running, x.1.doNotCache = true → ∃ k, 1 ≤ k ∧ k ≤ s.next ∧ x.2 = Nat.repr k
  digest  : ∀ x ∈ s.running, x.1.doNotCache = false → x.2 = x.1.digestName ∧ x.1.digestName.length = 16
  nodup   : s.names.Nodup

theorem dinv_init : DInv Dirs.init :=
  ⟨by intro x hx; simp [Dirs.init] at hx, by intro x hx; simp [Dirs.init] at hx, by simp [Dirs.names, Dirs.init]⟩

theorem mem_names {s : Dirs} {n : String} : n ∈ s.names ↔ ∃ x ∈ s.running, x.2 = n := by
  simp [Dirs.names]

theorem repr_length_lt {k : Nat} (h : k < 10 ^ 15) : (Nat.repr k).length ≠ 16 := by
  have := (Nat.length_repr_le_iff (n := k) (k := 15) (by omega)).mpr h
  omega

/-- The name `get` picks is not the name of any running action. -/
theorem fresh_name {s : Dirs} (inv : DInv s) (r : Req) (hl : r.digestName.length = 16) (ha : s.admits r)
    (hb : s.next + 1 < 10 ^ 15) :
    (match request r with | none => Nat.repr (s.next + 1) | some d => d) ∉ s.names := by
  intro hm
  obtain ⟨x, hx, hxn⟩ := mem_names.mp hm
  cases hd : r.doNotCache with
  | true =>
    simp only [request, hd, if_true] at hxn
    cases hxd : x.1.doNotCache with
    | true =>
      obtain ⟨k, _, hk2, hk3⟩ := inv.counter x hx hxd
      have := Nat.repr_injective (hk3.symm.trans hxn)
      omega
    | false =>
      obtain ⟨e1, e2⟩ := inv.digest x hx hxd
      have : (Nat.repr (s.next + 1)).length = 16 := by rw [← hxn, e1, e2]
      exact repr_length_lt hb this
  | false =>
    simp [request, hd] at hxn
    cases hxd : x.1.doNotCache with
    | true =>
      obtain ⟨k, _, hk2, hk3⟩ := inv.counter x hx hxd
      have : (Nat.repr k).length = 16 := by rw [← hk3, hxn, hl]
      exact repr_length_lt (by omega) this
    | false =>
      obtain ⟨e1, _⟩ := inv.digest x hx hxd
      exact ha hd x hx hxd (by rw [← e1, hxn])

theorem dinv_get {s : Dirs} (inv : DInv s) (r : Req) (hl : r.digestName.length = 16) : DInv (s.get r).1 := by
  unfold Dirs.get
  cases hd : r.doNotCache with
  | true =>
    simp only [request, hd, if_true]
    by_cases hn : Nat.repr (s.next + 1) ∈ s.names
    · rw [if_pos hn]
      exact ⟨fun x hx h => by
        obtain ⟨k, a, b, c⟩ := inv.counter x hx h
        exact ⟨k, a, Nat.le_succ_of_le b, c⟩, inv.digest, inv.nodup⟩
    · rw [if_neg hn]
      refine ⟨?_, ?_, ?_⟩
      · intro x hx h
        rcases List.mem_cons.1 hx with rfl | hx
        · exact ⟨s.next + 1, by omega, Nat.le_refl _, rfl⟩
        · obtain ⟨k, a, b, c⟩ := inv.counter x hx h
          exact ⟨k, a, Nat.le_succ_of_le b, c⟩
      · intro x hx h
        rcases List.mem_cons.1 hx with rfl | hx
        · rw [hd] at h; cases h
        · exact inv.digest x hx h
      · exact List.nodup_cons.2 ⟨hn, inv.nodup⟩
  | false =>
    simp only [request, hd]
    by_cases hn : r.digestName ∈ s.names
    · simp only [Bool.false_eq_true, if_false, hn, if_true]
      exact inv
    · simp only [Bool.false_eq_true, if_false, hn]
      refine ⟨?_, ?_, ?_⟩
      · intro x hx h
        rcases List.mem_cons.1 hx with rfl | hx
        · rw [hd] at h; cases h
        · exact inv.counter x hx h
      · intro x hx h
        rcases List.mem_cons.1 hx with rfl | hx
        · exact ⟨rfl, hl⟩
        · exact inv.digest x hx h
      · exact List.nodup_cons.2 ⟨hn, inv.nodup⟩

theorem dinv_finish {s : Dirs} (inv : DInv s) (n : String) : DInv (s.finish n) := by
  refine ⟨?_, ?_, ?_⟩
  · intro x hx h
    exact inv.counter x (List.mem_filter.1 hx).1 h
  · intro x hx h
    exact inv.digest x (List.mem_filter.1 hx).1 h
  · have : (s.finish n).names = s.names.filter (fun m => m ≠ n) := by
      simp only [Dirs.names, Dirs.finish, List.filter_map]
      rfl
    rw [this]
    exact inv.nodup.filter _

theorem dinv_reachable {s : Dirs} (h : Reachable s) : DInv s := by
  induction h with
  | init => exact dinv_init
  | exec r _ hl _ ih => exact dinv_get ih r hl
  | finish n _ ih => exact dinv_finish ih n

end BbRe.Lemmas.ExecFlow
