import BbRe.Lemmas.SchedLiveWaiters2
/-!
The stream / waiter invariant holds in every reachable state.
-/
namespace BbRe.Lemmas.SchedLive
open BbRe.Sched

/-- streams parked on `o` by clients other than `c` -/
def cntWo (s : State) (c o : Nat) : Nat :=
  ((s.streams.filter (fun x => x.client ≠ c)).filter (fun st => st.op = o)).length

theorem filter_len_le {α} (p q : α → Bool) (h : ∀ x, p x = true → q x = true) (l : List α) :
    (l.filter p).length ≤ (l.filter q).length := by
  induction l with
  | nil => simp
  | cons a r ih =>
    cases hp : p a with
    | true => have := h a hp; simp only [List.filter_cons, hp, this, if_true, List.length_cons]; omega
    | false =>
      cases hq : q a with
      | true => simp only [List.filter_cons, hp, hq, if_true, List.length_cons, Bool.false_eq_true, if_false]; omega
      | false => simp only [List.filter_cons, hp, hq, Bool.false_eq_true, if_false]; exact ih

theorem filter_len_lt {α} (p q : α → Bool) (h : ∀ x, p x = true → q x = true) {l : List α} {x : α} (hx : x ∈ l)
    (hqx : q x = true) (hpx : p x = false) : (l.filter p).length + 1 ≤ (l.filter q).length := by
  induction l with
  | nil => cases hx
  | cons a r ih =>
    rcases List.mem_cons.1 hx with rfl | hx
    · have := filter_len_le p q h r
      simp only [List.filter_cons, hpx, hqx, if_true, List.length_cons, Bool.false_eq_true, if_false]; omega
    · have := ih hx
      cases hp : p a with
      | true => have := h a hp; simp only [List.filter_cons, hp, this, if_true, List.length_cons]; omega
      | false =>
        cases hq : q a with
        | true => simp only [List.filter_cons, hp, hq, if_true, List.length_cons, Bool.false_eq_true, if_false]; omega
        | false => simp only [List.filter_cons, hp, hq, Bool.false_eq_true, if_false]; exact this

theorem cntWo_le (s : State) (c o : Nat) : cntWo s c o ≤ cnt s o := by
  unfold cntWo cnt
  rw [List.filter_filter]
  exact filter_len_le _ _ (by intro a h; simp only [Bool.and_eq_true] at h; exact h.1) _

theorem cntWo_lt {s : State} {c o : Nat} {st : Stream} (hm : st ∈ s.streams) (hc : st.client = c) (ho : st.op = o) :
    cntWo s c o + 1 ≤ cnt s o := by
  unfold cntWo cnt
  rw [List.filter_filter]
  exact filter_len_lt _ _ (by intro a h; simp only [Bool.and_eq_true] at h; exact h.1) hm (by simp [ho]) (by simp [hc])

theorem streamSend_sinv {s s' : State} {c o : Nat} (hk : KeysOK s) (hoth : ∀ o', o' ≠ o → cnt s o' ≤ wts s o')
    (hpre : cntWo s c o + 1 ≤ wts s o) (hh : streamSend s c o = .ok s') : SInv s' := by
  obtain ⟨op, t, hop, _, ⟨r, _, hw, rfl⟩ | ⟨_, rfl⟩⟩ := streamSend_ok hh
  · have hname := (hk.oname o op hop).1
    intro k
    have hc : cnt (sendDone s c o op t r) k = cntWo s c k := by unfold cnt cntWo; simp
    have hop' : (sendDone s c o op t r).op? k = if o = k then some { op with waiters := op.waiters - 1 } else s.op? k := by
      simp [sendDone, State.op?, alookup_aset, hname]
    rw [hc]
    unfold wts; rw [hop']
    by_cases hko : o = k
    · subst hko
      simp only [if_true]
      unfold wts at hpre; rw [hop] at hpre; simp only at hpre; omega
    · simp only [hko, if_false]
      have := hoth k (fun e => hko e.symm)
      have := cntWo_le s c k
      unfold wts at *; omega
  · intro k
    have hop' : (sendPark s c o t).op? k = s.op? k := by simp [State.op?]
    unfold wts; rw [hop']
    by_cases hko : o = k
    · subst hko
      have hc : cnt (sendPark s c o t) o = cntWo s c o + 1 := by unfold cnt cntWo; simp
      rw [hc]; exact hpre
    · have hc : cnt (sendPark s c o t) k = cntWo s c k := by
        unfold cnt cntWo; simp [hko]
      rw [hc]
      have := hoth k (fun e => hko e.symm)
      have := cntWo_le s c k
      unfold wts at *; omega

theorem streamAttach_sinv {s s' : State} {c o : Nat} (hk : KeysOK s) (hs : SInv s) (hh : streamAttach s c o = .ok s') :
    SInv s' := by
  obtain ⟨op, hop, h1⟩ := streamAttach_ok hh
  have hname := (hk.oname o op hop).1
  have hkA : KeysOK (attachS s o op) :=
    (TStep.of_op (allow := True) (s := s) (s' := attachS s o op) (o2 := { op with waiters := op.waiters + 1 }) hop rfl rfl id rfl
      (by simp [attachS, hname]) rfl rfl hk).1
  have hopA : ∀ k, (attachS s o op).op? k = if o = k then some { op with waiters := op.waiters + 1 } else s.op? k := by
    intro k; simp [attachS, State.op?, alookup_aset, hname]
  refine streamSend_sinv hkA ?_ ?_ h1
  · intro o' hne
    have : cnt (attachS s o op) o' = cnt s o' := rfl
    rw [this]; unfold wts; rw [hopA]; simp only [Ne.symm hne, if_false]; exact hs o'
  · have h1' := cntWo_le s c o
    have h2 := hs o
    have : cntWo (attachS s o op) c o = cntWo s c o := rfl
    rw [this]; unfold wts at h2 ⊢; rw [hopA]; rw [hop] at h2; simp only [if_true] at h2 ⊢; omega

theorem streamLeave_sinv {s s' : State} {c code : Nat} (hk : KeysOK s) (hs : SInv s)
    (hh : streamLeave s c code = .ok s') : SInv s' := by
  obtain ⟨st, op, hst, hop, hw, rfl⟩ := streamLeave_ok hh
  have hname := (hk.oname st.op op hop).1
  have hm := List.mem_of_find?_eq_some hst
  have hcl : st.client = c := by simpa using List.find?_some hst
  intro k
  have hc : cnt (leaveS s c st op code) k = cntWo s c k := by unfold cnt cntWo; simp
  have hop' : (leaveS s c st op code).op? k = if st.op = k then some { op with waiters := op.waiters - 1 } else s.op? k := by
    simp [leaveS, State.op?, alookup_aset, hname]
  rw [hc]; unfold wts; rw [hop']
  by_cases hko : st.op = k
  · subst hko
    simp only [if_true]
    have h1 := cntWo_lt hm hcl rfl
    have h2 := hs st.op
    unfold wts at h2; rw [hop] at h2; simp only at h2; omega
  · simp only [hko, if_false]
    have := hs k; have := cntWo_le s c k
    unfold wts at *; omega

/-- a fresh operation (nobody can be parked on it) leaves the invariant intact -/
theorem sinv_fresh_op {s s' : State} (hw : WakeInv s) (hs : SInv s) (hst : s'.streams = s.streams)
    (hop : ∀ k, k ≠ s.nextOp → s'.op? k = s.op? k) : SInv s' := by
  intro k
  have hc : cnt s' k = cnt s k := by unfold cnt; rw [hst]
  rw [hc]
  by_cases hk : k = s.nextOp
  · subst hk
    have : cnt s s.nextOp = 0 := by
      unfold cnt
      rw [List.length_eq_zero_iff, List.filter_eq_nil_iff]
      intro st hm; have := (hw st hm).1; simp only [decide_eq_true_eq]; omega
    omega
  · unfold wts; rw [hop k hk]; exact hs k

theorem sinv_step {s s' : State} {g : Seg} (hi : KWC noEx s) (hw : WakeInv s) (hs : SInv s)
    (hstep : step s g = .ok s') : SInv s' := by
  have hk := hi.1.1
  -- segments that leave the parked streams alone
  have viaO : s'.streams = s.streams → OStep s s' → SInv s' := fun e o => sinv_of_ostep hk hw hs e o
  -- state after `enter`
  have afterEnter : ∀ {h : Hints} {now : Nat} {s1 : State}, enter h s now = .ok s1 →
      KWC noEx s1 ∧ WakeInv s1 ∧ SInv s1 := by
    intro h now s1 h1
    have hi1 := enter_kwc hi h1
    have hst := (enter_frame h1).streams
    refine ⟨hi1, ?_, sinv_of_ostep hk hw hs hst (enter_ostep hi h1)⟩
    -- `WakeInv` through `enter`: streams unchanged, generations monotone
    obtain ⟨_, rel⟩ := enter_tstep (allow := True) h1 hk
    intro st hm
    rw [hst] at hm
    obtain ⟨hlt, hinv⟩ := hw st hm
    refine ⟨Nat.lt_of_lt_of_le hlt rel.no, ?_⟩
    intro op' t' e1 e2
    obtain ⟨op, e3, e4⟩ := rel.ops _ _ hlt e1
    have hlt2 := (hk.oname _ _ e3).2.2
    rw [e4] at e2
    obtain ⟨t, e5, le⟩ := rel.tasks _ _ hlt2 e2
    obtain ⟨i1, i2⟩ := hinv op t e3 e5
    have := le.gen
    refine ⟨by omega, ?_⟩
    intro hsome
    cases hrt : t.response with
    | some r => have := i2 (by simp [hrt]); omega
    | none =>
      have := le.bump (.inr (by rw [hrt]; intro e; rw [e] at hsome; cases hsome))
      omega
  cases g with
  | register id comps pf sizes bm bp =>
    simp only [step, pure_ok] at hstep; subst hstep
    exact viaO rfl (OStep.of_same rfl rfl rfl rfl)
  | exec h now c0 d dk dnc comps pf inv prio =>
    obtain ⟨s1, h1, h2 | h2 | h2⟩ := execArrive_ok hstep
    all_goals obtain ⟨hi1, hw1, hs1⟩ := afterEnter h1
    · obtain ⟨tid, t, _, h0, ⟨o, _, h3⟩ | ⟨_, h3⟩⟩ := h2
      · exact streamAttach_sinv (s := emit s1 .selAbandoned)
          (TStep.of_same (allow := True) (s := s1) (s' := emit s1 .selAbandoned) rfl rfl rfl rfl hi1.1.1).1 hs1 h3
      · have hkE : KeysOK (emit s1 .selAbandoned) :=
          (TStep.of_same (allow := True) (s := s1) (s' := emit s1 .selAbandoned) rfl rfl rfl rfl hi1.1.1).1
        have hkA := (addOpS_tstep True inv prio (s := emit s1 .selAbandoned) h0 hkE).1
        refine streamAttach_sinv hkA ?_ h3
        refine sinv_fresh_op (s := s1) hw1 hs1 rfl ?_
        intro k hk'; simp [State.op?, alookup_aset, Ne.symm hk']
    · obtain ⟨_, _, rfl⟩ := h2; exact hs1
    · obtain ⟨_, pq, sc, s3, _, _, h3, h4⟩ := h2
      have hk3 : KeysOK s3 := ((tstep_new_then_schedule (allow := True) (s := s1) (tn := newTask s1 d dk dnc ⟨pq.id, sc⟩)
        (on := newOp s1 inv prio) rfl rfl rfl (by simp) (by simp) (by simp) (by simp) h3) hi1.1.1).1
      refine streamAttach_sinv hk3 ?_ h4
      obtain ⟨_, _, _, _, _, e2, _, _⟩ := schedule_shape h3
      refine sinv_fresh_op (s := s1) hw1 hs1 ?_ ?_
      · rw [(schedule_frame h3).streams]; simp
      · intro k hk'; simp [State.op?, e2, alookup_aset, Ne.symm hk']
  | wait h now c0 name =>
    obtain ⟨s1, h1, ⟨_, rfl⟩ | ⟨op, _, h2⟩⟩ := waitArrive_ok hstep
    all_goals obtain ⟨hi1, hw1, hs1⟩ := afterEnter h1
    · exact hs1
    · exact streamAttach_sinv hi1.1.1 hs1 h2
  | streamWake h now c0 reason =>
    obtain ⟨s1, st, h1, hst, ⟨_, h3⟩ | ⟨_, _, h3⟩⟩ := streamWake_ok hstep
    all_goals obtain ⟨hi1, hw1, hs1⟩ := afterEnter h1
    · exact streamLeave_sinv hi1.1.1 hs1 h3
    · refine streamSend_sinv hi1.1.1 (fun o' _ => hs1 o') ?_ h3
      have hm := List.mem_of_find?_eq_some hst
      have hcl : st.client = c0 := by simpa using List.find?_some hst
      have := cntWo_lt hm hcl rfl
      have := hs1 st.op
      omega
  | sync h now q comps pf w rep pi => exact viaO (syncArrive_frame hstep).streams (syncArrive_ostep hi hstep)
  | syncWake h now q w reason => exact viaO (syncWake_frame hstep).streams (syncWake_ostep hi hstep)
  | killOp h now name code =>
    refine viaO (killOp_frame hstep).streams ?_
    obtain ⟨s1, h1, ⟨_, rfl⟩ | ⟨op, s2, _, h2, rfl⟩⟩ := killOp_ok hstep
    · exact (enter_ostep hi h1).trans (OStep.of_same rfl rfl rfl rfl)
    · exact ((enter_ostep hi h1).trans (complete_ostep h2)).trans (OStep.of_same rfl rfl rfl rfl)
  | killQueue h now q code =>
    refine viaO (killQueue_frame hstep).streams ?_
    obtain ⟨s1, h1, ⟨ev, _, rfl⟩ | ⟨s2, h2, rfl⟩⟩ := killQueue_ok hstep
    · exact (enter_ostep hi h1).trans (OStep.of_same rfl rfl rfl rfl)
    · exact ((enter_ostep hi h1).trans (cancelAllQueued_ostep h2)).trans (OStep.of_same rfl rfl rfl rfl)
  | addDrain h now q p =>
    refine viaO (addDrain_frame hstep).streams ?_
    obtain ⟨s1, h1, ⟨_, rfl⟩ | ⟨sq, _, rfl⟩⟩ := addDrain_ok hstep
    · exact (enter_ostep hi h1).trans (OStep.of_same rfl rfl rfl rfl)
    · obtain ⟨a1, a2, a3, a4, _⟩ := foldl_fields (drainWake q p)
        (by intro a b; unfold drainWake; split <;> exact ⟨rfl, rfl, rfl, rfl, rfl⟩) s1.workers
        (s1.setScq { sq with drains := if sq.drains.contains p then sq.drains else sq.drains ++ [p] })
      exact (enter_ostep hi h1).trans (OStep.of_same a1 a2 a3 a4)
  | removeDrain h now q p =>
    refine viaO (removeDrain_frame hstep).streams ?_
    obtain ⟨s1, h1, ⟨_, rfl⟩ | ⟨sq, _, rfl⟩⟩ := removeDrain_ok hstep
    · exact (enter_ostep hi h1).trans (OStep.of_same rfl rfl rfl rfl)
    · exact (enter_ostep hi h1).trans (OStep.of_same rfl rfl rfl rfl)
  | terminate h now id p =>
    refine viaO (terminate_sframe hstep).streams ?_
    obtain ⟨s1, h1, h2⟩ := terminate_ok hstep
    simp only at h2
    obtain ⟨a1, a2, a3, a4, _⟩ := foldl_fields termMark
      (by intro a b; unfold termMark; (repeat' split) <;> exact ⟨rfl, rfl, rfl, rfl, rfl⟩)
      (s1.workers.filter (fun w => p.matches w.id)) s1
    rcases h2 with ⟨_, rfl⟩ | ⟨_, rfl⟩ <;> exact (enter_ostep hi h1).trans (OStep.of_same a1 a2 a3 a4)
  | termWake id reason =>
    refine viaO (termWake_sframe hstep).streams ?_
    obtain ⟨tc, _, ⟨_, rfl⟩ | ⟨_, _, rfl⟩⟩ := termWake_ok hstep <;> exact OStep.of_same rfl rfl rfl rfl
  | touch h now => exact viaO (enter_frame hstep).streams (enter_ostep hi hstep)

theorem sinv_reachable {s : State} (hs : Reachable s) : SInv s := by
  induction hs with
  | init cfg => intro o; simp [cnt, wts, State.init, State.op?, alookup]
  | step g hr hstep ih => exact sinv_step (kwc_reachable hr) (wakeInv_reachable hr) ih hstep

/-- **Every parked stream's operation and task exist, and the operation has a waiter.** -/
theorem stream_op_exists {s : State} (hs : Reachable s) {st : Stream} (hm : st ∈ s.streams) :
    ∃ op t, s.op? st.op = some op ∧ 0 < op.waiters ∧ s.task? op.task = some t := by
  have h1 := sinv_reachable hs st.op
  have hpos : 0 < cnt s st.op := by
    unfold cnt
    exact List.length_pos_of_mem (List.mem_filter.2 ⟨hm, by simp⟩)
  unfold wts at h1
  cases hop : s.op? st.op with
  | none => rw [hop] at h1; simp only at h1; omega
  | some op =>
    rw [hop] at h1; simp only at h1
    obtain ⟨t, ht, _⟩ := (cinv_reachable hs).opT st.op op hop
    exact ⟨op, t, rfl, by omega, ht⟩

end BbRe.Lemmas.SchedLive
