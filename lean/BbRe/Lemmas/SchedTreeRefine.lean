import BbRe.Model.SchedTree
import BbRe.Lemmas.SchedLiveDefs
/-!
Refinement of `Model/Sched.lean` by the tree layer `Model/SchedTree.lean`: every `t…` function, when it
succeeds, returns a state whose `Sched` projection is the result of the corresponding `Sched` function on
the projection of the input (with the same hints).  The tree layer only *adds* reasons to reject a segment
(a hand-out decision outside the admissible set computed from the tree; a contradiction between the tree and
the task/worker tables), it never changes what `Sched` does.
-/
namespace BbRe.Lemmas.SchedTree
open BbRe.Sched BbRe.SchedTree

/-- the tree-layer computation `x` refines the `Sched` computation `y` -/
def R (x : M TState) (y : M State) : Prop := ∀ ts', x = .ok ts' → y = .ok ts'.s

theorem pure_ok {α} (a : α) : (pure a : M α) = Except.ok a := rfl

/-- explore every path of a monadic definition unfolded in hypothesis `h`, dropping failing paths -/
macro "tpaths" h:ident : tactic => `(tactic| (
  simp only [bind, Except.bind, pure, Except.pure] at $h:ident
  repeat' split at $h:ident
  all_goals first
    | (simp at $h:ident; done)
    | (exfalso; exact ‹∀ _, some _ = some _ → False› _ rfl)
    | (exfalso; exact absurd ‹throw _ = Except.ok _› (by simp))
    | skip ))

/-! ### the tree-only updates leave the `Sched` component alone -/

@[simp] theorem setS_s (ts : TState) (s : State) : (ts.setS s).s = s := rfl
@[simp] theorem unparkTree_s (ts : TState) (q w) : (ts.unparkTree q w).s = ts.s := rfl
@[simp] theorem parkTree_s (ts : TState) (q w) : (ts.parkTree q w).s = ts.s := rfl
@[simp] theorem incOps_s (ts : TState) (t k) : (ts.incOps t k).s = ts.s := rfl
@[simp] theorem decOps_s (ts : TState) (t k) : (ts.decOps t k).s = ts.s := rfl
@[simp] theorem enqOps_s (ts : TState) (t) : (ts.enqOps t).s = ts.s := rfl
@[simp] theorem deqOps_s (ts : TState) (t) : (ts.deqOps t).s = ts.s := rfl
@[simp] theorem clearLast_s (ts : TState) (q w) : (ts.clearLast q w).s = ts.s := rfl
@[simp] theorem setLast_s (ts : TState) (tq q w p) : (ts.setLast tq q w p).s = ts.s := rfl
@[simp] theorem setSticks_s (ts : TState) (q w r) : (ts.setSticks q w r).s = ts.s := rfl
@[simp] theorem createOps_s (ts : TState) (t) : (ts.createOps t).s = ts.s := rfl
@[simp] theorem create_s (ts : TState) (q p) : (ts.create q p).s = ts.s := rfl
@[simp] theorem setOX_s (ts : TState) (o y) : (ts.setOX o y).s = ts.s := rfl
@[simp] theorem dropOX_s (ts : TState) (o) : (ts.dropOX o).s = ts.s := rfl
@[simp] theorem setTX_s (ts : TState) (t y) : (ts.setTX t y).s = ts.s := rfl
@[simp] theorem dropTX_s (ts : TState) (t) : (ts.dropTX t).s = ts.s := rfl
@[simp] theorem log_s (ts : TState) (d) : (ts.log d).s = ts.s := rfl
@[simp] theorem assignTree_s (ts : TState) (w t r) : (ts.assignTree w t r).s = ts.s := rfl
@[simp] theorem dropScqTree_s (ts : TState) (q) : (ts.dropScqTree q).s = ts.s := rfl
@[simp] theorem dropLimits_s (ts : TState) (q) : (ts.dropLimits q).s = ts.s := rfl
@[simp] theorem dropWorkerTree_s (ts : TState) (q w) : (ts.dropWorkerTree q w).s = ts.s := rfl
@[simp] theorem addScqTree_s (ts : TState) (q) : (ts.addScqTree q).s = ts.s := rfl
@[simp] theorem addWorkerTree_s (ts : TState) (q w) : (ts.addWorkerTree q w).s = ts.s := rfl
@[simp] theorem tWake_s (ts : TState) (w : Worker) : (tWake ts w).s = wakeWorker ts.s w := rfl

@[simp] theorem detachTree_s (ts : TState) (t : Task) (bw : Bool) : (ts.detachTree t bw).s = ts.s := by
  unfold TState.detachTree; split <;> rfl

@[simp] theorem removeOpTree_s (ts : TState) (t : Task) (o : Nat) : (ts.removeOpTree t o).s = ts.s := by
  unfold TState.removeOpTree; split <;> rfl

@[simp] theorem maybeDequeue_s (ts : TState) (wk : Worker) : (ts.maybeDequeue wk).s = ts.s := by
  unfold TState.maybeDequeue; split <;> rfl

theorem detachT_eq (t : Task) : detachT t = BbRe.Lemmas.SchedLive.detachT t := rfl
theorem detachW_eq (s : State) (t : Task) : detachW s t = BbRe.Lemmas.SchedLive.detachW s t := rfl

/-- rewrite the goal with the path's hypotheses, nothing else -/
macro "rsimp" : tactic => `(tactic| simp only [*, pure_ok, bind, Except.bind, ↓reduceIte, Bool.false_eq_true,
  Bool.true_eq_false, if_true, if_false, and_self, and_true, true_and, decide_true, decide_false, setS_s, unparkTree_s, parkTree_s, incOps_s, decOps_s, enqOps_s, deqOps_s,
  clearLast_s, setLast_s, setSticks_s, createOps_s, create_s, setOX_s, dropOX_s, setTX_s, dropTX_s, log_s,
  assignTree_s, dropScqTree_s, dropLimits_s, dropWorkerTree_s, addScqTree_s, addWorkerTree_s, tWake_s,
  detachTree_s, removeOpTree_s, maybeDequeue_s])

/-- normalise `(upd ts).s` in all hypotheses -/
macro "hnorm" : tactic => `(tactic| try simp only [setS_s, unparkTree_s, parkTree_s, incOps_s, decOps_s, enqOps_s, deqOps_s,
  clearLast_s, setLast_s, setSticks_s, createOps_s, create_s, setOX_s, dropOX_s, setTX_s, dropTX_s, log_s,
  assignTree_s, dropScqTree_s, dropLimits_s, dropWorkerTree_s, addScqTree_s, addWorkerTree_s, tWake_s,
  detachTree_s, removeOpTree_s, maybeDequeue_s] at *)

/-! ### `assignUnqueuedTask`, `schedule` -/

theorem tAssignTo_ref (ts : TState) (w : Worker) (t : Task) (r : Nat) : R (tAssignTo ts w t r) (assignTo ts.s w t) := by
  intro ts' hh
  unfold tAssignTo at hh
  tpaths hh
  cases hh
  assumption

theorem tSchedule_ref (h : Hints) (ts : TState) (tid : Nat) : R (tSchedule h ts tid) (schedule h ts.s tid) := by
  intro ts' hh
  unfold tSchedule at hh
  tpaths hh
  · have h2 := tAssignTo_ref _ _ _ _ _ hh
    simp_all [schedule]
  · cases hh
    simp_all [schedule, pure_ok]

/-! ### `complete` -/

open BbRe.Lemmas.SchedLive in
theorem tCompleteSucc_ref (h : Hints) (x : Extras) (ts : TState) (t : Task) (l : Nat) (r : Resp) :
    R (tCompleteSucc h x ts t l r) (completeSucc h ts.s t l r) := by
  intro ts' hh
  unfold tCompleteSucc at hh
  tpaths hh
  all_goals simp only [finalize_eq, Except.ok.injEq] at *
  · subst hh; simp_all [completeSucc, pure_ok]
  · subst hh; simp_all [completeSucc, pure_ok]
  · subst hh; simp_all [completeSucc, pure_ok]
  · have h2 := tSchedule_ref _ _ _ _ hh
    simp_all [completeSucc, pure_ok, bgState, bgTask, bgOp]
    intro hc; omega

open BbRe.Lemmas.SchedLive in
theorem tCompleteRetry_ref (h : Hints) (x : Extras) (ts : TState) (t : Task) (l : Nat) (r : Resp) :
    R (tCompleteRetry h x ts t l r) (completeRetry h ts.s t l r) := by
  intro ts' hh
  unfold tCompleteRetry at hh
  tpaths hh
  rename_i ts1 hs _ t1 ht1
  have h2 := tSchedule_ref _ _ _ _ hs
  cases hh
  simp_all [completeRetry, pure_ok, bind, Except.bind]

open BbRe.Lemmas.SchedLive in
theorem tComplete_ref (h : Hints) (x : Extras) (ts : TState) (tid : Nat) (r : Resp) (bw : Bool) :
    R (tComplete h x ts tid r bw) (complete h ts.s tid r bw) := by
  intro ts' hh
  unfold tComplete at hh
  rw [complete_eq]
  tpaths hh
  · cases hh; simp_all [pure_ok]
  · have h2 := tCompleteSucc_ref _ _ _ _ _ _ _ hh
    simp_all [detachT_eq, detachW_eq]
  · have h2 := tCompleteRetry_ref _ _ _ _ _ _ _ hh
    simp_all [detachT_eq, detachW_eq]
  · simp only [finalize_eq, Except.ok.injEq] at *
    cases hh; simp_all [pure_ok, detachT_eq, detachW_eq]
  · simp only [finalize_eq, Except.ok.injEq] at *
    cases hh; simp_all [pure_ok, detachT_eq, detachW_eq]

/-! ### cleanup callbacks -/

theorem tRemoveOp_ref (h : Hints) (x : Extras) (ts : TState) (o : Nat) : R (tRemoveOp h x ts o) (removeOp h ts.s o) := by
  intro ts' hh
  unfold tRemoveOp at hh
  tpaths hh
  · have h2 := tComplete_ref _ _ _ _ _ _ _ (by assumption)
    cases hh; simp only [setS_s] at *
    unfold removeOp; rsimp
  · have h2 := tComplete_ref _ _ _ _ _ _ _ (by assumption)
    cases hh; simp only [setS_s] at *
    unfold removeOp; rsimp
  · cases hh; simp only [setS_s, removeOpTree_s] at *
    rename_i t1 h1 _ _ t2 _ h2
    cases h1.symm.trans h2
    unfold removeOp; rsimp
  · cases hh; simp only [setS_s, removeOpTree_s] at *
    rename_i t1 h1 _ _ t2 _ h2
    cases h1.symm.trans h2
    unfold removeOp; rsimp
  · cases hh
    have : ts.s.op? o = none := by
      cases h0 : ts.s.op? o with
      | none => rfl
      | some op => exact absurd h0 (by rename_i hx; exact fun h => hx op h)
    simp [removeOp, pure_ok, this]

theorem none_of_forall {α} {o : Option α} (h : ∀ a, o = some a → False) : o = none := by
  cases o with
  | none => rfl
  | some a => exact absurd rfl (h a)

theorem foldlM_ref {β} (l : List β) (f : TState → β → M TState) (g : State → β → M State)
    (hfg : ∀ ts a, R (f ts a) (g ts.s a)) : ∀ ts, R (l.foldlM f ts) (l.foldlM g ts.s) := by
  induction l with
  | nil => intro ts ts' hh; cases hh; rfl
  | cons a l ih =>
    intro ts ts' hh
    simp only [List.foldlM_cons, bind, Except.bind] at hh ⊢
    split at hh
    · cases hh
    · rename_i ts1 h1
      rw [hfg ts a ts1 h1]
      exact ih ts1 ts' hh

theorem tCancelAllQueued_ref (h : Hints) (x : Extras) (ts : TState) (q : ScqId) (r : Resp) :
    R (tCancelAllQueued h x ts q r) (cancelAllQueued h ts.s q r) := by
  unfold tCancelAllQueued cancelAllQueued
  exact foldlM_ref _ _ _ (fun ts a => tComplete_ref h x ts a r false) ts

theorem tRemoveScq_ref (h : Hints) (x : Extras) (ts : TState) (q : ScqId) : R (tRemoveScq h x ts q) (removeScq h ts.s q) := by
  intro ts' hh
  unfold tRemoveScq at hh
  tpaths hh
  all_goals (
    have h2 := tCancelAllQueued_ref _ _ _ _ _ _ (by assumption)
    cases hh
    unfold removeScq; rsimp)

theorem tRemoveStaleWorker_ref (h : Hints) (x : Extras) (ts : TState) (q : ScqId) (w : WId) (rt : Nat) :
    R (tRemoveStaleWorker h x ts q w rt) (removeStaleWorker h ts.s q w rt) := by
  intro ts' hh
  unfold tRemoveStaleWorker at hh
  tpaths hh
  all_goals first
    | (have h2 := tComplete_ref _ _ _ _ _ _ _ (by assumption); cases hh; hnorm; unfold removeStaleWorker; rsimp; done)
    | (cases hh; hnorm; unfold removeStaleWorker; rsimp; done)
    | (have h0 := none_of_forall (by assumption); cases hh; hnorm; unfold removeStaleWorker; rsimp; done)

theorem tRunCleanup_ref (h : Hints) (x : Extras) : ∀ (fuel : Nat) (ts : TState),
    R (tRunCleanup h x fuel ts) (runCleanup h fuel ts.s) := by
  intro fuel
  induction fuel with
  | zero => intro ts ts' hh; cases hh; rfl
  | succ n ih =>
    intro ts ts' hh
    unfold tRunCleanup at hh
    unfold runCleanup
    tpaths hh
    · cases hh; rsimp
    · have h2 := tRemoveStaleWorker_ref _ _ _ _ _ _ _ (by assumption)
      have h3 := ih _ _ hh
      hnorm; rsimp
    · have h2 := tRemoveOp_ref _ _ _ _ _ (by assumption)
      have h3 := ih _ _ hh
      hnorm; rsimp
    · have h2 := tRemoveScq_ref _ _ _ _ _ (by assumption)
      have h3 := ih _ _ hh
      hnorm; rsimp

theorem tEnter_ref (h : Hints) (x : Extras) (ts : TState) (t : Nat) : R (tEnter h x ts t) (enter h ts.s t) := by
  intro ts' hh
  unfold tEnter at hh
  unfold enter
  split at hh
  · have h2 := tRunCleanup_ref _ _ _ _ _ hh
    hnorm; rsimp
  · cases hh; rsimp

/-! ### RPC segments -/

theorem tExecArrive_ref (h : Hints) (x : Extras) (ts : TState) (now c digest dkey : Nat) (dnc : Bool) (comps : List Nat)
    (platform : Nat) (inv : List Nat) (prio : Int) :
    R (tExecArrive h x ts now c digest dkey dnc comps platform inv prio)
      (execArrive h ts.s now c digest dkey dnc comps platform inv prio) := by
  intro ts' hh
  unfold tExecArrive at hh
  unfold tExecDedup at hh
  tpaths hh
  all_goals have h1 := tEnter_ref _ _ _ _ _ (by assumption)
  · cases hh; hnorm; unfold execArrive; rsimp
    rename_i hf _ _ hs
    split
    · rename_i o ho
      cases (hf.symm.trans ho : some _ = some o)
      exact hs
    · rename_i ho
      cases (hf.symm.trans ho : some _ = none)
  · cases hh; hnorm; unfold execArrive; rsimp
    rename_i hf _ _ _ hs _ _ _ hw
    split
    · rename_i o ho
      cases (hf.symm.trans ho : none = some o)
    · rw [hw] at hs; exact hs
  · cases hh; hnorm; unfold execArrive; rsimp
    rename_i hf _ _ _ hs _ hw
    split
    · rename_i o ho
      cases (hf.symm.trans ho : none = some o)
    · rw [hw] at hs; exact hs
  all_goals first
    | (cases hh; hnorm; unfold execArrive; rsimp; done)
    | (have h2 := tSchedule_ref _ _ _ _ (by assumption); cases hh; hnorm; unfold execArrive; rsimp; done)

theorem tWaitArrive_ref (h : Hints) (x : Extras) (ts : TState) (now c name : Nat) :
    R (tWaitArrive h x ts now c name) (waitArrive h ts.s now c name) := by
  intro ts' hh
  unfold tWaitArrive at hh
  tpaths hh
  all_goals have h1 := tEnter_ref _ _ _ _ _ (by assumption)
  all_goals (cases hh; hnorm; unfold waitArrive; rsimp)

theorem tStreamWake_ref (h : Hints) (x : Extras) (ts : TState) (now c reason : Nat) :
    R (tStreamWake h x ts now c reason) (streamWake h ts.s now c reason) := by
  intro ts' hh
  unfold tStreamWake at hh
  tpaths hh
  all_goals have h1 := tEnter_ref _ _ _ _ _ (by assumption)
  all_goals (cases hh; hnorm; unfold streamWake; rsimp; try simp)

/-- refinement for computations that also return a flag -/
def R2 (x : M (TState × Bool)) (y : M (State × Bool)) : Prop := ∀ ts' b, x = .ok (ts', b) → y = .ok (ts'.s, b)

theorem tAssignNext_ref (h : Hints) (x : Extras) (ts : TState) (w : Worker) :
    R2 (tAssignNext h x ts w) (assignNext h ts.s w) := by
  intro ts' b hh
  unfold tAssignNext at hh
  tpaths hh
  · have h2 := tAssignTo_ref _ _ _ _ _ (by assumption)
    cases hh; hnorm; unfold assignNext; rsimp
  · cases hh; hnorm; unfold assignNext; rsimp

theorem tGetNextTask_ref (h : Hints) (x : Extras) (ts : TState) (q : ScqId) (w : WId) (pi bl : Bool) :
    R (tGetNextTask h x ts q w pi bl) (getNextTask h ts.s q w pi bl) := by
  intro ts' hh
  unfold tGetNextTask at hh
  tpaths hh
  all_goals first
    | (cases hh; hnorm; unfold getNextTask; rsimp; done)
    | (have h2 := tAssignNext_ref _ _ _ _ _ _ (by assumption); cases hh; hnorm; unfold getNextTask; rsimp; done)

theorem tGetCurrentOrNext_ref (h : Hints) (x : Extras) (ts : TState) (q : ScqId) (w : WId) (pi bl : Bool) :
    R (tGetCurrentOrNext h x ts q w pi bl) (getCurrentOrNext h ts.s q w pi bl) := by
  intro ts' hh
  unfold tGetCurrentOrNext at hh
  tpaths hh
  · cases hh; hnorm; unfold getCurrentOrNext; rsimp
  · have h2 := tComplete_ref _ _ _ _ _ _ _ (by assumption)
    have h3 := tGetNextTask_ref _ _ _ _ _ _ _ _ hh
    hnorm; unfold getCurrentOrNext; rsimp
  · have h3 := tGetNextTask_ref _ _ _ _ _ _ _ _ hh
    hnorm; unfold getCurrentOrNext; rsimp

def sproj : TState ⊕ TState → State ⊕ State
  | .inl ts => .inl ts.s
  | .inr ts => .inr ts.s

theorem tSyncQueue_ref (ts : TState) (q : ScqId) (comps : List Nat) (platform : Nat) (w : WId) (r : TState ⊕ TState)
    (hh : tSyncQueue ts q comps platform w = .ok r) : syncQueue ts.s q comps platform w = .ok (sproj r) := by
  unfold tSyncQueue at hh
  tpaths hh
  all_goals (cases hh; simp only [sproj, setS_s]; assumption)

theorem tSyncWorker_ref (ts : TState) (q : ScqId) (w : WId) : syncWorker ts.s q w = sproj (tSyncWorker ts q w) := by
  unfold tSyncWorker
  split
  · rename_i h; rw [h]; rfl
  · rename_i h; rw [h]; split <;> rfl

theorem tSyncArrive_ref (h : Hints) (x : Extras) (ts : TState) (now : Nat) (q : ScqId) (comps : List Nat) (platform : Nat)
    (w : WId) (rep : Report) (pi : Bool) :
    R (tSyncArrive h x ts now q comps platform w rep pi) (syncArrive h ts.s now q comps platform w rep pi) := by
  intro ts' hh
  unfold tSyncArrive at hh
  tpaths hh
  all_goals have h1 := tEnter_ref _ _ _ _ _ (by assumption)
  all_goals have h2 := tSyncQueue_ref _ _ _ _ _ _ (by assumption)
  all_goals try have h3 : syncWorker _ q w = sproj _ := (tSyncWorker_ref _ q w).trans (congrArg sproj (by assumption))
  all_goals simp only [sproj] at *
  all_goals first
    | (cases hh; hnorm; unfold syncArrive; rsimp; done)
    | (have h4 := tGetCurrentOrNext_ref _ _ _ _ _ _ _ _ hh; hnorm; unfold syncArrive; rsimp; done)
    | (have h4 := tComplete_ref _ _ _ _ _ _ _ (by assumption); have h5 := tGetNextTask_ref _ _ _ _ _ _ _ _ hh
       hnorm; unfold syncArrive; rsimp; done)

theorem tSyncWake_ref (h : Hints) (x : Extras) (ts : TState) (now : Nat) (q : ScqId) (w : WId) (reason : Nat) :
    R (tSyncWake h x ts now q w reason) (syncWake h ts.s now q w reason) := by
  intro ts' hh
  unfold tSyncWake at hh
  tpaths hh
  all_goals have h1 := tEnter_ref _ _ _ _ _ (by assumption)
  all_goals first
    | (cases hh; hnorm; unfold syncWake; rsimp; done)
    | (have h4 := tGetNextTask_ref _ _ _ _ _ _ _ _ hh; hnorm; unfold syncWake; rsimp; done)

theorem tKillOp_ref (h : Hints) (x : Extras) (ts : TState) (now name code : Nat) :
    R (tKillOp h x ts now name code) (killOp h ts.s now name code) := by
  intro ts' hh
  unfold tKillOp at hh
  tpaths hh
  all_goals have h1 := tEnter_ref _ _ _ _ _ (by assumption)
  all_goals first
    | (cases hh; hnorm; unfold killOp; rsimp; done)
    | (have h4 := tComplete_ref _ _ _ _ _ _ _ (by assumption); cases hh; hnorm; unfold killOp; rsimp; done)

theorem tKillQueue_ref (h : Hints) (x : Extras) (ts : TState) (now : Nat) (q : ScqId) (code : Nat) :
    R (tKillQueue h x ts now q code) (killQueue h ts.s now q code) := by
  intro ts' hh
  unfold tKillQueue at hh
  tpaths hh
  all_goals have h1 := tEnter_ref _ _ _ _ _ (by assumption)
  all_goals first
    | (cases hh; hnorm; unfold killQueue; rsimp; done)
    | (have h4 := tCancelAllQueued_ref _ _ _ _ _ _ (by assumption); cases hh; hnorm; unfold killQueue; rsimp; done)

theorem tRemoveDrain_ref (h : Hints) (x : Extras) (ts : TState) (now : Nat) (q : ScqId) (p : Pattern) :
    R (tRemoveDrain h x ts now q p) (removeDrain h ts.s now q p) := by
  intro ts' hh
  unfold tRemoveDrain at hh
  tpaths hh
  all_goals have h1 := tEnter_ref _ _ _ _ _ (by assumption)
  all_goals (cases hh; hnorm; unfold removeDrain; rsimp)

theorem tTermWake_ref (ts : TState) (id reason : Nat) : R (tTermWake ts id reason) (termWake ts.s id reason) := by
  intro ts' hh
  unfold tTermWake at hh
  tpaths hh
  cases hh; hnorm; assumption

theorem foldl_s {β} (l : List β) (f : TState → β → TState) (g : State → β → State)
    (hfg : ∀ ts b, (f ts b).s = g ts.s b) : ∀ ts, (l.foldl f ts).s = l.foldl g ts.s := by
  induction l with
  | nil => intro ts; rfl
  | cons b l ih => intro ts; simp only [List.foldl_cons]; rw [ih, hfg]

theorem tAddDrain_ref (h : Hints) (x : Extras) (ts : TState) (now : Nat) (q : ScqId) (p : Pattern) :
    R (tAddDrain h x ts now q p) (addDrain h ts.s now q p) := by
  intro ts' hh
  unfold tAddDrain at hh
  tpaths hh
  all_goals have h1 := tEnter_ref _ _ _ _ _ (by assumption)
  all_goals first
    | (cases hh; hnorm; unfold addDrain; rsimp; done)
    | (cases hh; hnorm; unfold addDrain; rsimp
       rw [foldl_s _ _ (fun s w => if w.scq = q ∧ w.parked = true ∧ p.matches w.id = true then wakeWorker s w else s)]
       · rfl
       · intro ts b; split <;> rfl)

/-- one iteration of the loop of `Sched.terminate` -/
def terminateOne (s : State) (w : Worker) : State :=
  match s.worker? w.scq w.id with
  | some w =>
    let s := s.setWorker { w with terminating := true }
    if w.task.isNone ∧ w.parked then
      match s.worker? w.scq w.id with | some w' => wakeWorker s w' | none => s
    else s
  | none => s

theorem tTerminateOne_s (ts : TState) (w : Worker) : (tTerminateOne ts w).s = terminateOne ts.s w := by
  unfold tTerminateOne terminateOne
  cases hw : ts.s.worker? w.scq w.id with
  | none => rfl
  | some wk =>
    simp only [setS_s]
    by_cases hc : wk.task.isNone = true ∧ wk.parked = true
    · simp only [hc, and_self, if_true]
      split <;> simp_all
    · simp only [hc, if_false]; rfl

theorem tTerminate_ref (h : Hints) (x : Extras) (ts : TState) (now id : Nat) (p : Pattern) :
    R (tTerminate h x ts now id p) (terminate h ts.s now id p) := by
  intro ts' hh
  unfold tTerminate at hh
  tpaths hh
  all_goals have h1 := tEnter_ref _ _ _ _ _ (by assumption)
  all_goals have h2 := fun l ts => foldl_s l tTerminateOne terminateOne tTerminateOne_s ts
  all_goals (cases hh; hnorm; unfold terminate; rsimp)
  · rename_i hc
    simp only [h2] at hc
    split
    · rfl
    · rename_i hn; exact absurd hc hn
  · rename_i hc
    simp only [h2] at hc
    split
    · rename_i hn; exact absurd hn hc
    · rfl

theorem tRegisterPQ_s (x : Extras) (ts : TState) (id : Nat) (comps : List Nat) (platform : Nat) (sizes : List Nat)
    (bgMax : Nat) (bgPrio : Int) :
    (tRegisterPQ x ts id comps platform sizes bgMax bgPrio).s = registerPQ ts.s id comps platform sizes bgMax bgPrio := rfl

/-- **Refinement.**  A step of the tree layer projects onto the step of `Model/Sched.lean` with the same
segment (same hints: the choice made). -/
theorem tstep_ref (ts ts' : TState) (g : TSeg) (hh : tstep ts g = .ok ts') : step ts.s g.seg = .ok ts'.s := by
  unfold tstep at hh
  unfold step
  split at hh
  · rename_i e; rw [e]
    split at hh
    · cases hh; rfl
    · cases hh
  · rename_i e; rw [e]; exact tExecArrive_ref _ _ _ _ _ _ _ _ _ _ _ _ _ hh
  · rename_i e; rw [e]; exact tWaitArrive_ref _ _ _ _ _ _ _ hh
  · rename_i e; rw [e]; exact tStreamWake_ref _ _ _ _ _ _ _ hh
  · rename_i e; rw [e]; exact tSyncArrive_ref _ _ _ _ _ _ _ _ _ _ _ hh
  · rename_i e; rw [e]; exact tSyncWake_ref _ _ _ _ _ _ _ _ hh
  · rename_i e; rw [e]; exact tKillOp_ref _ _ _ _ _ _ _ hh
  · rename_i e; rw [e]; exact tKillQueue_ref _ _ _ _ _ _ _ hh
  · rename_i e; rw [e]; exact tAddDrain_ref _ _ _ _ _ _ _ hh
  · rename_i e; rw [e]; exact tRemoveDrain_ref _ _ _ _ _ _ _ hh
  · rename_i e; rw [e]; exact tTerminate_ref _ _ _ _ _ _ _ hh
  · rename_i e; rw [e]; exact tTermWake_ref _ _ _ _ hh
  · rename_i e; rw [e]; exact tEnter_ref _ _ _ _ _ hh

end BbRe.Lemmas.SchedTree
