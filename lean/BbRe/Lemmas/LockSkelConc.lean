/-
Interleaving semantics of a system of threads over a global lock table (C14 part b,
the step from traces of single functions to the run-time wait-for graph).

Generic development: independent of the generated program, parameterised by
* `ok  : Nat → Nat → Prop` — the permitted (class of a held lock, class of an awaited lock)
  pairs: an irreflexive relation, e.g. membership in the extracted edge set,
* `c   : Nat → Nat`  — class of a run-time lock instance,
* `own : Nat → Bool` — the instance is an ownership token ("object created in this call",
  `isOwn`): taking it never blocks and it is not an entry of the lock table,
  and, for acyclicity, a rank `rk` strictly increasing along `ok`.

A thread executes a fixed *instance-level* trace `tr : List Ev` (`Thr.tr`; lock numbers are
run-time lock instances), `pos` events of which are completed. The global state is the
table `T : instance → Option owner`.

Event kinds (`TStep`), one rule per way the Go primitive can behave:
* `need`            — no lock operation, always enabled;
* `acq i`           — `sync.Mutex.Lock`: enabled iff `T i = none` (also blocked when the
                      thread itself holds `i`: Go mutexes are not re-entrant), then owner := t;
* `rel i`/`prel p i`— `Unlock` / `LockPile.Unlock`: never blocks; the instance is freed when
                      the thread's replayed held multiset no longer contains it (for a pile
                      this is the recursion count reaching 0; a plain mutex is never held
                      twice, see `acq_enabled_not_held`);
* `pacq p i`        — one lock of a `LockPile.Lock` call, the back-off protocol of
                      pkg/sync/lock_pile.go seen at table level:
    `pFast`  the pile already holds `i`             → recursion++, no table change;
    `pTake`  `TryLock`/`Lock` finds `i` free        → owner := t;
    `pBack`  `TryLock` fails                        → ALL pile locks the thread holds are
             released (`dropAll`), `want := i :: released`; the thread now holds nothing of
             the pile and its next operation is the blocking `Lock` of the head of `want`;
    `pWake`  head `w` of `want` is free (blocking `Lock` when nothing of the pile is held,
             `TryLock` otherwise)                   → owner := t, `w` leaves `want`; when
             `want` is empty the event is complete;
    `pFail`  `TryLock` of the head of `want` fails while some pile lock is held
                                                   → release them all again, failed lock
             stays first (`*lhFirst, *lhTry = *lhTry, *lhFirst`).
  The only *blocking* point (`waits`) of a `pacq` is the head of `want` while the thread
  holds no lock of the pile (proved for the transcription of `LockPile.Lock` in
  `pile_no_hold_and_wait`); the release of several pile locks is one atomic step here.

Static hypotheses on a thread's trace (`Good`; discharged for instantiated `Exec` traces
of the translated program in `Properties/C14Conc.lean`):
`ordered` every acquired-while-holding class pair of the trace is `ok`
(= `runs_respect_lock_order`), `noUnderflow` releases only what is held, `balanced`
the complete trace ends holding nothing (= lock balance), `pileUniform` all locks taken
through one pile have one class.

Results: `inv_reach` (per thread, in every reachable state: owned instances = locks
acquired and not released in the replayed prefix, minus the backed-off pile locks),
`blocked_pair_ok` (= premise `hsrc`), `inv_H`, `inv_no_cycle`, `inv_progress`.
Core Lean only.
-/
import BbRe.Model.LockSkel
import BbRe.Lemmas.LockSkelEdges
import BbRe.Lemmas.LockSkelPile

namespace BbRe.Lemmas.LockSkelConc
open BbRe.LockSkel BbRe.Lemmas.LockSkelEdges
open BbRe.LockPile (Table Table.set)

/-! ## Class pairs of an instance-level trace (generic in the class function) -/

def stepPairsG (c : Nat → Nat) (own : Nat → Bool) (s : RS) : Ev → List (Nat × Nat)
  | .acq l => if own l then [] else s.held.map (fun x => (c x, c l))
  | .pacq p l => (mdiff s.held (s.piles p)).map (fun x => (c x, c l))
  | _ => []

def pairsFromG (c : Nat → Nat) (own : Nat → Bool) (s : RS) : List Ev → List (Nat × Nat)
  | [] => []
  | e :: t => stepPairsG c own s e ++ pairsFromG c own (stepR s e) t

def RS.init : RS := ⟨[], fun _ => []⟩

/-- The pairs contributed by the event at position `k` are pairs of the whole trace. -/
theorem pairs_at (c : Nat → Nat) (own : Nat → Bool) :
    ∀ (tr : List Ev) (s : RS) (k : Nat) (e : Ev), tr[k]? = some e →
      ∀ q ∈ stepPairsG c own (stRun s (tr.take k)) e, q ∈ pairsFromG c own s tr
  | [], _, _, _, h => by simp at h
  | x :: t, s, 0, e, h => by
    intro q hq
    simp only [List.getElem?_cons_zero, Option.some.injEq] at h
    subst h
    simp only [List.take_zero, stRun] at hq
    exact List.mem_append_left _ hq
  | x :: t, s, k + 1, e, h => by
    intro q hq
    simp only [List.getElem?_cons_succ] at h
    simp only [List.take_succ_cons, stRun] at hq
    exact List.mem_append_right _ (pairs_at c own t (stepR s x) k e h q hq)

/-- A lock recorded in a pile after a replay was there before or was `pacq`ed. -/
theorem mem_piles_pacq {j p : Nat} : ∀ (tr : List Ev) (s : RS),
    j ∈ (stRun s tr).piles p → j ∈ s.piles p ∨ Ev.pacq p j ∈ tr
  | [], _, h => Or.inl h
  | e :: t, s, h => by
    rcases mem_piles_pacq t (stepR s e) h with h1 | h1
    · cases e with
      | acq l => exact Or.inl h1
      | rel l => exact Or.inl h1
      | need cs => exact Or.inl h1
      | pacq q l =>
        simp only [stepR, upd] at h1
        split at h1
        · rename_i hpq
          subst hpq
          rcases List.mem_cons.mp h1 with rfl | h2
          · exact Or.inr (List.mem_cons_self)
          · exact Or.inl h2
        · exact Or.inl h1
      | prel q l =>
        simp only [stepR, upd] at h1
        split at h1
        · rename_i hpq
          subst hpq
          exact Or.inl (List.mem_of_mem_erase h1)
        · exact Or.inl h1
    · exact Or.inr (List.mem_cons_of_mem _ h1)

/-! ## Threads -/

/-- Static hypotheses on the trace a thread executes. -/
structure Good (c : Nat → Nat) (own : Nat → Bool) (ok : Nat → Nat → Prop) (tr : List Ev) : Prop where
  ordered : ∀ e ∈ pairsFromG c own RS.init tr, ok e.1 e.2
  irrefl : ∀ a, ¬ ok a a
  noUnderflow : ∀ k i, (tr[k]? = some (.rel i) ∨ ∃ p, tr[k]? = some (.prel p i)) →
    i ∈ (stRun RS.init (tr.take k)).held
  balanced : ∀ j ∈ (stRun RS.init tr).held, own j = true
  pileUniform : ∀ p i j, Ev.pacq p i ∈ tr → Ev.pacq p j ∈ tr → c i = c j

/-- The empty trace (an idle thread) is good. -/
theorem good_nil {c : Nat → Nat} {own : Nat → Bool} {ok : Nat → Nat → Prop}
    (hirr : ∀ a, ¬ ok a a) : Good c own ok [] where
  ordered := fun e he => by cases he
  irrefl := hirr
  noUnderflow := fun k i hk => by simp at hk
  balanced := fun j hj => by cases hj
  pileUniform := fun p i j hi => by cases hi

/-- Thread state: the trace it runs, the number of completed events, and (only while it is
inside a `pacq` that had to back off) the pile locks it still has to (re)take, the next one
to be tried first. -/
structure Thr where
  tr : List Ev
  pos : Nat
  want : List Nat

/-- Replay of the completed prefix: held multiset and piles. -/
def Thr.st (x : Thr) : RS := stRun RS.init (x.tr.take x.pos)
def Thr.next (x : Thr) : Option Ev := x.tr[x.pos]?
def Thr.adv (x : Thr) : Thr := { x with pos := x.pos + 1, want := [] }
def Thr.done (x : Thr) : Prop := x.tr.length ≤ x.pos

instance (x : Thr) : Decidable x.done := by unfold Thr.done; infer_instance

theorem adv_st {x : Thr} {e : Ev} (h : x.next = some e) : x.adv.st = stepR x.st e := by
  unfold Thr.next at h
  simp only [Thr.st, Thr.adv, List.take_add_one, h, Option.toList, stRun_append, stRun]

/-- The pile locks in `js` currently held by `t`. -/
def heldOf (t : Nat) (T : Table) (js : List Nat) : List Nat := js.filter (fun j => T j == some t)

/-- Release every lock of `js` that `t` holds. -/
def dropAll (t : Nat) (T : Table) (js : List Nat) : Table :=
  fun j => if j ∈ js ∧ T j = some t then none else T j

/-- Table after a release event: freed when the last hold of the thread on it goes. -/
def relT (own : Nat → Bool) (st' : RS) (T : Table) (i : Nat) : Table :=
  if own i = true ∨ i ∈ st'.held then T else T.set i none

/-- One step of thread `t`. -/
inductive TStep (own : Nat → Bool) (t : Nat) : Thr → Table → Thr → Table → Prop
  | need {x T cs} : x.next = some (.need cs) → TStep own t x T x.adv T
  | acqOwn {x T i} : x.next = some (.acq i) → own i = true → TStep own t x T x.adv T
  | acq {x T i} : x.next = some (.acq i) → own i = false → T i = none →
      TStep own t x T x.adv (T.set i (some t))
  | rel {x T i} : x.next = some (.rel i) →
      TStep own t x T x.adv (relT own (stepR x.st (.rel i)) T i)
  | prel {x T p i} : x.next = some (.prel p i) →
      TStep own t x T x.adv (relT own (stepR x.st (.prel p i)) T i)
  | pOwn {x T p i} : x.next = some (.pacq p i) → own i = true → TStep own t x T x.adv T
  | pFast {x T p i} : x.next = some (.pacq p i) → own i = false → x.want = [] →
      i ∈ x.st.piles p → T i = some t → TStep own t x T x.adv T
  | pTake {x T p i} : x.next = some (.pacq p i) → own i = false → x.want = [] → T i = none →
      TStep own t x T x.adv (T.set i (some t))
  | pBack {x T p i} : x.next = some (.pacq p i) → own i = false → x.want = [] → T i ≠ none →
      ¬ (i ∈ x.st.piles p ∧ T i = some t) →
      TStep own t x T { x with want := i :: heldOf t T (x.st.piles p) } (dropAll t T (x.st.piles p))
  | pWake {x T p i w ws} : x.next = some (.pacq p i) → own i = false → x.want = w :: ws →
      T w = none →
      TStep own t x T
        (if ws.filter (fun j => j ≠ w) = [] then x.adv else { x with want := ws.filter (fun j => j ≠ w) })
        (T.set w (some t))
  | pFail {x T p i w ws} : x.next = some (.pacq p i) → own i = false → x.want = w :: ws →
      T w ≠ none → (∃ j ∈ i :: x.st.piles p, T j = some t) →
      TStep own t x T { x with want := w :: (ws ++ heldOf t T (i :: x.st.piles p)) }
        (dropAll t T (i :: x.st.piles p))

/-- The lock thread `t` is blocked on, if its next operation is a blocking acquisition:
a plain `Lock`, or the `Lock` of the first wanted pile lock while it holds none of the pile. -/
def waits (own : Nat → Bool) (t : Nat) (x : Thr) (T : Table) : Option Nat :=
  match x.next with
  | some (.acq i) => if own i then none else some i
  | some (.pacq p i) =>
    if own i then none else
    match x.want with
    | [] => none
    | w :: _ => if (i :: x.st.piles p).any (fun j => T j == some t) then none else some w
  | _ => none

/-- What the thread will hold when its current event is complete. -/
def tgt (x : Thr) : List Nat :=
  if x.want = [] then x.st.held else
  match x.next with
  | some (.pacq _ i) => i :: x.st.held
  | _ => x.st.held

theorem tgt_nil {x : Thr} (h : x.want = []) : tgt x = x.st.held := by simp [tgt, h]
theorem tgt_pacq {x : Thr} {p i : Nat} (h : x.want ≠ []) (hn : x.next = some (.pacq p i)) :
    tgt x = i :: x.st.held := by simp [tgt, h, hn]

/-- Invariant of thread `t`. `holds`: the instances `t` owns in the table are exactly the
(non-token) locks acquired and not released in the replayed prefix of its trace — while it
is inside a backed-off `LockPile.Lock`, plus the lock being added and minus the ones still
wanted. -/
structure TInv (own : Nat → Bool) (t : Nat) (x : Thr) (T : Table) : Prop where
  holds : ∀ j, T j = some t ↔ (j ∈ tgt x ∧ own j = false ∧ j ∉ x.want)
  wantOk : x.want ≠ [] → ∃ p i, x.next = some (.pacq p i) ∧ own i = false ∧
    ∀ j ∈ x.want, j ∈ i :: x.st.held ∧ own j = false ∧ j ∈ i :: x.st.piles p

section
variable {c : Nat → Nat} {own : Nat → Bool} {ok : Nat → Nat → Prop}

theorem TInv.want_nil {t x T} (h : TInv own t x T) {e : Ev} (hn : x.next = some e)
    (hne : ∀ p i, e = .pacq p i → own i = true) : x.want = [] := by
  by_cases hw : x.want = []
  · exact hw
  · obtain ⟨p, i, hn', ho, _⟩ := h.wantOk hw
    rw [hn] at hn'
    cases hn'
    rw [hne p i rfl] at ho
    cases ho

theorem TInv.holds_nil {t x T} (h : TInv own t x T) (hw : x.want = []) (j : Nat) :
    T j = some t ↔ (j ∈ x.st.held ∧ own j = false) := by
  rw [h.holds j, tgt_nil hw, hw]
  simp

/-- Invariant after an event is completed. -/
theorem inv_adv {t : Nat} {x : Thr} {e : Ev} {T' : Table} (hn : x.next = some e)
    (h : ∀ j, T' j = some t ↔ (j ∈ (stepR x.st e).held ∧ own j = false)) :
    TInv own t x.adv T' := by
  refine ⟨fun j => ?_, fun hw => absurd rfl hw⟩
  rw [tgt_nil (x := x.adv) rfl, adv_st hn, h j]
  simp [Thr.adv]

theorem set_eq {T : Table} {i j : Nat} {v : Option Nat} :
    (T.set i v) j = if j = i then v else T j := rfl

/-- In a `pBack` situation the thread cannot already own the lock it asks for: it would be a
lock outside the pile of the same class, which the order forbids. -/
theorem not_self {t : Nat} {x : Thr} {T : Table} {p i : Nat}
    (hg : Good c own ok x.tr) (hi : TInv own t x T) (hn : x.next = some (.pacq p i))
    (hw : x.want = []) (hnf : ¬ (i ∈ x.st.piles p ∧ T i = some t)) : T i ≠ some t := by
  intro hT
  have hin := ((hi.holds_nil hw i).mp hT).1
  have hnp : i ∉ x.st.piles p := fun hp => hnf ⟨hp, hT⟩
  have hm : i ∈ mdiff x.st.held (x.st.piles p) := by
    rw [mem_mdiff, List.count_eq_zero_of_not_mem hnp]
    exact List.count_pos_iff.mpr hin
  have hq : (c i, c i) ∈ stepPairsG c own x.st (.pacq p i) := by
    simp only [stepPairsG, List.mem_map]
    exact ⟨i, hm, rfl⟩
  exact hg.irrefl _ (hg.ordered _ (pairs_at c own x.tr RS.init x.pos _ hn _ hq))

/-- The entry a release frees is owned by the releasing thread. -/
theorem rel_owned {t : Nat} {x : Thr} {T : Table} {e : Ev} {i : Nat}
    (hg : Good c own ok x.tr) (hi : TInv own t x T) (hn : x.next = some e)
    (he : e = .rel i ∨ ∃ p, e = .prel p i) (ho : own i = false) : T i = some t := by
  have hw : x.want = [] := hi.want_nil hn (by
    intro p j hj; rcases he with rfl | ⟨q, rfl⟩ <;> cases hj)
  refine (hi.holds_nil hw i).mpr ⟨?_, ho⟩
  apply hg.noUnderflow x.pos i
  rcases he with rfl | ⟨q, rfl⟩
  · exact Or.inl hn
  · exact Or.inr ⟨q, hn⟩

/-- How a step of `t` can change a table entry. -/
theorem tstep_entries {t : Nat} {x x' : Thr} {T T' : Table}
    (hg : Good c own ok x.tr) (hi : TInv own t x T) (hs : TStep own t x T x' T') :
    ∀ j, T' j = T j ∨ (T j = none ∧ T' j = some t) ∨ (T j = some t ∧ T' j = none) := by
  intro j
  have hset : ∀ i, T i = none → (T.set i (some t)) j = T j ∨
      (T j = none ∧ (T.set i (some t)) j = some t) ∨ (T j = some t ∧ (T.set i (some t)) j = none) := by
    intro i hfree
    rw [set_eq]
    split
    · rename_i h; subst h; exact Or.inr (Or.inl ⟨hfree, rfl⟩)
    · exact Or.inl rfl
  have hdrop : ∀ js, dropAll t T js j = T j ∨ (T j = none ∧ dropAll t T js j = some t) ∨
      (T j = some t ∧ dropAll t T js j = none) := by
    intro js
    unfold dropAll
    split
    · rename_i h; exact Or.inr (Or.inr ⟨h.2, rfl⟩)
    · exact Or.inl rfl
  have hrel : ∀ e i st', x.next = some e → (e = .rel i ∨ ∃ p, e = .prel p i) →
      relT own st' T i j = T j ∨ (T j = none ∧ relT own st' T i j = some t) ∨
        (T j = some t ∧ relT own st' T i j = none) := by
    intro e i st' hn he
    unfold relT
    split
    · exact Or.inl rfl
    · rename_i hno
      have ho : own i = false := by
        cases h : own i with
        | false => rfl
        | true => exact absurd (Or.inl h) hno
      rw [set_eq]
      split
      · rename_i h; subst h
        exact Or.inr (Or.inr ⟨rel_owned hg hi hn he ho, rfl⟩)
      · exact Or.inl rfl
  cases hs with
  | need _ => exact Or.inl rfl
  | acqOwn _ _ => exact Or.inl rfl
  | acq _ _ hf => exact hset _ hf
  | rel hn => exact hrel _ _ _ hn (Or.inl rfl)
  | prel hn => exact hrel _ _ _ hn (Or.inr ⟨_, rfl⟩)
  | pOwn _ _ => exact Or.inl rfl
  | pFast _ _ _ _ _ => exact Or.inl rfl
  | pTake _ _ _ hf => exact hset _ hf
  | pBack _ _ _ _ _ => exact hdrop _
  | pWake _ _ _ hf => exact hset _ hf
  | pFail _ _ _ _ _ => exact hdrop _

/-- A step of `t` does not change what another thread owns. -/
theorem tstep_frame {t u : Nat} {x x' : Thr} {T T' : Table}
    (hg : Good c own ok x.tr) (hi : TInv own t x T) (hs : TStep own t x T x' T') (hu : u ≠ t) :
    ∀ j, T' j = some u ↔ T j = some u := by
  intro j
  rcases tstep_entries hg hi hs j with h | ⟨h1, h2⟩ | ⟨h1, h2⟩
  · rw [h]
  · rw [h1, h2]
    constructor
    · intro h; cases h; exact absurd rfl hu
    · intro h; cases h
  · rw [h1, h2]
    constructor
    · intro h; cases h
    · intro h; cases h; exact absurd rfl hu

theorem tstep_tr {t : Nat} {x x' : Thr} {T T' : Table} (hs : TStep own t x T x' T') :
    x'.tr = x.tr := by
  cases hs <;> try rfl
  case pWake => split <;> rfl

theorem mem_heldOf {t : Nat} {T : Table} {js : List Nat} {j : Nat} :
    j ∈ heldOf t T js ↔ j ∈ js ∧ T j = some t := by
  simp [heldOf]

theorem dropAll_eq {t : Nat} {T : Table} {js : List Nat} {j : Nat} :
    dropAll t T js j = some t ↔ (T j = some t ∧ j ∉ js) := by
  unfold dropAll
  split
  · rename_i h
    constructor
    · intro h'; cases h'
    · intro h'; exact absurd h.1 h'.2
  · rename_i h
    constructor
    · intro h'; exact ⟨h', fun hj => h ⟨hj, h'⟩⟩
    · intro h'; exact h'.1

/-- The invariant of the stepping thread is preserved. -/
theorem tstep_inv {t : Nat} {x x' : Thr} {T T' : Table}
    (hg : Good c own ok x.tr) (hi : TInv own t x T) (hs : TStep own t x T x' T') :
    TInv own t x' T' := by
  -- completing an acquisition of a free lock
  have hacq : ∀ e i, x.next = some e → x.want = [] → own i = false →
      (stepR x.st e).held = i :: x.st.held → T i = none →
      TInv own t x.adv (T.set i (some t)) := by
    intro e i hn hw ho hh hf
    refine inv_adv hn (fun j => ?_)
    rw [hh, set_eq]
    split
    · rename_i h; subst h; simp [ho]
    · rename_i h
      rw [hi.holds_nil hw j, List.mem_cons]
      simp [h]
  -- completing an acquisition that does not touch the table
  have hsame : ∀ e i, x.next = some e → x.want = [] →
      (stepR x.st e).held = i :: x.st.held → (own i = true ∨ T i = some t) →
      TInv own t x.adv T := by
    intro e i hn hw hh hor
    refine inv_adv hn (fun j => ?_)
    rw [hh, hi.holds_nil hw j, List.mem_cons]
    constructor
    · intro h; exact ⟨Or.inr h.1, h.2⟩
    · rintro ⟨h1 | h1, h2⟩
      · subst h1
        rcases hor with h | h
        · rw [h] at h2; cases h2
        · exact (hi.holds_nil hw j).mp h
      · exact ⟨h1, h2⟩
  -- a release
  have hrel : ∀ e i, x.next = some e → (e = .rel i ∨ ∃ p, e = .prel p i) →
      (stepR x.st e).held = x.st.held.erase i →
      TInv own t x.adv (relT own (stepR x.st e) T i) := by
    intro e i hn he hh
    have hw : x.want = [] := hi.want_nil hn (by
      intro p j hj; rcases he with rfl | ⟨q, rfl⟩ <;> cases hj)
    refine inv_adv hn (fun j => ?_)
    unfold relT
    rw [hh]
    by_cases hji : j = i
    · subst hji
      split
      · rename_i hc
        rw [hi.holds_nil hw j]
        rcases hc with hc | hc
        · simp [hc]
        · constructor
          · intro h; exact ⟨hc, h.2⟩
          · intro h; exact ⟨List.mem_of_mem_erase h.1, h.2⟩
      · rename_i hc
        rw [set_eq, if_pos rfl]
        constructor
        · intro h; cases h
        · intro h; exact absurd (Or.inr h.1) hc
    · have hm : j ∈ x.st.held.erase i ↔ j ∈ x.st.held := List.mem_erase_of_ne hji
      split
      · rw [hi.holds_nil hw j, hm]
      · rw [set_eq, if_neg hji, hi.holds_nil hw j, hm]
  cases hs with
  | need hn =>
    have hw := hi.want_nil hn (by intro p i h; cases h)
    refine inv_adv hn (fun j => ?_)
    rw [hi.holds_nil hw j]; rfl
  | acqOwn hn ho => exact hsame _ _ hn (hi.want_nil hn (by intro p i h; cases h)) rfl (Or.inl ho)
  | acq hn ho hf => exact hacq _ _ hn (hi.want_nil hn (by intro p i h; cases h)) ho rfl hf
  | rel hn => exact hrel _ _ hn (Or.inl rfl) rfl
  | prel hn => exact hrel _ _ hn (Or.inr ⟨_, rfl⟩) rfl
  | pOwn hn ho =>
    exact hsame _ _ hn (hi.want_nil hn (by intro p i h; cases h; exact ho)) rfl (Or.inl ho)
  | pFast hn _ hw _ hT => exact hsame _ _ hn hw rfl (Or.inr hT)
  | pTake hn ho hw hf => exact hacq _ _ hn hw ho rfl hf
  | pBack hn ho hw hb hnf =>
    rename_i p i
    have hns := not_self hg hi hn hw hnf
    have hne : (i :: heldOf t T (x.st.piles p)) ≠ [] := by simp
    refine ⟨fun j => ?_, fun _ => ⟨p, i, hn, ho, ?_⟩⟩
    · rw [tgt_pacq (x := { x with want := i :: heldOf t T (x.st.piles p) }) hne hn, dropAll_eq]
      show _ ↔ (j ∈ i :: x.st.held ∧ own j = false ∧ j ∉ i :: heldOf t T (x.st.piles p))
      rw [List.mem_cons, List.mem_cons, mem_heldOf]
      constructor
      · rintro ⟨h1, h2⟩
        have := (hi.holds_nil hw j).mp h1
        refine ⟨Or.inr this.1, this.2, ?_⟩
        rintro (h | h)
        · subst h; exact hns h1
        · exact h2 h.1
      · rintro ⟨h1, h2, h3⟩
        have hji : j ≠ i := fun h => h3 (Or.inl h)
        have hin : j ∈ x.st.held := by
          rcases h1 with h | h
          · exact absurd h hji
          · exact h
        have hT := (hi.holds_nil hw j).mpr ⟨hin, h2⟩
        exact ⟨hT, fun hp => h3 (Or.inr ⟨hp, hT⟩)⟩
    · intro j hj
      show j ∈ i :: x.st.held ∧ own j = false ∧ j ∈ i :: x.st.piles p
      rcases List.mem_cons.mp hj with rfl | hj
      · exact ⟨List.mem_cons_self, ho, List.mem_cons_self⟩
      · rw [mem_heldOf] at hj
        have := (hi.holds_nil hw j).mp hj.2
        exact ⟨List.mem_cons_of_mem _ this.1, this.2, List.mem_cons_of_mem _ hj.1⟩
  | pWake hn ho hw hf =>
    rename_i p i w ws
    have hwne : x.want ≠ [] := by rw [hw]; simp
    obtain ⟨p', i', hn', _, hall⟩ := hi.wantOk hwne
    rw [hn] at hn'
    cases hn'
    have htg := tgt_pacq hwne hn
    -- the general statement
    have key : ∀ j, (T.set w (some t)) j = some t ↔
        (j ∈ i :: x.st.held ∧ own j = false ∧ j ∉ ws.filter (fun j => j ≠ w)) := by
      intro j
      rw [set_eq]
      have hww := hall w (by rw [hw]; exact List.mem_cons_self)
      split
      · rename_i h; subst h
        simp [hww.1, hww.2.1]
      · rename_i h
        rw [hi.holds j, htg, hw]
        simp [h]
    split
    · rename_i hnil
      refine inv_adv hn (fun j => ?_)
      rw [key j, hnil]
      simp [stepR]
    · rename_i hnn
      refine ⟨fun j => ?_, fun _ => ⟨p, i, hn, ho, ?_⟩⟩
      · rw [tgt_pacq (x := { x with want := ws.filter (fun j => j ≠ w) }) hnn hn]
        exact key j
      · intro j hj
        exact hall j (by rw [hw]; exact List.mem_cons_of_mem _ (List.mem_filter.mp hj).1)
  | pFail hn ho hw hb hex =>
    rename_i p i w ws
    have hwne : x.want ≠ [] := by rw [hw]; simp
    obtain ⟨p', i', hn', _, hall⟩ := hi.wantOk hwne
    rw [hn] at hn'
    cases hn'
    have htg := tgt_pacq hwne hn
    have hne : (w :: (ws ++ heldOf t T (i :: x.st.piles p))) ≠ [] := by simp
    refine ⟨fun j => ?_, fun _ => ⟨p, i, hn, ho, ?_⟩⟩
    · rw [tgt_pacq (x := { x with want := w :: (ws ++ heldOf t T (i :: x.st.piles p)) }) hne hn,
        dropAll_eq]
      show _ ↔ (j ∈ i :: x.st.held ∧ own j = false ∧ j ∉ w :: (ws ++ heldOf t T (i :: x.st.piles p)))
      have hold := hi.holds j
      rw [htg, hw] at hold
      constructor
      · rintro ⟨h1, h2⟩
        obtain ⟨a, b, d⟩ := hold.mp h1
        refine ⟨a, b, ?_⟩
        intro hm
        rcases List.mem_cons.mp hm with h | h
        · exact d (h ▸ List.mem_cons_self)
        · rcases List.mem_append.mp h with h | h
          · exact d (List.mem_cons_of_mem _ h)
          · exact h2 (mem_heldOf.mp h).1
      · rintro ⟨a, b, d⟩
        have hnw : j ∉ w :: ws := by
          intro hm
          apply d
          rcases List.mem_cons.mp hm with h | h
          · exact h ▸ List.mem_cons_self
          · exact List.mem_cons_of_mem _ (List.mem_append_left _ h)
        have hT := hold.mpr ⟨a, b, hnw⟩
        refine ⟨hT, fun hp => d ?_⟩
        exact List.mem_cons_of_mem _ (List.mem_append_right _ (mem_heldOf.mpr ⟨hp, hT⟩))
    · intro j hj
      show j ∈ i :: x.st.held ∧ own j = false ∧ j ∈ i :: x.st.piles p
      rcases List.mem_cons.mp hj with h | h
      · exact hall j (by rw [hw, h]; exact List.mem_cons_self)
      · rcases List.mem_append.mp h with h | h
        · exact hall j (by rw [hw]; exact List.mem_cons_of_mem _ h)
        · rw [mem_heldOf] at h
          have := (hi.holds j).mp h.2
          rw [htg] at this
          exact ⟨this.1, this.2.1, h.1⟩

/-- **Premise `hsrc`.** For a blocked thread, every lock it holds has a class of strictly
smaller rank than the class of the lock it waits for. -/
theorem blocked_pair_ok {t : Nat} {x : Thr} {T : Table}
    (hg : Good c own ok x.tr) (hi : TInv own t x T) {l l' : Nat}
    (hw : waits own t x T = some l) (hh : T l' = some t) : ok (c l') (c l) := by
  unfold waits at hw
  split at hw
  · rename_i i hn
    split at hw
    · cases hw
    · cases hw
      rename_i ho
      have ho' : own l = false := by simpa using ho
      have hwn := hi.want_nil hn (by intro p j h; cases h)
      have hin := ((hi.holds_nil hwn l').mp hh).1
      have hq : (c l', c l) ∈ stepPairsG c own x.st (.acq l) := by
        simp only [stepPairsG, ho', Bool.false_eq_true, if_false, List.mem_map]
        exact ⟨l', hin, rfl⟩
      exact hg.ordered _ (pairs_at c own x.tr RS.init x.pos _ hn _ hq)
  · rename_i p i hn
    split at hw
    · cases hw
    · split at hw
      · cases hw
      · rename_i w ws hwant
        split at hw
        · cases hw
        · cases hw
          rename_i hany
          have hwne : x.want ≠ [] := by rw [hwant]; simp
          obtain ⟨p', i', hn', _, hall⟩ := hi.wantOk hwne
          rw [hn] at hn'
          cases hn'
          have hnone : ∀ j ∈ i :: x.st.piles p, T j ≠ some t := by
            intro j hj hT
            apply hany
            rw [List.any_eq_true]
            exact ⟨j, hj, by simp [hT]⟩
          have hold := (hi.holds l').mp hh
          rw [tgt_pacq hwne hn] at hold
          have hni : l' ∉ i :: x.st.piles p := fun h => hnone l' h hh
          have hin : l' ∈ x.st.held := by
            rcases List.mem_cons.mp hold.1 with h | h
            · exact absurd (h ▸ List.mem_cons_self) hni
            · exact h
          have hm : l' ∈ mdiff x.st.held (x.st.piles p) := by
            rw [mem_mdiff, List.count_eq_zero_of_not_mem (fun h => hni (List.mem_cons_of_mem _ h))]
            exact List.count_pos_iff.mpr hin
          have hq : (c l', c i) ∈ stepPairsG c own x.st (.pacq p i) := by
            simp only [stepPairsG, List.mem_map]
            exact ⟨l', hm, rfl⟩
          have hlt := hg.ordered _ (pairs_at c own x.tr RS.init x.pos _ hn _ hq)
          have hi_mem : Ev.pacq p i ∈ x.tr := List.mem_of_getElem? hn
          have hcl : c l = c i := by
            have hwm := (hall l (by rw [hwant]; exact List.mem_cons_self)).2.2
            rcases List.mem_cons.mp hwm with h | h
            · rw [h]
            · rcases mem_piles_pacq (x.tr.take x.pos) RS.init h with h0 | h0
              · cases h0
              · exact hg.pileUniform p l i (List.mem_of_mem_take h0) hi_mem
          rw [hcl]; exact hlt
  · cases hw

end

/-! ## Systems -/

/-- A system: the state of every thread (thread identifiers are natural numbers; a thread
with an empty or completed trace is finished) and the global lock table. -/
structure Sys where
  thr : Nat → Thr
  T : Table

/-- One step of the system: some thread makes a step; any schedule. -/
inductive Step (own : Nat → Bool) : Sys → Sys → Prop
  | mk {s : Sys} {t : Nat} {x' : Thr} {T' : Table} :
      TStep own t (s.thr t) s.T x' T' →
      Step own s ⟨fun u => if u = t then x' else s.thr u, T'⟩

/-- Initial states: nothing executed, every lock free. -/
def Sys.Init (s : Sys) : Prop := (∀ t, (s.thr t).pos = 0 ∧ (s.thr t).want = []) ∧ ∀ j, s.T j = none

inductive Reach (own : Nat → Bool) (s0 : Sys) : Sys → Prop
  | init : Reach own s0 s0
  | step {s s'} : Reach own s0 s → Step own s s' → Reach own s0 s'

/-- The system invariant: every thread runs a good trace and satisfies `TInv`. -/
def Inv (c : Nat → Nat) (own : Nat → Bool) (ok : Nat → Nat → Prop) (s : Sys) : Prop :=
  ∀ t, Good c own ok (s.thr t).tr ∧ TInv own t (s.thr t) s.T

section
variable {c : Nat → Nat} {own : Nat → Bool} {ok : Nat → Nat → Prop}

theorem inv_init {s : Sys} (h0 : s.Init) (hg : ∀ t, Good c own ok (s.thr t).tr) :
    Inv c own ok s := by
  intro t
  refine ⟨hg t, ⟨fun j => ?_, fun hw => absurd (h0.1 t).2 hw⟩⟩
  rw [tgt_nil (h0.1 t).2, h0.2 j]
  simp [Thr.st, (h0.1 t).1, stRun, RS.init]

theorem inv_step {s s' : Sys} (hi : Inv c own ok s) (hs : Step own s s') : Inv c own ok s' := by
  cases hs with
  | mk hst =>
    rename_i t x' T'
    intro u
    by_cases hu : u = t
    · subst hu
      simp only [if_true]
      refine ⟨?_, tstep_inv (hi u).1 (hi u).2 hst⟩
      rw [tstep_tr hst]; exact (hi u).1
    · simp only [if_neg hu]
      refine ⟨(hi u).1, ?_⟩
      have hf := tstep_frame (hi t).1 (hi t).2 hst hu
      have hu' := (hi u).2
      exact ⟨fun j => (hf j).trans (hu'.holds j), hu'.wantOk⟩

/-- **The invariant holds in every reachable state** (any number of threads, any traces,
any schedule). -/
theorem inv_reach {s0 s : Sys} (h0 : s0.Init) (hg : ∀ t, Good c own ok (s0.thr t).tr)
    (hr : Reach own s0 s) : Inv c own ok s := by
  induction hr with
  | init => exact inv_init h0 hg
  | step _ hs ih => exact inv_step ih hs

theorem step_tr {s s' : Sys} (hs : Step own s s') (t : Nat) : (s'.thr t).tr = (s.thr t).tr := by
  cases hs with
  | mk hst =>
    rename_i u x' T'
    by_cases h : t = u
    · subst h; simp only [if_true]; exact tstep_tr hst
    · simp only [if_neg h]

/-- Threads never change the trace they execute. -/
theorem reach_tr {s0 s : Sys} (hr : Reach own s0 s) (t : Nat) : (s.thr t).tr = (s0.thr t).tr := by
  induction hr with
  | init => rfl
  | step _ hs ih => rw [step_tr hs, ih]

/-- The run-time wait-for graph of a system state. -/
def Sys.holds (s : Sys) (u l : Nat) : Prop := s.T l = some u
def Sys.waits (own : Nat → Bool) (s : Sys) (u : Nat) : Option Nat :=
  BbRe.Lemmas.LockSkelConc.waits own u (s.thr u) s.T

open BbRe.Lemmas.LockPile in
/-- Hypothesis `H` of `no_deadlock` holds in every state satisfying the invariant. -/
theorem inv_H {s : Sys} (hi : Inv c own ok s) {rk : Nat → Nat}
    (hrk : ∀ a b, ok a b → rk a < rk b) :
    H s.holds (s.waits own) (fun l => rk (c l)) := by
  intro t l hl
  right
  intro l' hh
  exact hrk _ _ (blocked_pair_ok (hi t).1 (hi t).2 hl hh)

open BbRe.Lemmas.LockPile in
/-- **No cycle in the wait-for graph** of a state satisfying the invariant. -/
theorem inv_no_cycle {s : Sys} (hi : Inv c own ok s) {rk : Nat → Nat}
    (hrk : ∀ a b, ok a b → rk a < rk b) (t0 : Nat) (rest : List Nat) :
    ¬ Chain (Edge s.holds (s.waits own)) t0 (rest ++ [t0]) :=
  no_deadlock (inv_H hi hrk) t0 rest

/-- A finished thread owns nothing. -/
theorem done_owns_nothing {s : Sys} (hi : Inv c own ok s) {u : Nat} (hd : (s.thr u).done)
    (l : Nat) : s.T l ≠ some u := by
  intro hT
  have hnext : (s.thr u).next = none := by
    unfold Thr.next; exact List.getElem?_eq_none hd
  have hw : (s.thr u).want = [] := by
    by_cases h : (s.thr u).want = []
    · exact h
    · obtain ⟨p, i, hn, _⟩ := (hi u).2.wantOk h
      rw [hnext] at hn; cases hn
  have := ((hi u).2.holds_nil hw l).mp hT
  have hb := (hi u).1.balanced l (by
    have h1 := this.1
    unfold Thr.st at h1
    rwa [List.take_of_length_le hd] at h1)
  rw [hb] at this
  cases this.2

/-- An unfinished thread that is not blocked, or is blocked on a free lock, can step. -/
theorem can_step {s : Sys} {t : Nat} (hnd : ¬ (s.thr t).done)
    (h : s.waits own t = none ∨ ∃ l, s.waits own t = some l ∧ ∀ u, ¬ s.holds u l) :
    ∃ x' T', TStep own t (s.thr t) s.T x' T' := by
  have hfree : ∀ l, s.waits own t = some l → s.T l = none := by
    intro l hl
    rcases h with h | ⟨l', hl', hf⟩
    · rw [h] at hl; cases hl
    · rw [hl] at hl'; cases hl'
      cases hT : s.T l with
      | none => rfl
      | some u => exact absurd hT (hf u)
  have hlt : (s.thr t).pos < (s.thr t).tr.length := by
    unfold Thr.done at hnd; omega
  have hn : (s.thr t).next = some ((s.thr t).tr[(s.thr t).pos]) := by
    unfold Thr.next; exact List.getElem?_eq_getElem hlt
  generalize (s.thr t).tr[(s.thr t).pos] = e at hn
  cases e with
  | need cs => exact ⟨_, _, .need hn⟩
  | rel i => exact ⟨_, _, .rel hn⟩
  | prel p i => exact ⟨_, _, .prel hn⟩
  | acq i =>
    cases ho : own i with
    | true => exact ⟨_, _, .acqOwn hn ho⟩
    | false =>
      have : s.waits own t = some i := by
        simp [Sys.waits, waits, hn, ho]
      exact ⟨_, _, .acq hn ho (hfree i this)⟩
  | pacq p i =>
    cases ho : own i with
    | true => exact ⟨_, _, .pOwn hn ho⟩
    | false =>
      cases hw : (s.thr t).want with
      | nil =>
        cases hT : s.T i with
        | none => exact ⟨_, _, .pTake hn ho hw hT⟩
        | some u =>
          by_cases hf : i ∈ (s.thr t).st.piles p ∧ s.T i = some t
          · exact ⟨_, _, .pFast hn ho hw hf.1 hf.2⟩
          · exact ⟨_, _, .pBack hn ho hw (by rw [hT]; simp) hf⟩
      | cons w ws =>
        cases hT : s.T w with
        | none => exact ⟨_, _, .pWake hn ho hw hT⟩
        | some u =>
          by_cases hany : (i :: (s.thr t).st.piles p).any (fun j => s.T j == some t) = true
          · rw [List.any_eq_true] at hany
            obtain ⟨j, hj, hjt⟩ := hany
            exact ⟨_, _, .pFail hn ho hw (by rw [hT]; simp) ⟨j, hj, by simpa using hjt⟩⟩
          · have : s.waits own t = some w := by
              simp only [Sys.waits, waits, hn, ho, hw]
              simp [hany]
            rw [hfree w this] at hT; cases hT

open BbRe.Lemmas.LockPile in
/-- **Progress.** In a state satisfying the invariant, with `ts` a finite list of threads
containing every unfinished thread: all threads have finished, or some unfinished thread can
take a step. -/
theorem inv_progress {s : Sys} (hi : Inv c own ok s) {rk : Nat → Nat}
    (hrk : ∀ a b, ok a b → rk a < rk b) (ts : List Nat)
    (hts : ∀ t, t ∉ ts → (s.thr t).done) :
    (∀ t, (s.thr t).done) ∨ ∃ t ∈ ts, ¬ (s.thr t).done ∧ ∃ x' T', TStep own t (s.thr t) s.T x' T' := by
  let live := ts.filter (fun t => decide (¬ (s.thr t).done))
  by_cases hne : live = []
  · left
    intro t
    by_cases ht : t ∈ ts
    · by_cases hd : (s.thr t).done
      · exact hd
      · have : t ∈ live := by simp [live, ht, hd]
        rw [hne] at this; cases this
    · exact hts t ht
  · right
    have hlive : ∀ t, t ∈ live ↔ t ∈ ts ∧ ¬ (s.thr t).done := by
      intro t; simp [live]
    obtain ⟨t, ht, h⟩ := some_thread_can_proceed (inv_H hi hrk) live hne (by
      intro t _ l _
      cases hT : s.T l with
      | none => right; intro u hu; unfold Sys.holds at hu; rw [hT] at hu; cases hu
      | some u =>
        left
        refine ⟨u, (hlive u).mpr ⟨?_, ?_⟩, hT⟩
        · apply Classical.byContradiction
          intro hu
          exact done_owns_nothing hi (hts u hu) l hT
        · intro hd
          exact done_owns_nothing hi hd l hT)
    have ht' := (hlive t).mp ht
    exact ⟨t, ht'.1, ht'.2, can_step ht'.2 h⟩

/-- A plain `Lock` is only ever performed on an instance the thread does not hold: a plain
mutex is never held twice (the `relT` rule for `rel` frees it). -/
theorem acq_enabled_not_held {s : Sys} (hi : Inv c own ok s) {t i : Nat}
    (hn : (s.thr t).next = some (.acq i)) (ho : own i = false) (hf : s.T i = none) :
    i ∉ (s.thr t).st.held := by
  intro hin
  have hw := (hi t).2.want_nil hn (by intro p j h; cases h)
  have := ((hi t).2.holds_nil hw i).mpr ⟨hin, ho⟩
  rw [hf] at this; cases this

end

end BbRe.Lemmas.LockSkelConc
