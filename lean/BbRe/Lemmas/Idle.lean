import BbRe.Model.Idle
/-!
Invariant of `Model/Idle.lean` (the `IdleInvoker` transition system) and its
preservation by every step.  Used by `Properties/C12.lean`.
-/
namespace BbRe.Lemmas.Idle
open BbRe.Idle

/-- The invariant of the invoker.  `users` is "useCount = number of threads
that are `inUse`" (a duplicate-free list enumerating exactly those threads). -/
structure Inv (s : State) : Prop where
  noPanic : s.panicked = false
  cleanNone : s.wakeup = none → ∀ t, (s.pc t).cleaning = false
  cleanSome : ∀ c, s.wakeup = some c →
    ∃ t, (s.pc t).cleaning = true ∧ ∀ t', (s.pc t').cleaning = true → t' = t
  useZero : s.wakeup ≠ none → s.useCount = 0
  users : ∃ l : List Nat, l.Nodup ∧ (∀ t, t ∈ l ↔ s.pc t = .inUse) ∧ s.useCount = l.length
  chanOpen : ∀ c, s.wakeup = some c → c < s.gen ∧ c ∉ s.closed
  chanClosed : ∀ c, c < s.gen → s.wakeup = some c ∨ c ∈ s.closed
  closedLt : ∀ c, c ∈ s.closed → c < s.gen
  waitChan : ∀ t c, s.pc t = .waiting c → c < s.gen

theorem inv_init : Inv init := by
  refine ⟨rfl, ?_, ?_, ?_, ⟨[], List.nodup_nil, ?_, rfl⟩, ?_, ?_, ?_, ?_⟩ <;> simp [init, PC.cleaning]

@[simp] theorem setPc_pc (s : State) (t : Nat) (v : PC) (x : Nat) :
    (s.setPc t v).pc x = if x = t then v else s.pc x := rfl
@[simp] theorem setPc_useCount (s : State) (t : Nat) (v : PC) : (s.setPc t v).useCount = s.useCount := rfl
@[simp] theorem setPc_wakeup (s : State) (t : Nat) (v : PC) : (s.setPc t v).wakeup = s.wakeup := rfl
@[simp] theorem setPc_gen (s : State) (t : Nat) (v : PC) : (s.setPc t v).gen = s.gen := rfl
@[simp] theorem setPc_closed (s : State) (t : Nat) (v : PC) : (s.setPc t v).closed = s.closed := rfl
@[simp] theorem setPc_panicked (s : State) (t : Nat) (v : PC) : (s.setPc t v).panicked = s.panicked := rfl

/-- Moving a thread that is neither cleaning nor a user to another such
program counter changes nothing the invariant talks about (except `waitChan`). -/
theorem inv_setPc_neutral {s : State} (h : Inv s) (t : Nat) (v : PC)
    (hold1 : (s.pc t).cleaning = false) (hold2 : s.pc t ≠ .inUse)
    (hv1 : v.cleaning = false) (hv2 : v ≠ .inUse) (hv3 : ∀ c, v = .waiting c → c < s.gen) :
    Inv (s.setPc t v) := by
  obtain ⟨l, hl1, hl2, hl3⟩ := h.users
  refine ⟨(by first | exact h.noPanic | rfl), ?_, ?_, h.useZero, ⟨l, hl1, ?_, hl3⟩, h.chanOpen, h.chanClosed, h.closedLt, ?_⟩
  · intro hw x
    simp only [setPc_pc]
    split
    · exact hv1
    · exact h.cleanNone hw x
  · intro c hc
    obtain ⟨t0, ht0, huniq⟩ := h.cleanSome c hc
    have hne : t0 ≠ t := by
      intro e; subst e; rw [hold1] at ht0; cases ht0
    refine ⟨t0, ?_, ?_⟩
    · simp only [setPc_pc, if_neg hne]; exact ht0
    · intro t' ht'
      simp only [setPc_pc] at ht'
      split at ht'
      · rw [hv1] at ht'; cases ht'
      · exact huniq t' ht'
  · intro x
    simp only [setPc_pc]
    split
    · rename_i e; subst e
      constructor
      · intro hx; exact absurd ((hl2 x).1 hx) hold2
      · intro hx; exact absurd hx hv2
    · exact hl2 x
  · intro x c hx
    simp only [setPc_pc] at hx
    split at hx
    · exact hv3 c hx
    · exact h.waitChan x c hx

/-- `acquireBody` (the lock-held part of `Acquire` from the loop test on)
preserves the invariant when run by a thread that is outside or parked. -/
theorem inv_acquireBody {s : State} (h : Inv s) (t : Nat)
    (hold1 : (s.pc t).cleaning = false) (hold2 : s.pc t ≠ .inUse) :
    Inv (acquireBody s t) := by
  unfold acquireBody
  split
  · rename_i c hc
    exact inv_setPc_neutral h t (.waiting c) hold1 hold2 rfl (by simp)
      (by intro c' e; cases e; exact (h.chanOpen c hc).1)
  · rename_i hw
    obtain ⟨l, hl1, hl2, hl3⟩ := h.users
    split
    · -- useCount = 0: start the cleaner
      rename_i hu
      unfold startClean
      simp only [hw]
      refine ⟨(by first | exact h.noPanic | rfl), ?_, ?_, ?_, ⟨l, hl1, ?_, hl3⟩, ?_, ?_, ?_, ?_⟩
      · intro hn; cases hn
      · intro c _
        refine ⟨t, by simp [PC.cleaning], ?_⟩
        intro t' ht'
        simp only [setPc_pc] at ht'
        split at ht'
        · assumption
        · rw [h.cleanNone hw t'] at ht'; cases ht'
      · intro _; exact hu
      · intro x
        simp only [setPc_pc]
        split
        · rename_i e; subst e
          constructor
          · intro hx; exact absurd ((hl2 x).1 hx) hold2
          · intro hx; cases hx
        · exact hl2 x
      · intro c hc
        simp only [Option.some.injEq] at hc
        subst hc
        refine ⟨Nat.lt_succ_self _, ?_⟩
        intro hmem
        exact Nat.lt_irrefl _ (h.closedLt _ hmem)
      · intro c hc
        dsimp only [setPc_closed, setPc_gen] at hc ⊢
        by_cases e : c = s.gen
        · left; simp [e]
        · right
          have : c < s.gen := by omega
          rcases h.chanClosed c this with h1 | h1
          · rw [hw] at h1; cases h1
          · exact h1
      · intro c hc
        simp only [setPc_closed] at hc
        exact Nat.lt_succ_of_lt (h.closedLt c hc)
      · intro x c hx
        simp only [setPc_pc] at hx
        split at hx
        · cases hx
        · exact Nat.lt_succ_of_lt (h.waitChan x c hx)
    · -- useCount > 0: become a user
      rename_i hu
      have htl : t ∉ l := fun hx => hold2 ((hl2 t).1 hx)
      refine ⟨(by first | exact h.noPanic | rfl), ?_, ?_, ?_, ⟨t :: l, List.nodup_cons.2 ⟨htl, hl1⟩, ?_, ?_⟩,
        ?_, h.chanClosed, h.closedLt, ?_⟩
      · intro _ x
        simp only [setPc_pc]
        split
        · rfl
        · exact h.cleanNone hw x
      · intro c hc
        simp only [setPc_wakeup] at hc
        rw [hw] at hc; cases hc
      · intro hn
        simp only [setPc_wakeup] at hn
        exact absurd hw hn
      · intro x
        simp only [setPc_pc, List.mem_cons]
        split
        · rename_i e; subst e; simp
        · rename_i e
          constructor
          · rintro (e' | hx)
            · exact absurd e' e
            · exact (hl2 x).1 hx
          · intro hx; exact Or.inr ((hl2 x).2 hx)
      · simp only [List.length_cons, hl3]
      · intro c hc
        simp only [setPc_wakeup] at hc
        rw [hw] at hc; cases hc
      · intro x c hx
        simp only [setPc_pc] at hx
        split at hx
        · cases hx
        · exact h.waitChan x c hx

/-- Second half of `clean` followed by the rest of the caller. -/
theorem inv_cleanDone {s s' : State} (h : Inv s) (t : Nat) (ok : Bool)
    (hs : step s (.cleanDone t ok) = some s') : Inv s' := by
  unfold step at hs
  simp only [h.noPanic, Bool.false_eq_true, ↓reduceIte] at hs
  split at hs
  · cases hs
  · rename_i c hc
    obtain ⟨t0, ht0, huniq⟩ := h.cleanSome c hc
    obtain ⟨l, hl1, hl2, hl3⟩ := h.users
    have hu0 : s.useCount = 0 := h.useZero (by rw [hc]; simp)
    have hl0 : l = [] := by
      cases l with
      | nil => rfl
      | cons a l => simp [hu0] at hl3
    -- facts shared by all three successful branches
    have closedLt' : ∀ c', c' ∈ c :: s.closed → c' < s.gen := by
      intro c' hc'
      rcases List.mem_cons.1 hc' with e | hm
      · subst e; exact (h.chanOpen _ hc).1
      · exact h.closedLt c' hm
    have chanClosed' : ∀ c', c' < s.gen → (none : Option Nat) = some c' ∨ c' ∈ c :: s.closed := by
      intro c' hlt
      rcases h.chanClosed c' hlt with h1 | h1
      · rw [hc] at h1; cases h1; exact Or.inr (List.mem_cons_self ..)
      · exact Or.inr (List.mem_cons_of_mem _ h1)
    have others : ∀ x, x ≠ t → (s.pc t).cleaning = true → (s.pc x).cleaning = false := by
      intro x hx htc
      have e1 := huniq t htc
      cases hcx : (s.pc x).cleaning
      · rfl
      · have e2 := huniq x hcx
        exact absurd (e2.trans e1.symm) hx
    split at hs
    · -- cleanAcq
      rename_i hpc
      have htc : (s.pc t).cleaning = true := by rw [hpc]; rfl
      split at hs
      · cases hs
        refine ⟨(by first | exact h.noPanic | rfl), ?_, ?_, ?_, ⟨[t], by simp, ?_, ?_⟩, ?_, chanClosed', closedLt', ?_⟩
        · intro _ x
          simp only [setPc_pc]
          split
          · rfl
          · rename_i e; exact others x e htc
        · intro c' hc'; cases hc'
        · intro hn; exact absurd rfl hn
        · intro x
          simp only [setPc_pc, List.mem_singleton]
          split
          · rename_i e; simp [e]
          · rename_i e
            constructor
            · intro e'; exact absurd e' e
            · intro hx
              have := (hl2 x).2 hx
              rw [hl0] at this; cases this
        · simp [hu0]
        · intro c' hc'; cases hc'
        · intro x c' hx
          simp only [setPc_pc] at hx
          split at hx
          · cases hx
          · exact h.waitChan x c' hx
      · cases hs
        refine ⟨(by first | exact h.noPanic | rfl), ?_, ?_, ?_, ⟨l, hl1, ?_, hl3⟩, ?_, chanClosed', closedLt', ?_⟩
        · intro _ x
          simp only [setPc_pc]
          split
          · rfl
          · rename_i e; exact others x e htc
        · intro c' hc'; cases hc'
        · intro hn; exact absurd rfl hn
        · intro x
          simp only [setPc_pc]
          split
          · rename_i e; subst e
            constructor
            · intro hx; have := (hl2 x).1 hx; rw [hpc] at this; cases this
            · intro hx; cases hx
          · exact hl2 x
        · intro c' hc'; cases hc'
        · intro x c' hx
          simp only [setPc_pc] at hx
          split at hx
          · cases hx
          · exact h.waitChan x c' hx
    · -- cleanRel
      rename_i hpc
      have htc : (s.pc t).cleaning = true := by rw [hpc]; rfl
      cases hs
      refine ⟨(by first | exact h.noPanic | rfl), ?_, ?_, ?_, ⟨l, hl1, ?_, hl3⟩, ?_, chanClosed', closedLt', ?_⟩
      · intro _ x
        simp only [setPc_pc]
        split
        · rfl
        · rename_i e; exact others x e htc
      · intro c' hc'; cases hc'
      · intro hn; exact absurd rfl hn
      · intro x
        simp only [setPc_pc]
        split
        · rename_i e; subst e
          constructor
          · intro hx; have := (hl2 x).1 hx; rw [hpc] at this; cases this
          · intro hx; cases hx
        · exact hl2 x
      · intro c' hc'; cases hc'
      · intro x c' hx
        simp only [setPc_pc] at hx
        split at hx
        · cases hx
        · exact h.waitChan x c' hx
    · cases hs

/-- `Release` up to the return or the lock drop inside `clean`. -/
theorem inv_releaseEnter {s s' : State} (h : Inv s) (t : Nat)
    (hs : step s (.releaseEnter t) = some s') : Inv s' := by
  unfold step at hs
  simp only [h.noPanic, Bool.false_eq_true, ↓reduceIte] at hs
  split at hs
  · rename_i hpc
    obtain ⟨l, hl1, hl2, hl3⟩ := h.users
    have htl : t ∈ l := (hl2 t).2 hpc
    have hpos : s.useCount ≠ 0 := by
      intro e
      rw [e] at hl3
      have : l = [] := List.eq_nil_of_length_eq_zero hl3.symm
      rw [this] at htl; cases htl
    have hw : s.wakeup = none := by
      cases hwk : s.wakeup with
      | none => rfl
      | some c => exact absurd (h.useZero (by rw [hwk]; simp)) hpos
    have hl2' : ∀ x, x ∈ l.erase t ↔ (if x = t then PC.out else s.pc x) = .inUse ∨
        (if x = t then PC.cleanRel else s.pc x) = .inUse := by
      intro x
      rw [hl1.mem_erase_iff]
      by_cases e : x = t
      · simp [e]
      · simp [e, hl2 x]
    have hlen : s.useCount - 1 = (l.erase t).length := by
      rw [List.length_erase_of_mem htl, hl3]
    simp only [if_neg hpos] at hs
    split at hs
    · -- other users remain: just return
      cases hs
      refine ⟨(by first | exact h.noPanic | rfl), ?_, ?_, ?_, ⟨l.erase t, hl1.erase t, ?_, hlen⟩,
        h.chanOpen, h.chanClosed, h.closedLt, ?_⟩
      · intro _ x
        simp only [setPc_pc]
        split
        · rfl
        · exact h.cleanNone hw x
      · intro c hc
        simp only [setPc_wakeup] at hc
        rw [hw] at hc; cases hc
      · intro hn
        simp only [setPc_wakeup] at hn
        exact absurd hw hn
      · intro x
        simp only [setPc_pc]
        rw [hl1.mem_erase_iff]
        by_cases e : x = t
        · simp [e]
        · simp [e, hl2 x]
      · intro x c hx
        simp only [setPc_pc] at hx
        split at hx
        · cases hx
        · exact h.waitChan x c hx
    · -- last user: start the cleaner
      rename_i hnot
      cases hs
      have hzero : s.useCount - 1 = 0 := by
        simp only [gt_iff_lt, Nat.not_lt, Nat.le_zero_eq] at hnot
        exact hnot
      unfold startClean
      simp only [hw]
      refine ⟨(by first | exact h.noPanic | rfl), ?_, ?_, ?_, ⟨l.erase t, hl1.erase t, ?_, hlen⟩, ?_, ?_, ?_, ?_⟩
      · intro hn; cases hn
      · intro c _
        refine ⟨t, by simp [PC.cleaning], ?_⟩
        intro t' ht'
        simp only [setPc_pc] at ht'
        split at ht'
        · assumption
        · rw [h.cleanNone hw t'] at ht'; cases ht'
      · intro _; exact hzero
      · intro x
        simp only [setPc_pc]
        rw [hl1.mem_erase_iff]
        by_cases e : x = t
        · simp [e]
        · simp [e, hl2 x]
      · intro c hc
        simp only [Option.some.injEq] at hc
        subst hc
        refine ⟨Nat.lt_succ_self _, ?_⟩
        intro hmem
        exact Nat.lt_irrefl _ (h.closedLt _ hmem)
      · intro c hc
        dsimp only [setPc_closed, setPc_gen] at hc ⊢
        by_cases e : c = s.gen
        · left; simp [e]
        · right
          have : c < s.gen := by omega
          rcases h.chanClosed c this with h1 | h1
          · rw [hw] at h1; cases h1
          · exact h1
      · intro c hc
        simp only [setPc_closed] at hc
        exact Nat.lt_succ_of_lt (h.closedLt c hc)
      · intro x c hx
        simp only [setPc_pc] at hx
        split at hx
        · cases hx
        · exact Nat.lt_succ_of_lt (h.waitChan x c hx)
  · cases hs

theorem inv_step {s s' : State} (h : Inv s) (op : Op) (hs : step s op = some s') : Inv s' := by
  cases op with
  | acquireEnter t =>
    unfold step at hs
    simp only [h.noPanic, Bool.false_eq_true, ↓reduceIte] at hs
    split at hs
    · rename_i hpc
      cases hs
      exact inv_acquireBody h t (by rw [hpc]; rfl) (by rw [hpc]; simp)
    · cases hs
  | wake t =>
    unfold step at hs
    simp only [h.noPanic, Bool.false_eq_true, ↓reduceIte] at hs
    split at hs
    · rename_i c hpc
      split at hs
      · cases hs
        exact inv_acquireBody h t (by rw [hpc]; rfl) (by rw [hpc]; simp)
      · cases hs
    · cases hs
  | cancel t =>
    unfold step at hs
    simp only [h.noPanic, Bool.false_eq_true, ↓reduceIte] at hs
    split at hs
    · rename_i c hpc
      cases hs
      exact inv_setPc_neutral h t .out (by rw [hpc]; rfl) (by rw [hpc]; simp) rfl (by simp)
        (by intro c' e; cases e)
    · cases hs
  | cleanDone t ok => exact inv_cleanDone h t ok hs
  | releaseEnter t => exact inv_releaseEnter h t hs

theorem inv_reachable {s : State} (h : Reachable s) : Inv s := by
  induction h with
  | init => exact inv_init
  | step op _ hs ih => exact inv_step ih op hs

/-- `run` (which skips disabled steps) only visits reachable states. -/
theorem reachable_run {s : State} (h : Reachable s) (ops : List Op) : Reachable (run s ops) := by
  induction ops generalizing s with
  | nil => exact h
  | cons op rest ih =>
    unfold run
    split
    · rename_i s' hs; exact ih (Reachable.step op h hs)
    · exact ih h


/-! ### ChainedCleaner -/

theorem chainedFrom_fst (err n : Nat) (outs : List Nat) :
    (chainedFrom err n outs).1 = if err = 0 then (outs.find? (· ≠ 0)).getD 0 else err := by
  induction outs generalizing err n with
  | nil => simp [chainedFrom]
  | cons o rest ih =>
    simp only [chainedFrom, ih]
    by_cases he : err = 0
    · by_cases ho : o = 0 <;> simp [he, ho]
    · simp [he]

theorem chainedFrom_fst_zero_iff (err n : Nat) (outs : List Nat) :
    (chainedFrom err n outs).1 = 0 ↔ err = 0 ∧ ∀ o, o ∈ outs → o = 0 := by
  induction outs generalizing err n with
  | nil => simp [chainedFrom]
  | cons o rest ih =>
    simp only [chainedFrom, ih, List.mem_cons]
    by_cases he : err = 0
    · simp [he]
    · simp [he]

theorem chainedFrom_snd (err n : Nat) (outs : List Nat) : (chainedFrom err n outs).2 = n + outs.length := by
  induction outs generalizing err n with
  | nil => simp [chainedFrom]
  | cons o rest ih => simp only [chainedFrom, ih, List.length_cons]; omega

end BbRe.Lemmas.Idle
