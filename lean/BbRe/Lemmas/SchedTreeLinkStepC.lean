import BbRe.Lemmas.SchedTreeLinkCore
/-!
Step lemmas of the tree layer: workers and size-class queues appearing and disappearing (first
`Synchronize` of a worker, `addSizeClassQueue`, `RegisterPredeclaredPlatformQueue`, `removeStaleWorker`,
`sizeClassQueue.remove`).
-/
namespace BbRe.Lemmas.SchedTree
open BbRe.Sched BbRe.SchedTree BbRe.Lemmas.SchedInv

variable {X : List (ScqId × List Nat)}

/-! ### list algebra for the worker extras -/

theorem wx_find?_append (l : List WX) (x : WX) (q : ScqId) (w : WId) :
    (l ++ [x]).find? (fun y => y.scq = q ∧ y.id = w) =
      match l.find? (fun y => y.scq = q ∧ y.id = w) with
      | some y => some y
      | none => if x.scq = q ∧ x.id = w then some x else none := by
  rw [List.find?_append]
  cases h : List.find? (fun y => decide (y.scq = q ∧ y.id = w)) l
  · by_cases hw : x.scq = q ∧ x.id = w <;> simp [hw]
  · simp

theorem wx_find?_filter_ne (l : List WX) (q : ScqId) (w : WId) (q' : ScqId) (w' : WId) :
    (l.filter (fun y => ¬ (y.scq = q' ∧ y.id = w'))).find? (fun y => y.scq = q ∧ y.id = w) =
      if q = q' ∧ w = w' then none else l.find? (fun y => y.scq = q ∧ y.id = w) := by
  induction l with
  | nil => simp
  | cons a l ih =>
    rw [List.filter_cons]
    by_cases h1 : a.scq = q' ∧ a.id = w'
    · simp only [h1, and_self, not_true_eq_false, decide_false, Bool.false_eq_true, if_false, ih, List.find?_cons]
      split
      · rfl
      · rename_i h2
        have : ¬ (q' = q ∧ w' = w) := fun h => h2 ⟨h.1.symm, h.2.symm⟩
        simp only [this, decide_false]
    · simp only [h1, not_false_eq_true, decide_true, if_true, List.find?_cons, ih]
      by_cases h3 : a.scq = q ∧ a.id = w
      · have : ¬ (q = q' ∧ w = w') := by intro h; apply h1; rw [h3.1, h3.2]; exact h
        simp [h3, this]
      · simp [h3]

/-- dropping the entries with key `(q, w)` after updating them is dropping them -/
theorem filter_setWX (l : List WX) (q : ScqId) (w : WId) (g : WX → WX) (hg : ∀ x, wxkey (g x) = wxkey x) :
    (setWX l q w g).filter (fun y => ¬ (y.scq = q ∧ y.id = w)) = l.filter (fun y => ¬ (y.scq = q ∧ y.id = w)) := by
  induction l with
  | nil => rfl
  | cons a t ih =>
    show List.filter _ ((if a.scq = q ∧ a.id = w then g a else a) :: setWX t q w g) = _
    rw [List.filter_cons, List.filter_cons, ih]
    by_cases ha : a.scq = q ∧ a.id = w
    · have hk := hg a
      simp only [wxkey, Prod.mk.injEq] at hk
      have hga : (g a).scq = q ∧ (g a).id = w := by rw [hk.1, hk.2]; exact ha
      simp [ha, hga]
    · simp [ha]

/-- with distinct keys, the entry found by `find?` is the only one the filter drops -/
theorem flatMap_filter_wx {β} (f : WX → List β) (q : ScqId) (w : WId) :
    ∀ (l : List WX), (l.map wxkey).Nodup → ∀ x0, l.find? (fun x => x.scq = q ∧ x.id = w) = some x0 →
      (l.flatMap f).Perm (f x0 ++ (l.filter (fun y => ¬ (y.scq = q ∧ y.id = w))).flatMap f) := by
  intro l
  induction l with
  | nil => intro _ x0 h; cases h
  | cons a t ih =>
    intro hnd x0 h
    simp only [List.map_cons, List.nodup_cons] at hnd
    rw [List.find?_cons] at h
    rw [List.filter_cons]
    by_cases ha : (a.scq = q ∧ a.id = w)
    · simp only [ha, and_self, decide_true] at h
      cases h
      have hrest : t.filter (fun y => ¬ (y.scq = q ∧ y.id = w)) = t := by
        rw [List.filter_eq_self]
        intro x hx
        have : ¬ (x.scq = q ∧ x.id = w) := by
          intro hk
          apply hnd.1
          rw [List.mem_map]; exact ⟨x, hx, by simp [wxkey, hk.1, hk.2, ha.1, ha.2]⟩
        simp [this]
      simp only [ha, and_self, not_true_eq_false, decide_false, Bool.false_eq_true, if_false, hrest,
        List.flatMap_cons]
      exact List.Perm.refl _
    · have ha' : decide (a.scq = q ∧ a.id = w) = false := by simpa using ha
      rw [ha'] at h
      simp only [ha, not_false_eq_true, decide_true, if_true, List.flatMap_cons]
      refine List.Perm.trans (List.Perm.append_left _ (ih hnd.2 x0 h)) ?_
      rw [← List.append_assoc, ← List.append_assoc]
      exact List.Perm.append_right _ List.perm_append_comm

/-- the parts of `Side` that a state with the same workers, operations and tasks keeps -/
theorem Side.oxok_of {ts : TState} (hS : Side ts) {s' : State}
    (hso : ∀ o op', s'.op? o = some op' → ∃ op, ts.s.op? o = some op ∧ op'.inv = op.inv ∧ op'.prio = op.prio) :
    ∀ o op, s'.op? o = some op → alookup o ts.ox = some ⟨op.inv, op.prio⟩ := by
  intro o op' h
  obtain ⟨op, e, hi, hp⟩ := hso o op' h
  rw [hS.oxok o op e, hi, hp]

theorem op?_of_ops {s s' : State} (h : s'.ops = s.ops) :
    ∀ o op', s'.op? o = some op' → ∃ op, s.op? o = some op ∧ op'.inv = op.inv ∧ op'.prio = op.prio := by
  intro o op' ho
  refine ⟨op', ?_, rfl, rfl⟩
  rw [op?_def] at ho ⊢
  rw [← h]; exact ho

/-! ### a new worker -/

/-- first Synchronize of a worker: `lastInvocation = &scq.rootInvocation`, `idleWorkersCount++` -/
theorem newWorker_ts {ex exo} {ts : TState} {q : ScqId} {w : WId} {wk : Worker} {s' : State}
    (hT : TInvX ex exo X ts) (hq : ∃ sq ∈ ts.s.scqs, sq.id = q) (hnone : wfind ts.s.workers q w = none)
    (hk : wk.scq = q ∧ wk.id = w ∧ wk.task = none ∧ wk.parked = false)
    (hsw : s'.workers = ts.s.workers ++ [wk]) (hst : s'.tasks = ts.s.tasks) (hsq : s'.scqs = ts.s.scqs)
    (hso : s'.ops = ts.s.ops) :
    TS X ((ts.addWorkerTree q w).setS s') := by
  have hS := hT.side
  obtain ⟨sq, hsqm, hsqid⟩ := hq
  have hroot : (node? ts.nodes q []).isSome = true := by rw [← hsqid]; exact hS.roots sq hsqm
  let x1 : WX := { scq := q, id := w, last := some [], sticks := List.replicate (ts.limitsOf q.pq).length 0 }
  let ts' : TState := (ts.addWorkerTree q w).setS s'
  show TS X ts'
  have hwx' : ts'.wx = ts.wx ++ [x1] := rfl
  have hnodes' : ts'.nodes = setLastN ts.nodes q [] := rfl
  have hnx : ts.wx.find? (fun y => y.scq = q ∧ y.id = w) = none := by
    have := hS.wxw q w
    rw [worker?_def, hnone, wx?_eq] at this
    cases hf : ts.wx.find? (fun y => y.scq = q ∧ y.id = w) with
    | none => rfl
    | some y => rw [hf] at this; cases this
  refine ⟨?_, ?_⟩
  · have h1 := (setLastN_ok hT.tree q [] hroot).exempt_more X (fun x hx => (mem_offPath.mp hx).1)
    have hE' : bagE ts' = bagE ts := by
      show s'.tasks.flatMap _ = ts.s.tasks.flatMap _
      rw [hst]; rfl
    have hQ' : bagQ ts' = bagQ ts := by
      show s'.tasks.flatMap _ = ts.s.tasks.flatMap _
      rw [hst]; rfl
    have hI' : bagI ts' = bagI ts ++ [(q, [])] := by
      rw [bagI_def, bagI_def, hwx', List.flatMap_append]; rfl
    have hP' : bagP ts' = bagP ts := by
      rw [bagP_def, bagP_def, hwx', List.flatMap_append]
      show _ ++ [] = _
      rw [List.append_nil]
    rw [hnodes', hE', hQ', hI', hP']
    exact h1.congr (List.Perm.refl _) (List.perm_append_comm (l₁ := [(q, [])])) (fun c => Iff.rfl) (fun c => Iff.rfl)
  · have hnodes := side_nodes hS (setLastN_nframe ts.nodes q []) (scqs' := ts.s.scqs) (by intro q hq; cases hq)
      (fun sq h => h) (fun sq h => Or.inl h)
    have hfw : ∀ q' w', (ts.wx? q' w').isSome = (wfind ts.s.workers q' w').isSome := by
      intro q' w'; have := hS.wxw q' w'; rw [worker?_def] at this; exact this
    refine ⟨?_, ?_, ?_, ?_, ?_, ?_, ?_⟩
    · show ∀ sq ∈ s'.scqs, _
      rw [hsq]; exact hnodes.1
    · show ∀ n ∈ setLastN ts.nodes q [], ∃ sq ∈ s'.scqs, _
      rw [hsq]; exact hnodes.2
    · rw [hwx', List.map_append, List.nodup_append]
      refine ⟨hS.wxnd, by simp, ?_⟩
      intro a ha b hb
      simp only [List.map_cons, List.map_nil, List.mem_singleton] at hb
      subst hb
      obtain ⟨y, hy, rfl⟩ := List.mem_map.mp ha
      intro e
      simp only [Prod.mk.injEq] at e
      have : (ts.wx.find? (fun y => y.scq = q ∧ y.id = w)).isSome = true := by
        rw [List.find?_isSome]; exact ⟨y, hy, by simpa [x1] using e⟩
      rw [hnx] at this; cases this
    · intro q' w'
      show (List.find? _ (ts.wx ++ [x1])).isSome = (wfind s'.workers q' w').isSome
      rw [wx_find?_append, hsw, wfind_append]
      have h0 := hfw q' w'
      rw [wx?_eq] at h0
      cases hf : ts.wx.find? (fun y => y.scq = q' ∧ y.id = w') with
      | some y =>
        rw [hf] at h0
        cases hg : wfind ts.s.workers q' w' with
        | none => rw [hg] at h0; cases h0
        | some wk0 => rfl
      | none =>
        rw [hf] at h0
        cases hg : wfind ts.s.workers q' w' with
        | some wk0 => rw [hg] at h0; cases h0
        | none =>
          show (if q = q' ∧ w = w' then some x1 else none).isSome = (if wk.scq = q' ∧ wk.id = w' then some wk else none).isSome
          rw [hk.1, hk.2.1]
          by_cases hc : q = q' ∧ w = w' <;> simp [hc]
    · intro q' w' wk1 x hwk hx
      change wfind s'.workers q' w' = some wk1 at hwk
      rw [hsw, wfind_append] at hwk
      change List.find? _ (ts.wx ++ [x1]) = some x at hx
      rw [wx_find?_append] at hx
      have h0 := hfw q' w'
      rw [wx?_eq] at h0
      cases hf : ts.wx.find? (fun y => y.scq = q' ∧ y.id = w') with
      | some y =>
        rw [hf] at h0
        cases hg : wfind ts.s.workers q' w' with
        | none => rw [hg] at h0; cases h0
        | some wk0 =>
          simp only [hf, Option.some.injEq] at hx
          simp only [hg, Option.some.injEq] at hwk
          subst hx; subst hwk
          exact hS.wpl q' w' wk0 y (by rw [worker?_def]; exact hg) hf
      | none =>
        rw [hf] at h0
        cases hg : wfind ts.s.workers q' w' with
        | some wk0 => rw [hg] at h0; cases h0
        | none =>
          simp only [hf] at hx
          simp only [hg] at hwk
          by_cases hc : q = q' ∧ w = w'
          · have hc2 : wk.scq = q' ∧ wk.id = w' := by rw [hk.1, hk.2.1]; exact hc
            have hc3 : x1.scq = q' ∧ x1.id = w' := hc
            simp only [hc2, and_self, if_true, Option.some.injEq] at hwk
            simp only [hc3, and_self, if_true, Option.some.injEq] at hx
            subst hx; subst hwk
            refine ⟨hk.2.2.2.symm, ?_⟩
            rw [hk.2.2.1]
            simp [x1]
          · have hc3 : ¬ (x1.scq = q' ∧ x1.id = w') := hc
            simp only [hc3, if_false] at hx
            cases hx
    · exact hS.oxok_of (op?_of_ops hso)
    · intro k t q' w' h1 h2
      exact hS.wq k t q' w' (hst ▸ h1) h2

/-! ### a new size-class queue -/

/-- `Side` for a state with the same workers, tasks and operations, given the two node clauses -/
theorem Side.of_nodes {ts ts' : TState} (hS : Side ts)
    (hroots : ∀ sq ∈ ts'.s.scqs, (node? ts'.nodes sq.id []).isSome = true)
    (hnscq : ∀ n ∈ ts'.nodes, ∃ sq ∈ ts'.s.scqs, sq.id = n.scq)
    (hwx : ts'.wx = ts.wx) (hox : ts'.ox = ts.ox)
    (hst : ts'.s.tasks = ts.s.tasks) (hsw : ts'.s.workers = ts.s.workers) (hso : ts'.s.ops = ts.s.ops) :
    Side ts' := by
  have hw : ∀ q w, ts'.s.worker? q w = ts.s.worker? q w := by
    intro q w; unfold State.worker?; rw [hsw]
  have hx : ∀ q w, ts'.wx? q w = ts.wx? q w := by
    intro q w; unfold TState.wx?; rw [hwx]
  refine ⟨hroots, hnscq, ?_, ?_, ?_, ?_, ?_⟩
  · rw [hwx]; exact hS.wxnd
  · intro q w; rw [hw, hx]; exact hS.wxw q w
  · intro q w wk x h1 h2
    rw [hw] at h1; rw [hx] at h2
    exact hS.wpl q w wk x h1 h2
  · rw [hox]; exact hS.oxok_of (op?_of_ops hso)
  · intro k t q w h1 h2
    exact hS.wq k t q w (hst ▸ h1) h2

/-- a new size-class queue with its root invocation -/
theorem newScq_ts {ex exo} {ts : TState} {q : ScqId} {sq0 : Scq} {s' : State}
    (hT : TInvX ex exo X ts) (hnone : ∀ sq ∈ ts.s.scqs, sq.id ≠ q) (hid : sq0.id = q)
    (hsq : s'.scqs = ts.s.scqs ++ [sq0]) (hst : s'.tasks = ts.s.tasks) (hsw : s'.workers = ts.s.workers)
    (hso : s'.ops = ts.s.ops) :
    TS X ((ts.addScqTree q).setS s') := by
  have hS := hT.side
  let ts' : TState := (ts.addScqTree q).setS s'
  show TS X ts'
  have hnodes' : ts'.nodes = ts.nodes ++ [mkNode q [] 0] := rfl
  have hnq : ∀ n ∈ ts.nodes, n.scq ≠ q := by
    intro n hn e
    obtain ⟨sq, h1, h2⟩ := hS.nscq n hn
    exact hnone sq h1 (h2.trans e)
  refine ⟨?_, ?_⟩
  · have h1 := addRoot_ok hT.tree q 0 hnq
    have hE' : bagE ts' = bagE ts := by
      show s'.tasks.flatMap _ = ts.s.tasks.flatMap _
      rw [hst]; rfl
    have hQ' : bagQ ts' = bagQ ts := by
      show s'.tasks.flatMap _ = ts.s.tasks.flatMap _
      rw [hst]; rfl
    have hI' : bagI ts' = bagI ts := rfl
    have hP' : bagP ts' = bagP ts := rfl
    rw [hnodes', hE', hQ', hI', hP']
    exact h1
  · refine hS.of_nodes ?_ ?_ rfl rfl hst hsw hso
    · show ∀ sq ∈ s'.scqs, (node? (ts.nodes ++ [mkNode q [] 0]) sq.id []).isSome = true
      rw [hsq]
      intro sq hm
      rcases List.mem_append.mp hm with h | h
      · exact node?_append_isSome _ (hS.roots sq h)
      · rw [List.mem_singleton.mp h, hid]; exact node?_append_self 0
    · show ∀ n ∈ ts.nodes ++ [mkNode q [] 0], ∃ sq ∈ s'.scqs, sq.id = n.scq
      rw [hsq]
      intro n hn
      rcases List.mem_append.mp hn with h | h
      · obtain ⟨sq, h1, h2⟩ := hS.nscq n h
        exact ⟨sq, List.mem_append_left _ h1, h2⟩
      · rw [List.mem_singleton.mp h]
        exact ⟨sq0, List.mem_append_right _ List.mem_cons_self, hid⟩

/-! ### `RegisterPredeclaredPlatformQueue` -/

/-- `RegisterPredeclaredPlatformQueue` -/
theorem register_ts {ex exo} {ts : TState} (hT : TInvX ex exo X ts) (x : Extras) (id : Nat) (comps : List Nat)
    (platform : Nat) (sizes : List Nat) (bgMax : Nat) (bgPrio : Int) (hok : registerOK ts id sizes = true) :
    TS X (tRegisterPQ x ts id comps platform sizes bgMax bgPrio) := by
  have hS := hT.side
  let ts' : TState := tRegisterPQ x ts id comps platform sizes bgMax bgPrio
  show TS X ts'
  unfold registerOK at hok
  rw [Bool.and_eq_true, List.all_eq_true, decide_eq_true_eq] at hok
  obtain ⟨hfresh, hnd⟩ := hok
  have hfresh' : ∀ sq ∈ ts.s.scqs, sq.id.pq ≠ id := by
    intro sq hm; simpa using hfresh sq hm
  let qs : List ScqId := sizes.map (fun sc => (⟨id, sc⟩ : ScqId))
  have hnodes' : ts'.nodes = ts.nodes ++ qs.map (fun q => mkNode q [] 0) := by
    show ts.nodes ++ sizes.map (fun sc => mkNode ⟨id, sc⟩ [] 0) = _
    rw [List.map_map]; rfl
  have hscqs' : ts'.s.scqs = ts.s.scqs ++ sizes.map (fun sc =>
      ({ id := ⟨id, sc⟩, mayBeRemoved := false, drains := [], undrainGen := 0 } : Scq)) := rfl
  have hqnd : qs.Nodup := by
    show (sizes.map _).Pairwise _
    rw [List.pairwise_map]
    refine List.Pairwise.imp ?_ hnd
    intro a b hab e
    exact hab (congrArg ScqId.sc e)
  have hnq : ∀ q ∈ qs, ∀ n ∈ ts.nodes, n.scq ≠ q := by
    intro q hq n hn e
    obtain ⟨sc, _, rfl⟩ := List.mem_map.mp hq
    obtain ⟨sq, h1, h2⟩ := hS.nscq n hn
    apply hfresh' sq h1
    rw [h2, e]
  refine ⟨?_, ?_⟩
  · have h1 := addRoots_ok hT.tree qs 0 hqnd hnq
    have hE' : bagE ts' = bagE ts := rfl
    have hQ' : bagQ ts' = bagQ ts := rfl
    have hI' : bagI ts' = bagI ts := rfl
    have hP' : bagP ts' = bagP ts := rfl
    rw [hnodes', hE', hQ', hI', hP']
    exact h1
  · refine hS.of_nodes ?_ ?_ rfl rfl rfl rfl rfl
    · rw [hscqs', hnodes']
      intro sq hm
      rcases List.mem_append.mp hm with h | h
      · exact node?_append_isSome _ (hS.roots sq h)
      · obtain ⟨sc, hsc, rfl⟩ := List.mem_map.mp h
        apply node?_isSome_iff.mpr
        refine ⟨mkNode ⟨id, sc⟩ [] 0, List.mem_append_right _ ?_, rfl, rfl⟩
        exact List.mem_map.mpr ⟨⟨id, sc⟩, List.mem_map.mpr ⟨sc, hsc, rfl⟩, rfl⟩
    · rw [hscqs', hnodes']
      intro n hn
      rcases List.mem_append.mp hn with h | h
      · obtain ⟨sq, h1, h2⟩ := hS.nscq n h
        exact ⟨sq, List.mem_append_left _ h1, h2⟩
      · obtain ⟨q, hq, rfl⟩ := List.mem_map.mp h
        obtain ⟨sc, hsc, rfl⟩ := List.mem_map.mp hq
        exact ⟨_, List.mem_append_right _ (List.mem_map.mpr ⟨sc, hsc, rfl⟩), rfl⟩

/-! ### a worker is dropped -/

theorem dropWorkerTree_wx (ts : TState) (q : ScqId) (w : WId) :
    (ts.dropWorkerTree q w).wx = ts.wx.filter (fun y => ¬ (y.scq = q ∧ y.id = w)) :=
  filter_setWX ts.wx q w (fun y => { y with last := none }) (fun _ => rfl)

theorem dropWorkerTree_nodes (ts : TState) (q : ScqId) (w : WId) :
    (ts.dropWorkerTree q w).nodes = (ts.clearLast q w).nodes := rfl

/-- `removeStaleWorker` after the worker's task was completed: `clearLastInvocation`, `delete(scq.workers, …)` -/
theorem dropWorker_ts {ex exo} {ts : TState} {q : ScqId} {w : WId} {wk : Worker} {s' : State}
    (hT : TInvX ex exo [] ts) (hw : wfind ts.s.workers q w = some wk) (hwt : wk.task = none) (hwp : wk.parked = false)
    (hsw : s'.workers = ts.s.workers.filter (fun y => ¬ (y.scq = q ∧ y.id = w))) (hst : s'.tasks = ts.s.tasks)
    (hsq : s'.scqs = ts.s.scqs)
    (hso : ∀ o op', s'.op? o = some op' → ∃ op, ts.s.op? o = some op ∧ op'.inv = op.inv ∧ op'.prio = op.prio) :
    TS [] ((ts.dropWorkerTree q w).setS s') := by
  have hS := hT.side
  obtain ⟨x0, hx0, hxq, hxi, hxp, hxl⟩ := hS.wx_of_worker hw
  have hlast : ∃ p, x0.last = some p := by
    cases hl : x0.last with
    | none => have := hxl.mp hl; rw [hwt] at this; cases this
    | some p => exact ⟨p, rfl⟩
  obtain ⟨p, hp⟩ := hlast
  have hlo : ts.lastOf q w = some p := by rw [lastOf_of_find hx0, hp]
  let ts' : TState := (ts.dropWorkerTree q w).setS s'
  show TS [] ts'
  have hwx' : ts'.wx = ts.wx.filter (fun y => ¬ (y.scq = q ∧ y.id = w)) := dropWorkerTree_wx ts q w
  have hnodes' : ts'.nodes = clearLastN ts.nodes q p := by
    show (ts.dropWorkerTree q w).nodes = _
    rw [dropWorkerTree_nodes, clearLast_nodes _ _ _ p hlo]
  refine ⟨?_, ?_⟩
  · have hE' : bagE ts' = bagE ts := by
      show s'.tasks.flatMap _ = ts.s.tasks.flatMap _
      rw [hst]; rfl
    have hQ' : bagQ ts' = bagQ ts := by
      show s'.tasks.flatMap _ = ts.s.tasks.flatMap _
      rw [hst]; rfl
    have hI' : ((bagI ts).erase (q, p)).Perm (bagI ts') := by
      have := flatMap_filter_wx conI q w ts.wx hS.wxnd x0 hx0
      have e2 : conI x0 = [(q, p)] := by unfold conI; rw [hp, hxq]
      rw [e2] at this
      rw [bagI_def, bagI_def, hwx']
      have h2 := this.erase (q, p)
      rw [List.singleton_append, List.erase_cons_head] at h2
      exact h2
    have hP' : (bagP ts).Perm (bagP ts') := by
      have := flatMap_filter_wx conP q w ts.wx hS.wxnd x0 hx0
      have e2 : conP x0 = [] := by unfold conP; simp [hxp, hwp]
      rw [e2, List.nil_append] at this
      rw [bagP_def, bagP_def, hwx']; exact this
    have hPI : ∀ c ∈ bagP ts, (c.1, c.2.1) ∈ (bagI ts).erase (q, p) := by
      intro c hc
      have h1 : c ∈ bagP ts' := hP'.mem_iff.mp hc
      rw [bagP_def] at h1
      have h2 := bagP_sub_bagI ts'.wx c h1
      rw [← bagI_def] at h2
      exact hI'.mem_iff.mpr h2
    have hI0 : (q, p) ∈ bagI ts := by
      rw [bagI_def]
      exact List.mem_flatMap.mpr ⟨x0, List.mem_of_find?_eq_some hx0, by unfold conI; rw [hp, hxq]; simp⟩
    have h := clearLastN_ok hT.tree q p hI0 (by intro x hx; cases hx) hPI
    rw [hnodes', hE', hQ']
    exact h.congr (List.Perm.refl _) hI' (fun c => Iff.rfl) (fun c => hP'.mem_iff)
  · have hnodes := side_nodes hS (clearLast_nframe ts q w) (scqs' := ts.s.scqs) (by intro q hq; cases hq)
      (fun sq h => h) (fun sq h => Or.inl h)
    have hfw : ∀ q' w', (ts.wx? q' w').isSome = (wfind ts.s.workers q' w').isSome := by
      intro q' w'; have := hS.wxw q' w'; rw [worker?_def] at this; exact this
    refine ⟨?_, ?_, ?_, ?_, ?_, ?_, ?_⟩
    · show ∀ sq ∈ s'.scqs, (node? (ts.clearLast q w).nodes sq.id []).isSome = true
      rw [hsq]; exact hnodes.1
    · show ∀ n ∈ (ts.clearLast q w).nodes, ∃ sq ∈ s'.scqs, _
      rw [hsq]; exact hnodes.2
    · rw [hwx']
      exact (List.filter_sublist.map _).nodup hS.wxnd
    · intro q' w'
      show (List.find? _ ts'.wx).isSome = (wfind s'.workers q' w').isSome
      rw [hwx', wx_find?_filter_ne, hsw, wfind_filter_ne]
      by_cases hc : q' = q ∧ w' = w
      · simp only [hc, and_self, if_true]; rfl
      · simp only [hc, if_false]
        have := hfw q' w'
        rw [wx?_eq] at this; exact this
    · intro q' w' wk1 x hwk hx
      change wfind s'.workers q' w' = some wk1 at hwk
      rw [hsw, wfind_filter_ne] at hwk
      change List.find? _ ts'.wx = some x at hx
      rw [hwx', wx_find?_filter_ne] at hx
      by_cases hc : q' = q ∧ w' = w
      · simp only [hc, and_self, if_true] at hwk
        cases hwk
      · simp only [hc, if_false] at hwk hx
        exact hS.wpl q' w' wk1 x (by rw [worker?_def]; exact hwk) hx
    · exact hS.oxok_of hso
    · intro k t q' w' h1 h2
      exact hS.wq k t q' w' (hst ▸ h1) h2

/-! ### a size-class queue is dropped -/

/-- `sizeClassQueue.remove` once nothing is recorded in the queue: its whole tree is dropped -/
theorem dropScq_ts {ex exo} {ts : TState} {q : ScqId} {s' : State}
    (hT : TInvX ex exo X ts) (hnw : ∀ wk ∈ ts.s.workers, wk.scq ≠ q)
    (hnt : ∀ k t, alookup k ts.s.tasks = some t → t.scq = q → t.worker = none ∧ t.queued = false)
    (hsq : s'.scqs = ts.s.scqs.filter (fun y => y.id ≠ q)) (hst : s'.tasks = ts.s.tasks)
    (hsw : s'.workers = ts.s.workers) (hso : s'.ops = ts.s.ops) :
    TS X ((ts.dropScqTree q).setS s') ∧ TS X (((ts.dropScqTree q).dropLimits q.pq).setS s') := by
  have hS := hT.side
  let ts' : TState := (ts.dropScqTree q).setS s'
  have hnodes' : ts'.nodes = ts.nodes.filter (fun n => n.scq ≠ q) := rfl
  have hmain : TS X ts' := by
    have hE : ∀ c ∈ bagE ts, c.1 ≠ q := by
      intro c hc e
      rw [bagE_def] at hc
      obtain ⟨kt, hkt, hcc⟩ := List.mem_flatMap.mp hc
      obtain ⟨k, t⟩ := kt
      have hl : alookup k ts.s.tasks = some t := alookup_of_mem hT.inv.core.tnd hkt
      simp only [] at hcc
      unfold conE at hcc
      cases hwk : t.worker with
      | none => rw [hwk] at hcc; cases hcc
      | some qw =>
        rw [hwk] at hcc
        obtain ⟨o, _, he⟩ := List.mem_map.mp hcc
        have h1 : t.scq = q := by rw [← e, ← he]
        have := (hnt k t hl h1).1
        rw [hwk] at this; cases this
    have hQ : ∀ c ∈ bagQ ts, c.1 ≠ q := by
      intro c hc e
      rw [bagQ_def] at hc
      obtain ⟨kt, hkt, hcc⟩ := List.mem_flatMap.mp hc
      obtain ⟨k, t⟩ := kt
      have hl : alookup k ts.s.tasks = some t := alookup_of_mem hT.inv.core.tnd hkt
      simp only [] at hcc
      unfold conQ at hcc
      split at hcc
      · rename_i hqd
        obtain ⟨o, _, he⟩ := List.mem_map.mp hcc
        have h1 : t.scq = q := by rw [← e, ← he]
        have := (hnt k t hl h1).2
        rw [hqd] at this; cases this
      · cases hcc
    have hI : ∀ c ∈ bagI ts, c.1 ≠ q := by
      intro c hc e
      rw [bagI_def] at hc
      obtain ⟨x, hx, hcx⟩ := List.mem_flatMap.mp hc
      have hcs : c.1 = x.scq := by
        unfold conI at hcx
        cases hl : x.last with
        | none => rw [hl] at hcx; cases hcx
        | some p' => rw [hl] at hcx; rw [List.mem_singleton.mp hcx]
      have h1 : (ts.wx? x.scq x.id).isSome = true := by
        rw [wx?_eq, List.find?_isSome]; exact ⟨x, hx, by simp⟩
      rw [hS.wxw, worker?_def] at h1
      cases hg : wfind ts.s.workers x.scq x.id with
      | none => rw [hg] at h1; cases h1
      | some wk =>
        apply hnw wk (wfind_mem hg)
        rw [(wfind_key hg).1, ← hcs, e]
    have hP : ∀ c ∈ bagP ts, c.1 ≠ q := by
      intro c hc
      rw [bagP_def] at hc
      have := bagP_sub_bagI ts.wx c hc
      rw [← bagI_def] at this
      exact hI _ this
    refine ⟨?_, ?_⟩
    · have h1 := dropScq_ok hT.tree q hE hI hQ hP
      have hE' : bagE ts' = bagE ts := by
        show s'.tasks.flatMap _ = ts.s.tasks.flatMap _
        rw [hst]; rfl
      have hQ' : bagQ ts' = bagQ ts := by
        show s'.tasks.flatMap _ = ts.s.tasks.flatMap _
        rw [hst]; rfl
      have hI' : bagI ts' = bagI ts := rfl
      have hP' : bagP ts' = bagP ts := rfl
      rw [hnodes', hE', hQ', hI', hP']
      exact h1
    · refine hS.of_nodes ?_ ?_ rfl rfl hst hsw hso
      · show ∀ sq ∈ s'.scqs, (node? (ts.nodes.filter (fun n => n.scq ≠ q)) sq.id []).isSome = true
        rw [hsq]
        intro sq hm
        obtain ⟨hm1, hm2⟩ := List.mem_filter.mp hm
        have hne : sq.id ≠ q := by simpa using hm2
        obtain ⟨n, hn, e1, e2⟩ := node?_isSome_iff.mp (hS.roots sq hm1)
        exact node?_isSome_iff.mpr ⟨n, List.mem_filter.mpr ⟨hn, by simpa [e1] using hne⟩, e1, e2⟩
      · show ∀ n ∈ ts.nodes.filter (fun n => n.scq ≠ q), ∃ sq ∈ s'.scqs, sq.id = n.scq
        rw [hsq]
        intro n hn
        obtain ⟨hn1, hn2⟩ := List.mem_filter.mp hn
        have hne : n.scq ≠ q := by simpa using hn2
        obtain ⟨sq, h1, h2⟩ := hS.nscq n hn1
        exact ⟨sq, List.mem_filter.mpr ⟨h1, by simpa [h2] using hne⟩, h2⟩
  exact ⟨hmain, TS.of_fields hmain rfl rfl rfl rfl⟩

end BbRe.Lemmas.SchedTree
