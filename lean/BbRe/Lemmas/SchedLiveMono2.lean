import BbRe.Lemmas.SchedLiveMono
/-!
`TStep` for the scheduler-internal helpers: `schedule`, `complete`, the cleanup
callbacks, `runCleanup`, `enter`.
-/
namespace BbRe.Lemmas.SchedLive
open BbRe.Sched

/-- what `schedule` does to the task it is given -/
inductive SchedLe (t : Task) : Task → Prop
  | queued : SchedLe t { t with queued := true }
  | handed (w : ScqId × WId) : t.worker = none → SchedLe t { t with worker := some w, retry := 0, queued := false }

/-- `schedule` rewrites exactly one task (under its own id) and nothing else of the task / operation maps. -/
theorem schedule_shape {h : Hints} {s s' : State} {tid : Nat} (hh : schedule h s tid = .ok s') :
    ∃ t t', s.task? tid = some t ∧ SchedLe t t' ∧ s'.tasks = aset t.id t' s.tasks ∧ s'.ops = s.ops ∧
      s'.nextTask = s.nextTask ∧ s'.nextOp = s.nextOp := by
  obtain ⟨t, h0, ⟨_, rfl⟩ | ⟨_, w, w1, _, _, _, _, htw, rfl⟩⟩ := schedule_ok hh
  · exact ⟨t, _, h0, .queued, rfl, rfl, rfl, rfl⟩
  · exact ⟨t, _, h0, .handed (w1.scq, w1.id) htw, rfl, rfl, rfl, rfl⟩

/-- a fresh task and operation followed by `schedule` of that task -/
theorem tstep_new_then_schedule {allow : Prop} {h : Hints} {s s1 s' : State} {tn : Task} {on : Op}
    (hid : tn.id = s.nextTask) (hon : on.name = s.nextOp) (hot : on.task = s.nextTask)
    (h1t : s1.tasks = aset s.nextTask tn s.tasks) (h1o : s1.ops = aset s.nextOp on s.ops)
    (h1nt : s1.nextTask = s.nextTask + 1) (h1no : s1.nextOp = s.nextOp + 1)
    (hh : schedule h s1 s.nextTask = .ok s')
    (hmew : on.mayExistWithoutWaiters = true → tn.background = true := by
      simp [bgOp, bgTask, newOp, newTask]) : TStep allow s s' := by
  obtain ⟨t, t', h0, hle, e1, e2, e3, e4⟩ := schedule_shape hh
  have ht : t = tn := by simpa [State.task?, h1t] using h0.symm
  subst ht
  have hid' : t'.id = s.nextTask := by cases hle <;> exact hid
  apply TStep.intro; intro hk
  refine ⟨?_, ?_, by omega, by omega, ?_, ?_⟩
  · rw [e1, h1t]; exact nodup_akeys_aset _ _ _ (nodup_akeys_aset _ _ _ hk.tnodup)
  · rw [e2, h1o]; exact nodup_akeys_aset _ _ _ hk.onodup
  · intro k tk e
    simp only [State.task?, e1, h1t, alookup_aset, hid] at e
    by_cases hkk : s.nextTask = k
    · simp only [hkk, if_true] at e; injection e with e; subst e
      exact .inr ⟨by omega, by omega, hkk ▸ hid'⟩
    · simp only [hkk, if_false] at e; exact .inl ⟨tk, e, TaskLe.refl _ _⟩
  · intro k ok e
    simp only [State.op?, e2, h1o, alookup_aset] at e
    by_cases hkk : s.nextOp = k
    · simp only [hkk, if_true] at e; injection e with e; subst e
      refine .inr ⟨by omega, by omega, hkk ▸ hon, by omega, ?_⟩
      intro hm tk' htk'
      simp only [State.task?, e1, h1t, alookup_aset, hid, hot, if_true, Option.some.injEq] at htk'
      subst htk'
      cases hle <;> exact hmew hm
    · simp only [hkk, if_false] at e; exact .inl ⟨ok, e, rfl, rfl, id⟩

theorem succS_tstep (allow : Prop) {s : State} {t : Task} {tid : Nat} (ev : Event) (r : Resp)
    (h0 : s.task? tid = some t) (hr : t.response = none) :
    TStep allow s (succS (detachW s t) (detachT t) ev r) := by
  intro hk
  have hid := (hk.tid tid t h0).1
  -- first the task update, then the flag clearing of `finishOps`
  let m : State := (dropDedup (emit (detachW s t) ev) { detachT t with learner := none }).setTask
      (bumpGen { detachT t with learner := none, response := some r })
  have e1 : succS (detachW s t) (detachT t) ev r = complete.finishOps m (detachT t).ops := rfl
  have s1 : TStep allow s m := by
    refine TStep.of_task (t0 := t) (by rw [hid]; exact h0) (taskLe_final allow r hr none) ?_ (by simp [m]) (by simp [m]) (by simp [m])
    simp [m, bumpGen]
  obtain ⟨km, rm⟩ := s1 hk
  have s2 : TStep allow m (complete.finishOps m (detachT t).ops) :=
    TStep.of_opsSame (by simp) (finishOps_opsSame _ m (fun k op e => (km.oname k op e).1)) (by simp) (by simp)
  rw [e1]
  exact TStep.trans (fun _ => ⟨km, rm⟩) s2 hk

theorem completeSucc_tstep (allow : Prop) {h : Hints} {s s' : State} {t : Task} {tid l : Nat} {r : Resp}
    (h0 : s.task? tid = some t) (hr : t.response = none)
    (hh : completeSucc h (detachW s t) (detachT t) l r = .ok s') : TStep allow s s' := by
  obtain ⟨ev, _, rfl | ⟨ev', _, rfl⟩ | ⟨bq, pq, h2, _⟩⟩ := completeSucc_ok hh
  · exact succS_tstep allow ev r h0 hr
  · exact (succS_tstep allow ev r h0 hr).trans (TStep.of_same rfl rfl rfl rfl)
  · refine (succS_tstep allow ev r h0 hr).trans ?_
    refine ((TStep.of_same (s := succS (detachW s t) (detachT t) ev r) (s' := bumpLearner (succS (detachW s t) (detachT t) ev r)) rfl rfl rfl rfl).trans ?_)
    exact tstep_new_then_schedule (s := bumpLearner (succS (detachW s t) (detachT t) ev r)) (tn := bgTask _ _ bq _) (on := bgOp _ pq) rfl rfl rfl rfl rfl rfl rfl h2

theorem completeRetry_tstep {h : Hints} {s s' : State} {t : Task} {tid l : Nat} {r : Resp}
    (h0 : s.task? tid = some t) (hr : t.response = none)
    (hh : completeRetry h (detachW s t) (detachT t) l r = .ok s') : TStep True s s' := by
  obtain ⟨s2, t2, h2, h3, rfl⟩ := completeRetry_ok hh
  obtain ⟨t1, t1', h4, hle, e1, e2, e3, e4⟩ := schedule_shape h2
  intro hk
  have hid := (hk.tid tid t h0).1
  have ht1 : t1 = retryT (detachW s t) (detachT t) l r := by
    simpa [State.task?, retryT] using h4.symm
  have ht1id : t1.id = t.id := by rw [ht1]; simp [retryT]
  have ht2 : t2 = t1' := by
    simp only [State.task?, e1, ht1id, detachT_id, alookup_aset, if_true] at h3
    injection h3 with h3; exact h3.symm
  subst ht2
  have hid2 : t2.id = t.id := by cases hle <;> exact ht1id
  have hgen : t2.gen = (detachT t).gen := by cases hle <;> (rw [ht1]; rfl)
  have hresp : t2.response = none := by cases hle <;> (rw [ht1]; simp [retryT, hr])
  have hpq : t2.scq.pq = t.scq.pq := by
    have : t1.scq.pq = t.scq.pq := by
      rw [ht1]; simp only [retryT, largestScq]; split <;> simp
    cases hle <;> exact this
  have hdg : t2.digest = t.digest ∧ t2.dkey = t.dkey := by cases hle <;> (rw [ht1]; simp [retryT])
  have hbg : t2.background = t.background := by cases hle <;> (rw [ht1]; simp [retryT])
  have := detachT_gen_ge t
  refine TStep.of_task' (k0 := t.id) (t0 := t) (t2 := bumpGen t2) (by rw [hid]; exact h0)
    ⟨by simp [bumpGen, hid2], by simp [bumpGen, hgen]; omega, by simp [bumpGen, hpq], by simp [bumpGen, hdg.1],
     by simp [bumpGen, hdg.2], by simp [hr], by intro _; simp [bumpGen, hgen]; omega, fun _ => trivial,
     by simp [bumpGen, hbg]⟩
    ?_ ?_ (by simp [e2]) (by simp [e3]) (by simp [e4]) hk
  · intro k
    simp only [State.task?, setTask_tasks, e1, alookup_aset, bumpGen, hid2, ht1id, retryS_tasks, detachW_tasks]
    by_cases hkk : t.id = k <;> simp [hkk, retryT]
  · intro hn
    simp only [setTask_tasks, e1, retryS_tasks, detachW_tasks]
    exact nodup_akeys_aset _ _ _ (nodup_akeys_aset _ _ _ (nodup_akeys_aset _ _ _ hn))

/-- the retry branch is the only place where `allow` is needed -/
def retryAllowed (h : Hints) (r : Resp) (bw : Bool) : Prop := bw = true ∧ h.retry = true ∧ ¬ isSucc r

theorem complete_tstep {h : Hints} {s s' : State} {tid : Nat} {r : Resp} {bw : Bool}
    (hh : complete h s tid r bw = .ok s') : TStep (retryAllowed h r bw) s s' := by
  obtain ⟨t, h0, ⟨_, rfl⟩ | ⟨hr, l, _, h1 | h1 | h1⟩⟩ := complete_ok hh
  · exact TStep.refl _ _
  · exact completeSucc_tstep _ h0 hr h1.2
  · obtain ⟨h2, h3, h4, h5⟩ := h1
    exact (completeRetry_tstep h0 hr h5).mono (fun _ => ⟨h3, h4, h2⟩)
  · obtain ⟨_, _, ev, _, rfl⟩ := h1
    exact succS_tstep _ ev r h0 hr

/-- `complete` called by the scheduler itself (not by the worker) never needs `allow` -/
theorem complete_tstep_false {allow : Prop} {h : Hints} {s s' : State} {tid : Nat} {r : Resp}
    (hh : complete h s tid r false = .ok s') : TStep allow s s' :=
  (complete_tstep hh).mono (fun ⟨h, _⟩ => by cases h)

/-! ### cleanup callbacks -/

theorem eraseOp_tstep (allow : Prop) (s : State) (o : Nat) : TStep allow s (eraseOp s o) := by
  apply TStep.intro; intro hk
  refine ⟨hk.tnodup, nodup_akeys_aerase _ _ hk.onodup, Nat.le_refl _, Nat.le_refl _, ?_, ?_⟩
  · intro k t' e; exact .inl ⟨t', e, TaskLe.refl _ _⟩
  · intro k o' e
    simp only [State.op?, eraseOp_ops, alookup_aerase _ _ _ hk.onodup] at e
    split at e
    · cases e
    · exact .inl ⟨o', e, rfl, rfl, id⟩

theorem dropOpT_tstep (allow : Prop) {s : State} {t : Task} {k0 : Nat} (o : Nat) (h0 : s.task? k0 = some t) :
    TStep allow s (dropOpT s t o) := by
  intro hk
  have hid := (hk.tid k0 t h0).1
  unfold dropOpT
  split
  · refine TStep.intro (fun hk => ⟨nodup_akeys_aerase _ _ hk.tnodup, hk.onodup, Nat.le_refl _, Nat.le_refl _, ?_, ?_⟩) hk
    · intro k t' e
      simp only [State.task?, alookup_aerase _ _ _ hk.tnodup] at e
      split at e
      · cases e
      · exact .inl ⟨t', e, TaskLe.refl _ _⟩
    · intro k o' e; exact .inl ⟨o', e, rfl, rfl, id⟩
  · exact TStep.of_task (t0 := t) (t2 := { t with ops := t.ops.filter (· ≠ o) }) (by rw [hid]; exact h0)
      ⟨rfl, Nat.le_refl _, rfl, rfl, rfl, fun _ h => h, by simp, by simp [Task.stage], rfl⟩ rfl rfl rfl rfl hk

theorem removeOp_tstep {allow : Prop} {h : Hints} {s s' : State} {o : Nat} (hh : removeOp h s o = .ok s') :
    TStep allow s s' := by
  rcases removeOp_ok hh with ⟨_, rfl⟩ | ⟨op, t, s1, t1, _, _, h1, h2, rfl⟩
  · exact TStep.refl _ _
  · have : TStep allow s s1 := by
      rcases h1 with ⟨_, h1⟩ | ⟨_, rfl⟩
      · exact (eraseOp_tstep allow s o).trans (complete_tstep_false h1)
      · exact eraseOp_tstep allow s o
    exact this.trans (dropOpT_tstep allow o h2)

theorem cancelAllQueued_tstep {allow : Prop} {h : Hints} {s s' : State} {q : ScqId} {r : Resp}
    (hh : cancelAllQueued h s q r = .ok s') : TStep allow s s' :=
  cancelAllQueued_rel (TStep allow) (TStep.refl allow) (fun _ _ _ => TStep.trans)
    (fun _ _ _ => complete_tstep_false) hh

theorem removeScq_tstep {allow : Prop} {h : Hints} {s s' : State} {q : ScqId} (hh : removeScq h s q = .ok s') :
    TStep allow s s' := by
  obtain ⟨s1, h1, rfl⟩ := removeScq_ok hh
  exact (cancelAllQueued_tstep h1).trans (TStep.of_same (by simp) (by simp) (by simp) (by simp))

theorem removeStaleWorker_tstep {allow : Prop} {h : Hints} {s s' : State} {q : ScqId} {w : WId} {rt : Nat}
    (hh : removeStaleWorker h s q w rt = .ok s') : TStep allow s s' := by
  rcases removeStaleWorker_ok hh with ⟨_, rfl⟩ | ⟨wk, s1, _, h1, rfl⟩
  · exact TStep.refl _ _
  · have : TStep allow s s1 := by
      rcases h1 with ⟨t, _, h1⟩ | ⟨_, rfl⟩
      · exact complete_tstep_false h1
      · exact TStep.refl _ _
    exact this.trans (TStep.of_same (by simp) (by simp) (by simp) (by simp))

theorem callback_tstep {allow : Prop} {h : Hints} {s s' : State} {e : CleanupEntry}
    (hh : callback h s e = .ok s') : TStep allow s s' := by
  unfold callback at hh
  split at hh
  · exact removeStaleWorker_tstep hh
  · exact removeOp_tstep hh
  · exact removeScq_tstep hh

theorem runCleanup_tstep {allow : Prop} {h : Hints} {f : Nat} {s s' : State}
    (hh : runCleanup h f s = .ok s') : TStep allow s s' :=
  runCleanup_rel (TStep allow) (TStep.refl allow) (fun _ _ _ => TStep.trans)
    (fun _ _ _ _ => TStep.of_same rfl rfl rfl rfl) (fun _ _ _ => callback_tstep) f s s' hh

theorem enter_tstep {allow : Prop} {h : Hints} {s s' : State} {t : Nat} (hh : enter h s t = .ok s') :
    TStep allow s s' := by
  rcases enter_ok hh with ⟨_, rfl⟩ | ⟨_, h1⟩
  · exact TStep.refl _ _
  · exact (TStep.of_same (s := s) (s' := setNow s t) rfl rfl rfl rfl).trans (runCleanup_tstep h1)

end BbRe.Lemmas.SchedLive
