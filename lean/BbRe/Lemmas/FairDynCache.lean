import BbRe.Lemmas.FairDynTree
/-!
`cached_priority`: what `invocation.firstQueuedOperationPriority` is, in every state the update
functions of the dynamic C04 model can reach.
-/
namespace BbRe.Lemmas.Fair
open BbRe.Fair BbRe.GoHeap BbRe.Lemmas.GoHeap

/-- What `updateFirstOperationPriority` stores: the priority of `queuedOperations[0]`, else the
cached priority of `queuedChildren[0]`, else (nothing queued) the old value. -/
def firstPrio (c : Inv) : Int :=
  match c.ops with
  | o :: _ => o.prio
  | [] =>
    match c.queued with
    | b :: _ => (kidOr c.kids b).prio
    | [] => c.prio

theorem updateFirst_prio (c : Inv) : (updateFirstOperationPriority c).prio = firstPrio c := by
  unfold updateFirstOperationPriority firstPrio
  cases c.ops with
  | cons o _ => simp
  | nil =>
    cases c.queued with
    | cons b _ => simp
    | nil => rfl

theorem firstPrio_congr (c d : Inv) (ho : d.ops = c.ops) (hq : d.queued = c.queued) (hk : d.kids = c.kids)
    (hp : d.prio = c.prio) : firstPrio d = firstPrio c := by
  unfold firstPrio; rw [ho, hq, hk, hp]

theorem firstPrio_updateFirst (c : Inv) : firstPrio (updateFirstOperationPriority c) = firstPrio c := by
  obtain ⟨_, fkids, fq, fo, _⟩ := updateFirst_fields c
  have hp := updateFirst_prio c
  unfold firstPrio at hp ⊢
  rw [fo, fq, fkids, hp]
  cases c.ops with
  | cons _ _ => rfl
  | nil =>
    cases c.queued with
    | cons _ _ => rfl
    | nil => rfl

/-! ### exact caches: preserved by enqueue / dequeue, and they predict the walk -/

/-- Every invocation below the root caches exactly what `updateFirstOperationPriority` would
store now. -/
inductive ExactTree : Inv → Prop
  | mk (t : Inv) (hp : ∀ c ∈ t.kids, c.prio = firstPrio c) (hk : ∀ c ∈ t.kids, ExactTree c) : ExactTree t

theorem exactTree_iff (t : Inv) : ExactTree t ↔ ∀ c ∈ t.kids, c.prio = firstPrio c ∧ ExactTree c :=
  ⟨fun h => by cases h with | mk _ hp hk => exact fun c hc => ⟨hp c hc, hk c hc⟩,
   fun h => ExactTree.mk t (fun c hc => (h c hc).1) (fun c hc => (h c hc).2)⟩

theorem exactTree_congr (t u : Inv) (hk : u.kids = t.kids) (h : ExactTree t) : ExactTree u := by
  rw [exactTree_iff] at h ⊢; rw [hk]; exact h

/-- A walk that refreshes the cache of every invocation it passes (bottom-up, after the
invocation's own heaps were updated) keeps all caches exact. -/
theorem exact_refreshing (leaf : Inv → Inv) (up : Inv → Inv → Inv)
    (hleaf : ∀ i, (leaf i).kids = i.kids)
    (hup : ∀ P c', (up P c').kids = replaceKid P.kids (updateFirstOperationPriority c')) :
    ∀ (path : List Nat) (t : Inv), ExactTree t → ExactTree (updatePath leaf up path t) := by
  intro path
  induction path with
  | nil => intro t ht; exact exactTree_congr t _ (hleaf t) ht
  | cons k p ih =>
    intro t ht
    cases hck : t.child k with
    | none =>
      have : updatePath leaf up (k :: p) t = t := by simp only [updatePath, hck]
      rw [this]; exact ht
    | some c =>
      obtain ⟨hcmem, _⟩ := mem_of_child t k c hck
      have hc' := ih c (((exactTree_iff t).mp ht) c hcmem).2
      rw [updatePath_cons _ _ k p t c hck]
      generalize updatePath leaf up p c = c' at hc'
      rw [exactTree_iff, hup]
      intro d hd
      rcases (mem_replaceKid _ _ _).mp hd with ⟨rfl, _⟩ | ⟨hd', _⟩
      · exact ⟨by rw [updateFirst_prio, firstPrio_updateFirst],
          exactTree_congr c' _ (updateFirst_fields c').2.1 hc'⟩
      · exact ((exactTree_iff t).mp ht) d hd'

theorem exact_enqueue (o : Op) (path : List Nat) (t : Inv) (h : ExactTree t) : ExactTree (enqueue path o t) :=
  exact_refreshing _ _ (by simp) (by intro P c'; simp [upEnqueue, storeKid]) path t h

theorem exact_removeQueued (idx : Nat) (path : List Nat) (t : Inv) (h : ExactTree t) :
    ExactTree (removeQueued path idx t) :=
  exact_refreshing _ _ (by simp) (by
    intro P c'; unfold upRemove; simp only []; split <;> simp [storeKid]) path t h

/-- With exact caches, the cached priority of an invocation is the priority of the operation a
walk without stickiness selects below it. -/
theorem exact_walk (win : Nat → Bool) (nlim : Nat) : ∀ (fuel : Nat) (c : Inv) (lvl : Nat) (o : Op) (r : Nat),
    ExactTree c → pickAux win nlim fuel c [] lvl = some (o, r) → o.prio = firstPrio c := by
  intro fuel
  induction fuel with
  | zero => intro c lvl o r _ h; cases h
  | succ f ih =>
    intro c lvl o r hc h
    unfold pickAux at h
    unfold firstPrio
    cases hops : c.ops with
    | cons o' rest =>
      rw [hops] at h
      simp only [Option.some.injEq, Prod.mk.injEq] at h
      rw [← h.1]
    | nil =>
      rw [hops] at h
      simp only [] at h
      unfold chooseChild at h
      cases hq : c.queued with
      | nil => rw [hq] at h; cases h
      | cons b qs =>
        rw [hq] at h
        simp only [] at h
        cases hb : c.child b with
        | none => rw [hb] at h; cases h
        | some bb =>
          rw [hb] at h
          simp only [] at h
          have hbm := (mem_of_child c b bb hb).1
          obtain ⟨hbp, hbe⟩ := ((exactTree_iff c).mp hc) bb hbm
          have := ih bb lvl o r hbe h
          rw [this, ← hbp]
          show bb.prio = (kidOr c.kids b).prio
          rw [kidOr_of_child c b bb hb]

/-! ### the invariant that survives executing-count changes -/

/-- The cache of one invocation: exact when it has directly queued operations; otherwise it is
the cached priority of one of its queued children (exact when there is only one). -/
def cacheNode (c : Inv) : Prop :=
  match c.ops with
  | o :: _ => c.prio = o.prio
  | [] => c.queued = [] ∨ ∃ g ∈ c.kids, g.key ∈ c.queued ∧ g.prio = c.prio

inductive CacheTree : Inv → Prop
  | mk (t : Inv) (hn : ∀ c ∈ t.kids, cacheNode c) (hk : ∀ c ∈ t.kids, CacheTree c) : CacheTree t

theorem cacheTree_iff (t : Inv) : CacheTree t ↔ ∀ c ∈ t.kids, cacheNode c ∧ CacheTree c :=
  ⟨fun h => by cases h with | mk _ hn hk => exact fun c hc => ⟨hn c hc, hk c hc⟩,
   fun h => CacheTree.mk t (fun c hc => (h c hc).1) (fun c hc => (h c hc).2)⟩

theorem cacheTree_congr (t u : Inv) (hk : u.kids = t.kids) (h : CacheTree t) : CacheTree u := by
  rw [cacheTree_iff] at h ⊢; rw [hk]; exact h

theorem cacheNode_updateFirst (c : Inv) (hres : ∀ k ∈ c.queued, ∃ g ∈ c.kids, g.key = k) :
    cacheNode (updateFirstOperationPriority c) := by
  obtain ⟨_, fkids, fq, fo, _⟩ := updateFirst_fields c
  have hp := updateFirst_prio c
  unfold cacheNode
  unfold firstPrio at hp
  rw [fo, fq, fkids]
  cases hops : c.ops with
  | cons o _ => rw [hops] at hp; exact hp
  | nil =>
    rw [hops] at hp
    cases hq : c.queued with
    | nil => exact Or.inl rfl
    | cons b qs =>
      rw [hq] at hp
      right
      obtain ⟨g, hg, hgk⟩ := hres b (by rw [hq]; exact List.mem_cons_self)
      have hfind : kidOr c.kids b ∈ c.kids ∧ (kidOr c.kids b).key = b := by
        unfold kidOr
        cases hf : c.kids.find? (fun x => x.key == b) with
        | none =>
          have := List.find?_eq_none.mp hf g hg
          simp [hgk] at this
        | some d =>
          exact ⟨List.mem_of_find?_eq_some hf, by simpa using List.find?_some hf⟩
      exact ⟨kidOr c.kids b, hfind.1, by rw [hfind.2]; exact List.mem_cons_self, hp.symm⟩

/-- Refreshing walks (`enqueue`, `removeQueuedFromInvocation`). -/
theorem cache_refreshing (leaf : Inv → Inv) (up : Inv → Inv → Inv) (cond : List Nat → Inv → Prop)
    (hleaf : ∀ i, (leaf i).kids = i.kids)
    (hup : ∀ P c', (up P c').kids = replaceKid P.kids (updateFirstOperationPriority c'))
    (hcond : ∀ k p t c, cond (k :: p) t → t.child k = some c → cond p c)
    (hheap : ∀ p c, HeapTree c → cond p c → HeapTree (updatePath leaf up p c)) :
    ∀ (path : List Nat) (t : Inv), HeapTree t → cond path t → CacheTree t → CacheTree (updatePath leaf up path t) := by
  intro path
  induction path with
  | nil => intro t _ _ h; exact cacheTree_congr t _ (hleaf t) h
  | cons k p ih =>
    intro t ht hc h
    cases hck : t.child k with
    | none =>
      have : updatePath leaf up (k :: p) t = t := by simp only [updatePath, hck]
      rw [this]; exact h
    | some c =>
      obtain ⟨hcmem, _⟩ := mem_of_child t k c hck
      have hct : HeapTree c := ((heapTree_iff t).mp ht).2 c hcmem
      have hcc := hcond k p t c hc hck
      have hc' := ih c hct hcc (((cacheTree_iff t).mp h) c hcmem).2
      have hc't := hheap p c hct hcc
      rw [updatePath_cons _ _ k p t c hck]
      generalize updatePath leaf up p c = c' at hc' hc't
      rw [cacheTree_iff, hup]
      intro d hd
      rcases (mem_replaceKid _ _ _).mp hd with ⟨rfl, _⟩ | ⟨hd', _⟩
      · refine ⟨cacheNode_updateFirst c' ?_, cacheTree_congr c' _ (updateFirst_fields c').2.1 hc'⟩
        intro x hx
        obtain ⟨g, hg, hgk, _⟩ := ((heapTree_iff c').mp hc't).1.qsub x hx
        exact ⟨g, hg, hgk⟩
      · exact ((cacheTree_iff t).mp h) d hd'

theorem cache_enqueue (o : Op) (path : List Nat) (t : Inv) (ht : HeapTree t)
    (hv : (nodeAt t path).isSome = true) (h : CacheTree t) : CacheTree (enqueue path o t) :=
  cache_refreshing _ upEnqueue (fun p c => (nodeAt c p).isSome = true) (by simp)
    (by intro P c'; simp [upEnqueue, storeKid])
    (by
      intro k p t c hc hck
      simpa [nodeAt, hck] using hc)
    (fun p c hc hv => (enqueue_spec o p c hc hv).1) path t ht hv h

theorem cache_removeQueued (idx : Nat) (path : List Nat) (t n : Inv) (ht : HeapTree t)
    (hn : nodeAt t path = some n) (hidx : idx < n.ops.length) (h : CacheTree t) :
    CacheTree (removeQueued path idx t) :=
  cache_refreshing _ upRemove (fun p c => nodeAt c p = some n) (by simp)
    (by intro P c'; unfold upRemove; simp only []; split <;> simp [storeKid])
    (by
      intro k p t c hc hck
      simpa [nodeAt, hck] using hc)
    (fun p c hc hv => (removeQueued_spec idx p c n hc hv hidx).1) path t ht hn h

/-- Walks that neither enqueue nor dequeue (executing-count changes, parking): the caches are
not refreshed although `queuedChildren` may be reordered; every cache still is the cached
priority of one of the queued children. -/
theorem cache_stable (leaf : Inv → Inv) (up : Inv → Inv → Inv)
    (hl : ∀ i, (leaf i).key = i.key ∧ (leaf i).ops = i.ops ∧ (leaf i).queued = i.queued ∧
      (leaf i).kids = i.kids ∧ (leaf i).prio = i.prio)
    (hu : ∀ P c', (up P c').key = P.key ∧ (up P c').ops = P.ops ∧
      (∀ x, x ∈ (up P c').queued ↔ x ∈ P.queued) ∧ (up P c').kids = replaceKid P.kids c' ∧ (up P c').prio = P.prio) :
    ∀ (path : List Nat) (t : Inv), HeapTree t → CacheTree t →
      CacheTree (updatePath leaf up path t) ∧ (cacheNode t → cacheNode (updatePath leaf up path t)) ∧
      (updatePath leaf up path t).prio = t.prio ∧ (updatePath leaf up path t).key = t.key := by
  intro path
  induction path with
  | nil =>
    intro t _ h
    obtain ⟨h1, h2, h3, h4, h5⟩ := hl t
    refine ⟨cacheTree_congr t _ h4 h, ?_, h5, h1⟩
    intro hn
    show cacheNode (leaf t)
    unfold cacheNode at hn ⊢
    rw [h2, h3, h4, h5]; exact hn
  | cons k p ih =>
    intro t hnd h
    cases hck : t.child k with
    | none =>
      have : updatePath leaf up (k :: p) t = t := by simp only [updatePath, hck]
      rw [this]; exact ⟨h, id, rfl, rfl⟩
    | some c =>
      obtain ⟨hcmem, _⟩ := mem_of_child t k c hck
      have hcall := ((cacheTree_iff t).mp h) c hcmem
      have hq := (heapTree_iff t).mp hnd
      obtain ⟨i1, i2, i3, i4⟩ := ih c (hq.2 c hcmem) hcall.2
      rw [updatePath_cons _ _ k p t c hck]
      generalize updatePath leaf up p c = c' at i1 i2 i3 i4
      obtain ⟨u1, u2, u3, u4, u5⟩ := hu t c'
      refine ⟨?_, ?_, u5, u1⟩
      · rw [cacheTree_iff, u4]
        intro d hd
        rcases (mem_replaceKid _ _ _).mp hd with ⟨rfl, _⟩ | ⟨hd', _⟩
        · exact ⟨i2 hcall.1, i1⟩
        · exact ((cacheTree_iff t).mp h) d hd'
      · intro hn
        unfold cacheNode at hn ⊢
        rw [u2, u5]
        cases hops : t.ops with
        | cons o _ => rw [hops] at hn; exact hn
        | nil =>
          rw [hops] at hn
          simp only [] at hn ⊢
          rcases hn with hnil | ⟨g0, hg0, hg0q, hg0p⟩
          · left
            cases hNq : (up t c').queued with
            | nil => rfl
            | cons x _ =>
              have : x ∈ t.queued := (u3 x).mp (by rw [hNq]; exact List.mem_cons_self)
              rw [hnil] at this; cases this
          · right
            by_cases hgk : g0.key = c.key
            · have : g0 = c := kid_unique t.kids hq.1.keys c g0 hcmem hg0 hgk
              subst this
              refine ⟨c', ?_, ?_, by rw [i3]; exact hg0p⟩
              · rw [u4]; exact (mem_replaceKid _ _ _).mpr (Or.inl ⟨rfl, g0, hcmem, i4.symm⟩)
              · rw [i4]; exact (u3 _).mpr hg0q
            · refine ⟨g0, ?_, (u3 _).mpr hg0q, hg0p⟩
              rw [u4]; exact (mem_replaceKid _ _ _).mpr (Or.inr ⟨hg0, by rw [i4]; exact hgk⟩)

/-- The code before fix ca91fdf (no refresh after an executing-count change): only this weaker
invariant survives. -/
theorem cache_rekey_legacy (g : Inv → Inv) (hg : KeyOnly g) (path : List Nat) (t : Inv) (ht : HeapTree t)
    (h : CacheTree t) : CacheTree (rekey true g path t) := by
  refine (cache_stable g (upRekey true g) (fun i => ⟨hg.key i, hg.ops i, hg.queued i, hg.kids i, hg.prio i⟩) ?_
    path t ht h).1
  intro P c'
  obtain ⟨f1, f2, f3, f4, _, _⟩ := upRekey_fields true g hg P c'
  refine ⟨f4, f2, ?_, f1, ?_⟩
  · intro x
    rw [f3]
    unfold maybeFix
    split
    · simp
    · rename_i idx _
      exact mem_of_perm_toList (fix_perm _ _ idx) x
  · unfold upRekey; simp [hg.prio, storeKid]

theorem cache_park (w : Nat) (path : List Nat) (t : Inv) (ht : HeapTree t) (h : CacheTree t) :
    CacheTree (park w path t) :=
  (cache_stable _ upPark (by simp) (by intro P c'; simp [upPark, storeKid]) path t ht h).1

theorem cache_unpark (idx : Nat) (path : List Nat) (t : Inv) (ht : HeapTree t) (h : CacheTree t) :
    CacheTree (unpark idx path t) :=
  (cache_stable _ upUnpark (by simp) (by
    intro P c'; unfold upUnpark; simp only []; split <;> simp [storeKid]) path t ht h).1

/-! ### exact caches under every update (after fix ca91fdf) -/

theorem cacheNode_of_exact (c : Inv) (hres : ∀ k ∈ c.queued, ∃ g ∈ c.kids, g.key = k) (h : c.prio = firstPrio c) :
    cacheNode c := by
  have := cacheNode_updateFirst c hres
  obtain ⟨_, fkids, fq, fo, _⟩ := updateFirst_fields c
  unfold cacheNode at this ⊢
  rw [fo, fq, fkids, updateFirst_prio, ← h] at this
  exact this

/-- Exact caches imply the weaker invariant. -/
theorem cacheTree_of_exact : ∀ (t : Inv), HeapTree t → ExactTree t → CacheTree t := by
  intro t ht
  induction ht with
  | mk i _ _ _ _ _ _ hk ih =>
    intro he
    rw [cacheTree_iff]
    intro c hc
    obtain ⟨hp, hce⟩ := ((exactTree_iff i).mp he) c hc
    refine ⟨cacheNode_of_exact c ?_ hp, ih c hc hce⟩
    intro x hx
    obtain ⟨g, hg, hgk, _⟩ := ((heapTree_iff c).mp (hk c hc)).1.qsub x hx
    exact ⟨g, hg, hgk⟩

theorem exact_rekey (g : Inv → Inv) (hg : KeyOnly g) : ∀ (path : List Nat) (t : Inv), ExactTree t →
    ExactTree (rekey false g path t) ∧ (t.prio = firstPrio t → (rekey false g path t).prio = firstPrio (rekey false g path t)) := by
  intro path
  induction path with
  | nil =>
    intro t ht
    show ExactTree (g t) ∧ (t.prio = firstPrio t → (g t).prio = firstPrio (g t))
    refine ⟨exactTree_congr t _ (hg.kids t) ht, fun h => ?_⟩
    rw [firstPrio_congr t (g t) (hg.ops t) (hg.queued t) (hg.kids t) (hg.prio t), hg.prio]; exact h
  | cons k p ih =>
    intro t ht
    cases hck : t.child k with
    | none =>
      have : rekey false g (k :: p) t = t := by simp only [rekey, updatePath, hck]
      rw [this]; exact ⟨ht, id⟩
    | some c =>
      obtain ⟨hcmem, _⟩ := mem_of_child t k c hck
      obtain ⟨hcp, hce⟩ := ((exactTree_iff t).mp ht) c hcmem
      obtain ⟨i1, i2⟩ := ih c hce
      unfold rekey at i1 i2 ⊢
      rw [updatePath_cons _ _ k p t c hck]
      generalize updatePath g (upRekey false g) p c = c' at i1 i2
      obtain ⟨hrk, _, _, _, _, _⟩ := upRekey_fields false g hg t c'
      refine ⟨?_, fun _ => ?_⟩
      · rw [exactTree_iff, hrk]
        intro d hd
        rcases (mem_replaceKid _ _ _).mp hd with ⟨rfl, _⟩ | ⟨hd', _⟩
        · exact ⟨i2 hcp, i1⟩
        · exact ((exactTree_iff t).mp ht) d hd'
      · -- the parent was refreshed right after its queuedChildren heap was fixed
        unfold upRekey
        simp only [Bool.false_eq_true, if_false]
        generalize (storeKid t c').setQueued _ = N1
        obtain ⟨_, fkids, fq, fo, _⟩ := updateFirst_fields N1
        rw [firstPrio_congr (updateFirstOperationPriority N1) _ (by rw [hg.ops]; simp) (by rw [hg.queued]; simp)
          (by rw [hg.kids]; simp) (by rw [hg.prio]; simp), firstPrio_updateFirst, hg.prio]
        simp [updateFirst_prio]

/-- Walks that change neither operations, nor `queuedChildren`, nor cached priorities (parking,
`dequeue`, creation and removal of invocations that are in no heap). -/
theorem exact_stable (leaf : Inv → Inv) (up : Inv → Inv → Inv)
    (hleaf : ∀ i, HeapTree i → ExactTree i → ExactTree (leaf i) ∧ (leaf i).prio = i.prio ∧
      firstPrio (leaf i) = firstPrio i ∧ (leaf i).key = i.key)
    (hu : ∀ P c', (up P c').key = P.key ∧ (up P c').ops = P.ops ∧ (up P c').queued = P.queued ∧
      (up P c').kids = replaceKid P.kids c' ∧ (up P c').prio = P.prio) :
    ∀ (path : List Nat) (t : Inv), HeapTree t → ExactTree t →
      ExactTree (updatePath leaf up path t) ∧ (updatePath leaf up path t).prio = t.prio ∧
      firstPrio (updatePath leaf up path t) = firstPrio t ∧ (updatePath leaf up path t).key = t.key := by
  intro path
  induction path with
  | nil => intro t ht he; exact hleaf t ht he
  | cons k p ih =>
    intro t ht he
    cases hck : t.child k with
    | none =>
      have : updatePath leaf up (k :: p) t = t := by simp only [updatePath, hck]
      rw [this]; exact ⟨he, rfl, rfl, rfl⟩
    | some c =>
      obtain ⟨hcmem, hckey⟩ := mem_of_child t k c hck
      obtain ⟨hcp, hce⟩ := ((exactTree_iff t).mp he) c hcmem
      obtain ⟨i1, i2, i3, i4⟩ := ih c (((heapTree_iff t).mp ht).2 c hcmem) hce
      rw [updatePath_cons _ _ k p t c hck]
      generalize updatePath leaf up p c = c' at i1 i2 i3 i4
      obtain ⟨u1, u2, u3, u4, u5⟩ := hu t c'
      refine ⟨?_, u5, ?_, u1⟩
      · rw [exactTree_iff, u4]
        intro d hd
        rcases (mem_replaceKid _ _ _).mp hd with ⟨rfl, _⟩ | ⟨hd', _⟩
        · exact ⟨by rw [i2, i3]; exact hcp, i1⟩
        · exact ((exactTree_iff t).mp he) d hd'
      · unfold firstPrio
        rw [u2, u3, u4, u5]
        cases t.ops with
        | cons _ _ => rfl
        | nil =>
          cases t.queued with
          | nil => rfl
          | cons b _ =>
            simp only []
            by_cases hb : b = c'.key
            · rw [hb, kidOr_replaceKid_self t.kids c' c hcmem i4.symm, i4, hckey, kidOr_of_child t k c hck, i2]
            · rw [kidOr_replaceKid_ne t.kids c' b hb]

theorem exact_park (w : Nat) (path : List Nat) (t : Inv) (ht : HeapTree t) (h : ExactTree t) :
    ExactTree (park w path t) :=
  (exact_stable _ upPark (fun i _ he => ⟨exactTree_congr i _ (by simp) he, by simp,
      firstPrio_congr i _ (by simp) (by simp) (by simp) (by simp), by simp⟩)
    (by intro P c'; simp [upPark, storeKid]) path t ht h).1

theorem exact_unpark (idx : Nat) (path : List Nat) (t : Inv) (ht : HeapTree t) (h : ExactTree t) :
    ExactTree (unpark idx path t) :=
  (exact_stable _ upUnpark (fun i _ he => ⟨exactTree_congr i _ (by simp) he, by simp,
      firstPrio_congr i _ (by simp) (by simp) (by simp) (by simp), by simp⟩)
    (by intro P c'; unfold upUnpark; simp only []; split <;> simp [storeKid]) path t ht h).1

end BbRe.Lemmas.Fair
