import BbRe.Lemmas.SchedLiveWorker
/-!
Worker invariant through `schedule`, `complete`, the cleanup callbacks and `enter`.
-/
namespace BbRe.Lemmas.SchedLive
open BbRe.Sched

/-- discharge the "other keys untouched" side condition of `WFrame.of_aset` -/
macro "other_keys" : tactic =>
  `(tactic| (intro k hk; simp [State.task?, alookup_aset, retryT, bumpGen, Ne.symm hk]))

@[simp] theorem assignS_workers (s : State) (w : Worker) (t : Task) :
    (assignS s w t).workers = (s.setWorker { w with task := some t.id }).workers := rfl

theorem noPtr_of_worker_none {s : State} (hw : WInv s) {k : Nat} {t : Task} (h0 : s.task? k = some t)
    (hn : t.worker = none) : NoPtr (· = k) s := by
  intro wk hm tid ht e
  subst e
  have := ((hw.ok wk hm).ptr tid ht).2 t h0
  rw [hn] at this; cases this.1

theorem setWorker_twice (s : State) (a b : Worker) (h : wkey a = wkey b) :
    ((s.setWorker a).setWorker b).workers = (s.setWorker b).workers := by
  rw [setWorker_workers, setWorker_workers, setWorker_workers, List.map_map]
  apply List.map_congr_left
  intro x _
  simp only [Function.comp]
  by_cases hx : wkey x = wkey a
  · simp [hx, h]
  · have : ¬ wkey x = wkey b := by rw [← h]; exact hx
    simp [hx, this]

theorem hintedWorker_mem {h : Hints} {s : State} {t : Task} {w : Worker} (hh : hintedWorker h s t = some w) :
    w ∈ s.workers := by
  unfold hintedWorker at hh
  split at hh
  · exact (worker?_mem hh).1
  · cases hh

/-- `schedule` keeps the worker invariant when the scheduled task is stored under its id and uncompleted. -/
theorem schedule_winv {h : Hints} {s s' : State} {tid : Nat} (hh : schedule h s tid = .ok s') (hw : WInv s)
    (ht : ∀ t, s.task? tid = some t → t.id = tid ∧ tid < s.nextTask ∧ t.response = none) : WInv s' := by
  obtain ⟨t, h0, ⟨_, rfl⟩ | ⟨_, w, w1, hhw, hpk, hw1, hw1t, htw, rfl⟩⟩ := schedule_ok hh
  · obtain ⟨hid, _, _⟩ := ht t h0
    exact hw.of_frame rfl (WFrame.of_aset_same (t0 := t) (t2 := { t with queued := true }) (k0 := t.id)
      (by rw [hid]; exact h0) rfl rfl rfl rfl rfl) (NoPtr.noX s)
  · obtain ⟨hid, hlt, hresp⟩ := ht t h0
    have hm := hintedWorker_mem hhw
    have hok := hw.ok w hm
    obtain ⟨p1, p2, p3, p4, p5, p6⟩ := hok.parked hpk
    have hlk : s.worker? w.scq w.id = some w := worker?_of_mem hw.uniq hm
    have e1 : w1 = { w with parked := false, woken := true } := by
      simp only [wakeWorker, worker?_setWorker, and_self, if_true, hlk, Option.map_some, Option.some.injEq] at hw1
      exact hw1.symm
    subst e1
    refine hw.setWorker (X := (· = t.id)) (w := { w with parked := false, woken := true, task := some t.id })
      ?_ (WFrame.of_aset (k0 := t.id) rfl rfl (by other_keys)) (by rw [hid]; exact noPtr_of_worker_none hw h0 htw) ?_
    · simp only [assignS_workers, wakeWorker]
      exact setWorker_twice s _ _ rfl
    · refine ⟨by simp, by simp [p1, p5], by simp [p5], ?_⟩
      intro tid' e
      simp only [Option.some.injEq] at e; subst e
      refine ⟨by rw [hid]; exact hlt, ?_⟩
      intro t' ht'
      simp only [State.task?, assignS_tasks, alookup_aset, if_true, Option.some.injEq] at ht'
      subst ht'
      exact ⟨rfl, hresp⟩

/-- after the detach prefix of `complete` no worker points to the task any more -/
theorem detachW_winv {s : State} {tid : Nat} {t : Task} (hw : WInv s) (h0 : s.task? tid = some t) :
    WInv (detachW s t) ∧ NoPtr (· = tid) (detachW s t) := by
  cases htw : t.worker with
  | none =>
    have e : detachW s t = s := by unfold detachW; simp [htw]
    rw [e]; exact ⟨hw, noPtr_of_worker_none hw h0 htw⟩
  | some qw =>
    obtain ⟨q, w⟩ := qw
    cases hlk : s.worker? q w with
    | none =>
      have e : detachW s t = s := by unfold detachW; simp [htw, hlk]
      rw [e]
      refine ⟨hw, ?_⟩
      intro wk hm tid' htk e; subst e
      have := (((hw.ok wk hm).ptr _ htk).2 t h0).1
      rw [htw] at this; simp only [Option.some.injEq, Prod.mk.injEq] at this
      have hl := worker?_of_mem hw.uniq hm
      rw [← this.1, ← this.2, hlk] at hl; cases hl
    | some wk0 =>
      have e : detachW s t = s.setWorker { wk0 with task := none } := by unfold detachW; simp [htw, hlk]
      rw [e]
      obtain ⟨hm0, hq0, hw0⟩ := worker?_mem hlk
      have hok0 := hw.ok wk0 hm0
      constructor
      · refine hw.setWorker (X := noX) rfl (WFrame.of_eq rfl rfl rfl) (NoPtr.noX s) ?_
        refine ⟨?_, hok0.woken, fun h => ⟨(hok0.dwait h).1, rfl⟩, by simp⟩
        intro hp; obtain ⟨a, b, _, d, e, f⟩ := hok0.parked hp; exact ⟨a, b, rfl, d, e, f⟩
      · intro x hx tid' htk e; subst e
        rcases mem_setWorker hx with rfl | ⟨hx, hne⟩
        · cases htk
        · have := (((hw.ok x hx).ptr _ htk).2 t h0).1
          rw [htw] at this; simp only [Option.some.injEq, Prod.mk.injEq] at this
          exact hne (by simp [wkey, ← this.1, ← this.2, hq0, hw0])

/-- a state update that leaves workers alone and frames the rest -/
theorem winv_same {s s' : State} (hw : WInv s) (h0 : s'.workers = s.workers) (h1 : s'.nextTask = s.nextTask)
    (h2 : s'.scqs = s.scqs) (h3 : s'.tasks = s.tasks) : WInv s' :=
  hw.of_frame h0 (WFrame.of_eq (X := noX) h1 h2 h3) (NoPtr.noX s)

theorem complete_winv {h : Hints} {s s' : State} {tid : Nat} {r : Resp} {bw : Bool}
    (hh : complete h s tid r bw = .ok s') (hk : KeysOK s) (hw : WInv s) : WInv s' := by
  obtain ⟨t, h0, ⟨_, rfl⟩ | ⟨hr, l, _, h1 | h1 | h1⟩⟩ := complete_ok hh
  · exact hw
  all_goals obtain ⟨hid, hlt⟩ := hk.tid tid t h0
  all_goals obtain ⟨hd, hnp⟩ := detachW_winv hw h0
  · -- success
    have fin : ∀ ev, WInv (succS (detachW s t) (detachT t) ev r) := fun ev =>
      hd.of_frame (by simp) (WFrame.of_aset (k0 := t.id) (by simp) (by simp) (by other_keys)) (by rw [hid]; exact hnp)
    obtain ⟨ev, _, rfl | ⟨ev', _, rfl⟩ | ⟨bq, pq, h2, _⟩⟩ := completeSucc_ok h1.2
    · exact fin ev
    · exact winv_same (fin ev) rfl rfl rfl rfl
    · -- background task: fresh key, then `schedule`
      have hb : WInv (bgState (bumpLearner (succS (detachW s t) (detachT t) ev r)) { detachT t with learner := none } bq
          (succS (detachW s t) (detachT t) ev r).nextLearner pq) := by
        refine (fin ev).of_frame (X := noX) rfl ⟨by simp, ?_, ?_⟩ (NoPtr.noX _)
        · intro q sq' hq p hp; exact ⟨sq', hq, hp⟩
        · intro tid' t' hlt' _ ht'
          simp only [State.task?, bgState_tasks, alookup_aset, bumpLearner_nextTask] at ht' hlt'
          split at ht'
          · omega
          · exact ⟨t', ht', rfl, rfl⟩
      refine schedule_winv h2 hb ?_
      intro tb htb
      simp only [State.task?, bgState_tasks, alookup_aset, bumpLearner_nextTask, if_true, Option.some.injEq] at htb
      subst htb
      exact ⟨rfl, by simp, rfl⟩
  · -- retry
    obtain ⟨_, _, _, h5⟩ := h1
    obtain ⟨s2, t2, h2, h3, rfl⟩ := completeRetry_ok h5
    have hm : WInv ((retryS (detachW s t) l r).setTask (retryT (detachW s t) (detachT t) l r)) :=
      hd.of_frame (by simp) (WFrame.of_aset (k0 := t.id) (by simp) (by simp) (by other_keys)) (by rw [hid]; exact hnp)
    have hs2 : WInv s2 := by
      refine schedule_winv h2 hm ?_
      intro tb htb
      simp only [State.task?, setTask_tasks, detachT_id, alookup_aset] at htb
      have : (retryT (detachW s t) (detachT t) l r).id = t.id := by simp [retryT]
      simp only [this, if_true, Option.some.injEq] at htb
      subst htb
      exact ⟨by simp [retryT], by simp [hid]; exact hlt, by simp [retryT, hr]⟩
    obtain ⟨t1, t1', h4, hle, e1, e2, e3, e4⟩ := schedule_shape h2
    have hk2 : s2.task? t2.id = some t2 := by
      have : t2.id = (detachT t).id := by
        simp only [State.task?, e1, alookup_aset] at h3
        have ht1 : t1 = retryT (detachW s t) (detachT t) l r := by simpa [State.task?, retryT] using h4.symm
        have ht1id : t1.id = t.id := by rw [ht1]; simp [retryT]
        simp only [ht1id, detachT_id, if_true, Option.some.injEq] at h3
        subst h3
        cases hle <;> simpa using ht1id
      rw [this]; exact h3
    exact hs2.of_frame rfl (WFrame.of_aset_same (t0 := t2) (t2 := bumpGen t2) (k0 := t2.id) hk2 rfl rfl rfl rfl rfl) (NoPtr.noX _)
  · obtain ⟨_, _, ev, _, rfl⟩ := h1
    exact hd.of_frame (by simp) (WFrame.of_aset (k0 := t.id) (by simp) (by simp) (by other_keys)) (by rw [hid]; exact hnp)

end BbRe.Lemmas.SchedLive
