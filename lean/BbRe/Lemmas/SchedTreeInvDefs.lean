import BbRe.Model.SchedTree
/-!
# The invariant of the invocation tree, relative to *contributions*

What an invocation tree has to record is four bags of facts about the rest of the scheduler state:

* `E` — executing operations: `(queue, invocation path, worker)` for every operation of a task that is
  executing on `worker` (one entry per operation; `none` = the temporary worker of `task.complete`);
* `I` — last invocations: `(queue, path)` for every worker whose `lastInvocation` is the invocation at `path`;
* `Q` — queued operations: `(queue, path, operation)`;
* `P` — parked workers: `(queue, path, worker)` for every worker that is enqueued in
  `idleSynchronizingWorkers` of the invocation at `path`.

`TreeOK X ns E I Q P` says that the node list `ns` is exactly the tree the Go code maintains for these
bags (`X` = invocations that were just created by `getOrCreateInvocation` and are still allowed to be
empty).  `Lemmas/SchedTreePrim*.lean` show that every primitive of `Model/SchedTree.lean` preserves it
for the corresponding change of the bags; `Lemmas/SchedTreeLink*.lean` compute the bags from the
scheduler state.
-/
namespace BbRe.Lemmas.SchedTree
open BbRe.Sched BbRe.SchedTree

abbrev EC := ScqId × List Nat × WKey
abbrev IC := ScqId × List Nat
abbrev QC := ScqId × List Nat × Nat
abbrev PC := ScqId × List Nat × WId

/-- number of executing operations of worker `k` at or below the invocation `(q, p)` -/
def cntE (q : ScqId) (p : List Nat) (k : WKey) (E : List EC) : Nat :=
  E.countP (fun c => decide (c.1 = q) && p.isPrefixOf c.2.1 && decide (c.2.2 = k))

/-- number of workers whose last invocation is at or below `(q, p)` -/
def cntI (q : ScqId) (p : List Nat) (I : List IC) : Nat :=
  I.countP (fun c => decide (c.1 = q) && p.isPrefixOf c.2)

structure TreeOK (X : List (ScqId × List Nat)) (ns : List Node) (E : List EC) (I : List IC) (Q : List QC)
    (P : List PC) : Prop where
  /-- at most one node per (queue, path) -/
  nd : (ns.map (fun n => (n.scq, n.path))).Nodup
  /-- the parent of every node exists -/
  pc : ∀ n ∈ ns, n.path ≠ [] → (node? ns n.scq n.path.dropLast).isSome = true
  /-- `executingWorkers[w]` = number of operations below the node of tasks executing on `w` -/
  ex : ∀ n ∈ ns, ∀ k, mget k n.exec = cntE n.scq n.path k E
  /-- `executingWorkers` is a map without zero entries -/
  exnd : ∀ n ∈ ns, (n.exec.map (·.1)).Nodup ∧ ∀ e ∈ n.exec, 0 < e.2
  /-- `idleWorkersCount` -/
  id : ∀ n ∈ ns, n.idle = cntI n.scq n.path I
  /-- `queuedOperations` = the queued operations of this invocation -/
  qo : ∀ n ∈ ns, n.qops.Nodup ∧ ∀ o, o ∈ n.qops ↔ (n.scq, n.path, o) ∈ Q
  /-- a child is in `queuedChildren` iff some operation is queued in its subtree -/
  qk : ∀ n ∈ ns, n.qkids.Nodup ∧ ∀ k, k ∈ n.qkids ↔ ∃ c ∈ Q, c.1 = n.scq ∧ (n.path ++ [k]) <+: c.2.1
  /-- `idleSynchronizingWorkers` = the workers parked at this invocation -/
  pk : ∀ n ∈ ns, n.parked.Nodup ∧ ∀ w, w ∈ n.parked ↔ (n.scq, n.path, w) ∈ P
  /-- a child is in `idleSynchronizingWorkersChildren` iff some worker is parked in its subtree -/
  ik : ∀ n ∈ ns, n.ikids.Nodup ∧ ∀ k, k ∈ n.ikids ↔ ∃ c ∈ P, c.1 = n.scq ∧ (n.path ++ [k]) <+: c.2.1
  /-- `removeIfEmpty` discipline: a non-root invocation that is neither active nor holds idle workers
  does not exist (unless it was just created) -/
  ne : ∀ n ∈ ns, n.path ≠ [] → (n.scq, n.path) ∉ X → n.isEmptyInv = false
  /-- everything that is recorded is recorded in an invocation that exists -/
  rfE : ∀ c ∈ E, (node? ns c.1 c.2.1).isSome = true
  rfI : ∀ c ∈ I, (node? ns c.1 c.2).isSome = true
  rfQ : ∀ c ∈ Q, (node? ns c.1 c.2.1).isSome = true
  rfP : ∀ c ∈ P, (node? ns c.1 c.2.1).isSome = true
  /-- a worker is parked at its last invocation -/
  pi : ∀ c ∈ P, (c.1, c.2.1) ∈ I

/-- the invocation at `p'` is the one at `p` or one of its ancestors -/
def onPathOf (q : ScqId) (p : List Nat) (x : ScqId × List Nat) : Bool := decide (x.1 = q) && x.2.isPrefixOf p

/-- `X` without the invocations on the path to `(q, p)` -/
def offPath (X : List (ScqId × List Nat)) (q : ScqId) (p : List Nat) : List (ScqId × List Nat) :=
  X.filter (fun x => !onPathOf q p x)

end BbRe.Lemmas.SchedTree
