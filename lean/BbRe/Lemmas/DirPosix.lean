import BbRe.Lemmas.DirFail
import BbRe.Spec.Posix
/-!
`refines_posix`: the store of `Model/Dir.lean` simulates the reference hierarchy
`Spec/Posix.lean`.  `abs` forgets the order of the entries, the cookies, the
change counters and the ghost link counts.
-/
namespace BbRe.Lemmas.Dir
open BbRe.Dir
open BbRe.Spec.Posix (SDir FS)

def absDir (x : Dir) : SDir :=
  { pending := x.lazy, entries := fun n => (x.find? n).map (fun e => (e.name, e.child)),
    removed := x.deleted, fs := x.fs }

def abs (s : Store) : FS :=
  { dirs := s.dirs.map absDir, kinds := s.leaves.map (fun l => l.kind), tmpls := s.tmpls,
    fetchFail := s.fetchFail, allocFail := s.allocFail }

theorem absDir_default : absDir default = default := rfl

theorem abs_dir (s : Store) (d : Nat) : (abs s).dir d = absDir (s.dir d) := by
  unfold FS.dir Store.dir abs
  simp only [List.getElem?_map]
  cases s.dirs[d]? <;> rfl

theorem abs_dirs_length (s : Store) : (abs s).dirs.length = s.dirs.length := by simp [abs]
theorem abs_kinds_length (s : Store) : (abs s).kinds.length = s.leaves.length := by simp [abs]

theorem abs_kind (s : Store) (l : Nat) : (abs s).kind l = (s.leaf l).kind := by
  unfold FS.kind Store.leaf abs
  simp only [List.getElem?_map]
  cases s.leaves[l]? <;> rfl

theorem abs_tmpl (s : Store) (t : Nat) : (abs s).tmpl t = s.tmpl t := rfl

theorem abs_modDir (s : Store) (d : Nat) (f : Dir → Dir) (g : SDir → SDir)
    (h : absDir (f (s.dir d)) = g (absDir (s.dir d))) : abs (s.modDir d f) = (abs s).modDir d g := by
  unfold FS.modDir
  rw [abs_dir, ← h]
  simp [abs, Store.modDir, Store.setDir, List.map_set]

theorem abs_setDir (s : Store) (d : Nat) (x : Dir) (g : SDir → SDir)
    (h : absDir x = g (absDir (s.dir d))) : abs (s.setDir d x) = (abs s).modDir d g := by
  unfold FS.modDir
  rw [abs_dir, ← h]
  simp [abs, Store.setDir, List.map_set]

theorem abs_pushDir (s : Store) (x : Dir) : abs (s.pushDir x) = (abs s).pushDir (absDir x) := by
  simp [abs, Store.pushDir, FS.pushDir]

theorem abs_pushLeaf (s : Store) (x : Leaf) : abs (s.pushLeaf x) = (abs s).pushLeaf x.kind := by
  simp [abs, Store.pushLeaf, FS.pushLeaf]

theorem kinds_setLeaf (s : Store) (l : Nat) (x : Leaf) (h : x.kind = (s.leaf l).kind) :
    (s.setLeaf l x).leaves.map (fun l => l.kind) = s.leaves.map (fun l => l.kind) := by
  simp only [leaves_setLeaf, List.map_set]
  apply List.ext_getElem?
  intro i
  rw [List.getElem?_set]
  by_cases hi : l = i
  · subst hi
    by_cases hl : l < (s.leaves.map (fun l => l.kind)).length
    · simp only [hl, if_true]
      have hl' : l < s.leaves.length := by simpa using hl
      simp [List.getElem?_map, List.getElem?_eq_getElem hl', h, Store.leaf]
    · simp only [hl, if_false]
      have : (s.leaves.map (fun l => l.kind)).length ≤ l := by omega
      simp [List.getElem?_eq_none_iff.mpr this]
  · simp [hi]

theorem abs_link (s : Store) (l : Nat) : abs (s.link l) = abs s := by
  have h := kinds_setLeaf s l { s.leaf l with links := (s.leaf l).links + 1 } rfl
  unfold abs Store.link
  simp only [dirs_setLeaf, tmpls_setLeaf, fetchFail_setLeaf, allocFail_setLeaf]
  rw [h]

theorem abs_unlink (s : Store) (l : Nat) : abs (s.unlink l) = abs s := by
  have h := kinds_setLeaf s l { s.leaf l with links := (s.leaf l).links - 1 } rfl
  unfold abs Store.unlink
  simp only [dirs_setLeaf, tmpls_setLeaf, fetchFail_setLeaf, allocFail_setLeaf]
  rw [h]

/-! ### one directory -/

theorem absDir_attach (x : Dir) (name nn : Nat) (c : Child) (h : x.find? nn = none) :
    absDir (x.attach name nn c) = (absDir x).put nn name c := by
  unfold absDir SDir.put
  simp only [attach_lazy, attach_deleted, attach_fs]
  congr 1
  funext n
  unfold Dir.find? at h ⊢
  simp only [attach_entries, List.find?_append]
  by_cases hn : n = nn
  · subst hn
    simp [h]
  · have hn' : ¬ (nn = n) := fun e => hn e.symm
    simp [hn, hn']

theorem absDir_detach (x : Dir) (nn : Nat) : absDir (x.detach nn) = (absDir x).del nn := by
  unfold absDir SDir.del
  simp only [detach_lazy, detach_deleted, detach_fs]
  congr 1
  funext n
  by_cases hn : n = nn
  · subst hn; simp [find?_detach_self]
  · have hn' : nn ≠ n := fun e => hn e.symm
    simp [hn, find?_detach_ne x nn n hn']

theorem absDir_unlazy (x : Dir) : absDir { x with lazy := none } = { absDir x with pending := none } := rfl

theorem absDir_fresh (t : Option Nat) (fs : Nat) : absDir ({ lazy := t, fs := fs } : Dir) = BbRe.Spec.Posix.fresh t fs := rfl

theorem absDir_entries (x : Dir) (n : Nat) : (absDir x).entries n = (x.find? n).map (fun e => (e.name, e.child)) := rfl

theorem mayAttach_abs (x : Dir) (nn : Nat) : x.mayAttach nn = BbRe.Spec.Posix.creatable (absDir x) nn := by
  cases hd : x.deleted with
  | true => simp [Dir.mayAttach, BbRe.Spec.Posix.creatable, absDir, hd]
  | false => cases hf : x.find? nn <;> simp [Dir.mayAttach, BbRe.Spec.Posix.creatable, absDir, hd, hf]

/-! ### materialisation -/

theorem abs_attachInitial (P : Params) (d : Nat) :
    ∀ (cs : List (Nat × TChild)) (s : Store), d < s.dirs.length →
      BbRe.Spec.Posix.populate P.normalize d cs (abs s) = (attachInitial P d cs s).map abs
  | [], s, _ => by simp [BbRe.Spec.Posix.populate, attachInitial]
  | (name, tc) :: rest, s, hd => by
    unfold BbRe.Spec.Posix.populate attachInitial
    simp only []
    have hc : ((abs s).dir d).removed = (s.dir d).deleted := by rw [abs_dir]; rfl
    have he : (((abs s).dir d).entries (P.normalize name)).isSome = ((s.dir d).find? (P.normalize name)).isSome := by
      rw [abs_dir, absDir_entries]; cases (s.dir d).find? (P.normalize name) <;> rfl
    have hm : ((s.dir d).mayAttach (P.normalize name)).isSome =
        ((s.dir d).deleted || ((s.dir d).find? (P.normalize name)).isSome) := by
      unfold Dir.mayAttach
      cases (s.dir d).deleted <;> cases (s.dir d).find? (P.normalize name) <;> simp
    rw [hc, he, hm]
    by_cases hcond : ((s.dir d).deleted || ((s.dir d).find? (P.normalize name)).isSome) = true
    · simp [hcond]
    · have hb : ((s.dir d).deleted || ((s.dir d).find? (P.normalize name)).isSome) = false := by
        simpa using hcond
      simp only [hb, Bool.false_eq_true, if_false]
      have hfn : (s.dir d).find? (P.normalize name) = none := by
        cases hx : (s.dir d).find? (P.normalize name) <;> simp_all
      cases tc with
      | leaf l =>
        simp only []
        rw [← abs_attachInitial P d rest _ (by simpa using hd)]
        congr 1
        rw [abs_link]
        exact (abs_modDir s d _ _ (absDir_attach _ _ _ _ hfn)).symm
      | dir t =>
        simp only []
        rw [← abs_attachInitial P d rest _ (by simp; omega)]
        congr 1
        have hfs : ((abs s).dir d).fs = (s.dir d).fs := by rw [abs_dir]; rfl
        rw [hfs, abs_dirs_length]
        have hdir : (s.pushDir { lazy := some t, fs := (s.dir d).fs }).dir d = s.dir d := dir_pushDir_lt s _ d hd
        rw [abs_modDir _ d _ (fun x => x.put (P.normalize name) name (Child.dir s.dirs.length))
          (by rw [hdir]; exact absDir_attach _ _ _ _ hfn), abs_pushDir, absDir_fresh]

theorem abs_materialize (P : Params) (s : Store) (d : Nat) (hd : d < s.dirs.length) :
    BbRe.Spec.Posix.expand P.normalize (abs s) d = (materialize P s d).map abs := by
  unfold BbRe.Spec.Posix.expand materialize
  rw [abs_dir]
  simp only [absDir]
  cases hl : (s.dir d).lazy with
  | none => rfl
  | some t =>
    simp only []
    have hff : (abs s).fetchFail = s.fetchFail := rfl
    rw [hff]
    by_cases hc : (t != 0 && s.fetchFail) = true
    · simp [hc]; rfl
    · simp only [hc, if_false]
      rw [abs_tmpl]
      have hm : (abs s).modDir d (fun x => { x with pending := none }) = abs (s.modDir d (fun x => { x with lazy := none })) :=
        (abs_modDir s d _ _ (absDir_unlazy _)).symm
      rw [hm, abs_attachInitial P d _ _ (by simpa using hd)]
      cases attachInitial P d (sortChildren (s.tmpl t)) (s.modDir d (fun x => { x with lazy := none })) <;> rfl

/-! ### simulation, per operation -/

theorem materialize_error_cases {P : Params} {s : Store} {d : Nat} {e : Status} (h : materialize P s d = .error e) :
    e = .io ∨ e = .panic := by
  unfold materialize at h
  split at h
  · cases h
  · split at h
    · cases h; exact Or.inl rfl
    · split at h
      · cases h
      · cases h; exact Or.inr rfl

theorem materialize_len {P : Params} {s s1 : Store} {d : Nat} (h : materialize P s d = .ok s1) :
    s.dirs.length ≤ s1.dirs.length := (materialize_onlyMat h).1

theorem abs_unlinkLeaves (s : Store) (es : List Entry) : abs (unlinkLeaves s es) = abs s := by
  induction es generalizing s with
  | nil => rfl
  | cons e rest ih =>
    unfold unlinkLeaves
    cases e.child with
    | dir _ => exact ih s
    | leaf l => simp only []; rw [ih, abs_unlink]

theorem abs_clearDir (s : Store) (c : Nat) : abs (clearDir s c true) = (abs s).modDir c BbRe.Spec.Posix.tombstone := by
  rw [clearDir_eq]
  have hd : (unlinkLeaves s (s.dir c).entries).dir c = s.dir c := dir_eq_of_dirs (unlinkLeaves_dirs s _) c
  rw [abs_setDir _ c _ BbRe.Spec.Posix.tombstone (by
    rw [hd]
    simp [absDir, clearedDir, BbRe.Spec.Posix.tombstone, Dir.find?])]
  rw [abs_unlinkLeaves]

theorem mkdir_refines (P : Params) (s : Store) (d name : Nat) (hd : d < s.dirs.length) :
    BbRe.Spec.Posix.mkdir P.normalize (abs s) d name =
      (abs (vmkdir P s d name).1, (vmkdir P s d name).2.status, (vmkdir P s d name).2.child) := by
  unfold BbRe.Spec.Posix.mkdir vmkdir
  rw [abs_materialize P s d hd]
  cases hm : materialize P s d with
  | error e => rfl
  | ok s1 =>
    have hd1 : d < s1.dirs.length := by have := materialize_len hm; omega
    simp only [Except.map]
    rw [abs_dir, ← mayAttach_abs]
    cases hma : (s1.dir d).mayAttach (P.normalize name) with
    | some e => rfl
    | none =>
      simp only []
      have hdir : (s1.pushDir (newDirOf (s1.dir d))).dir d = s1.dir d := dir_pushDir_lt s1 _ d hd1
      rw [abs_modDir _ d _ (fun x => x.put (P.normalize name) name (Child.dir s1.dirs.length))
        (by rw [hdir]; exact absDir_attach _ _ _ _ (mayAttach_none hma).2), abs_pushDir, abs_dirs_length]
      rfl

theorem mknod_refines (P : Params) (s : Store) (d name kind : Nat) (hd : d < s.dirs.length) :
    BbRe.Spec.Posix.mknod P.normalize (abs s) d name kind =
      (abs (vmknod P s d name kind).1, (vmknod P s d name kind).2.status, (vmknod P s d name kind).2.child) := by
  unfold BbRe.Spec.Posix.mknod vmknod
  rw [abs_materialize P s d hd]
  cases hm : materialize P s d with
  | error e => rfl
  | ok s1 =>
    have hd1 : d < s1.dirs.length := by have := materialize_len hm; omega
    simp only [Except.map]
    rw [abs_dir, ← mayAttach_abs]
    cases hma : (s1.dir d).mayAttach (P.normalize name) with
    | some e => rfl
    | none =>
      simp only []
      by_cases hk : kind = 1 ∨ kind = 2 ∨ kind = 3
      · rw [if_pos hk, if_pos hk]
        have haf : (abs s1).allocFail = s1.allocFail := rfl
        rw [haf]
        by_cases ha : kind = 3 ∧ s1.allocFail = true
        · rw [if_pos ha, if_pos ha]; rfl
        · rw [if_neg ha, if_neg ha]
          simp only []
          rw [abs_modDir _ d _ (fun x => x.put (P.normalize name) name (Child.leaf s1.leaves.length))
            (by simp only [dir_pushLeaf]; exact absDir_attach _ _ _ _ (mayAttach_none hma).2), abs_pushLeaf, abs_kinds_length]
      · rw [if_neg hk, if_neg hk]; rfl

theorem lookup_refines (P : Params) (s : Store) (d name : Nat) (hd : d < s.dirs.length) :
    BbRe.Spec.Posix.lookup P.normalize (abs s) d name =
      (abs (vlookup P s d name).1, (vlookup P s d name).2.status, (vlookup P s d name).2.child) := by
  unfold BbRe.Spec.Posix.lookup vlookup
  rw [abs_materialize P s d hd]
  cases hm : materialize P s d with
  | error e => rfl
  | ok s1 =>
    simp only [Except.map]
    rw [abs_dir, absDir_entries]
    cases hf : (s1.dir d).find? (P.normalize name) with
    | some e => rfl
    | none => rfl

theorem openc_refines (P : Params) (s : Store) (d name : Nat) (c e : Bool) (hd : d < s.dirs.length) :
    BbRe.Spec.Posix.openc P.normalize (abs s) d name c e =
      (abs (vopen P s d name c e).1, (vopen P s d name c e).2.status, (vopen P s d name c e).2.child) := by
  unfold BbRe.Spec.Posix.openc vopen
  rw [abs_materialize P s d hd]
  cases hm : materialize P s d with
  | error er =>
    rcases materialize_error_cases hm with h | h <;> subst h <;> simp [Except.map, Out.fail]
  | ok s1 =>
    have hd1 : d < s1.dirs.length := by have := materialize_len hm; omega
    simp only [Except.map]
    rw [abs_dir, absDir_entries]
    cases hf : (s1.dir d).find? (P.normalize name) with
    | some en =>
      simp only [Option.map]
      cases e with
      | false => simp [Out.fail]
      | true =>
        simp only [Bool.not_true, Bool.false_eq_true, if_false]
        cases hc : en.child with
        | dir c' => simp [Out.fail]
        | leaf l =>
          simp only []
          rw [abs_kind]
    | none =>
      simp only [Option.map]
      have hr : (absDir (s1.dir d)).removed = (s1.dir d).deleted := rfl
      rw [hr]
      by_cases hdc : ((s1.dir d).deleted || !c) = true
      · rw [if_pos hdc, if_pos hdc]; simp [Out.fail]
      · rw [if_neg hdc, if_neg hdc]
        have haf : (abs s1).allocFail = s1.allocFail := rfl
        rw [haf]
        by_cases ha : s1.allocFail = true
        · rw [if_pos ha, if_pos ha]; simp [Out.fail]
        · rw [if_neg ha, if_neg ha]
          simp only []
          rw [abs_modDir _ d _ (fun x => x.put (P.normalize name) name (Child.leaf s1.leaves.length))
            (by simp only [dir_pushLeaf]; exact absDir_attach _ _ _ _ hf), abs_pushLeaf, abs_kinds_length]

theorem find?_of_mem_nodup {x : Dir} (hnd : x.entries.Pairwise (fun a b => a.norm ≠ b.norm)) {e : Entry} (he : e ∈ x.entries) :
    x.find? e.norm = some e := by
  unfold Dir.find?
  generalize x.entries = es at hnd he
  induction es with
  | nil => cases he
  | cons a rest ih =>
    have hp := List.pairwise_cons.mp hnd
    rcases List.mem_cons.mp he with h | h
    · subst h; simp [List.find?_cons]
    · have hne : a.norm ≠ e.norm := hp.1 e h
      simp [List.find?_cons, hne, ih hp.2 h]

theorem linked_iff {P : Params} {s : Store} (h : Inv P s) (l : Nat) :
    BbRe.Spec.Posix.linked (abs s) l ↔ (s.leaf l).links ≠ 0 := by
  have hl := h.links l
  simp only [List.append_nil] at hl
  rw [hl]
  constructor
  · rintro ⟨d, n, name, hd, he⟩
    rw [abs_dir, absDir_entries] at he
    rw [abs_dirs_length] at hd
    cases hf : (s.dir d).find? n with
    | none => rw [hf] at he; cases he
    | some e =>
      rw [hf] at he
      simp at he
      have := entry_child_ref hd hf
      rw [he.2] at this
      exact Nat.ne_of_gt (List.count_pos_iff.mpr this)
  · intro hne
    have hm : Child.leaf l ∈ refs s := List.count_pos_iff.mp (Nat.pos_of_ne_zero hne)
    obtain ⟨x, hx, e, he, hc⟩ := mem_refs.mp hm
    obtain ⟨d, hd, hxd⟩ := List.getElem_of_mem hx
    have hdir : s.dir d = x := by unfold Store.dir; simp [List.getElem?_eq_getElem hd, hxd]
    refine ⟨d, e.norm, e.name, by rw [abs_dirs_length]; exact hd, ?_⟩
    rw [abs_dir, absDir_entries, hdir, find?_of_mem_nodup (h.dirs x hx).nodup he]
    simp [hc]

theorem link_refines (P : Params) (s : Store) (d name l : Nat) (h : Inv P s) (hd : d < s.dirs.length) :
    BbRe.Spec.Posix.link P.normalize (abs s) d name l =
      (abs (vlink P s d name l).1, (vlink P s d name l).2.status, (vlink P s d name l).2.child) := by
  unfold BbRe.Spec.Posix.link vlink
  rw [abs_materialize P s d hd]
  cases hm : materialize P s d with
  | error e => rfl
  | ok s1 =>
    have r := materialize_ok h hd hm
    have hd1 : d < s1.dirs.length := r.hd hd
    simp only [Except.map]
    rw [abs_dir, ← mayAttach_abs]
    cases hma : (s1.dir d).mayAttach (P.normalize name) with
    | some e => rfl
    | none =>
      simp only []
      have hlk := linked_iff r.inv l
      by_cases h0 : (s1.leaf l).links = 0
      · have : ¬ BbRe.Spec.Posix.linked (abs s1) l := fun hh => (hlk.mp hh) h0
        rw [if_neg this, if_pos h0]; rfl
      · have : BbRe.Spec.Posix.linked (abs s1) l := hlk.mpr h0
        rw [if_pos this, if_neg h0]
        simp only []
        rw [abs_modDir _ d _ (fun x => x.put (P.normalize name) name (Child.leaf l))
          (by simp only [dir_link]; exact absDir_attach _ _ _ _ (mayAttach_none hma).2), abs_link]

theorem onlyHidden_iff {P : Params} {x : Dir} (h : DirOK P x) :
    BbRe.Spec.Posix.onlyHidden P.hidden (absDir x) ↔ isDeletable P x = true := by
  unfold BbRe.Spec.Posix.onlyHidden isDeletable
  rw [List.all_eq_true]
  constructor
  · intro ho e he
    have := ho e.norm e.name e.child (by rw [absDir_entries, find?_of_mem_nodup h.nodup he]; rfl)
    simp [this.1, this.2]
  · intro hd n name c hc
    rw [absDir_entries] at hc
    cases hf : x.find? n with
    | none => rw [hf] at hc; cases hc
    | some e =>
      rw [hf] at hc; simp at hc
      have := hd e (find?_some hf).1
      simp at this
      rw [← hc.1, ← hc.2]
      exact this

theorem remove_refines (P : Params) (s : Store) (d name : Nat) (a b : Bool) (h : Inv P s) (hd : d < s.dirs.length) :
    BbRe.Spec.Posix.remove P.normalize P.hidden (abs s) d name a b =
      (abs (vremove P s d name a b).1, (vremove P s d name a b).2.status, (vremove P s d name a b).2.child) := by
  unfold BbRe.Spec.Posix.remove vremove
  rw [abs_materialize P s d hd]
  cases hm : materialize P s d with
  | error e => rfl
  | ok s1 =>
    have r := materialize_ok h hd hm
    have hd1 : d < s1.dirs.length := r.hd hd
    simp only [Except.map]
    rw [abs_dir, absDir_entries]
    cases hf : (s1.dir d).find? (P.normalize name) with
    | none => rfl
    | some e =>
      simp only [Option.map]
      cases hc : e.child with
      | dir c =>
        simp only []
        cases a with
        | false => rfl
        | true =>
          simp only [Bool.not_true, Bool.false_eq_true, if_false]
          have hcref := entry_child_ref hd1 hf
          rw [hc] at hcref
          have hcl : c < s1.dirs.length := r.inv.dirRef c (by simpa using hcref)
          rw [abs_materialize P s1 c hcl]
          cases hm2 : materialize P s1 c with
          | error e2 => rfl
          | ok s2 =>
            have r2 := materialize_ok r.inv hcl hm2
            simp only [Except.map]
            rw [abs_dir]
            have hoh := onlyHidden_iff (r2.inv.dirOK c)
            by_cases hdl : isDeletable P (s2.dir c) = true
            · have h1 : BbRe.Spec.Posix.onlyHidden P.hidden (absDir (s2.dir c)) := hoh.mpr hdl
              have h2 : ¬ ((!isDeletable P (s2.dir c)) = true) := by simp [hdl]
              rw [if_pos h1, if_neg h2]
              simp only []
              rw [abs_modDir _ d _ (fun x => x.del (P.normalize name)) (absDir_detach _ _), abs_clearDir]
            · have h1 : ¬ BbRe.Spec.Posix.onlyHidden P.hidden (absDir (s2.dir c)) := fun hh => hdl (hoh.mp hh)
              have h2 : (!isDeletable P (s2.dir c)) = true := by simp [hdl]
              rw [if_neg h1, if_pos h2]; rfl
      | leaf l =>
        simp only []
        cases b with
        | false => rfl
        | true =>
          simp only [Bool.not_true, Bool.false_eq_true, if_false]
          rw [abs_modDir _ d _ (fun x => x.del (P.normalize name)) (absDir_detach _ _), abs_unlink]

/-! ### rename -/

theorem SDir.put_del (x : SDir) (n name : Nat) (c : Child) : (x.del n).put n name c = x.put n name c := by
  unfold SDir.put SDir.del
  congr 1
  funext m
  by_cases h : m = n <;> simp [h]

theorem FS.modDir_modDir (f : FS) (d : Nat) (g1 g2 : SDir → SDir) :
    (f.modDir d g1).modDir d g2 = f.modDir d (fun x => g2 (g1 x)) := by
  unfold FS.modDir FS.dir
  by_cases h : d < f.dirs.length
  · simp [List.getElem?_set, h, List.set_set]
  · have h' : f.dirs.length ≤ d := by omega
    simp [List.set_eq_of_length_le h', List.getElem?_eq_none_iff.mpr h']

theorem find?_cleared (x : Dir) (del : Bool) (n : Nat) : (clearedDir x del).find? n = none := by
  unfold Dir.find? clearedDir; rfl

theorem dir_clearDir_self (s : Store) (c : Nat) (del : Bool) (h : c < s.dirs.length) :
    (clearDir s c del).dir c = clearedDir (s.dir c) del := by
  rw [clearDir_eq, dir_setDir_self _ c _ (by rw [unlinkLeaves_dirs]; exact h)]

/-- After detaching `nNew` from `dNew` (and possibly clearing some directory), the name is free. -/
theorem find_free_after (s5 : Store) (dNew nNew nd : Nat) (hN : dNew < s5.dirs.length)
    (hf : (s5.dir dNew).find? nNew = none) : ((clearDir s5 nd true).dir dNew).find? nNew = none := by
  by_cases hx : nd = dNew
  · subst hx; rw [dir_clearDir_self s5 nd true hN]; exact find?_cleared _ _ _
  · rw [clearDir_dir_ne s5 nd dNew true hx]; exact hf

theorem rename_refines (P : Params) (s : Store) (dOld oldName dNew newName : Nat) (h : Inv P s)
    (hd1 : dOld < s.dirs.length) (hd2 : dNew < s.dirs.length) :
    BbRe.Spec.Posix.rename P.normalize P.hidden (abs s) dOld oldName dNew newName =
      (abs (vrename P s dOld oldName dNew newName).1, (vrename P s dOld oldName dNew newName).2.status,
        (vrename P s dOld oldName dNew newName).2.child) := by
  unfold BbRe.Spec.Posix.rename vrename
  rw [abs_materialize P s dOld hd1]
  cases hm1 : materialize P s dOld with
  | error e => rfl
  | ok s1 =>
    have r1 := materialize_ok h hd1 hm1
    simp only [Except.map]
    rw [abs_materialize P s1 dNew (r1.hd hd2)]
    cases hm2 : materialize P s1 dNew with
    | error e => rfl
    | ok s2 =>
      have r2 := materialize_ok r1.inv (r1.hd hd2) hm2
      have hO : dOld < s2.dirs.length := r2.hd (r1.hd hd1)
      have hN : dNew < s2.dirs.length := r2.hd (r1.hd hd2)
      simp only [Except.map]
      rw [abs_dir, abs_dir, absDir_entries, absDir_entries]
      have hfsO : (absDir (s2.dir dOld)).fs = (s2.dir dOld).fs := rfl
      have hfsN : (absDir (s2.dir dNew)).fs = (s2.dir dNew).fs := rfl
      have hrm : (absDir (s2.dir dNew)).removed = (s2.dir dNew).deleted := rfl
      rw [hfsO, hfsN, hrm]
      -- the state after the first detach
      have hdetO : abs (s2.modDir dOld (fun x => x.detach (P.normalize oldName))) =
          (abs s2).modDir dOld (fun x => x.del (P.normalize oldName)) := abs_modDir _ dOld _ _ (absDir_detach _ _)
      cases hfN : (s2.dir dNew).find? (P.normalize newName) with
      | none =>
        simp only [Option.map]
        by_cases hdel : (s2.dir dNew).deleted = true
        · rw [if_pos hdel, if_pos hdel]; rfl
        · rw [if_neg hdel, if_neg hdel]
          cases hfO : (s2.dir dOld).find? (P.normalize oldName) with
          | none => rfl
          | some oldE =>
            simp only []
            by_cases hx : oldE.child.isDir = true ∧ (s2.dir dOld).fs ≠ (s2.dir dNew).fs
            · rw [if_pos hx, if_pos hx]; rfl
            · rw [if_neg hx, if_neg hx]
              simp only [renameOut]
              congr 1
              unfold BbRe.Spec.Posix.move
              rw [FS.modDir_modDir]
              simp only [SDir.put_del]
              rw [← hdetO]
              refine (abs_modDir _ dNew _ _ (absDir_attach _ _ _ _ ?_)).symm
              rw [dir_after_detach s2 dOld dNew _ hO]
              by_cases hdd : dOld = dNew
              · simp only [hdd, if_true]
                by_cases hn : P.normalize oldName = P.normalize newName
                · rw [hn]; exact find?_detach_self _ _
                · rw [find?_detach_ne _ _ _ hn]; exact hfN
              · simp only [hdd, if_false]; exact hfN
      | some newE =>
        simp only [Option.map]
        cases hfO : (s2.dir dOld).find? (P.normalize oldName) with
        | none => rfl
        | some oldE =>
          simp only []
          -- the two detaches and the final attach, shared by both overwrite cases
          have hN4 : dNew < (s2.modDir dOld (fun x => x.detach (P.normalize oldName))).dirs.length := by simpa using hN
          cases hcN : newE.child with
          | dir nd =>
            cases hcO : oldE.child with
            | leaf ol => rfl
            | dir od =>
              simp only []
              by_cases hsame : nd = od
              · rw [if_pos hsame, if_pos hsame]; rfl
              · rw [if_neg hsame, if_neg hsame]
                by_cases hfs : (s2.dir dOld).fs ≠ (s2.dir dNew).fs
                · rw [if_pos hfs, if_pos hfs]; rfl
                · rw [if_neg hfs, if_neg hfs]
                  have hndref := entry_child_ref hN hfN
                  rw [hcN] at hndref
                  have hnd : nd < s2.dirs.length := r2.inv.dirRef nd (by simpa using hndref)
                  rw [abs_materialize P s2 nd hnd]
                  cases hm3 : materialize P s2 nd with
                  | error e => rfl
                  | ok s3 =>
                    have r3 := materialize_ok r2.inv hnd hm3
                    simp only [Except.map]
                    rw [abs_dir]
                    have hoh := onlyHidden_iff (r3.inv.dirOK nd)
                    by_cases hdl : isDeletable P (s3.dir nd) = true
                    · have h1 : BbRe.Spec.Posix.onlyHidden P.hidden (absDir (s3.dir nd)) := hoh.mpr hdl
                      have h2 : ¬ ((!isDeletable P (s3.dir nd)) = true) := by simp [hdl]
                      rw [if_pos h1, if_neg h2]
                      simp only [renameOut]
                      congr 1
                      have hN5 : dNew < ((s3.modDir dOld (fun x => x.detach (P.normalize oldName))).modDir dNew
                          (fun x => x.detach (P.normalize newName))).dirs.length := by simpa using r3.hd hN
                      have hN4' : dNew < (s3.modDir dOld (fun x => x.detach (P.normalize oldName))).dirs.length := by
                        simpa using r3.hd hN
                      rw [abs_modDir _ dNew _ (fun x => x.put (P.normalize newName) newName (Child.dir od))
                        (absDir_attach _ _ _ _ (find_free_after _ dNew _ nd hN5 (by
                          rw [dir_modDir_self _ dNew _ hN4']; exact find?_detach_self _ _))),
                        abs_clearDir, abs_modDir _ dNew _ (fun x => x.del (P.normalize newName)) (absDir_detach _ _),
                        abs_modDir _ dOld _ (fun x => x.del (P.normalize oldName)) (absDir_detach _ _)]
                    · have h1 : ¬ BbRe.Spec.Posix.onlyHidden P.hidden (absDir (s3.dir nd)) := fun hh => hdl (hoh.mp hh)
                      have h2 : (!isDeletable P (s3.dir nd)) = true := by simp [hdl]
                      rw [if_neg h1, if_pos h2]; rfl
          | leaf nl =>
            cases hcO : oldE.child with
            | dir od => rfl
            | leaf ol =>
              simp only []
              by_cases hsame : nl = ol
              · rw [if_pos hsame, if_pos hsame]; rfl
              · rw [if_neg hsame, if_neg hsame]
                simp only [renameOut]
                congr 1
                unfold BbRe.Spec.Posix.move
                have hN5 : dNew < ((s2.modDir dOld (fun x => x.detach (P.normalize oldName))).modDir dNew
                    (fun x => x.detach (P.normalize newName))).dirs.length := by simpa using hN
                rw [abs_modDir _ dNew _ (fun x => x.put (P.normalize newName) newName (Child.leaf ol))
                  (by
                    simp only [dir_unlink]
                    rw [dir_modDir_self _ dNew _ hN4]
                    exact absDir_attach _ _ _ _ (find?_detach_self _ _)),
                  abs_unlink, abs_modDir _ dNew _ (fun x => x.del (P.normalize newName)) (absDir_detach _ _), hdetO]

/-! ### all covered operations -/

theorem vremove_child (P : Params) (s : Store) (d n : Nat) (a b : Bool) : (vremove P s d n a b).2.child = none := by
  unfold vremove; repeat' (first | split | dsimp only)
  all_goals rfl

/-- The namespace operations of the `Directory` interface, as operations of the reference hierarchy. -/
def absOp : Op → Option BbRe.Spec.Posix.Op
  | .mkdir d n => some (.mkdir d n)
  | .mknod d n k => some (.mknod d n k)
  | .openc d n c e => some (.openc d n c e)
  | .link d n l => some (.link d n l)
  | .lookup d n => some (.lookup d n)
  | .vremove d n a b => some (.remove d n a b)
  | .remove d n => some (.remove d n true true)
  | .rename d1 n1 d2 n2 => some (.rename d1 n1 d2 n2)
  | .lookupChild d n => some (.lookup d n)
  | _ => none

theorem refines_step (P : Params) (s : Store) (op : Op) (sop : BbRe.Spec.Posix.Op) (h : Inv P s)
    (hv : validOp s op = true) (ha : absOp op = some sop) :
    BbRe.Spec.Posix.step P.normalize P.hidden (abs s) sop =
      (abs (step P s op).1, (step P s op).2.status, (step P s op).2.child) := by
  unfold step
  rw [if_pos hv]
  cases op <;> simp [absOp] at ha <;> subst ha
  case mkdir d n => exact mkdir_refines P s d n (by simpa [validOp] using hv)
  case mknod d n k => exact mknod_refines P s d n k (by simpa [validOp] using hv)
  case openc d n c e => exact openc_refines P s d n c e (by simpa [validOp] using hv)
  case link d n l =>
    have hv' : d < s.dirs.length ∧ l < s.leaves.length := by simpa [validOp] using hv
    exact link_refines P s d n l h hv'.1
  case lookup d n => exact lookup_refines P s d n (by simpa [validOp] using hv)
  case vremove d n a b => exact remove_refines P s d n a b h (by simpa [validOp] using hv)
  case remove d n =>
    have := remove_refines P s d n true true h (by simpa [validOp] using hv)
    rw [vremove_child] at this
    simpa [BbRe.Spec.Posix.step, exec, BbRe.Dir.remove, Out.fail] using this
  case rename d1 n1 d2 n2 =>
    have hv' : d1 < s.dirs.length ∧ d2 < s.dirs.length := by simpa [validOp] using hv
    exact rename_refines P s d1 n1 d2 n2 h hv'.1 hv'.2
  case lookupChild d n =>
    have := lookup_refines P s d n (by simpa [validOp] using hv)
    simp only [BbRe.Spec.Posix.step, exec]
    rw [this]
    unfold vlookup lookupChild
    cases materialize P s d with
    | error e => rfl
    | ok s1 =>
      simp only []
      cases (s1.dir d).find? (P.normalize n) <;> rfl

end BbRe.Lemmas.Dir
