import BbRe.Lemmas.SchedInvOps
/-! The invariant holds in every reachable state of the scheduler model; what each kind of
segment may append to the event log; which errors `step` can return. -/
namespace BbRe.Lemmas.SchedInv
open BbRe.Sched

/-- what a segment of kind `g` may append to the event log -/
def StepEv (g : Seg) (s s' : State) : Prop :=
  match g with
  | .exec .. => EvSel s s'
  | .sync .. => Ext (SyncEv s') s.events s'.events
  | .syncWake .. => Ext (SyncEv s') s.events s'.events
  | _ => Ext Quiet s.events s'.events

theorem step_spec {s : State} (g : Seg) (hI : Inv s) :
    wp (step s g) (fun s' => Inv s' ∧ Mono s s' ∧ StepEv g s s') := by
  cases g with
  | register id comps platform sizes bgMax bgPrio =>
    have := registerPQ_spec id comps platform sizes bgMax bgPrio hI
    exact ⟨this.1, this.2.toMono, this.2.ev⟩
  | exec h now c d dk dnc comps platform inv prio =>
    exact wp_mono (execArrive_spec hI) (fun s' hp => hp)
  | wait h now c name =>
    exact wp_mono (waitArrive_spec hI) (fun s' hp => ⟨hp.1, hp.2.toMono, hp.2.ev⟩)
  | streamWake h now c reason =>
    exact wp_mono (streamWake_spec hI) (fun s' hp => ⟨hp.1, hp.2.toMono, hp.2.ev⟩)
  | sync h now q comps platform w rep pi =>
    exact wp_mono (syncArrive_spec hI) (fun s' hp => hp)
  | syncWake h now q w reason =>
    exact wp_mono (syncWake_spec hI) (fun s' hp => hp)
  | killOp h now name code =>
    exact wp_mono (killOp_spec hI) (fun s' hp => ⟨hp.1, hp.2.toMono, hp.2.ev⟩)
  | killQueue h now q code =>
    exact wp_mono (killQueue_spec hI) (fun s' hp => ⟨hp.1, hp.2.toMono, hp.2.ev⟩)
  | addDrain h now q p =>
    exact wp_mono (addDrain_spec hI) (fun s' hp => ⟨hp.1, hp.2.toMono, hp.2.ev⟩)
  | removeDrain h now q p =>
    exact wp_mono (removeDrain_spec hI) (fun s' hp => ⟨hp.1, hp.2.toMono, hp.2.ev⟩)
  | terminate h now id p =>
    exact wp_mono (terminate_spec hI) (fun s' hp => ⟨hp.1, hp.2.toMono, hp.2.ev⟩)
  | termWake id reason =>
    exact wp_mono (termWake_spec hI) (fun s' hp => ⟨hp.1, hp.2.toMono, hp.2.ev⟩)
  | touch h now =>
    exact wp_mono (enter_spec hI) (fun s' hp => ⟨hp.1, hp.2.toMono, hp.2.ev⟩)

theorem inv_init (cfg : Cfg) : Inv (State.init cfg) := by
  refine ⟨?_, ?_, ?_, ?_⟩
  · constructor <;> simp [State.init, WNodup, wfind]
  · constructor <;> simp [State.init]
  · constructor <;> simp [State.init]
  · constructor <;> simp [State.init, Held]

theorem inv_step {s s' : State} (g : Seg) (hI : Inv s) (h : step s g = .ok s') : Inv s' :=
  (wp_of_ok (step_spec g hI) h).1

theorem inv_reachable {s : State} (h : Reachable s) : Inv s := by
  induction h with
  | init cfg => exact inv_init cfg
  | step g _ hs ih => exact inv_step g ih hs

/-- under the invariant `step` only fails with one of `okErrors` -/
theorem step_error {s : State} (g : Seg) (hI : Inv s) {e : String} (h : step s g = .error e) : OkErr e :=
  wp_of_error (step_spec g hI) h

end BbRe.Lemmas.SchedInv
