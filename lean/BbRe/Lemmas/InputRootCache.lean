import BbRe.Model.InputRoot
/-!
Invariants of the model of `cachingDirectoryFetcher` (C17, `cache_keys_separate`).
-/
namespace BbRe.Lemmas.InputRoot.Cache
open BbRe.InputRoot.Cache

/-- What a call must be answered with: `content d` is *the* Directory message with
digest `d`, `root t` the root directory of the Tree object with digest `t`.
No relation between the two functions is assumed. -/
def expected (content root : Nat → Nat) : Call → Nat
  | .directory d => content d
  | .treeRoot t => root t
  | .treeChild _ c => content c

def expectedKey (content root : Nat → Nat) (k : Key) : Nat :=
  if k.isTreeRoot then root k.digest else content k.digest

theorem expected_eq_key (content root : Nat → Nat) (call : Call) :
    expected content root call = expectedKey content root (keyOf call) := by
  cases call <;> simp [expected, expectedKey, keyOf]

/-- Every cached object is the right one for its key (digest *and* tree-root flag). -/
def Sound (content root : Nat → Nat) (es : List Entry) : Prop :=
  ∀ e ∈ es, e.msg = expectedKey content root e.key

theorem find_some {es : List Entry} {k : Key} {e : Entry} (h : find es k = some e) :
    e ∈ es ∧ e.key = k := by
  simp only [find] at h
  exact ⟨List.mem_of_find?_eq_some h, by simpa using List.find?_some h⟩

theorem find_none {es : List Entry} {k : Key} (h : find es k = none) : ∀ e ∈ es, e.key ≠ k := by
  simp only [find, List.find?_eq_none] at h
  intro e he
  simpa using h e he

theorem mem_touch {es : List Entry} {k : Key} {e : Entry} (h : e ∈ touch es k) : e ∈ es := by
  simp only [touch] at h
  cases hf : find es k with
  | none => simpa [hf] using h
  | some e' =>
    simp only [hf, List.mem_append, List.mem_filter, List.mem_singleton] at h
    rcases h with h | h
    · exact h.1
    · exact h ▸ (find_some hf).1

theorem mem_evict {mc ms sz : Nat} {es : List Entry} {e : Entry} (h : e ∈ evict mc ms sz es) : e ∈ es := by
  induction es with
  | nil => simp [evict] at h
  | cons x xs ih =>
    simp only [evict] at h
    split at h
    · exact List.mem_cons_of_mem _ (ih h)
    · exact h

theorem evict_length (mc ms sz : Nat) (es : List Entry) :
    (evict mc ms sz es).length = 0 ∨ (evict mc ms sz es).length < mc := by
  induction es with
  | nil => left; rfl
  | cons x xs ih =>
    simp only [evict]
    split
    · exact ih
    · rename_i h
      right
      simp only [Bool.or_eq_true, decide_eq_true_eq, not_or, Nat.not_le] at h
      exact h.1

theorem evict_total (mc ms sz : Nat) (es : List Entry) :
    (evict mc ms sz es).length = 0 ∨ total (evict mc ms sz es) + sz ≤ ms := by
  induction es with
  | nil => left; rfl
  | cons x xs ih =>
    simp only [evict]
    split
    · exact ih
    · rename_i h
      right
      simp only [Bool.or_eq_true, decide_eq_true_eq, not_or, Nat.not_le, Nat.not_lt] at h
      exact h.2

theorem sound_get (content root : Nat → Nat) (s : State) (call : Call) (base : Option Nat) (size : Nat)
    (hs : Sound content root s.entries)
    (hb : ∀ m, base = some m → m = expected content root call) :
    Sound content root (get s call base size).1.entries ∧
    (replyMsg (get s call base size).2 = none ∨
     replyMsg (get s call base size).2 = some (expected content root call)) := by
  simp only [BbRe.InputRoot.Cache.get]
  cases hf : find s.entries (keyOf call) with
  | some e =>
    simp only []
    refine ⟨fun e' he' => hs e' (mem_touch he'), Or.inr ?_⟩
    have := find_some hf
    simp only [replyMsg, Option.some.injEq]
    rw [hs e this.1, this.2, expected_eq_key]
  | none =>
    cases base with
    | none => exact ⟨hs, Or.inl rfl⟩
    | some m =>
      simp only []
      refine ⟨?_, Or.inr (by simp [replyMsg, hb m rfl])⟩
      simp only [BbRe.InputRoot.Cache.insert, hf]
      intro e he
      simp only [List.mem_append, List.mem_singleton] at he
      rcases he with he | he
      · exact hs e (mem_evict he)
      · subst he
        simp only []
        rw [hb m rfl, expected_eq_key]

/-- Distinct keys, and the bounds of `insert`. -/
def Keyed (es : List Entry) : Prop := (es.map (·.key)).Nodup

theorem keyed_sublist_evict (mc ms sz : Nat) (es : List Entry) (h : Keyed es) : Keyed (evict mc ms sz es) := by
  induction es with
  | nil => simpa [evict] using h
  | cons x xs ih =>
    simp only [evict]
    split
    · apply ih
      simp only [Keyed, List.map_cons, List.nodup_cons] at h
      exact h.2
    · exact h

theorem keyed_touch (es : List Entry) (k : Key) (h : Keyed es) : Keyed (touch es k) := by
  simp only [touch]
  cases hf : find es k with
  | none => exact h
  | some e =>
    simp only [Keyed, List.map_append, List.map_cons, List.map_nil]
    rw [List.nodup_append]
    refine ⟨?_, by simp, ?_⟩
    · exact (List.Sublist.map _ List.filter_sublist).nodup h
    · intro a ha b hb hab
      simp only [List.mem_singleton] at hb
      simp only [List.mem_map, List.mem_filter] at ha
      obtain ⟨e', ⟨_, hne⟩, rfl⟩ := ha
      rw [hb, (find_some hf).2] at hab
      simp [hab] at hne

theorem keyed_get (s : State) (call : Call) (base : Option Nat) (size : Nat) (h : Keyed s.entries) :
    Keyed (get s call base size).1.entries := by
  simp only [BbRe.InputRoot.Cache.get]
  cases hf : find s.entries (keyOf call) with
  | some e => exact keyed_touch _ _ h
  | none =>
    cases base with
    | none => exact h
    | some m =>
      simp only [BbRe.InputRoot.Cache.insert, hf, Keyed, List.map_append, List.map_cons, List.map_nil]
      rw [List.nodup_append]
      refine ⟨keyed_sublist_evict _ _ _ _ h, by simp, ?_⟩
      intro a ha b hb hab
      simp only [List.mem_singleton] at hb
      obtain ⟨e', he', rfl⟩ := List.mem_map.1 ha
      exact find_none hf e' (mem_evict he') (hab.trans hb)

theorem length_get (s : State) (call : Call) (base : Option Nat) (size : Nat)
    (hk : Keyed s.entries) (h : s.entries.length ≤ max s.maxCount 1) :
    (get s call base size).1.entries.length ≤ max s.maxCount 1 ∧
    (get s call base size).1.maxCount = s.maxCount := by
  simp only [BbRe.InputRoot.Cache.get]
  cases hf : find s.entries (keyOf call) with
  | some e =>
    refine ⟨?_, rfl⟩
    simp only [touch, hf, List.length_append, List.length_cons, List.length_nil]
    have hmem := (find_some hf).1
    have hlt : (s.entries.filter fun e' => e'.key ≠ keyOf call).length < s.entries.length := by
      apply List.length_filter_lt_length_iff_exists.2
      exact ⟨e, hmem, by simp [(find_some hf).2]⟩
    omega
  | none =>
    cases base with
    | none => exact ⟨h, rfl⟩
    | some m =>
      refine ⟨?_, by simp [BbRe.InputRoot.Cache.insert, hf]⟩
      simp only [BbRe.InputRoot.Cache.insert, hf, List.length_append, List.length_cons, List.length_nil]
      rcases evict_length s.maxCount s.maxSize size s.entries with h0 | h0 <;> omega

end BbRe.Lemmas.InputRoot.Cache
