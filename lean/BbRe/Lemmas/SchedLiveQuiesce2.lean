import BbRe.Lemmas.SchedLiveQuiesce
/-!
With fresh client ids, an operation's waiter count *equals* the number of
streams parked on it (C06 quiescence): no waiter leaks.
-/
namespace BbRe.Lemmas.SchedLive
open BbRe.Sched

/-- at most one parked stream per client -/
def ClientsNodup (s : State) : Prop := (s.streams.map (·.client)).Nodup

/-- waiter counts are exact -/
def WEq (s : State) : Prop := ∀ o op, s.op? o = some op → op.waiters = cnt s o

theorem filter_len_eq {α} (p q : α → Bool) (l : List α) (h : ∀ x ∈ l, p x = q x) :
    (l.filter p).length = (l.filter q).length := by
  rw [List.filter_congr h]

theorem cntWo_eq_of_no_stream {s : State} {c : Nat} (h : hasStream s c = false) (k : Nat) : cntWo s c k = cnt s k := by
  unfold cntWo cnt
  have : s.streams.filter (fun x => x.client ≠ c) = s.streams := by
    rw [List.filter_eq_self]
    intro st hm
    unfold hasStream at h
    rw [List.any_eq_false] at h
    simpa using h st hm
  rw [this]

theorem filter_split {α} (key : α → Nat) (p : α → Bool) (c : Nat) (l : List α) (hnd : (l.map key).Nodup)
    (x : α) (hx : x ∈ l) (hk : key x = c) :
    (l.filter p).length = (l.filter (fun a => p a && decide (key a ≠ c))).length + (if p x = true then 1 else 0) := by
  induction l with
  | nil => cases hx
  | cons a r ih =>
    simp only [List.map_cons, List.nodup_cons] at hnd
    rcases List.mem_cons.1 hx with rfl | hx
    · have hr : ∀ y ∈ r, (p y && decide (key y ≠ c)) = p y := by
        intro y hy
        have : key y ≠ c := by intro e; exact hnd.1 (List.mem_map.2 ⟨y, hy, by rw [e, hk]⟩)
        simp [this]
      have hlen : (r.filter (fun a => p a && decide (key a ≠ c))).length = (r.filter p).length :=
        filter_len_eq _ _ r hr
      have hq : (p x && decide (key x ≠ c)) = false := by simp [hk]
      rw [List.filter_cons, List.filter_cons]
      simp only [hq, Bool.false_eq_true, if_false]
      cases hp : p x
      · simp only [Bool.false_eq_true, if_false, Nat.add_zero]; exact hlen.symm
      · simp only [if_true, List.length_cons]; omega
    · have hac : key a ≠ c := by intro e; exact hnd.1 (List.mem_map.2 ⟨x, hx, by rw [hk, e]⟩)
      have := ih hnd.2 hx
      have hq : (p a && decide (key a ≠ c)) = p a := by simp [hac]
      rw [List.filter_cons, List.filter_cons]
      simp only [hq]
      cases hp : p a
      · simp only [Bool.false_eq_true, if_false]; exact this
      · simp only [if_true, List.length_cons]; omega

/-- with one stream per client: the streams of others, plus `c`'s own stream -/
theorem cnt_split {s : State} (hn : ClientsNodup s) {c : Nat} {st : Stream} (hm : st ∈ s.streams) (hc : st.client = c)
    (k : Nat) : cnt s k = cntWo s c k + (if st.op = k then 1 else 0) := by
  unfold cnt cntWo
  rw [List.filter_filter]
  have := filter_split (fun x : Stream => x.client) (fun x : Stream => decide (x.op = k)) c s.streams hn st hm hc
  simp only [decide_eq_true_eq] at this
  exact this

theorem clientsNodup_filter_cons (s : State) (c : Nat) (hn : ClientsNodup s) (st : Stream) (hc : st.client = c) :
    ((st :: s.streams.filter (fun x => x.client ≠ c)).map (·.client)).Nodup := by
  simp only [List.map_cons, List.nodup_cons]
  refine ⟨?_, List.Nodup.sublist (List.Sublist.map _ List.filter_sublist) hn⟩
  intro hmem
  obtain ⟨x, hx, e⟩ := List.mem_map.1 hmem
  have := (List.mem_filter.1 hx).2
  simp only [ne_eq, decide_eq_true_eq] at this
  exact this (by rw [e, hc])

/-- exactness of the counts relative to the streams of clients other than `c`, with operation `o`
counting one more (the stream `c` is about to park on it / the waiter `c` just registered) -/
def WPre (s : State) (c o : Nat) : Prop :=
  ∀ k op, s.op? k = some op → op.waiters = cntWo s c k + (if k = o then 1 else 0)

theorem streamSend_weq {s s' : State} {c o : Nat} (hk : KeysOK s) (hn : ClientsNodup s) (hpre : WPre s c o)
    (hh : streamSend s c o = .ok s') : WEq s' ∧ ClientsNodup s' ∧ (∀ st ∈ s'.streams, st ∈ s.streams ∨ st.client = c) := by
  obtain ⟨op, t, hop, _, ⟨r, _, hw, rfl⟩ | ⟨_, rfl⟩⟩ := streamSend_ok hh
  · have hname := (hk.oname o op hop).1
    refine ⟨?_, ?_, ?_⟩
    · intro k opk e
      have hc : cnt (sendDone s c o op t r) k = cntWo s c k := by unfold cnt cntWo; simp
      have hop' : (sendDone s c o op t r).op? k = if o = k then some { op with waiters := op.waiters - 1 } else s.op? k := by
        simp [sendDone, State.op?, alookup_aset, hname]
      rw [hc]; rw [hop'] at e
      by_cases hko : o = k
      · subst hko
        simp only [if_true, Option.some.injEq] at e; subst e
        have := hpre o op hop; simp only [if_true] at this; simp only; omega
      · simp only [hko, if_false] at e
        have := hpre k opk e
        have hne : ¬ k = o := fun e' => hko e'.symm
        simp only [hne, if_false] at this; omega
    · unfold ClientsNodup; simp only [sendDone_streams]
      exact List.Nodup.sublist (List.Sublist.map _ List.filter_sublist) hn
    · intro st hm; simp only [sendDone_streams] at hm; exact .inl (List.mem_filter.1 hm).1
  · refine ⟨?_, ?_, ?_⟩
    · intro k opk e
      have hop' : (sendPark s c o t).op? k = s.op? k := by simp [State.op?]
      rw [hop'] at e
      have := hpre k opk e
      by_cases hko : k = o
      · subst hko
        have hc : cnt (sendPark s c k t) k = cntWo s c k + 1 := by unfold cnt cntWo; simp
        rw [hc]; simpa using this
      · have hok : ¬ o = k := fun e' => hko e'.symm
        have hc : cnt (sendPark s c o t) k = cntWo s c k := by
          unfold cnt cntWo; simp [hok]
        rw [hc]; simpa [hko] using this
    · unfold ClientsNodup; simp only [sendPark_streams]
      exact clientsNodup_filter_cons s c hn _ rfl
    · intro st hm
      simp only [sendPark_streams, List.mem_cons] at hm
      rcases hm with rfl | hm
      · exact .inr rfl
      · exact .inl (List.mem_filter.1 hm).1

/-- attaching a client that has no parked stream -/
theorem streamAttach_weq {s s' : State} {c o : Nat} (hk : KeysOK s) (hn : ClientsNodup s) (hw : WEq s)
    (hfresh : hasStream s c = false) (hh : streamAttach s c o = .ok s') :
    WEq s' ∧ ClientsNodup s' ∧ (∀ st ∈ s'.streams, st ∈ s.streams ∨ st.client = c) := by
  obtain ⟨op, hop, h1⟩ := streamAttach_ok hh
  have hname := (hk.oname o op hop).1
  have hkA : KeysOK (attachS s o op) :=
    (TStep.of_op (allow := True) (s := s) (s' := attachS s o op) (o2 := { op with waiters := op.waiters + 1 }) hop rfl rfl id rfl
      (by simp [attachS, hname]) rfl rfl hk).1
  have hopA : ∀ k, (attachS s o op).op? k = if o = k then some { op with waiters := op.waiters + 1 } else s.op? k := by
    intro k; simp [attachS, State.op?, alookup_aset, hname]
  refine streamSend_weq (s := attachS s o op) hkA hn ?_ h1
  intro k opk e
  rw [hopA] at e
  have hcw : cntWo (attachS s o op) c k = cnt s k := cntWo_eq_of_no_stream hfresh k
  rw [hcw]
  by_cases hko : o = k
  · subst hko
    simp only [if_true, Option.some.injEq] at e; subst e
    have := hw o op hop; simp only [if_true]; omega
  · simp only [hko, if_false] at e
    have hne : ¬ k = o := fun e' => hko e'.symm
    simp only [hne, if_false]; exact hw k opk e

theorem streamLeave_weq {s s' : State} {c code : Nat} (hk : KeysOK s) (hn : ClientsNodup s) (hw : WEq s)
    (hh : streamLeave s c code = .ok s') :
    WEq s' ∧ ClientsNodup s' ∧ (∀ st ∈ s'.streams, st ∈ s.streams) := by
  obtain ⟨st, op, hst, hop, hwn, rfl⟩ := streamLeave_ok hh
  have hname := (hk.oname st.op op hop).1
  have hm := List.mem_of_find?_eq_some hst
  have hcl : st.client = c := by simpa using List.find?_some hst
  refine ⟨?_, ?_, ?_⟩
  · intro k opk e
    have hc : cnt (leaveS s c st op code) k = cntWo s c k := by unfold cnt cntWo; simp
    have hop' : (leaveS s c st op code).op? k = if st.op = k then some { op with waiters := op.waiters - 1 } else s.op? k := by
      simp [leaveS, State.op?, alookup_aset, hname]
    rw [hc]; rw [hop'] at e
    have hsp := cnt_split hn hm hcl k
    by_cases hko : st.op = k
    · subst hko
      simp only [if_true, Option.some.injEq] at e; subst e
      have := hw st.op op hop; simp only [if_true] at hsp; simp only; omega
    · simp only [hko, if_false] at e hsp
      have := hw k opk e; omega
  · unfold ClientsNodup; simp only [leaveS_streams]
    exact List.Nodup.sublist (List.Sublist.map _ List.filter_sublist) hn
  · intro x hx; simp only [leaveS_streams] at hx; exact (List.mem_filter.1 hx).1

end BbRe.Lemmas.SchedLive
