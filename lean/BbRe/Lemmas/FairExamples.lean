import BbRe.Lemmas.FairWalk
import BbRe.Lemmas.FairHandoff
import BbRe.Lemmas.FairHandoffLive
/-!
Concrete snapshots used as non-vacuity witnesses and counterexamples in `Properties/C04.lean`,
and executable forms of the hypotheses (`isHeapB_iff`, `parkedListedB`).
-/
namespace BbRe.Lemmas.Fair
open BbRe.GoHeap BbRe.Fair BbRe.Lemmas.GoHeap

def natLess (a b : Nat) : Bool := decide (a < b)

theorem natLess_strictWeak : StrictWeak natLess := key_strictWeak_nat id

theorem isHeapB_iff {α : Type} (less : α → α → Bool) (a : Array α) : isHeapB less a = true ↔ IsHeap less a := by
  unfold isHeapB IsHeap IsHeapN
  rw [List.all_eq_true]
  constructor
  · intro h c hc0 hcn
    have := h c (List.mem_range.mpr hcn)
    simp only [Bool.or_eq_true, beq_iff_eq, Bool.not_eq_true'] at this
    rcases this with h0 | h1
    · omega
    · exact h1
  · intro h c hc
    simp only [Bool.or_eq_true, beq_iff_eq, Bool.not_eq_true']
    by_cases h0 : c = 0
    · exact Or.inl h0
    · exact Or.inr (h c (by omega) (List.mem_range.mp hc))

/-- A non-trivial snapshot: invocation `1` with children `2` (least recently started) and `3`,
one queued operation each, equal scores. -/
def exTree : Inv :=
  .mk 0 [] [1] 0 0 0 [] [] 0
    [.mk 1 [] [2, 3] 0 0 20 [] [] 0
      [.mk 2 [⟨2, 0, 10, 5⟩] [] 0 0 10 [] [] 0 [],
       .mk 3 [⟨3, 0, 10, 6⟩] [] 0 0 20 [] [] 0 []]]

/-- A worker that last served `[1, 3]`, started on `1` at time 100 and on `[1,3]` at time 480;
limits 1000 (level 0) and 50 (level 1); now 500. -/
def exW : WView := ⟨[1, 3], [1000, 50], [100, 480], 500⟩

theorem exTree_heapTree : HeapTree exTree := by
  have leaf : ∀ (k : Nat) (o : Op) (s : Nat), HeapTree (.mk k [o] [] 0 0 s [] [] 0 []) := by
    intro k o s
    refine HeapTree.mk _ (by simp [Inv.kids]) (by simp [Inv.queued]) ?_ ?_ ?_ ?_ ?_
    · intro k hk; simp [Inv.queued] at hk
    · intro c hc; simp [Inv.kids] at hc
    · intro c hc0 hcn; simp [Inv.ops] at hcn; omega
    · intro c hc0 hcn; simp [queuedNodes, Inv.queued] at hcn
    · intro c hc; simp [Inv.kids] at hc
  refine HeapTree.mk _ (by decide) (by decide) (by decide) (by decide)
    ((isHeapB_iff _ _).mp (by decide)) ((isHeapB_iff _ _).mp (by decide)) ?_
  intro c hc
  simp only [exTree, Inv.kids, List.mem_singleton] at hc
  subst hc
  refine HeapTree.mk _ (by decide) (by decide) (by decide) (by decide)
    ((isHeapB_iff _ _).mp (by decide)) ((isHeapB_iff _ _).mp (by decide)) ?_
  intro c hc
  simp only [Inv.kids, List.mem_cons, List.not_mem_nil, or_false] at hc
  rcases hc with rfl | rfl
  · exact leaf _ _ _
  · exact leaf _ _ _

mutual
/-- Executable form of `ParkedListed`. -/
def parkedListedB : Inv → Bool
  | .mk _ _ _ _ _ _ _ pk _ kids => kids.all (fun c => !c.hasParked || pk.contains c.key) && parkedListedL kids
def parkedListedL : List Inv → Bool
  | [] => true
  | c :: cs => parkedListedB c && parkedListedL cs
end

theorem parkedListedL_iff (cs : List Inv) : parkedListedL cs = true ↔ ∀ c ∈ cs, parkedListedB c = true := by
  induction cs with
  | nil => simp [parkedListedL]
  | cons c cs ih => rw [parkedListedL]; simp [ih]

theorem parkedListed_of_check : ∀ (p : List Nat) (t : Inv), parkedListedB t = true →
    ∀ n, nodeAt t p = some n → ∀ k c, n.child k = some c → c.hasParked = true → k ∈ n.parkedKids := by
  intro p
  induction p with
  | nil =>
    intro t ht n hn k c hc hp
    simp only [nodeAt, Option.some.injEq] at hn
    subst hn
    obtain ⟨hmem, hkey⟩ := mem_of_child t k c hc
    cases t with
    | mk _ _ _ _ _ _ _ pk _ kids =>
      rw [parkedListedB] at ht
      simp only [Bool.and_eq_true, List.all_eq_true, Bool.or_eq_true, Bool.not_eq_true',
        List.contains_iff_mem] at ht
      rcases ht.1 c hmem with h | h
      · rw [hp] at h; cases h
      · rw [hkey] at h; exact h
  | cons k' p ih =>
    intro t ht n hn k c hc hp
    simp only [nodeAt] at hn
    cases hc' : t.child k' with
    | none => rw [hc'] at hn; cases hn
    | some c' =>
      rw [hc'] at hn
      have hmem := (mem_of_child t k' c' hc').1
      have hc'ok : parkedListedB c' = true := by
        cases t with
        | mk _ _ _ _ _ _ _ pk _ kids =>
          rw [parkedListedB] at ht
          simp only [Bool.and_eq_true] at ht
          exact (parkedListedL_iff kids).mp ht.2 c' hmem
      exact ih c' hc'ok n hn k c hc hp

theorem parkedListed_of_checkB (t : Inv) (h : parkedListedB t = true) : ParkedListed t :=
  fun p n hn k c hc hp => parkedListed_of_check p t h n hn k c hc hp

/-- Workers 11 (at `[1,2]`), 12 (at `[1,3]`) and 13 (at `[4]`) are parked. -/
def exParked : Inv :=
  .mk 0 [] [] 0 0 0 [] [1, 4] 0
    [.mk 1 [] [] 0 1 0 [] [3, 2] 5
      [.mk 2 [] [] 0 1 0 [11] [] 5 [], .mk 3 [] [] 0 0 0 [12] [] 4 []],
     .mk 4 [] [] 0 0 0 [13] [] 3 []]



mutual
/-- Executable form of `ParkedSound`. -/
def parkedSoundB : Inv → Bool
  | .mk _ _ _ _ _ _ _ pk _ kids =>
    pk.all (fun k => match kids.find? (fun c => c.key == k) with | some c => c.hasParked | none => false) &&
      parkedSoundL kids
def parkedSoundL : List Inv → Bool
  | [] => true
  | c :: cs => parkedSoundB c && parkedSoundL cs
end

theorem parkedSoundL_iff (cs : List Inv) : parkedSoundL cs = true ↔ ∀ c ∈ cs, parkedSoundB c = true := by
  induction cs with
  | nil => simp [parkedSoundL]
  | cons c cs ih => rw [parkedSoundL]; simp [ih]

theorem parkedSound_of_check : ∀ (p : List Nat) (t : Inv), parkedSoundB t = true →
    ∀ n, nodeAt t p = some n → ∀ k ∈ n.parkedKids, ∃ c, n.child k = some c ∧ c.hasParked = true := by
  intro p
  induction p with
  | nil =>
    intro t ht n hn k hk
    simp only [nodeAt, Option.some.injEq] at hn
    subst hn
    cases t with
    | mk _ _ _ _ _ _ _ pk _ kids =>
      rw [parkedSoundB] at ht
      simp only [Bool.and_eq_true, List.all_eq_true] at ht
      have := ht.1 k hk
      unfold Inv.child
      simp only [Inv.kids]
      cases hf : kids.find? (fun c => c.key == k) with
      | none => rw [hf] at this; cases this
      | some c => rw [hf] at this; exact ⟨c, rfl, this⟩
  | cons k' p ih =>
    intro t ht n hn k hk
    simp only [nodeAt] at hn
    cases hc' : t.child k' with
    | none => rw [hc'] at hn; cases hn
    | some c' =>
      rw [hc'] at hn
      have hmem := (mem_of_child t k' c' hc').1
      have hc'ok : parkedSoundB c' = true := by
        cases t with
        | mk _ _ _ _ _ _ _ pk _ kids =>
          rw [parkedSoundB] at ht
          simp only [Bool.and_eq_true] at ht
          exact (parkedSoundL_iff kids).mp ht.2 c' hmem
      exact ih c' hc'ok n hn k hk

theorem parkedSound_of_checkB (t : Inv) (h : parkedSoundB t = true) : ParkedSound t :=
  fun p n hn k hk => parkedSound_of_check p t h n hn k hk



end BbRe.Lemmas.Fair
